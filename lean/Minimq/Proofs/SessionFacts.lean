import Minimq.Proofs.ArenaClosed
import Minimq.Proofs.Packets
/-
Facts about the session / runtime bookkeeping of the model (`Session`, `Runtime`, the primitives of
`SessOps.lean`, and the places in `Ops.lean` where they are used), for the property theorems C05
(fresh vs. resumed session), C10 (keep-alive), C12 (reconnecting) and C14 (Maximum Packet Size).
-/

namespace Minimq
open Gen World Outbound

/-! ## Maximum Packet Size (C14) -/

theorem packetTooLarge_false_iff (r : Runtime) (len : Nat) :
    r.packetTooLarge len = false ↔ ∀ m, r.maximumPacketSize = some m → len ≤ m := by
  unfold Runtime.packetTooLarge
  cases r.maximumPacketSize with
  | none => simp
  | some m => simp

theorem packetTooLarge_true_iff (r : Runtime) (len : Nat) :
    r.packetTooLarge len = true ↔ ∃ m, r.maximumPacketSize = some m ∧ m < len := by
  unfold Runtime.packetTooLarge
  cases r.maximumPacketSize with
  | none => simp
  | some m => simp

theorem packetTooLarge_mono (r : Runtime) {a c : Nat} (h : a ≤ c) (hc : r.packetTooLarge c = false) :
    r.packetTooLarge a = false := by
  rw [packetTooLarge_false_iff] at hc ⊢
  intro m hm; have := hc m hm; omega

/-- Every packet `perform_outbound_step` starts (or continues) writing is within the limit. -/
theorem prepareStep_write_within (w : World) (step : Outbound.Step) (pkt : Flushed) (bytes : Bytes) (written len : Nat)
    (h : prepareStep w step = .write pkt bytes written len) :
    w.sess.rt.packetTooLarge len = false ∧ bytes.length ≤ len := by
  unfold prepareStep at h
  cases step with
  | control a st =>
    cases st with
    | write wr =>
      simp only [] at h
      split at h
      · cases h
      · split at h
        · cases h
        · rename_i hh; cases h; simp at hh; exact ⟨hh, Nat.le_refl _⟩
    | flush => cases h
    | sent => cases h
  | release id rc st =>
    cases st with
    | write wr =>
      simp only [] at h
      split at h
      · cases h
      · split at h
        · cases h
        · rename_i hh; cases h; simp at hh; exact ⟨hh, Nat.le_refl _⟩
    | flush => cases h
    | sent => cases h
  | retained id off len' st =>
    cases st with
    | write wr =>
      simp only [] at h
      split at h
      · cases h
      · rename_i hh; cases h; simp at hh; exact ⟨hh, slice_length_le _ _ _⟩
    | flush => cases h
    | sent => cases h
end Minimq

namespace Minimq
open Gen World Outbound

/-- DISCONNECT: the guard in front of the write. -/
theorem afterFlush_discPre (fuel : Nat) (w : World) (d : Disconnect) :
    afterFlush (fuel + 1) w (.discPre d) =
      match encodeWithOffset CONTROL_PACKET_LEN d.chunks MT_Disconnect FLAGS_Disconnect with
      | .error e => w.finishErr "disconnect" (Err.ofSer e)
      | .ok (_, pkt) =>
        if w.sess.rt.packetTooLarge pkt.length then w.finishErr "disconnect" .packetTooLarge
        else doLocalWrite fuel w 2 pkt := by
  rw [afterFlush]
  rfl

/-- The encoder used by the QoS 0 publish path. -/
def q0Enc (r : PubReq) : Nat → (Nat → Nat → Bytes) → Except PubEncErr (Nat × Bytes) :=
  fun cap fill => encodePublishWithOffset cap
    { topic := r.topic, packetId := none, props := r.props, retain := r.retain, qos := 0, dup := false } r.payload fill

theorem afterFlush_publishPre_q0 (fuel : Nat) (w : World) (r : PubReq)
    (hv : r.props.validFor .Publish = true) (hq : effectiveQos w.sess.rt.maxQos w.sess.downgrade r.qos = 0)
    (hready : (w.live && canPublishS w.sess.data w.sess.rt 0) = true) :
    afterFlush (fuel + 1) w (.publishPre r) =
      let w' := { w with sess := (w.sess.encode (q0Enc r)).1 }
      match (w.sess.encode (q0Enc r)).2 with
      | .error e => w'.finishErr "publish" (pubErr e)
      | .ok (off, len) =>
        if w'.sess.rt.packetTooLarge len then w'.finishErr "publish" .packetTooLarge
        else doLocalWrite fuel w' 1 (w'.sess.data.outbound.retainedPacket off len) := by
  rw [afterFlush]
  simp only [hv, hq, hready, q0Enc]
  simp only [Bool.not_true, Bool.false_eq_true, if_false, gt_iff_lt, Nat.lt_irrefl]
  rfl
end Minimq

namespace Minimq
open Gen World Outbound

/-! ### A refused request leaves only scratch bytes and the identifier counter behind -/

/-- `s'` differs from `s` at most in the packet-identifier counter and in arena bytes outside the
retained packets (plus the packing of the arena). -/
structure SameButScratch (s s' : Session) : Prop where
  clientId : s'.clientId = s.clientId
  reader : s'.reader = s.reader
  rt : s'.rt = s.rt
  will : s'.will = s.will
  auth : s'.auth = s.auth
  expiry : s'.expiry = s.expiry
  downgrade : s'.downgrade = s.downgrade
  generation : s'.data.generation = s.data.generation
  pendingServerIds : s'.data.pendingServerIds = s.data.pendingServerIds
  sessionPresent : s'.data.sessionPresent = s.data.sessionPresent
  /-- identifier, length, send state and serial of every retained packet, in order -/
  retMeta : s'.data.outbound.meta = s.data.outbound.meta
  /-- the bytes of every retained packet, in order -/
  retContents : s'.data.outbound.contents = s.data.outbound.contents
  release : s'.data.outbound.release = s.data.outbound.release
  control : s'.data.outbound.control = s.data.outbound.control
  nextSer : s'.data.outbound.nextSer = s.data.outbound.nextSer
  capacity : s'.data.outbound.buf.length = s.data.outbound.buf.length

theorem nextPacketIdFuel_fields (fuel : Nat) (d : SessionData) :
    (d.nextPacketIdFuel fuel).1.generation = d.generation ∧
    (d.nextPacketIdFuel fuel).1.pendingServerIds = d.pendingServerIds ∧
    (d.nextPacketIdFuel fuel).1.sessionPresent = d.sessionPresent := by
  induction fuel generalizing d with
  | zero => exact ⟨rfl, rfl, rfl⟩
  | succ n ih =>
    simp only [SessionData.nextPacketIdFuel]
    split
    · exact ⟨rfl, rfl, rfl⟩
    · exact ih _

theorem nextPacketId_fields (d : SessionData) :
    d.nextPacketId.1.generation = d.generation ∧ d.nextPacketId.1.pendingServerIds = d.pendingServerIds ∧
    d.nextPacketId.1.sessionPresent = d.sessionPresent := nextPacketIdFuel_fields _ d

theorem encode_same {ε : Type} (s : Session) (enc : Nat → (Nat → Nat → Bytes) → Except ε (Nat × Bytes))
    (hinv : s.data.outbound.ArenaInv) (he : EncOk enc) : SameButScratch s (s.encode enc).1 := by
  obtain ⟨_, hc, hm, _, hbl, hr, hctl, hn, _⟩ := encodeAt_spec s.data.outbound enc hinv he
  rw [Session.encode_fst]
  exact ⟨rfl, rfl, rfl, rfl, rfl, rfl, rfl, rfl, rfl, rfl, hm, hc, hr, hctl, hn, hbl⟩

theorem alloc_encode_same {ε : Type} (s : Session) (enc : Nat → (Nat → Nat → Bytes) → Except ε (Nat × Bytes))
    (hinv : s.data.outbound.ArenaInv) (he : EncOk enc) : SameButScratch s (s.alloc.1.encode enc).1 := by
  have ho : s.alloc.1.data.outbound = s.data.outbound := by
    rw [Session.alloc_fst]; exact nextPacketId_outbound s.data
  have h1 := encode_same s.alloc.1 enc (ho ▸ hinv) he
  obtain ⟨g1, g2, g3⟩ := nextPacketId_fields s.data
  have ha : s.alloc.1 = { s with data := s.data.nextPacketId.1 } := Session.alloc_fst s
  refine ⟨?_, ?_, ?_, ?_, ?_, ?_, ?_, ?_, ?_, ?_, ?_, ?_, ?_, ?_, ?_, ?_⟩
  · rw [h1.clientId, ha]
  · rw [h1.reader, ha]
  · rw [h1.rt, ha]
  · rw [h1.will, ha]
  · rw [h1.auth, ha]
  · rw [h1.expiry, ha]
  · rw [h1.downgrade, ha]
  · rw [h1.generation, ha]; exact g1
  · rw [h1.pendingServerIds, ha]; exact g2
  · rw [h1.sessionPresent, ha]; exact g3
  · rw [h1.retMeta, ho]
  · rw [h1.retContents, ho]
  · rw [h1.release, ho]
  · rw [h1.control, ho]
  · rw [h1.nextSer, ho]
  · rw [h1.capacity, ho]

theorem alloc_encode_rt {ε : Type} (s : Session) (enc : Nat → (Nat → Nat → Bytes) → Except ε (Nat × Bytes)) :
    (s.alloc.1.encode enc).1.rt = s.rt := by
  rw [Session.encode_fst, Session.alloc_fst]; rfl

theorem encode_rt {ε : Type} (s : Session) (enc : Nat → (Nat → Nat → Bytes) → Except ε (Nat × Bytes)) :
    (s.encode enc).1.rt = s.rt := by
  rw [Session.encode_fst]; rfl

/-- The encoders of the identifier-bearing requests. -/
def subEnc (id : Nat) (r : SubReq) : Nat → (Nat → Nat → Bytes) → Except SerErr (Nat × Bytes) :=
  fun cap _ => encodeWithOffset cap (subscribeChunks id (.slice r.props) r.topics) MT_Subscribe FLAGS_Subscribe

def unsubEnc (id : Nat) (r : UnsubReq) : Nat → (Nat → Nat → Bytes) → Except SerErr (Nat × Bytes) :=
  fun cap _ => encodeWithOffset cap (unsubscribeChunks id (.slice r.props) r.topics) MT_Unsubscribe FLAGS_Unsubscribe

def pubEnc (id qos : Nat) (r : PubReq) : Nat → (Nat → Nat → Bytes) → Except PubEncErr (Nat × Bytes) :=
  fun cap fill => encodePublishWithOffset cap
    { topic := r.topic, packetId := some id, props := r.props, retain := r.retain, qos := qos, dup := false } r.payload fill

theorem afterFlush_subPre_tooLarge (fuel : Nat) (w : World) (r : SubReq) (off len : Nat)
    (hfull : w.sess.data.outbound.retainedFull = false)
    (hres : (w.sess.alloc.1.encode (subEnc w.sess.alloc.2 r)).2 = .ok (off, len))
    (hbig : w.sess.rt.packetTooLarge len = true) :
    afterFlush (fuel + 1) w (.subPre r) =
      ({ w with sess := (w.sess.alloc.1.encode (subEnc w.sess.alloc.2 r)).1 } : World).finishErr "subscribe" .packetTooLarge := by
  rw [afterFlush]
  simp only [hfull, Bool.false_eq_true, if_false]
  unfold subEnc at hres
  simp only [hres, alloc_encode_rt, hbig, if_true]
  rfl

theorem afterFlush_unsubPre_tooLarge (fuel : Nat) (w : World) (r : UnsubReq) (off len : Nat)
    (hfull : w.sess.data.outbound.retainedFull = false)
    (hres : (w.sess.alloc.1.encode (unsubEnc w.sess.alloc.2 r)).2 = .ok (off, len))
    (hbig : w.sess.rt.packetTooLarge len = true) :
    afterFlush (fuel + 1) w (.unsubPre r) =
      ({ w with sess := (w.sess.alloc.1.encode (unsubEnc w.sess.alloc.2 r)).1 } : World).finishErr "unsubscribe" .packetTooLarge := by
  rw [afterFlush]
  simp only [hfull, Bool.false_eq_true, if_false]
  unfold unsubEnc at hres
  simp only [hres, alloc_encode_rt, hbig, if_true]
  rfl

theorem afterFlush_publishPre_tooLarge (fuel : Nat) (w : World) (r : PubReq) (qos off len : Nat)
    (hv : r.props.validFor .Publish = true) (hq : effectiveQos w.sess.rt.maxQos w.sess.downgrade r.qos = qos)
    (hpos : 0 < qos)
    (hfull : w.sess.data.outbound.retainedFull = false)
    (hready : (w.live && canPublishS w.sess.data w.sess.rt qos) = true)
    (hres : (w.sess.alloc.1.encode (pubEnc w.sess.alloc.2 qos r)).2 = .ok (off, len))
    (hbig : w.sess.rt.packetTooLarge len = true) :
    afterFlush (fuel + 1) w (.publishPre r) =
      ({ w with sess := (w.sess.alloc.1.encode (pubEnc w.sess.alloc.2 qos r)).1 } : World).finishErr "publish" .packetTooLarge := by
  have ho : w.sess.alloc.1.data.outbound = w.sess.data.outbound := by
    rw [Session.alloc_fst]; exact nextPacketId_outbound w.sess.data
  have hrt : w.sess.alloc.1.rt = w.sess.rt := by rw [Session.alloc_fst]
  have hcp : canPublishS w.sess.alloc.1.data w.sess.alloc.1.rt qos = canPublishS w.sess.data w.sess.rt qos := by
    unfold canPublishS; rw [ho, hrt]
  have hlive : ({ w with sess := w.sess.alloc.1 } : World).live = w.live := rfl
  rw [afterFlush]
  simp only [hv, hq, hpos, gt_iff_lt, Bool.not_true, Bool.false_eq_true, if_false, if_true, ho, hfull, hlive, hcp, hready]
  unfold pubEnc at hres
  simp only [hres, alloc_encode_rt, hbig, if_true]
  rfl
end Minimq

namespace Minimq
open Gen World Outbound

/-! ### Inbound: a mandatory acknowledgement that would not fit -/

theorem checkSize_tooLarge_iff (r : Runtime) (enc : Except SerErr Bytes) :
    checkSize r enc = .error .packetTooLarge ↔ ∃ bs, enc = .ok bs ∧ r.packetTooLarge bs.length = true := by
  unfold checkSize
  cases enc with
  | error e => cases e <;> simp [Err.ofSer]
  | ok bs =>
    simp only [Except.ok.injEq, exists_eq_left']
    split <;> simp_all

theorem checkSize_ok_iff (r : Runtime) (enc : Except SerErr Bytes) :
    checkSize r enc = .ok () ↔ ∃ bs, enc = .ok bs ∧ r.packetTooLarge bs.length = false := by
  unfold checkSize
  cases enc with
  | error e => simp
  | ok bs =>
    simp only [Except.ok.injEq, exists_eq_left']
    split <;> simp_all

theorem ack_encode (typ flags id rc : Nat) :
    ∃ bs, (encodeWithOffset CONTROL_PACKET_LEN (ackChunks id rc) typ flags).map (·.2) = .ok bs ∧ bs.length = 5 := by
  have hb : catChunks (ackChunks id rc) = .ok (u16be id ++ [b rc]) := by
    simp [ackChunks, catChunks]
  have hl : (u16be id ++ [b rc]).length = 3 := by simp [u16be]
  rw [encodeWithOffset_complete hb (by rw [hl]; decide) (by rw [hl]; decide)]
  refine ⟨_, rfl, ?_⟩
  simp [u16be, encodeVarint]

/-- PUBACK / PUBREC / PUBCOMP are five bytes long: fixed header, remaining length 3, identifier,
reason code. -/
theorem sf_encodeControl_ack (a : ControlAction) (h : a.typ ≠ MT_PingReq) :
    ∃ bs, encodeControl a = .ok bs ∧ bs.length = 5 := by
  unfold encodeControl
  simp only [h, if_false]
  exact ack_encode _ _ _ _

theorem encodePubrel_len (id rc : Nat) : ∃ bs, encodePubrel id rc = .ok bs ∧ bs.length = 5 :=
  ack_encode _ _ _ _

theorem encodeControl_pingReq : encodeControl ControlAction.pingReq = .ok [b 0xC0, b 0] := by
  unfold encodeControl
  have hb : catChunks ([] : List (Except SerErr Bytes)) = .ok [] := rfl
  have ht : ControlAction.pingReq.typ = MT_PingReq := rfl
  simp only [ht, if_true]
  rw [encodeWithOffset_complete hb (by decide) (by decide)]
  rfl

/-- The size check of a five-byte acknowledgement fails exactly when the limit is below five. -/
theorem checkSize_ack (r : Runtime) (enc : Except SerErr Bytes) (h : ∃ bs, enc = .ok bs ∧ bs.length = 5) :
    (checkSize r enc = .error .packetTooLarge ↔ ∃ m, r.maximumPacketSize = some m ∧ m < 5) ∧
    (checkSize r enc = .ok () ∨ checkSize r enc = .error .packetTooLarge) := by
  obtain ⟨bs, rfl, hl⟩ := h
  constructor
  · rw [checkSize_tooLarge_iff]
    simp only [Except.ok.injEq, exists_eq_left', hl, packetTooLarge_true_iff]
  · unfold checkSize
    simp only []
    split <;> simp
end Minimq

namespace Minimq
open Gen World Outbound

theorem quotaInc_mps (r : Runtime) : (quotaInc r).maximumPacketSize = r.maximumPacketSize := rfl

/-- QoS 1 PUBLISH from the broker: if the PUBACK would not fit, the packet is refused with
`PacketTooLarge` (and nothing was queued). -/
theorem handlePacket_publish_q1_tooLarge (d : SessionData) (r : Runtime) (topic props payload : Bytes) (id : Nat)
    (retain dup : Bool) (hid : id ≠ 0) (m : Nat) (hm : r.maximumPacketSize = some m) (hlt : m < 5) :
    handlePacket d r (.publish topic (some id) props payload retain 1 dup) = (d, r, .error .packetTooLarge) := by
  have hc : ∀ a : ControlAction, a.typ ≠ MT_PingReq → checkSize r (encodeControl a) = .error .packetTooLarge :=
    fun a ha => ((checkSize_ack r _ (sf_encodeControl_ack a ha)).1).2 ⟨m, hm, hlt⟩
  simp only [handlePacket, hid, if_false, if_true, show (1 = 0) = False by simp]
  rw [hc _ (by simp [MT_PubAck, MT_PubRec, MT_PubComp, MT_PingReq])]

/-- QoS 2 PUBLISH from the broker: same for the PUBREC. The identifier may already have been
recorded in `pendingServerIds` (that happens before the size check, as in the code). -/
theorem handlePacket_publish_q2_tooLarge (d : SessionData) (r : Runtime) (topic props payload : Bytes) (id : Nat)
    (retain dup : Bool) (hid : id ≠ 0) (m : Nat) (hm : r.maximumPacketSize = some m) (hlt : m < 5) :
    (handlePacket d r (.publish topic (some id) props payload retain 2 dup)).2.2 = .error .packetTooLarge ∧
    (handlePacket d r (.publish topic (some id) props payload retain 2 dup)).1.outbound = d.outbound := by
  have hc : ∀ a : ControlAction, a.typ ≠ MT_PingReq → checkSize r (encodeControl a) = .error .packetTooLarge :=
    fun a ha => ((checkSize_ack r _ (sf_encodeControl_ack a ha)).1).2 ⟨m, hm, hlt⟩
  simp only [handlePacket, hid, if_false, show (2 = 0) = False by simp, show (2 = 1) = False by simp]
  rw [hc _ (by simp [MT_PubAck, MT_PubRec, MT_PubComp, MT_PingReq])]
  exact ⟨rfl, rfl⟩

/-- PUBREL from the broker: same for the PUBCOMP. -/
theorem handlePacket_pubRel_tooLarge (d : SessionData) (r : Runtime) (id : Nat) (rs : ReasonIn)
    (hid : id ≠ 0) (m : Nat) (hm : r.maximumPacketSize = some m) (hlt : m < 5) :
    (handlePacket d r (.pubRel id rs)).2.2 = .error .packetTooLarge ∧
    (handlePacket d r (.pubRel id rs)).1.outbound = d.outbound := by
  have hc : ∀ a : ControlAction, a.typ ≠ MT_PingReq → checkSize r (encodeControl a) = .error .packetTooLarge :=
    fun a ha => ((checkSize_ack r _ (sf_encodeControl_ack a ha)).1).2 ⟨m, hm, hlt⟩
  simp only [handlePacket, hid, if_false]
  rw [hc _ (by simp [MT_PubAck, MT_PubRec, MT_PubComp, MT_PingReq])]
  exact ⟨rfl, rfl⟩

/-- PUBREC for a retained QoS 2 publish with a success code: same for the PUBREL; no release entry
is created. -/
theorem handlePacket_pubRec_tooLarge (d : SessionData) (r : Runtime) (id : Nat) (rs : ReasonIn)
    (hfound : (d.outbound.ackPacket id .pubRec).2 = true) (hok : reasonSuccess rs.rc = true)
    (m : Nat) (hm : r.maximumPacketSize = some m) (hlt : m < 5) :
    (handlePacket d r (.pubRec id rs)).2.2 = .error .packetTooLarge ∧
    (handlePacket d r (.pubRec id rs)).1.outbound.release = d.outbound.release := by
  have hc : checkSize r (encodePubrel id RC_Success) = .error .packetTooLarge :=
    ((checkSize_ack r _ (encodePubrel_len id RC_Success)).1).2 ⟨m, hm, hlt⟩
  have hrel : (d.outbound.ackPacket id .pubRec).1.release = d.outbound.release := by
    unfold ackPacket
    simp only []
    split
    · simp [compact]
    · rfl
  simp only [handlePacket, hfound, hok, if_true, Bool.not_true, Bool.false_eq_true, if_false]
  rw [hc]
  exact ⟨rfl, hrel⟩

/-- Conversely `handle_packet` reports `PacketTooLarge` only when the broker's Maximum Packet Size
is below the five bytes of an acknowledgement. -/
theorem handlePacket_tooLarge_only (d : SessionData) (r : Runtime) (p : Recv)
    (h : (handlePacket d r p).2.2 = .error .packetTooLarge) : ∃ m, r.maximumPacketSize = some m ∧ m < 5 := by
  have hc : ∀ (r' : Runtime) (a : ControlAction), r'.maximumPacketSize = r.maximumPacketSize → a.typ ≠ MT_PingReq →
      checkSize r' (encodeControl a) = .error .packetTooLarge → ∃ m, r.maximumPacketSize = some m ∧ m < 5 := by
    intro r' a hr' ha hh
    have := ((checkSize_ack r' _ (sf_encodeControl_ack a ha)).1).1 hh
    rw [hr'] at this; exact this
  have hc2 : ∀ (r' : Runtime) (a : ControlAction) e, r'.maximumPacketSize = r.maximumPacketSize → a.typ ≠ MT_PingReq →
      checkSize r' (encodeControl a) = .error e → e = .packetTooLarge := by
    intro r' a e _ ha hh
    rcases (checkSize_ack r' _ (sf_encodeControl_ack a ha)).2 with h1 | h1
    · rw [h1] at hh; cases hh
    · rw [h1] at hh; cases hh; rfl
  cases p with
  | connAck sp rc props => simp [handlePacket] at h
  | pingResp => simp [handlePacket] at h
  | disconnect rc props => simp [handlePacket] at h
  | subAck id props codes =>
    simp only [handlePacket] at h
    repeat' split at h
    all_goals simp at h
  | unsubAck id props codes =>
    simp only [handlePacket] at h
    repeat' split at h
    all_goals simp at h
  | pubAck id rs =>
    simp only [handlePacket] at h
    repeat' split at h
    all_goals simp at h
  | pubComp id rs =>
    simp only [handlePacket] at h
    repeat' split at h
    all_goals simp at h
  | pubRec id rs =>
    simp only [handlePacket] at h
    split at h
    · split at h
      · simp at h
      · split at h
        · rename_i e he
          simp only [Except.error.injEq] at h; subst h
          have := ((checkSize_ack _ _ (encodePubrel_len id RC_Success)).1).1 he
          exact this
        · split at h <;> simp at h
    · repeat' split at h
      all_goals simp at h
  | pubRel id rs =>
    simp only [handlePacket] at h
    split at h
    · simp at h
    · split at h
      · rename_i e he
        simp only [Except.error.injEq] at h; subst h
        exact hc r _ rfl (by simp [MT_PubAck, MT_PubRec, MT_PubComp, MT_PingReq]) he
      · split at h <;> simp at h
  | publish topic id props payload retain qos dup =>
    simp only [handlePacket] at h
    split at h
    · simp at h
    · split at h
      · simp at h
      · split at h
        · simp at h
        · split at h
          · split at h
            · rename_i e he
              simp only [Except.error.injEq] at h; subst h
              exact hc r _ rfl (by simp [MT_PubAck, MT_PubRec, MT_PubComp, MT_PingReq]) he
            · split at h <;> simp at h
          · split at h
            · rename_i e he
              simp only [Except.error.injEq] at h; subst h
              exact hc r _ rfl (by simp [MT_PubAck, MT_PubRec, MT_PubComp, MT_PingReq]) he
            · repeat' split at h
              all_goals simp at h
end Minimq

namespace Minimq
open Gen World Outbound

/-- `process_received_packet` closes the connection when `handle_packet` reports `PacketTooLarge`. -/
theorem processReceivedPacket_tooLarge (w : World) (len : Nat) (pkt : Recv)
    (hav : w.sess.reader.packetAvailable = true) (htake : w.sess.takePkt.2 = some (len, pkt))
    (hh : (w.sess.takePkt.1.handle pkt).2 = .error .packetTooLarge) :
    w.processReceivedPacket =
      (({ w with sess := (w.sess.takePkt.1.handle pkt).1 } : World).handleDisconnect, .error .packetTooLarge) := by
  unfold World.processReceivedPacket
  simp only [hav, Bool.not_true, Bool.false_eq_true, if_false]
  rw [htake]
  simp only []
  rw [hh]

/-! ### The receive buffer -/

theorem probe_fields (r r1 : Reader) (h : r.probe = some r1) : r1.cap = r.cap ∧ r1.data = r.data := by
  unfold Reader.probe at h
  split at h
  · simp at h; subst h; exact ⟨rfl, rfl⟩
  · simp only [] at h
    split at h
    · simp at h
    · simp at h; subst h; exact ⟨rfl, rfl⟩

/-- `receive_buffer` never changes the bytes or the size of the buffer, and every non-empty window
it offers ends inside the buffer. -/
theorem receiveWindow_spec (r r1 : Reader) (n : Nat) (h : r.receiveWindow = some (r1, n)) :
    r1.cap = r.cap ∧ r1.data = r.data ∧ r1.last = r.last ∧
    (0 < n → r1.data.length + n ≤ r1.cap) ∧ (r.data.length ≤ r.cap → r1.data.length + n ≤ r1.cap) := by
  unfold Reader.receiveWindow at h
  simp only [] at h
  split at h
  · simp at h
  · rename_i r2 hr2
    have hf : r2.cap = r.cap ∧ r2.data = r.data ∧ r2.last = r.last := by
      split at hr2
      · unfold Reader.probe at hr2
        split at hr2
        · simp at hr2; subst hr2; exact ⟨rfl, rfl, rfl⟩
        · simp only [] at hr2
          split at hr2
          · simp at hr2
          · simp at hr2; subst hr2; exact ⟨rfl, rfl, rfl⟩
      · simp at hr2; subst hr2; exact ⟨rfl, rfl, rfl⟩
    have fin : ∀ stop, (if stop ≤ r2.cap then some (r2, stop - r2.readBytes) else none) = some (r1, n) →
        r1.cap = r.cap ∧ r1.data = r.data ∧ r1.last = r.last ∧
        (0 < n → r1.data.length + n ≤ r1.cap) ∧ (r.data.length ≤ r.cap → r1.data.length + n ≤ r1.cap) := by
      intro stop h
      split at h
      · rename_i hstop
        simp only [Option.some.injEq, Prod.mk.injEq] at h
        obtain ⟨rfl, rfl⟩ := h
        refine ⟨hf.1, hf.2.1, hf.2.2, ?_, ?_⟩
        · intro hpos; simp only [Reader.readBytes] at hpos hstop ⊢; omega
        · intro hle; rw [← hf.2.1, ← hf.1] at hle; simp only [Reader.readBytes] at hstop ⊢; omega
      · simp at h
    cases hpl : r2.packetLength with
    | none => rw [hpl] at h; exact fin _ h
    | some l => rw [hpl] at h; exact fin _ h

/-- A packet whose announced length exceeds the receive buffer is refused. -/
theorem receiveWindow_none_of_long (r : Reader) (l : Nat) (h : r.packetLength = some l) (hl : r.cap < l) :
    r.receiveWindow = none := by
  unfold Reader.receiveWindow
  simp only [h, Option.isNone_some, Bool.false_eq_true, if_false]
  rw [if_neg (by omega)]

/-- …also when the length has just been read from the fixed header. -/
theorem receiveWindow_none_of_probe_long (r : Reader) (l : Nat) (hn : r.packetLength = none)
    (h2 : 1 < r.data.length) (hp : probeLen (r.data.drop 1) 0 0 = some l) (hl : r.cap < l) :
    r.receiveWindow = none := by
  unfold Reader.receiveWindow Reader.probe
  simp only [hn, Option.isNone_none, if_true, Reader.readBytes, hp, Option.isNone_some, Bool.and_false,
    Bool.false_eq_true, if_false]
  rw [if_neg (by omega)]
  simp only []
  rw [if_neg (by omega)]

theorem ioRead_len (w w' : World) (n : Nat) (bytes : Bytes) (h : w.ioRead n = (w', .ok bytes)) : bytes.length ≤ n := by
  unfold World.ioRead at h
  split at h
  · simp at h
  · simp only [] at h
    repeat' split at h
    all_goals simp only [Prod.mk.injEq, reduceCtorEq, and_false] at h
    all_goals (
      obtain ⟨_, h2⟩ := h
      cases h2
      simp only [List.length_take]
      omega)

/-- One read into the window offered keeps the committed bytes inside the buffer. -/
theorem window_read_commit_bound (s s1 : Session) (n : Nat) (w w' : World) (bytes : Bytes)
    (hb : s.reader.data.length ≤ s.reader.cap) (hw : s.window = some (s1, n)) (hr : w.ioRead n = (w', .ok bytes)) :
    (s1.commit bytes).reader.data.length ≤ (s1.commit bytes).reader.cap ∧ (s1.commit bytes).reader.cap = s.reader.cap := by
  unfold Session.window at hw
  split at hw
  · simp at hw
  · rename_i rd k hrw
    simp only [Option.some.injEq, Prod.mk.injEq] at hw
    obtain ⟨rfl, rfl⟩ := hw
    obtain ⟨h1, h2, _, _, h5⟩ := receiveWindow_spec _ _ _ hrw
    have := ioRead_len _ _ _ _ hr
    have := h5 hb
    simp only [Session.commit, Reader.commit, List.length_append]
    exact ⟨by omega, h1⟩

/-- The wait loop and the handshake end the connection when the reader refuses the packet. -/
theorem doWaitRead_window_none (fuel : Nat) (w : World) (outer : Outer) (d : Option Nat) (y : Bool)
    (hav : w.sess.reader.packetAvailable = false) (hw : w.sess.window = none) :
    doWaitRead (fuel + 1) w outer d y = (w.handleDisconnect).finishErr (outerName outer) .peerInvalid := by
  rw [doWaitRead]
  simp only [hav, Bool.false_eq_true, if_false, hw]

theorem doConnRead_window_none (fuel : Nat) (w : World)
    (hav : w.sess.reader.packetAvailable = false) (hw : w.sess.window = none) :
    doConnRead (fuel + 1) w = (w.handleDisconnect).finishErr "connect" .peerInvalid := by
  rw [doConnRead]
  simp only [hav, Bool.false_eq_true, if_false, hw]

theorem window_none_iff (s : Session) : s.window = none ↔ s.reader.receiveWindow = none := by
  unfold Session.window
  split <;> simp_all

theorem takePacket_cap (r : Reader) : r.takePacket.1.cap = r.cap := by
  unfold Reader.takePacket
  split
  · rfl
  · simp only []; split <;> rfl

theorem takePkt_reader_cap (s : Session) : s.takePkt.1.reader.cap = s.reader.cap := by
  unfold Session.takePkt
  have := takePacket_cap s.reader
  cases h : s.reader.takePacket with
  | mk rd res => rw [h] at this; exact this

/-- The size of the receive buffer never changes. -/
theorem closed_readerCap (c : Nat) : Closed (fun s => s.reader.cap = c) where
  queuePing := by
    intro s now s' h hq
    rcases Session.queuePing_ok hq with rfl | ⟨o, _, rfl⟩
    · exact h
    · exact h
  completeFlush := by intro s pkt now h; exact h
  setWritten := by intro s pkt a c h; exact h
  takePkt := by
    intro s h
    show s.takePkt.1.reader.cap = c
    rw [takePkt_reader_cap]; exact h
  handle := by
    intro s p h
    unfold Session.handle
    exact h
  handleDisconnect := by intro s h; exact h
  activate := by
    intro s sp block now h
    unfold Session.activate
    simp only []
    split <;> split <;> exact h
  alloc := by intro s h; rw [Session.alloc_fst]; exact h
  encodeConnect := by intro s c h; rw [Session.encode_fst]; exact h
  encodeAfterAlloc := by intro ε s enc _ h; rw [Session.encode_fst, Session.alloc_fst]; exact h
  encodeScratch := by intro ε s enc _ h; rw [Session.encode_fst]; exact h
  enqueue := by
    intro ε s enc off len isPub s3 typ _ _ _ h _ _ hr
    rw [Session.encode_fst, Session.alloc_fst] at hr
    unfold Session.retain at hr
    split at hr
    · simp at hr
    · simp at hr; subst hr
      split <;> exact h
  clearPing := by intro s h; exact h
  noteActivity := by intro s now h; exact h
  window := by
    intro s s' n h hw
    unfold Session.window at hw
    split at hw
    · simp at hw
    · rename_i rd k hrw
      simp at hw; rw [← hw.1]
      exact (receiveWindow_spec _ _ _ hrw).1.trans h
  commit := by intro s bytes h; exact h
  beginConnect := by intro s h; exact h
  setPid := by intro s n _ _ h; exact h
end Minimq

namespace Minimq
open Gen World Outbound

/-! ## Session identity: clean start, client identifier (C05) -/

/-- One step of a session primitive — exactly the steps over which `Closed` quantifies. -/
inductive Prim : Session → Session → Prop
  | queuePing (s : Session) (now : Nat) (s' : Session) (h : s.queuePing now = .ok s') : Prim s s'
  | completeFlush (s : Session) (pkt : Flushed) (now : Nat) : Prim s (s.completeFlush pkt now)
  | setWritten (s : Session) (pkt : Flushed) (a c : Nat) : Prim s (s.setWritten pkt a c)
  | takePkt (s : Session) : Prim s s.takePkt.1
  | handle (s : Session) (p : Recv) : Prim s (s.handle p).1
  | handleDisconnect (s : Session) : Prim s s.handleDisconnect
  | activate (s : Session) (sp : Bool) (block : Bytes) (now : Nat) : Prim s (s.activate sp block now).1
  | alloc (s : Session) : Prim s s.alloc.1
  | encodeConnect (s : Session) (c : Connect) : Prim s (s.encode (ε := SerErr) (fun cap _ => encodeConnect cap c)).1
  | encodeAfterAlloc {ε : Type} (s : Session) (enc : Nat → (Nat → Nat → Bytes) → Except ε (Nat × Bytes)) (he : EncOk enc) :
      Prim s (s.alloc.1.encode enc).1
  | encodeScratch {ε : Type} (s : Session) (enc : Nat → (Nat → Nat → Bytes) → Except ε (Nat × Bytes)) (he : EncOk enc) :
      Prim s (s.encode enc).1
  | enqueue {ε : Type} (s : Session) (enc : Nat → (Nat → Nat → Bytes) → Except ε (Nat × Bytes)) (off len : Nat)
      (isPub : Bool) (s3 : Session) (typ : Nat) (he : EncOk enc) (ht : EncTyp enc typ) (hp : isPub = true ↔ typ = MT_Publish)
      (hq : isPub = true → s.rt.sendQuota ≠ 0) (hres : (s.alloc.1.encode enc).2 = .ok (off, len))
      (hr : (s.alloc.1.encode enc).1.retain s.alloc.2 off len isPub = some s3) : Prim s s3
  | clearPing (s : Session) : Prim s s.clearPing
  | noteActivity (s : Session) (now : Nat) : Prim s (s.noteActivity now)
  | window (s s' : Session) (n : Nat) (h : s.window = some (s', n)) : Prim s s'
  | commit (s : Session) (bytes : Bytes) : Prim s (s.commit bytes)
  | beginConnect (s : Session) : Prim s s.beginConnect
  | setPid (s : Session) (n : Nat) (h1 : 1 ≤ n) (h2 : n ≤ 65535) : Prim s (s.setPid n)

theorem Closed.prim {P : Session → Prop} (hc : Closed P) {s s' : Session} (hp : Prim s s') : P s → P s' := by
  cases hp with
  | queuePing _ t _ hq => exact fun h => hc.queuePing _ _ _ h hq
  | completeFlush => exact fun h => hc.completeFlush _ _ _ h
  | setWritten => exact fun h => hc.setWritten _ _ _ _ h
  | takePkt => exact fun h => hc.takePkt _ h
  | handle => exact fun h => hc.handle _ _ h
  | handleDisconnect => exact fun h => hc.handleDisconnect _ h
  | activate => exact fun h => hc.activate _ _ _ _ h
  | alloc => exact fun h => hc.alloc _ h
  | encodeConnect => exact fun h => hc.encodeConnect _ _ h
  | encodeAfterAlloc _ enc he => exact fun h => hc.encodeAfterAlloc _ _ he h
  | encodeScratch _ enc he => exact fun h => hc.encodeScratch _ _ he h
  | enqueue _ enc off len isPub _ typ he ht hp hq hres hr => exact fun h => hc.enqueue _ _ _ _ _ _ _ he ht hp h hq hres hr
  | clearPing => exact fun h => hc.clearPing _ h
  | noteActivity => exact fun h => hc.noteActivity _ _ h
  | window _ _ n hw => exact fun h => hc.window _ _ _ h hw
  | commit => exact fun h => hc.commit _ _ h
  | beginConnect => exact fun h => hc.beginConnect _ h
  | setPid _ n h1 h2 => exact fun h => hc.setPid _ _ h1 h2 h

/-- `Prim` is faithful to `Closed`: a predicate is closed iff it is preserved by every `Prim` step. -/
theorem closed_iff_prim (P : Session → Prop) : Closed P ↔ ∀ s s', Prim s s' → P s → P s' := by
  constructor
  · intro hc s s' hp
    exact hc.prim hp
  · intro hp
    exact {
      queuePing := fun s now s' h hq => hp _ _ (.queuePing s now s' hq) h
      completeFlush := fun s pkt now h => hp _ _ (.completeFlush s pkt now) h
      setWritten := fun s pkt a c h => hp _ _ (.setWritten s pkt a c) h
      takePkt := fun s h => hp _ _ (.takePkt s) h
      handle := fun s p h => hp _ _ (.handle s p) h
      handleDisconnect := fun s h => hp _ _ (.handleDisconnect s) h
      activate := fun s sp block now h => hp _ _ (.activate s sp block now) h
      alloc := fun s h => hp _ _ (.alloc s) h
      encodeConnect := fun s c h => hp _ _ (.encodeConnect s c) h
      encodeAfterAlloc := fun s enc he h => hp _ _ (.encodeAfterAlloc s enc he) h
      encodeScratch := fun s enc he h => hp _ _ (.encodeScratch s enc he) h
      enqueue := fun s enc off len isPub s3 typ he ht hpub h hq hres hr =>
        hp _ _ (.enqueue s enc off len isPub s3 typ he ht hpub hq hres hr) h
      clearPing := fun s h => hp _ _ (.clearPing s) h
      noteActivity := fun s now h => hp _ _ (.noteActivity s now) h
      window := fun s s' n h hw => hp _ _ (.window s s' n hw) h
      commit := fun s bytes h => hp _ _ (.commit s bytes) h
      beginConnect := fun s h => hp _ _ (.beginConnect s) h
      setPid := fun s n h1 h2 h => hp _ _ (.setPid s n h1 h2) h }

/-- The part of the session that identifies it towards the broker and the application. -/
structure SameIdentity (s s' : Session) : Prop where
  sessionPresent : s'.data.sessionPresent = s.data.sessionPresent
  clientId : s'.clientId = s.clientId
  generation : s'.data.generation = s.data.generation
  configuredKeepaliveMs : s'.rt.configuredKeepaliveMs = s.rt.configuredKeepaliveMs
  will : s'.will = s.will
  auth : s'.auth = s.auth
  expiry : s'.expiry = s.expiry

theorem SameIdentity.refl (s : Session) : SameIdentity s s := ⟨rfl, rfl, rfl, rfl, rfl, rfl, rfl⟩

theorem handlePacket_identity (d : SessionData) (r : Runtime) (p : Recv) :
    (handlePacket d r p).1.sessionPresent = d.sessionPresent ∧ (handlePacket d r p).1.generation = d.generation ∧
    (handlePacket d r p).2.1.configuredKeepaliveMs = r.configuredKeepaliveMs ∧
    (handlePacket d r p).2.1.keepaliveMs = r.keepaliveMs := by
  cases p <;> simp only [handlePacket]
  all_goals (repeat' split)
  all_goals (first | exact ⟨rfl, rfl, rfl, rfl⟩ | simp [quotaInc])

theorem Session.handle_fst_rt (s : Session) (p : Recv) : (s.handle p).1.rt = (handlePacket s.data s.rt p).2.1 := by
  unfold Session.handle
  cases handlePacket s.data s.rt p with
  | mk d r => cases r; rfl

theorem Session.handle_fst_other (s : Session) (p : Recv) :
    (s.handle p).1.clientId = s.clientId ∧ (s.handle p).1.will = s.will ∧ (s.handle p).1.auth = s.auth ∧
    (s.handle p).1.expiry = s.expiry ∧ (s.handle p).1.reader = s.reader := by
  unfold Session.handle
  cases handlePacket s.data s.rt p with
  | mk d r => cases r; exact ⟨rfl, rfl, rfl, rfl, rfl⟩

/-- Every primitive other than CONNACK processing leaves the identity of the session alone. -/
theorem Prim.identity {s s' : Session} (h : Prim s s') :
    (∃ sp block now, s' = (s.activate sp block now).1) ∨ SameIdentity s s' := by
  cases h with
  | activate _ sp block t => exact Or.inl ⟨sp, block, t, rfl⟩
  | queuePing _ t _ hq =>
    right
    rcases Session.queuePing_ok hq with rfl | ⟨o, _, rfl⟩
    · exact SameIdentity.refl _
    · exact ⟨rfl, rfl, rfl, rfl, rfl, rfl, rfl⟩
  | completeFlush _ pkt t =>
    right
    refine ⟨rfl, rfl, rfl, ?_, rfl, rfl, rfl⟩
    simp only [Session.completeFlush, Runtime.noteOutboundActivity]
    cases pkt <;> simp only []
    split <;> rfl
  | setWritten => exact Or.inr ⟨rfl, rfl, rfl, rfl, rfl, rfl, rfl⟩
  | takePkt =>
    right
    unfold Session.takePkt
    cases s.reader.takePacket; exact ⟨rfl, rfl, rfl, rfl, rfl, rfl, rfl⟩
  | handle _ p =>
    right
    obtain ⟨h1, h2, h3, _⟩ := handlePacket_identity s.data s.rt p
    obtain ⟨g1, g2, g3, g4, _⟩ := Session.handle_fst_other s p
    exact ⟨by rw [Session.handle_fst_data]; exact h1, g1, by rw [Session.handle_fst_data]; exact h2,
      by rw [Session.handle_fst_rt]; exact h3, g2, g3, g4⟩
  | handleDisconnect => exact Or.inr ⟨rfl, rfl, rfl, rfl, rfl, rfl, rfl⟩
  | alloc =>
    right
    obtain ⟨g1, _, g3⟩ := nextPacketId_fields s.data
    rw [Session.alloc_fst]
    exact ⟨g3, rfl, g1, rfl, rfl, rfl, rfl⟩
  | encodeConnect _ c => right; rw [Session.encode_fst]; exact ⟨rfl, rfl, rfl, rfl, rfl, rfl, rfl⟩
  | encodeAfterAlloc _ enc he =>
    right
    obtain ⟨g1, _, g3⟩ := nextPacketId_fields s.data
    rw [Session.encode_fst, Session.alloc_fst]
    exact ⟨g3, rfl, g1, rfl, rfl, rfl, rfl⟩
  | encodeScratch _ enc he => right; rw [Session.encode_fst]; exact ⟨rfl, rfl, rfl, rfl, rfl, rfl, rfl⟩
  | enqueue _ enc off len isPub _ typ he ht hp hq hres hr =>
    right
    obtain ⟨g1, _, g3⟩ := nextPacketId_fields s.data
    rw [Session.encode_fst, Session.alloc_fst] at hr
    unfold Session.retain at hr
    split at hr
    · simp at hr
    · simp at hr; subst hr
      split <;> exact ⟨g3, rfl, g1, rfl, rfl, rfl, rfl⟩
  | clearPing => exact Or.inr ⟨rfl, rfl, rfl, rfl, rfl, rfl, rfl⟩
  | noteActivity => exact Or.inr ⟨rfl, rfl, rfl, rfl, rfl, rfl, rfl⟩
  | window _ _ n hw =>
    right
    unfold Session.window at hw
    split at hw
    · simp at hw
    · simp at hw; rw [← hw.1]; exact ⟨rfl, rfl, rfl, rfl, rfl, rfl, rfl⟩
  | commit => exact Or.inr ⟨rfl, rfl, rfl, rfl, rfl, rfl, rfl⟩
  | beginConnect => exact Or.inr ⟨rfl, rfl, rfl, rfl, rfl, rfl, rfl⟩
  | setPid => exact Or.inr ⟨rfl, rfl, rfl, rfl, rfl, rfl, rfl⟩
end Minimq

namespace Minimq
open Gen World Outbound

/-! ### The CONNACK property loop -/

/-- The numeric value of a property of kind `k`, if the item is one. -/
def numOf (k : PropKind) : Option Property → Option Nat
  | some ⟨k', .n v⟩ => if k' = k then some v else none
  | _ => none

/-- The string / binary value of a property of kind `k`, if the item is one. -/
def strOf (k : PropKind) : Option Property → Option Bytes
  | some ⟨k', .s bs⟩ => if k' = k then some bs else none
  | _ => none

/-- The value of the last property of kind `k` in the block. -/
def lastNum (k : PropKind) (items : List (Option Property)) : Option Nat := items.reverse.findSome? (numOf k)
def lastStr (k : PropKind) (items : List (Option Property)) : Option Bytes := items.reverse.findSome? (strOf k)

/-- What the loop accepts: a decodable property; an assigned client identifier of at most
`CLIENT_ID_CAPACITY` bytes; a non-zero Receive Maximum; a Maximum QoS of at most 2. -/
def connackItemOk (item : Option Property) : Prop :=
  item ≠ none ∧ (∀ bs, strOf .AssignedClientIdentifier item = some bs → bs.length ≤ CLIENT_ID_CAPACITY) ∧
  (∀ v, numOf .ReceiveMaximum item = some v → v ≠ 0) ∧ (∀ v, numOf .MaximumQoS item = some v → v ≤ 2)

theorem connackStep_error (q : Nat) (e : Err) (item : Option Property) : Session.connackStep q (.error e) item = .error e := rfl

theorem foldl_connackStep_error (q : Nat) (e : Err) (items : List (Option Property)) :
    items.foldl (Session.connackStep q) (.error e) = .error e := by
  induction items with
  | nil => rfl
  | cons x xs ih => simp only [List.foldl_cons, connackStep_error, ih]

/-- One iteration: it succeeds exactly on acceptable items, and then each component is updated by the
property it belongs to and left alone by all others. -/
theorem connackStep_ok (q : Nat) (acc : Session.ConnackAcc) (item : Option Property) :
    (connackItemOk item →
      Session.connackStep q (.ok acc) item = .ok
        (((numOf .ReceiveMaximum item).map (min · q)).getD acc.1,
         ((numOf .ReceiveMaximum item).map (min · q)).getD acc.2.1,
         (numOf .MaximumQoS item).or acc.2.2.1,
         (numOf .MaximumPacketSize item).or acc.2.2.2.1,
         ((numOf .ServerKeepAlive item).map (· * 1000)).getD acc.2.2.2.2.1,
         (strOf .AssignedClientIdentifier item).or acc.2.2.2.2.2)) ∧
    (¬ connackItemOk item → Session.connackStep q (.ok acc) item = .error .peerInvalid) := by
  obtain ⟨sq, msq, mq, mps, ka, cid⟩ := acc
  cases item with
  | none => simp [connackItemOk, Session.connackStep]
  | some p =>
    obtain ⟨k, v⟩ := p
    cases v with
    | n v =>
      cases k <;> simp [connackItemOk, Session.connackStep, numOf, strOf] <;> omega
    | s bs =>
      cases k <;> simp [connackItemOk, Session.connackStep, numOf, strOf] <;> omega
    | p a c =>
      cases k <;> simp [connackItemOk, Session.connackStep, numOf, strOf]
end Minimq

namespace Minimq
open Gen World Outbound

theorem lastNum_cons (k : PropKind) (x : Option Property) (xs : List (Option Property)) :
    lastNum k (x :: xs) = (lastNum k xs).or (numOf k x) := by
  simp [lastNum, List.findSome?_append, List.findSome?_cons]
  cases numOf k x <;> simp

theorem lastStr_cons (k : PropKind) (x : Option Property) (xs : List (Option Property)) :
    lastStr k (x :: xs) = (lastStr k xs).or (strOf k x) := by
  simp [lastStr, List.findSome?_append, List.findSome?_cons]
  cases strOf k x <;> simp

theorem map_or_getD {α β} (a b : Option α) (f : α → β) (c : β) :
    ((a.or b).map f).getD c = (a.map f).getD ((b.map f).getD c) := by
  cases a <;> cases b <;> rfl

/-- **The CONNACK property loop.** It succeeds exactly when every item is acceptable; then, for each
setting, the last property of its kind wins and a missing property leaves the initial value. -/
theorem connackFold_spec (q : Nat) (acc : Session.ConnackAcc) (items : List (Option Property)) :
    ((∀ it ∈ items, connackItemOk it) →
      items.foldl (Session.connackStep q) (.ok acc) = .ok
        (((lastNum .ReceiveMaximum items).map (min · q)).getD acc.1,
         ((lastNum .ReceiveMaximum items).map (min · q)).getD acc.2.1,
         (lastNum .MaximumQoS items).or acc.2.2.1,
         (lastNum .MaximumPacketSize items).or acc.2.2.2.1,
         ((lastNum .ServerKeepAlive items).map (· * 1000)).getD acc.2.2.2.2.1,
         (lastStr .AssignedClientIdentifier items).or acc.2.2.2.2.2)) ∧
    (¬ (∀ it ∈ items, connackItemOk it) →
      items.foldl (Session.connackStep q) (.ok acc) = .error .peerInvalid) := by
  induction items generalizing acc with
  | nil =>
    obtain ⟨sq, msq, mq, mps, ka, cid⟩ := acc
    constructor
    · intro _; simp [lastNum, lastStr]
    · intro h; exact absurd (by simp) h
  | cons x xs ih =>
    obtain ⟨hok, herr⟩ := connackStep_ok q acc x
    by_cases hx : connackItemOk x
    · simp only [List.foldl_cons, hok hx]
      obtain ⟨i1, i2⟩ := ih (((numOf .ReceiveMaximum x).map (min · q)).getD acc.1,
         ((numOf .ReceiveMaximum x).map (min · q)).getD acc.2.1,
         (numOf .MaximumQoS x).or acc.2.2.1,
         (numOf .MaximumPacketSize x).or acc.2.2.2.1,
         ((numOf .ServerKeepAlive x).map (· * 1000)).getD acc.2.2.2.2.1,
         (strOf .AssignedClientIdentifier x).or acc.2.2.2.2.2)
      constructor
      · intro hall
        rw [i1 (fun it hit => hall it (List.mem_cons_of_mem _ hit))]
        simp only [lastNum_cons, lastStr_cons, map_or_getD, Option.or_assoc]
      · intro hall
        apply i2
        intro h; apply hall
        intro it hit
        rcases List.mem_cons.mp hit with rfl | hit
        · exact hx
        · exact h it hit
    · simp only [List.foldl_cons, herr hx, foldl_connackStep_error]
      constructor
      · intro hall; exact absurd (hall x (List.mem_cons_self ..)) hx
      · intro _; first | rfl | trivial

/-- The block is acceptable: what `connect_handshake` requires of the CONNACK properties. -/
def connackBlockOk (block : Bytes) : Prop := ∀ it ∈ iterEncoded block, connackItemOk it

/-- The settings negotiated by an acceptable block, given the configured keep-alive. -/
def connackSettings (kaCfg : Nat) (block : Bytes) : Session.ConnackAcc :=
  (((lastNum .ReceiveMaximum (iterEncoded block)).map (min · Outbound.maxInflight)).getD Outbound.maxInflight,
   ((lastNum .ReceiveMaximum (iterEncoded block)).map (min · Outbound.maxInflight)).getD Outbound.maxInflight,
   lastNum .MaximumQoS (iterEncoded block),
   lastNum .MaximumPacketSize (iterEncoded block),
   ((lastNum .ServerKeepAlive (iterEncoded block)).map (· * 1000)).getD kaCfg,
   lastStr .AssignedClientIdentifier (iterEncoded block))

theorem connackFold_ok (kaCfg : Nat) (block : Bytes) (h : connackBlockOk block) :
    (iterEncoded block).foldl (Session.connackStep Outbound.maxInflight)
      (.ok (Outbound.maxInflight, Outbound.maxInflight, none, none, kaCfg, none)) = .ok (connackSettings kaCfg block) := by
  rw [(connackFold_spec _ _ _).1 h]
  simp [connackSettings]

theorem connackFold_err (kaCfg : Nat) (block : Bytes) (h : ¬ connackBlockOk block) :
    (iterEncoded block).foldl (Session.connackStep Outbound.maxInflight)
      (.ok (Outbound.maxInflight, Outbound.maxInflight, none, none, kaCfg, none)) = .error .peerInvalid :=
  (connackFold_spec _ _ _).2 h

/-- The session after the fresh-session reset that `activate` performs first when `sp = false`. -/
def Session.preActivate (s : Session) (sp : Bool) : Session := if !sp then { s with data := s.data.reset } else s

/-- The session after a successful CONNACK, spelled out. -/
def Session.activated (s : Session) (sp : Bool) (block : Bytes) (now : Nat) : Session :=
  let s1 := s.preActivate sp
  let c := connackSettings s1.rt.configuredKeepaliveMs block
  let rt : Runtime :=
    { s1.rt with sessionResumed := sp, keepaliveMs := c.2.2.2.2.1, sendQuota := c.1 - s1.data.outbound.inflightPublishes, maxSendQuota := c.2.1, maxQos := c.2.2.1, maximumPacketSize := c.2.2.2.1, deficit := decide (c.1 < s1.data.outbound.inflightPublishes) }
  let rt2 : Runtime := { rt with nextPing := rt.keepaliveSendInterval.map (fun i => now + i * 1000), pingTimeout := none }
  { s1 with rt := rt2, clientId := c.2.2.2.2.2.getD s1.clientId, data := { s1.data with sessionPresent := true, everAccepted := true, halfReset := false, assignedId := c.2.2.2.2.2.or s1.data.assignedId }, inlog := [{ pkt := none, acks := s1.data.outbound.control.map PendingControl.action }], rmark := s1.data.outbound.nextRser }

/-- The session after a rejected CONNACK: the reset (if `sp = false`) stays, the ghost flag `halfReset`
records it, and the session is disconnected. -/
def Session.rejected (s : Session) (sp : Bool) : Session :=
  let s1 := s.preActivate sp
  ({ s1 with data := { s1.data with halfReset := s1.data.halfReset || !sp } } : Session).handleDisconnect

/-- **CONNACK processing, case by case.** -/
theorem activate_eq (s : Session) (sp : Bool) (block : Bytes) (now : Nat) :
    (connackBlockOk block → s.activate sp block now = (s.activated sp block now, .ok ())) ∧
    (¬ connackBlockOk block → s.activate sp block now = (s.rejected sp, .error .peerInvalid)) := by
  constructor
  · intro h
    unfold Session.activate
    simp only []
    rw [connackFold_ok _ _ h]
    simp only [Session.activated, Session.preActivate, connackSettings, Runtime.noteOutboundActivity]
    rfl
  · intro h
    unfold Session.activate
    simp only []
    rw [connackFold_err _ _ h]
    simp only [Session.rejected, Session.preActivate]

theorem activate_ok_iff (s : Session) (sp : Bool) (block : Bytes) (now : Nat) :
    (s.activate sp block now).2 = .ok () ↔ connackBlockOk block := by
  by_cases h : connackBlockOk block
  · rw [(activate_eq s sp block now).1 h]; simp [h]
  · rw [(activate_eq s sp block now).2 h]; simp [h]
end Minimq

namespace Minimq
open Gen World Outbound

theorem lastStr_mem {k : PropKind} {items : List (Option Property)} {bs : Bytes} (h : lastStr k items = some bs) :
    ∃ it ∈ items, strOf k it = some bs := by
  unfold lastStr at h
  obtain ⟨it, hit, hs⟩ := List.exists_of_findSome?_eq_some h
  exact ⟨it, List.mem_reverse.mp hit, hs⟩

theorem lastNum_mem {k : PropKind} {items : List (Option Property)} {v : Nat} (h : lastNum k items = some v) :
    ∃ it ∈ items, numOf k it = some v := by
  unfold lastNum at h
  obtain ⟨it, hit, hs⟩ := List.exists_of_findSome?_eq_some h
  exact ⟨it, List.mem_reverse.mp hit, hs⟩

theorem lastNum_none {k : PropKind} {items : List (Option Property)} (h : ∀ it ∈ items, numOf k it = none) :
    lastNum k items = none := by
  unfold lastNum
  rw [List.findSome?_eq_none_iff]
  intro it hit; exact h it (List.mem_reverse.mp hit)

/-- The last property of kind `k`: nothing of that kind follows it. -/
theorem lastNum_append (k : PropKind) (pre post : List (Option Property)) (x : Option Property) (v : Nat)
    (hx : numOf k x = some v) (hpost : ∀ it ∈ post, numOf k it = none) : lastNum k (pre ++ x :: post) = some v := by
  have : (List.findSome? (numOf k) post.reverse) = none := by
    rw [List.findSome?_eq_none_iff]
    intro it hit; exact hpost it (List.mem_reverse.mp hit)
  simp [lastNum, List.findSome?_append, this, hx]

/-! ### What a CONNACK does to the identity of the session -/

theorem preActivate_true (s : Session) : s.preActivate true = s := rfl
theorem preActivate_false (s : Session) : s.preActivate false = { s with data := s.data.reset } := rfl

theorem activated_sessionPresent (s : Session) (sp : Bool) (block : Bytes) (now : Nat) :
    (s.activated sp block now).data.sessionPresent = true := rfl

theorem activated_clientId (s : Session) (sp : Bool) (block : Bytes) (now : Nat) :
    (s.activated sp block now).clientId = (lastStr .AssignedClientIdentifier (iterEncoded block)).getD s.clientId := by
  cases sp <;> rfl

/-- `sessionPresent` stays true across every primitive except a CONNACK reporting no session. -/
theorem Prim.sessionPresent_stays {s s' : Session} (h : Prim s s') (hp : s.data.sessionPresent = true) :
    s'.data.sessionPresent = true ∨ ∃ block now, s' = (s.activate false block now).1 := by
  rcases h.identity with ⟨sp, block, now, rfl⟩ | hid
  · cases sp with
    | false => exact Or.inr ⟨block, now, rfl⟩
    | true =>
      left
      by_cases hb : connackBlockOk block
      · rw [(activate_eq s true block now).1 hb]; rfl
      · rw [(activate_eq s true block now).2 hb]; exact hp
  · exact Or.inl (hid.sessionPresent.trans hp)

/-- It becomes true only in a successful CONNACK. -/
theorem Prim.sessionPresent_rises {s s' : Session} (h : Prim s s') (hp : s.data.sessionPresent = false)
    (hp' : s'.data.sessionPresent = true) :
    ∃ sp block now, s' = (s.activate sp block now).1 ∧ (s.activate sp block now).2 = .ok () := by
  rcases h.identity with ⟨sp, block, now, rfl⟩ | hid
  · refine ⟨sp, block, now, rfl, ?_⟩
    by_cases hb : connackBlockOk block
    · exact (activate_ok_iff s sp block now).2 hb
    · rw [(activate_eq s sp block now).2 hb] at hp'
      cases sp with
      | true => rw [show (s.rejected true).data.sessionPresent = s.data.sessionPresent from rfl, hp] at hp'; cases hp'
      | false => rw [show (s.rejected false).data.sessionPresent = false from rfl] at hp'; cases hp'
  · rw [hid.sessionPresent, hp] at hp'; cases hp'

/-- It becomes false only in a CONNACK that reports no session and is then rejected because of
its properties (finding: the reset happens before the properties are validated). -/
theorem Prim.sessionPresent_falls {s s' : Session} (h : Prim s s') (hp : s.data.sessionPresent = true)
    (hp' : s'.data.sessionPresent = false) :
    ∃ block now, s' = (s.activate false block now).1 ∧ (s.activate false block now).2 = .error .peerInvalid ∧
      ¬ connackBlockOk block := by
  rcases h.sessionPresent_stays hp with h1 | ⟨block, now, rfl⟩
  · rw [h1] at hp'; cases hp'
  · refine ⟨block, now, rfl, ?_⟩
    by_cases hb : connackBlockOk block
    · rw [(activate_eq s false block now).1 hb] at hp'; cases hp'
    · rw [(activate_eq s false block now).2 hb]; exact ⟨rfl, hb⟩

/-- The client identifier changes only in a successful CONNACK that carries an Assigned Client
Identifier; it is then the value of the last such property, which is at most `CLIENT_ID_CAPACITY` bytes. -/
theorem Prim.clientId_changes {s s' : Session} (h : Prim s s') :
    s'.clientId = s.clientId ∨
    ∃ sp block now cid, s' = (s.activate sp block now).1 ∧ (s.activate sp block now).2 = .ok () ∧
      lastStr .AssignedClientIdentifier (iterEncoded block) = some cid ∧ s'.clientId = cid ∧
      cid.length ≤ CLIENT_ID_CAPACITY := by
  rcases h.identity with ⟨sp, block, now, rfl⟩ | hid
  · by_cases hb : connackBlockOk block
    · cases hl : lastStr .AssignedClientIdentifier (iterEncoded block) with
      | none =>
        left
        rw [(activate_eq s sp block now).1 hb, activated_clientId, hl]; rfl
      | some cid =>
        right
        refine ⟨sp, block, now, cid, rfl, (activate_ok_iff s sp block now).2 hb, hl, ?_, ?_⟩
        · rw [(activate_eq s sp block now).1 hb, activated_clientId, hl]; rfl
        · obtain ⟨it, hit, hs⟩ := lastStr_mem hl
          exact (hb it hit).2.1 cid hs
    · left
      rw [(activate_eq s sp block now).2 hb]
      cases sp <;> rfl
  · exact Or.inl hid.clientId

/-- A run of primitives in which no CONNACK reporting "no session" is processed. -/
inductive ResumingRun : Session → Session → Prop
  | refl (s : Session) : ResumingRun s s
  | step {s s1 s2 : Session} (h : ResumingRun s s1) (p : Prim s1 s2)
      (hno : ¬ ∃ block now, s2 = (s1.activate false block now).1) : ResumingRun s s2

theorem ResumingRun.sessionPresent {s s' : Session} (h : ResumingRun s s') (hp : s.data.sessionPresent = true) :
    s'.data.sessionPresent = true := by
  induction h with
  | refl => exact hp
  | step _ p hno ih =>
    rcases p.sessionPresent_stays ih with h1 | h1
    · exact h1
    · exact absurd h1 hno
end Minimq

namespace Minimq
open Gen World Outbound

/-! ### Fresh session (`sp = false`) and resumed session (`sp = true`) -/

theorem inflightPublishes_clear (o : Outbound) : o.clear.inflightPublishes = 0 := rfl

theorem generation_bump_ne (g : Nat) : (g + 1) % 4294967296 ≠ g := by omega

/-- The negotiated send quota: min(Receive Maximum, local limit), or the local limit without one. -/
def negotiatedQuota (block : Bytes) : Nat :=
  match lastNum .ReceiveMaximum (iterEncoded block) with
  | some v => min v Outbound.maxInflight
  | none => Outbound.maxInflight

theorem connackSettings_quota (ka : Nat) (block : Bytes) :
    (connackSettings ka block).1 = negotiatedQuota block ∧ (connackSettings ka block).2.1 = negotiatedQuota block := by
  unfold connackSettings negotiatedQuota
  cases lastNum .ReceiveMaximum (iterEncoded block) <;> exact ⟨rfl, rfl⟩

/-- CONNACK without a broker session, accepted: everything in flight is discarded. -/
theorem activated_fresh (s : Session) (block : Bytes) (now : Nat) :
    let s' := s.activated false block now
    s'.data.outbound.control = [] ∧ s'.data.outbound.retained = [] ∧ s'.data.outbound.release = [] ∧
    s'.data.pendingServerIds = [] ∧ s'.data.packetId = 1 ∧
    s'.data.generation = (s.data.generation + 1) % 4294967296 ∧ s'.data.generation ≠ s.data.generation ∧
    (∀ op : Op, op.generation = s.data.generation → s'.data.status op = .invalidated) ∧
    s'.rt.sendQuota = negotiatedQuota block ∧ s'.rt.maxSendQuota = negotiatedQuota block ∧
    s'.rt.sessionResumed = false ∧ s'.data.sessionPresent = true ∧
    s'.data.outbound.buf.length = s.data.outbound.buf.length ∧ s'.data.outbound.nextSer = s.data.outbound.nextSer := by
  intro s'
  have hq := connackSettings_quota s.rt.configuredKeepaliveMs block
  refine ⟨rfl, rfl, rfl, rfl, rfl, rfl, generation_bump_ne _, ?_, ?_, hq.2, rfl, rfl, rfl, rfl⟩
  · intro op hop
    unfold SessionData.status
    have : op.generation ≠ s'.data.generation := by
      rw [hop]; exact (generation_bump_ne _).symm
    simp [this]
  · show (connackSettings s.rt.configuredKeepaliveMs block).1 - s.data.outbound.clear.inflightPublishes = _
    rw [inflightPublishes_clear, hq.1]; rfl

/-- CONNACK with a broker session, accepted: the outbound state is kept as it is. -/
theorem activated_resumed (s : Session) (block : Bytes) (now : Nat) :
    let s' := s.activated true block now
    s'.data.outbound = s.data.outbound ∧ s'.data.pendingServerIds = s.data.pendingServerIds ∧
    s'.data.generation = s.data.generation ∧ s'.data.packetId = s.data.packetId ∧
    (∀ op : Op, s'.data.status op = s.data.status op) ∧
    s'.rt.sessionResumed = true ∧ s'.data.sessionPresent = true ∧
    s'.rt.sendQuota = negotiatedQuota block - s.data.outbound.inflightPublishes ∧
    s'.rt.maxSendQuota = negotiatedQuota block := by
  intro s'
  have hq := connackSettings_quota s.rt.configuredKeepaliveMs block
  refine ⟨rfl, rfl, rfl, rfl, fun op => rfl, rfl, rfl, ?_, hq.2⟩
  show (connackSettings s.rt.configuredKeepaliveMs block).1 - s.data.outbound.inflightPublishes = _
  rw [hq.1]

/-! ### Replay arming -/

/-- Every entry of the three queues is waiting for its first byte to be written. -/
structure Outbound.AllFresh (o : Outbound) : Prop where
  control : ∀ e ∈ o.control, e.state = .write 0
  release : ∀ e ∈ o.release, e.state = .write 0
  retained : ∀ e ∈ o.retained, e.state = .write 0

/-- `arm_replay` (called by `connect` and by every disconnect) resets every entry of every queue. -/
theorem armReplay_allFresh (o : Outbound) : o.armReplay.AllFresh := by
  unfold armReplay
  split
  · rename_i h
    simp [hasPendingState] at h
    obtain ⟨⟨h1, h2⟩, h3⟩ := h
    constructor
    · rw [h1]; simp
    · rw [h3]; simp
    · rw [h2]; simp
  · constructor <;> (intro e he; simp only [List.mem_map] at he; obtain ⟨x, _, rfl⟩ := he; rfl)

theorem armReplay_ids (o : Outbound) :
    o.armReplay.control.map (·.action) = o.control.map (·.action) ∧
    o.armReplay.release.map (fun e => (e.id, e.rc)) = o.release.map (fun e => (e.id, e.rc)) ∧
    o.armReplay.retained.map (fun e => (e.id, e.offset, e.len, e.ser)) = o.retained.map (fun e => (e.id, e.offset, e.len, e.ser)) := by
  unfold armReplay
  split
  · exact ⟨rfl, rfl, rfl⟩
  · simp [markRetainedDup, List.map_map, Function.comp_def]

theorem beginConnect_allFresh (s : Session) : s.beginConnect.data.outbound.AllFresh := armReplay_allFresh _
theorem handleDisconnect_allFresh (s : Session) : s.handleDisconnect.data.outbound.AllFresh := armReplay_allFresh _

theorem compactGo_states (es : List RetainedPacket) (buf : Bytes) (c : Nat) :
    (compactGo es buf c).1.map (·.state) = es.map (·.state) := by
  induction es generalizing buf c with
  | nil => rfl
  | cons e es ih => simp only [compactGo, List.map_cons, ih]

theorem allFresh_of_states {o o' : Outbound} (h : o.AllFresh) (hc : o'.control = o.control) (hr : o'.release = o.release)
    (hs : o'.retained.map (·.state) = o.retained.map (·.state)) : o'.AllFresh := by
  refine ⟨hc ▸ h.control, hr ▸ h.release, ?_⟩
  intro e he
  have : e.state ∈ o'.retained.map (·.state) := List.mem_map.mpr ⟨e, he, rfl⟩
  rw [hs] at this
  obtain ⟨x, hx, hxe⟩ := List.mem_map.mp this
  rw [← hxe]; exact h.retained x hx

theorem encodeAt_allFresh {ε : Type} (o : Outbound) (enc : Nat → (Nat → Nat → Bytes) → Except ε (Nat × Bytes))
    (h : o.AllFresh) : (o.encodeAt enc).1.AllFresh := by
  have hc : o.compact.AllFresh := allFresh_of_states h rfl rfl (by simp [compact, compactGo_states])
  unfold encodeAt
  simp only []
  split
  · exact hc
  · exact allFresh_of_states hc rfl rfl rfl

/-- Between `beginConnect` and the CONNACK, the handshake only encodes CONNECT, clears the keep-alive
deadlines and feeds the reader; none of that touches the queues' send states. -/
theorem handshake_keeps_allFresh (s : Session) (h : s.data.outbound.AllFresh) :
    (∀ c, (s.encode (ε := SerErr) (fun cap _ => encodeConnect cap c)).1.data.outbound.AllFresh) ∧
    s.clearPing.data.outbound.AllFresh ∧ (∀ bytes, (s.commit bytes).data.outbound.AllFresh) ∧
    (∀ s' n, s.window = some (s', n) → s'.data.outbound.AllFresh) ∧ s.takePkt.1.data.outbound.AllFresh := by
  refine ⟨?_, h, fun _ => h, ?_, ?_⟩
  · intro c; rw [Session.encode_fst]; exact encodeAt_allFresh _ _ h
  · intro s' n hw
    unfold Session.window at hw
    split at hw
    · simp at hw
    · simp at hw; rw [← hw.1]; exact h
  · rw [(Session.takePkt_data s).1]; exact h
end Minimq

namespace Minimq
open Gen World Outbound

/-! ### The order in which `next_step` hands out packets -/

theorem sent_of_neither (st : SendState) (h1 : st.isFresh = false) (h2 : st.isInProgress = false) : st = .sent := by
  cases st with
  | write n => cases n <;> simp [SendState.isFresh, SendState.isInProgress] at h1 h2
  | flush => simp [SendState.isInProgress] at h2
  | sent => rfl

theorem find?_none_all {α} {p : α → Bool} {l : List α} (h : l.find? p = none) : ∀ x ∈ l, p x = false := by
  intro x hx
  have := List.find?_eq_none.mp h x hx
  simpa using this

/-- What `nextStepPrio` returns, queue by queue. -/
theorem nextStepPrio_cases (o : Outbound) (b : Bool) :
    (∃ e, o.control.find? (fun e => e.state.matchesPriority b) = some e ∧ o.nextStepPrio b = some (.control e.action e.state)) ∨
    ((∀ e ∈ o.control, e.state.matchesPriority b = false) ∧
      ((∃ e, o.release.find? (fun e => e.state.matchesPriority b) = some e ∧
          o.nextStepPrio b = some (.release e.id e.rc e.state)) ∨
       ((∀ e ∈ o.release, e.state.matchesPriority b = false) ∧
         ((∃ e, o.retained.find? (fun e => e.state.matchesPriority b) = some e ∧
             o.nextStepPrio b = some (.retained e.id e.offset e.len e.state)) ∨
          ((∀ e ∈ o.retained, e.state.matchesPriority b = false) ∧ o.nextStepPrio b = none))))) := by
  unfold nextStepPrio
  cases hc : o.control.find? (fun e => e.state.matchesPriority b) with
  | some e => exact Or.inl ⟨e, rfl, rfl⟩
  | none =>
    refine Or.inr ⟨find?_none_all hc, ?_⟩
    cases hr : o.release.find? (fun e => e.state.matchesPriority b) with
    | some e => exact Or.inl ⟨e, rfl, rfl⟩
    | none =>
      refine Or.inr ⟨find?_none_all hr, ?_⟩
      cases ht : o.retained.find? (fun e => e.state.matchesPriority b) with
      | some e => exact Or.inl ⟨e, rfl, rfl⟩
      | none => exact Or.inr ⟨find?_none_all ht, rfl⟩

theorem nextStepPrio_state (o : Outbound) (b : Bool) (step : Outbound.Step) (h : o.nextStepPrio b = some step) :
    step.state.matchesPriority b = true := by
  rcases nextStepPrio_cases o b with ⟨e, hf, hn⟩ | ⟨_, ⟨e, hf, hn⟩ | ⟨_, ⟨e, hf, hn⟩ | ⟨_, hn⟩⟩⟩
  · rw [hn] at h; cases h; have := List.find?_some hf; exact this
  · rw [hn] at h; cases h; have := List.find?_some hf; exact this
  · rw [hn] at h; cases h; have := List.find?_some hf; exact this
  · rw [hn] at h; cases h

/-- A completely sent entry is never handed out again (until replay is armed). -/
theorem sf_nextStep_not_sent (o : Outbound) (step : Outbound.Step) (h : o.nextStep = some step) : step.state ≠ .sent := by
  unfold nextStep at h
  intro hs
  split at h
  · rename_i s hp
    cases h
    have := nextStepPrio_state o true _ hp
    rw [hs] at this; simp [SendState.matchesPriority, SendState.isInProgress] at this
  · have := nextStepPrio_state o false _ h
    rw [hs] at this; simp [SendState.matchesPriority, SendState.isFresh] at this

/-- **Queue order.** When `next_step` hands out a retained packet for its first byte, every
acknowledgement / PINGREQ, every PUBREL and every retained packet in front of it has been sent
completely, and nothing is half-written. -/
theorem nextStep_retained_fresh (o : Outbound) (id off len : Nat)
    (h : o.nextStep = some (.retained id off len (.write 0))) :
    (∀ e ∈ o.control, e.state = .sent) ∧ (∀ e ∈ o.release, e.state = .sent) ∧
    ∃ pre e post, o.retained = pre ++ e :: post ∧ e.id = id ∧ e.offset = off ∧ e.len = len ∧ e.state = .write 0 ∧
      (∀ x ∈ pre, x.state = .sent) ∧ (∀ x ∈ post, x.state.isInProgress = false) := by
  unfold nextStep at h
  split at h
  · rename_i s hp
    cases h
    have := nextStepPrio_state o true _ hp
    simp [Outbound.Step.state, SendState.matchesPriority, SendState.isInProgress] at this
  · rename_i hnone
    rcases nextStepPrio_cases o true with ⟨e, _, hn⟩ | ⟨c1, ⟨e, _, hn⟩ | ⟨r1, ⟨e, _, hn⟩ | ⟨t1, _⟩⟩⟩
    · rw [hn] at hnone; cases hnone
    · rw [hn] at hnone; cases hnone
    · rw [hn] at hnone; cases hnone
    · simp only [SendState.matchesPriority, if_true] at c1 r1 t1
      rcases nextStepPrio_cases o false with ⟨e, _, hn⟩ | ⟨c2, ⟨e, _, hn⟩ | ⟨r2, ⟨e, hf, hn⟩ | ⟨_, hn⟩⟩⟩
      · rw [hn] at h; cases h
      · rw [hn] at h; cases h
      · rw [hn] at h
        simp only [Option.some.injEq, Step.retained.injEq] at h
        obtain ⟨h1, h2, h3, h4⟩ := h
        simp only [SendState.matchesPriority, Bool.false_eq_true, if_false] at c2 r2
        refine ⟨fun x hx => sent_of_neither _ (c2 x hx) (c1 x hx), fun x hx => sent_of_neither _ (r2 x hx) (r1 x hx), ?_⟩
        obtain ⟨_, pre, post, hl, hpre⟩ := List.find?_eq_some_iff_append.mp hf
        refine ⟨pre, e, post, hl, h1, h2, h3, h4, ?_, ?_⟩
        · intro x hx
          have hx' : x ∈ o.retained := by rw [hl]; simp [hx]
          have := hpre x hx
          simp only [SendState.matchesPriority, Bool.false_eq_true, if_false, Bool.not_eq_true'] at this
          exact sent_of_neither _ (by simpa using this) (t1 x hx')
        · intro x hx
          exact t1 x (by rw [hl]; simp [hx])
      · rw [hn] at h; cases h

/-- The same in terms of the order of enqueueing (ghost serial numbers): every retained packet
enqueued before the one handed out has been sent completely. -/
theorem nextStep_retained_fresh_ser (o : Outbound) (hser : o.SerInv) (id off len : Nat)
    (h : o.nextStep = some (.retained id off len (.write 0))) :
    ∃ e ∈ o.retained, e.id = id ∧ e.offset = off ∧ e.len = len ∧ e.state = .write 0 ∧
      ∀ x ∈ o.retained, x.ser < e.ser → x.state = .sent := by
  obtain ⟨_, _, pre, e, post, hl, h1, h2, h3, h4, hpre, _⟩ := nextStep_retained_fresh o id off len h
  refine ⟨e, by rw [hl]; simp, h1, h2, h3, h4, ?_⟩
  intro x hx hlt
  rw [hl] at hx
  rcases List.mem_append.mp hx with hx | hx
  · exact hpre x hx
  · exfalso
    have hinc := hser.inc
    rw [hl, List.map_append, List.map_cons, List.pairwise_append] at hinc
    obtain ⟨_, hp2, _⟩ := hinc
    rcases List.mem_cons.mp hx with rfl | hx
    · omega
    · have := (List.pairwise_cons.mp hp2).1 x.ser (List.mem_map.mpr ⟨x, hx, rfl⟩)
      omega

/-- With every entry fresh (the state `connect` leaves), `next_step` returns the head of the first
non-empty queue: acknowledgements and PINGREQ, then PUBRELs, then retained packets, each in queue order. -/
theorem nextStep_allFresh (o : Outbound) (h : o.AllFresh) :
    o.nextStep =
      match o.control with
      | e :: _ => some (.control e.action (.write 0))
      | [] =>
        match o.release with
        | e :: _ => some (.release e.id e.rc (.write 0))
        | [] =>
          match o.retained with
          | e :: _ => some (.retained e.id e.offset e.len (.write 0))
          | [] => none := by
  have hno : o.nextStepPrio true = none := by
    rcases nextStepPrio_cases o true with ⟨e, hf, _⟩ | ⟨_, ⟨e, hf, _⟩ | ⟨_, ⟨e, hf, _⟩ | ⟨_, hn⟩⟩⟩
    · have := List.find?_some hf; rw [h.control e (List.mem_of_find?_eq_some hf)] at this
      simp [SendState.matchesPriority, SendState.isInProgress] at this
    · have := List.find?_some hf; rw [h.release e (List.mem_of_find?_eq_some hf)] at this
      simp [SendState.matchesPriority, SendState.isInProgress] at this
    · have := List.find?_some hf; rw [h.retained e (List.mem_of_find?_eq_some hf)] at this
      simp [SendState.matchesPriority, SendState.isInProgress] at this
    · exact hn
  unfold nextStep
  rw [hno]
  simp only []
  unfold nextStepPrio
  cases hc : o.control with
  | cons e t =>
    have he := h.control e (by rw [hc]; simp)
    simp [List.find?_cons, he, SendState.matchesPriority, SendState.isFresh]
  | nil =>
    simp only [List.find?_nil]
    cases hr : o.release with
    | cons e t =>
      have he := h.release e (by rw [hr]; simp)
      simp [List.find?_cons, he, SendState.matchesPriority, SendState.isFresh]
    | nil =>
      simp only [List.find?_nil]
      cases ht : o.retained with
      | cons e t =>
        have he := h.retained e (by rw [ht]; simp)
        simp [List.find?_cons, he, SendState.matchesPriority, SendState.isFresh]
      | nil => rfl

/-- `retain_packet` appends: a new request goes behind everything already retained, with a serial
above all of theirs. -/
theorem retainPacket_appends (o o' : Outbound) (id off len : Nat) (h : o.retainPacket id off len = some o') :
    o'.retained = o.retained ++ [{ id := id, offset := off, len := len, state := .write 0, ser := o.nextSer }] ∧
    o'.control = o.control ∧ o'.release = o.release ∧ o'.nextSer = o.nextSer + 1 := by
  unfold retainPacket at h
  split at h
  · simp at h
  · simp at h; subst h; exact ⟨rfl, rfl, rfl, rfl⟩
end Minimq

namespace Minimq
open Gen World Outbound

/-! ## Keep-alive (C10) -/

theorem RT_val : ROUND_TRIP_TIMEOUT_MS = 5000 := rfl

/-- `keepalive_send_interval`. -/
theorem keepaliveSendInterval_none_iff (r : Runtime) : r.keepaliveSendInterval = none ↔ r.keepaliveMs = 0 := by
  unfold Runtime.keepaliveSendInterval
  split <;> simp_all

theorem keepaliveSendInterval_some (r : Runtime) (i : Nat) (h : r.keepaliveSendInterval = some i) :
    r.keepaliveMs ≠ 0 ∧ 0 < i ∧ i ≤ r.keepaliveMs ∧ i + min ROUND_TRIP_TIMEOUT_MS (r.keepaliveMs / 2) = r.keepaliveMs ∧
    (2 * ROUND_TRIP_TIMEOUT_MS ≤ r.keepaliveMs → i = r.keepaliveMs - ROUND_TRIP_TIMEOUT_MS) ∧
    (r.keepaliveMs < 2 * ROUND_TRIP_TIMEOUT_MS → i = r.keepaliveMs - r.keepaliveMs / 2) := by
  unfold Runtime.keepaliveSendInterval at h
  rw [RT_val] at *
  split at h
  · simp at h
  · simp only [Option.some.injEq] at h
    subst h
    refine ⟨by assumption, ?_, ?_, ?_, ?_, ?_⟩ <;> omega

theorem keepaliveSendInterval_of_pos (r : Runtime) (h : r.keepaliveMs ≠ 0) :
    r.keepaliveSendInterval = some (r.keepaliveMs - min ROUND_TRIP_TIMEOUT_MS (r.keepaliveMs / 2)) := by
  unfold Runtime.keepaliveSendInterval
  rw [if_neg h]

/-- The effective keep-alive after an accepted CONNACK. -/
def effectiveKeepaliveMs (cfgMs : Nat) (block : Bytes) : Nat :=
  match lastNum .ServerKeepAlive (iterEncoded block) with
  | some v => v * 1000
  | none => cfgMs

theorem preActivate_cfgKa (s : Session) (sp : Bool) :
    (s.preActivate sp).rt.configuredKeepaliveMs = s.rt.configuredKeepaliveMs := by cases sp <;> rfl

theorem activated_keepalive (s : Session) (sp : Bool) (block : Bytes) (now : Nat) :
    (s.activated sp block now).rt.keepaliveMs = effectiveKeepaliveMs s.rt.configuredKeepaliveMs block ∧
    (s.activated sp block now).rt.configuredKeepaliveMs = s.rt.configuredKeepaliveMs ∧
    (s.activated sp block now).rt.nextPing =
      (s.activated sp block now).rt.keepaliveSendInterval.map (fun i => now + i * 1000) ∧
    (s.activated sp block now).rt.pingTimeout = none := by
  refine ⟨?_, preActivate_cfgKa s sp, rfl, rfl⟩
  show (connackSettings (s.preActivate sp).rt.configuredKeepaliveMs block).2.2.2.2.1 = _
  rw [preActivate_cfgKa]
  unfold connackSettings effectiveKeepaliveMs
  cases lastNum .ServerKeepAlive (iterEncoded block) <;> rfl

/-- Every completed packet re-arms the PINGREQ timer from the time `now` handed to `complete_flush`. -/
theorem completeFlush_rt (s : Session) (pkt : Flushed) (now : Nat) :
    (s.completeFlush pkt now).rt.nextPing = s.rt.keepaliveSendInterval.map (fun i => now + i * 1000) ∧
    (s.completeFlush pkt now).rt.keepaliveMs = s.rt.keepaliveMs ∧
    (s.completeFlush pkt now).rt.pingTimeout =
      (match pkt with
       | .control a => if a.typ = MT_PingReq then some (now + ROUND_TRIP_TIMEOUT_MS * 1000) else s.rt.pingTimeout
       | _ => s.rt.pingTimeout) := by
  unfold Session.completeFlush
  cases pkt with
  | control a =>
    simp only [Runtime.noteOutboundActivity, Runtime.keepaliveSendInterval]
    split <;> exact ⟨rfl, rfl, rfl⟩
  | release id => exact ⟨rfl, rfl, rfl⟩
  | retained id => exact ⟨rfl, rfl, rfl⟩

theorem noteActivity_rt (s : Session) (now : Nat) :
    (s.noteActivity now).rt.nextPing = s.rt.keepaliveSendInterval.map (fun i => now + i * 1000) ∧
    (s.noteActivity now).rt.keepaliveMs = s.rt.keepaliveMs ∧ (s.noteActivity now).rt.pingTimeout = s.rt.pingTimeout :=
  ⟨rfl, rfl, rfl⟩

/-- PINGRESP clears the timeout and nothing else of the timing state. -/
theorem handlePacket_pingResp (d : SessionData) (r : Runtime) :
    handlePacket d r .pingResp = (d, { r with pingTimeout := none }, .ok false) := rfl

/-- `next_deadline`: the ping timeout while one is running, otherwise the next PINGREQ time. -/
theorem nextDeadline_spec (r : Runtime) :
    (∀ t, r.pingTimeout = some t → r.nextDeadline = some t) ∧ (r.pingTimeout = none → r.nextDeadline = r.nextPing) := by
  unfold Runtime.nextDeadline
  cases r.nextPing <;> cases r.pingTimeout <;> simp

/-! ### `maybe_queue_pingreq` -/

/-- The condition under which a PINGREQ is wanted. -/
def Session.pingWanted (s : Session) (now : Nat) : Prop :=
  s.rt.pingTimeout = none ∧ (∃ np, s.rt.nextPing = some np ∧ np ≤ now) ∧ s.data.outbound.hasPendingPingreq = false

def Session.pingWantedB (s : Session) (now : Nat) : Bool :=
  s.rt.pingTimeout.isNone && (match s.rt.nextPing with
    | some np => decide (now ≥ np)
    | none => false) && !s.data.outbound.hasPendingPingreq

theorem pingWantedB_iff (s : Session) (now : Nat) : s.pingWantedB now = true ↔ s.pingWanted now := by
  unfold Session.pingWantedB Session.pingWanted
  cases s.rt.pingTimeout <;> cases s.rt.nextPing <;> cases s.data.outbound.hasPendingPingreq <;> simp

theorem queuePing_eq (s : Session) (now : Nat) :
    s.queuePing now =
      if s.pingWantedB now then
        match checkSize s.rt (encodeControl ControlAction.pingReq) with
        | .error e => .error e
        | .ok () =>
          match s.data.outbound.queueControl ControlAction.pingReq with
          | none => .error .inflightExhausted
          | some o => .ok (s.setOutbound o)
      else .ok s := rfl

theorem queuePing_spec (s : Session) (now : Nat) :
    (¬ s.pingWanted now → s.queuePing now = .ok s) ∧
    (s.pingWanted now →
      (s.rt.packetTooLarge 2 = true → s.queuePing now = .error .packetTooLarge) ∧
      (s.rt.packetTooLarge 2 = false → MAX_PENDING_CONTROL ≤ s.data.outbound.control.length →
        s.queuePing now = .error .inflightExhausted) ∧
      (s.rt.packetTooLarge 2 = false → s.data.outbound.control.length < MAX_PENDING_CONTROL →
        s.queuePing now = .ok (s.setOutbound { s.data.outbound with
          control := s.data.outbound.control ++ [{ action := ControlAction.pingReq, state := .write 0 }] }))) := by
  have hcs : checkSize s.rt (encodeControl ControlAction.pingReq) =
      if s.rt.packetTooLarge 2 then .error .packetTooLarge else .ok () := by
    rw [encodeControl_pingReq]; rfl
  rw [queuePing_eq]
  constructor
  · intro hnw
    have : s.pingWantedB now = false := by
      cases h : s.pingWantedB now with
      | false => rfl
      | true => exact absurd ((pingWantedB_iff s now).1 h) hnw
    rw [this]; rfl
  · intro hw
    rw [(pingWantedB_iff s now).2 hw, hcs]
    refine ⟨?_, ?_, ?_⟩
    · intro hb; simp [hb]
    · intro hb hfull
      simp only [hb, Bool.false_eq_true, if_false, if_true, queueControl]
      rw [if_pos (by omega)]
    · intro hb hroom
      simp only [hb, Bool.false_eq_true, if_false, if_true, queueControl]
      rw [if_neg (by omega)]

/-- In particular nothing is queued while a ping timeout is running (finding: with a keep-alive below
twice the round-trip bound the next PINGREQ time falls before the timeout, and is then skipped). -/
theorem queuePing_while_waiting (s : Session) (now t : Nat) (h : s.rt.pingTimeout = some t) : s.queuePing now = .ok s :=
  (queuePing_spec s now).1 (by intro hw; rw [hw.1] at h; cases h)

theorem queuePing_no_keepalive (s : Session) (now : Nat) (h : s.rt.nextPing = none) : s.queuePing now = .ok s :=
  (queuePing_spec s now).1 (by rintro ⟨_, ⟨np, hnp, _⟩, _⟩; rw [h] at hnp; cases hnp)

theorem queuePing_early (s : Session) (now np : Nat) (h : s.rt.nextPing = some np) (hlt : now < np) : s.queuePing now = .ok s :=
  (queuePing_spec s now).1 (by rintro ⟨_, ⟨np', hnp, hle⟩, _⟩; rw [h] at hnp; cases hnp; omega)
end Minimq

namespace Minimq
open Gen World Outbound

/-- With keep-alive 0 there is no PINGREQ timer. -/
def KaInv (s : Session) : Prop := s.rt.keepaliveMs = 0 → s.rt.nextPing = none

theorem KaInv_of_rt {s s' : Session} (h : KaInv s) (hk : s'.rt.keepaliveMs = s.rt.keepaliveMs)
    (hn : s'.rt.nextPing = s.rt.nextPing) : KaInv s' := by
  intro h0; rw [hn]; exact h (hk ▸ h0)

theorem KaInv_of_armed {s' : Session} {now : Nat}
    (hn : s'.rt.nextPing = s'.rt.keepaliveSendInterval.map (fun i => now + i * 1000)) : KaInv s' := by
  intro h0
  rw [hn, (keepaliveSendInterval_none_iff _).2 h0]; rfl

theorem Session.handle_rt_timing (s : Session) (p : Recv) :
    (s.handle p).1.rt.keepaliveMs = s.rt.keepaliveMs ∧ (s.handle p).1.rt.nextPing = s.rt.nextPing ∧
    ((s.handle p).1.rt.pingTimeout = s.rt.pingTimeout ∨ (s.handle p).1.rt.pingTimeout = none) := by
  rw [Session.handle_fst_rt]
  cases p <;> simp only [handlePacket]
  all_goals (repeat' split)
  all_goals (first | exact ⟨rfl, rfl, Or.inl rfl⟩ | exact ⟨rfl, rfl, Or.inr rfl⟩ | simp [quotaInc])

theorem closed_KaInv : Closed KaInv where
  queuePing := by
    intro s now s' h hq
    rcases Session.queuePing_ok hq with rfl | ⟨o, _, rfl⟩
    · exact h
    · exact KaInv_of_rt h rfl rfl
  completeFlush := by
    intro s pkt now h
    obtain ⟨h1, h2, _⟩ := completeFlush_rt s pkt now
    intro h0
    rw [h1, (keepaliveSendInterval_none_iff _).2 (h2 ▸ h0)]; rfl
  setWritten := by intro s pkt a c h; exact KaInv_of_rt h rfl rfl
  takePkt := by
    intro s h
    exact KaInv_of_rt h (by rw [(Session.takePkt_data s).2]) (by rw [(Session.takePkt_data s).2])
  handle := by
    intro s p h
    obtain ⟨h1, h2, _⟩ := Session.handle_rt_timing s p
    exact KaInv_of_rt h h1 h2
  handleDisconnect := by intro s h _; rfl
  activate := by
    intro s sp block now h
    by_cases hb : connackBlockOk block
    · rw [(activate_eq s sp block now).1 hb]
      exact KaInv_of_armed (activated_keepalive s sp block now).2.2.1
    · rw [(activate_eq s sp block now).2 hb]
      intro _; rfl
  alloc := by intro s h; rw [Session.alloc_fst]; exact KaInv_of_rt h rfl rfl
  encodeConnect := by intro s c h; rw [Session.encode_fst]; exact KaInv_of_rt h rfl rfl
  encodeAfterAlloc := by intro ε s enc _ h; rw [Session.encode_fst, Session.alloc_fst]; exact KaInv_of_rt h rfl rfl
  encodeScratch := by intro ε s enc _ h; rw [Session.encode_fst]; exact KaInv_of_rt h rfl rfl
  enqueue := by
    intro ε s enc off len isPub s3 typ _ _ _ h _ _ hr
    rw [Session.encode_fst, Session.alloc_fst] at hr
    unfold Session.retain at hr
    split at hr
    · simp at hr
    · simp at hr; subst hr
      split <;> exact KaInv_of_rt h rfl rfl
  clearPing := by intro s h _; rfl
  noteActivity := by intro s now h; exact KaInv_of_armed (now := now) rfl
  window := by
    intro s s' n h hw
    unfold Session.window at hw
    split at hw
    · simp at hw
    · simp at hw; rw [← hw.1]; exact KaInv_of_rt h rfl rfl
  commit := by intro s bytes h; exact KaInv_of_rt h rfl rfl
  beginConnect := by intro s h _; rfl
  setPid := by intro s n _ _ h; exact KaInv_of_rt h rfl rfl

/-- A ping timeout is started only by completing the flush of a PINGREQ, at the time handed to
`complete_flush` plus the round-trip bound; every other primitive keeps or clears it. -/
theorem Prim.pingTimeout_origin {s s' : Session} (h : Prim s s') (t : Nat) (ht : s'.rt.pingTimeout = some t) :
    s.rt.pingTimeout = some t ∨
    ∃ a now, a.typ = MT_PingReq ∧ s' = s.completeFlush (.control a) now ∧ t = now + ROUND_TRIP_TIMEOUT_MS * 1000 := by
  cases h with
  | queuePing _ t' _ hq =>
    rcases Session.queuePing_ok hq with rfl | ⟨o, _, rfl⟩
    · exact Or.inl ht
    · exact Or.inl ht
  | completeFlush _ pkt t' =>
    obtain ⟨_, _, h3⟩ := completeFlush_rt s pkt t'
    rw [h3] at ht
    cases pkt with
    | control a =>
      simp only [] at ht
      split at ht
      · rename_i hty
        simp only [Option.some.injEq] at ht
        exact Or.inr ⟨a, t', hty, rfl, ht.symm⟩
      · exact Or.inl ht
    | release id => exact Or.inl ht
    | retained id => exact Or.inl ht
  | setWritten => exact Or.inl ht
  | takePkt => rw [(Session.takePkt_data s).2] at ht; exact Or.inl ht
  | handle _ p =>
    rcases (Session.handle_rt_timing s p).2.2 with h1 | h1
    · rw [h1] at ht; exact Or.inl ht
    · rw [h1] at ht; cases ht
  | handleDisconnect => cases ht
  | activate _ sp block t' =>
    by_cases hb : connackBlockOk block
    · rw [(activate_eq s sp block t').1 hb, (activated_keepalive s sp block t').2.2.2] at ht; cases ht
    · rw [(activate_eq s sp block t').2 hb] at ht; cases ht
  | alloc => rw [Session.alloc_fst] at ht; exact Or.inl ht
  | encodeConnect _ c => rw [Session.encode_fst] at ht; exact Or.inl ht
  | encodeAfterAlloc _ enc he => rw [Session.encode_fst, Session.alloc_fst] at ht; exact Or.inl ht
  | encodeScratch _ enc he => rw [Session.encode_fst] at ht; exact Or.inl ht
  | enqueue _ enc off len isPub _ typ he hty hp hq hres hr =>
    rw [Session.encode_fst, Session.alloc_fst] at hr
    unfold Session.retain at hr
    split at hr
    · simp at hr
    · simp at hr; subst hr
      split at ht <;> exact Or.inl ht
  | clearPing => cases ht
  | noteActivity => exact Or.inl ht
  | window _ _ n hw =>
    unfold Session.window at hw
    split at hw
    · simp at hw
    · simp at hw; rw [← hw.1] at ht; exact Or.inl ht
  | commit => exact Or.inl ht
  | beginConnect => cases ht
  | setPid => exact Or.inl ht

/-! ### Where the timeout is detected: `service`, at the head of the `drive_packet` loop -/

theorem driveLoop_timeout (fuel : Nat) (w : World) (outer : Outer) (adv : Bool) (t : Nat)
    (hav : w.sess.reader.packetAvailable = false) (ht : w.sess.rt.pingTimeout = some t) (hle : t ≤ w.now) :
    driveLoop (fuel + 1) w outer adv = (w.handleDisconnect).finishErr (outerName outer) .disconnected := by
  rw [driveLoop]
  simp only [hav, Bool.false_eq_true, if_false, ht]
  rw [if_pos (by simpa using hle)]

theorem driveLoop_no_timeout (fuel : Nat) (w : World) (outer : Outer) (adv : Bool)
    (hav : w.sess.reader.packetAvailable = false) (hno : ∀ t, w.sess.rt.pingTimeout = some t → w.now < t) :
    driveLoop (fuel + 1) w outer adv =
      match w.maybeQueuePingreq w.now with
      | .error e => w.finishErr (outerName outer) e
      | .ok w' =>
        match w'.sess.data.outbound.nextStep with
        | none => driveAfterService fuel w' outer adv
        | some step => performStep fuel w' (.drive adv outer) step w.now := by
  rw [driveLoop]
  simp only [hav, Bool.false_eq_true, if_false]
  cases hp : w.sess.rt.pingTimeout with
  | none => simp only [Bool.false_eq_true, if_false]; rfl
  | some d =>
    have := hno d hp
    simp only []
    rw [if_neg (by simp; omega)]
    rfl
end Minimq

namespace Minimq
open Gen World Outbound

/-! ## Reconnecting (C12) -/

theorem fresh_not_inProgress (st : SendState) (h : st = .write 0) : st.isInProgress = false := by
  subst h; rfl

/-- The three resets at the top of `connect`, from any state whatsoever. -/
theorem beginConnect_spec (s : Session) :
    s.beginConnect.reader.data = [] ∧ s.beginConnect.reader.packetLength = none ∧
    s.beginConnect.reader.packetAvailable = false ∧ s.beginConnect.reader.cap = s.reader.cap ∧
    s.beginConnect.rt.sessionResumed = false ∧ s.beginConnect.rt.nextPing = none ∧ s.beginConnect.rt.pingTimeout = none ∧
    (∀ e ∈ s.beginConnect.data.outbound.control, e.state.isInProgress = false) ∧
    (∀ e ∈ s.beginConnect.data.outbound.release, e.state.isInProgress = false) ∧
    (∀ e ∈ s.beginConnect.data.outbound.retained, e.state.isInProgress = false) ∧
    s.beginConnect.clientId = s.clientId ∧ s.beginConnect.data.sessionPresent = s.data.sessionPresent := by
  have h := beginConnect_allFresh s
  exact ⟨rfl, rfl, rfl, rfl, rfl, rfl, rfl,
    fun e he => fresh_not_inProgress _ (h.control e he), fun e he => fresh_not_inProgress _ (h.release e he),
    fun e he => fresh_not_inProgress _ (h.retained e he), rfl, rfl⟩

/-! ### Encoding into the scratch space: the packet handed to the transport is the packet encoded -/

theorem compact_scratch (o : Outbound) (h : o.ArenaInv) : o.compact.capacity - o.compact.used = o.scratchLen := by
  obtain ⟨_, _, _, hu, hl, _⟩ := compact_spec o h
  unfold scratchLen usedAfterCompact capacity
  rw [hu, hl]

/-- For an encoder that does not read the scratch space: it is run on exactly `scratchLen` bytes
(capacity minus the retained packets); on success the bytes later read back from the arena at the
returned position are the encoder's packet. -/
theorem encodeAt_const {ε : Type} (o : Outbound) (f : Nat → Except ε (Nat × Bytes)) (hinv : o.ArenaInv)
    (he : EncOk (fun cap _ => f cap)) :
    (∀ e, f o.scratchLen = .error e → (o.encodeAt (fun cap _ => f cap)).2 = .error e) ∧
    (∀ off pkt, f o.scratchLen = .ok (off, pkt) →
      (o.encodeAt (fun cap _ => f cap)).2 = .ok (o.compact.used + off, pkt.length) ∧
      (o.encodeAt (fun cap _ => f cap)).1.retainedPacket (o.compact.used + off) pkt.length = pkt ∧ 0 < pkt.length) := by
  have hs := compact_scratch o hinv
  obtain ⟨c1, _, _, _, c5, _⟩ := compact_spec o hinv
  constructor
  · intro e hf
    unfold encodeAt
    simp only [hs, hf]
  · intro off pkt hf
    obtain ⟨hb, hrest⟩ := he o.scratchLen (fun _ _ => []) off pkt (fun _ _ => by simp) hf
    have hp : 0 < pkt.length := by first | exact hrest | exact hrest.1
    have hu := c1.used_le
    have hsl : o.scratchLen = o.compact.buf.length - o.compact.used := by rw [← hs]; rfl
    unfold encodeAt
    simp only [hs, hf, retainedPacket]
    exact ⟨trivial, slice_setRange_same _ _ _ (by omega), hp⟩

theorem Session.encode_const {ε : Type} (s : Session) (f : Nat → Except ε (Nat × Bytes)) (hinv : s.data.outbound.ArenaInv)
    (he : EncOk (fun cap _ => f cap)) :
    (∀ e, f s.data.outbound.scratchLen = .error e → (s.encode (fun cap _ => f cap)).2 = .error e) ∧
    (∀ off pkt, f s.data.outbound.scratchLen = .ok (off, pkt) →
      ∃ pos, (s.encode (fun cap _ => f cap)).2 = .ok (pos, pkt.length) ∧
        (s.encode (fun cap _ => f cap)).1.data.outbound.retainedPacket pos pkt.length = pkt ∧ 0 < pkt.length) := by
  obtain ⟨h1, h2⟩ := encodeAt_const s.data.outbound f hinv he
  constructor
  · intro e hf; rw [Session.encode_snd]; exact h1 e hf
  · intro off pkt hf
    obtain ⟨a, b', c⟩ := h2 off pkt hf
    refine ⟨s.data.outbound.compact.used + off, ?_, ?_, c⟩
    · rw [Session.encode_snd]; exact a
    · rw [Session.encode_fst]; exact b'

/-! ### When does `encode_with_offset` fit? -/

theorem pushAll_too_small {w : W} {cs : List (Except SerErr Bytes)} {bs : Bytes} (h : catChunks cs = .ok bs)
    (hsmall : w.cap < MAX_FIXED_HEADER_SIZE + w.body.length + bs.length) :
    w.pushAll cs = .error .insufficientMemory ∨ (bs = [] ∧ w.pushAll cs = .ok w) := by
  induction cs generalizing w bs with
  | nil => simp [catChunks] at h; subst h; exact Or.inr ⟨rfl, rfl⟩
  | cons c cs ih =>
    obtain ⟨x, r, hx, hr, ho⟩ := catChunks_cons h
    subst hx ho
    simp only [W.pushAll, W.pushE]
    by_cases hfit : ¬ (w.cap - (MAX_FIXED_HEADER_SIZE + w.body.length) < x.length)
    · have hpush : w.push x = .ok { w with body := w.body ++ x } := by
        unfold W.push W.index
        rw [if_neg hfit]
      rw [hpush]
      simp only []
      have hsm : ({ w with body := w.body ++ x } : W).cap <
          MAX_FIXED_HEADER_SIZE + ({ w with body := w.body ++ x } : W).body.length + r.length := by
        simp only [List.length_append] at hsmall ⊢; omega
      rcases ih hr hsm with h1 | ⟨hr0, h1⟩
      · exact Or.inl h1
      · subst hr0
        by_cases hx0 : x = []
        · subst hx0
          right
          refine ⟨rfl, ?_⟩
          rw [h1]; simp
        · exfalso
          have : 0 < x.length := List.length_pos_iff.mpr hx0
          simp only [List.length_append, List.append_nil, List.length_nil] at hsmall
          omega
    · left
      have : w.push x = .error .insufficientMemory := by
        unfold W.push W.index
        rw [if_pos (by omega)]
      rw [this]

/-- A packet whose body does not fit behind the reserved header is refused with
`InsufficientMemory` (→ `BufferTooSmall`). -/
theorem encodeWithOffset_too_small {cap : Nat} {cs : List (Except SerErr Bytes)} {typ flags : Nat} {body : Bytes}
    (hb : catChunks cs = .ok body) (hsmall : cap < MAX_FIXED_HEADER_SIZE + body.length) :
    encodeWithOffset cap cs typ flags = .error .insufficientMemory := by
  unfold encodeWithOffset
  rcases pushAll_too_small (w := W.new cap) hb (by simpa [W.new] using hsmall) with h1 | ⟨h0, h1⟩
  · rw [h1]
  · rw [h1]
    subst h0
    have h5 : MAX_FIXED_HEADER_SIZE = 5 := rfl
    simp only [List.length_nil] at hsmall
    have hc : cap < MAX_FIXED_HEADER_SIZE := by omega
    simp [W.finalize, W.new, writeVarint, hc]

/-- **`encode_with_offset` succeeds iff the body fits** behind the five reserved header bytes (given
that every field can be produced and the body is a legal remaining length). -/
theorem encodeWithOffset_ok_iff {cap : Nat} {cs : List (Except SerErr Bytes)} {typ flags : Nat} {body : Bytes}
    (hb : catChunks cs = .ok body) (hmax : body.length ≤ MQTT_VARINT_MAX) :
    ((∃ r, encodeWithOffset cap cs typ flags = .ok r) ↔ MAX_FIXED_HEADER_SIZE + body.length ≤ cap) ∧
    (¬ MAX_FIXED_HEADER_SIZE + body.length ≤ cap → encodeWithOffset cap cs typ flags = .error .insufficientMemory) := by
  refine ⟨⟨?_, ?_⟩, ?_⟩
  · rintro ⟨r, hr⟩
    rcases Nat.lt_or_ge cap (MAX_FIXED_HEADER_SIZE + body.length) with hlt | hge
    · rw [encodeWithOffset_too_small hb hlt] at hr; cases hr
    · exact hge
  · intro hfit
    exact ⟨_, encodeWithOffset_complete hb hfit hmax⟩
  · intro hn
    exact encodeWithOffset_too_small hb (by omega)
end Minimq

namespace Minimq
open Gen World Outbound

/-- The world `Session::connect` works in, before CONNECT is encoded: the old connection handle is
gone, a new transport has been opened, the session has been through the three resets. -/
def World.connectStart (w : World) : World :=
  let w := w.dropConn
  let w := { w with nets := w.nets ++ [({ } : Net)] }
  let w := w.emit s!"net {w.netIdx} open"
  { w with sess := w.sess.beginConnect, wakes := 0, lastIoStarved := false }

/-- The CONNECT encoder as handed to the arena. -/
def connEnc (c : Connect) : Nat → (Nat → Nat → Bytes) → Except SerErr (Nat × Bytes) := fun cap _ => encodeConnect cap c

theorem startConnect_eq (w : World) :
    w.startConnect =
      (let w1 := w.connectStart
       let w2 : World := { w1 with sess := (w1.sess.encode (connEnc w1.sess.connectPacket)).1 }
       match (w1.sess.encode (connEnc w1.sess.connectPacket)).2 with
       | .error e => w2.finishErr "connect" (Err.ofSer e)
       | .ok (off, len) => doLocalWrite pollFuel w2 0 (w2.sess.data.outbound.retainedPacket off len)) := by
  unfold World.startConnect World.connectStart connEnc
  simp only []
  rfl

theorem dropConn_nets (w : World) : w.dropConn.nets = w.nets := by
  unfold World.dropConn World.cancelFut
  simp only []
  split <;> split <;> rfl

theorem dropConn_fut (w : World) : w.dropConn.fut = none := by
  unfold World.dropConn World.cancelFut
  simp only []
  cases h : w.fut with
  | none => simp only [Option.isSome_none, Bool.false_eq_true, if_false]; split <;> simp [World.emit, h]
  | some pc => simp only [Option.isSome_some, if_true]; split <;> rfl

theorem dropConn_conn (w : World) : w.dropConn.conn = none := by
  unfold World.dropConn
  simp only []
  split
  · rfl
  · rename_i h; simpa using h

theorem curNet_append (l : List Net) (n : Net) (w : World) (h : w.nets = l ++ [n]) : w.curNet = n := by
  unfold World.curNet; rw [h]; simp

theorem connectStart_spec (w : World) :
    w.connectStart.sess = w.sess.beginConnect ∧ w.connectStart.nets = w.nets ++ [({ } : Net)] ∧
    w.connectStart.curNet.wire = [] ∧ w.connectStart.curNet.rx = [] ∧
    w.connectStart.fut = none ∧ w.connectStart.conn = none ∧ w.connectStart.now = w.now := by
  have hn : w.connectStart.nets = w.nets ++ [({ } : Net)] := by
    show w.dropConn.nets ++ _ = _
    rw [dropConn_nets]
  have hc := curNet_append _ _ _ hn
  refine ⟨?_, hn, by rw [hc], by rw [hc], dropConn_fut w, dropConn_conn w, ?_⟩
  · show w.dropConn.sess.beginConnect = _
    rw [dropConn_sess]
  · show w.dropConn.now = _
    unfold World.dropConn World.cancelFut
    simp only []
    split <;> split <;> rfl

theorem beginConnect_arena (s : Session) (h : s.data.outbound.ArenaInv) :
    s.beginConnect.data.outbound.ArenaInv ∧ s.beginConnect.data.outbound.scratchLen = s.data.outbound.scratchLen := by
  have hd : s.data.outbound.dropPingreq.ArenaInv := ArenaInv_of_layout h rfl rfl rfl
  obtain ⟨hi, _, hm, _, hbl, _⟩ := armReplay_spec s.data.outbound.dropPingreq hd
  refine ⟨hi, ?_⟩
  show s.data.outbound.dropPingreq.armReplay.scratchLen = _
  unfold scratchLen usedAfterCompact capacity
  have : s.data.outbound.dropPingreq.armReplay.retained.map (·.len) = s.data.outbound.retained.map (·.len) := by
    have := congrArg (List.map (fun (t : Nat × Nat × Nat) => t.2.1)) hm
    simpa [List.map_map, Function.comp_def, Outbound.dropPingreq] using this
  rw [this, hbl]
  rfl

/-- **`connect` up to its first await.** With the CONNECT packet `c` built from the session after
the resets and `room` = arena capacity minus the retained packets: if the encoder fails for `room`
bytes, `connect` fails with that error without touching the new transport; otherwise the bytes
handed to `write_all` on the new transport are exactly the packet the encoder produced. -/
theorem startConnect_spec (w : World) (hinv : w.sess.data.outbound.ArenaInv) :
    let s1 := w.sess.beginConnect
    let c := s1.connectPacket
    let room := w.sess.data.outbound.scratchLen
    let w2 : World := { w.connectStart with sess := (s1.encode (connEnc c)).1 }
    (∀ e, encodeConnect room c = .error e → w.startConnect = w2.finishErr "connect" (Err.ofSer e)) ∧
    (∀ off pkt, encodeConnect room c = .ok (off, pkt) → w.startConnect = doLocalWrite pollFuel w2 0 pkt ∧ 0 < pkt.length) := by
  intro s1 c room w2
  obtain ⟨hi, hsl⟩ := beginConnect_arena w.sess hinv
  have hs1 : w.connectStart.sess = s1 := (connectStart_spec w).1
  obtain ⟨e1, e2⟩ := Session.encode_const s1 (fun cap => encodeConnect cap c) hi (EncOk_encodeConnect c)
  rw [hsl] at e1 e2
  constructor
  · intro e he
    rw [startConnect_eq]
    simp only [hs1]
    have := e1 e he
    unfold connEnc
    rw [this]
    rfl
  · intro off pkt he
    obtain ⟨pos, h1, h2, h3⟩ := e2 off pkt he
    refine ⟨?_, h3⟩
    rw [startConnect_eq]
    simp only [hs1]
    unfold connEnc
    rw [h1]
    simp only []
    rw [h2]
    rfl
end Minimq

namespace Minimq
open Gen World Outbound

/-! ### What the handshake does to the transports -/

theorem setCurNet_spec (w : World) (n : Net) (hn : w.nets ≠ []) :
    (w.setCurNet n).nets.length = w.nets.length ∧ (w.setCurNet n).curNet = n ∧
    (w.setCurNet n).nets.dropLast = w.nets.dropLast ∧ (w.setCurNet n).fut = w.fut := by
  have hl : 0 < w.nets.length := List.length_pos_iff.mpr hn
  refine ⟨?_, ?_, ?_, rfl⟩
  · simp [World.setCurNet]; omega
  · simp [World.setCurNet, World.curNet]
  · simp [World.setCurNet]

/-- `write`: only the current transport's wire grows, by a prefix of the bytes offered. -/
theorem ioWrite_net (w w' : World) (bytes : Bytes) (res : WriteRes) (hn : w.nets ≠ []) (h : w.ioWrite bytes = (w', res)) :
    w'.fut = w.fut ∧ w'.nets.length = w.nets.length ∧ w'.nets.dropLast = w.nets.dropLast ∧
    (match res with
     | .ok k => k ≤ bytes.length ∧ w'.curNet.wire = w.curNet.wire ++ bytes.take k
     | _ => w'.curNet.wire = w.curNet.wire) := by
  unfold World.ioWrite at h
  split at h
  · simp only [Prod.mk.injEq] at h
    obtain ⟨rfl, rfl⟩ := h
    exact ⟨rfl, rfl, rfl, rfl⟩
  · rename_i n hs
    simp only [] at h
    split at h
    · simp only [Prod.mk.injEq] at h
      obtain ⟨rfl, rfl⟩ := h
      have hn' : ({ w with slot := none, lastIoStarved := false } : World).nets ≠ [] := hn
      obtain ⟨s1, s2, s3, s4⟩ := setCurNet_spec { w with slot := none, lastIoStarved := false }
        { ({ w with slot := none, lastIoStarved := false } : World).curNet with
          wire := ({ w with slot := none, lastIoStarved := false } : World).curNet.wire ++
            bytes.take (if n = 250 then bytes.length else min n bytes.length) } hn'
      refine ⟨s4, s1, s3, ?_, ?_⟩
      · split <;> omega
      · show (World.setCurNet _ _).curNet.wire = _
        rw [s2]; rfl
    · split at h
      · simp only [Prod.mk.injEq] at h
        obtain ⟨rfl, rfl⟩ := h
        exact ⟨rfl, rfl, rfl, rfl⟩
      · simp only [Prod.mk.injEq] at h
        obtain ⟨rfl, rfl⟩ := h
        exact ⟨rfl, rfl, rfl, rfl⟩

theorem ioFlush_net (w w' : World) (res : FlushRes) (h : w.ioFlush = (w', res)) :
    w'.fut = w.fut ∧ w'.nets = w.nets := by
  unfold World.ioFlush at h
  split at h
  · simp only [Prod.mk.injEq] at h
    obtain ⟨rfl, _⟩ := h
    exact ⟨rfl, rfl⟩
  · simp only [] at h
    split at h <;> (simp only [Prod.mk.injEq] at h; obtain ⟨rfl, _⟩ := h; exact ⟨rfl, rfl⟩)

/-- `read` never touches a wire. -/
theorem ioRead_net (w w' : World) (n : Nat) (res : ReadRes) (hn : w.nets ≠ []) (h : w.ioRead n = (w', res)) :
    w'.fut = w.fut ∧ w'.nets.length = w.nets.length ∧ w'.nets.dropLast = w.nets.dropLast ∧
    w'.curNet.wire = w.curNet.wire := by
  unfold World.ioRead at h
  split at h
  · simp only [Prod.mk.injEq] at h
    obtain ⟨rfl, _⟩ := h
    exact ⟨rfl, rfl, rfl, rfl⟩
  · rename_i k hs
    simp only [] at h
    have hl : 0 < w.nets.length := List.length_pos_iff.mpr hn
    repeat' split at h
    all_goals (simp only [Prod.mk.injEq] at h; obtain ⟨rfl, _⟩ := h)
    all_goals first
      | exact ⟨rfl, rfl, rfl, rfl⟩
      | (refine ⟨rfl, ?_, ?_, ?_⟩
         · simp [World.setCurNet, World.emit]; omega
         · simp [World.setCurNet, World.emit]
         · simp [World.curNet, World.setCurNet, World.emit])

theorem activate_net (w : World) (sp : Bool) (block : Bytes) :
    (World.activate w sp block).nets = w.nets ∧ (World.activate w sp block).fut = none := by
  unfold World.activate
  split <;> exact ⟨rfl, rfl⟩

theorem connectGotPacket_net (w : World) :
    (World.connectGotPacket w).nets = w.nets ∧ (World.connectGotPacket w).fut = none := by
  unfold World.connectGotPacket
  simp only []
  split
  · exact ⟨rfl, rfl⟩
  · split
    · exact ⟨rfl, rfl⟩
    · exact activate_net _ _ _
  · exact ⟨rfl, rfl⟩
  · exact ⟨rfl, rfl⟩
end Minimq

namespace Minimq
open Gen World Outbound

/-- Reading the CONNACK never writes: same transports, the current wire untouched; the operation ends
or is suspended in the read. -/
theorem doConnRead_net (fuel : Nat) (w : World) (hn : w.nets ≠ []) (hf : w.fut = none) :
    (doConnRead fuel w).nets.length = w.nets.length ∧ (doConnRead fuel w).nets.dropLast = w.nets.dropLast ∧
    (doConnRead fuel w).curNet.wire = w.curNet.wire ∧
    ((doConnRead fuel w).fut = none ∨ (doConnRead fuel w).fut = some .connRead) := by
  induction fuel generalizing w with
  | zero => simp only [doConnRead]; exact ⟨rfl, rfl, rfl, Or.inl hf⟩
  | succ fuel ih =>
    simp only [doConnRead]
    split
    · obtain ⟨h1, h2⟩ := connectGotPacket_net w
      unfold World.curNet; rw [h1]; exact ⟨rfl, rfl, rfl, Or.inl h2⟩
    · split
      · exact ⟨rfl, rfl, rfl, Or.inl rfl⟩
      · rename_i s1 window hw
        split
        · obtain ⟨h1, h2⟩ := connectGotPacket_net { w with sess := s1 }
          unfold World.curNet; rw [h1]; exact ⟨rfl, rfl, rfl, Or.inl h2⟩
        · split
          · rename_i w' heq
            obtain ⟨a, b', c, d⟩ := ioRead_net { w with sess := s1 } w' window _ hn heq
            exact ⟨b', c, d, Or.inr rfl⟩
          · rename_i w' heq
            obtain ⟨a, b', c, d⟩ := ioRead_net { w with sess := s1 } w' window _ hn heq
            exact ⟨b', c, d, Or.inl rfl⟩
          · rename_i w' k heq
            obtain ⟨a, b', c, d⟩ := ioRead_net { w with sess := s1 } w' window _ hn heq
            exact ⟨b', c, d, Or.inl rfl⟩
          · rename_i w' bytes heq
            obtain ⟨a, b', c, d⟩ := ioRead_net { w with sess := s1 } w' window _ hn heq
            have hn' : ({ w' with sess := w'.sess.commit bytes } : World).nets ≠ [] := by
              intro h0
              have : w'.nets.length = 0 := by rw [show w'.nets = [] from h0]; rfl
              have : 0 < w.nets.length := List.length_pos_iff.mpr hn
              have hb : w'.nets.length = w.nets.length := b'
              omega
            obtain ⟨i1, i2, i3, i4⟩ := ih { w' with sess := w'.sess.commit bytes } hn' (a.trans hf)
            exact ⟨i1.trans b', i2.trans c, i3.trans d, i4⟩

theorem suspend_nets (w : World) (pc : Pc) : (w.suspend pc).nets = w.nets := rfl

/-- Flushing CONNECT and then reading: the same. -/
theorem doLocalFlush_net (fuel : Nat) (w : World) (hn : w.nets ≠ []) (hf : w.fut = none) :
    (doLocalFlush fuel w 0).nets.length = w.nets.length ∧ (doLocalFlush fuel w 0).nets.dropLast = w.nets.dropLast ∧
    (doLocalFlush fuel w 0).curNet.wire = w.curNet.wire ∧
    ((doLocalFlush fuel w 0).fut = none ∨ (doLocalFlush fuel w 0).fut = some .connFlush ∨
      (doLocalFlush fuel w 0).fut = some .connRead) := by
  cases fuel with
  | zero => simp only [doLocalFlush]; exact ⟨rfl, rfl, rfl, Or.inl hf⟩
  | succ fuel =>
    simp only [doLocalFlush]
    split
    · rename_i w' heq
      obtain ⟨a, b'⟩ := ioFlush_net w w' _ heq
      simp only [if_true]
      unfold World.curNet
      exact ⟨by rw [suspend_nets, b'], by rw [suspend_nets, b'], by rw [suspend_nets, b'], Or.inr (Or.inl rfl)⟩
    · rename_i w' k heq
      obtain ⟨a, b'⟩ := ioFlush_net w w' _ heq
      simp only [if_true]
      unfold World.curNet
      exact ⟨by rw [finishErr_nets, b'], by rw [finishErr_nets, b'], by rw [finishErr_nets, b'], Or.inl rfl⟩
    · rename_i w' heq
      obtain ⟨a, b'⟩ := ioFlush_net w w' _ heq
      simp only [if_true]
      have hn' : ({ w' with sess := w'.sess.clearPing } : World).nets ≠ [] := by rw [show ({ w' with sess := w'.sess.clearPing } : World).nets = w'.nets from rfl, b']; exact hn
      obtain ⟨i1, i2, i3, i4⟩ := doConnRead_net fuel { w' with sess := w'.sess.clearPing } hn' (a.trans hf)
      have e1 : ({ w' with sess := w'.sess.clearPing } : World).nets = w.nets := b'
      refine ⟨by rw [i1, e1], by rw [i2, e1], ?_, ?_⟩
      · rw [i3]; unfold World.curNet; rw [e1]
      · rcases i4 with h | h
        · exact Or.inl h
        · exact Or.inr (Or.inr h)
end Minimq

namespace Minimq
open Gen World Outbound

theorem nets_ne_of_length {w w' : World} (hn : w.nets ≠ []) (hl : w'.nets.length = w.nets.length) : w'.nets ≠ [] := by
  intro h0
  have : 0 < w.nets.length := List.length_pos_iff.mpr hn
  rw [h0] at hl; simp at hl; omega

/-- **Writing CONNECT (`write_all` of the handshake).** Whatever the transport does, the wire of the
current transport grows by a prefix of the bytes handed in and no other transport is touched. The
operation is then either suspended in the write with exactly the remaining bytes, or it has ended, or
every byte is on the wire and it is suspended in the flush or in the read of the CONNACK. -/
theorem doLocalWrite_net (fuel : Nat) (w : World) (bytes : Bytes) (hn : w.nets ≠ []) (hf : w.fut = none) :
    ∃ k, k ≤ bytes.length ∧
      (doLocalWrite fuel w 0 bytes).nets.length = w.nets.length ∧
      (doLocalWrite fuel w 0 bytes).nets.dropLast = w.nets.dropLast ∧
      (doLocalWrite fuel w 0 bytes).curNet.wire = w.curNet.wire ++ bytes.take k ∧
      (((doLocalWrite fuel w 0 bytes).fut = some (.connWrite (bytes.drop k)) ∧ k < bytes.length) ∨
       (doLocalWrite fuel w 0 bytes).fut = none ∨
       (k = bytes.length ∧ ((doLocalWrite fuel w 0 bytes).fut = some .connFlush ∨
          (doLocalWrite fuel w 0 bytes).fut = some .connRead))) := by
  induction fuel generalizing w bytes with
  | zero =>
    simp only [doLocalWrite]
    exact ⟨0, Nat.zero_le _, rfl, rfl, by rw [List.take_zero, List.append_nil]; rfl, Or.inr (Or.inl hf)⟩
  | succ fuel ih =>
    simp only [doLocalWrite]
    split
    · rename_i hemp
      have hb : bytes = [] := by simpa using hemp
      subst hb
      obtain ⟨f1, f2, f3, f4⟩ := doLocalFlush_net fuel w hn hf
      refine ⟨0, Nat.le_refl _, f1, f2, by simpa using f3, ?_⟩
      rcases f4 with h | h | h
      · exact Or.inr (Or.inl h)
      · exact Or.inr (Or.inr ⟨rfl, Or.inl h⟩)
      · exact Or.inr (Or.inr ⟨rfl, Or.inr h⟩)
    · rename_i hne
      have hpos : 0 < bytes.length := by
        cases bytes with
        | nil => simp at hne
        | cons x xs => simp
      split
      · rename_i w' heq
        obtain ⟨a, b', c, d⟩ := ioWrite_net w w' bytes _ hn heq
        simp only [] at d
        simp only [if_true]
        refine ⟨0, Nat.zero_le _, b', c, by rw [List.take_zero, List.append_nil]; exact d, Or.inl ⟨rfl, hpos⟩⟩
      · rename_i w' n heq
        obtain ⟨a, b', c, d⟩ := ioWrite_net w w' bytes _ hn heq
        simp only [] at d
        obtain ⟨hnle, hwire⟩ := d
        obtain ⟨k, hk, i1, i2, i3, i4⟩ := ih w' (bytes.drop n) (nets_ne_of_length hn b') (a.trans hf)
        simp only [List.length_drop] at hk
        refine ⟨n + k, by omega, i1.trans b', i2.trans c, ?_, ?_⟩
        · rw [i3, hwire, List.append_assoc, List.take_add]
        · rw [List.drop_drop] at i4
          rcases i4 with ⟨h1, h2⟩ | h | ⟨h1, h2⟩
          · simp only [List.length_drop] at h2
            exact Or.inl ⟨h1, by omega⟩
          · exact Or.inr (Or.inl h)
          · simp only [List.length_drop] at h1
            exact Or.inr (Or.inr ⟨by omega, h2⟩)
      · rename_i w' heq
        obtain ⟨a, b', c, d⟩ := ioWrite_net w w' bytes _ hn heq
        simp only [] at d
        simp only [if_true]
        refine ⟨0, Nat.zero_le _, b', c, by rw [List.take_zero, List.append_nil]; exact d, Or.inr (Or.inl rfl)⟩
      · rename_i w' kk heq
        obtain ⟨a, b', c, d⟩ := ioWrite_net w w' bytes _ hn heq
        simp only [] at d
        simp only [if_true]
        refine ⟨0, Nat.zero_le _, b', c, by rw [List.take_zero, List.append_nil]; exact d, Or.inr (Or.inl rfl)⟩
end Minimq

namespace Minimq
open Gen World Outbound

/-- The three CONNECT properties are well-formed and legal in a CONNECT for a non-empty receive
buffer of less than 4 GiB and a 32-bit session expiry. -/
theorem connectProps_ok (rx expiry : Nat) (h1 : 0 < rx) (h2 : rx < 4294967296) (h3 : expiry < 4294967296) :
    (∀ p ∈ connectProps rx expiry, p.wf = true) ∧
    (∀ p ∈ connectProps rx expiry, Spec.allowedIn .connect p.kind.id = true ∧
      Spec.legalValue p.kind.id p.toSpec.val.num = true) := by
  constructor
  · intro p hp
    simp only [connectProps, List.mem_cons, List.mem_singleton, List.not_mem_nil, or_false] at hp
    rcases hp with rfl | rfl | rfl
    · simp [Property.wf, PropKind.declShape, h2]
    · simp [Property.wf, PropKind.declShape, h3]
    · simp [Property.wf, PropKind.declShape, MAX_INBOUND_QOS2]
  · intro p hp
    simp only [connectProps, List.mem_cons, List.mem_singleton, List.not_mem_nil, or_false] at hp
    rcases hp with rfl | rfl | rfl
    · refine ⟨by simp [PropKind.id, Spec.allowedIn], ?_⟩
      have hne : rx ≠ 0 := by omega
      simp [Spec.legalValue, PropKind.id, Property.toSpec, PropKind.serShape, Spec.Val.num, hne]
    · exact ⟨by simp [PropKind.id, Spec.allowedIn], by simp [Spec.legalValue, PropKind.id]⟩
    · exact ⟨by decide, by decide⟩

/-- The CONNECT encoder succeeds iff the body fits into the room it is given. -/
theorem encodeConnect_ok_iff (cap : Nat) (c : Connect) (body : Bytes) (hb : catChunks c.chunks = .ok body)
    (hmax : body.length ≤ MQTT_VARINT_MAX) :
    ((∃ r, encodeConnect cap c = .ok r) ↔ MAX_FIXED_HEADER_SIZE + body.length ≤ cap) ∧
    (¬ MAX_FIXED_HEADER_SIZE + body.length ≤ cap → encodeConnect cap c = .error .insufficientMemory) ∧
    (MAX_FIXED_HEADER_SIZE + body.length ≤ cap → encodeConnect cap c =
      .ok (MAX_FIXED_HEADER_SIZE - varintLen body.length - 1,
           b (MT_Connect * 16 + FLAGS_Connect % 16) :: (encodeVarint body.length ++ body))) := by
  unfold encodeConnect
  obtain ⟨h1, h2⟩ := encodeWithOffset_ok_iff (cap := cap) (typ := MT_Connect) (flags := FLAGS_Connect) hb hmax
  exact ⟨h1, h2, fun hfit => encodeWithOffset_complete hb hfit hmax⟩

/-- The QoS 0 path hands the packet to the transport only when it is within the limit. -/
theorem afterFlush_publishPre_q0_within (fuel : Nat) (w : World) (r : PubReq)
    (hv : r.props.validFor .Publish = true) (hq : effectiveQos w.sess.rt.maxQos w.sess.downgrade r.qos = 0)
    (hready : (w.live && canPublishS w.sess.data w.sess.rt 0) = true) :
    let w' : World := { w with sess := (w.sess.encode (q0Enc r)).1 }
    (∃ e, afterFlush (fuel + 1) w (.publishPre r) = w'.finishErr "publish" e) ∨
    (∃ bytes, afterFlush (fuel + 1) w (.publishPre r) = doLocalWrite fuel w' 1 bytes ∧
      ∀ m, w.sess.rt.maximumPacketSize = some m → bytes.length ≤ m) := by
  intro w'
  rw [afterFlush_publishPre_q0 fuel w r hv hq hready]
  simp only []
  split
  · exact Or.inl ⟨_, rfl⟩
  · split
    · exact Or.inl ⟨_, rfl⟩
    · rename_i off len _ hbig
      refine Or.inr ⟨_, rfl, ?_⟩
      intro m hm
      simp only [Bool.not_eq_true] at hbig
      rw [encode_rt] at hbig
      have := (packetTooLarge_false_iff _ _).1 hbig m hm
      have := slice_length_le (w.sess.encode (q0Enc r)).1.data.outbound.buf off len
      simp only [retainedPacket]
      omega

/-- After `connect`'s first run the new transport holds a prefix of the CONNECT and nothing else. -/
theorem startConnect_wire (w : World) (hinv : w.sess.data.outbound.ArenaInv) (off : Nat) (pkt : Bytes)
    (he : encodeConnect w.sess.data.outbound.scratchLen w.sess.beginConnect.connectPacket = .ok (off, pkt)) :
    ∃ k, k ≤ pkt.length ∧ w.startConnect.nets.length = w.nets.length + 1 ∧ w.startConnect.nets.dropLast = w.nets ∧
      w.startConnect.curNet.wire = pkt.take k ∧
      ((w.startConnect.fut = some (.connWrite (pkt.drop k)) ∧ k < pkt.length) ∨ w.startConnect.fut = none ∨
       (k = pkt.length ∧ (w.startConnect.fut = some .connFlush ∨ w.startConnect.fut = some .connRead))) := by
  obtain ⟨hs, _⟩ := (startConnect_spec w hinv).2 off pkt he
  obtain ⟨c1, c2, c3, _, c5, _, _⟩ := connectStart_spec w
  rw [hs]
  have hn : ({ w.connectStart with sess := (w.sess.beginConnect.encode (connEnc w.sess.beginConnect.connectPacket)).1 } : World).nets ≠ [] := by
    show w.connectStart.nets ≠ []
    rw [c2]; simp
  obtain ⟨k, hk, d1, d2, d3, d4⟩ := doLocalWrite_net pollFuel _ pkt hn c5
  refine ⟨k, hk, ?_, ?_, ?_, d4⟩
  · rw [d1]; show w.connectStart.nets.length = _; rw [c2]; simp
  · rw [d2]; show w.connectStart.nets.dropLast = _; rw [c2]; simp
  · rw [d3]; show w.connectStart.curNet.wire ++ _ = _; rw [c3]; simp
end Minimq

namespace Minimq
open Gen World Outbound

/-! ## Ghost history of the session: accepted CONNACKs, the F19 half-reset, the assigned identifier -/

/-- The three ghost fields of `SessionData` are unchanged. -/
structure SameGhost (s s' : Session) : Prop where
  everAccepted : s'.data.everAccepted = s.data.everAccepted
  halfReset : s'.data.halfReset = s.data.halfReset
  assignedId : s'.data.assignedId = s.data.assignedId

theorem handlePacket_ghost (d : SessionData) (r : Runtime) (p : Recv) :
    (handlePacket d r p).1.everAccepted = d.everAccepted ∧ (handlePacket d r p).1.halfReset = d.halfReset ∧
    (handlePacket d r p).1.assignedId = d.assignedId := by
  cases p <;> simp only [handlePacket]
  all_goals (repeat' split)
  all_goals (first | exact ⟨rfl, rfl, rfl⟩ | simp)

theorem nextPacketIdFuel_ghost (fuel : Nat) (d : SessionData) :
    (d.nextPacketIdFuel fuel).1.everAccepted = d.everAccepted ∧ (d.nextPacketIdFuel fuel).1.halfReset = d.halfReset ∧
    (d.nextPacketIdFuel fuel).1.assignedId = d.assignedId := by
  induction fuel generalizing d with
  | zero => exact ⟨rfl, rfl, rfl⟩
  | succ n ih =>
    simp only [SessionData.nextPacketIdFuel]
    split
    · exact ⟨rfl, rfl, rfl⟩
    · exact ih _

theorem nextPacketId_ghost (d : SessionData) :
    d.nextPacketId.1.everAccepted = d.everAccepted ∧ d.nextPacketId.1.halfReset = d.halfReset ∧
    d.nextPacketId.1.assignedId = d.assignedId := nextPacketIdFuel_ghost _ d

/-- Every primitive other than CONNACK processing leaves the ghost history alone. -/
theorem Prim.ghost {s s' : Session} (h : Prim s s') :
    (∃ sp block now, s' = (s.activate sp block now).1) ∨ SameGhost s s' := by
  cases h with
  | activate _ sp block t => exact Or.inl ⟨sp, block, t, rfl⟩
  | queuePing _ t _ hq =>
    right
    rcases Session.queuePing_ok hq with rfl | ⟨o, _, rfl⟩
    · exact ⟨rfl, rfl, rfl⟩
    · exact ⟨rfl, rfl, rfl⟩
  | completeFlush _ pkt t => exact Or.inr ⟨rfl, rfl, rfl⟩
  | setWritten => exact Or.inr ⟨rfl, rfl, rfl⟩
  | takePkt =>
    right
    unfold Session.takePkt
    cases s.reader.takePacket; exact ⟨rfl, rfl, rfl⟩
  | handle _ p =>
    right
    obtain ⟨h1, h2, h3⟩ := handlePacket_ghost s.data s.rt p
    exact ⟨by rw [Session.handle_fst_data]; exact h1, by rw [Session.handle_fst_data]; exact h2,
      by rw [Session.handle_fst_data]; exact h3⟩
  | handleDisconnect => exact Or.inr ⟨rfl, rfl, rfl⟩
  | alloc =>
    right
    obtain ⟨g1, g2, g3⟩ := nextPacketId_ghost s.data
    rw [Session.alloc_fst]
    exact ⟨g1, g2, g3⟩
  | encodeConnect _ c => right; rw [Session.encode_fst]; exact ⟨rfl, rfl, rfl⟩
  | encodeAfterAlloc _ enc he =>
    right
    obtain ⟨g1, g2, g3⟩ := nextPacketId_ghost s.data
    rw [Session.encode_fst, Session.alloc_fst]
    exact ⟨g1, g2, g3⟩
  | encodeScratch _ enc he => right; rw [Session.encode_fst]; exact ⟨rfl, rfl, rfl⟩
  | enqueue _ enc off len isPub _ typ he ht hp hq hres hr =>
    right
    obtain ⟨g1, g2, g3⟩ := nextPacketId_ghost s.data
    rw [Session.encode_fst, Session.alloc_fst] at hr
    unfold Session.retain at hr
    split at hr
    · simp at hr
    · simp at hr; subst hr
      split <;> exact ⟨g1, g2, g3⟩
  | clearPing => exact Or.inr ⟨rfl, rfl, rfl⟩
  | noteActivity => exact Or.inr ⟨rfl, rfl, rfl⟩
  | window _ _ n hw =>
    right
    unfold Session.window at hw
    split at hw
    · simp at hw
    · simp at hw; rw [← hw.1]; exact ⟨rfl, rfl, rfl⟩
  | commit => exact Or.inr ⟨rfl, rfl, rfl⟩
  | beginConnect => exact Or.inr ⟨rfl, rfl, rfl⟩
  | setPid => exact Or.inr ⟨rfl, rfl, rfl⟩

/-- What an accepted CONNACK does to the ghost history and the identity. -/
theorem activated_ghost (s : Session) (sp : Bool) (block : Bytes) (now : Nat) :
    (s.activated sp block now).data.everAccepted = true ∧ (s.activated sp block now).data.halfReset = false ∧
    (s.activated sp block now).data.sessionPresent = true ∧
    (s.activated sp block now).data.assignedId =
      (lastStr .AssignedClientIdentifier (iterEncoded block)).or s.data.assignedId ∧
    (s.activated sp block now).clientId = (lastStr .AssignedClientIdentifier (iterEncoded block)).getD s.clientId := by
  cases sp <;> exact ⟨rfl, rfl, rfl, rfl, rfl⟩

/-- What a rejected CONNACK does to them: with `sp = true` nothing; with `sp = false` the session has
been reset (`sessionPresent = false`) and `halfReset` is raised. -/
theorem rejected_ghost (s : Session) :
    ((s.rejected true).data.everAccepted = s.data.everAccepted ∧ (s.rejected true).data.halfReset = s.data.halfReset ∧
      (s.rejected true).data.sessionPresent = s.data.sessionPresent ∧ (s.rejected true).data.assignedId = s.data.assignedId ∧
      (s.rejected true).clientId = s.clientId) ∧
    ((s.rejected false).data.everAccepted = s.data.everAccepted ∧ (s.rejected false).data.halfReset = true ∧
      (s.rejected false).data.sessionPresent = false ∧ (s.rejected false).data.assignedId = s.data.assignedId ∧
      (s.rejected false).clientId = s.clientId) := by
  refine ⟨⟨rfl, ?_, rfl, rfl, rfl⟩, ⟨rfl, ?_, rfl, rfl, rfl⟩⟩
  · show (s.data.halfReset || !true) = _
    simp
  · show (s.data.reset.halfReset || !false) = _
    simp

/-- **The invariant behind "after the first accepted CONNACK every CONNECT asks to resume".**
`cfgId` is the configured client identifier. -/
structure EstInv (cfgId : Bytes) (s : Session) : Prop where
  /-- before the first accepted CONNACK the session is not established … -/
  notYet : s.data.everAccepted = false → s.data.sessionPresent = false
  /-- … afterwards it is, unless finding F19 has struck since the last accepted CONNACK -/
  est : s.data.everAccepted = true → s.data.halfReset = false → s.data.sessionPresent = true
  /-- a half-reset session is not established -/
  half : s.data.halfReset = true → s.data.sessionPresent = false
  /-- the client identifier is the last assigned one, or the configured one if none was ever assigned -/
  cid : s.clientId = s.data.assignedId.getD cfgId
  cidLen : ∀ bs, s.data.assignedId = some bs → bs.length ≤ CLIENT_ID_CAPACITY
  /-- an identifier can only have been assigned by an accepted CONNACK -/
  assignedLate : s.data.everAccepted = false → s.data.assignedId = none

theorem EstInv_new (cfg : Cfg) : EstInv cfg.clientId (Session.new cfg) := by
  refine ⟨fun _ => rfl, ?_, ?_, rfl, ?_, fun _ => rfl⟩
  · intro h; cases h
  · intro h; cases h
  · intro bs h; cases h

/-- The invariant only looks at the ghost history, `sessionPresent` and the client identifier. -/
theorem EstInv.of_same {cfgId : Bytes} {s s' : Session} (h : EstInv cfgId s)
    (e1 : s'.data.everAccepted = s.data.everAccepted) (e2 : s'.data.halfReset = s.data.halfReset)
    (e3 : s'.data.assignedId = s.data.assignedId) (e4 : s'.data.sessionPresent = s.data.sessionPresent)
    (e5 : s'.clientId = s.clientId) : EstInv cfgId s' := by
  refine ⟨?_, ?_, ?_, ?_, ?_, ?_⟩
  · rw [e1, e4]; exact h.notYet
  · rw [e1, e2, e4]; exact h.est
  · rw [e2, e4]; exact h.half
  · rw [e5, e3]; exact h.cid
  · rw [e3]; exact h.cidLen
  · rw [e1, e3]; exact h.assignedLate

theorem Prim.ghostIdentity {s s' : Session} (h : Prim s s') :
    (∃ sp block now, s' = (s.activate sp block now).1) ∨ (SameGhost s s' ∧ SameIdentity s s') := by
  rcases h.ghost with ha | hg
  · exact Or.inl ha
  · rcases h.identity with ha | hid
    · exact Or.inl ha
    · exact Or.inr ⟨hg, hid⟩

theorem EstInv.step {cfgId : Bytes} {s s' : Session} (h : EstInv cfgId s) (p : Prim s s') : EstInv cfgId s' := by
  rcases p.ghostIdentity with ⟨sp, block, now, rfl⟩ | ⟨hg, hid⟩
  · by_cases hb : connackBlockOk block
    · rw [(activate_eq s sp block now).1 hb]
      obtain ⟨a1, a2, a3, a4, a5⟩ := activated_ghost s sp block now
      refine ⟨?_, ?_, ?_, ?_, ?_, ?_⟩
      · intro h0; rw [a1] at h0; cases h0
      · intro _ _; exact a3
      · intro h0; rw [a2] at h0; cases h0
      · rw [a5, a4, h.cid]
        cases lastStr .AssignedClientIdentifier (iterEncoded block) <;> rfl
      · intro bs hbs
        rw [a4] at hbs
        cases hl : lastStr .AssignedClientIdentifier (iterEncoded block) with
        | none => rw [hl] at hbs; exact h.cidLen bs hbs
        | some c =>
          rw [hl] at hbs
          have hbs' : some c = some bs := hbs
          have hcb : c = bs := Option.some.inj hbs'
          obtain ⟨it, hit, hs⟩ := lastStr_mem hl
          rw [← hcb]
          exact (hb it hit).2.1 c hs
      · intro h0; rw [a1] at h0; cases h0
    · rw [(activate_eq s sp block now).2 hb]
      obtain ⟨⟨t1, t2, t3, t4, t5⟩, ⟨f1, f2, f3, f4, f5⟩⟩ := rejected_ghost s
      cases sp with
      | true => exact h.of_same t1 t2 t4 t3 t5
      | false =>
        refine ⟨fun _ => f3, ?_, fun _ => f3, ?_, ?_, ?_⟩
        · intro _ h1; rw [f2] at h1; cases h1
        · rw [f5, f4]; exact h.cid
        · rw [f4]; exact h.cidLen
        · rw [f1, f4]; exact h.assignedLate
  · exact h.of_same hg.everAccepted hg.halfReset hg.assignedId hid.sessionPresent hid.clientId

theorem closed_EstInv (cfgId : Bytes) : Closed (EstInv cfgId) :=
  (closed_iff_prim _).2 fun _ _ p h => h.step p

/-- `halfReset` is raised exactly by the F19 step — a CONNACK with Session Present = 0 whose property
block is rejected — and cleared exactly by an accepted CONNACK; no other primitive touches it. -/
theorem Prim.halfReset_changes {s s' : Session} (h : Prim s s') :
    s'.data.halfReset = s.data.halfReset ∨
    (∃ block now, s' = (s.activate false block now).1 ∧ ¬ connackBlockOk block ∧
      (s.activate false block now).2 = .error .peerInvalid ∧ s'.data.halfReset = true ∧
      s'.data.sessionPresent = false) ∨
    (∃ sp block now, s' = (s.activate sp block now).1 ∧ (s.activate sp block now).2 = .ok () ∧
      s'.data.halfReset = false) := by
  rcases h.ghost with ⟨sp, block, now, rfl⟩ | hg
  · by_cases hb : connackBlockOk block
    · right; right
      refine ⟨sp, block, now, rfl, (activate_ok_iff s sp block now).2 hb, ?_⟩
      rw [(activate_eq s sp block now).1 hb]; exact (activated_ghost s sp block now).2.1
    · cases sp with
      | true => left; rw [(activate_eq s true block now).2 hb]; exact (rejected_ghost s).1.2.1
      | false =>
        right; left
        refine ⟨block, now, rfl, hb, ?_, ?_, ?_⟩
        · rw [(activate_eq s false block now).2 hb]
        · rw [(activate_eq s false block now).2 hb]; exact (rejected_ghost s).2.2.1
        · rw [(activate_eq s false block now).2 hb]; exact (rejected_ghost s).2.2.2.1
  · exact Or.inl hg.halfReset

/-- The F19 step always raises the flag, an accepted CONNACK always clears it. -/
theorem activate_halfReset (s : Session) (sp : Bool) (block : Bytes) (now : Nat) :
    (¬ connackBlockOk block → sp = false → (s.activate sp block now).1.data.halfReset = true) ∧
    (¬ connackBlockOk block → sp = true → (s.activate sp block now).1.data.halfReset = s.data.halfReset) ∧
    (connackBlockOk block → (s.activate sp block now).1.data.halfReset = false ∧
      (s.activate sp block now).1.data.everAccepted = true) := by
  refine ⟨?_, ?_, ?_⟩
  · intro hb hsp; subst hsp
    rw [(activate_eq s false block now).2 hb]; exact (rejected_ghost s).2.2.1
  · intro hb hsp; subst hsp
    rw [(activate_eq s true block now).2 hb]; exact (rejected_ghost s).1.2.1
  · intro hb
    rw [(activate_eq s sp block now).1 hb]
    exact ⟨(activated_ghost s sp block now).2.1, (activated_ghost s sp block now).1⟩

/-- `everAccepted` is never cleared and is raised exactly by an accepted CONNACK. -/
theorem Prim.everAccepted_changes {s s' : Session} (h : Prim s s') :
    (s.data.everAccepted = true → s'.data.everAccepted = true) ∧
    (s.data.everAccepted = false → s'.data.everAccepted = true →
      ∃ sp block now, s' = (s.activate sp block now).1 ∧ (s.activate sp block now).2 = .ok ()) := by
  rcases h.ghost with ⟨sp, block, now, rfl⟩ | hg
  · by_cases hb : connackBlockOk block
    · have e : (s.activate sp block now).1.data.everAccepted = true := ((activate_halfReset s sp block now).2.2 hb).2
      exact ⟨fun _ => e, fun _ _ => ⟨sp, block, now, rfl, (activate_ok_iff s sp block now).2 hb⟩⟩
    · have e : (s.activate sp block now).1.data.everAccepted = s.data.everAccepted := by
        rw [(activate_eq s sp block now).2 hb]
        cases sp
        · exact (rejected_ghost s).2.1
        · exact (rejected_ghost s).1.1
      exact ⟨fun h0 => e.trans h0, fun h0 h1 => by rw [e, h0] at h1; cases h1⟩
  · exact ⟨fun h0 => hg.everAccepted.trans h0, fun h0 h1 => by rw [hg.everAccepted, h0] at h1; cases h1⟩

/-- The recorded assigned identifier changes only in an accepted CONNACK that carries an Assigned Client
Identifier; it is then the value of the last such property. -/
theorem Prim.assignedId_changes {s s' : Session} (h : Prim s s') :
    s'.data.assignedId = s.data.assignedId ∨
    ∃ sp block now cid, s' = (s.activate sp block now).1 ∧ (s.activate sp block now).2 = .ok () ∧
      lastStr .AssignedClientIdentifier (iterEncoded block) = some cid ∧ s'.data.assignedId = some cid := by
  rcases h.ghost with ⟨sp, block, now, rfl⟩ | hg
  · by_cases hb : connackBlockOk block
    · cases hl : lastStr .AssignedClientIdentifier (iterEncoded block) with
      | none =>
        left
        rw [(activate_eq s sp block now).1 hb, (activated_ghost s sp block now).2.2.2.1, hl]; rfl
      | some cid =>
        right
        refine ⟨sp, block, now, cid, rfl, (activate_ok_iff s sp block now).2 hb, hl, ?_⟩
        rw [(activate_eq s sp block now).1 hb, (activated_ghost s sp block now).2.2.2.1, hl]; rfl
    · left
      rw [(activate_eq s sp block now).2 hb]
      cases sp
      · exact (rejected_ghost s).2.2.2.2.1
      · exact (rejected_ghost s).1.2.2.2.1
  · exact Or.inl hg.assignedId
end Minimq
