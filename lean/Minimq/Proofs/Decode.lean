import Minimq.Spec.Server
import Minimq.Proofs.ReaderStream
import Minimq.Proofs.Ops
/-
C08: `fromBuffer` (`ReceivedPacket::from_buffer`) against the independent description of server
packets in `Spec/Server.lean`: acceptance with the exact field values, rejection of each class of
malformed input, and the bound on what a decoded publish refers to.
-/
namespace Minimq
open Gen Spec

/-! ## The reference encoders against the model's primitives -/

theorem byte_eq_b (n : Nat) : Spec.byte n = b n := rfl

@[simp] theorem byte_toNat (n : Nat) : (Spec.byte n).toNat = n % 256 := by
  rw [byte_eq_b]; exact b_toNat n

/-- The encoding algorithm of the specification and the model's four-way case split agree. -/
theorem encVarint_eq (n : Nat) (h : n ≤ 268435455) : Spec.encVarint n = encodeVarint n := by
  unfold Spec.encVarint encodeVarint
  simp only [Spec.encVarintFuel, byte_eq_b]
  by_cases h1 : n < 128
  · simp only [if_pos h1]
  · by_cases h2 : n < 16384
    · have : n / 128 < 128 := by omega
      simp only [if_neg h1, if_pos h2, if_pos this]
    · have h2' : ¬ n / 128 < 128 := by omega
      by_cases h3 : n < 2097152
      · have : n / 128 / 128 < 128 := by omega
        have e1 : n / 128 / 128 = n / 16384 := by omega
        simp only [if_neg h1, if_neg h2, if_neg h2', if_pos h3, if_pos this]
        rw [e1]
      · have h3' : ¬ n / 128 / 128 < 128 := by omega
        have : n / 128 / 128 / 128 < 128 := by omega
        have e1 : n / 128 / 128 = n / 16384 := by omega
        have e2 : n / 128 / 128 / 128 = n / 2097152 % 128 := by omega
        simp only [if_neg h1, if_neg h2, if_neg h2', if_neg h3, if_neg h3', if_pos this]
        rw [e2, e1]

theorem encodeVarint_ne_nil (n : Nat) : ∃ x xs, encodeVarint n = x :: xs := by
  unfold encodeVarint
  repeat' split
  all_goals exact ⟨_, _, rfl⟩

theorem readU16_enc (id : Nat) (r : Bytes) (h : id < 65536) :
    readU16 (Spec.encU16 id ++ r) = some (id, r) := by
  simp only [Spec.encU16, List.cons_append, List.nil_append, readU16, u16of, byte_toNat]
  congr 2
  omega

theorem dc_takeN_append (p r : Bytes) : takeN (p ++ r) p.length = some (p, r) := by
  simp [takeN]

theorem dc_readPropBlock_enc (p r : Bytes) (h : p.length ≤ 268435455) :
    readPropBlock (Spec.encProps p ++ r) = some (p, r) := by
  unfold readPropBlock Spec.encProps
  rw [encVarint_eq _ h, List.append_assoc, decode_encode_varint _ _ (by rw [MAXV]; exact h)]
  exact dc_takeN_append p r

theorem dc_readStr_enc (s r : Bytes) (h : s.length ≤ 65535) (hu : validUtf8 s = true) :
    readStr (Spec.encStr s ++ r) = some (s, r) := by
  unfold readStr Spec.encStr
  rw [List.append_assoc, readU16_enc _ _ (by omega)]
  simp only [dc_takeN_append, hu, if_true]

/-! ## The image of a server packet in the client's `Recv` -/

/-- Reason codes arrive through `ReasonCode::from(u8)`: a byte that is not a known reason code
becomes `Unknown` (0xFF) — `normReason`. Everything else is taken over unchanged. -/
def Spec.Tail.image : Spec.Tail → ReasonIn
  | .none => { code := Option.none, props := Option.none }
  | .reason rc => { code := some (normReason rc), props := Option.none }
  | .full rc props => { code := some (normReason rc), props := some props }

def Spec.ServerPacket.image : Spec.ServerPacket → Recv
  | .connAck sp reason props => .connAck sp (normReason reason) props
  | .publish topic qos retain dup id props payload => .publish topic id props payload retain qos dup
  | .ack .pubAck id tail => .pubAck id tail.image
  | .ack .pubRec id tail => .pubRec id tail.image
  | .ack .pubRel id tail => .pubRel id tail.image
  | .ack .pubComp id tail => .pubComp id tail.image
  | .subAck id props codes => .subAck id props codes
  | .unsubAck id props codes => .unsubAck id props codes
  | .pingResp => .pingResp
  | .disconnect .none => .disconnect none none
  | .disconnect (.reason rc) => .disconnect (some (normReason rc)) none
  | .disconnect (.full rc props) => .disconnect (some (normReason rc)) (some props)

theorem Tail.enc_length_full (rc : Nat) (props : Bytes) :
    props.length < (Spec.Tail.enc (.full rc props)).length := by
  simp [Spec.Tail.enc, Spec.encProps]; omega

theorem readReason_enc (t : Spec.Tail) (hwf : t.wf = true) (hlen : t.enc.length ≤ 268435455) :
    readReason t.enc = some (t.image, []) := by
  cases t with
  | none => rfl
  | reason rc =>
    simp only [Spec.Tail.wf, decide_eq_true_eq] at hwf
    simp only [Spec.Tail.enc, readReason, byte_toNat, Spec.Tail.image]
    rw [Nat.mod_eq_of_lt hwf]
  | full rc props =>
    simp only [Spec.Tail.wf, decide_eq_true_eq] at hwf
    have hp : props.length ≤ 268435455 := by
      have := Tail.enc_length_full rc props; omega
    have hblk := dc_readPropBlock_enc props [] hp
    rw [List.append_nil] at hblk
    simp only [Spec.Tail.enc]
    have hne : ∃ x xs, Spec.encProps props = x :: xs := by
      unfold Spec.encProps
      rw [encVarint_eq _ hp]
      obtain ⟨x, xs, h⟩ := encodeVarint_ne_nil props.length
      exact ⟨x, xs ++ props, by rw [h]; rfl⟩
    obtain ⟨x, xs, hx⟩ := hne
    rw [hx] at hblk ⊢
    simp only [readReason, hblk, byte_toNat, Spec.Tail.image]
    rw [Nat.mod_eq_of_lt hwf]

theorem readAck_enc (id : Nat) (t : Spec.Tail) (hid : id < 65536) (hwf : t.wf = true)
    (hlen : t.enc.length ≤ 268435455) :
    readAck (Spec.encU16 id ++ t.enc) = some (id, t.image, []) := by
  unfold readAck
  rw [readU16_enc _ _ hid]
  simp only [readReason_enc t hwf hlen]

/-- `from_buffer` on a well-formed fixed header: the remaining length is skipped (its value is not
looked at), the type and flags are checked, the body is decoded. -/
theorem fromBuffer_frame (hdr : UInt8) (n : Nat) (bd : Bytes) (hn : n ≤ 268435455)
    (ht0 : hdr.toNat / 16 ≠ 0)
    (hfl : ∀ f, inboundFlags (hdr.toNat / 16) = some f → hdr.toNat % 16 = f)
    (hty : inboundTypes.contains (hdr.toNat / 16) = true) :
    fromBuffer (hdr :: (Spec.encVarint n ++ bd)) =
      match readBody (hdr.toNat / 16) hdr bd with
      | none => none
      | some (pkt, rest) =>
        if rest.isEmpty then some pkt else
        match pkt with
        | .publish t i p _ rt q d => some (.publish t i p rest rt q d)
        | .subAck i p _ => some (.subAck i p rest)
        | .unsubAck i p _ => some (.unsubAck i p rest)
        | _ => none := by
  simp only [fromBuffer]
  rw [encVarint_eq _ hn, decode_encode_varint _ _ (by rw [MAXV]; exact hn)]
  simp only [if_neg ht0, hty, Bool.not_true, Bool.false_eq_true, if_false]
  cases hf : inboundFlags (hdr.toNat / 16) with
  | none => rfl
  | some f =>
    simp only [hfl f hf, decide_true, Bool.not_true, Bool.false_eq_true, if_false]
    rfl


/-! ## Every well-formed server packet is accepted with exactly the fields sent -/

theorem accept_connAck (sp : Bool) (reason : Nat) (props : Bytes)
    (hwf : (ServerPacket.connAck sp reason props).wf = true) :
    fromBuffer (encodeServer (.connAck sp reason props)) =
      some (.connAck sp (normReason reason) props) := by
  simp only [ServerPacket.wf, Bool.and_eq_true, decide_eq_true_eq] at hwf
  obtain ⟨hlen, hr⟩ := hwf
  have hp : props.length ≤ 268435455 := by
    simp only [Spec.body, Spec.encProps, List.length_cons, List.length_append] at hlen; omega
  have hblk := dc_readPropBlock_enc props [] hp
  rw [List.append_nil] at hblk
  unfold encodeServer
  have h1 : (firstByte (.connAck sp reason props)).toNat / 16 = 2 := by simp [firstByte]
  have h2 : (firstByte (.connAck sp reason props)).toNat % 16 = 0 := by simp [firstByte]
  rw [fromBuffer_frame _ _ _ hlen (by rw [h1]; decide)
    (by rw [h1, h2]; intro f hf; simpa [inboundFlags] using hf) (by rw [h1]; decide), h1]
  simp only [Spec.body, readBody, MT_ConnAck, if_true, byte_toNat, hblk]
  cases sp <;> simp [Nat.mod_eq_of_lt hr]

theorem publish_header (qos : Nat) (retain dup : Bool) (hq : qos ≤ 2) :
    let h := (Spec.byte (0x30 + (if dup then 8 else 0) + 2 * qos + (if retain then 1 else 0))).toNat
    h / 16 = 3 ∧ h / 2 % 4 = qos ∧ (h % 2 = 1 ↔ retain = true) ∧ (h / 8 % 2 = 1 ↔ dup = true) := by
  simp only [byte_toNat]
  cases retain <;> cases dup <;> simp <;> omega

theorem accept_publish (topic : Bytes) (qos : Nat) (retain dup : Bool) (id : Option Nat)
    (props payload : Bytes)
    (hwf : (ServerPacket.publish topic qos retain dup id props payload).wf = true) :
    fromBuffer (encodeServer (.publish topic qos retain dup id props payload)) =
      some (.publish topic id props payload retain qos dup) := by
  cases id with
  | none =>
    simp only [ServerPacket.wf, Bool.and_eq_true, decide_eq_true_eq] at hwf
    obtain ⟨hlen, ⟨⟨htl, hutf⟩, hq⟩, hid⟩ := hwf
    have hp : props.length ≤ 268435455 := by
      simp only [Spec.body, Spec.encProps, List.length_append] at hlen; omega
    have hblk0 := dc_readPropBlock_enc props [] hp
    rw [List.append_nil] at hblk0
    obtain ⟨h1, h2, h3, h4⟩ := publish_header qos retain dup hq
    unfold encodeServer
    simp only [firstByte]
    generalize Spec.byte (0x30 + (if dup then 8 else 0) + 2 * qos + (if retain then 1 else 0)) = hdr
      at h1 h2 h3 h4
    rw [fromBuffer_frame _ _ _ hlen (by rw [h1]; decide)
      (by rw [h1]; intro f hf; simp [inboundFlags] at hf) (by rw [h1]; decide), h1]
    have hr : decide (hdr.toNat % 2 = 1) = retain := by
      cases retain <;> simp_all
    have hd : decide (hdr.toNat / 8 % 2 = 1) = dup := by
      cases dup <;> simp_all
    subst hid
    simp only [Spec.body, List.append_assoc, List.nil_append, readBody, MT_ConnAck, MT_Publish, h2,
      dc_readStr_enc _ _ htl hutf, hr, hd]
    cases payload <;> simp [hblk0, dc_readPropBlock_enc _ _ hp]
  | some i =>
    simp only [ServerPacket.wf, Bool.and_eq_true, decide_eq_true_eq] at hwf
    obtain ⟨hlen, ⟨⟨htl, hutf⟩, hq⟩, hq0, hid⟩ := hwf
    have hp : props.length ≤ 268435455 := by
      simp only [Spec.body, Spec.encProps, List.length_append] at hlen; omega
    have hblk0 := dc_readPropBlock_enc props [] hp
    rw [List.append_nil] at hblk0
    obtain ⟨h1, h2, h3, h4⟩ := publish_header qos retain dup hq
    unfold encodeServer
    simp only [firstByte]
    generalize Spec.byte (0x30 + (if dup then 8 else 0) + 2 * qos + (if retain then 1 else 0)) = hdr
      at h1 h2 h3 h4
    rw [fromBuffer_frame _ _ _ hlen (by rw [h1]; decide)
      (by rw [h1]; intro f hf; simp [inboundFlags] at hf) (by rw [h1]; decide), h1]
    have hr : decide (hdr.toNat % 2 = 1) = retain := by
      cases retain <;> simp_all
    have hd : decide (hdr.toNat / 8 % 2 = 1) = dup := by
      cases dup <;> simp_all
    have hq3 : qos ≠ 3 := by omega
    simp only [Spec.body, List.append_assoc, readBody, MT_ConnAck, MT_Publish, h2,
      dc_readStr_enc _ _ htl hutf, hr, hd, readU16_enc _ _ hid]
    cases payload <;> simp [hblk0, hq3, hq0, dc_readPropBlock_enc _ _ hp]

theorem accept_ack (kind : AckKind) (id : Nat) (tail : Spec.Tail)
    (hwf : (ServerPacket.ack kind id tail).wf = true) :
    fromBuffer (encodeServer (.ack kind id tail)) = some (ServerPacket.ack kind id tail).image := by
  simp only [ServerPacket.wf, Bool.and_eq_true, decide_eq_true_eq] at hwf
  obtain ⟨hlen, hid, htw⟩ := hwf
  have htl : tail.enc.length ≤ 268435455 := by
    simp only [Spec.body, List.length_append] at hlen; omega
  have hack := readAck_enc id tail hid htw htl
  unfold encodeServer
  have h1 : (firstByte (.ack kind id tail)).toNat / 16 = kind.type := by
    cases kind <;> simp [firstByte, AckKind.type, AckKind.flags]
  have h2 : (firstByte (.ack kind id tail)).toNat % 16 = kind.flags := by
    cases kind <;> simp [firstByte, AckKind.type, AckKind.flags]
  rw [fromBuffer_frame _ _ _ hlen (by rw [h1]; cases kind <;> decide)
    (by rw [h1, h2]; intro f hf; cases kind <;> simpa [inboundFlags, AckKind.type, AckKind.flags] using hf)
    (by rw [h1]; cases kind <;> decide), h1]
  simp only [Spec.body]
  cases kind <;>
    simp [readBody, AckKind.type, MT_ConnAck, MT_Publish, MT_PubAck, MT_PubRec, MT_PubRel,
      MT_PubComp, hack, ServerPacket.image]

theorem accept_subAck (id : Nat) (props codes : Bytes)
    (hwf : (ServerPacket.subAck id props codes).wf = true) :
    fromBuffer (encodeServer (.subAck id props codes)) = some (.subAck id props codes) := by
  simp only [ServerPacket.wf, Bool.and_eq_true, decide_eq_true_eq] at hwf
  obtain ⟨hlen, hid⟩ := hwf
  have hp : props.length ≤ 268435455 := by
    simp only [Spec.body, Spec.encProps, List.length_append] at hlen; omega
  unfold encodeServer
  have h1 : (firstByte (.subAck id props codes)).toNat / 16 = 9 := by simp [firstByte]
  have h2 : (firstByte (.subAck id props codes)).toNat % 16 = 0 := by simp [firstByte]
  rw [fromBuffer_frame _ _ _ hlen (by rw [h1]; decide)
    (by rw [h1, h2]; intro f hf; simpa [inboundFlags] using hf) (by rw [h1]; decide), h1]
  simp only [Spec.body, List.append_assoc, readBody, MT_ConnAck, MT_Publish, MT_PubAck, MT_PubRec,
    MT_PubRel, MT_PubComp, MT_SubAck, readU16_enc _ _ hid, dc_readPropBlock_enc _ _ hp]
  cases codes <;> simp

theorem accept_unsubAck (id : Nat) (props codes : Bytes)
    (hwf : (ServerPacket.unsubAck id props codes).wf = true) :
    fromBuffer (encodeServer (.unsubAck id props codes)) = some (.unsubAck id props codes) := by
  simp only [ServerPacket.wf, Bool.and_eq_true, decide_eq_true_eq] at hwf
  obtain ⟨hlen, hid⟩ := hwf
  have hp : props.length ≤ 268435455 := by
    simp only [Spec.body, Spec.encProps, List.length_append] at hlen; omega
  unfold encodeServer
  have h1 : (firstByte (.unsubAck id props codes)).toNat / 16 = 11 := by simp [firstByte]
  have h2 : (firstByte (.unsubAck id props codes)).toNat % 16 = 0 := by simp [firstByte]
  rw [fromBuffer_frame _ _ _ hlen (by rw [h1]; decide)
    (by rw [h1, h2]; intro f hf; simpa [inboundFlags] using hf) (by rw [h1]; decide), h1]
  simp only [Spec.body, List.append_assoc, readBody, MT_ConnAck, MT_Publish, MT_PubAck, MT_PubRec,
    MT_PubRel, MT_PubComp, MT_SubAck, MT_UnsubAck, readU16_enc _ _ hid, dc_readPropBlock_enc _ _ hp]
  cases codes <;> simp

theorem accept_pingResp : fromBuffer (encodeServer .pingResp) = some .pingResp := by decide

theorem accept_disconnect (tail : Spec.Tail) (hwf : (ServerPacket.disconnect tail).wf = true) :
    fromBuffer (encodeServer (.disconnect tail)) = some (ServerPacket.disconnect tail).image := by
  simp only [ServerPacket.wf, Bool.and_eq_true, decide_eq_true_eq] at hwf
  obtain ⟨hlen, htw⟩ := hwf
  unfold encodeServer
  have h1 : (firstByte (.disconnect tail)).toNat / 16 = 14 := by simp [firstByte]
  have h2 : (firstByte (.disconnect tail)).toNat % 16 = 0 := by simp [firstByte]
  rw [fromBuffer_frame _ _ _ hlen (by rw [h1]; decide)
    (by rw [h1, h2]; intro f hf; simpa [inboundFlags] using hf) (by rw [h1]; decide), h1]
  simp only [Spec.body] at hlen ⊢
  cases tail with
  | none => simp [readBody, MT_ConnAck, MT_Publish, MT_PubAck, MT_PubRec, MT_PubRel, MT_PubComp,
      MT_SubAck, MT_UnsubAck, MT_PingResp, MT_Disconnect, Spec.Tail.enc, ServerPacket.image]
  | reason rc =>
    simp only [Spec.Tail.wf, decide_eq_true_eq] at htw
    simp [readBody, MT_ConnAck, MT_Publish, MT_PubAck, MT_PubRec, MT_PubRel, MT_PubComp,
      MT_SubAck, MT_UnsubAck, MT_PingResp, MT_Disconnect, Spec.Tail.enc, ServerPacket.image,
      Nat.mod_eq_of_lt htw]
  | full rc props =>
    simp only [Spec.Tail.wf, decide_eq_true_eq] at htw
    have hp : props.length ≤ 268435455 := by
      have := Tail.enc_length_full rc props; omega
    have hblk := dc_readPropBlock_enc props [] hp
    rw [List.append_nil] at hblk
    have hne : ∃ x xs, Spec.encProps props = x :: xs := by
      unfold Spec.encProps
      rw [encVarint_eq _ hp]
      obtain ⟨x, xs, h⟩ := encodeVarint_ne_nil props.length
      exact ⟨x, xs ++ props, by rw [h]; rfl⟩
    obtain ⟨x, xs, hx⟩ := hne
    simp only [Spec.Tail.enc]
    rw [hx] at hblk ⊢
    simp [readBody, MT_ConnAck, MT_Publish, MT_PubAck, MT_PubRec, MT_PubRel, MT_PubComp,
      MT_SubAck, MT_UnsubAck, MT_PingResp, MT_Disconnect, ServerPacket.image, hblk,
      Nat.mod_eq_of_lt htw]

/-- All kinds together. -/
theorem accept_all (p : ServerPacket) (hwf : p.wf = true) :
    fromBuffer (encodeServer p) = some p.image := by
  cases p with
  | connAck sp reason props => exact accept_connAck sp reason props hwf
  | publish topic qos retain dup id props payload =>
    exact accept_publish topic qos retain dup id props payload hwf
  | ack kind id tail => exact accept_ack kind id tail hwf
  | subAck id props codes => exact accept_subAck id props codes hwf
  | unsubAck id props codes => exact accept_unsubAck id props codes hwf
  | pingResp => exact accept_pingResp
  | disconnect tail => exact accept_disconnect tail hwf


/-! ## Rejection -/

/-- `from_buffer` step by step (the definition, with the first byte split off). -/
theorem fromBuffer_cons (hdr : UInt8) (r0 : Bytes) :
    fromBuffer (hdr :: r0) =
      match decodeVarint r0 with
      | none => none
      | some (_, r1) =>
        if hdr.toNat / 16 = 0 then none else
        if !(match inboundFlags (hdr.toNat / 16) with
            | none => true
            | some f => decide (hdr.toNat % 16 = f)) then none else
        if !(inboundTypes.contains (hdr.toNat / 16)) then none else
        match readBody (hdr.toNat / 16) hdr r1 with
        | none => none
        | some (pkt, rest) =>
          if rest.isEmpty then some pkt else
          match pkt with
          | .publish t i p _ rt q d => some (.publish t i p rest rt q d)
          | .subAck i p _ => some (.subAck i p rest)
          | .unsubAck i p _ => some (.unsubAck i p rest)
          | _ => none := by
  simp only [fromBuffer]
  cases decodeVarint r0 <;> rfl

theorem reject_empty : fromBuffer [] = none := rfl

/-- A remaining length the varint reader refuses. -/
theorem reject_bad_varint (hdr : UInt8) (r0 : Bytes) (h : decodeVarint r0 = none) :
    fromBuffer (hdr :: r0) = none := by
  rw [fromBuffer_cons, h]

/-- The varint reader refuses everything that is not the specification's encoding of a number up
to 268 435 455 followed by the rest: padded (non-canonical) encodings, a fifth length byte,
a string that ends inside the integer. -/
theorem decodeVarint_none_iff (bs : Bytes) :
    decodeVarint bs = none ↔ ∀ n r, n ≤ 268435455 → bs ≠ Spec.encVarint n ++ r := by
  constructor
  · intro h n r hn heq
    rw [heq, encVarint_eq n hn, decode_encode_varint _ _ (by rw [MAXV]; exact hn)] at h
    cases h
  · intro h
    cases hd : decodeVarint bs with
    | none => rfl
    | some p =>
      obtain ⟨n, r⟩ := p
      obtain ⟨h1, h2⟩ := decodeVarint_canonical bs r n hd
      rw [MAXV] at h2
      exact absurd (by rw [encVarint_eq n h2]; exact h1) (h n r h2)

/-- Padded with a zero final group: two, three and four bytes. -/
theorem decodeVarint_padded (b0 b1 b2 : UInt8) (r : Bytes)
    (h0 : 128 ≤ b0.toNat) (h1 : 128 ≤ b1.toNat) (h2 : 128 ≤ b2.toNat) :
    decodeVarint (b0 :: 0 :: r) = none ∧ decodeVarint (b0 :: b1 :: 0 :: r) = none ∧
    decodeVarint (b0 :: b1 :: b2 :: 0 :: r) = none := by
  have z : (0 : UInt8).toNat = 0 := rfl
  refine ⟨?_, ?_, ?_⟩
  · simp only [decodeVarint, z]; rw [if_neg (by omega)]; simp
  · simp only [decodeVarint, z]; rw [if_neg (by omega), if_neg (by omega)]; simp
  · simp only [decodeVarint, z]; rw [if_neg (by omega), if_neg (by omega), if_neg (by omega)]; simp

/-- Four bytes with the continuation bit: the integer would need a fifth byte. -/
theorem decodeVarint_too_long (b0 b1 b2 b3 : UInt8) (r : Bytes)
    (h0 : 128 ≤ b0.toNat) (h1 : 128 ≤ b1.toNat) (h2 : 128 ≤ b2.toNat) (h3 : 128 ≤ b3.toNat) :
    decodeVarint (b0 :: b1 :: b2 :: b3 :: r) = none := by
  simp only [decodeVarint]
  rw [if_neg (by omega), if_neg (by omega), if_neg (by omega), if_neg (by omega)]

theorem reject_type0 (hdr : UInt8) (r0 : Bytes) (h : hdr.toNat / 16 = 0) :
    fromBuffer (hdr :: r0) = none := by
  rw [fromBuffer_cons]
  cases decodeVarint r0 with
  | none => rfl
  | some p => simp [h]

/-- Packet types the client does not decode. -/
theorem reject_unsupported_type (hdr : UInt8) (r0 : Bytes)
    (h : inboundTypes.contains (hdr.toNat / 16) = false) : fromBuffer (hdr :: r0) = none := by
  rw [fromBuffer_cons]
  cases decodeVarint r0 with
  | none => rfl
  | some p =>
    simp only [h, Bool.not_false, if_true]
    repeat' split
    all_goals rfl

/-- The types of the four-bit field that are not in `inboundTypes` are exactly the reserved value
0 and the packets only a client sends, plus AUTH: CONNECT, SUBSCRIBE, UNSUBSCRIBE, PINGREQ, AUTH. -/
theorem unsupported_types : ∀ t, t < 16 →
    (inboundTypes.contains t = false ↔
      t ∈ [0, MT_Connect, MT_Subscribe, MT_Unsubscribe, MT_PingReq, MT_Auth]) := by decide

/-- Fixed-header flags other than the ones required for the type (`inboundFlags`). -/
theorem reject_bad_flags (hdr : UInt8) (r0 : Bytes) (f : Nat)
    (hf : inboundFlags (hdr.toNat / 16) = some f) (h : hdr.toNat % 16 ≠ f) :
    fromBuffer (hdr :: r0) = none := by
  rw [fromBuffer_cons]
  cases decodeVarint r0 with
  | none => rfl
  | some p => simp [hf, h]

/-- The types with required flags are exactly the server packets other than PUBLISH; PUBREL needs
0010, the others 0000. -/
theorem inboundFlags_table : ∀ t, t < 16 →
    inboundFlags t = (if t = MT_PubRel then some 2
      else if t ∈ [MT_ConnAck, MT_PubAck, MT_PubRec, MT_PubComp, MT_SubAck, MT_UnsubAck,
        MT_PingResp, MT_Disconnect] then some 0 else none) := by decide

theorem reject_body (hdr : UInt8) (r0 r1 : Bytes) (n : Nat) (hv : decodeVarint r0 = some (n, r1))
    (hb : readBody (hdr.toNat / 16) hdr r1 = none) : fromBuffer (hdr :: r0) = none := by
  rw [fromBuffer_cons, hv]
  simp only [hb]
  repeat' split
  all_goals rfl

/-- PUBLISH with both QoS bits set. -/
theorem readBody_qos3 (hdr : UInt8) (bs : Bytes) (hq : hdr.toNat / 2 % 4 = 3) :
    readBody MT_Publish hdr bs = none := by
  simp [readBody, MT_Publish, MT_ConnAck, hq]

/-! ### Fields that run past the end of the packet -/

theorem readStr_short (bs : Bytes) (h : bs.length < 2) : readStr bs = none := by
  match bs, h with
  | [], _ => rfl
  | [_], _ => rfl

/-- A length prefix larger than what follows. -/
theorem readStr_overrun (hi lo : UInt8) (r : Bytes) (h : r.length < u16of hi lo) :
    readStr (hi :: lo :: r) = none := by
  simp [readStr, readU16, takeN, h]

/-- A property length larger than what follows. -/
theorem readPropBlock_overrun (bs r : Bytes) (n : Nat) (hv : decodeVarint bs = some (n, r))
    (h : r.length < n) : readPropBlock bs = none := by
  simp [readPropBlock, hv, takeN, h]

theorem readPropBlock_bad_varint (bs : Bytes) (hv : decodeVarint bs = none) :
    readPropBlock bs = none := by
  simp [readPropBlock, hv]

theorem readBody_publish_topic (hdr : UInt8) (bs : Bytes) (h : readStr bs = none) :
    readBody MT_Publish hdr bs = none := by
  simp only [readBody, MT_Publish, MT_ConnAck, h]
  simp

theorem readBody_publish_id_short (hdr : UInt8) (bs topic r : Bytes)
    (hs : readStr bs = some (topic, r)) (hq : 0 < hdr.toNat / 2 % 4) (hr : r.length < 2) :
    readBody MT_Publish hdr bs = none := by
  have : readU16 r = none := by
    match r, hr with
    | [], _ => rfl
    | [_], _ => rfl
  simp [readBody, MT_Publish, MT_ConnAck, hs, hq, this]

theorem readBody_publish_props_qos0 (hdr : UInt8) (bs topic r : Bytes)
    (hs : readStr bs = some (topic, r)) (hq : hdr.toNat / 2 % 4 = 0)
    (hp : readPropBlock r = none) : readBody MT_Publish hdr bs = none := by
  simp [readBody, MT_Publish, MT_ConnAck, hs, hq, hp]

theorem readBody_publish_props_qos12 (hdr : UInt8) (bs topic r r1 : Bytes) (id : Nat)
    (hs : readStr bs = some (topic, r)) (hq : 0 < hdr.toNat / 2 % 4)
    (hi : readU16 r = some (id, r1)) (hp : readPropBlock r1 = none) :
    readBody MT_Publish hdr bs = none := by
  simp [readBody, MT_Publish, MT_ConnAck, hs, hq, hi, hp]

/-- CONNACK: fewer than two bytes, acknowledge flags other than 0 / 1, or a bad property block. -/
theorem readBody_connAck_bad (hdr : UInt8) (bs : Bytes)
    (h : bs.length < 2 ∨ (∃ sp rc r, bs = sp :: rc :: r ∧ (1 < sp.toNat ∨ readPropBlock r = none))) :
    readBody MT_ConnAck hdr bs = none := by
  rcases h with h | ⟨sp, rc, r, rfl, h⟩
  · match bs, h with
    | [], _ => simp [readBody, MT_ConnAck]
    | [_], _ => simp [readBody, MT_ConnAck]
  · rcases h with h | h
    · simp [readBody, MT_ConnAck, h]
    · simp [readBody, MT_ConnAck, h]

def isAckType (t : Nat) : Bool := t = MT_PubAck || t = MT_PubRec || t = MT_PubRel || t = MT_PubComp

theorem readBody_ack (typ : Nat) (hdr : UInt8) (bs : Bytes) (ht : isAckType typ = true) :
    readBody typ hdr bs = (readAck bs).map fun (i, rs, r) =>
      ((if typ = MT_PubAck then Recv.pubAck i rs else if typ = MT_PubRec then Recv.pubRec i rs
        else if typ = MT_PubRel then Recv.pubRel i rs else Recv.pubComp i rs), r) := by
  simp only [isAckType, Bool.or_eq_true, decide_eq_true_eq] at ht
  rcases ht with ((rfl | rfl) | rfl) | rfl <;>
    simp [readBody, MT_ConnAck, MT_Publish, MT_PubAck, MT_PubRec, MT_PubRel, MT_PubComp]

/-- PUBACK / PUBREC / PUBREL / PUBCOMP with fewer than two bytes (no or half a packet id). -/
theorem readAck_short (bs : Bytes) (h : bs.length < 2) : readAck bs = none := by
  match bs, h with
  | [], _ => rfl
  | [_], _ => rfl

/-- … or whose property block is bad. -/
theorem readAck_bad_props (hi lo rc x : UInt8) (r : Bytes) (h : readPropBlock (x :: r) = none) :
    readAck (hi :: lo :: rc :: x :: r) = none := by
  simp [readAck, readU16, readReason, h]

theorem readBody_subAck_bad (hdr : UInt8) (bs : Bytes)
    (h : bs.length < 2 ∨ ∃ hi lo r, bs = hi :: lo :: r ∧ readPropBlock r = none) :
    readBody MT_SubAck hdr bs = none ∧ readBody MT_UnsubAck hdr bs = none := by
  rcases h with h | ⟨hi, lo, r, rfl, h⟩
  · have : readU16 bs = none := by
      match bs, h with
      | [], _ => rfl
      | [_], _ => rfl
    simp [readBody, MT_ConnAck, MT_Publish, MT_PubAck, MT_PubRec, MT_PubRel, MT_PubComp, MT_SubAck,
      MT_UnsubAck, this]
  · simp [readBody, MT_ConnAck, MT_Publish, MT_PubAck, MT_PubRec, MT_PubRel, MT_PubComp, MT_SubAck,
      MT_UnsubAck, readU16, h]

theorem readBody_disconnect_bad_props (hdr rc x : UInt8) (r : Bytes)
    (h : readPropBlock (x :: r) = none) : readBody MT_Disconnect hdr (rc :: x :: r) = none := by
  simp [readBody, MT_ConnAck, MT_Publish, MT_PubAck, MT_PubRec, MT_PubRel, MT_PubComp, MT_SubAck,
    MT_UnsubAck, MT_PingResp, MT_Disconnect, h]

/-- Invalid UTF-8 in a length-prefixed string. -/
theorem readStr_invalid_utf8 (s r : Bytes) (h : s.length ≤ 65535) (hu : validUtf8 s = false) :
    readStr (Spec.encStr s ++ r) = none := by
  unfold readStr Spec.encStr
  rw [List.append_assoc, readU16_enc _ _ (by omega)]
  simp only [dc_takeN_append, hu]
  simp

/-! ### Trailing bytes -/

def Recv.hasPayload : Recv → Bool
  | .publish .. => true
  | .subAck .. => true
  | .unsubAck .. => true
  | _ => false

/-- Only PUBLISH, SUBACK and UNSUBACK bodies decode to packets that take the rest as payload. -/
theorem readBody_hasPayload (typ : Nat) (hdr : UInt8) (bs rest : Bytes) (pkt : Recv)
    (h : readBody typ hdr bs = some (pkt, rest)) (hp : pkt.hasPayload = true) :
    typ = MT_Publish ∨ typ = MT_SubAck ∨ typ = MT_UnsubAck := by
  by_cases h3 : typ = MT_Publish
  · exact Or.inl h3
  by_cases h9 : typ = MT_SubAck
  · exact Or.inr (Or.inl h9)
  by_cases h11 : typ = MT_UnsubAck
  · exact Or.inr (Or.inr h11)
  exfalso
  unfold readBody at h
  simp only [h3, h9, h11, if_false] at h
  repeat' split at h
  all_goals (try simp only [Option.map_eq_some_iff] at h)
  all_goals (try (obtain ⟨_, _, h⟩ := h))
  all_goals (try simp only [Option.some.injEq] at h)
  all_goals (try simp only [Prod.mk.injEq] at h)
  all_goals (try (obtain ⟨rfl, _⟩ := h))
  all_goals (try simp [Recv.hasPayload] at hp)
  all_goals (try simp at h)

/-- A complete body followed by anything is refused, for every type whose packets have no payload
(CONNACK, PUBACK, PUBREC, PUBREL, PUBCOMP, PINGRESP, DISCONNECT). -/
theorem reject_trailing (hdr : UInt8) (r0 r1 rest : Bytes) (n : Nat) (pkt : Recv)
    (hv : decodeVarint r0 = some (n, r1))
    (hb : readBody (hdr.toNat / 16) hdr r1 = some (pkt, rest)) (hne : rest ≠ [])
    (ht : hdr.toNat / 16 ≠ MT_Publish ∧ hdr.toNat / 16 ≠ MT_SubAck ∧ hdr.toNat / 16 ≠ MT_UnsubAck) :
    fromBuffer (hdr :: r0) = none := by
  have hnp : pkt.hasPayload = false := by
    cases hp : pkt.hasPayload with
    | false => rfl
    | true =>
      have := readBody_hasPayload _ _ _ _ _ hb hp
      omega
  rw [fromBuffer_cons, hv]
  simp only [hb]
  have he : rest.isEmpty = false := by cases rest <;> simp_all
  repeat' split
  all_goals first
    | rfl
    | simp_all [Recv.hasPayload]


theorem decodeVarint_encVarint (n : Nat) (r : Bytes) (hn : n ≤ 268435455) :
    decodeVarint (Spec.encVarint n ++ r) = some (n, r) := by
  rw [encVarint_eq n hn, decode_encode_varint _ _ (by rw [MAXV]; exact hn)]

/-- PINGRESP with any body at all. -/
theorem reject_trailing_pingResp (hdr : UInt8) (r0 r1 : Bytes) (n : Nat)
    (ht : hdr.toNat / 16 = MT_PingResp) (hv : decodeVarint r0 = some (n, r1)) (hne : r1 ≠ []) :
    fromBuffer (hdr :: r0) = none := by
  refine reject_trailing hdr r0 r1 r1 n .pingResp hv ?_ hne (by rw [ht]; decide)
  rw [ht]
  simp [readBody, MT_ConnAck, MT_Publish, MT_PubAck, MT_PubRec, MT_PubRel, MT_PubComp, MT_SubAck,
    MT_UnsubAck, MT_PingResp]

/-- A complete CONNACK followed by at least one more byte, whatever the remaining length says. -/
theorem reject_trailing_connAck (sp : Bool) (reason n : Nat) (props extra : Bytes)
    (hwf : (ServerPacket.connAck sp reason props).wf = true) (hn : n ≤ 268435455)
    (hne : extra ≠ []) :
    fromBuffer (firstByte (.connAck sp reason props) ::
      (Spec.encVarint n ++ (Spec.body (.connAck sp reason props) ++ extra))) = none := by
  simp only [ServerPacket.wf, Bool.and_eq_true, decide_eq_true_eq] at hwf
  obtain ⟨hlen, hr⟩ := hwf
  have hp : props.length ≤ 268435455 := by
    simp only [Spec.body, Spec.encProps, List.length_cons, List.length_append] at hlen; omega
  have h1 : (firstByte (.connAck sp reason props)).toNat / 16 = 2 := by simp [firstByte]
  refine reject_trailing _ _ _ extra n (.connAck sp (normReason reason) props)
    (decodeVarint_encVarint n _ hn) ?_ hne (by rw [h1]; decide)
  rw [h1]
  simp only [Spec.body, List.cons_append, readBody, MT_ConnAck, if_true, byte_toNat,
    dc_readPropBlock_enc _ _ hp]
  cases sp <;> simp [Nat.mod_eq_of_lt hr]

theorem readAck_full (id rc : Nat) (props extra : Bytes) (hid : id < 65536) (hrc : rc < 256)
    (hp : props.length ≤ 268435455) :
    readAck (Spec.encU16 id ++ (Spec.Tail.enc (.full rc props) ++ extra)) =
      some (id, { code := some (normReason rc), props := some props }, extra) := by
  unfold readAck
  rw [readU16_enc _ _ hid]
  have hne : ∃ x xs, Spec.encProps props = x :: xs := by
    unfold Spec.encProps
    rw [encVarint_eq _ hp]
    obtain ⟨x, xs, h⟩ := encodeVarint_ne_nil props.length
    exact ⟨x, xs ++ props, by rw [h]; rfl⟩
  obtain ⟨x, xs, hx⟩ := hne
  have hblk := dc_readPropBlock_enc props extra hp
  simp only [Spec.Tail.enc, List.cons_append]
  rw [hx] at hblk ⊢
  simp only [List.cons_append] at hblk
  simp only [List.cons_append, readReason, hblk, byte_toNat, Nat.mod_eq_of_lt hrc]

/-- A PUBACK / PUBREC / PUBREL / PUBCOMP in the full shape followed by at least one more byte.
(Behind the two shorter shapes an extra byte reads as the next shape, so there is no trailing
garbage to speak of.) -/
theorem reject_trailing_ack (kind : AckKind) (id rc n : Nat) (props extra : Bytes)
    (hwf : (ServerPacket.ack kind id (.full rc props)).wf = true) (hn : n ≤ 268435455)
    (hne : extra ≠ []) :
    fromBuffer (firstByte (.ack kind id (.full rc props)) ::
      (Spec.encVarint n ++ (Spec.body (.ack kind id (.full rc props)) ++ extra))) = none := by
  simp only [ServerPacket.wf, Spec.Tail.wf, Bool.and_eq_true, decide_eq_true_eq] at hwf
  obtain ⟨hlen, hid, hrc⟩ := hwf
  have hp : props.length ≤ 268435455 := by
    have := Tail.enc_length_full rc props
    simp only [Spec.body, List.length_append] at hlen; omega
  have h1 : (firstByte (.ack kind id (.full rc props))).toNat / 16 = kind.type := by
    cases kind <;> simp [firstByte, AckKind.type, AckKind.flags]
  have hack := readAck_full id rc props extra hid hrc hp
  have hty : isAckType kind.type = true := by cases kind <;> decide
  have hb := readBody_ack kind.type (firstByte (.ack kind id (.full rc props)))
    (Spec.body (.ack kind id (.full rc props)) ++ extra) hty
  simp only [Spec.body, List.append_assoc, hack, Option.map_some] at hb
  rw [← h1] at hb
  exact reject_trailing _ _ _ extra n _ (decodeVarint_encVarint n _ hn)
    (by simpa only [Spec.body, List.append_assoc] using hb) hne
    (by rw [h1]; cases kind <;> decide)

/-- The same for DISCONNECT in the full shape. -/
theorem reject_trailing_disconnect (rc n : Nat) (props extra : Bytes)
    (hwf : (ServerPacket.disconnect (.full rc props)).wf = true) (hn : n ≤ 268435455)
    (hne : extra ≠ []) :
    fromBuffer (firstByte (.disconnect (.full rc props)) ::
      (Spec.encVarint n ++ (Spec.body (.disconnect (.full rc props)) ++ extra))) = none := by
  simp only [ServerPacket.wf, Spec.Tail.wf, Bool.and_eq_true, decide_eq_true_eq] at hwf
  obtain ⟨hlen, hrc⟩ := hwf
  have hp : props.length ≤ 268435455 := by
    have := Tail.enc_length_full rc props
    simp only [Spec.body] at hlen; omega
  have h1 : (firstByte (.disconnect (.full rc props))).toNat / 16 = 14 := by simp [firstByte]
  have hne' : ∃ x xs, Spec.encProps props = x :: xs := by
    unfold Spec.encProps
    rw [encVarint_eq _ hp]
    obtain ⟨x, xs, h⟩ := encodeVarint_ne_nil props.length
    exact ⟨x, xs ++ props, by rw [h]; rfl⟩
  obtain ⟨x, xs, hx⟩ := hne'
  have hblk := dc_readPropBlock_enc props extra hp
  refine reject_trailing _ _ _ extra n (.disconnect (some (normReason rc)) (some props))
    (decodeVarint_encVarint n _ hn) ?_ hne (by rw [h1]; decide)
  rw [h1]
  simp only [Spec.body, Spec.Tail.enc, List.cons_append]
  rw [hx] at hblk ⊢
  simp only [List.cons_append] at hblk
  simp [readBody, MT_ConnAck, MT_Publish, MT_PubAck, MT_PubRec, MT_PubRel, MT_PubComp, MT_SubAck,
    MT_UnsubAck, MT_PingResp, MT_Disconnect, hblk, Nat.mod_eq_of_lt hrc]

/-! ## What an accepted PUBLISH refers to -/

theorem decodeVarint_inv {bs r : Bytes} {n : Nat} (h : decodeVarint bs = some (n, r)) :
    ∃ v, bs = v ++ r ∧ 1 ≤ v.length := by
  obtain ⟨h1, _⟩ := decodeVarint_canonical bs r n h
  obtain ⟨x, xs, hx⟩ := encodeVarint_ne_nil n
  exact ⟨encodeVarint n, h1, by rw [hx]; simp⟩

theorem takeN_inv {bs a r : Bytes} {n : Nat} (h : takeN bs n = some (a, r)) :
    bs = a ++ r ∧ a.length = n := by
  unfold takeN at h
  split at h
  · simp at h
  · simp only [Option.some.injEq, Prod.mk.injEq] at h
    obtain ⟨rfl, rfl⟩ := h
    exact ⟨by simp, by simp; omega⟩

theorem readU16_inv {bs r : Bytes} {v : Nat} (h : readU16 bs = some (v, r)) :
    ∃ hi lo, bs = hi :: lo :: r ∧ v = u16of hi lo := by
  match bs, h with
  | hi :: lo :: r', h =>
    simp only [readU16, Option.some.injEq, Prod.mk.injEq] at h
    exact ⟨hi, lo, by rw [h.2], h.1.symm⟩

theorem readStr_inv {bs s r : Bytes} (h : readStr bs = some (s, r)) :
    ∃ hi lo, bs = hi :: lo :: (s ++ r) ∧ s.length = u16of hi lo ∧ validUtf8 s = true := by
  unfold readStr at h
  split at h
  · simp at h
  · rename_i n r' hu
    obtain ⟨hi, lo, rfl, rfl⟩ := readU16_inv hu
    split at h
    · simp at h
    · rename_i s' r'' ht
      obtain ⟨rfl, hl⟩ := takeN_inv ht
      split at h
      · rename_i hv
        simp only [Option.some.injEq, Prod.mk.injEq] at h
        obtain ⟨rfl, rfl⟩ := h
        exact ⟨hi, lo, rfl, hl, hv⟩
      · simp at h

theorem readPropBlock_inv {bs blk r : Bytes} (h : readPropBlock bs = some (blk, r)) :
    ∃ v, bs = v ++ blk ++ r ∧ 1 ≤ v.length := by
  unfold readPropBlock at h
  split at h
  · simp at h
  · rename_i n r' hv
    obtain ⟨v, rfl, hvl⟩ := decodeVarint_inv hv
    obtain ⟨rfl, _⟩ := takeN_inv h
    exact ⟨v, by simp, hvl⟩

def Recv.isPublish : Recv → Bool
  | .publish .. => true
  | _ => false

theorem readBody_isPublish (typ : Nat) (hdr : UInt8) (bs rest : Bytes) (pkt : Recv)
    (h : readBody typ hdr bs = some (pkt, rest)) (hp : pkt.isPublish = true) :
    typ = MT_Publish := by
  by_cases h3 : typ = MT_Publish
  · exact h3
  exfalso
  unfold readBody at h
  simp only [h3, if_false] at h
  repeat' split at h
  all_goals (try simp only [Option.map_eq_some_iff] at h)
  all_goals (try (obtain ⟨_, _, h⟩ := h))
  all_goals (try simp only [Option.some.injEq] at h)
  all_goals (try simp only [Prod.mk.injEq] at h)
  all_goals (try (obtain ⟨rfl, _⟩ := h))
  all_goals (try simp [Recv.isPublish] at hp)
  all_goals (try simp at h)

/-- What `readBody` accepts as a PUBLISH: QoS 0–2, a well-formed UTF-8 topic behind its length,
a packet identifier exactly when QoS > 0, a property block behind its length; the fields are
consecutive pieces of the body and the payload is still empty. -/
theorem readBody_publish_inv {hdr : UInt8} {bs rest : Bytes} {pkt : Recv}
    (h : readBody MT_Publish hdr bs = some (pkt, rest)) :
    ∃ topic id blk hi lo mid,
      pkt = .publish topic id blk [] (hdr.toNat % 2 = 1) (hdr.toNat / 2 % 4) (hdr.toNat / 8 % 2 = 1) ∧
      bs = hi :: lo :: (topic ++ (mid ++ (blk ++ rest))) ∧ 1 ≤ mid.length ∧
      topic.length = u16of hi lo ∧ validUtf8 topic = true ∧ hdr.toNat / 2 % 4 ≤ 2 ∧
      (id.isSome = true ↔ 0 < hdr.toNat / 2 % 4) := by
  simp only [readBody, MT_Publish, MT_ConnAck] at h
  simp only [show ¬ (3 = 2) by decide, if_false, if_true] at h
  split at h
  · simp at h
  · rename_i hq3
    have hq : hdr.toNat / 2 % 4 ≤ 2 := by omega
    split at h
    · simp at h
    · rename_i topic r hs
      obtain ⟨hi, lo, rfl, htl, hutf⟩ := readStr_inv hs
      by_cases hq0 : 0 < hdr.toNat / 2 % 4
      · simp only [hq0, if_true] at h
        cases hu : readU16 r with
        | none => simp [hu] at h
        | some p =>
          obtain ⟨i, r1⟩ := p
          obtain ⟨ih, il, rfl, _⟩ := readU16_inv hu
          simp only [hu, Option.map_some] at h
          split at h
          · simp at h
          · rename_i blk r2 hb
            obtain ⟨v, hv, hvl⟩ := readPropBlock_inv hb
            simp only [Option.some.injEq, Prod.mk.injEq] at h
            obtain ⟨rfl, rfl⟩ := h
            refine ⟨topic, some i, blk, hi, lo, ih :: il :: v, rfl, ?_, by simp, htl, hutf, hq, by simp [hq0]⟩
            rw [hv]; simp
      · simp only [hq0, if_false] at h
        split at h
        · simp at h
        · rename_i blk r2 hb
          obtain ⟨v, hv, hvl⟩ := readPropBlock_inv hb
          simp only [Option.some.injEq, Prod.mk.injEq] at h
          obtain ⟨rfl, rfl⟩ := h
          refine ⟨topic, none, blk, hi, lo, v, rfl, ?_, hvl, htl, hutf, hq, by simp [hq0]⟩
          rw [hv]; simp

/-- What an accepting run of `from_buffer` went through. -/
theorem fromBuffer_some_inv {hdr : UInt8} {r0 : Bytes} {out : Recv}
    (h : fromBuffer (hdr :: r0) = some out) :
    ∃ n r1 pkt rest, decodeVarint r0 = some (n, r1) ∧
      readBody (hdr.toNat / 16) hdr r1 = some (pkt, rest) ∧
      some out = (if rest.isEmpty then some pkt else
        match pkt with
        | .publish t i p _ rt q d => some (.publish t i p rest rt q d)
        | .subAck i p _ => some (.subAck i p rest)
        | .unsubAck i p _ => some (.unsubAck i p rest)
        | _ => none) := by
  rw [fromBuffer_cons] at h
  cases hv : decodeVarint r0 with
  | none => rw [hv] at h; cases h
  | some p =>
    obtain ⟨n, r1⟩ := p
    rw [hv] at h
    simp only at h
    by_cases c1 : hdr.toNat / 16 = 0
    · rw [if_pos c1] at h; cases h
    rw [if_neg c1] at h
    by_cases c2 : (!(match inboundFlags (hdr.toNat / 16) with
            | none => true
            | some f => decide (hdr.toNat % 16 = f))) = true
    · rw [if_pos c2] at h; cases h
    rw [if_neg c2] at h
    by_cases c3 : (!(inboundTypes.contains (hdr.toNat / 16))) = true
    · rw [if_pos c3] at h; cases h
    rw [if_neg c3] at h
    cases hb : readBody (hdr.toNat / 16) hdr r1 with
    | none => rw [hb] at h; cases h
    | some pr =>
      obtain ⟨pkt, rest⟩ := pr
      rw [hb] at h
      exact ⟨n, r1, pkt, rest, rfl, hb, h.symm⟩

/-- **No read beyond the packet.** The topic, the property block and the payload of an accepted
PUBLISH are consecutive, non-overlapping pieces of the buffer handed to `from_buffer`, behind at
least four bytes of header (type byte, remaining length, topic length) and with at least the
property length (and the packet identifier, if any) between topic and properties. The decoder
also guarantees QoS ≤ 2, a well-formed UTF-8 topic, and an identifier exactly when QoS > 0. -/
theorem fromBuffer_publish_inv {buf topic props payload : Bytes} {id : Option Nat} {rt d : Bool}
    {q : Nat} (h : fromBuffer buf = some (.publish topic id props payload rt q d)) :
    ∃ pre mid, buf = pre ++ topic ++ mid ++ props ++ payload ∧ 4 ≤ pre.length ∧ 1 ≤ mid.length ∧
      validUtf8 topic = true ∧ q ≤ 2 ∧ (id.isSome = true ↔ 0 < q) := by
  cases buf with
  | nil => simp [fromBuffer] at h
  | cons hdr r0 =>
    obtain ⟨n, r1, pkt, rest, hv, hb, hfin⟩ := fromBuffer_some_inv h
    obtain ⟨v, rfl, hvl⟩ := decodeVarint_inv hv
    have hpub : pkt.isPublish = true := by
      split at hfin
      · simp only [Option.some.injEq] at hfin; subst hfin; rfl
      · split at hfin
        · rfl
        · simp at hfin
        · simp at hfin
        · simp at hfin
    have hty := readBody_isPublish _ _ _ _ _ hb hpub
    rw [hty] at hb
    obtain ⟨topic', id', blk, hi, lo, mid, rfl, rfl, hmid, htl, hutf, hq, hid⟩ :=
      readBody_publish_inv hb
    have hfin' : topic = topic' ∧ id = id' ∧ props = blk ∧ payload = rest ∧
        q = hdr.toNat / 2 % 4 := by
      split at hfin
      · rename_i he
        have : rest = [] := by simpa using he
        simp only [Option.some.injEq, Recv.publish.injEq] at hfin
        obtain ⟨a, b', c, e, _, f, _⟩ := hfin
        exact ⟨a, b', c, by rw [this, e], f⟩
      · simp only [Option.some.injEq, Recv.publish.injEq] at hfin
        obtain ⟨a, b', c, e, _, f, _⟩ := hfin
        exact ⟨a, b', c, e, f⟩
    obtain ⟨rfl, rfl, rfl, rfl, rfl⟩ := hfin'
    refine ⟨hdr :: (v ++ [hi, lo]), mid, by simp, by simp; omega, hmid, hutf, hq, hid⟩

/-! ## A rejected packet kills the connection and is not acted upon -/

theorem takePkt_rest (s : Session) :
    s.takePkt.1.data = s.data ∧ s.takePkt.1.rt = s.rt ∧ s.takePkt.1.clientId = s.clientId := by
  unfold Session.takePkt
  exact ⟨rfl, rfl, rfl⟩

/-- `take_packet` fails exactly when `from_buffer` refuses the packet bytes. -/
theorem takePkt_none_iff (s : Session) (l : Nat) (hp : s.reader.packetLength = some l) :
    s.takePkt.2 = none ↔ fromBuffer (s.reader.data.take l) = none := by
  unfold Session.takePkt Reader.takePacket
  simp only [hp]
  cases fromBuffer (s.reader.data.take l) <;> simp

/-- `process_received_packet` on a packet `from_buffer` refuses: the packet handler
(`handle_packet`) is never run — the session is the one before, with only the reader reset, put
through `handle_disconnect` (transport state reset, replay armed) —, the handle is dead and the
error is `Peer(InvalidPacket)`. -/
theorem processReceivedPacket_invalid (w : World)
    (ha : w.sess.reader.packetAvailable = true) (hbad : w.sess.takePkt.2 = none) :
    w.processReceivedPacket =
      (({ w with sess := w.sess.takePkt.1 } : World).handleDisconnect, .error .peerInvalid) := by
  unfold World.processReceivedPacket
  simp only [ha, Bool.not_true, Bool.false_eq_true, if_false]
  cases h : w.sess.takePkt with
  | mk s1 res =>
    rw [h] at hbad
    simp only at hbad
    subst hbad
    rfl

/-- The same seen from `drive_packet` (`poll` / `recv` / `drive`): the operation returns
`Err(Peer(InvalidPacket))` and the handle is dead. -/
theorem driveLoop_invalid (fuel : Nat) (w : World) (outer : Outer) (adv : Bool)
    (ha : w.sess.reader.packetAvailable = true) (hbad : w.sess.takePkt.2 = none) :
    World.driveLoop (fuel + 1) w outer adv =
      (({ w with sess := w.sess.takePkt.1 } : World).handleDisconnect).finishErr
        (World.outerName outer) .peerInvalid := by
  simp [World.driveLoop, ha, processReceivedPacket_invalid w ha hbad]

/-- … and from the CONNACK wait of `connect`. -/
theorem connectGotPacket_invalid (w : World) (hbad : w.sess.takePkt.2 = none) :
    World.connectGotPacket w =
      (({ w with sess := w.sess.takePkt.1 } : World).handleDisconnect).finishErr
        "connect" .peerInvalid := by
  unfold World.connectGotPacket
  cases h : w.sess.takePkt with
  | mk s1 res =>
    rw [h] at hbad
    simp only at hbad
    subst hbad
    rfl

/-- `MalformedPacket` from the packet reader (bad remaining length, packet larger than the receive
buffer) inside `read_packet`: `Err(Peer(InvalidPacket))`, dead handle, nothing else touched. -/
theorem doWaitRead_malformed (fuel : Nat) (w : World) (outer : Outer) (deadline : Option Nat)
    (yielded : Bool) (ha : w.sess.reader.packetAvailable = false)
    (hw : w.sess.reader.receiveWindow = none) :
    World.doWaitRead (fuel + 1) w outer deadline yielded =
      (w.handleDisconnect).finishErr (World.outerName outer) .peerInvalid := by
  simp [World.doWaitRead, ha, Session.window, hw]

theorem doConnRead_malformed (fuel : Nat) (w : World)
    (ha : w.sess.reader.packetAvailable = false) (hw : w.sess.reader.receiveWindow = none) :
    World.doConnRead (fuel + 1) w = (w.handleDisconnect).finishErr "connect" .peerInvalid := by
  simp [World.doConnRead, ha, Session.window, hw]


/-! ## Packets larger than the receive buffer, remaining lengths of more than four bytes -/

/-- As soon as the bytes held contain a complete fixed header announcing more than the buffer can
hold, `receive_buffer` fails. -/
theorem oversize_window_none (r : Reader) (hp : r.packetLength = none) {hl t : Nat}
    (hfh : fixedHeader r.data = .complete hl t) (hbig : r.cap < t) : r.receiveWindow = none := by
  rw [receiveWindow_unknown r hp, hfh]
  simp only
  rw [if_neg (by omega)]

/-- Five bytes held and no end of the remaining length: `receive_buffer` fails. -/
theorem tooLong_window_none (r : Reader) (hp : r.packetLength = none)
    (hfh : fixedHeader r.data = .tooLong) : r.receiveWindow = none := by
  rw [receiveWindow_unknown r hp, hfh]

theorem frames_oversize (cap : Nat) (s : Bytes) {hl t : Nat}
    (hfh : fixedHeader s = .complete hl t) (hbig : cap < t) :
    frames cap s = ⟨[], .malformed (s.take (min hl cap))⟩ := by
  rw [frames_eq]
  unfold frame1
  rw [hfh]
  simp only
  rw [if_pos hbig]

theorem frames_tooLong (cap : Nat) (s : Bytes) (hfh : fixedHeader s = .tooLong) :
    frames cap s = ⟨[], .malformed (s.take (min 5 cap))⟩ := by
  rw [frames_eq]
  unfold frame1
  rw [hfh]

end Minimq

