import Minimq.Proofs.QuiesceSession
/-
Bounded quiescence (C16, liveness half) — part 3: the closed loop of client and conformant broker, the
invariants of a round, and what each POLL of a round does to them.
-/
namespace Minimq
open Gen World Fuel Outbound
namespace Quiesce

/-! ### Worlds a program produced -/

/-- `W` is what some program made of some initial configuration. -/
def Produced (W : World) : Prop := ∃ cfg ds, W = List.foldl World.execDirective { sess := Session.new cfg } ds

theorem Produced.exec {W : World} (h : Produced W) (d : Directive) : Produced (W.execDirective d) := by
  obtain ⟨cfg, ds, rfl⟩ := h
  exact ⟨cfg, ds ++ [d], by rw [List.foldl_append]; rfl⟩

theorem Produced.quotaP {W : World} (h : Produced W) : QuotaP W.sess := by
  obtain ⟨cfg, ds, rfl⟩ := h
  exact run_inv closed_QuotaP ds { sess := Session.new cfg }
    ⟨⟨ArenaInv_new cfg.tx, ⟨by simp [Session.new, Outbound.new], by simp [Session.new, Outbound.new]⟩⟩,
     Or.inr (by simp [Session.new, Outbound.new, inflight_def])⟩

theorem Produced.arena {W : World} (h : Produced W) : W.sess.data.outbound.ArenaInv := h.quotaP.1.1

theorem Produced.quota {W : World} (h : Produced W) : quotaOk W.sess := h.quotaP.2

theorem Produced.ids {W : World} (h : Produced W) : W.sess.data.outbound.IdInv := by
  obtain ⟨cfg, ds, rfl⟩ := h
  exact (run_inv closed_IdInv ds { sess := Session.new cfg } ⟨IdInv_new cfg.tx, by simp [Session.new]⟩).out

/-! ### Where `settle` leaves the operation -/

/-- What `settle` does to the suspended-operation slot. -/
inductive Rest (X : World) (adv : Bool) : Option Pc → Prop
  | write (pkt : Flushed) (bytes : Bytes) (wr len : Nat) (h1 : len ≤ wr + (bytes.drop wr).length)
      (h2 : WriteState X.sess pkt) (hs : X.sess.data.outbound.nextStep ≠ none) :
      Rest X adv (some (.stepWrite (.drive adv .poll) pkt bytes wr len X.now))
  | flush (pkt : Flushed) (h : FlushState X.sess pkt) (hs : X.sess.data.outbound.nextStep ≠ none) :
      Rest X adv (some (.stepFlush (.drive adv .poll) pkt X.now))
  | done (h : X.sess.data.outbound.nextStep = none) (ha : adv = true) : Rest X adv none
  | wait (h : X.sess.data.outbound.nextStep = none) (ha : adv = false) :
      Rest X adv (some (.waitRead .poll X.sess.rt.nextDeadline true))

theorem settle_rest (X : World) (adv : Bool) (hf : Fits X.sess) (har : X.sess.data.outbound.ArenaInv)
    (hls : X.lastIoStarved = false) :
    ∃ o fut lr, settle X adv = { X with out := o, fut := fut, lastRes := lr } ∧ Rest X adv fut := by
  have hsus : ∀ (l : String) (pc : Pc), ({ (X.emit l) with lastIoStarved := false } : World).suspend pc =
      { X with out := l :: X.out, fut := some pc, lastRes := X.lastRes } := by
    intro l pc
    simp only [World.suspend, World.emit]
    rw [← hls]
  unfold settle
  cases hn : X.sess.data.outbound.nextStep with
  | some st =>
    simp only []
    rcases prepare_ok X st hn hf har with ⟨pkt, bytes, wr, len, hp, h1, h2⟩ | ⟨pkt, hp, h2⟩
    · rw [hp]
      exact ⟨_, _, X.lastRes, hsus _ _, .write pkt bytes wr len h1 h2 (by rw [hn]; simp)⟩
    · rw [hp]
      exact ⟨_, _, X.lastRes, hsus _ _, .flush pkt h2 (by rw [hn]; simp)⟩
  | none =>
    simp only []
    cases adv with
    | true => exact ⟨_, none, some (.ok ()), rfl, .done hn rfl⟩
    | false => exact ⟨_, _, X.lastRes, hsus _ _, .wait hn rfl⟩

/-! ### The closed loop -/

/-- The bytes of a list of broker packets. -/
def enc (as : List Spec.ServerPacket) : Bytes := (as.map Spec.encodeServer).flatten

/-- The packets the current transport has accepted completely since the log had length `L0`. -/
def newLog (L0 : Nat) (W : World) : List LogEntry := (W.log.drop L0).filter (fun f => f.net == W.nets.length)

/-- What the broker sends in answer to those packets. -/
def brokerBytes (fs : List LogEntry) : Bytes := enc (fs.filterMap answerOf)

/-- The client's half of a round: the application calls `poll()`, and every I/O call gets the decision
"everything" until `poll()` returns or waits for input (`go`). -/
def clientTurn (W : World) : World := (W.execDirective .poll).execDirective .go

/-- **One round**: the client's turn, then the broker answers what the transport has accepted completely
during it; its bytes arrive on the current transport. -/
def round (W : World) : World :=
  (clientTurn W).execDirective (.rx (brokerBytes (newLog W.log.length (clientTurn W))))

def rounds : Nat → World → World
  | 0, W => W
  | n + 1, W => rounds n (round W)

theorem frame1_append {cap : Nat} {s : Bytes} (h : frame1 cap s = .packet s []) (rest : Bytes) :
    frame1 cap (s ++ rest) = .packet s rest := by
  obtain ⟨hl, t, hfh, hcap, hts, htake, hdrop⟩ := frame1_packet h
  have ht : t = s.length := by
    have : (s.drop t).length = 0 := by rw [← hdrop]; rfl
    simp at this; omega
  subst ht
  unfold frame1
  rw [fixedHeader_append_complete rest hfh]
  simp only []
  rw [if_neg (by omega), if_neg (by simp)]
  simp

theorem encodeServer_ne_nil (p : Spec.ServerPacket) : Spec.encodeServer p ≠ [] := by
  simp [Spec.encodeServer]

theorem enc_cons (p : Spec.ServerPacket) (as : List Spec.ServerPacket) : enc (p :: as) = Spec.encodeServer p ++ enc as := by
  simp [enc]

theorem enc_append (a c : List Spec.ServerPacket) : enc (a ++ c) = enc a ++ enc c := by
  simp [enc]

theorem enc_eq_nil {as : List Spec.ServerPacket} (h : enc as = []) : as = [] := by
  cases as with
  | nil => rfl
  | cons p as =>
    rw [enc_cons] at h
    exact absurd (List.append_eq_nil_iff.mp h).1 (encodeServer_ne_nil p)

/-- The answers the broker owes are well-formed packets of at most six bytes. -/
theorem expected_wf (o : Outbound) (hsmall : ∀ id ∈ o.usedIds, id < 65536) (p : Spec.ServerPacket)
    (hp : p ∈ expected o) : p.wf = true ∧ (Spec.encodeServer p).length ≤ 6 := by
  unfold expected at hp
  rcases List.mem_append.mp hp with hp | hp
  · obtain ⟨v, hv, hans⟩ := List.mem_filterMap.mp hp
    obtain ⟨_, hah⟩ := ansRet_some hans
    have hid : v.2.1 < 65536 := hsmall _ (by
      rw [usedIds_views]; exact List.mem_append_left _ (List.mem_map_of_mem (f := fun v : RetV => v.2.1) hv))
    rcases ansHeader_cases hah with ⟨_, rfl⟩ | ⟨_, rfl⟩ | ⟨_, _, rfl⟩ | ⟨_, _, rfl⟩
    all_goals
      refine ⟨by simp [Spec.ServerPacket.wf, Spec.body, Spec.encU16, Spec.Tail.enc, Spec.Tail.wf, Spec.encProps,
        Spec.encVarint, Spec.encVarintFuel, hid], by simp [Spec.encodeServer, Spec.body, Spec.encU16, Spec.Tail.enc,
        Spec.encProps, Spec.encVarint, Spec.encVarintFuel]⟩
  · obtain ⟨v, hv, hans⟩ := List.mem_filterMap.mp hp
    obtain ⟨_, rfl⟩ := ansRel_some hans
    have hid : v.1 < 65536 := hsmall _ (by
      rw [usedIds_views]; exact List.mem_append_right _ (List.mem_map_of_mem (f := fun v : RelV => v.1) hv))
    refine ⟨by simp [Spec.ServerPacket.wf, Spec.body, Spec.encU16, Spec.Tail.enc, Spec.Tail.wf, hid],
      by simp [Spec.encodeServer, Spec.body, Spec.encU16, Spec.Tail.enc, Spec.encVarint, Spec.encVarintFuel]⟩

/-! ### The invariants of a round -/

/-- What holds of the world throughout: the lifted session invariants, the connection is live, no I/O decision
is left over, no keep-alive event is due, the session is `Tidy`, and the packet reader is consistent with
what the transport still has to deliver. -/
structure Live (W : World) : Prop where
  ids : W.sess.data.outbound.IdInv
  arena : W.sess.data.outbound.ArenaInv
  quota : quotaOk W.sess
  live : W.live = true
  slot : W.slot = none
  nets : W.nets ≠ []
  calm : KaCalm W.sess.rt W.now
  tidy : Tidy W.sess
  kinds : KnownKinds W.sess.data.outbound
  cap : 6 ≤ W.sess.reader.cap
  wait : Waiting W.sess.reader W.curNet.rx
  idle : W.curNet.rx = [] → W.sess.reader.data = []

/-- The suspended operation is a `poll()` at one of its three await points, consistent with the queues:
writing an entry that is not completely written, flushing an entry in `Flush`, or — nothing to send —
waiting for input; or `poll()` has returned with nothing to send. -/
def PcOK (W : World) : Prop :=
  match W.fut with
  | some (.stepWrite (.drive _ .poll) pkt bytes wr len now) =>
    len ≤ wr + (bytes.drop wr).length ∧ WriteState W.sess pkt ∧ now = W.now ∧ W.sess.reader.data = []
  | some (.stepFlush (.drive _ .poll) pkt now) => FlushState W.sess pkt ∧ now = W.now ∧ W.sess.reader.data = []
  | some (.waitRead .poll dl _) => DeadlineOK W.now dl ∧ W.sess.data.outbound.nextStep = none
  | none => W.sess.data.outbound.nextStep = none ∧ W.sess.reader.data = []
  | _ => False

/-- The inbound stream (what the reader holds, then what the transport has) is exactly the broker's
answers `as` that have not been read, and these together with the answers still to be given to what was
written since the log had length `L0` are the answers the broker owes. -/
def Sync (L0 : Nat) (W : World) : Prop :=
  ∃ as, W.sess.reader.data ++ W.curNet.rx = enc as ∧
    (as ++ (newLog L0 W).filterMap answerOf).Perm (expected W.sess.data.outbound)

/-- Decisions that certainly suffice to end the client's turn. -/
def nu (W : World) : Nat :=
  2 * pending W.sess.data.outbound +
    (match W.fut with
     | some (.stepWrite _ _ _ _ _ _) => 1
     | _ => 0) + 4 * W.curNet.rx.length

/-- The invariant between two POLLs of a round that started with the log at length `L0`, `owed0`
acknowledgements to come, `pend0` entries with work to do and session generation `G`; `h` acknowledgements
have been handled. -/
structure Mid (L0 owed0 pend0 G h : Nat) (W : World) : Prop where
  reach : Produced W
  live : Live W
  starved : W.lastIoStarved = true → W.curNet.rx = [] ∧ ∃ dl y, W.fut = some (.waitRead .poll dl y)
  wakes : W.wakes = 0
  pc : PcOK W
  sync : Sync L0 W
  logLe : L0 ≤ W.log.length
  acct : owed W.sess.data.outbound + h = owed0
  quiet0 : h = 0 → pend0 = 0 → (∃ dl y, W.fut = some (.waitRead .poll dl y)) ∧ W.log.length = L0
  gen : W.sess.data.generation = G

theorem curNet_concat (ns : List Net) (n : Net) : ({ nets := ns ++ [n], sess := default } : World).curNet = n := by
  simp [World.curNet]

theorem curNet_of_nets' (W : World) (ns : List Net) (n : Net) (h : W.nets = ns ++ [n]) : W.curNet = n := by
  unfold World.curNet; rw [h]; simp

theorem newLog_append (L0 : Nat) (W W' : World) (f : LogEntry) (hl : W'.log = W.log ++ [f])
    (hn : W'.nets.length = W.nets.length) (hle : L0 ≤ W.log.length) (hf : f.net = W.nets.length) :
    newLog L0 W' = newLog L0 W ++ [f] := by
  unfold newLog
  rw [hl, hn, List.drop_append_of_le_length hle, List.filter_append]
  simp [hf]

theorem newLog_same (L0 : Nat) (W W' : World) (hl : W'.log = W.log) (hn : W'.nets.length = W.nets.length) :
    newLog L0 W' = newLog L0 W := by
  unfold newLog; rw [hl, hn]

theorem step_reach {W : World} (h : Produced W) (hf : W.fut.isSome = true) : Produced (step W) := by
  rw [← execDirective_d250 W hf]; exact h.exec _

theorem pcOK_write {W : World} {adv : Bool} {pkt : Flushed} {bytes : Bytes} {wr len now : Nat}
    (hf : W.fut = some (.stepWrite (.drive adv .poll) pkt bytes wr len now)) (h : PcOK W) :
    len ≤ wr + (bytes.drop wr).length ∧ WriteState W.sess pkt ∧ now = W.now ∧ W.sess.reader.data = [] := by
  unfold PcOK at h; rw [hf] at h; exact h

/-- **The write decision keeps the invariant** and uses up one of the decisions that may be needed. -/
theorem mid_write (L0 owed0 pend0 G h : Nat) (W : World) (hm : Mid L0 owed0 pend0 G h W)
    (adv : Bool) (pkt : Flushed) (bytes : Bytes) (wr len now : Nat)
    (hf : W.fut = some (.stepWrite (.drive adv .poll) pkt bytes wr len now)) :
    Mid L0 owed0 pend0 G h (step W) ∧ nu (step W) < nu W ∧ (step W).fut.isSome = true := by
  obtain ⟨hlen, hws, hnow', hdata⟩ := pcOK_write hf hm.pc
  have hreach := step_reach hm.reach (by rw [hf]; rfl)
  obtain ⟨o, hstep⟩ := step_write W _ pkt bytes wr len now hf hlen hm.live.nets
  obtain ⟨e1, e2, e3, e4, e5, e6, e7, e8⟩ :=
    written_effect W.sess pkt (wr + (bytes.drop wr).length) len hlen hm.live.ids hws hm.live.tidy
  have hk := knownKinds_written W.sess pkt (wr + (bytes.drop wr).length) len hlen hm.live.ids hm.live.kinds
  have hs : (step W).sess = W.sess.setWritten pkt (wr + (bytes.drop wr).length) len := by rw [hstep]
  have hfut : (step W).fut = some (.stepFlush (.drive adv .poll) pkt now) := by rw [hstep]
  have hnets : (step W).nets = W.nets.dropLast ++ [{ W.curNet with wire := W.curNet.wire ++ bytes.drop wr }] := by
    rw [hstep]
  have hlog : (step W).log = W.log ++ [W.doneFrame pkt] := by rw [hstep]
  have hconn : (step W).conn = W.conn := by rw [hstep]
  have hnow : (step W).now = W.now := by rw [hstep]
  have hslot : (step W).slot = none := by rw [hstep]
  have hwk : (step W).wakes = 0 := by rw [hstep]
  have hst : (step W).lastIoStarved = false := by rw [hstep]
  have hrx : (step W).curNet.rx = W.curNet.rx := by rw [curNet_of_nets' _ _ _ hnets]
  have hnl : (step W).nets.length = W.nets.length := by rw [hnets]; exact dropLast_concat_length _ _ hm.live.nets
  refine ⟨⟨hreach, ⟨hreach.ids, hreach.arena, hreach.quota, ?_, hslot, ?_, ?_, ?_, ?_, ?_, ?_, ?_⟩, ?_, hwk, ?_, ?_, ?_, ?_, ?_,
    by rw [hs, e8]; exact hm.gen⟩, ?_, by rw [hfut]; rfl⟩
  · unfold World.live; rw [hconn]; exact hm.live.live
  · rw [hnets]; simp
  · rw [hs, e6, hnow]; exact hm.live.calm
  · rw [hs]; exact e1
  · rw [hs]; exact hk
  · rw [hs, e7]; exact hm.live.cap
  · rw [hs, e7, hrx]; exact hm.live.wait
  · rw [hs, e7, hrx]; exact hm.live.idle
  · rw [hst]; intro h; cases h
  · -- PcOK
    unfold PcOK; rw [hfut]
    simp only []
    rw [hs, hnow]
    exact ⟨e5, hnow', by rw [e7]; exact hdata⟩
  · -- Sync
    obtain ⟨as, hs1, hs2⟩ := hm.sync
    refine ⟨as, by rw [hs, e7, hrx]; exact hs1, ?_⟩
    have hnew := newLog_append L0 W (step W) (W.doneFrame pkt) hlog hnl hm.logLe
      (by unfold World.doneFrame; cases pkt <;> simp only [] <;> (try split) <;> rfl)
    rw [hnew, List.filterMap_append, hs]
    simp only [List.filterMap_cons, List.filterMap_nil, answerOf_doneFrame]
    refine List.Perm.trans ?_ e4.symm
    cases hap : ansPkt W.sess pkt with
    | none => simpa using hs2
    | some a =>
      simp only [Option.toList_some, List.singleton_append]
      rw [← List.append_assoc]
      exact (List.perm_append_singleton a _).trans (List.Perm.cons a hs2)
  · rw [hlog]; have := hm.logLe; simp; omega
  · rw [hs, e2]; exact hm.acct
  · intro h0 hp0
    obtain ⟨⟨dl, y, hfw⟩, _⟩ := hm.quiet0 h0 hp0
    rw [hf] at hfw; cases hfw
  · -- nu
    unfold nu
    rw [hfut, hf, hs, e3, hrx]
    simp only []
    omega

/-- Under `Fits` an acknowledgement or PUBREL never fails its size check, and a retained packet that
does fails the call without touching the session (`poll` context): `settle` keeps the session. -/
theorem settle_sess (X : World) (adv : Bool) (hf : Fits X.sess) : (settle X adv).sess = X.sess := by
  unfold settle
  cases hn : X.sess.data.outbound.nextStep with
  | none => simp only []; split <;> rfl
  | some st =>
    simp only []
    cases hp : prepareStep X st with
    | write pkt bytes wr len => rfl
    | flush pkt => rfl
    | done => rfl
    | fail e =>
      have hso := nextStep_stepOf _ st hn
      cases hso with
      | retained e' he hs => rfl
      | control e' he hs =>
        exfalso
        cases hst : e'.state with
        | sent => exact hs hst
        | flush => simp [prepareStep, hst] at hp
        | write n =>
          obtain ⟨bs, h1, h2⟩ := hf.control e' he
          simp [prepareStep, hst, h1, h2] at hp
      | release e' he hs =>
        exfalso
        cases hst : e'.state with
        | sent => exact hs hst
        | flush => simp [prepareStep, hst] at hp
        | write n =>
          obtain ⟨bs, h1, h2⟩ := encodePubrel_len e'.id e'.rc
          simp [prepareStep, hst, h1, h2, hf.pubrel] at hp

theorem pcOK_flush {W : World} {adv : Bool} {pkt : Flushed} {now : Nat}
    (hf : W.fut = some (.stepFlush (.drive adv .poll) pkt now)) (h : PcOK W) :
    FlushState W.sess pkt ∧ now = W.now ∧ W.sess.reader.data = [] := by
  unfold PcOK at h; rw [hf] at h; exact h

/-- The invariant for the world in which `settle` leaves the operation, from the invariant of the world
it starts from (`fut = none`, reader at a packet boundary). -/
theorem mid_settle (L0 owed0 pend0 G h : Nat) (X : World) (hl : Live X) (hsy : Sync L0 X) (hle : L0 ≤ X.log.length)
    (hacct : owed X.sess.data.outbound + h = owed0) (hq : ¬ (h = 0 ∧ pend0 = 0))
    (hgen : X.sess.data.generation = G)
    (hdata : X.sess.reader.data = []) (hst : X.lastIoStarved = false) (hwk : X.wakes = 0)
    (hr : Produced (settle X true)) :
    Mid L0 owed0 pend0 G h (settle X true) ∧
    ((settle X true).fut = none ∨
      ((settle X true).fut.isSome = true ∧
        nu (settle X true) ≤ 2 * pending X.sess.data.outbound + 1 + 4 * X.curNet.rx.length)) := by
  obtain ⟨o, fut, lr, heq, hrest⟩ := settle_rest X true hl.tidy.fits hl.arena hst
  rw [heq] at hr ⊢
  have hlive : Live ({ X with out := o, fut := fut, lastRes := lr } : World) :=
    ⟨hl.ids, hl.arena, hl.quota, hl.live, hl.slot, hl.nets, hl.calm, hl.tidy, hl.kinds, hl.cap, hl.wait, hl.idle⟩
  have hstv : ∀ (Y : World), Y.lastIoStarved = false → Y.lastIoStarved = true →
      Y.curNet.rx = [] ∧ ∃ dl y, Y.fut = some (.waitRead .poll dl y) :=
    fun _ h1 h2 => by rw [h1] at h2; cases h2
  have hquiet : ∀ (Y : World), h = 0 → pend0 = 0 → (∃ dl y, Y.fut = some (.waitRead .poll dl y)) ∧ Y.log.length = L0 :=
    fun _ h0 hp0 => absurd ⟨h0, hp0⟩ hq
  cases hrest with
  | write pkt bytes wr len h1 h2 _ =>
    refine ⟨⟨hr, hlive, hstv _ hst, hwk, ⟨h1, h2, rfl, hdata⟩, hsy, hle, hacct, hquiet _, hgen⟩, .inr ⟨rfl, ?_⟩⟩
    unfold nu
    show 2 * pending X.sess.data.outbound + 1 + 4 * X.curNet.rx.length ≤ _
    omega
  | flush pkt h2 _ =>
    refine ⟨⟨hr, hlive, hstv _ hst, hwk, ⟨h2, rfl, hdata⟩, hsy, hle, hacct, hquiet _, hgen⟩, .inr ⟨rfl, ?_⟩⟩
    unfold nu
    show 2 * pending X.sess.data.outbound + 0 + 4 * X.curNet.rx.length ≤ _
    omega
  | done hn ha =>
    exact ⟨⟨hr, hlive, hstv _ hst, hwk, ⟨hn, hdata⟩, hsy, hle, hacct, hquiet _, hgen⟩, .inl rfl⟩
  | wait hn ha => cases ha

/-- **The flush decision keeps the invariant**; the operation ends (`poll()` returns) or goes on to the
next entry with fewer decisions needed. -/
theorem mid_flush (L0 owed0 pend0 G h : Nat) (W : World) (hm : Mid L0 owed0 pend0 G h W)
    (adv : Bool) (pkt : Flushed) (now : Nat)
    (hf : W.fut = some (.stepFlush (.drive adv .poll) pkt now)) :
    Mid L0 owed0 pend0 G h (step W) ∧ ((step W).fut = none ∨ ((step W).fut.isSome = true ∧ nu (step W) < nu W)) := by
  obtain ⟨hfs, hnow, hdata⟩ := pcOK_flush hf hm.pc
  subst hnow
  have hreach := step_reach hm.reach (by rw [hf]; rfl)
  have hcalm := KaCalm.completeFlush hm.live.calm pkt
  obtain ⟨o, hstep⟩ := step_flush W adv pkt W.now hf hm.live.live hm.live.wait hcalm
  obtain ⟨e1, e2, e3, e4, e5, e6⟩ := flushed_effect W.sess pkt W.now hm.live.ids hfs hm.live.tidy
  have hk := knownKinds_flushed W.sess pkt W.now hm.live.ids hm.live.kinds
  rw [hstep] at hreach ⊢
  have hq : ¬ (h = 0 ∧ pend0 = 0) := by
    intro ⟨h0, hp0⟩
    obtain ⟨⟨dl, y, hfw⟩, _⟩ := hm.quiet0 h0 hp0
    rw [hf] at hfw; cases hfw
  have hsess : (settle (flushedW W pkt W.now o) true).sess = W.sess.completeFlush pkt W.now := settle_sess _ _ e1.fits
  have hlive : Live (flushedW W pkt W.now o) := by
    refine ⟨?_, ?_, ?_, hm.live.live, rfl, hm.live.nets, hcalm, e1, hk, ?_, ?_, ?_⟩
    · have := hreach.ids; rw [hsess] at this; exact this
    · have := hreach.arena; rw [hsess] at this; exact this
    · have := hreach.quota; unfold quotaOk at this ⊢; rw [hsess] at this; exact this
    · show 6 ≤ (W.sess.completeFlush pkt W.now).reader.cap
      rw [e5]; exact hm.live.cap
    · show Waiting (W.sess.completeFlush pkt W.now).reader W.curNet.rx
      rw [e5]; exact hm.live.wait
    · show W.curNet.rx = [] → (W.sess.completeFlush pkt W.now).reader.data = []
      rw [e5]; exact hm.live.idle
  have hsync : Sync L0 (flushedW W pkt W.now o) := by
    obtain ⟨as, hs1, hs2⟩ := hm.sync
    refine ⟨as, ?_, ?_⟩
    · show (W.sess.completeFlush pkt W.now).reader.data ++ W.curNet.rx = _
      rw [e5]; exact hs1
    · show (as ++ (newLog L0 (flushedW W pkt W.now o)).filterMap answerOf).Perm
        (expected (W.sess.completeFlush pkt W.now).data.outbound)
      rw [e4, newLog_same L0 W (flushedW W pkt W.now o) rfl rfl]; exact hs2
  obtain ⟨hmid, hout⟩ := mid_settle L0 owed0 pend0 G h (flushedW W pkt W.now o) hlive hsync hm.logLe
    (by show owed (W.sess.completeFlush pkt W.now).data.outbound + h = owed0; rw [e2]; exact hm.acct) hq
    (by show (W.sess.completeFlush pkt W.now).data.generation = G; rw [e6]; exact hm.gen)
    (by show (W.sess.completeFlush pkt W.now).reader.data = []; rw [e5]; exact hdata) rfl rfl hreach
  refine ⟨hmid, ?_⟩
  rcases hout with h1 | ⟨h1, h2⟩
  · exact .inl h1
  · refine .inr ⟨h1, ?_⟩
    have hp : pending (flushedW W pkt W.now o).sess.data.outbound + 1 = pending W.sess.data.outbound := e3
    have hrx : (flushedW W pkt W.now o).curNet.rx = W.curNet.rx := rfl
    rw [hrx] at h2
    have : nu W = 2 * pending W.sess.data.outbound + 0 + 4 * W.curNet.rx.length := by
      unfold nu; rw [hf]
    omega

theorem pcOK_wait {W : World} {dl : Option Nat} {y : Bool}
    (hf : W.fut = some (.waitRead .poll dl y)) (h : PcOK W) :
    DeadlineOK W.now dl ∧ W.sess.data.outbound.nextStep = none := by
  unfold PcOK at h; rw [hf] at h; exact h

theorem tidy_reader {s : Session} (ht : Tidy s) (r : Reader) : Tidy { s with reader := r } :=
  ⟨ht.clean, ht.noPing, ht.ctlCap, ⟨ht.fits.control, ht.fits.pubrel, ht.fits.retained⟩, ht.small, ht.deficit, ht.maxq,
    ht.quotaEq⟩

/-- **A starved read keeps the invariant** (and stops `go`). -/
theorem mid_starved (L0 owed0 pend0 G h : Nat) (W : World) (hm : Mid L0 owed0 pend0 G h W)
    (dl : Option Nat) (y : Bool) (hf : W.fut = some (.waitRead .poll dl y)) (hrx : W.curNet.rx = []) :
    Mid L0 owed0 pend0 G h (step W) ∧ (step W).lastIoStarved = true ∧ (step W).fut.isSome = true := by
  obtain ⟨hdl, hns⟩ := pcOK_wait hf hm.pc
  have hreach := step_reach hm.reach (by rw [hf]; rfl)
  obtain ⟨o, hstep⟩ := step_starved W .poll dl y hf hm.live.wait hrx hdl
  rw [hstep] at hreach ⊢
  refine ⟨⟨hreach, ⟨hm.live.ids, hm.live.arena, hm.live.quota, hm.live.live, rfl, hm.live.nets, hm.live.calm,
    hm.live.tidy, hm.live.kinds, hm.live.cap, hm.live.wait, hm.live.idle⟩, fun _ => ⟨hrx, dl, true, rfl⟩, rfl, ⟨hdl, hns⟩, hm.sync,
    hm.logLe, hm.acct, ?_, hm.gen⟩, rfl, rfl⟩
  intro h0 hp0
  exact ⟨⟨dl, true, rfl⟩, (hm.quiet0 h0 hp0).2⟩

theorem stream_packet (cap : Nat) (a : Spec.ServerPacket) (as' : List Spec.ServerPacket) (hwf : a.wf = true)
    (hlen : (Spec.encodeServer a).length ≤ cap) :
    frame1 cap (enc (a :: as')) = .packet (Spec.encodeServer a) (enc as') := by
  rw [enc_cons]
  exact frame1_append (frame1_encodeServer cap a hwf hlen) _

/-- The head of the inbound stream: the next answer of the broker, a well-formed packet that fits the
receive buffer and that the broker owes. -/
theorem sync_head {L0 : Nat} {W : World} (hl : Live W) (hsy : Sync L0 W) (hne : W.curNet.rx ≠ []) :
    ∃ a as', W.sess.reader.data ++ W.curNet.rx = enc (a :: as') ∧
      ((a :: as') ++ (newLog L0 W).filterMap answerOf).Perm (expected W.sess.data.outbound) ∧
      a ∈ expected W.sess.data.outbound ∧
      frame1 W.sess.reader.cap (W.sess.reader.data ++ W.curNet.rx) = .packet (Spec.encodeServer a) (enc as') := by
  obtain ⟨as, hs1, hs2⟩ := hsy
  cases as with
  | nil =>
    exfalso
    have : W.sess.reader.data ++ W.curNet.rx = [] := hs1
    exact hne (List.append_eq_nil_iff.mp this).2
  | cons a as' =>
    have hmem : a ∈ expected W.sess.data.outbound := hs2.subset (by simp)
    obtain ⟨hwf, hlen⟩ := expected_wf _ hl.tidy.small a hmem
    refine ⟨a, as', hs1, hs2, hmem, ?_⟩
    rw [hs1]
    exact stream_packet _ a as' hwf (by have := hl.cap; omega)

/-- **A read that leaves the packet incomplete keeps the invariant**, with fewer decisions needed. -/
theorem mid_more (L0 owed0 pend0 G h : Nat) (W : World) (hm : Mid L0 owed0 pend0 G h W)
    (dl : Option Nat) (y : Bool) (hf : W.fut = some (.waitRead .poll dl y)) (hne : W.curNet.rx ≠ [])
    (hkind : readKind W.sess.reader W.curNet.rx (W.readCount 250) = .more) :
    Mid L0 owed0 pend0 G h (step W) ∧ (step W).fut.isSome = true ∧ nu (step W) < nu W := by
  obtain ⟨hdl, hns⟩ := pcOK_wait hf hm.pc
  have hreach := step_reach hm.reach (by rw [hf]; rfl)
  obtain ⟨hstep, hwait', hex⟩ := step_more W .poll dl y hf hdl hm.live.wait hne hkind
  obtain ⟨_, _, hc1, _, hcl⟩ := read_setup hm.live.wait hne (k := 250) (by omega)
  obtain ⟨a, as', hs1, hs2, hmem, hfr⟩ := sync_head hm.live hm.sync hne
  have hrest : W.curNet.rx.drop (W.readCount 250) ≠ [] := by
    intro h0
    rw [hex h0] at hfr; cases hfr
  rw [hstep] at hreach ⊢
  have hcur : (W.withRead (W.sess.reader.holding (W.sess.reader.data ++ W.curNet.rx.take (W.readCount 250)))
      (W.curNet.rx.drop (W.readCount 250)) [W.rpLine, W.rLine (W.readCount 250)]
      (some (.waitRead .poll dl true))).curNet.rx = W.curNet.rx.drop (W.readCount 250) := by
    rw [withRead_curNet]
  refine ⟨⟨hreach, ⟨hm.live.ids, hm.live.arena, hm.live.quota, hm.live.live, rfl, ?_, hm.live.calm,
    tidy_reader hm.live.tidy _, hm.live.kinds, hm.live.cap, ?_, ?_⟩, (fun h => by cases h), rfl, ⟨hdl, hns⟩, ?_,
    hm.logLe, hm.acct, ?_, hm.gen⟩, rfl, ?_⟩
  · simp [World.withRead]
  · rw [hcur]; exact hwait'
  · rw [hcur]; intro h0; exact absurd h0 hrest
  · refine ⟨a :: as', ?_, ?_⟩
    · rw [hcur]
      show (W.sess.reader.data ++ W.curNet.rx.take (W.readCount 250)) ++ W.curNet.rx.drop (W.readCount 250) = _
      rw [List.append_assoc, List.take_append_drop]; exact hs1
    · have hnl : newLog L0 (W.withRead (W.sess.reader.holding (W.sess.reader.data ++ W.curNet.rx.take (W.readCount 250)))
          (W.curNet.rx.drop (W.readCount 250)) [W.rpLine, W.rLine (W.readCount 250)]
          (some (.waitRead .poll dl true))) = newLog L0 W :=
        newLog_same L0 W _ rfl (dropLast_concat_length _ _ hm.live.nets)
      rw [hnl]; exact hs2
  · intro h0 hp0
    exact ⟨⟨dl, true, rfl⟩, (hm.quiet0 h0 hp0).2⟩
  · unfold nu
    rw [hcur, hf]
    show 2 * pending W.sess.data.outbound + 0 + 4 * (W.curNet.rx.drop (W.readCount 250)).length < _
    rw [List.length_drop]
    omega

/-- **The read that completes an answer of the broker keeps the invariant**: the answer is handled (one
acknowledgement less to come), and the operation ends or goes on to what there is to send now. -/
theorem mid_packet (L0 owed0 pend0 G h : Nat) (W : World) (hm : Mid L0 owed0 pend0 G h W)
    (dl : Option Nat) (y : Bool) (hf : W.fut = some (.waitRead .poll dl y)) (hne : W.curNet.rx ≠ [])
    (hkind : readKind W.sess.reader W.curNet.rx (W.readCount 250) = .packet) :
    Mid L0 owed0 pend0 G (h + 1) (step W) ∧
    ((step W).fut = none ∨ ((step W).fut.isSome = true ∧ nu (step W) < nu W)) := by
  obtain ⟨hdl, hns⟩ := pcOK_wait hf hm.pc
  have hreach := step_reach hm.reach (by rw [hf]; rfl)
  obtain ⟨_, _, hc1, _, hcl⟩ := read_setup hm.live.wait hne (k := 250) (by omega)
  obtain ⟨a, as', hs1, hs2, hmem, hfr⟩ := sync_head hm.live hm.sync hne
  obtain ⟨hwf, _⟩ := expected_wf _ hm.live.tidy.small a hmem
  -- the packet completed is the broker's next answer
  have hfr2 := (d_packet W .poll dl y 250 hf hm.live.wait hne (by omega) (Nat.le_refl _) hkind).1
  rw [hfr] at hfr2
  simp only [Frame1.packet.injEq] at hfr2
  obtain ⟨hpkt, hrest⟩ := hfr2
  have hp : fromBuffer (W.sess.reader.data ++ W.curNet.rx.take (W.readCount 250)) = some a.image := by
    rw [← hpkt]; exact accept_all a hwf
  obtain ⟨r1, r2, r3, r4, r5, r6, r7, r8, r9⟩ :=
    received_effect W.sess (W.sess.reader.data ++ W.curNet.rx.take (W.readCount 250)) a hmem hm.live.ids hm.live.arena
      hm.live.tidy hm.live.quota hm.live.kinds W.now hm.live.calm
  obtain ⟨_, o, hstep⟩ := step_packet W dl y hf hm.live.wait hne hkind hm.live.live (by have := hm.live.cap; omega)
    a.image hp r1 r4
  generalize hS : ((took W.sess (W.sess.reader.data ++ W.curNet.rx.take (W.readCount 250))).handle a.image).1 = S
    at r2 r3 r4 r5 r6 r7 r8 r9 hstep
  rw [hstep] at hreach ⊢
  have hsess : (settle (recvW W S (W.curNet.rx.drop (W.readCount 250)) o) true).sess = S := settle_sess _ _ r2.fits
  have hcur : (recvW W S (W.curNet.rx.drop (W.readCount 250)) o).curNet.rx = W.curNet.rx.drop (W.readCount 250) := by
    simp [recvW, World.curNet]
  have hdata : S.reader.data = [] := by rw [r8]; rfl
  have hlive : Live (recvW W S (W.curNet.rx.drop (W.readCount 250)) o) := by
    refine ⟨?_, ?_, ?_, hm.live.live, rfl, ?_, r4, r2, r3, ?_, ?_, ?_⟩
    · have := hreach.ids; rw [hsess] at this; exact this
    · have := hreach.arena; rw [hsess] at this; exact this
    · have := hreach.quota; unfold quotaOk at this ⊢; rw [hsess] at this; exact this
    · simp [recvW]
    · show 6 ≤ S.reader.cap
      rw [r8]; exact hm.live.cap
    · show Waiting S.reader _
      apply Waiting_fresh
      · exact hdata
      · rw [r8]; rfl
      · rw [r8]; have := hm.live.cap; exact Nat.le_trans (by omega) this
    · intro _; exact hdata
  have hsync : Sync L0 (recvW W S (W.curNet.rx.drop (W.readCount 250)) o) := by
    refine ⟨as', ?_, ?_⟩
    · show S.reader.data ++ _ = _
      rw [hcur, hdata, ← hrest]; rfl
    · have hnl : newLog L0 (recvW W S (W.curNet.rx.drop (W.readCount 250)) o) = newLog L0 W :=
        newLog_same L0 W _ rfl (dropLast_concat_length _ _ hm.live.nets)
      rw [hnl]
      show (as' ++ (newLog L0 W).filterMap answerOf).Perm (expected S.data.outbound)
      refine List.Perm.trans ?_ r7.symm
      have := hs2.erase a
      rw [List.cons_append, List.erase_cons_head] at this
      exact this
  obtain ⟨hmid, hout⟩ := mid_settle L0 owed0 pend0 G (h + 1) _ hlive hsync hm.logLe
    (by show owed S.data.outbound + (h + 1) = owed0; have := hm.acct; omega) (by omega)
    (by show S.data.generation = G; rw [r9]; exact hm.gen) hdata rfl rfl hreach
  refine ⟨hmid, ?_⟩
  rcases hout with h1 | ⟨h1, h2⟩
  · exact .inl h1
  · refine .inr ⟨h1, ?_⟩
    rw [hcur, List.length_drop] at h2
    have hp' : pending S.data.outbound ≤ pending W.sess.data.outbound + 1 := r6
    have : nu W = 2 * pending W.sess.data.outbound + 0 + 4 * W.curNet.rx.length := by
      unfold nu; rw [hf]
    show nu (settle (recvW W S (W.curNet.rx.drop (W.readCount 250)) o) true) < nu W
    have hp2 : pending (recvW W S (W.curNet.rx.drop (W.readCount 250)) o).sess.data.outbound = pending S.data.outbound := rfl
    omega

/-- **One POLL of a round keeps the invariant**, and either ends the client's turn (`poll()` returned, or
the read was starved) or leaves fewer decisions to be needed. -/
theorem mid_step (L0 owed0 pend0 G h : Nat) (W : World) (hm : Mid L0 owed0 pend0 G h W) (hfs : W.fut.isSome = true) :
    ∃ h', Mid L0 owed0 pend0 G h' (step W) ∧
      ((step W).fut = none ∨ (step W).lastIoStarved = true ∨ ((step W).fut.isSome = true ∧ nu (step W) < nu W)) := by
  have hpc := hm.pc
  cases hf : W.fut with
  | none => rw [hf] at hfs; cases hfs
  | some pc =>
    unfold PcOK at hpc
    rw [hf] at hpc
    cases pc with
    | stepWrite ctx pkt bytes wr len now =>
      cases ctx with
      | flush k => exact absurd hpc id
      | drive adv o =>
        cases o with
        | poll =>
          obtain ⟨h1, h2, h3⟩ := mid_write L0 owed0 pend0 G h W hm adv pkt bytes wr len now hf
          exact ⟨h, h1, .inr (.inr ⟨h3, h2⟩)⟩
        | drive => exact absurd hpc id
        | recv => exact absurd hpc id
    | stepFlush ctx pkt now =>
      cases ctx with
      | flush k => exact absurd hpc id
      | drive adv o =>
        cases o with
        | poll =>
          obtain ⟨h1, h2⟩ := mid_flush L0 owed0 pend0 G h W hm adv pkt now hf
          exact ⟨h, h1, h2.elim .inl (fun x => .inr (.inr x))⟩
        | drive => exact absurd hpc id
        | recv => exact absurd hpc id
    | waitRead o dl y =>
      cases o with
      | drive => exact absurd hpc id
      | recv => exact absurd hpc id
      | poll =>
        by_cases hrx : W.curNet.rx = []
        · obtain ⟨h1, h2, _⟩ := mid_starved L0 owed0 pend0 G h W hm dl y hf hrx
          exact ⟨h, h1, .inr (.inl h2)⟩
        · cases hk : readKind W.sess.reader W.curNet.rx (W.readCount 250) with
          | more =>
            obtain ⟨h1, h2, h3⟩ := mid_more L0 owed0 pend0 G h W hm dl y hf hrx hk
            exact ⟨h, h1, .inr (.inr ⟨h2, h3⟩)⟩
          | packet =>
            obtain ⟨h1, h2⟩ := mid_packet L0 owed0 pend0 G h W hm dl y hf hrx hk
            exact ⟨h + 1, h1, h2.elim .inl (fun x => .inr (.inr x))⟩
          | malformed =>
            exfalso
            obtain ⟨a, as', _, _, _, hfr⟩ := sync_head hm.live hm.sync hrx
            have := (d_malformed W .poll dl y 250 hf hm.live.wait hrx (by omega) (Nat.le_refl _) hk).1
            rw [hfr] at this; cases this
    | connWrite _ => exact absurd hpc id
    | connFlush => exact absurd hpc id
    | connRead => exact absurd hpc id
    | q0Write _ => exact absurd hpc id
    | q0Flush => exact absurd hpc id
    | discWrite _ => exact absurd hpc id
    | discFlush => exact absurd hpc id

/-- **`go` ends the client's turn**: with enough rounds (more than the decisions that may be needed) it
stops because `poll()` returned or because the read was starved, and the invariant holds there. -/
theorem mid_go (L0 owed0 pend0 G : Nat) : ∀ (n : Nat) (h : Nat) (W : World), Mid L0 owed0 pend0 G h W →
    W.fut.isSome = true → nu W < n →
    ∃ h', Mid L0 owed0 pend0 G h' (World.goLoop n W) ∧
      ((World.goLoop n W).fut = none ∨ (World.goLoop n W).lastIoStarved = true)
  | 0, _, _, _, _, hn => by omega
  | n + 1, h, W, hm, hfs, hn => by
    rw [goLoop_succ]
    obtain ⟨h', hm', hout⟩ := mid_step L0 owed0 pend0 G h W hm hfs
    rcases hout with h1 | h1 | ⟨h1, h2⟩
    · rw [if_pos (by rw [h1]; rfl)]
      exact ⟨h', hm', .inl h1⟩
    · by_cases hfn : (step W).fut.isNone = true
      · rw [if_pos hfn]; exact ⟨h', hm', .inr h1⟩
      · rw [if_neg hfn, if_neg (by rw [hm'.wakes]; omega), if_pos h1]
        exact ⟨h', hm', .inr h1⟩
    · have hfn : ¬ ((step W).fut.isNone = true) := by
        cases hfu : (step W).fut with
        | none => rw [hfu] at h1; cases h1
        | some pc => simp
      rw [if_neg hfn, if_neg (by rw [hm'.wakes]; omega)]
      by_cases hst : (step W).lastIoStarved = true
      · rw [if_pos hst]; exact ⟨h', hm', .inr hst⟩
      · rw [if_neg hst]
        exact mid_go L0 owed0 pend0 G n h' (step W) hm' h1 (by omega)


end Quiesce
end Minimq
