import Minimq.Proofs.LiftWorld
/-
Lifting as in `Proofs/LiftWorld.lean`, one step finer: the relation `R` between the session and the
connection handle need not survive a `handle_packet` whose error ends the connection
(`process_received_packet` calls `handle_disconnect` at once after `Disconnected`, `Peer.InvalidPacket` and
`Resource.PacketTooLarge`) — it is enough that it holds again after that `handle_disconnect`, with the handle
dead (`WClosedH.handleFatal`); for every other result it must be kept with the handle as it is
(`WClosedH.handleKeep`). Everything else is `WClosed`. The machine induction is that of
`Proofs/LiftWorld.lean`; the lemmas that do not depend on the structure are reused from there.

`live_runH`: a session predicate `P` that — given an invariant `I` of all executions — every primitive other
than `handle_disconnect` and a rejected CONNACK preserves (for `handle_packet`: unless the result ends the
connection), and an accepted CONNACK establishes, holds in every world a program produces whose handle is
live.
-/
namespace Minimq
open Gen World

/-- The results of `handle_packet` after which `process_received_packet` ends the connection. -/
def HandleFatal (r : Except Err Bool) : Prop :=
  r = .error .disconnected ∨ r = .error .peerInvalid ∨ r = .error .packetTooLarge

/-- `WClosed` with the clause for `handle_packet` split by what `process_received_packet` does next. -/
structure WClosedH (A : AfterFlush → Prop) (R : Session → Option Conn → Prop) : Prop where
  post : ∀ n op, A (.post n op)
  queuePing : ∀ s c now s', R s c → s.queuePing now = .ok s' → R s' c
  completeFlush : ∀ s c pkt now, R s c → R (s.completeFlush pkt now) c
  setWritten : ∀ s c pkt a n, R s c → R (s.setWritten pkt a n) c
  takePkt : ∀ s c, R s c → R s.takePkt.1 c
  handleKeep : ∀ s c p, R s c → ¬ HandleFatal (s.handle p).2 → R (s.handle p).1 c
  handleFatal : ∀ s c p, R s c → HandleFatal (s.handle p).2 → R (s.handle p).1.handleDisconnect (deadConn c)
  handleDisconnect : ∀ s c, R s c → R s.handleDisconnect (deadConn c)
  activateErr : ∀ s c sp block now e, R s c → (s.activate sp block now).2 = .error e →
    R (s.activate sp block now).1 (deadConn c)
  activateOk : ∀ s c sp block now, R s c → (s.activate sp block now).2 = .ok () →
    R (s.activate sp block now).1 (some { live := true, resumed := sp })
  alloc : ∀ s c, R s c → R s.alloc.1 c
  encodeConnect : ∀ s c p, R s c → R (s.encode (ε := SerErr) (fun cap _ => encodeConnect cap p)).1 c
  encodeAfterAlloc : ∀ {ε : Type} s c (enc : Nat → (Nat → Nat → Bytes) → Except ε (Nat × Bytes)), EncOk enc → R s c →
    R (s.alloc.1.encode enc).1 c
  encodeScratch : ∀ {ε : Type} s c (enc : Nat → (Nat → Nat → Bytes) → Except ε (Nat × Bytes)), EncOk enc → R s c →
    R (s.encode enc).1 c
  enqueueSub : ∀ s c (r : SubReq) off len s3, A (.subPre r) → R s c →
    (s.alloc.1.encode (fun cap _ =>
      encodeWithOffset cap (subscribeChunks s.alloc.2 (.slice r.props) r.topics) MT_Subscribe FLAGS_Subscribe)).2 = .ok (off, len) →
    (s.alloc.1.encode (fun cap _ =>
      encodeWithOffset cap (subscribeChunks s.alloc.2 (.slice r.props) r.topics) MT_Subscribe FLAGS_Subscribe)).1.retain
        s.alloc.2 off len false = some s3 → R s3 c
  enqueueUnsub : ∀ s c (r : UnsubReq) off len s3, A (.unsubPre r) → R s c →
    (s.alloc.1.encode (fun cap _ =>
      encodeWithOffset cap (unsubscribeChunks s.alloc.2 (.slice r.props) r.topics) MT_Unsubscribe FLAGS_Unsubscribe)).2 = .ok (off, len) →
    (s.alloc.1.encode (fun cap _ =>
      encodeWithOffset cap (unsubscribeChunks s.alloc.2 (.slice r.props) r.topics) MT_Unsubscribe FLAGS_Unsubscribe)).1.retain
        s.alloc.2 off len false = some s3 → R s3 c
  enqueuePub : ∀ s c (r : PubReq) (qos : Nat) off len s3, A (.publishPre r) →
    qos = effectiveQos s.rt.maxQos s.downgrade r.qos → 0 < qos → R s c → s.rt.sendQuota ≠ 0 →
    (s.alloc.1.encode (fun cap fill => encodePublishWithOffset cap
      { topic := r.topic, packetId := some s.alloc.2, props := r.props, retain := r.retain, qos := qos, dup := false }
      r.payload fill)).2 = .ok (off, len) →
    (s.alloc.1.encode (fun cap fill => encodePublishWithOffset cap
      { topic := r.topic, packetId := some s.alloc.2, props := r.props, retain := r.retain, qos := qos, dup := false }
      r.payload fill)).1.retain s.alloc.2 off len true = some s3 → R s3 c
  clearPing : ∀ s c, R s c → R s.clearPing c
  noteActivity : ∀ s c now, R s c → R (s.noteActivity now) c
  window : ∀ s c s' n, R s c → s.window = some (s', n) → R s' c
  commit : ∀ s c bytes, R s c → R (s.commit bytes) c
  beginConnect : ∀ s c, R s c → R s.beginConnect c
  setPid : ∀ s c n, 1 ≤ n → n ≤ 65535 → R s c → R (s.setPid n) c
  drop : ∀ s c, R s c → R s none

/-! ### The composite updates -/

section
variable {A : AfterFlush → Prop} {R : Session → Option Conn → Prop} (hc : WClosedH A R)
include hc

theorem GW.handleDisconnectH {w : World} (h : GW A R w) : GW A R w.handleDisconnect :=
  ⟨hc.handleDisconnect _ _ h.1, h.2⟩

theorem GW.setWrittenH {w : World} (h : GW A R w) (pkt : Flushed) (a c : Nat) : GW A R (w.setWritten pkt a c) :=
  ⟨hc.setWritten _ _ _ _ _ h.1, h.2⟩

theorem GW.completeFlushH {w : World} (h : GW A R w) (pkt : Flushed) (now : Nat) : GW A R (w.completeFlush pkt now) :=
  ⟨hc.completeFlush _ _ _ _ h.1, h.2⟩

theorem GW.failStepH {w : World} (h : GW A R w) (ctx : StepCtx) (st : Outbound.Step) : GW A R (w.failStep ctx st) := by
  rcases failStep_cases w ctx st with e | e <;> rw [e]
  · exact h
  · exact h.handleDisconnectH hc

theorem GW.discFailH {w : World} (h : GW A R w) (ctx : StepCtx) : GW A R (w.discFail ctx) := by
  rcases discFail_cases w ctx with ⟨e, _⟩ | ⟨e, _⟩ <;> rw [e]
  · exact h
  · exact h.handleDisconnectH hc

theorem GW.maybeQueuePingreqH {w w' : World} {now : Nat} (h : GW A R w) (heq : w.maybeQueuePingreq now = .ok w') :
    GW A R w' := by
  unfold World.maybeQueuePingreq at heq
  split at heq
  · simp at heq
  · rename_i s hs
    simp at heq; subst heq
    exact ⟨hc.queuePing _ _ _ _ h.1 hs, h.2⟩

theorem GW.processReceivedPacketH {w : World} (h : GW A R w) : GW A R (w.processReceivedPacket).1 := by
  unfold World.processReceivedPacket
  split
  · exact h
  · simp only []
    have h1 : GW A R { w with sess := w.sess.takePkt.1 } := ⟨hc.takePkt _ _ h.1, h.2⟩
    split
    · exact h1.handleDisconnectH hc
    · rename_i len pkt hres
      have hk : ¬ HandleFatal (w.sess.takePkt.1.handle pkt).2 →
          GW A R { ({ w with sess := w.sess.takePkt.1 } : World) with sess := (w.sess.takePkt.1.handle pkt).1 } :=
        fun hn => ⟨hc.handleKeep _ _ pkt h1.1 hn, h1.2⟩
      have hf : HandleFatal (w.sess.takePkt.1.handle pkt).2 →
          GW A R ({ ({ w with sess := w.sess.takePkt.1 } : World) with sess := (w.sess.takePkt.1.handle pkt).1 }).handleDisconnect :=
        fun hn => ⟨hc.handleFatal _ _ pkt h1.1 hn, h1.2⟩
      split
      · rename_i heq; exact hk (by rw [heq]; simp [HandleFatal])
      · rename_i heq; exact hk (by rw [heq]; simp [HandleFatal])
      · rename_i heq; exact hf (by rw [heq]; simp [HandleFatal])
      · rename_i heq; exact hf (by rw [heq]; simp [HandleFatal])
      · rename_i heq; exact hf (by rw [heq]; simp [HandleFatal])
      · rename_i e h1' h2' h3' heq
        exact hk (by rw [heq]; simp only [HandleFatal, Except.error.injEq]; rintro (rfl | rfl | rfl) <;> simp_all)

theorem GW.activateH {w : World} (h : GW A R w) (sp : Bool) (block : Bytes) : GW A R (World.activate w sp block) := by
  unfold World.activate
  split
  · rename_i s e heq
    have := hc.activateErr w.sess w.conn sp block w.now e h.1 (by rw [heq])
    rw [heq] at this
    exact GW.ofNone this rfl
  · rename_i s heq
    have := hc.activateOk w.sess w.conn sp block w.now h.1 (by rw [heq])
    rw [heq] at this
    exact GW.ofNone this rfl

theorem GW.connectGotPacketH {w : World} (h : GW A R w) : GW A R (World.connectGotPacket w) := by
  unfold World.connectGotPacket
  simp only []
  have h1 : GW A R { w with sess := w.sess.takePkt.1 } := ⟨hc.takePkt _ _ h.1, h.2⟩
  split
  · exact (h1.handleDisconnectH hc).finishErr _ _
  · split
    · exact h1.finishErr _ _
    · exact h1.activateH hc _ _
  · exact (h1.handleDisconnectH hc).finishErr _ _
  · exact (h1.handleDisconnectH hc).finishErr _ _

/-! ### The thirteen machine functions -/

theorem gstep_doStepFlushH (fuel : Nat) (ih : GMachine A R fuel) :
    ∀ w ctx pkt now, CtxGood A ctx → GW A R w → GW A R (doStepFlush (fuel + 1) w ctx pkt now) := by
  intro w ctx pkt now hctx h
  obtain ⟨_, _, _, _, i5, _⟩ := ih
  simp only [doStepFlush]
  split
  · rename_i w' heq; exact (h.ioFlush' heq).suspend hctx
  · rename_i w' k heq; exact ((h.ioFlush' heq).handleDisconnectH hc).finishErr _ _
  · rename_i w' heq; exact i5 _ _ _ hctx ((h.ioFlush' heq).completeFlushH hc _ _)

theorem gstep_doStepWriteH (fuel : Nat) (ih : GMachine A R fuel) :
    ∀ w ctx pkt bytes wr len now, CtxGood A ctx → GW A R w →
      GW A R (doStepWrite (fuel + 1) w ctx pkt bytes wr len now) := by
  intro w ctx pkt bytes wr len now hctx h
  obtain ⟨_, _, _, i4, i5, _⟩ := ih
  simp only [doStepWrite]
  split
  · rename_i w' heq; exact (h.ioWrite' heq).suspend hctx
  · rename_i w' heq; exact ((h.ioWrite' heq).discFailH hc _).finishErr _ _
  · rename_i w' k heq; exact ((h.ioWrite' heq).handleDisconnectH hc).finishErr _ _
  · rename_i w' count heq
    have h2 : GW A R (w'.setWritten pkt (wr + count) len) := (h.ioWrite' heq).setWrittenH hc _ _ _
    split
    · exact i5 _ _ _ hctx h2
    · exact i4 _ _ _ _ hctx h2

theorem gstep_performStepH (fuel : Nat) (ih : GMachine A R fuel) :
    ∀ w ctx step now, CtxGood A ctx → GW A R w → GW A R (performStep (fuel + 1) w ctx step now) := by
  intro w ctx step now hctx h
  obtain ⟨_, _, i3, i4, i5, _⟩ := ih
  simp only [performStep]
  split
  · exact (h.failStepH hc _ _).finishErr _ _
  · exact i5 _ _ _ hctx h
  · split
    · exact (h.discFailH hc _).finishErr _ _
    · exact i4 _ _ _ _ hctx h
  · split
    · exact (h.discFailH hc _).finishErr _ _
    · exact i3 _ _ _ _ _ _ _ hctx h

theorem gstep_flushLoopH (fuel : Nat) (ih : GMachine A R fuel) :
    ∀ w k, A k → GW A R w → GW A R (flushLoop (fuel + 1) w k) := by
  intro w k hk h
  obtain ⟨_, i2, _, _, _, i6, _⟩ := ih
  simp only [flushLoop]
  split
  · exact (h.discFailH hc _).finishErr _ _
  · rename_i w' heq
    have h' := h.maybeQueuePingreqH hc heq
    split
    · exact i6 _ _ hk h'
    · exact i2 _ _ _ _ hk h'

theorem gstep_doLocalFlushH (fuel : Nat) (ih : GMachine A R fuel) :
    ∀ w which, GW A R w → GW A R (doLocalFlush (fuel + 1) w which) := by
  intro w which h
  obtain ⟨_, _, _, _, _, _, _, _, i9, _⟩ := ih
  simp only [doLocalFlush]
  split
  · rename_i w' heq
    exact (h.ioFlush' heq).suspend (by repeat' split
                                       all_goals exact True.intro)
  · rename_i w' k heq
    have hs := h.ioFlush' heq
    split
    · exact hs.finishErr _ _
    · split <;> exact (hs.handleDisconnectH hc).finishErr _ _
  · rename_i w' heq
    have hs := h.ioFlush' heq
    split
    · exact i9 _ ⟨hc.clearPing _ _ hs.1, hs.2⟩
    · split
      · exact GW.finish (w := { w' with sess := w'.sess.noteActivity w'.now }) ⟨hc.noteActivity _ _ _ hs.1, hs.2⟩ _
      · exact (hs.handleDisconnectH hc).finish _

theorem gstep_doLocalWriteH (fuel : Nat) (ih : GMachine A R fuel) :
    ∀ w which bytes, GW A R w → GW A R (doLocalWrite (fuel + 1) w which bytes) := by
  intro w which bytes h
  obtain ⟨_, _, _, _, _, _, i7, i8, _⟩ := ih
  simp only [doLocalWrite]
  split
  · apply i8
    rcases discDone_cases w which with ⟨e, _⟩ | ⟨e, _⟩ <;> rw [e]
    · exact h
    · exact h.handleDisconnectH hc
  · split
    · rename_i w' heq
      exact (h.ioWrite' heq).suspend (by repeat' split
                                         all_goals exact True.intro)
    · rename_i w' n heq; exact i7 _ _ _ (h.ioWrite' heq)
    · rename_i w' heq
      have hs := h.ioWrite' heq
      split
      · exact hs.finishErr _ _
      · split <;> exact (hs.handleDisconnectH hc).finishErr _ _
    · rename_i w' k heq
      have hs := h.ioWrite' heq
      split
      · exact hs.finishErr _ _
      · split <;> exact (hs.handleDisconnectH hc).finishErr _ _

theorem gstep_doConnReadH (fuel : Nat) (ih : GMachine A R fuel) :
    ∀ w, GW A R w → GW A R (doConnRead (fuel + 1) w) := by
  intro w h
  obtain ⟨_, _, _, _, _, _, _, _, i9, _⟩ := ih
  simp only [doConnRead]
  split
  · exact h.connectGotPacketH hc
  · split
    · exact (h.handleDisconnectH hc).finishErr _ _
    · rename_i s1 window hw
      have h1 : GW A R { w with sess := s1 } := ⟨hc.window _ _ _ _ h.1 hw, h.2⟩
      split
      · exact h1.connectGotPacketH hc
      · split
        · rename_i w' heq; exact (h1.ioRead' heq).suspend True.intro
        · rename_i w' heq; exact ((h1.ioRead' heq).handleDisconnectH hc).finishErr _ _
        · rename_i w' k heq; exact ((h1.ioRead' heq).handleDisconnectH hc).finishErr _ _
        · rename_i w' bytes heq
          have h2 := h1.ioRead' heq
          exact i9 _ ⟨hc.commit _ _ _ h2.1, h2.2⟩

theorem gstep_doWaitReadH (fuel : Nat) (ih : GMachine A R fuel) :
    ∀ w o d y, GW A R w → GW A R (doWaitRead (fuel + 1) w o d y) := by
  intro w o d y h
  obtain ⟨_, _, _, _, _, _, _, _, _, _, _, i12, i13⟩ := ih
  simp only [doWaitRead]
  split
  · exact i12 _ _ h
  · split
    · exact (h.handleDisconnectH hc).finishErr _ _
    · rename_i s1 window hw
      have h1 : GW A R { w with sess := s1 } := ⟨hc.window _ _ _ _ h.1 hw, h.2⟩
      split
      · exact i12 _ _ h1
      · split
        · rename_i w' heq; exact ((h1.ioRead' heq).handleDisconnectH hc).finishErr _ _
        · rename_i w' k heq; exact ((h1.ioRead' heq).handleDisconnectH hc).finishErr _ _
        · rename_i w' bytes heq
          have h2 := h1.ioRead' heq
          exact i13 _ _ _ _ ⟨hc.commit _ _ _ h2.1, h2.2⟩
        · rename_i w' heq
          have hs := h1.ioRead' heq
          split
          · exact hs.suspend True.intro
          · split
            · split
              · exact i12 _ _ hs
              · split
                · exact GW.suspend (GW.emit (hs.frame (w' := { w' with wakes := w'.wakes + 1 }) rfl rfl (.inl rfl)) _) True.intro
                · exact i13 _ _ _ _ (hs.frame (w' := { w' with wakes := w'.wakes + 1 }) rfl rfl (.inl rfl))
            · exact hs.suspend True.intro

theorem gstep_driveLoopH (fuel : Nat) (ih : GMachine A R fuel) :
    ∀ w o adv, GW A R w → GW A R (driveLoop (fuel + 1) w o adv) := by
  intro w o adv h
  obtain ⟨_, i2, _, _, _, _, _, _, _, i10, i11, _, _⟩ := ih
  simp only [driveLoop]
  split
  · have h1 := h.processReceivedPacketH hc
    split
    · rename_i w' e heq; rw [heq] at h1; exact h1.finishErr _ _
    · rename_i w' len heq; rw [heq] at h1; exact h1.deliver _ _
    · rename_i w' heq; rw [heq] at h1; exact i10 _ _ _ h1
  · repeat' split
    all_goals first
      | exact (h.handleDisconnectH hc).finishErr _ _
      | exact h.finishErr _ _
      | exact i11 _ _ _ (h.maybeQueuePingreqH hc (by assumption))
      | exact i2 _ _ _ _ True.intro (h.maybeQueuePingreqH hc (by assumption))

theorem gstep_driveAfterServiceH (fuel : Nat) (ih : GMachine A R fuel) :
    ∀ w o adv, GW A R w → GW A R (driveAfterService (fuel + 1) w o adv) := by
  intro w o adv h
  obtain ⟨_, _, _, _, _, _, _, _, _, i10, _, i12, i13⟩ := ih
  unfold driveAfterService
  split
  · have h1 := h.processReceivedPacketH hc
    split
    · rename_i w' e heq; rw [heq] at h1; exact h1.finishErr _ _
    · rename_i w' len heq; rw [heq] at h1; exact h1.deliver _ _
    · rename_i w' heq; rw [heq] at h1; exact i10 _ _ _ h1
  · split
    · split
      · split
        · exact h.finish _
        · exact h.finish _
        · exact i12 _ _ h
      · split
        · exact h.finish _
        · exact i13 _ _ _ _ h
    · exact i10 _ _ _ h

theorem gstep_afterFlushH (fuel : Nat) (ih : GMachine A R fuel) :
    ∀ w k, A k → GW A R w → GW A R (afterFlush (fuel + 1) w k) := by
  intro w k hk h
  obtain ⟨i1, _, _, _, _, _, i7, _⟩ := ih
  unfold afterFlush
  cases k with
  | post name op => exact h.finishOp _ _
  | discPre d =>
    simp only []
    repeat' split
    all_goals first
      | exact h.finishErr _ _
      | exact i7 _ _ _ h
  | subPre r =>
    simp only []
    split
    · exact h.finishErr _ _
    · have ha := hc.encodeAfterAlloc w.sess w.conn (fun cap _ =>
        encodeWithOffset cap (subscribeChunks w.sess.alloc.2 (.slice r.props) r.topics) MT_Subscribe FLAGS_Subscribe)
        (EncOk_encodeWithOffset _ _ _) h.1
      split
      · exact GW.ofNone ha rfl
      · split
        · exact GW.ofNone ha rfl
        · split
          · exact GW.ofNone ha rfl
          · rename_i s3 hs3
            rename_i _ off len hres _ _
            exact i1 _ _ (hc.post _ _) ⟨hc.enqueueSub w.sess w.conn r off len s3 hk h.1 hres hs3, h.2⟩
  | unsubPre r =>
    simp only []
    split
    · exact h.finishErr _ _
    · have ha := hc.encodeAfterAlloc w.sess w.conn (fun cap _ =>
        encodeWithOffset cap (unsubscribeChunks w.sess.alloc.2 (.slice r.props) r.topics) MT_Unsubscribe FLAGS_Unsubscribe)
        (EncOk_encodeWithOffset _ _ _) h.1
      split
      · exact GW.ofNone ha rfl
      · split
        · exact GW.ofNone ha rfl
        · split
          · exact GW.ofNone ha rfl
          · rename_i s3 hs3
            rename_i _ off len hres _ _
            exact i1 _ _ (hc.post _ _) ⟨hc.enqueueUnsub w.sess w.conn r off len s3 hk h.1 hres hs3, h.2⟩
  | publishPre r =>
    simp only []
    split
    · exact h.finishErr _ _
    · generalize hq : effectiveQos w.sess.rt.maxQos w.sess.downgrade r.qos = qos
      split
      · -- QoS > 0
        rename_i hpos
        have h1 := hc.alloc w.sess w.conn h.1
        split
        · exact GW.ofNone h1 rfl
        · split
          · exact GW.ofNone h1 rfl
          · rename_i hcan
            have ha := hc.encodeAfterAlloc w.sess w.conn (fun cap fill => encodePublishWithOffset cap
              { topic := r.topic, packetId := some w.sess.alloc.2, props := r.props, retain := r.retain,
                qos := qos, dup := false } r.payload fill) (EncOk_encodePublish _ _) h.1
            split
            · exact GW.ofNone ha rfl
            · split
              · exact GW.ofNone ha rfl
              · split
                · exact GW.ofNone ha rfl
                · rename_i s3 hs3
                  rename_i _ off len hres _ _
                  refine i1 _ _ (hc.post _ _)
                    ⟨hc.enqueuePub w.sess w.conn r qos off len s3 hk hq.symm hpos h.1 ?_ hres hs3, h.2⟩
                  have hq0 : qos ≠ 0 := by omega
                  have hcp : canPublishS w.sess.alloc.1.data w.sess.alloc.1.rt qos = true := by
                    simp at hcan; exact hcan.2
                  simp only [canPublishS, hq0, if_false, Bool.and_eq_true, ne_eq, decide_eq_true_eq] at hcp
                  have hrt : w.sess.alloc.1.rt = w.sess.rt := rfl
                  rw [hrt] at hcp
                  exact hcp.1
      · -- QoS 0
        split
        · exact h.finishErr _ _
        · have ha := hc.encodeScratch w.sess w.conn (fun cap fill => encodePublishWithOffset cap
            { topic := r.topic, packetId := none, props := r.props, retain := r.retain, qos := 0, dup := false } r.payload fill)
            (EncOk_encodePublish _ _) h.1
          split
          · exact GW.ofNone ha rfl
          · split
            · exact GW.ofNone ha rfl
            · exact i7 _ _ _ ⟨ha, h.2⟩

theorem gmachineH : ∀ fuel, GMachine A R fuel := by
  intro fuel
  induction fuel with
  | zero => exact gmachine_zero
  | succ fuel ih =>
    exact ⟨gstep_flushLoopH hc fuel ih, gstep_performStepH hc fuel ih, gstep_doStepWriteH hc fuel ih,
      gstep_doStepFlushH hc fuel ih, gstep_stepReturned fuel ih, gstep_afterFlushH hc fuel ih,
      gstep_doLocalWriteH hc fuel ih, gstep_doLocalFlushH hc fuel ih, gstep_doConnReadH hc fuel ih,
      gstep_driveLoopH hc fuel ih, gstep_driveAfterServiceH hc fuel ih, gstep_driveEnter fuel ih,
      gstep_doWaitReadH hc fuel ih⟩

/-! ### `poll`, the directives, programs -/

theorem gpollH (w : World) (h : GW A R w) : GW A R (World.poll w) := by
  obtain ⟨_, _, i3, i4, _, _, i7, i8, i9, _, _, _, i13⟩ := gmachineH hc pollFuel
  unfold World.poll
  simp only []
  have h0 : GW A R { w with wakes := 0, lastIoStarved := false } := h.frame rfl rfl (.inl rfl)
  split
  · exact h0
  · rename_i pc hpc
    have hg : PcGood A pc := h.2 pc hpc
    have h1 : GW A R { ({ w with wakes := 0, lastIoStarved := false } : World) with fut := none } :=
      h0.frame rfl rfl (.inr rfl)
    split
    · exact i3 _ _ _ _ _ _ _ hg h1
    · exact i4 _ _ _ _ hg h1
    · exact i7 _ _ _ h1
    · exact i8 _ _ h1
    · exact i9 _ h1
    · exact i7 _ _ _ h1
    · exact i8 _ _ h1
    · exact i7 _ _ _ h1
    · exact i8 _ _ h1
    · exact i13 _ _ _ _ h1

theorem ggoLoopH (n : Nat) (w : World) (h : GW A R w) : GW A R (World.goLoop n w) := by
  induction n generalizing w with
  | zero => exact h.emit _
  | succ n ih =>
    simp only [World.goLoop]
    have h1 : GW A R { (World.poll { w with slot := some 250 }) with slot := none } :=
      (gpollH hc _ (h.frame (w' := { w with slot := some 250 }) rfl rfl (.inl rfl))).frame rfl rfl (.inl rfl)
    repeat' split
    all_goals first
      | exact h1
      | exact ih _ h1

theorem GW.dropConnH {w : World} (h : GW A R w) : GW A R w.dropConn := by
  unfold World.dropConn
  simp only []
  have h1 := h.cancelFut
  split
  · exact ⟨hc.drop _ _ h1.1, h1.2⟩
  · exact h1

theorem gstartConnectH (w : World) (h : GW A R w) : GW A R (World.startConnect w) := by
  obtain ⟨_, _, _, _, _, _, i7, _⟩ := gmachineH hc pollFuel
  unfold World.startConnect
  simp only []
  have h0 := h.dropConnH hc
  have h1 : R (w.dropConn).sess.beginConnect (w.dropConn).conn := hc.beginConnect _ _ h0.1
  have h2 := hc.encodeConnect _ _ (w.dropConn).sess.beginConnect.connectPacket h1
  split
  · exact GW.ofNone h2 rfl
  · exact i7 _ _ _ ⟨h2, h0.2⟩

/-- **Every directive whose request is good keeps the invariant.** -/
theorem gexecH (w : World) (d : Directive) (hd : DirGood A d) (h : GW A R w) : GW A R (w.execDirective d) := by
  obtain ⟨i1, _, _, _, _, _, _, _, _, _, _, i12, _⟩ := gmachineH hc pollFuel
  cases d with
  | bad => exact h.emit _
  | connect => exact gstartConnectH hc w h
  | publish r =>
    simp only [World.execDirective]
    apply gstartOp w _ _ _ h
    intro w' hw'
    split
    · exact hw'.finishErr _ _
    · exact i1 _ _ hd hw'
  | subscribe r =>
    simp only [World.execDirective]
    apply gstartOp w _ _ _ h
    intro w' hw'
    repeat' split
    all_goals first
      | exact hw'.finishErr _ _
      | exact i1 _ _ hd hw'
  | unsubscribe r =>
    simp only [World.execDirective]
    apply gstartOp w _ _ _ h
    intro w' hw'
    repeat' split
    all_goals first
      | exact hw'.finishErr _ _
      | exact i1 _ _ hd hw'
  | disconnect dd =>
    simp only [World.execDirective]
    apply gstartOp w _ _ _ h
    intro w' hw'
    repeat' split
    all_goals first
      | exact hw'.finishErr _ _
      | exact hw'.finish _
      | exact i1 _ _ hd hw'
  | poll =>
    simp only [World.execDirective]
    exact gstartOp w _ _ (fun w' hw' => i12 _ _ hw') h
  | recv =>
    simp only [World.execDirective]
    exact gstartOp w _ _ (fun w' hw' => i12 _ _ hw') h
  | drive =>
    simp only [World.execDirective]
    exact gstartOp w _ _ (fun w' hw' => i12 _ _ hw') h
  | d n =>
    simp only [World.execDirective]
    split
    · exact h.emit _
    · exact (gpollH hc _ (h.frame (w' := { w with slot := some n }) rfl rfl (.inl rfl))).frame rfl rfl (.inl rfl)
  | go =>
    simp only [World.execDirective]
    split
    · exact h.emit _
    · exact ggoLoopH hc _ _ h
  | tick us =>
    simp only [World.execDirective]
    split
    · exact h.emit _
    · have h1 : GW A R { w with now := w.now + us } := h.frame rfl rfl (.inl rfl)
      split
      · exact gpollH hc _ h1
      · exact h1
  | rx bytes =>
    simp only [World.execDirective]
    split
    · exact h.emit _
    · exact h.frame rfl rfl (.inl rfl)
  | cancel => exact h.cancelFut
  | drop => exact h.dropConnH hc
  | setpid n =>
    simp only [World.execDirective]
    split
    · exact h.emit _
    · rename_i hn
      simp at hn
      exact ⟨hc.setPid _ _ _ (by omega) (by omega) h.1, h.2⟩
  | decode bs => exact h.emit _

/-- **Every program whose requests are good keeps the invariant.** -/
theorem grunH (ds : List Directive) (w : World) (hds : ∀ d ∈ ds, DirGood A d) (h : GW A R w) :
    GW A R (ds.foldl World.execDirective w) := by
  induction ds generalizing w with
  | nil => exact h
  | cons d ds ih =>
    simp only [List.foldl]
    exact ih _ (fun d' hd' => hds d' (by simp [hd'])) (gexecH hc w d (hds d (by simp)) h)
end


/-! ### An instance: what an accepted CONNACK establishes holds while the handle is live -/

/-- Given an invariant `I` of all executions, `P` is kept by every primitive that leaves the handle as it is
(`handle_packet`: unless its result ends the connection), and an accepted CONNACK establishes it. Nothing is
asked of `handle_disconnect` and of a rejected CONNACK: they leave the handle dead. -/
structure LiveClosed (I P : Session → Prop) : Prop where
  queuePing : ∀ s now s', I s → P s → s.queuePing now = .ok s' → P s'
  completeFlush : ∀ s pkt now, I s → P s → P (s.completeFlush pkt now)
  setWritten : ∀ s pkt a c, I s → P s → P (s.setWritten pkt a c)
  takePkt : ∀ s, I s → P s → P s.takePkt.1
  handle : ∀ s p, I s → P s → ¬ HandleFatal (s.handle p).2 → P (s.handle p).1
  activateOk : ∀ s sp block now, I s → (s.activate sp block now).2 = .ok () → P (s.activate sp block now).1
  alloc : ∀ s, I s → P s → P s.alloc.1
  encodeConnect : ∀ s c, I s → P s → P (s.encode (ε := SerErr) (fun cap _ => encodeConnect cap c)).1
  encodeAfterAlloc : ∀ {ε : Type} s (enc : Nat → (Nat → Nat → Bytes) → Except ε (Nat × Bytes)), EncOk enc → I s → P s →
    P (s.alloc.1.encode enc).1
  encodeScratch : ∀ {ε : Type} s (enc : Nat → (Nat → Nat → Bytes) → Except ε (Nat × Bytes)), EncOk enc → I s → P s →
    P (s.encode enc).1
  enqueue : ∀ {ε : Type} s (enc : Nat → (Nat → Nat → Bytes) → Except ε (Nat × Bytes)) off len isPub s3 typ, EncOk enc →
    EncTyp enc typ → (isPub = true ↔ typ = MT_Publish) → I s → P s →
    (isPub = true → s.rt.sendQuota ≠ 0) → (s.alloc.1.encode enc).2 = .ok (off, len) →
    (s.alloc.1.encode enc).1.retain s.alloc.2 off len isPub = some s3 → P s3
  clearPing : ∀ s, I s → P s → P s.clearPing
  noteActivity : ∀ s now, I s → P s → P (s.noteActivity now)
  window : ∀ s s' n, I s → P s → s.window = some (s', n) → P s'
  commit : ∀ s bytes, I s → P s → P (s.commit bytes)
  beginConnect : ∀ s, I s → P s → P s.beginConnect
  setPid : ∀ s n, 1 ≤ n → n ≤ 65535 → I s → P s → P (s.setPid n)

theorem WClosedH.ofLive {I P : Session → Prop} (hI : Closed I) (hc : LiveClosed I P) :
    WClosedH (fun _ => True) (fun s c => I s ∧ LiveImp P s c) where
  post := fun _ _ => trivial
  queuePing := fun s _ now s' h hq => ⟨hI.queuePing s now s' h.1 hq, fun hl => hc.queuePing s now s' h.1 (h.2 hl) hq⟩
  completeFlush := fun s _ pkt now h => ⟨hI.completeFlush s pkt now h.1, fun hl => hc.completeFlush s pkt now h.1 (h.2 hl)⟩
  setWritten := fun s _ pkt a n h => ⟨hI.setWritten s pkt a n h.1, fun hl => hc.setWritten s pkt a n h.1 (h.2 hl)⟩
  takePkt := fun s _ h => ⟨hI.takePkt s h.1, fun hl => hc.takePkt s h.1 (h.2 hl)⟩
  handleKeep := fun s _ p h hn => ⟨hI.handle s p h.1, fun hl => hc.handle s p h.1 (h.2 hl) hn⟩
  handleFatal := fun s c p h _ =>
    ⟨hI.handleDisconnect _ (hI.handle s p h.1), fun hl => absurd hl (deadConn_not_live c)⟩
  handleDisconnect := fun s c h => ⟨hI.handleDisconnect s h.1, fun hl => absurd hl (deadConn_not_live c)⟩
  activateErr := fun s c sp block now _ h _ =>
    ⟨hI.activate s sp block now h.1, fun hl => absurd hl (deadConn_not_live c)⟩
  activateOk := fun s _ sp block now h hok => ⟨hI.activate s sp block now h.1, fun _ => hc.activateOk s sp block now h.1 hok⟩
  alloc := fun s _ h => ⟨hI.alloc s h.1, fun hl => hc.alloc s h.1 (h.2 hl)⟩
  encodeConnect := fun s _ p h => ⟨hI.encodeConnect s p h.1, fun hl => hc.encodeConnect s p h.1 (h.2 hl)⟩
  encodeAfterAlloc := fun s _ enc he h =>
    ⟨hI.encodeAfterAlloc s enc he h.1, fun hl => hc.encodeAfterAlloc s enc he h.1 (h.2 hl)⟩
  encodeScratch := fun s _ enc he h => ⟨hI.encodeScratch s enc he h.1, fun hl => hc.encodeScratch s enc he h.1 (h.2 hl)⟩
  enqueueSub := fun s _ r off len s3 _ h hres hr =>
    ⟨hI.enqueue s _ off len false s3 _ (EncOk_encodeWithOffset _ _ _) (EncTyp_encodeWithOffset _ _ _ (by decide))
      (by decide) h.1 (by simp) hres hr,
     fun hl => hc.enqueue s _ off len false s3 _ (EncOk_encodeWithOffset _ _ _) (EncTyp_encodeWithOffset _ _ _ (by decide))
      (by decide) h.1 (h.2 hl) (by simp) hres hr⟩
  enqueueUnsub := fun s _ r off len s3 _ h hres hr =>
    ⟨hI.enqueue s _ off len false s3 _ (EncOk_encodeWithOffset _ _ _) (EncTyp_encodeWithOffset _ _ _ (by decide))
      (by decide) h.1 (by simp) hres hr,
     fun hl => hc.enqueue s _ off len false s3 _ (EncOk_encodeWithOffset _ _ _) (EncTyp_encodeWithOffset _ _ _ (by decide))
      (by decide) h.1 (h.2 hl) (by simp) hres hr⟩
  enqueuePub := fun s _ r qos off len s3 _ _ _ h hq hres hr =>
    ⟨hI.enqueue s _ off len true s3 _ (EncOk_encodePublish _ _) (EncTyp_encodePublish _ _) (by decide) h.1
      (fun _ => hq) hres hr,
     fun hl => hc.enqueue s _ off len true s3 _ (EncOk_encodePublish _ _) (EncTyp_encodePublish _ _) (by decide) h.1 (h.2 hl)
      (fun _ => hq) hres hr⟩
  clearPing := fun s _ h => ⟨hI.clearPing s h.1, fun hl => hc.clearPing s h.1 (h.2 hl)⟩
  noteActivity := fun s _ now h => ⟨hI.noteActivity s now h.1, fun hl => hc.noteActivity s now h.1 (h.2 hl)⟩
  window := fun s _ s' n h hw => ⟨hI.window s s' n h.1 hw, fun hl => hc.window s s' n h.1 (h.2 hl) hw⟩
  commit := fun s _ bytes h => ⟨hI.commit s bytes h.1, fun hl => hc.commit s bytes h.1 (h.2 hl)⟩
  beginConnect := fun s _ h => ⟨hI.beginConnect s h.1, fun hl => hc.beginConnect s h.1 (h.2 hl)⟩
  setPid := fun s _ n h1 h2 h => ⟨hI.setPid s n h1 h2 h.1, fun hl => hc.setPid s n h1 h2 h.1 (h.2 hl)⟩
  drop := fun _ _ h => ⟨h.1, fun hl => by obtain ⟨x, hx, _⟩ := hl; cases hx⟩

/-- **After every program: if the handle is live, `P` holds of the session** — for every `P` that, given an
invariant `I` of all executions, the session primitives keep as long as the connection is not ended, and an
accepted CONNACK establishes. -/
theorem live_runH {I P : Session → Prop} (hI : Closed I) (hc : LiveClosed I P)
    (cfg : Cfg) (h0 : I (Session.new cfg)) (ds : List Directive) :
    (ds.foldl World.execDirective { sess := Session.new cfg }).live = true →
      P (ds.foldl World.execDirective { sess := Session.new cfg }).sess := by
  have hg : GW (fun _ => True) (fun s c => I s ∧ LiveImp P s c) ({ sess := Session.new cfg } : World) :=
    ⟨⟨h0, fun hl => (by obtain ⟨x, hx, _⟩ := hl; cases hx)⟩, fun pc hpc => (by cases hpc)⟩
  have h := grunH (WClosedH.ofLive hI hc) ds _ (fun d _ => dirGood_true d) hg
  intro hl
  apply h.1.2
  unfold World.live at hl
  cases hcn : (ds.foldl World.execDirective { sess := Session.new cfg }).conn with
  | none => rw [hcn] at hl; cases hl
  | some x => rw [hcn] at hl; exact ⟨x, rfl, hl⟩

end Minimq
