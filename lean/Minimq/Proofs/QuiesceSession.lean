import Minimq.Proofs.QuiesceMachine
import Minimq.Proofs.Quota
/-
Bounded quiescence (C16, liveness half) — part 2: the session.

The outbound queues seen through what matters for draining them: for a retained packet its bytes,
identifier and send state (`retView`), for a PUBREL its identifier and send state (`relView`).
On these: the answers a conformant broker owes (`expected`), the number of rounds still needed
(`owed`), and what `set_written`, `complete_flush` and the handling of an acknowledgement do to them.
-/
namespace Minimq
open Gen World Fuel Outbound
namespace Quiesce

/-! ### Lists -/

theorem modifyFirst_eq_map {α} (key : α → Nat) (k : Nat) (f : α → α) :
    ∀ (l : List α), (l.map key).Nodup →
      modifyFirst (fun e => key e == k) f l = l.map (fun e => if key e == k then f e else e)
  | [], _ => rfl
  | x :: xs, hn => by
    simp only [List.map_cons, List.nodup_cons] at hn
    simp only [modifyFirst, List.map_cons]
    by_cases hx : (key x == k) = true
    · simp only [hx, if_true]
      congr 1
      have : ∀ e ∈ xs, (key e == k) = false := by
        intro e he
        cases hek : key e == k with
        | false => rfl
        | true =>
          exfalso
          have h1 : key x = k := by simpa using hx
          have h2 : key e = k := by simpa using hek
          exact hn.1 (by rw [h1, ← h2]; exact List.mem_map_of_mem he)
      symm
      calc xs.map (fun e => if key e == k then f e else e) = xs.map id := by
            apply List.map_congr_left
            intro e he
            simp [this e he]
        _ = xs := List.map_id xs
    · simp only [hx, Bool.false_eq_true, if_false]
      congr 1
      exact modifyFirst_eq_map key k f xs hn.2

theorem removeFirst_map {α β} (F : α → β) (p : α → Bool) (P : β → Bool) :
    ∀ (l : List α), (∀ e ∈ l, p e = P (F e)) → (removeFirst p l).map F = removeFirst P (l.map F)
  | [], _ => rfl
  | x :: xs, h => by
    simp only [removeFirst, List.map_cons]
    rw [h x (by simp)]
    split
    · rfl
    · simp only [List.map_cons]
      congr 1
      exact removeFirst_map F p P xs (fun e he => h e (by simp [he]))

/-- Removing the first element that satisfies `P` takes its contribution out of a `filterMap`. -/
theorem filterMap_removeFirst_perm {β γ} (P : β → Bool) (g : β → Option γ) :
    ∀ (l : List β) (x : β), l.find? P = some x →
      (l.filterMap g).Perm ((g x).toList ++ (removeFirst P l).filterMap g)
  | [], _, h => by simp at h
  | y :: ys, x, h => by
    simp only [List.find?_cons] at h
    simp only [removeFirst]
    cases hy : P y with
    | true =>
      rw [hy] at h
      simp only [Option.some.injEq] at h
      subst h
      simp only [if_true, List.filterMap_cons]
      cases g y <;> simp
    | false =>
      rw [hy] at h
      simp only [Bool.false_eq_true, if_false, List.filterMap_cons]
      have ih := filterMap_removeFirst_perm P g ys x h
      cases hgy : g y with
      | none => simpa using ih
      | some c =>
        simp only []
        exact (List.Perm.cons c ih).trans (by
          cases g x
          · simp
          · simp only [Option.toList_some, List.singleton_append]; exact List.Perm.swap _ _ _)

theorem sum_removeFirst {β} (P : β → Bool) (wt : β → Nat) :
    ∀ (l : List β) (x : β), l.find? P = some x →
      (l.map wt).sum = wt x + ((removeFirst P l).map wt).sum
  | [], _, h => by simp at h
  | y :: ys, x, h => by
    simp only [List.find?_cons] at h
    simp only [removeFirst]
    cases hy : P y with
    | true =>
      rw [hy] at h
      simp only [Option.some.injEq] at h
      subst h
      simp
    | false =>
      rw [hy] at h
      simp only [Bool.false_eq_true, if_false, List.map_cons, List.sum_cons]
      rw [sum_removeFirst P wt ys x h]
      omega

theorem countP_removeFirst_le {β} (P : β → Bool) (q : β → Bool) :
    ∀ (l : List β), (removeFirst P l).countP q ≤ l.countP q
  | [] => Nat.le_refl _
  | y :: ys => by
    simp only [removeFirst]
    split
    · simp only [List.countP_cons]; omega
    · simp only [List.countP_cons]
      have := countP_removeFirst_le P q ys
      omega

/-- Updating the one element with key `k`, which contributed nothing before, adds its contribution. -/
theorem filterMap_update_perm {α γ} (key : α → Nat) (k : Nat) (f : α → α) (g : α → Option γ) :
    ∀ (l : List α), (l.map key).Nodup → ∀ e0 ∈ l, key e0 = k → g e0 = none →
      ((l.map (fun e => if key e == k then f e else e)).filterMap g).Perm ((g (f e0)).toList ++ l.filterMap g)
  | [], _, _, h, _, _ => by simp at h
  | x :: xs, hn, e0, he0, hk, hg => by
    simp only [List.map_cons, List.nodup_cons] at hn
    by_cases hx : key x = k
    · have hxe : x = e0 := by
        rcases List.mem_cons.mp he0 with h | h
        · exact h.symm
        · exact absurd (List.mem_map_of_mem (f := key) h) (by rw [hk, ← hx]; exact hn.1)
      subst hxe
      have hrest : xs.map (fun e => if key e == k then f e else e) = xs := by
        calc xs.map (fun e => if key e == k then f e else e) = xs.map id := by
              apply List.map_congr_left
              intro e he
              have : key e ≠ k := fun h => hn.1 (by rw [hx, ← h]; exact List.mem_map_of_mem he)
              simp [this]
          _ = xs := List.map_id xs
      simp only [List.map_cons, hx, beq_self_eq_true, if_true, hrest, List.filterMap_cons, hg]
      cases g (f x) <;> simp
    · have he0' : e0 ∈ xs := by
        rcases List.mem_cons.mp he0 with h | h
        · subst h; exact absurd hk hx
        · exact h
      have ih := filterMap_update_perm key k f g xs hn.2 e0 he0' hk hg
      have hxb : (key x == k) = false := by simpa using hx
      simp only [List.map_cons, hxb, Bool.false_eq_true, if_false, List.filterMap_cons]
      cases hgx : g x with
      | none => simpa using ih
      | some c =>
        simp only []
        exact (List.Perm.cons c ih).trans (by
          cases g (f e0)
          · simp
          · simp only [Option.toList_some, List.singleton_append]; exact List.Perm.swap _ _ _)

/-! ### The queues as the drain sees them -/

/-- First byte of a packet (0 if it is empty). -/
def hd (bs : Bytes) : Nat :=
  match bs.head? with
  | some x => x.toNat
  | none => 0

/-- A retained packet: bytes, identifier, send state. -/
abbrev RetV := Bytes × Nat × SendState
/-- A PUBREL: identifier, send state. -/
abbrev RelV := Nat × SendState

def retView (o : Outbound) : List RetV := o.retained.map (fun e => (slice o.buf e.offset e.len, e.id, e.state))
def relView (o : Outbound) : List RelV := o.release.map (fun e => (e.id, e.state))

/-- In `Flush` or `Sent`: the packet is completely on the wire. -/
def sentish : SendState → Bool
  | .write _ => false
  | _ => true

/-- **The conformant broker**, on a packet with first byte `h` and identifier `id`: PUBACK for a
QoS 1 PUBLISH, PUBREC for a QoS 2 PUBLISH, SUBACK / UNSUBACK (one reason code, `0` = granted QoS 0 /
success) for SUBSCRIBE / UNSUBSCRIBE, all with reason Success and no properties; nothing else. -/
def ansHeader (h id : Nat) : Option Spec.ServerPacket :=
  if AckKind.pubAck.acknowledges h then some (.ack .pubAck id .none)
  else if AckKind.pubRec.acknowledges h then some (.ack .pubRec id .none)
  else if AckKind.subAck.acknowledges h then some (.subAck id [] [0])
  else if AckKind.unsubAck.acknowledges h then some (.unsubAck id [] [0])
  else none

def ansRet (v : RetV) : Option Spec.ServerPacket := if sentish v.2.2 then ansHeader (hd v.1) v.2.1 else none
def ansRel (v : RelV) : Option Spec.ServerPacket := if sentish v.2 then some (.ack .pubComp v.1 .none) else none

/-- The answers the broker owes for what is completely on the wire and not yet acknowledged. -/
def expected (o : Outbound) : List Spec.ServerPacket :=
  (retView o).filterMap ansRet ++ (relView o).filterMap ansRel

/-- Rounds a retained packet still needs once it is sent: two for a QoS 2 PUBLISH (PUBREC, then
PUBCOMP), one otherwise. -/
def wgt (v : RetV) : Nat := if AckKind.pubRec.acknowledges (hd v.1) then 2 else 1

/-- Acknowledgements still to be received before the queues are empty. -/
def owed (o : Outbound) : Nat := ((retView o).map wgt).sum + o.release.length

/-- Entries that still have something to write or flush. -/
def pending (o : Outbound) : Nat :=
  o.control.length + (relView o).countP (fun v => v.2 != .sent) + (retView o).countP (fun v => v.2.2 != .sent)

/-- **The conformant broker**, on an entry of the transmission log (a packet the transport has accepted
completely): as `ansHeader` for a retained packet, PUBCOMP for a PUBREL, PINGRESP for a PINGREQ, nothing
for the client's own acknowledgements. -/
def answerOf (f : LogEntry) : Option Spec.ServerPacket :=
  match f.tag with
  | .retained _ id => ansHeader (hd f.bytes) id
  | .release _ _ id _ => some (.ack .pubComp id .none)
  | .control a => if a.typ = MT_PingReq then some .pingResp else none
  | .unknown => none

theorem headerAt_eq_hd (o : Outbound) (off len : Nat) (h : 0 < len) : o.headerAt off = hd (slice o.buf off len) := by
  unfold Outbound.headerAt hd
  rw [List.head?_eq_getElem?, getElem?_slice]
  simp only [h, if_true, Nat.add_zero]
  cases o.buf[off]? <;> rfl

/-! ### `next_step` -/

theorem nextStep_none_sent (o : Outbound) (h : o.nextStep = none) :
    (∀ e ∈ o.control, e.state = .sent) ∧ (∀ e ∈ o.release, e.state = .sent) ∧ (∀ e ∈ o.retained, e.state = .sent) := by
  have h1 := nextStep_none_finds o h true
  have h2 := nextStep_none_finds o h false
  have key : ∀ {α} (l : List α) (st : α → SendState),
      l.find? (fun e => (st e).matchesPriority true) = none → l.find? (fun e => (st e).matchesPriority false) = none →
      ∀ e ∈ l, st e = .sent := by
    intro α l st ha hb e he
    cases hs : st e with
    | sent => rfl
    | flush =>
      have := List.find?_eq_none.mp ha e he
      simp [hs, SendState.matchesPriority, SendState.isInProgress] at this
    | write n =>
      cases n with
      | zero =>
        have := List.find?_eq_none.mp hb e he
        simp [hs, SendState.matchesPriority, SendState.isFresh] at this
      | succ k =>
        have := List.find?_eq_none.mp ha e he
        simp [hs, SendState.matchesPriority, SendState.isInProgress] at this
  exact ⟨key o.control (·.state) h1.1 h2.1, key o.release (·.state) h1.2.1 h2.2.1, key o.retained (·.state) h1.2.2 h2.2.2⟩

/-- The step `next_step` hands out comes from an entry of one of the queues that is not yet `Sent`. -/
inductive StepOf (o : Outbound) : Outbound.Step → Prop
  | control (e : PendingControl) (he : e ∈ o.control) (hs : e.state ≠ .sent) : StepOf o (.control e.action e.state)
  | release (e : PendingRelease) (he : e ∈ o.release) (hs : e.state ≠ .sent) : StepOf o (.release e.id e.rc e.state)
  | retained (e : RetainedPacket) (he : e ∈ o.retained) (hs : e.state ≠ .sent) :
      StepOf o (.retained e.id e.offset e.len e.state)

theorem matches_not_sent' {st : SendState} {b : Bool} (h : st.matchesPriority b = true) : st ≠ .sent := by
  intro hs; subst hs; cases b <;> simp [SendState.matchesPriority, SendState.isInProgress, SendState.isFresh] at h

theorem nextStepPrio_stepOf (o : Outbound) (b : Bool) (st : Outbound.Step) (h : o.nextStepPrio b = some st) :
    StepOf o st := by
  unfold Outbound.nextStepPrio at h
  cases h1 : o.control.find? (fun e => e.state.matchesPriority b) with
  | some e =>
    rw [h1] at h; simp only [Option.some.injEq] at h; subst h
    exact .control e (List.mem_of_find?_eq_some h1) (matches_not_sent' (b := b) (by have := List.find?_some h1; simpa using this))
  | none =>
    rw [h1] at h
    cases h2 : o.release.find? (fun e => e.state.matchesPriority b) with
    | some e =>
      rw [h2] at h; simp only [Option.some.injEq] at h; subst h
      exact .release e (List.mem_of_find?_eq_some h2) (matches_not_sent' (b := b) (by have := List.find?_some h2; simpa using this))
    | none =>
      rw [h2] at h
      cases h3 : o.retained.find? (fun e => e.state.matchesPriority b) with
      | some e =>
        rw [h3] at h; simp only [Option.some.injEq] at h; subst h
        exact .retained e (List.mem_of_find?_eq_some h3) (matches_not_sent' (b := b) (by have := List.find?_some h3; simpa using this))
      | none => rw [h3] at h; cases h

theorem nextStep_stepOf (o : Outbound) (st : Outbound.Step) (h : o.nextStep = some st) : StepOf o st := by
  unfold Outbound.nextStep at h
  cases h1 : o.nextStepPrio true with
  | some s => rw [h1] at h; simp only [Option.some.injEq] at h; subst h; exact nextStepPrio_stepOf o true _ h1
  | none => rw [h1] at h; exact nextStepPrio_stepOf o false st h

/-! ### What the queue operations do to the views -/

/-- Set the state of the entry with identifier `id`. -/
def setRet (id : Nat) (st : SendState) (v : RetV) : RetV := if v.2.1 == id then (v.1, v.2.1, st) else v
def setRel (id : Nat) (st : SendState) (v : RelV) : RelV := if v.1 == id then (v.1, st) else v

theorem retView_ids (o : Outbound) : (retView o).map (·.2.1) = o.retained.map (·.id) := by
  simp [retView, List.map_map, Function.comp_def]

theorem relView_ids (o : Outbound) : (relView o).map (·.1) = o.release.map (·.id) := by
  simp [relView, List.map_map, Function.comp_def]

theorem retView_modify (o : Outbound) (id : Nat) (st : SendState) (hn : (o.retained.map (·.id)).Nodup) :
    retView { o with retained := modifyFirst (fun e => e.id == id) (fun e => { e with state := st }) o.retained } =
      (retView o).map (setRet id st) := by
  simp only [retView]
  rw [modifyFirst_eq_map (fun e : RetainedPacket => e.id) id _ o.retained hn, List.map_map, List.map_map]
  apply List.map_congr_left
  intro e _
  simp only [Function.comp_def, setRet]
  split <;> rfl

theorem relView_modify (o : Outbound) (id : Nat) (st : SendState) (hn : (o.release.map (·.id)).Nodup) :
    relView { o with release := modifyFirst (fun e => e.id == id) (fun e => { e with state := st }) o.release } =
      (relView o).map (setRel id st) := by
  simp only [relView]
  rw [modifyFirst_eq_map (fun e : PendingRelease => e.id) id _ o.release hn, List.map_map, List.map_map]
  apply List.map_congr_left
  intro e _
  simp only [Function.comp_def, setRel]
  split <;> rfl

theorem any_congr_mem {α} (f g : α → Bool) : ∀ (l : List α), (∀ e ∈ l, f e = g e) → l.any f = l.any g
  | [], _ => rfl
  | x :: xs, h => by
    simp only [List.any_cons]
    rw [h x (by simp), any_congr_mem f g xs (fun e he => h e (by simp [he]))]

theorem zipWith_map_map {α β γ δ} (F : β → γ → δ) (a : α → β) (c : α → γ) :
    ∀ (l : List α), List.zipWith F (l.map a) (l.map c) = l.map (fun e => F (a e) (c e))
  | [] => rfl
  | x :: xs => by simp only [List.map_cons, List.zipWith_cons_cons, zipWith_map_map F a c xs]

/-- The view from `contents` and `meta`, which `compact` and `ack_packet` are specified by. -/
theorem retView_eq_zip (o : Outbound) :
    retView o = List.zipWith (fun bs (m : Nat × Nat × SendState × Nat) => (bs, m.1, m.2.2.1)) o.contents o.meta := by
  unfold retView Outbound.contents Minimq.contents Outbound.meta
  rw [zipWith_map_map]

theorem IdInv_ackPacket_release (o : Outbound) (id : Nat) (k : AckKind) :
    (o.ackPacket id k).1.release = o.release ∧ (o.ackPacket id k).1.control = o.control := by
  unfold Outbound.ackPacket
  simp only []
  split
  · exact ⟨rfl, rfl⟩
  · exact ⟨rfl, rfl⟩

/-- `ack_packet` on the view: the first packet with that identifier and of the acknowledged kind
leaves; everything else stays as it is. -/
theorem retView_ackPacket (o : Outbound) (id : Nat) (k : AckKind) (h : o.ArenaInv) :
    let P : RetV → Bool := fun v => v.2.1 == id && k.acknowledges (hd v.1)
    (o.ackPacket id k).2 = (retView o).any P ∧
    retView (o.ackPacket id k).1 = (if (retView o).any P then removeFirst P (retView o) else retView o) ∧
    (o.ackPacket id k).1.release = o.release ∧ (o.ackPacket id k).1.control = o.control := by
  intro P
  have hp : ∀ e ∈ o.retained, (e.id == id && k.acknowledges (o.headerAt e.offset)) =
      P (slice o.buf e.offset e.len, e.id, e.state) := by
    intro e he
    simp only [P]
    rw [headerAt_eq_hd o e.offset e.len (h.pos e he)]
  have hany : (retView o).any P = o.retained.any (fun e => e.id == id && k.acknowledges (o.headerAt e.offset)) := by
    simp only [retView, List.any_map]
    exact (any_congr_mem _ _ o.retained (fun e he => by simp only [Function.comp_def]; exact hp e he)).symm
  obtain ⟨_, hfound, hnot, _, _⟩ := ackPacket_spec o id k h
  have hrel := (IdInv_ackPacket_release o id k)
  cases hf : (o.ackPacket id k).2 with
  | true =>
    have hanyt : o.retained.any (fun e => e.id == id && k.acknowledges (o.headerAt e.offset)) = true := by
      unfold Outbound.ackPacket at hf
      simp only [] at hf
      split at hf
      · assumption
      · simp at hf
    obtain ⟨hc, hm⟩ := hfound hf
    refine ⟨by rw [hany, hanyt], ?_, hrel.1, hrel.2⟩
    rw [hany, hanyt, if_pos rfl, retView_eq_zip, hc, hm]
    unfold Minimq.contents
    rw [zipWith_map_map]
    unfold retView
    rw [← removeFirst_map (fun e : RetainedPacket => (slice o.buf e.offset e.len, e.id, e.state)) _ P o.retained hp]
  | false =>
    have hanyf : o.retained.any (fun e => e.id == id && k.acknowledges (o.headerAt e.offset)) = false := by
      unfold Outbound.ackPacket at hf
      simp only [] at hf
      split at hf
      · simp at hf
      · rename_i hh; simpa using hh
    have := hnot hf
    refine ⟨by rw [hany, hanyf], ?_, hrel.1, hrel.2⟩
    rw [hany, hanyf, this]
    simp

/-! ### Updating one entry, by key -/

theorem countP_update {α} (key : α → Nat) (k : Nat) (f : α → α) (q : α → Bool) :
    ∀ (l : List α), (l.map key).Nodup → ∀ e0 ∈ l, key e0 = k →
      (l.map (fun e => if key e == k then f e else e)).countP q + (if q e0 then 1 else 0) =
        l.countP q + (if q (f e0) then 1 else 0)
  | [], _, _, h, _ => by simp at h
  | x :: xs, hn, e0, he0, hk => by
    simp only [List.map_cons, List.nodup_cons] at hn
    by_cases hx : key x = k
    · have hxe : x = e0 := by
        rcases List.mem_cons.mp he0 with h | h
        · exact h.symm
        · exact absurd (List.mem_map_of_mem (f := key) h) (by rw [hk, ← hx]; exact hn.1)
      subst hxe
      have hrest : xs.map (fun e => if key e == k then f e else e) = xs := by
        calc xs.map (fun e => if key e == k then f e else e) = xs.map id := by
              apply List.map_congr_left
              intro e he
              have : key e ≠ k := fun h => hn.1 (by rw [hx, ← h]; exact List.mem_map_of_mem he)
              simp [this]
          _ = xs := List.map_id xs
      simp only [List.map_cons, hx, beq_self_eq_true, if_true, hrest, List.countP_cons]
      omega
    · have he0' : e0 ∈ xs := by
        rcases List.mem_cons.mp he0 with h | h
        · subst h; exact absurd hk hx
        · exact h
      have ih := countP_update key k f q xs hn.2 e0 he0' hk
      have hxb : (key x == k) = false := by simpa using hx
      simp only [List.map_cons, hxb, Bool.false_eq_true, if_false, List.countP_cons]
      omega

theorem filterMap_update_same {α γ} (key : α → Nat) (k : Nat) (f : α → α) (g : α → Option γ) (l : List α)
    (h : ∀ e ∈ l, key e = k → g (f e) = g e) :
    (l.map (fun e => if key e == k then f e else e)).filterMap g = l.filterMap g := by
  induction l with
  | nil => rfl
  | cons x xs ih =>
    simp only [List.map_cons, List.filterMap_cons]
    rw [ih (fun e he => h e (by simp [he]))]
    have : g (if key x == k then f x else x) = g x := by
      split
      · rename_i hk; exact h x (by simp) (by simpa using hk)
      · rfl
    rw [this]

theorem map_update_same {α γ} (key : α → Nat) (k : Nat) (f : α → α) (g : α → γ) (l : List α)
    (h : ∀ e, g (f e) = g e) :
    (l.map (fun e => if key e == k then f e else e)).map g = l.map g := by
  rw [List.map_map]
  apply List.map_congr_left
  intro e _
  simp only [Function.comp_def]
  split
  · exact h e
  · rfl

theorem setRet_eq (id : Nat) (st : SendState) :
    setRet id st = fun v : RetV => if (fun v : RetV => v.2.1) v == id then (fun v : RetV => (v.1, v.2.1, st)) v else v := rfl

theorem setRel_eq (id : Nat) (st : SendState) :
    setRel id st = fun v : RelV => if (fun v : RelV => v.1) v == id then (fun v : RelV => (v.1, st)) v else v := rfl

def unsentRet (v : RetV) : Bool := v.2.2 != .sent
def unsentRel (v : RelV) : Bool := v.2 != .sent

theorem pending_def (o : Outbound) :
    pending o = o.control.length + (relView o).countP unsentRel + (retView o).countP unsentRet := rfl

/-! ### What the drain assumes of the session -/

/-- Every queued packet is within the broker's Maximum Packet Size (finding F14 is the failure of the
last clause), and so is a PUBREL (5 bytes). -/
structure Fits (s : Session) : Prop where
  control : ∀ e ∈ s.data.outbound.control, ∃ bs, encodeControl e.action = .ok bs ∧ s.rt.packetTooLarge bs.length = false
  pubrel : s.rt.packetTooLarge 5 = false
  retained : ∀ v ∈ retView s.data.outbound, s.rt.packetTooLarge v.1.length = false

/-- The facts about the session that the drain keeps and that are not among the lifted invariants. -/
structure Tidy (s : Session) : Prop where
  clean : ∀ e ∈ s.data.outbound.control, e.state ≠ .sent
  noPing : ∀ e ∈ s.data.outbound.control, e.action.typ ≠ MT_PingReq
  ctlCap : s.data.outbound.control.length ≤ MAX_PENDING_CONTROL
  fits : Fits s
  small : ∀ id ∈ s.data.outbound.usedIds, id < 65536
  deficit : s.rt.deficit = false
  maxq : s.rt.maxSendQuota ≤ maxInflight
  quotaEq : s.rt.sendQuota + s.data.outbound.inflightPublishes = s.rt.maxSendQuota

/-- The entry `pkt` is in its queue and not completely written. -/
def WriteState (s : Session) : Flushed → Prop
  | .control a => ∃ e ∈ s.data.outbound.control, e.action = a
  | .release id => ∃ e ∈ s.data.outbound.release, e.id = id ∧ sentish e.state = false
  | .retained id => ∃ e ∈ s.data.outbound.retained, e.id = id ∧ sentish e.state = false

/-- The entry `pkt` is in its queue, completely written and not yet flushed. -/
def FlushState (s : Session) : Flushed → Prop
  | .control a => ∃ e ∈ s.data.outbound.control, e.action = a
  | .release id => ∃ e ∈ s.data.outbound.release, e.id = id ∧ e.state = .flush
  | .retained id => ∃ e ∈ s.data.outbound.retained, e.id = id ∧ e.state = .flush

/-- The broker's answer to the packet of queue entry `pkt` (by way of its log entry). -/
def ansPkt (s : Session) (pkt : Flushed) : Option Spec.ServerPacket :=
  answerOf (World.doneFrame { sess := s } pkt)

theorem answerOf_doneFrame (W : World) (pkt : Flushed) : answerOf (W.doneFrame pkt) = ansPkt W.sess pkt := by
  unfold ansPkt World.doneFrame
  cases pkt with
  | control a => rfl
  | release id => simp only []; split <;> rfl
  | retained id => simp only []; split <;> rfl

theorem modifyFirst_length' {α} (p : α → Bool) (f : α → α) : ∀ l : List α, (modifyFirst p f l).length = l.length
  | [] => rfl
  | x :: xs => by simp only [modifyFirst]; split <;> simp [modifyFirst_length' p f xs]

theorem modifyFirst_mem {α} (p : α → Bool) (f : α → α) : ∀ (l : List α) (y : α), y ∈ modifyFirst p f l →
    y ∈ l ∨ ∃ x ∈ l, y = f x
  | [], y, h => by simp [modifyFirst] at h
  | x :: xs, y, h => by
    simp only [modifyFirst] at h
    split at h
    · rcases List.mem_cons.mp h with h | h
      · exact .inr ⟨x, by simp, h⟩
      · exact .inl (by simp [h])
    · rcases List.mem_cons.mp h with h | h
      · exact .inl (by simp [h])
      · rcases modifyFirst_mem p f xs y h with h | ⟨z, hz, hy⟩
        · exact .inl (by simp [h])
        · exact .inr ⟨z, by simp [hz], hy⟩

theorem modifyFirst_map_same {α γ} (p : α → Bool) (f : α → α) (g : α → γ) (h : ∀ x, g (f x) = g x) :
    ∀ l : List α, (modifyFirst p f l).map g = l.map g
  | [] => rfl
  | x :: xs => by
    simp only [modifyFirst]
    split
    · simp [h x]
    · simp [modifyFirst_map_same p f g h xs]

theorem exists_action_of_map {l l' : List PendingControl} (h : l'.map (·.action) = l.map (·.action))
    {a : ControlAction} (he : ∃ e ∈ l, e.action = a) : ∃ e ∈ l', e.action = a := by
  obtain ⟨e, he, hea⟩ := he
  have : a ∈ l'.map (·.action) := by rw [h, ← hea]; exact List.mem_map_of_mem he
  obtain ⟨y, hy, hya⟩ := List.mem_map.mp this
  exact ⟨y, hy, hya⟩

/-- Set the state of the PUBREL / the retained packet with identifier `id`. -/
def relSet (o : Outbound) (id : Nat) (st : SendState) : Outbound :=
  { o with release := modifyFirst (fun e => e.id == id) (fun e => { e with state := st }) o.release }
def retSet (o : Outbound) (id : Nat) (st : SendState) : Outbound :=
  { o with retained := modifyFirst (fun e => e.id == id) (fun e => { e with state := st }) o.retained }

theorem find?_unique {α} (key : α → Nat) (k : Nat) : ∀ (l : List α), (l.map key).Nodup → ∀ e ∈ l, key e = k →
    l.find? (fun x => key x == k) = some e
  | [], _, _, h, _ => by simp at h
  | x :: xs, hn, e, he, hk => by
    simp only [List.map_cons, List.nodup_cons] at hn
    simp only [List.find?_cons]
    by_cases hx : key x = k
    · have : x = e := by
        rcases List.mem_cons.mp he with h | h
        · exact h.symm
        · exact absurd (List.mem_map_of_mem (f := key) h) (by rw [hk, ← hx]; exact hn.1)
      subst this
      simp [hx]
    · have he' : e ∈ xs := by
        rcases List.mem_cons.mp he with h | h
        · subst h; exact absurd hk hx
        · exact h
      have hxb : (key x == k) = false := by simpa using hx
      rw [hxb]
      exact find?_unique key k xs hn.2 e he' hk

theorem _root_.Minimq.Outbound.IdInv.ret_nodup {o : Outbound} (h : o.IdInv) : (o.retained.map (·.id)).Nodup :=
  (List.nodup_append.mp h.nodup).1

theorem _root_.Minimq.Outbound.IdInv.rel_nodup {o : Outbound} (h : o.IdInv) : (o.release.map (·.id)).Nodup :=
  (List.nodup_append.mp h.nodup).2.1

theorem afterWrite_full (w len : Nat) (h : len ≤ w) : SendState.afterWrite w len = .flush := by
  unfold SendState.afterWrite; rw [if_pos h]

theorem sentish_false {st : SendState} (h : sentish st = false) : st ≠ .sent ∧ ∃ n, st = .write n := by
  cases st with
  | write n => exact ⟨fun h => (by cases h), n, rfl⟩
  | flush => simp [sentish] at h
  | sent => simp [sentish] at h

theorem inflight_setWritten (s : Session) (pkt : Flushed) (w len : Nat) :
    (s.setWritten pkt w len).data.outbound.inflightPublishes = s.data.outbound.inflightPublishes := by
  cases pkt with
  | control a => exact inflight_congr rfl rfl rfl
  | release id =>
    refine inflight_congr rfl rfl ?_
    show (modifyFirst _ _ s.data.outbound.release).length = _
    exact modifyFirst_length' _ _ _
  | retained id =>
    refine inflight_congr rfl ?_ rfl
    exact offsets_modifyFirst_state _ (fun _ => SendState.afterWrite w len) _

theorem inflight_completeFlush (s : Session) (pkt : Flushed) (now : Nat) :
    (s.completeFlush pkt now).data.outbound.inflightPublishes = s.data.outbound.inflightPublishes := by
  cases pkt with
  | control a => exact inflight_congr rfl rfl rfl
  | release id =>
    refine inflight_congr rfl rfl ?_
    show (modifyFirst _ _ s.data.outbound.release).length = _
    exact modifyFirst_length' _ _ _
  | retained id =>
    refine inflight_congr rfl ?_ rfl
    exact offsets_modifyFirst_state _ (fun _ => SendState.sent) _

/-- **`set_written` completing a packet.** The entry moves to `Flush`; nothing else changes; the broker
now owes the answer to that packet. -/
theorem written_effect (s : Session) (pkt : Flushed) (w len : Nat) (hlen : len ≤ w)
    (hid : s.data.outbound.IdInv) (hws : WriteState s pkt) (ht : Tidy s) :
    Tidy (s.setWritten pkt w len) ∧
    owed (s.setWritten pkt w len).data.outbound = owed s.data.outbound ∧
    pending (s.setWritten pkt w len).data.outbound = pending s.data.outbound ∧
    (expected (s.setWritten pkt w len).data.outbound).Perm ((ansPkt s pkt).toList ++ expected s.data.outbound) ∧
    FlushState (s.setWritten pkt w len) pkt ∧
    (s.setWritten pkt w len).rt = s.rt ∧ (s.setWritten pkt w len).reader = s.reader ∧
    (s.setWritten pkt w len).data.generation = s.data.generation := by
  have haw := afterWrite_full w len hlen
  cases pkt with
  | control a =>
    obtain ⟨e, he, hea⟩ := hws
    have hctl : (s.setWritten (.control a) w len).data.outbound.control =
        modifyFirst (fun e => e.action == a) (fun e => { e with state := .flush }) s.data.outbound.control := by
      simp only [Session.setWritten, Session.setOutbound, Outbound.setControlWritten, haw]
    have hmem : ∀ y ∈ (s.setWritten (.control a) w len).data.outbound.control,
        ∃ x ∈ s.data.outbound.control, y.action = x.action ∧ (y.state = x.state ∨ y.state = .flush) := by
      intro y hy
      rw [hctl] at hy
      rcases modifyFirst_mem _ _ _ y hy with h | ⟨x, hx, rfl⟩
      · exact ⟨y, h, rfl, .inl rfl⟩
      · exact ⟨x, hx, rfl, .inr rfl⟩
    have hview : retView (s.setWritten (.control a) w len).data.outbound = retView s.data.outbound := rfl
    have hrel : (s.setWritten (.control a) w len).data.outbound.release = s.data.outbound.release := rfl
    have hans : ansPkt s (.control a) = none := by
      unfold ansPkt World.doneFrame answerOf
      simp only []
      rw [if_neg (by rw [← hea]; exact ht.noPing e he)]
    refine ⟨⟨?_, ?_, ?_, ⟨?_, ht.fits.pubrel, ht.fits.retained⟩, ht.small, ht.deficit, ht.maxq,
      (by rw [inflight_setWritten]; exact ht.quotaEq)⟩, ?_, ?_, ?_, ?_, rfl, rfl, rfl⟩
    · intro y hy
      obtain ⟨x, hx, _, h2⟩ := hmem y hy
      rcases h2 with h2 | h2
      · rw [h2]; exact ht.clean x hx
      · rw [h2]; intro h; cases h
    · intro y hy
      obtain ⟨x, hx, h1, _⟩ := hmem y hy
      rw [h1]; exact ht.noPing x hx
    · rw [hctl, modifyFirst_length']; exact ht.ctlCap
    · intro y hy
      obtain ⟨x, hx, h1, _⟩ := hmem y hy
      rw [h1]; exact ht.fits.control x hx
    · rfl
    · rw [pending_def, pending_def, hctl, modifyFirst_length']; rfl
    · rw [hans]; exact List.Perm.refl _
    · refine exists_action_of_map (l := s.data.outbound.control) ?_ ⟨e, he, hea⟩
      rw [hctl]
      exact modifyFirst_map_same (fun e : PendingControl => e.action == a)
        (fun e => { e with state := .flush }) (fun e : PendingControl => e.action) (fun _ => rfl) _
  | release id =>
    obtain ⟨e, he, heid, hst⟩ := hws
    obtain ⟨hne, n, hwn⟩ := sentish_false hst
    have hout : (s.setWritten (.release id) w len).data.outbound =
        relSet s.data.outbound id .flush := by
      simp only [Session.setWritten, Session.setOutbound, Outbound.setReleaseWritten, haw, relSet]
    have hrv : relView (s.setWritten (.release id) w len).data.outbound =
        (relView s.data.outbound).map (setRel id .flush) := by
      rw [hout]; exact relView_modify _ id .flush hid.rel_nodup
    have hretv : retView (s.setWritten (.release id) w len).data.outbound = retView s.data.outbound := by
      rw [hout]; rfl
    have hctl : (s.setWritten (.release id) w len).data.outbound.control = s.data.outbound.control := by
      rw [hout]; rfl
    have hlen' : (s.setWritten (.release id) w len).data.outbound.release.length = s.data.outbound.release.length := by
      rw [hout]; exact modifyFirst_length' _ _ _
    have hids : (s.setWritten (.release id) w len).data.outbound.usedIds = s.data.outbound.usedIds := by
      rw [hout]
      simp only [Outbound.usedIds, relSet]
      rw [modifyFirst_map_same (fun e : PendingRelease => e.id == id) (fun e => { e with state := .flush })
        (fun e : PendingRelease => e.id) (fun _ => rfl)]
    have hnd : ((relView s.data.outbound).map (fun v : RelV => v.1)).Nodup := by
      rw [relView_ids]; exact hid.rel_nodup
    have he0 : (e.id, e.state) ∈ relView s.data.outbound := List.mem_map.mpr ⟨e, he, rfl⟩
    have hans : ansPkt s (.release id) = some (.ack .pubComp id .none) := by
      unfold ansPkt World.doneFrame
      simp only []
      rw [← heid, find?_unique (fun e : PendingRelease => e.id) e.id _ hid.rel_nodup e he rfl]
      rfl
    refine ⟨⟨?_, ?_, ?_, ⟨?_, ht.fits.pubrel, ?_⟩, ?_, ht.deficit, ht.maxq,
      (by rw [inflight_setWritten]; exact ht.quotaEq)⟩, ?_, ?_, ?_, ?_, rfl, rfl, rfl⟩
    · rw [hctl]; exact ht.clean
    · rw [hctl]; exact ht.noPing
    · rw [hctl]; exact ht.ctlCap
    · rw [hctl]; exact ht.fits.control
    · rw [hretv]; exact ht.fits.retained
    · rw [hids]; exact ht.small
    · unfold owed; rw [hretv, hlen']
    · rw [pending_def, pending_def, hctl, hretv, hrv, setRel_eq]
      have := countP_update (fun v : RelV => v.1) id (fun v : RelV => (v.1, SendState.flush)) unsentRel
        (relView s.data.outbound) hnd (e.id, e.state) he0 heid
      have h1 : unsentRel (e.id, e.state) = true := by simp [unsentRel, hne]
      have h2 : unsentRel ((fun v : RelV => (v.1, SendState.flush)) (e.id, e.state)) = true := by simp [unsentRel]
      rw [h1, h2, if_pos rfl] at this
      dsimp only at this ⊢
      omega
    · unfold expected
      rw [hretv, hrv, hans, setRel_eq]
      have := filterMap_update_perm (fun v : RelV => v.1) id (fun v : RelV => (v.1, SendState.flush)) ansRel
        (relView s.data.outbound) hnd (e.id, e.state) he0 heid (by simp [ansRel, hst])
      have h2 : ansRel ((fun v : RelV => (v.1, SendState.flush)) (e.id, e.state)) = some (.ack .pubComp id .none) := by
        simp [ansRel, sentish, heid]
      rw [h2] at this
      exact (List.Perm.append_left _ this).trans (by
        simp only [Option.toList_some, List.singleton_append]
        exact List.perm_middle)
    · show ∃ e' ∈ (s.setWritten (.release id) w len).data.outbound.release, e'.id = id ∧ e'.state = .flush
      rw [hout]
      simp only [relSet]
      rw [modifyFirst_eq_map (fun e : PendingRelease => e.id) id _ _ hid.rel_nodup]
      refine ⟨{ e with state := .flush }, ?_, heid, rfl⟩
      exact List.mem_map.mpr ⟨e, he, by simp [heid]⟩
  | retained id =>
    obtain ⟨e, he, heid, hst⟩ := hws
    obtain ⟨hne, n, hwn⟩ := sentish_false hst
    have hout : (s.setWritten (.retained id) w len).data.outbound =
        retSet s.data.outbound id .flush := by
      simp only [Session.setWritten, Session.setOutbound, Outbound.setRetainedWritten, haw, retSet]
    have hretv : retView (s.setWritten (.retained id) w len).data.outbound =
        (retView s.data.outbound).map (setRet id .flush) := by
      rw [hout]; exact retView_modify _ id .flush hid.ret_nodup
    have hrv : relView (s.setWritten (.retained id) w len).data.outbound = relView s.data.outbound := by
      rw [hout]; rfl
    have hctl : (s.setWritten (.retained id) w len).data.outbound.control = s.data.outbound.control := by
      rw [hout]; rfl
    have hrel : (s.setWritten (.retained id) w len).data.outbound.release = s.data.outbound.release := by
      rw [hout]; rfl
    have hids : (s.setWritten (.retained id) w len).data.outbound.usedIds = s.data.outbound.usedIds := by
      rw [hout]
      simp only [Outbound.usedIds, retSet]
      rw [modifyFirst_map_same (fun e : RetainedPacket => e.id == id) (fun e => { e with state := .flush })
        (fun e : RetainedPacket => e.id) (fun _ => rfl)]
    have hnd : ((retView s.data.outbound).map (fun v : RetV => v.2.1)).Nodup := by
      rw [retView_ids]; exact hid.ret_nodup
    have he0 : (slice s.data.outbound.buf e.offset e.len, e.id, e.state) ∈ retView s.data.outbound :=
      List.mem_map.mpr ⟨e, he, rfl⟩
    have hans : ansPkt s (.retained id) = ansHeader (hd (slice s.data.outbound.buf e.offset e.len)) id := by
      unfold ansPkt World.doneFrame
      simp only []
      rw [← heid, find?_unique (fun e : RetainedPacket => e.id) e.id _ hid.ret_nodup e he rfl]
      rfl
    refine ⟨⟨?_, ?_, ?_, ⟨?_, ht.fits.pubrel, ?_⟩, ?_, ht.deficit, ht.maxq,
      (by rw [inflight_setWritten]; exact ht.quotaEq)⟩, ?_, ?_, ?_, ?_, rfl, rfl, rfl⟩
    · rw [hctl]; exact ht.clean
    · rw [hctl]; exact ht.noPing
    · rw [hctl]; exact ht.ctlCap
    · rw [hctl]; exact ht.fits.control
    · rw [hretv]
      intro v hv
      obtain ⟨u, hu, rfl⟩ := List.mem_map.mp hv
      have := ht.fits.retained u hu
      unfold setRet
      split <;> exact this
    · rw [hids]; exact ht.small
    · unfold owed
      rw [hretv, hrel, setRet_eq, map_update_same (fun v : RetV => v.2.1) id
        (fun v : RetV => (v.1, v.2.1, SendState.flush)) wgt _ (fun _ => rfl)]
    · rw [pending_def, pending_def, hctl, hretv, hrv, setRet_eq]
      have := countP_update (fun v : RetV => v.2.1) id (fun v : RetV => (v.1, v.2.1, SendState.flush)) unsentRet
        (retView s.data.outbound) hnd _ he0 heid
      have h1 : unsentRet (slice s.data.outbound.buf e.offset e.len, e.id, e.state) = true := by
        simp [unsentRet, hne]
      have h2 : unsentRet ((fun v : RetV => (v.1, v.2.1, SendState.flush))
          (slice s.data.outbound.buf e.offset e.len, e.id, e.state)) = true := by simp [unsentRet]
      rw [h1, h2, if_pos rfl] at this
      dsimp only at this ⊢
      omega
    · unfold expected
      rw [hretv, hrv, hans, setRet_eq]
      have := filterMap_update_perm (fun v : RetV => v.2.1) id (fun v : RetV => (v.1, v.2.1, SendState.flush)) ansRet
        (retView s.data.outbound) hnd _ he0 heid (by simp [ansRet, hst])
      have h2 : ansRet ((fun v : RetV => (v.1, v.2.1, SendState.flush))
          (slice s.data.outbound.buf e.offset e.len, e.id, e.state)) =
          ansHeader (hd (slice s.data.outbound.buf e.offset e.len)) id := by
        simp [ansRet, sentish, heid]
      rw [h2] at this
      exact (List.Perm.append_right _ this).trans (by rw [List.append_assoc])
    · show ∃ e' ∈ (s.setWritten (.retained id) w len).data.outbound.retained, e'.id = id ∧ e'.state = .flush
      rw [hout]
      simp only [retSet]
      rw [modifyFirst_eq_map (fun e : RetainedPacket => e.id) id _ _ hid.ret_nodup]
      refine ⟨{ e with state := .flush }, ?_, heid, rfl⟩
      exact List.mem_map.mpr ⟨e, he, by simp [heid]⟩

theorem flushControl_clean (a : ControlAction) : ∀ (l : List PendingControl), (∀ e ∈ l, e.state ≠ .sent) →
    (modifyFirst (fun e => e.action == a) (fun e => { e with state := .sent }) l).filter (fun e => e.state ≠ .sent) =
      removeFirst (fun e => e.action == a) l
  | [], _ => rfl
  | x :: xs, h => by
    simp only [modifyFirst, removeFirst]
    have hx := h x (by simp)
    have hxs : ∀ e ∈ xs, e.state ≠ .sent := fun e he => h e (by simp [he])
    split
    · simp only [List.filter_cons]
      simp only [decide_not, Bool.not_true, decide_true, Bool.false_eq_true, if_false]
      apply List.filter_eq_self.mpr
      intro e he; simpa using hxs e he
    · simp only [List.filter_cons]
      rw [flushControl_clean a xs hxs]
      simp [hx]

theorem removeFirst_length_of_mem {α} (p : α → Bool) : ∀ (l : List α), (∃ e ∈ l, p e = true) →
    (removeFirst p l).length + 1 = l.length
  | [], h => by simp at h
  | x :: xs, h => by
    simp only [removeFirst]
    split
    · simp
    · rename_i hx
      have : ∃ e ∈ xs, p e = true := by
        obtain ⟨e, he, hp⟩ := h
        rcases List.mem_cons.mp he with rfl | he
        · exact absurd hp hx
        · exact ⟨e, he, hp⟩
      simp [removeFirst_length_of_mem p xs this]

theorem view_unique_ret {o : Outbound} (hid : o.IdInv) {e : RetainedPacket} (he : e ∈ o.retained) {v : RetV}
    (hv : v ∈ retView o) (hk : v.2.1 = e.id) : v = (slice o.buf e.offset e.len, e.id, e.state) := by
  obtain ⟨e', he', rfl⟩ := List.mem_map.mp hv
  have : e' = e := by
    have h1 := find?_unique (fun x : RetainedPacket => x.id) e.id _ hid.ret_nodup e he rfl
    have h2 := find?_unique (fun x : RetainedPacket => x.id) e.id _ hid.ret_nodup e' he' hk
    rw [h1] at h2; exact (Option.some.inj h2).symm
  rw [this]

theorem view_unique_rel {o : Outbound} (hid : o.IdInv) {e : PendingRelease} (he : e ∈ o.release) {v : RelV}
    (hv : v ∈ relView o) (hk : v.1 = e.id) : v = (e.id, e.state) := by
  obtain ⟨e', he', rfl⟩ := List.mem_map.mp hv
  have : e' = e := by
    have h1 := find?_unique (fun x : PendingRelease => x.id) e.id _ hid.rel_nodup e he rfl
    have h2 := find?_unique (fun x : PendingRelease => x.id) e.id _ hid.rel_nodup e' he' hk
    rw [h1] at h2; exact (Option.some.inj h2).symm
  rw [this]

theorem tooLarge_congr {r r' : Runtime} (h : r'.maximumPacketSize = r.maximumPacketSize) (n : Nat) :
    r'.packetTooLarge n = r.packetTooLarge n := by
  unfold Runtime.packetTooLarge; rw [h]

theorem completeFlush_rt_fields (s : Session) (pkt : Flushed) (now : Nat) :
    (s.completeFlush pkt now).rt.maximumPacketSize = s.rt.maximumPacketSize ∧
    (s.completeFlush pkt now).rt.deficit = s.rt.deficit ∧
    (s.completeFlush pkt now).rt.maxSendQuota = s.rt.maxSendQuota ∧
    (s.completeFlush pkt now).rt.sendQuota = s.rt.sendQuota := by
  unfold Session.completeFlush Runtime.noteOutboundActivity
  cases pkt with
  | control a => simp only []; split <;> exact ⟨rfl, rfl, rfl, rfl⟩
  | release id => exact ⟨rfl, rfl, rfl, rfl⟩
  | retained id => exact ⟨rfl, rfl, rfl, rfl⟩

/-- **`complete_flush`.** The entry is `Sent` (a control entry leaves its queue): one entry less has
work to do; what the broker owes is unchanged. -/
theorem flushed_effect (s : Session) (pkt : Flushed) (now : Nat)
    (hid : s.data.outbound.IdInv) (hfs : FlushState s pkt) (ht : Tidy s) :
    Tidy (s.completeFlush pkt now) ∧
    owed (s.completeFlush pkt now).data.outbound = owed s.data.outbound ∧
    pending (s.completeFlush pkt now).data.outbound + 1 = pending s.data.outbound ∧
    expected (s.completeFlush pkt now).data.outbound = expected s.data.outbound ∧
    (s.completeFlush pkt now).reader = s.reader ∧
    (s.completeFlush pkt now).data.generation = s.data.generation := by
  obtain ⟨hmps, hdef, hmq, hsq⟩ := completeFlush_rt_fields s pkt now
  have hfits : ∀ {c : List PendingControl} {rv : List RetV},
      (∀ e ∈ c, ∃ e' ∈ s.data.outbound.control, e.action = e'.action) →
      (∀ v ∈ rv, ∃ v' ∈ retView s.data.outbound, v.1 = v'.1) →
      (∀ e ∈ c, ∃ bs, encodeControl e.action = .ok bs ∧ (s.completeFlush pkt now).rt.packetTooLarge bs.length = false) ∧
      (s.completeFlush pkt now).rt.packetTooLarge 5 = false ∧
      (∀ v ∈ rv, (s.completeFlush pkt now).rt.packetTooLarge v.1.length = false) := by
    intro c rv hc hr
    refine ⟨?_, ?_, ?_⟩
    · intro e he
      obtain ⟨e', he', ha⟩ := hc e he
      obtain ⟨bs, h1, h2⟩ := ht.fits.control e' he'
      exact ⟨bs, by rw [ha]; exact h1, by rw [tooLarge_congr hmps]; exact h2⟩
    · rw [tooLarge_congr hmps]; exact ht.fits.pubrel
    · intro v hv
      obtain ⟨v', hv', hb⟩ := hr v hv
      rw [tooLarge_congr hmps, hb]; exact ht.fits.retained v' hv'
  cases pkt with
  | control a =>
    obtain ⟨e, he, hea⟩ := hfs
    have hout : (s.completeFlush (.control a) now).data.outbound = s.data.outbound.flushControl a := rfl
    have hctl : (s.completeFlush (.control a) now).data.outbound.control =
        removeFirst (fun e => e.action == a) s.data.outbound.control := by
      rw [hout]; simp only [Outbound.flushControl]; exact flushControl_clean a _ ht.clean
    have hsub := removeFirst_sublist (fun e : PendingControl => e.action == a) s.data.outbound.control
    have hretv : retView (s.completeFlush (.control a) now).data.outbound = retView s.data.outbound := rfl
    have hrv : relView (s.completeFlush (.control a) now).data.outbound = relView s.data.outbound := rfl
    have hlen := removeFirst_length_of_mem (fun e : PendingControl => e.action == a) s.data.outbound.control
      ⟨e, he, by simp [hea]⟩
    obtain ⟨f1, f2, f3⟩ := hfits (c := (s.completeFlush (.control a) now).data.outbound.control)
      (rv := retView (s.completeFlush (.control a) now).data.outbound)
      (fun x hx => ⟨x, by rw [hctl] at hx; exact hsub.subset hx, rfl⟩) (fun v hv => ⟨v, hv, rfl⟩)
    refine ⟨⟨?_, ?_, ?_, ⟨f1, f2, f3⟩, ht.small, by rw [hdef]; exact ht.deficit, by rw [hmq]; exact ht.maxq,
      (by rw [inflight_completeFlush, hsq, hmq]; exact ht.quotaEq)⟩,
      rfl, ?_, rfl, rfl, rfl⟩
    · rw [hctl]; intro x hx; exact ht.clean x (hsub.subset hx)
    · rw [hctl]; intro x hx; exact ht.noPing x (hsub.subset hx)
    · rw [hctl]; have := ht.ctlCap; omega
    · rw [pending_def, pending_def, hctl, hretv, hrv]; omega
  | release id =>
    obtain ⟨e, he, heid, hst⟩ := hfs
    have hout : (s.completeFlush (.release id) now).data.outbound = relSet s.data.outbound id .sent := rfl
    have hrv : relView (s.completeFlush (.release id) now).data.outbound =
        (relView s.data.outbound).map (setRel id .sent) := by
      rw [hout]; exact relView_modify _ id .sent hid.rel_nodup
    have hretv : retView (s.completeFlush (.release id) now).data.outbound = retView s.data.outbound := rfl
    have hctl : (s.completeFlush (.release id) now).data.outbound.control = s.data.outbound.control := rfl
    have hlen' : (s.completeFlush (.release id) now).data.outbound.release.length = s.data.outbound.release.length := by
      rw [hout]; exact modifyFirst_length' _ _ _
    have hids : (s.completeFlush (.release id) now).data.outbound.usedIds = s.data.outbound.usedIds := by
      rw [hout]
      simp only [Outbound.usedIds, relSet]
      rw [modifyFirst_map_same (fun e : PendingRelease => e.id == id) (fun e => { e with state := .sent })
        (fun e : PendingRelease => e.id) (fun _ => rfl)]
    have hnd : ((relView s.data.outbound).map (fun v : RelV => v.1)).Nodup := by
      rw [relView_ids]; exact hid.rel_nodup
    have he0 : (e.id, e.state) ∈ relView s.data.outbound := List.mem_map.mpr ⟨e, he, rfl⟩
    obtain ⟨f1, f2, f3⟩ := hfits (c := (s.completeFlush (.release id) now).data.outbound.control)
      (rv := retView (s.completeFlush (.release id) now).data.outbound)
      (fun x hx => ⟨x, hx, rfl⟩) (fun v hv => ⟨v, hv, rfl⟩)
    refine ⟨⟨ht.clean, ht.noPing, ht.ctlCap, ⟨f1, f2, f3⟩, by rw [hids]; exact ht.small,
      by rw [hdef]; exact ht.deficit, by rw [hmq]; exact ht.maxq,
      (by rw [inflight_completeFlush, hsq, hmq]; exact ht.quotaEq)⟩, ?_, ?_, ?_, rfl, rfl⟩
    · unfold owed; rw [hretv, hlen']
    · rw [pending_def, pending_def, hctl, hretv, hrv, setRel_eq]
      have := countP_update (fun v : RelV => v.1) id (fun v : RelV => (v.1, SendState.sent)) unsentRel
        (relView s.data.outbound) hnd (e.id, e.state) he0 heid
      have h1 : unsentRel (e.id, e.state) = true := by simp [unsentRel, hst]
      have h2 : unsentRel ((fun v : RelV => (v.1, SendState.sent)) (e.id, e.state)) = false := by simp [unsentRel]
      rw [h1, h2, if_pos rfl, if_neg (by simp)] at this
      dsimp only at this ⊢
      omega
    · unfold expected
      rw [hretv, hrv, setRel_eq]
      congr 1
      apply filterMap_update_same
      intro v hv hk
      have := view_unique_rel hid he hv (hk.trans heid.symm)
      subst this
      simp [ansRel, sentish, hst]
  | retained id =>
    obtain ⟨e, he, heid, hst⟩ := hfs
    have hout : (s.completeFlush (.retained id) now).data.outbound = retSet s.data.outbound id .sent := rfl
    have hretv : retView (s.completeFlush (.retained id) now).data.outbound =
        (retView s.data.outbound).map (setRet id .sent) := by
      rw [hout]; exact retView_modify _ id .sent hid.ret_nodup
    have hrv : relView (s.completeFlush (.retained id) now).data.outbound = relView s.data.outbound := rfl
    have hctl : (s.completeFlush (.retained id) now).data.outbound.control = s.data.outbound.control := rfl
    have hrel : (s.completeFlush (.retained id) now).data.outbound.release = s.data.outbound.release := rfl
    have hids : (s.completeFlush (.retained id) now).data.outbound.usedIds = s.data.outbound.usedIds := by
      rw [hout]
      simp only [Outbound.usedIds, retSet]
      rw [modifyFirst_map_same (fun e : RetainedPacket => e.id == id) (fun e => { e with state := .sent })
        (fun e : RetainedPacket => e.id) (fun _ => rfl)]
    have hnd : ((retView s.data.outbound).map (fun v : RetV => v.2.1)).Nodup := by
      rw [retView_ids]; exact hid.ret_nodup
    have he0 : (slice s.data.outbound.buf e.offset e.len, e.id, e.state) ∈ retView s.data.outbound :=
      List.mem_map.mpr ⟨e, he, rfl⟩
    obtain ⟨f1, f2, f3⟩ := hfits (c := (s.completeFlush (.retained id) now).data.outbound.control)
      (rv := retView (s.completeFlush (.retained id) now).data.outbound)
      (fun x hx => ⟨x, hx, rfl⟩) (fun v hv => by
        rw [hretv] at hv
        obtain ⟨u, hu, rfl⟩ := List.mem_map.mp hv
        refine ⟨u, hu, ?_⟩
        unfold setRet; split <;> rfl)
    refine ⟨⟨ht.clean, ht.noPing, ht.ctlCap, ⟨f1, f2, f3⟩, by rw [hids]; exact ht.small,
      by rw [hdef]; exact ht.deficit, by rw [hmq]; exact ht.maxq,
      (by rw [inflight_completeFlush, hsq, hmq]; exact ht.quotaEq)⟩, ?_, ?_, ?_, rfl, rfl⟩
    · unfold owed
      rw [hretv, hrel, setRet_eq, map_update_same (fun v : RetV => v.2.1) id
        (fun v : RetV => (v.1, v.2.1, SendState.sent)) wgt _ (fun _ => rfl)]
    · rw [pending_def, pending_def, hctl, hretv, hrv, setRet_eq]
      have := countP_update (fun v : RetV => v.2.1) id (fun v : RetV => (v.1, v.2.1, SendState.sent)) unsentRet
        (retView s.data.outbound) hnd _ he0 heid
      have h1 : unsentRet (slice s.data.outbound.buf e.offset e.len, e.id, e.state) = true := by
        simp [unsentRet, hst]
      have h2 : unsentRet ((fun v : RetV => (v.1, v.2.1, SendState.sent))
          (slice s.data.outbound.buf e.offset e.len, e.id, e.state)) = false := by simp [unsentRet]
      rw [h1, h2, if_pos rfl, if_neg (by simp)] at this
      dsimp only at this ⊢
      omega
    · unfold expected
      rw [hretv, hrv, setRet_eq]
      congr 1
      apply filterMap_update_same
      intro v hv hk
      have := view_unique_ret hid he hv (hk.trans heid.symm)
      subst this
      simp [ansRet, sentish, hst]

/-! ### Handling an acknowledgement -/

theorem find?_of_unique_key {α} (key : α → Nat) (P : α → Bool) (l : List α) (hn : (l.map key).Nodup)
    (v : α) (hv : v ∈ l) (hP : P v = true) (hkey : ∀ u, P u = true → key u = key v) : l.find? P = some v := by
  cases hf : l.find? P with
  | none => exact absurd hP (by simpa using List.find?_eq_none.mp hf v hv)
  | some u =>
    have hu := List.mem_of_find?_eq_some hf
    have hPu := List.find?_some hf
    have h1 := find?_unique key (key v) l hn v hv rfl
    have h2 := find?_unique key (key v) l hn u hu (hkey u hPu)
    rw [h1] at h2; rw [Option.some.inj h2]

/-- `ack_packet` for an answer the broker owes: the packet leaves the queue, and with it its answer
from what the broker owes and its weight from what is still to come. -/
theorem ack_ret (o : Outbound) (hid : o.IdInv) (har : o.ArenaInv) (k : AckKind) (id : Nat) (v : RetV)
    (hv : v ∈ retView o) (hvid : v.2.1 = id) (hk : k.acknowledges (hd v.1) = true) :
    (o.ackPacket id k).2 = true ∧ (o.ackPacket id k).1.release = o.release ∧
    (o.ackPacket id k).1.control = o.control ∧
    ((retView o).filterMap ansRet).Perm ((ansRet v).toList ++ (retView (o.ackPacket id k).1).filterMap ansRet) ∧
    ((retView o).map wgt).sum = wgt v + ((retView (o.ackPacket id k).1).map wgt).sum ∧
    (retView (o.ackPacket id k).1).countP unsentRet ≤ (retView o).countP unsentRet ∧
    (retView (o.ackPacket id k).1).Sublist (retView o) := by
  obtain ⟨h1, h2, h3, h4⟩ := retView_ackPacket o id k har
  have hP : (fun u : RetV => u.2.1 == id && k.acknowledges (hd u.1)) v = true := by simp [hvid, hk]
  have hany : (retView o).any (fun u : RetV => u.2.1 == id && k.acknowledges (hd u.1)) = true :=
    List.any_eq_true.mpr ⟨v, hv, hP⟩
  have hnd : ((retView o).map (fun u : RetV => u.2.1)).Nodup := by rw [retView_ids]; exact hid.ret_nodup
  have hfind := find?_of_unique_key (fun u : RetV => u.2.1)
    (fun u : RetV => u.2.1 == id && k.acknowledges (hd u.1)) (retView o) hnd v hv hP (fun u hu => by
    have hu' : (u.2.1 == id && k.acknowledges (hd u.1)) = true := hu
    simp only [Bool.and_eq_true, beq_iff_eq] at hu'
    show u.2.1 = v.2.1
    rw [hu'.1, hvid])
  rw [hany, if_pos rfl] at h2
  refine ⟨by rw [h1, hany], h3, h4, ?_, ?_, ?_, ?_⟩
  · rw [h2]; exact filterMap_removeFirst_perm _ ansRet _ v hfind
  · rw [h2]; exact sum_removeFirst _ wgt _ v hfind
  · rw [h2]; exact countP_removeFirst_le _ _ _
  · rw [h2]; exact removeFirst_sublist _ _

theorem usedIds_views (o : Outbound) : o.usedIds = (retView o).map (·.2.1) ++ (relView o).map (·.1) := by
  rw [retView_ids, relView_ids]; rfl

theorem ansHeader_cases {h id : Nat} {p : Spec.ServerPacket} (hp : ansHeader h id = some p) :
    (AckKind.pubAck.acknowledges h = true ∧ p = .ack .pubAck id .none) ∨
    (AckKind.pubRec.acknowledges h = true ∧ p = .ack .pubRec id .none) ∨
    (AckKind.subAck.acknowledges h = true ∧ AckKind.pubRec.acknowledges h = false ∧ p = .subAck id [] [0]) ∨
    (AckKind.unsubAck.acknowledges h = true ∧ AckKind.pubRec.acknowledges h = false ∧ p = .unsubAck id [] [0]) := by
  unfold ansHeader at hp
  split at hp
  · rename_i h1; exact .inl ⟨h1, (Option.some.inj hp).symm⟩
  · split at hp
    · rename_i h2; exact .inr (.inl ⟨h2, (Option.some.inj hp).symm⟩)
    · rename_i h2
      split at hp
      · rename_i h3; exact .inr (.inr (.inl ⟨h3, by simpa using h2, (Option.some.inj hp).symm⟩))
      · split at hp
        · rename_i h4; exact .inr (.inr (.inr ⟨h4, by simpa using h2, (Option.some.inj hp).symm⟩))
        · cases hp

theorem pubAck_not_pubRec {h : Nat} (h1 : AckKind.pubAck.acknowledges h = true) : AckKind.pubRec.acknowledges h = false := by
  simp only [AckKind.acknowledges, Bool.and_eq_true, beq_iff_eq] at h1 ⊢
  simp only [Bool.and_eq_false_iff, beq_eq_false_iff_ne, ne_eq]
  right; omega

/-- What handling an owed acknowledgement does. -/
structure AckEff (d : SessionData) (r : Runtime) (d' : SessionData) (r' : Runtime) (p : Spec.ServerPacket) : Prop where
  gen : d'.generation = d.generation
  mps : r'.maximumPacketSize = r.maximumPacketSize
  deficit : r'.deficit = r.deficit
  maxq : r'.maxSendQuota = r.maxSendQuota
  nextPing : r'.nextPing = r.nextPing
  pingTimeout : r'.pingTimeout = r.pingTimeout
  control : d'.outbound.control = d.outbound.control
  exp : (expected d'.outbound).Perm ((expected d.outbound).erase p)
  owed : owed d'.outbound + 1 = owed d.outbound
  pend : pending d'.outbound ≤ pending d.outbound + 1
  ret : (retView d'.outbound).Sublist (retView d.outbound)
  ids : ∀ id ∈ d'.outbound.usedIds, id ∈ d.outbound.usedIds
  quota : r.maxSendQuota ≤ maxInflight → r.sendQuota + d.outbound.inflightPublishes = r.maxSendQuota →
    r'.sendQuota + d'.outbound.inflightPublishes = r'.maxSendQuota

theorem perm_erase_of_cons {α} [DecidableEq α] {a : α} {l l' : List α} (h : l.Perm (a :: l')) : l'.Perm (l.erase a) := by
  have := h.erase a
  rw [List.erase_cons_head] at this
  exact this.symm

theorem quotaInc_same (r : Runtime) :
    (quotaInc r).maximumPacketSize = r.maximumPacketSize ∧ (quotaInc r).deficit = r.deficit ∧
    (quotaInc r).maxSendQuota = r.maxSendQuota ∧ (quotaInc r).nextPing = r.nextPing ∧
    (quotaInc r).pingTimeout = r.pingTimeout := ⟨rfl, rfl, rfl, rfl, rfl⟩

/-- Giving one unit of send quota back when an exchange ends keeps the books balanced. -/
theorem quotaInc_balance (r : Runtime) (n n' : Nat) (hm : r.maxSendQuota ≤ maxInflight)
    (h : r.sendQuota + n = r.maxSendQuota) (hn : n' + 1 = n) :
    (quotaInc r).sendQuota + n' = (quotaInc r).maxSendQuota := by
  have h8 : maxInflight = 8 := rfl
  simp only [quotaInc]
  omega

/-- The common part of PUBACK, SUBACK and UNSUBACK: `ack_packet` finds the packet and removes it. -/
theorem ackEff_ret (d : SessionData) (r r' : Runtime) (hid : d.outbound.IdInv) (har : d.outbound.ArenaInv)
    (k : AckKind) (id : Nat) (v : RetV) (hv : v ∈ retView d.outbound) (hvid : v.2.1 = id)
    (hk : k.acknowledges (hd v.1) = true) (hw : wgt v = 1) (p : Spec.ServerPacket) (hans : ansRet v = some p)
    (hr : r'.maximumPacketSize = r.maximumPacketSize ∧ r'.deficit = r.deficit ∧
      r'.maxSendQuota = r.maxSendQuota ∧ r'.nextPing = r.nextPing ∧ r'.pingTimeout = r.pingTimeout)
    (hquota : r.maxSendQuota ≤ maxInflight → r.sendQuota + d.outbound.inflightPublishes = r.maxSendQuota →
      r'.sendQuota + (d.outbound.ackPacket id k).1.inflightPublishes = r'.maxSendQuota) :
    (d.outbound.ackPacket id k).2 = true ∧
    AckEff d r { d with outbound := (d.outbound.ackPacket id k).1 } r' p := by
  obtain ⟨h1, h2, h3, h4, h5, h6, h7⟩ := ack_ret d.outbound hid har k id v hv hvid hk
  refine ⟨h1, ⟨rfl, hr.1, hr.2.1, hr.2.2.1, hr.2.2.2.1, hr.2.2.2.2, h3, ?_, ?_, ?_, h7, ?_, hquota⟩⟩
  · apply perm_erase_of_cons
    unfold expected
    have hrv : relView (d.outbound.ackPacket id k).1 = relView d.outbound := by unfold relView; rw [h2]
    show ((retView d.outbound).filterMap ansRet ++ (relView d.outbound).filterMap ansRel).Perm
      (p :: ((retView (d.outbound.ackPacket id k).1).filterMap ansRet ++ (relView (d.outbound.ackPacket id k).1).filterMap ansRel))
    rw [hrv]
    rw [hans] at h4
    exact (List.Perm.append_right _ h4)
  · show owed (d.outbound.ackPacket id k).1 + 1 = owed d.outbound
    unfold owed; rw [h5, hw, h2]; omega
  · show pending (d.outbound.ackPacket id k).1 ≤ pending d.outbound + 1
    have hrv : relView (d.outbound.ackPacket id k).1 = relView d.outbound := by unfold relView; rw [h2]
    rw [pending_def, pending_def, h3, hrv]; omega
  · intro x hx
    have hrv : relView (d.outbound.ackPacket id k).1 = relView d.outbound := by unfold relView; rw [h2]
    show x ∈ d.outbound.usedIds
    have hx' : x ∈ (d.outbound.ackPacket id k).1.usedIds := hx
    rw [usedIds_views] at hx' ⊢
    rw [hrv] at hx'
    rcases List.mem_append.mp hx' with h | h
    · exact List.mem_append_left _ ((h7.map _).subset h)
    · exact List.mem_append_right _ h

/-- `queue_release` when there is room. -/
def relPush (o : Outbound) (id pser : Nat) : Outbound :=
  { o with release := o.release ++ [{ id := id, rc := RC_Success, state := .write 0, rser := o.nextRser, pser := pser }],
           nextRser := o.nextRser + 1 }

/-- `ack_release` when the PUBREL is there. -/
def relDrop (o : Outbound) (id : Nat) : Outbound :=
  { o with release := removeFirst (fun e => e.id == id) o.release }

theorem firstFailure_zero : firstFailure [0] = none := by decide

theorem reasonSuccess_none : reasonSuccess (Spec.Tail.image .none).rc = true := by decide

theorem ansRet_some {v : RetV} {p : Spec.ServerPacket} (h : ansRet v = some p) :
    sentish v.2.2 = true ∧ ansHeader (hd v.1) v.2.1 = some p := by
  unfold ansRet at h
  split at h
  · exact ⟨by assumption, h⟩
  · cases h

theorem ansRel_some {v : RelV} {p : Spec.ServerPacket} (h : ansRel v = some p) :
    sentish v.2 = true ∧ p = .ack .pubComp v.1 .none := by
  unfold ansRel at h
  split at h
  · exact ⟨by assumption, (Option.some.inj h).symm⟩
  · cases h

/-- A retained QoS 2 PUBLISH counts as a publish in flight. -/
theorem inflight_of_pubRec (o : Outbound) (har : o.ArenaInv) (e : RetainedPacket) (he : e ∈ o.retained)
    (hk : AckKind.pubRec.acknowledges (hd (slice o.buf e.offset e.len)) = true) :
    o.release.length + 1 ≤ o.inflightPublishes := by
  rw [← headerAt_eq_hd o e.offset e.len (har.pos e he)] at hk
  rw [inflight_def]
  have : 0 < ((o.retained.map (·.offset)).filter (pubAt o.buf)).length := by
    apply List.length_pos_of_mem (a := e.offset)
    apply List.mem_filter.mpr
    refine ⟨List.mem_map_of_mem he, ?_⟩
    unfold Outbound.headerAt at hk
    unfold pubAt
    cases hb : o.buf[e.offset]? with
    | none => rw [hb] at hk; simp [AckKind.acknowledges] at hk
    | some x =>
      rw [hb] at hk
      simp only [AckKind.acknowledges, Bool.and_eq_true, beq_iff_eq] at hk
      simp only [decide_eq_true_eq]
      exact hk.1
  omega

/-- **`handle_packet` on an acknowledgement the broker owes**: it is accepted (`Ok(false)`), the entry
it acknowledges leaves its queue (a PUBREC puts a fresh PUBREL in the release queue), what the broker
owes loses exactly this answer, and one round less is needed. -/
theorem handlePacket_owed (d : SessionData) (r : Runtime) (p : Spec.ServerPacket)
    (hp : p ∈ expected d.outbound) (hid : d.outbound.IdInv) (har : d.outbound.ArenaInv)
    (hfit : r.packetTooLarge 5 = false) (hinfl : d.outbound.inflightPublishes ≤ MAX_PENDING_RELEASE) :
    ∃ d' r', handlePacket d r p.image = (d', r', .ok false) ∧ AckEff d r d' r' p := by
  unfold expected at hp
  rcases List.mem_append.mp hp with hp | hp
  · obtain ⟨v, hv, hans⟩ := List.mem_filterMap.mp hp
    obtain ⟨hsent, hah⟩ := ansRet_some hans
    rcases ansHeader_cases hah with ⟨hk, rfl⟩ | ⟨hk, rfl⟩ | ⟨hk, hnr, rfl⟩ | ⟨hk, hnr, rfl⟩
    · -- PUBACK
      have hw : wgt v = 1 := by unfold wgt; rw [pubAck_not_pubRec hk]; rfl
      obtain ⟨hf, heff⟩ := ackEff_ret d r (quotaInc r) hid har .pubAck v.2.1 v hv rfl hk hw _ hans (quotaInc_same r)
        (fun hm hq => quotaInc_balance r _ _ hm hq (by
          have := (ackPacket_inflight d.outbound v.2.1 .pubAck har (ack_ret d.outbound hid har .pubAck v.2.1 v hv rfl hk).1).1
          simpa using this))
      refine ⟨_, _, ?_, heff⟩
      simp only [Spec.ServerPacket.image, handlePacket, hf, Bool.not_true, Bool.false_eq_true, if_false,
        reasonSuccess_none, if_true]
    · -- PUBREC
      obtain ⟨e, he, rfl⟩ := List.mem_map.mp hv
      obtain ⟨hf, h2, h3, h4, h5, h6, h7⟩ := ack_ret d.outbound hid har .pubRec e.id _ hv rfl hk
      have hw : wgt (slice d.outbound.buf e.offset e.len, e.id, e.state) = 2 := by unfold wgt; rw [hk]; rfl
      have hroom := inflight_of_pubRec d.outbound har e he hk
      obtain ⟨bs, hbs, hbl⟩ := encodePubrel_len e.id RC_Success
      have hcs : checkSize r (encodePubrel e.id RC_Success) = .ok () := by
        unfold checkSize; rw [hbs]; simp only [hbl, hfit, Bool.false_eq_true, if_false]
      have hq : (d.outbound.ackPacket e.id .pubRec).1.queueRelease e.id RC_Success
          (d.outbound.ackedSer e.id .pubRec) = some (relPush (d.outbound.ackPacket e.id .pubRec).1 e.id
            (d.outbound.ackedSer e.id .pubRec)) := by
        have hlt : ¬ ((d.outbound.ackPacket e.id .pubRec).1.release.length ≥ MAX_PENDING_RELEASE) := by
          rw [h2]; omega
        unfold Outbound.queueRelease
        rw [if_neg hlt]
        rfl
      refine ⟨{ d with outbound := relPush (d.outbound.ackPacket e.id .pubRec).1 e.id (d.outbound.ackedSer e.id .pubRec) },
        r, ?_, ⟨rfl, rfl, rfl, rfl, rfl, rfl, h3, ?_, ?_, ?_, h7, ?_, ?_⟩⟩
      · simp only [Spec.ServerPacket.image, handlePacket, hf, if_true, reasonSuccess_none, Bool.not_true,
          Bool.false_eq_true, if_false, hcs, hq]
      · apply perm_erase_of_cons
        have hrv : relView (relPush (d.outbound.ackPacket e.id .pubRec).1 e.id (d.outbound.ackedSer e.id .pubRec)) =
            relView d.outbound ++ [(e.id, .write 0)] := by
          simp only [relView, relPush, h2, List.map_append, List.map_cons, List.map_nil]
        show ((retView d.outbound).filterMap ansRet ++ (relView d.outbound).filterMap ansRel).Perm
          (_ :: ((retView (d.outbound.ackPacket e.id .pubRec).1).filterMap ansRet ++
            (relView (relPush (d.outbound.ackPacket e.id .pubRec).1 e.id (d.outbound.ackedSer e.id .pubRec))).filterMap ansRel))
        rw [hrv, List.filterMap_append]
        have : [(e.id, SendState.write 0)].filterMap ansRel = [] := by simp [ansRel, sentish]
        rw [this, List.append_nil]
        rw [hans] at h4
        exact List.Perm.append_right _ h4
      · show owed (relPush (d.outbound.ackPacket e.id .pubRec).1 e.id (d.outbound.ackedSer e.id .pubRec)) + 1 = owed d.outbound
        unfold owed
        have h8 : retView (relPush (d.outbound.ackPacket e.id .pubRec).1 e.id (d.outbound.ackedSer e.id .pubRec)) =
            retView (d.outbound.ackPacket e.id .pubRec).1 := rfl
        have h9 : (relPush (d.outbound.ackPacket e.id .pubRec).1 e.id (d.outbound.ackedSer e.id .pubRec)).release.length =
            d.outbound.release.length + 1 := by simp [relPush, h2]
        rw [h8, h9, h5, hw]; omega
      · show pending (relPush (d.outbound.ackPacket e.id .pubRec).1 e.id (d.outbound.ackedSer e.id .pubRec)) ≤ pending d.outbound + 1
        have hrv : relView (relPush (d.outbound.ackPacket e.id .pubRec).1 e.id (d.outbound.ackedSer e.id .pubRec)) =
            relView d.outbound ++ [(e.id, .write 0)] := by
          simp only [relView, relPush, h2, List.map_append, List.map_cons, List.map_nil]
        have h8 : retView (relPush (d.outbound.ackPacket e.id .pubRec).1 e.id (d.outbound.ackedSer e.id .pubRec)) =
            retView (d.outbound.ackPacket e.id .pubRec).1 := rfl
        have hc : (relPush (d.outbound.ackPacket e.id .pubRec).1 e.id (d.outbound.ackedSer e.id .pubRec)).control =
            d.outbound.control := h3
        rw [pending_def, pending_def, hc, hrv, h8, List.countP_append]
        have : [(e.id, SendState.write 0)].countP unsentRel = 1 := by simp [unsentRel]
        omega
      · intro x hx
        have hx' : x ∈ (relPush (d.outbound.ackPacket e.id .pubRec).1 e.id (d.outbound.ackedSer e.id .pubRec)).usedIds := hx
        have hrv : relView (relPush (d.outbound.ackPacket e.id .pubRec).1 e.id (d.outbound.ackedSer e.id .pubRec)) =
            relView d.outbound ++ [(e.id, .write 0)] := by
          simp only [relView, relPush, h2, List.map_append, List.map_cons, List.map_nil]
        have h8 : retView (relPush (d.outbound.ackPacket e.id .pubRec).1 e.id (d.outbound.ackedSer e.id .pubRec)) =
            retView (d.outbound.ackPacket e.id .pubRec).1 := rfl
        show x ∈ d.outbound.usedIds
        rw [usedIds_views] at hx' ⊢
        rw [hrv, h8] at hx'
        rcases List.mem_append.mp hx' with h | h
        · exact List.mem_append_left _ ((h7.map _).subset h)
        · simp only [List.map_append, List.map_cons, List.map_nil, List.mem_append, List.mem_singleton] at h
          rcases h with h | h
          · exact List.mem_append_right _ h
          · subst h
            exact List.mem_append_left _ (List.mem_map_of_mem (f := fun v : RetV => v.2.1) hv)
      · intro _ hqe
        show r.sendQuota + (relPush (d.outbound.ackPacket e.id .pubRec).1 e.id (d.outbound.ackedSer e.id .pubRec)).inflightPublishes = _
        rw [queueRelease_inflight hq]
        have := (ackPacket_inflight d.outbound e.id .pubRec har hf).1
        simp only [or_true, if_true] at this
        omega
    · -- SUBACK
      have hw : wgt v = 1 := by unfold wgt; rw [hnr]; rfl
      obtain ⟨hf, heff⟩ := ackEff_ret d r r hid har .subAck v.2.1 v hv rfl hk hw _ hans ⟨rfl, rfl, rfl, rfl, rfl⟩
        (fun _ hq => by
          have := (ackPacket_inflight d.outbound v.2.1 .subAck har (ack_ret d.outbound hid har .subAck v.2.1 v hv rfl hk).1).1
          simp at this; rw [this]; exact hq)
      refine ⟨_, _, ?_, heff⟩
      simp only [Spec.ServerPacket.image, handlePacket, hf, Bool.not_true, Bool.false_eq_true, if_false,
        firstFailure_zero]
    · -- UNSUBACK
      have hw : wgt v = 1 := by unfold wgt; rw [hnr]; rfl
      obtain ⟨hf, heff⟩ := ackEff_ret d r r hid har .unsubAck v.2.1 v hv rfl hk hw _ hans ⟨rfl, rfl, rfl, rfl, rfl⟩
        (fun _ hq => by
          have := (ackPacket_inflight d.outbound v.2.1 .unsubAck har (ack_ret d.outbound hid har .unsubAck v.2.1 v hv rfl hk).1).1
          simp at this; rw [this]; exact hq)
      refine ⟨_, _, ?_, heff⟩
      simp only [Spec.ServerPacket.image, handlePacket, hf, Bool.not_true, Bool.false_eq_true, if_false,
        firstFailure_zero]
  · -- PUBCOMP
    obtain ⟨u, hu, hans⟩ := List.mem_filterMap.mp hp
    obtain ⟨hsent, rfl⟩ := ansRel_some hans
    obtain ⟨e, he, rfl⟩ := List.mem_map.mp hu
    have hany : d.outbound.release.any (fun x => x.id == e.id) = true :=
      List.any_eq_true.mpr ⟨e, he, by simp⟩
    have hack : d.outbound.ackRelease e.id = (relDrop d.outbound e.id, true) := by
      unfold Outbound.ackRelease; rw [if_pos hany]; rfl
    have hrv : relView (relDrop d.outbound e.id) = removeFirst (fun v : RelV => v.1 == e.id) (relView d.outbound) := by
      unfold relView relDrop
      exact removeFirst_map (fun x : PendingRelease => (x.id, x.state)) _ (fun v : RelV => v.1 == e.id) _ (fun _ _ => rfl)
    have hnd : ((relView d.outbound).map (fun v : RelV => v.1)).Nodup := by rw [relView_ids]; exact hid.rel_nodup
    have hfind := find?_of_unique_key (fun v : RelV => v.1) (fun v : RelV => v.1 == e.id) (relView d.outbound) hnd
      (e.id, e.state) hu (by simp) (fun v hv => by simpa using hv)
    have hretv : retView (relDrop d.outbound e.id) = retView d.outbound := rfl
    refine ⟨{ d with outbound := relDrop d.outbound e.id }, quotaInc r, ?_,
      ⟨rfl, rfl, rfl, rfl, rfl, rfl, rfl, ?_, ?_, ?_, by rw [hretv]; exact List.Sublist.refl _, ?_, ?_⟩⟩
    · simp only [Spec.ServerPacket.image, handlePacket, hack, Bool.not_true, Bool.false_eq_true, if_false,
        reasonSuccess_none, if_true]
    · apply perm_erase_of_cons
      show ((retView d.outbound).filterMap ansRet ++ (relView d.outbound).filterMap ansRel).Perm
        (_ :: ((retView (relDrop d.outbound e.id)).filterMap ansRet ++ (relView (relDrop d.outbound e.id)).filterMap ansRel))
      rw [hretv, hrv]
      have := filterMap_removeFirst_perm (fun v : RelV => v.1 == e.id) ansRel _ _ hfind
      rw [hans] at this
      exact (List.Perm.append_left _ this).trans (by
        simp only [Option.toList_some, List.singleton_append]
        exact List.perm_middle)
    · show owed (relDrop d.outbound e.id) + 1 = owed d.outbound
      unfold owed
      rw [hretv]
      have := removeFirst_length_of_mem (fun x : PendingRelease => x.id == e.id) d.outbound.release ⟨e, he, by simp⟩
      show _ + (removeFirst (fun x : PendingRelease => x.id == e.id) d.outbound.release).length + 1 = _
      omega
    · show pending (relDrop d.outbound e.id) ≤ pending d.outbound + 1
      rw [pending_def, pending_def, hretv, hrv]
      have := countP_removeFirst_le (fun v : RelV => v.1 == e.id) unsentRel (relView d.outbound)
      have hc : (relDrop d.outbound e.id).control = d.outbound.control := rfl
      rw [hc]; omega
    · intro x hx
      have hx' : x ∈ (relDrop d.outbound e.id).usedIds := hx
      show x ∈ d.outbound.usedIds
      rw [usedIds_views] at hx' ⊢
      rw [hretv, hrv] at hx'
      rcases List.mem_append.mp hx' with h | h
      · exact List.mem_append_left _ h
      · exact List.mem_append_right _ (((removeFirst_sublist _ _).map _).subset h)
    · intro hm hqe
      refine quotaInc_balance r _ _ hm hqe ?_
      have := ackRelease_inflight d.outbound e.id
      rw [hack] at this
      simpa using this


/-- Every retained packet is of a kind the broker answers: QoS 1 or QoS 2 PUBLISH, SUBSCRIBE, UNSUBSCRIBE. -/
def KnownKinds (o : Outbound) : Prop := ∀ v ∈ retView o, (ansHeader (hd v.1) v.2.1).isSome = true

theorem handle_proj (s : Session) (P : Recv) :
    (s.handle P).1.data = (handlePacket s.data s.rt P).1 ∧ (s.handle P).1.rt = (handlePacket s.data s.rt P).2.1 ∧
    (s.handle P).2 = (handlePacket s.data s.rt P).2.2 ∧ (s.handle P).1.reader = s.reader := by
  unfold Session.handle
  exact ⟨rfl, rfl, rfl, rfl⟩

theorem took_data (s : Session) (pkt : Bytes) : (took s pkt).data = s.data ∧ (took s pkt).rt = s.rt := ⟨rfl, rfl⟩

/-- **Handling an owed acknowledgement, on the session.** -/
theorem received_effect (s : Session) (pkt : Bytes) (p : Spec.ServerPacket) (hp : p ∈ expected s.data.outbound)
    (hid : s.data.outbound.IdInv) (har : s.data.outbound.ArenaInv) (ht : Tidy s) (hq : quotaOk s)
    (hk : KnownKinds s.data.outbound) (now : Nat) (hc : KaCalm s.rt now) :
    ((took s pkt).handle p.image).2 = .ok false ∧
    Tidy ((took s pkt).handle p.image).1 ∧ KnownKinds ((took s pkt).handle p.image).1.data.outbound ∧
    KaCalm ((took s pkt).handle p.image).1.rt now ∧
    owed ((took s pkt).handle p.image).1.data.outbound + 1 = owed s.data.outbound ∧
    pending ((took s pkt).handle p.image).1.data.outbound ≤ pending s.data.outbound + 1 ∧
    (expected ((took s pkt).handle p.image).1.data.outbound).Perm ((expected s.data.outbound).erase p) ∧
    ((took s pkt).handle p.image).1.reader = (took s pkt).reader ∧
    ((took s pkt).handle p.image).1.data.generation = s.data.generation := by
  have hinfl : s.data.outbound.inflightPublishes ≤ MAX_PENDING_RELEASE := by
    rcases hq with h | h
    · rw [ht.deficit] at h; cases h
    · have := ht.maxq
      have h8 : maxInflight = 8 := rfl
      have h8' : MAX_PENDING_RELEASE = 8 := rfl
      omega
  obtain ⟨d', r', hh, eff⟩ := handlePacket_owed s.data s.rt p hp hid har ht.fits.pubrel hinfl
  obtain ⟨hd1, hd2, hd3, hd4⟩ := handle_proj (took s pkt) p.image
  have hdata : ((took s pkt).handle p.image).1.data = d' := by rw [hd1]; show (handlePacket s.data s.rt p.image).1 = d'; rw [hh]
  have hrt : ((took s pkt).handle p.image).1.rt = r' := by rw [hd2]; show (handlePacket s.data s.rt p.image).2.1 = r'; rw [hh]
  have hres : ((took s pkt).handle p.image).2 = .ok false := by rw [hd3]; show (handlePacket s.data s.rt p.image).2.2 = _; rw [hh]
  refine ⟨hres, ⟨?_, ?_, ?_, ⟨?_, ?_, ?_⟩, ?_, ?_, ?_, ?_⟩, ?_, ?_, ?_, ?_, ?_, hd4, ?_⟩
  · rw [hdata, eff.control]; exact ht.clean
  · rw [hdata, eff.control]; exact ht.noPing
  · rw [hdata, eff.control]; exact ht.ctlCap
  · rw [hdata, hrt, eff.control]
    intro e he
    obtain ⟨bs, h1, h2⟩ := ht.fits.control e he
    exact ⟨bs, h1, by rw [tooLarge_congr eff.mps]; exact h2⟩
  · rw [hrt, tooLarge_congr eff.mps]; exact ht.fits.pubrel
  · rw [hdata, hrt]
    intro v hv
    rw [tooLarge_congr eff.mps]; exact ht.fits.retained v (eff.ret.subset hv)
  · rw [hdata]
    intro id hid'
    exact ht.small id (eff.ids id hid')
  · rw [hrt, eff.deficit]; exact ht.deficit
  · rw [hrt, eff.maxq]; exact ht.maxq
  · rw [hrt, hdata]; exact eff.quota ht.maxq ht.quotaEq
  · rw [hdata]
    intro v hv
    exact hk v (eff.ret.subset hv)
  · rw [hrt]
    unfold KaCalm
    rw [eff.nextPing, eff.pingTimeout]
    exact hc
  · rw [hdata]; exact eff.owed
  · rw [hdata]; exact eff.pend
  · rw [hdata]; exact eff.exp
  · rw [hdata]; exact eff.gen

theorem retView_bytes_len (o : Outbound) (har : o.ArenaInv) (e : RetainedPacket) (he : e ∈ o.retained) :
    (slice o.buf e.offset e.len).length = e.len :=
  slice_length _ _ _ (by have := har.ends e he; have := har.used_le; omega)

/-- **The step `next_step` hands out can be performed**: its packet is within the size limit, so
`perform_outbound_step` goes to its write (of an entry that is not completely written) or to its flush
(of an entry in `Flush`). -/
theorem prepare_ok (W : World) (st : Outbound.Step) (hn : W.sess.data.outbound.nextStep = some st)
    (hf : Fits W.sess) (har : W.sess.data.outbound.ArenaInv) :
    (∃ pkt bytes wr len, prepareStep W st = .write pkt bytes wr len ∧ len ≤ wr + (bytes.drop wr).length ∧
      WriteState W.sess pkt) ∨
    (∃ pkt, prepareStep W st = .flush pkt ∧ FlushState W.sess pkt) := by
  have hso := nextStep_stepOf _ st hn
  cases hso with
  | control e he hs =>
    cases hst : e.state with
    | sent => exact absurd hst hs
    | flush => exact .inr ⟨.control e.action, by simp [prepareStep], ⟨e, he, rfl⟩⟩
    | write n =>
      obtain ⟨bs, h1, h2⟩ := hf.control e he
      refine .inl ⟨.control e.action, bs, n, bs.length, ?_, by simp; omega, ⟨e, he, rfl⟩⟩
      simp [prepareStep, h1, h2]
  | release e he hs =>
    cases hst : e.state with
    | sent => exact absurd hst hs
    | flush => exact .inr ⟨.release e.id, by simp [prepareStep], ⟨e, he, rfl, hst⟩⟩
    | write n =>
      obtain ⟨bs, h1, h2⟩ := encodePubrel_len e.id e.rc
      refine .inl ⟨.release e.id, bs, n, bs.length, ?_, by simp; omega, ⟨e, he, rfl, by rw [hst]; rfl⟩⟩
      simp [prepareStep, h1, h2, hf.pubrel]
  | retained e he hs =>
    cases hst : e.state with
    | sent => exact absurd hst hs
    | flush => exact .inr ⟨.retained e.id, by simp [prepareStep], ⟨e, he, rfl, hst⟩⟩
    | write n =>
      have hlen := retView_bytes_len _ har e he
      have hfit := hf.retained (slice W.sess.data.outbound.buf e.offset e.len, e.id, e.state)
        (List.mem_map.mpr ⟨e, he, rfl⟩)
      simp only [hlen] at hfit
      refine .inl ⟨.retained e.id, W.sess.data.outbound.retainedPacket e.offset e.len, n, e.len, ?_, ?_,
        ⟨e, he, rfl, by rw [hst]; rfl⟩⟩
      · simp [prepareStep, hfit]
      · simp only [Outbound.retainedPacket, List.length_drop, hlen]; omega

/-- Nothing to send, nothing owed: the queues are empty. -/
theorem quiescent_of (o : Outbound) (hn : o.nextStep = none) (he : expected o = [])
    (hclean : ∀ e ∈ o.control, e.state ≠ .sent) (hk : KnownKinds o) : o.isQuiescent = true := by
  obtain ⟨h1, h2, h3⟩ := nextStep_none_sent o hn
  unfold expected at he
  obtain ⟨he1, he2⟩ := List.append_eq_nil_iff.mp he
  have hc : o.control = [] := by
    cases hcl : o.control with
    | nil => rfl
    | cons x xs => exact absurd (h1 x (by rw [hcl]; simp)) (hclean x (by rw [hcl]; simp))
  have hr : o.retained = [] := by
    cases hcl : o.retained with
    | nil => rfl
    | cons x xs =>
      exfalso
      have hx : x ∈ o.retained := by rw [hcl]; simp
      have hv : (slice o.buf x.offset x.len, x.id, x.state) ∈ retView o := List.mem_map.mpr ⟨x, hx, rfl⟩
      have hsome := hk _ hv
      have : ansRet (slice o.buf x.offset x.len, x.id, x.state) ≠ none := by
        simp only [ansRet, h3 x hx, sentish, if_true]
        intro h0; rw [h0] at hsome; cases hsome
      cases ha : ansRet (slice o.buf x.offset x.len, x.id, x.state) with
      | none => exact this ha
      | some a =>
        have : a ∈ (retView o).filterMap ansRet := List.mem_filterMap.mpr ⟨_, hv, ha⟩
        rw [he1] at this; cases this
  have hl : o.release = [] := by
    cases hcl : o.release with
    | nil => rfl
    | cons x xs =>
      exfalso
      have hx : x ∈ o.release := by rw [hcl]; simp
      have hv : (x.id, x.state) ∈ relView o := List.mem_map.mpr ⟨x, hx, rfl⟩
      have : (Spec.ServerPacket.ack .pubComp x.id .none) ∈ (relView o).filterMap ansRel :=
        List.mem_filterMap.mpr ⟨_, hv, by simp [ansRel, h2 x hx, sentish]⟩
      rw [he2] at this; cases this
  simp [Outbound.isQuiescent, Outbound.hasPendingState, hc, hr, hl]

theorem knownKinds_written (s : Session) (pkt : Flushed) (w len : Nat) (hlen : len ≤ w)
    (hid : s.data.outbound.IdInv) (hk : KnownKinds s.data.outbound) :
    KnownKinds (s.setWritten pkt w len).data.outbound := by
  have haw := afterWrite_full w len hlen
  cases pkt with
  | control a => exact hk
  | release id => exact hk
  | retained id =>
    have hout : (s.setWritten (.retained id) w len).data.outbound = retSet s.data.outbound id .flush := by
      simp only [Session.setWritten, Session.setOutbound, Outbound.setRetainedWritten, haw, retSet]
    intro v hv
    rw [hout, show retView (retSet s.data.outbound id .flush) = (retView s.data.outbound).map (setRet id .flush) from
      retView_modify _ id .flush hid.ret_nodup] at hv
    obtain ⟨u, hu, rfl⟩ := List.mem_map.mp hv
    have := hk u hu
    unfold setRet; split <;> exact this

theorem knownKinds_flushed (s : Session) (pkt : Flushed) (now : Nat)
    (hid : s.data.outbound.IdInv) (hk : KnownKinds s.data.outbound) :
    KnownKinds (s.completeFlush pkt now).data.outbound := by
  cases pkt with
  | control a => exact hk
  | release id => exact hk
  | retained id =>
    have hout : (s.completeFlush (.retained id) now).data.outbound = retSet s.data.outbound id .sent := rfl
    intro v hv
    rw [hout, show retView (retSet s.data.outbound id .sent) = (retView s.data.outbound).map (setRet id .sent) from
      retView_modify _ id .sent hid.ret_nodup] at hv
    obtain ⟨u, hu, rfl⟩ := List.mem_map.mp hv
    have := hk u hu
    unfold setRet; split <;> exact this

theorem pending_zero_of_nextStep_none (o : Outbound) (hn : o.nextStep = none)
    (hclean : ∀ e ∈ o.control, e.state ≠ .sent) : pending o = 0 := by
  obtain ⟨h1, h2, h3⟩ := nextStep_none_sent o hn
  have hc : o.control = [] := by
    cases hcl : o.control with
    | nil => rfl
    | cons x xs => exact absurd (h1 x (by rw [hcl]; simp)) (hclean x (by rw [hcl]; simp))
  rw [pending_def, hc]
  have a1 : (relView o).countP unsentRel = 0 := by
    apply List.countP_eq_zero.mpr
    intro v hv
    obtain ⟨e, he, rfl⟩ := List.mem_map.mp hv
    simp [unsentRel, h2 e he]
  have a2 : (retView o).countP unsentRet = 0 := by
    apply List.countP_eq_zero.mpr
    intro v hv
    obtain ⟨e, he, rfl⟩ := List.mem_map.mp hv
    simp [unsentRet, h3 e he]
  simp [a1, a2]

theorem nextStep_none_of_pending_zero (o : Outbound) (h : pending o = 0) : o.nextStep = none := by
  rw [pending_def] at h
  have hc : o.control = [] := List.eq_nil_of_length_eq_zero (by omega)
  have a1 : (relView o).countP unsentRel = 0 := by omega
  have a2 : (retView o).countP unsentRet = 0 := by omega
  have hrel : ∀ e ∈ o.release, e.state = .sent := by
    intro e he
    have := List.countP_eq_zero.mp a1 (e.id, e.state) (List.mem_map.mpr ⟨e, he, rfl⟩)
    simpa [unsentRel] using this
  have hret : ∀ e ∈ o.retained, e.state = .sent := by
    intro e he
    have := List.countP_eq_zero.mp a2 (slice o.buf e.offset e.len, e.id, e.state) (List.mem_map.mpr ⟨e, he, rfl⟩)
    simpa [unsentRet] using this
  have key : ∀ b, o.nextStepPrio b = none := by
    intro b
    unfold Outbound.nextStepPrio
    rw [hc]
    simp only [List.find?_nil]
    have f1 : o.release.find? (fun e => e.state.matchesPriority b) = none := by
      apply List.find?_eq_none.mpr
      intro e he
      rw [hrel e he, Fuel.matchesPriority_not_sent]
      simp
    have f2 : o.retained.find? (fun e => e.state.matchesPriority b) = none := by
      apply List.find?_eq_none.mpr
      intro e he
      rw [hret e he, Fuel.matchesPriority_not_sent]
      simp
    rw [f1, f2]
  unfold Outbound.nextStep
  rw [key true, key false]

theorem expected_length_le (o : Outbound) : (expected o).length ≤ o.retained.length + o.release.length := by
  unfold expected
  rw [List.length_append]
  have h1 := List.length_filterMap_le ansRet (retView o)
  have h2 := List.length_filterMap_le ansRel (relView o)
  have l1 : (retView o).length = o.retained.length := by simp [retView]
  have l2 : (relView o).length = o.release.length := by simp [relView]
  omega

theorem pending_le (o : Outbound) : pending o ≤ o.control.length + o.release.length + o.retained.length := by
  rw [pending_def]
  have h1 := List.countP_le_length (p := unsentRel) (l := relView o)
  have h2 := List.countP_le_length (p := unsentRet) (l := retView o)
  have l1 : (retView o).length = o.retained.length := by simp [retView]
  have l2 : (relView o).length = o.release.length := by simp [relView]
  omega


end Quiesce
end Minimq
