import Minimq.Proofs.Lift
/-
Lifting for predicates that relate the session to the connection handle and to the program: a relation
`R` between the session and `World.conn` that is preserved by each session primitive (`WClosed`; the
primitives that end or establish the connection change the handle accordingly), where the three `enqueue`
steps are taken with the encoders the operations really use and may rely on a condition `A` on the request
(`AfterFlush`) that every directive of the program satisfies. Such a relation holds after every program
whose directives satisfy `A` (`grun`). The proof architecture is that of `Proofs/Lift.lean` and
`Proofs/WireLift.lean`; what is new is that the invariant carries the condition `A` through the suspended
operation (`World.fut`).
-/
namespace Minimq
open Gen World

/-- The caller of `perform_outbound_step` carries a request that satisfies `A`. -/
def CtxGood (A : AfterFlush → Prop) : StepCtx → Prop
  | .flush k => A k
  | .drive _ _ => True

/-- The suspended operation carries a request that satisfies `A`. -/
def PcGood (A : AfterFlush → Prop) : Pc → Prop
  | .stepWrite ctx _ _ _ _ _ => CtxGood A ctx
  | .stepFlush ctx _ _ => CtxGood A ctx
  | _ => True

/-- The request of a directive satisfies `A`. -/
def DirGood (A : AfterFlush → Prop) : Directive → Prop
  | .publish r => A (.publishPre r)
  | .subscribe r => A (.subPre r)
  | .unsubscribe r => A (.unsubPre r)
  | .disconnect d => A (.discPre d)
  | _ => True

/-- The handle after `handle_disconnect`. -/
def deadConn (c : Option Conn) : Option Conn := c.map fun c => { c with live := false }

/-- `R` is preserved by every session primitive, with the connection handle changing as the operations
change it; the `enqueue` steps are the three the operations perform. -/
structure WClosed (A : AfterFlush → Prop) (R : Session → Option Conn → Prop) : Prop where
  post : ∀ n op, A (.post n op)
  queuePing : ∀ s c now s', R s c → s.queuePing now = .ok s' → R s' c
  completeFlush : ∀ s c pkt now, R s c → R (s.completeFlush pkt now) c
  setWritten : ∀ s c pkt a n, R s c → R (s.setWritten pkt a n) c
  takePkt : ∀ s c, R s c → R s.takePkt.1 c
  handle : ∀ s c p, R s c → R (s.handle p).1 c
  handleDisconnect : ∀ s c, R s c → R s.handleDisconnect (deadConn c)
  activateErr : ∀ s c sp block now e, R s c → (s.activate sp block now).2 = .error e →
    R (s.activate sp block now).1 (deadConn c)
  activateOk : ∀ s c sp block now, R s c → (s.activate sp block now).2 = .ok () →
    R (s.activate sp block now).1 (some { live := true, resumed := sp })
  alloc : ∀ s c, R s c → R s.alloc.1 c
  encodeConnect : ∀ s c p, R s c → R (s.encode (ε := SerErr) (fun cap _ => encodeConnect cap p)).1 c
  encodeAfterAlloc : ∀ {ε : Type} s c (enc : Nat → (Nat → Nat → Bytes) → Except ε (Nat × Bytes)), EncOk enc → R s c →
    R (s.alloc.1.encode enc).1 c
  encodeScratch : ∀ {ε : Type} s c (enc : Nat → (Nat → Nat → Bytes) → Except ε (Nat × Bytes)), EncOk enc → R s c →
    R (s.encode enc).1 c
  enqueueSub : ∀ s c (r : SubReq) off len s3, A (.subPre r) → R s c →
    (s.alloc.1.encode (fun cap _ =>
      encodeWithOffset cap (subscribeChunks s.alloc.2 (.slice r.props) r.topics) MT_Subscribe FLAGS_Subscribe)).2 = .ok (off, len) →
    (s.alloc.1.encode (fun cap _ =>
      encodeWithOffset cap (subscribeChunks s.alloc.2 (.slice r.props) r.topics) MT_Subscribe FLAGS_Subscribe)).1.retain
        s.alloc.2 off len false = some s3 → R s3 c
  enqueueUnsub : ∀ s c (r : UnsubReq) off len s3, A (.unsubPre r) → R s c →
    (s.alloc.1.encode (fun cap _ =>
      encodeWithOffset cap (unsubscribeChunks s.alloc.2 (.slice r.props) r.topics) MT_Unsubscribe FLAGS_Unsubscribe)).2 = .ok (off, len) →
    (s.alloc.1.encode (fun cap _ =>
      encodeWithOffset cap (unsubscribeChunks s.alloc.2 (.slice r.props) r.topics) MT_Unsubscribe FLAGS_Unsubscribe)).1.retain
        s.alloc.2 off len false = some s3 → R s3 c
  enqueuePub : ∀ s c (r : PubReq) (qos : Nat) off len s3, A (.publishPre r) →
    qos = effectiveQos s.rt.maxQos s.downgrade r.qos → 0 < qos → R s c → s.rt.sendQuota ≠ 0 →
    (s.alloc.1.encode (fun cap fill => encodePublishWithOffset cap
      { topic := r.topic, packetId := some s.alloc.2, props := r.props, retain := r.retain, qos := qos, dup := false }
      r.payload fill)).2 = .ok (off, len) →
    (s.alloc.1.encode (fun cap fill => encodePublishWithOffset cap
      { topic := r.topic, packetId := some s.alloc.2, props := r.props, retain := r.retain, qos := qos, dup := false }
      r.payload fill)).1.retain s.alloc.2 off len true = some s3 → R s3 c
  clearPing : ∀ s c, R s c → R s.clearPing c
  noteActivity : ∀ s c now, R s c → R (s.noteActivity now) c
  window : ∀ s c s' n, R s c → s.window = some (s', n) → R s' c
  commit : ∀ s c bytes, R s c → R (s.commit bytes) c
  beginConnect : ∀ s c, R s c → R s.beginConnect c
  setPid : ∀ s c n, 1 ≤ n → n ≤ 65535 → R s c → R (s.setPid n) c
  drop : ∀ s c, R s c → R s none

/-- The invariant on the world: `R` relates session and handle, and the suspended operation is good. -/
def GW (A : AfterFlush → Prop) (R : Session → Option Conn → Prop) (w : World) : Prop :=
  R w.sess w.conn ∧ ∀ pc, w.fut = some pc → PcGood A pc

/-! ### The elementary updates -/

section
variable {A : AfterFlush → Prop} {R : Session → Option Conn → Prop}

theorem GW.frame {w w' : World} (h : GW A R w) (hs : w'.sess = w.sess) (hcn : w'.conn = w.conn)
    (hf : w'.fut = w.fut ∨ w'.fut = none) : GW A R w' := by
  refine ⟨by rw [hs, hcn]; exact h.1, ?_⟩
  intro pc hpc
  rcases hf with hf | hf
  · exact h.2 pc (by rw [← hf]; exact hpc)
  · rw [hf] at hpc; cases hpc

theorem GW.ofNone {w : World} (hr : R w.sess w.conn) (hf : w.fut = none) : GW A R w :=
  ⟨hr, fun pc hpc => by rw [hf] at hpc; cases hpc⟩

theorem GW.emit {w : World} (h : GW A R w) (l : String) : GW A R (w.emit l) := h.frame rfl rfl (.inl rfl)
theorem GW.finish {w : World} (h : GW A R w) (l : String) : GW A R (w.finish l) := h.frame rfl rfl (.inr rfl)
theorem GW.finishErr {w : World} (h : GW A R w) (o : String) (e : Err) : GW A R (w.finishErr o e) :=
  h.frame rfl rfl (.inr rfl)
theorem GW.finishOp {w : World} (h : GW A R w) (n : String) (op : Op) : GW A R (w.finishOp n op) :=
  h.frame rfl rfl (.inr rfl)
theorem GW.suspend {w : World} (h : GW A R w) {pc : Pc} (hpc : PcGood A pc) : GW A R (w.suspend pc) :=
  ⟨h.1, fun pc' hpc' => by
    have : pc = pc' := by simpa [World.suspend] using hpc'
    subst this; exact hpc⟩

/-- Session, handle and suspended operation are the same. -/
def SameCore (w w' : World) : Prop := w'.sess = w.sess ∧ w'.conn = w.conn ∧ w'.fut = w.fut

theorem GW.same {w w' : World} (h : GW A R w) (hs : SameCore w w') : GW A R w' :=
  h.frame hs.1 hs.2.1 (.inl hs.2.2)

theorem ioWrite_core (w : World) (bs : Bytes) : SameCore w (w.ioWrite bs).1 := by
  unfold World.ioWrite
  cases w.slot with
  | none => exact ⟨rfl, rfl, rfl⟩
  | some k =>
    simp only []
    repeat' split
    all_goals exact ⟨rfl, rfl, rfl⟩

theorem ioFlush_core (w : World) : SameCore w (w.ioFlush).1 := by
  unfold World.ioFlush
  cases w.slot with
  | none => exact ⟨rfl, rfl, rfl⟩
  | some k =>
    simp only []
    repeat' split
    all_goals exact ⟨rfl, rfl, rfl⟩

theorem ioRead_core (w : World) (n : Nat) : SameCore w (w.ioRead n).1 := by
  unfold World.ioRead
  cases w.slot with
  | none => exact ⟨rfl, rfl, rfl⟩
  | some k =>
    simp only []
    repeat' split
    all_goals exact ⟨rfl, rfl, rfl⟩

theorem GW.ioWrite' {w w' : World} {bs : Bytes} {r : WriteRes} (h : GW A R w) (heq : w.ioWrite bs = (w', r)) :
    GW A R w' := by
  have := ioWrite_core w bs; rw [heq] at this; exact h.same this
theorem GW.ioFlush' {w w' : World} {r : FlushRes} (h : GW A R w) (heq : w.ioFlush = (w', r)) : GW A R w' := by
  have := ioFlush_core w; rw [heq] at this; exact h.same this
theorem GW.ioRead' {w w' : World} {n : Nat} {r : ReadRes} (h : GW A R w) (heq : w.ioRead n = (w', r)) :
    GW A R w' := by
  have := ioRead_core w n; rw [heq] at this; exact h.same this

theorem foldl_emit_core (ls : List String) (w0 : World) : SameCore w0 (ls.foldl World.emit w0) := by
  induction ls generalizing w0 with
  | nil => exact ⟨rfl, rfl, rfl⟩
  | cons l ls ih =>
    obtain ⟨a, b, c⟩ := ih (w0.emit l)
    exact ⟨a, b, c⟩

theorem GW.deliver {w : World} (h : GW A R w) (n : String) (len : Nat) : GW A R (w.deliver n len) := by
  unfold World.deliver
  simp only []
  have h1 := h.finish s!"ret {n} ok msg"
  split
  · exact h1.same (foldl_emit_core _ _)
  · exact h1.emit _

theorem GW.cancelFut {w : World} (h : GW A R w) : GW A R w.cancelFut := by
  unfold World.cancelFut
  split
  · exact h.frame rfl rfl (.inr rfl)
  · exact h
end

/-! ### The composite updates -/

section
variable {A : AfterFlush → Prop} {R : Session → Option Conn → Prop} (hc : WClosed A R)
include hc

theorem GW.handleDisconnect {w : World} (h : GW A R w) : GW A R w.handleDisconnect :=
  ⟨hc.handleDisconnect _ _ h.1, h.2⟩

theorem GW.setWritten {w : World} (h : GW A R w) (pkt : Flushed) (a c : Nat) : GW A R (w.setWritten pkt a c) :=
  ⟨hc.setWritten _ _ _ _ _ h.1, h.2⟩

theorem GW.completeFlush {w : World} (h : GW A R w) (pkt : Flushed) (now : Nat) : GW A R (w.completeFlush pkt now) :=
  ⟨hc.completeFlush _ _ _ _ h.1, h.2⟩

theorem GW.failStep {w : World} (h : GW A R w) (ctx : StepCtx) (st : Outbound.Step) : GW A R (w.failStep ctx st) := by
  rcases failStep_cases w ctx st with e | e <;> rw [e]
  · exact h
  · exact h.handleDisconnect hc

theorem GW.discFail {w : World} (h : GW A R w) (ctx : StepCtx) : GW A R (w.discFail ctx) := by
  rcases discFail_cases w ctx with ⟨e, _⟩ | ⟨e, _⟩ <;> rw [e]
  · exact h
  · exact h.handleDisconnect hc

theorem GW.maybeQueuePingreq {w w' : World} {now : Nat} (h : GW A R w) (heq : w.maybeQueuePingreq now = .ok w') :
    GW A R w' := by
  unfold World.maybeQueuePingreq at heq
  split at heq
  · simp at heq
  · rename_i s hs
    simp at heq; subst heq
    exact ⟨hc.queuePing _ _ _ _ h.1 hs, h.2⟩

theorem GW.processReceivedPacket {w : World} (h : GW A R w) : GW A R (w.processReceivedPacket).1 := by
  unfold World.processReceivedPacket
  split
  · exact h
  · simp only []
    have h1 : GW A R { w with sess := w.sess.takePkt.1 } := ⟨hc.takePkt _ _ h.1, h.2⟩
    split
    · exact h1.handleDisconnect hc
    · rename_i len pkt hres
      have h2 : GW A R { ({ w with sess := w.sess.takePkt.1 } : World) with sess := (w.sess.takePkt.1.handle pkt).1 } :=
        ⟨hc.handle _ _ pkt h1.1, h1.2⟩
      split <;> first | exact h2 | exact h2.handleDisconnect hc

theorem GW.activate {w : World} (h : GW A R w) (sp : Bool) (block : Bytes) : GW A R (World.activate w sp block) := by
  unfold World.activate
  split
  · rename_i s e heq
    have := hc.activateErr w.sess w.conn sp block w.now e h.1 (by rw [heq])
    rw [heq] at this
    exact GW.ofNone this rfl
  · rename_i s heq
    have := hc.activateOk w.sess w.conn sp block w.now h.1 (by rw [heq])
    rw [heq] at this
    exact GW.ofNone this rfl

theorem GW.connectGotPacket {w : World} (h : GW A R w) : GW A R (World.connectGotPacket w) := by
  unfold World.connectGotPacket
  simp only []
  have h1 : GW A R { w with sess := w.sess.takePkt.1 } := ⟨hc.takePkt _ _ h.1, h.2⟩
  split
  · exact (h1.handleDisconnect hc).finishErr _ _
  · split
    · exact h1.finishErr _ _
    · exact h1.activate hc _ _
  · exact (h1.handleDisconnect hc).finishErr _ _
  · exact (h1.handleDisconnect hc).finishErr _ _

/-! ### The thirteen machine functions -/

/-- The statement proved for all thirteen mutually recursive machine functions at once. -/
def GMachine (A : AfterFlush → Prop) (R : Session → Option Conn → Prop) (fuel : Nat) : Prop :=
  (∀ w k, A k → GW A R w → GW A R (flushLoop fuel w k)) ∧
  (∀ w ctx step now, CtxGood A ctx → GW A R w → GW A R (performStep fuel w ctx step now)) ∧
  (∀ w ctx pkt bytes wr len now, CtxGood A ctx → GW A R w → GW A R (doStepWrite fuel w ctx pkt bytes wr len now)) ∧
  (∀ w ctx pkt now, CtxGood A ctx → GW A R w → GW A R (doStepFlush fuel w ctx pkt now)) ∧
  (∀ w ctx adv, CtxGood A ctx → GW A R w → GW A R (stepReturned fuel w ctx adv)) ∧
  (∀ w k, A k → GW A R w → GW A R (afterFlush fuel w k)) ∧
  (∀ w which bytes, GW A R w → GW A R (doLocalWrite fuel w which bytes)) ∧
  (∀ w which, GW A R w → GW A R (doLocalFlush fuel w which)) ∧
  (∀ w, GW A R w → GW A R (doConnRead fuel w)) ∧
  (∀ w o adv, GW A R w → GW A R (driveLoop fuel w o adv)) ∧
  (∀ w o adv, GW A R w → GW A R (driveAfterService fuel w o adv)) ∧
  (∀ w o, GW A R w → GW A R (driveEnter fuel w o)) ∧
  (∀ w o d y, GW A R w → GW A R (doWaitRead fuel w o d y))

omit hc in
theorem gmachine_zero : GMachine A R 0 := by
  refine ⟨?_, ?_, ?_, ?_, ?_, ?_, ?_, ?_, ?_, ?_, ?_, ?_, ?_⟩ <;> intros <;>
    simp only [flushLoop, performStep, doStepWrite, doStepFlush, stepReturned, afterFlush, doLocalWrite, doLocalFlush,
      doConnRead, driveLoop, driveAfterService, driveEnter, doWaitRead] <;> apply GW.emit <;> assumption

omit hc in
theorem gstep_stepReturned (fuel : Nat) (ih : GMachine A R fuel) :
    ∀ w ctx adv, CtxGood A ctx → GW A R w → GW A R (stepReturned (fuel + 1) w ctx adv) := by
  intro w ctx adv hctx h
  obtain ⟨i1, _, _, _, _, _, _, _, _, _, i11, _, _⟩ := ih
  cases ctx with
  | flush k => unfold stepReturned; exact i1 _ _ hctx h
  | drive a o => unfold stepReturned; exact i11 _ _ _ h

theorem gstep_doStepFlush (fuel : Nat) (ih : GMachine A R fuel) :
    ∀ w ctx pkt now, CtxGood A ctx → GW A R w → GW A R (doStepFlush (fuel + 1) w ctx pkt now) := by
  intro w ctx pkt now hctx h
  obtain ⟨_, _, _, _, i5, _⟩ := ih
  simp only [doStepFlush]
  split
  · rename_i w' heq; exact (h.ioFlush' heq).suspend hctx
  · rename_i w' k heq; exact ((h.ioFlush' heq).handleDisconnect hc).finishErr _ _
  · rename_i w' heq; exact i5 _ _ _ hctx ((h.ioFlush' heq).completeFlush hc _ _)

theorem gstep_doStepWrite (fuel : Nat) (ih : GMachine A R fuel) :
    ∀ w ctx pkt bytes wr len now, CtxGood A ctx → GW A R w →
      GW A R (doStepWrite (fuel + 1) w ctx pkt bytes wr len now) := by
  intro w ctx pkt bytes wr len now hctx h
  obtain ⟨_, _, _, i4, i5, _⟩ := ih
  simp only [doStepWrite]
  split
  · rename_i w' heq; exact (h.ioWrite' heq).suspend hctx
  · rename_i w' heq; exact ((h.ioWrite' heq).discFail hc _).finishErr _ _
  · rename_i w' k heq; exact ((h.ioWrite' heq).handleDisconnect hc).finishErr _ _
  · rename_i w' count heq
    have h2 : GW A R (w'.setWritten pkt (wr + count) len) := (h.ioWrite' heq).setWritten hc _ _ _
    split
    · exact i5 _ _ _ hctx h2
    · exact i4 _ _ _ _ hctx h2

theorem gstep_performStep (fuel : Nat) (ih : GMachine A R fuel) :
    ∀ w ctx step now, CtxGood A ctx → GW A R w → GW A R (performStep (fuel + 1) w ctx step now) := by
  intro w ctx step now hctx h
  obtain ⟨_, _, i3, i4, i5, _⟩ := ih
  simp only [performStep]
  split
  · exact (h.failStep hc _ _).finishErr _ _
  · exact i5 _ _ _ hctx h
  · split
    · exact (h.discFail hc _).finishErr _ _
    · exact i4 _ _ _ _ hctx h
  · split
    · exact (h.discFail hc _).finishErr _ _
    · exact i3 _ _ _ _ _ _ _ hctx h

theorem gstep_flushLoop (fuel : Nat) (ih : GMachine A R fuel) :
    ∀ w k, A k → GW A R w → GW A R (flushLoop (fuel + 1) w k) := by
  intro w k hk h
  obtain ⟨_, i2, _, _, _, i6, _⟩ := ih
  simp only [flushLoop]
  split
  · exact (h.discFail hc _).finishErr _ _
  · rename_i w' heq
    have h' := h.maybeQueuePingreq hc heq
    split
    · exact i6 _ _ hk h'
    · exact i2 _ _ _ _ hk h'

omit hc in
theorem gstep_driveEnter (fuel : Nat) (ih : GMachine A R fuel) :
    ∀ w o, GW A R w → GW A R (driveEnter (fuel + 1) w o) := by
  intro w o h
  obtain ⟨_, _, _, _, _, _, _, _, _, i10, _⟩ := ih
  simp only [driveEnter]
  split
  · exact h.finishErr _ _
  · exact i10 _ _ _ h

theorem gstep_doLocalFlush (fuel : Nat) (ih : GMachine A R fuel) :
    ∀ w which, GW A R w → GW A R (doLocalFlush (fuel + 1) w which) := by
  intro w which h
  obtain ⟨_, _, _, _, _, _, _, _, i9, _⟩ := ih
  simp only [doLocalFlush]
  split
  · rename_i w' heq
    exact (h.ioFlush' heq).suspend (by repeat' split
                                       all_goals exact True.intro)
  · rename_i w' k heq
    have hs := h.ioFlush' heq
    split
    · exact hs.finishErr _ _
    · split <;> exact (hs.handleDisconnect hc).finishErr _ _
  · rename_i w' heq
    have hs := h.ioFlush' heq
    split
    · exact i9 _ ⟨hc.clearPing _ _ hs.1, hs.2⟩
    · split
      · exact GW.finish (w := { w' with sess := w'.sess.noteActivity w'.now }) ⟨hc.noteActivity _ _ _ hs.1, hs.2⟩ _
      · exact (hs.handleDisconnect hc).finish _

theorem gstep_doLocalWrite (fuel : Nat) (ih : GMachine A R fuel) :
    ∀ w which bytes, GW A R w → GW A R (doLocalWrite (fuel + 1) w which bytes) := by
  intro w which bytes h
  obtain ⟨_, _, _, _, _, _, i7, i8, _⟩ := ih
  simp only [doLocalWrite]
  split
  · apply i8
    rcases discDone_cases w which with ⟨e, _⟩ | ⟨e, _⟩ <;> rw [e]
    · exact h
    · exact h.handleDisconnect hc
  · split
    · rename_i w' heq
      exact (h.ioWrite' heq).suspend (by repeat' split
                                         all_goals exact True.intro)
    · rename_i w' n heq; exact i7 _ _ _ (h.ioWrite' heq)
    · rename_i w' heq
      have hs := h.ioWrite' heq
      split
      · exact hs.finishErr _ _
      · split <;> exact (hs.handleDisconnect hc).finishErr _ _
    · rename_i w' k heq
      have hs := h.ioWrite' heq
      split
      · exact hs.finishErr _ _
      · split <;> exact (hs.handleDisconnect hc).finishErr _ _

theorem gstep_doConnRead (fuel : Nat) (ih : GMachine A R fuel) :
    ∀ w, GW A R w → GW A R (doConnRead (fuel + 1) w) := by
  intro w h
  obtain ⟨_, _, _, _, _, _, _, _, i9, _⟩ := ih
  simp only [doConnRead]
  split
  · exact h.connectGotPacket hc
  · split
    · exact (h.handleDisconnect hc).finishErr _ _
    · rename_i s1 window hw
      have h1 : GW A R { w with sess := s1 } := ⟨hc.window _ _ _ _ h.1 hw, h.2⟩
      split
      · exact h1.connectGotPacket hc
      · split
        · rename_i w' heq; exact (h1.ioRead' heq).suspend True.intro
        · rename_i w' heq; exact ((h1.ioRead' heq).handleDisconnect hc).finishErr _ _
        · rename_i w' k heq; exact ((h1.ioRead' heq).handleDisconnect hc).finishErr _ _
        · rename_i w' bytes heq
          have h2 := h1.ioRead' heq
          exact i9 _ ⟨hc.commit _ _ _ h2.1, h2.2⟩

theorem gstep_doWaitRead (fuel : Nat) (ih : GMachine A R fuel) :
    ∀ w o d y, GW A R w → GW A R (doWaitRead (fuel + 1) w o d y) := by
  intro w o d y h
  obtain ⟨_, _, _, _, _, _, _, _, _, _, _, i12, i13⟩ := ih
  simp only [doWaitRead]
  split
  · exact i12 _ _ h
  · split
    · exact (h.handleDisconnect hc).finishErr _ _
    · rename_i s1 window hw
      have h1 : GW A R { w with sess := s1 } := ⟨hc.window _ _ _ _ h.1 hw, h.2⟩
      split
      · exact i12 _ _ h1
      · split
        · rename_i w' heq; exact ((h1.ioRead' heq).handleDisconnect hc).finishErr _ _
        · rename_i w' k heq; exact ((h1.ioRead' heq).handleDisconnect hc).finishErr _ _
        · rename_i w' bytes heq
          have h2 := h1.ioRead' heq
          exact i13 _ _ _ _ ⟨hc.commit _ _ _ h2.1, h2.2⟩
        · rename_i w' heq
          have hs := h1.ioRead' heq
          split
          · exact hs.suspend True.intro
          · split
            · split
              · exact i12 _ _ hs
              · split
                · exact GW.suspend (GW.emit (hs.frame (w' := { w' with wakes := w'.wakes + 1 }) rfl rfl (.inl rfl)) _) True.intro
                · exact i13 _ _ _ _ (hs.frame (w' := { w' with wakes := w'.wakes + 1 }) rfl rfl (.inl rfl))
            · exact hs.suspend True.intro

theorem gstep_driveLoop (fuel : Nat) (ih : GMachine A R fuel) :
    ∀ w o adv, GW A R w → GW A R (driveLoop (fuel + 1) w o adv) := by
  intro w o adv h
  obtain ⟨_, i2, _, _, _, _, _, _, _, i10, i11, _, _⟩ := ih
  simp only [driveLoop]
  split
  · have h1 := h.processReceivedPacket hc
    split
    · rename_i w' e heq; rw [heq] at h1; exact h1.finishErr _ _
    · rename_i w' len heq; rw [heq] at h1; exact h1.deliver _ _
    · rename_i w' heq; rw [heq] at h1; exact i10 _ _ _ h1
  · repeat' split
    all_goals first
      | exact (h.handleDisconnect hc).finishErr _ _
      | exact h.finishErr _ _
      | exact i11 _ _ _ (h.maybeQueuePingreq hc (by assumption))
      | exact i2 _ _ _ _ True.intro (h.maybeQueuePingreq hc (by assumption))

theorem gstep_driveAfterService (fuel : Nat) (ih : GMachine A R fuel) :
    ∀ w o adv, GW A R w → GW A R (driveAfterService (fuel + 1) w o adv) := by
  intro w o adv h
  obtain ⟨_, _, _, _, _, _, _, _, _, i10, _, i12, i13⟩ := ih
  unfold driveAfterService
  split
  · have h1 := h.processReceivedPacket hc
    split
    · rename_i w' e heq; rw [heq] at h1; exact h1.finishErr _ _
    · rename_i w' len heq; rw [heq] at h1; exact h1.deliver _ _
    · rename_i w' heq; rw [heq] at h1; exact i10 _ _ _ h1
  · split
    · split
      · split
        · exact h.finish _
        · exact h.finish _
        · exact i12 _ _ h
      · split
        · exact h.finish _
        · exact i13 _ _ _ _ h
    · exact i10 _ _ _ h

theorem gstep_afterFlush (fuel : Nat) (ih : GMachine A R fuel) :
    ∀ w k, A k → GW A R w → GW A R (afterFlush (fuel + 1) w k) := by
  intro w k hk h
  obtain ⟨i1, _, _, _, _, _, i7, _⟩ := ih
  unfold afterFlush
  cases k with
  | post name op => exact h.finishOp _ _
  | discPre d =>
    simp only []
    repeat' split
    all_goals first
      | exact h.finishErr _ _
      | exact i7 _ _ _ h
  | subPre r =>
    simp only []
    split
    · exact h.finishErr _ _
    · have ha := hc.encodeAfterAlloc w.sess w.conn (fun cap _ =>
        encodeWithOffset cap (subscribeChunks w.sess.alloc.2 (.slice r.props) r.topics) MT_Subscribe FLAGS_Subscribe)
        (EncOk_encodeWithOffset _ _ _) h.1
      split
      · exact GW.ofNone ha rfl
      · split
        · exact GW.ofNone ha rfl
        · split
          · exact GW.ofNone ha rfl
          · rename_i s3 hs3
            rename_i _ off len hres _ _
            exact i1 _ _ (hc.post _ _) ⟨hc.enqueueSub w.sess w.conn r off len s3 hk h.1 hres hs3, h.2⟩
  | unsubPre r =>
    simp only []
    split
    · exact h.finishErr _ _
    · have ha := hc.encodeAfterAlloc w.sess w.conn (fun cap _ =>
        encodeWithOffset cap (unsubscribeChunks w.sess.alloc.2 (.slice r.props) r.topics) MT_Unsubscribe FLAGS_Unsubscribe)
        (EncOk_encodeWithOffset _ _ _) h.1
      split
      · exact GW.ofNone ha rfl
      · split
        · exact GW.ofNone ha rfl
        · split
          · exact GW.ofNone ha rfl
          · rename_i s3 hs3
            rename_i _ off len hres _ _
            exact i1 _ _ (hc.post _ _) ⟨hc.enqueueUnsub w.sess w.conn r off len s3 hk h.1 hres hs3, h.2⟩
  | publishPre r =>
    simp only []
    split
    · exact h.finishErr _ _
    · generalize hq : effectiveQos w.sess.rt.maxQos w.sess.downgrade r.qos = qos
      split
      · -- QoS > 0
        rename_i hpos
        have h1 := hc.alloc w.sess w.conn h.1
        split
        · exact GW.ofNone h1 rfl
        · split
          · exact GW.ofNone h1 rfl
          · rename_i hcan
            have ha := hc.encodeAfterAlloc w.sess w.conn (fun cap fill => encodePublishWithOffset cap
              { topic := r.topic, packetId := some w.sess.alloc.2, props := r.props, retain := r.retain,
                qos := qos, dup := false } r.payload fill) (EncOk_encodePublish _ _) h.1
            split
            · exact GW.ofNone ha rfl
            · split
              · exact GW.ofNone ha rfl
              · split
                · exact GW.ofNone ha rfl
                · rename_i s3 hs3
                  rename_i _ off len hres _ _
                  refine i1 _ _ (hc.post _ _)
                    ⟨hc.enqueuePub w.sess w.conn r qos off len s3 hk hq.symm hpos h.1 ?_ hres hs3, h.2⟩
                  have hq0 : qos ≠ 0 := by omega
                  have hcp : canPublishS w.sess.alloc.1.data w.sess.alloc.1.rt qos = true := by
                    simp at hcan; exact hcan.2
                  simp only [canPublishS, hq0, if_false, Bool.and_eq_true, ne_eq, decide_eq_true_eq] at hcp
                  have hrt : w.sess.alloc.1.rt = w.sess.rt := rfl
                  rw [hrt] at hcp
                  exact hcp.1
      · -- QoS 0
        split
        · exact h.finishErr _ _
        · have ha := hc.encodeScratch w.sess w.conn (fun cap fill => encodePublishWithOffset cap
            { topic := r.topic, packetId := none, props := r.props, retain := r.retain, qos := 0, dup := false } r.payload fill)
            (EncOk_encodePublish _ _) h.1
          split
          · exact GW.ofNone ha rfl
          · split
            · exact GW.ofNone ha rfl
            · exact i7 _ _ _ ⟨ha, h.2⟩

theorem gmachine : ∀ fuel, GMachine A R fuel := by
  intro fuel
  induction fuel with
  | zero => exact gmachine_zero
  | succ fuel ih =>
    exact ⟨gstep_flushLoop hc fuel ih, gstep_performStep hc fuel ih, gstep_doStepWrite hc fuel ih,
      gstep_doStepFlush hc fuel ih, gstep_stepReturned fuel ih, gstep_afterFlush hc fuel ih,
      gstep_doLocalWrite hc fuel ih, gstep_doLocalFlush hc fuel ih, gstep_doConnRead hc fuel ih,
      gstep_driveLoop hc fuel ih, gstep_driveAfterService hc fuel ih, gstep_driveEnter fuel ih,
      gstep_doWaitRead hc fuel ih⟩

/-! ### `poll`, the directives, programs -/

theorem gpoll (w : World) (h : GW A R w) : GW A R (World.poll w) := by
  obtain ⟨_, _, i3, i4, _, _, i7, i8, i9, _, _, _, i13⟩ := gmachine hc pollFuel
  unfold World.poll
  simp only []
  have h0 : GW A R { w with wakes := 0, lastIoStarved := false } := h.frame rfl rfl (.inl rfl)
  split
  · exact h0
  · rename_i pc hpc
    have hg : PcGood A pc := h.2 pc hpc
    have h1 : GW A R { ({ w with wakes := 0, lastIoStarved := false } : World) with fut := none } :=
      h0.frame rfl rfl (.inr rfl)
    split
    · exact i3 _ _ _ _ _ _ _ hg h1
    · exact i4 _ _ _ _ hg h1
    · exact i7 _ _ _ h1
    · exact i8 _ _ h1
    · exact i9 _ h1
    · exact i7 _ _ _ h1
    · exact i8 _ _ h1
    · exact i7 _ _ _ h1
    · exact i8 _ _ h1
    · exact i13 _ _ _ _ h1

theorem ggoLoop (n : Nat) (w : World) (h : GW A R w) : GW A R (World.goLoop n w) := by
  induction n generalizing w with
  | zero => exact h.emit _
  | succ n ih =>
    simp only [World.goLoop]
    have h1 : GW A R { (World.poll { w with slot := some 250 }) with slot := none } :=
      (gpoll hc _ (h.frame (w' := { w with slot := some 250 }) rfl rfl (.inl rfl))).frame rfl rfl (.inl rfl)
    repeat' split
    all_goals first
      | exact h1
      | exact ih _ h1

theorem GW.dropConn {w : World} (h : GW A R w) : GW A R w.dropConn := by
  unfold World.dropConn
  simp only []
  have h1 := h.cancelFut
  split
  · exact ⟨hc.drop _ _ h1.1, h1.2⟩
  · exact h1

theorem gstartConnect (w : World) (h : GW A R w) : GW A R (World.startConnect w) := by
  obtain ⟨_, _, _, _, _, _, i7, _⟩ := gmachine hc pollFuel
  unfold World.startConnect
  simp only []
  have h0 := h.dropConn hc
  have h1 : R (w.dropConn).sess.beginConnect (w.dropConn).conn := hc.beginConnect _ _ h0.1
  have h2 := hc.encodeConnect _ _ (w.dropConn).sess.beginConnect.connectPacket h1
  split
  · exact GW.ofNone h2 rfl
  · exact i7 _ _ _ ⟨h2, h0.2⟩

omit hc in
theorem gstartOp (w : World) (name : String) (body : World → World)
    (hb : ∀ w', GW A R w' → GW A R (body w')) (h : GW A R w) : GW A R (w.startOp name body) := by
  unfold World.startOp
  split
  · exact h.emit _
  · exact hb _ (h.cancelFut.frame rfl rfl (.inl rfl))

/-- **Every directive whose request is good keeps the invariant.** -/
theorem gexec (w : World) (d : Directive) (hd : DirGood A d) (h : GW A R w) : GW A R (w.execDirective d) := by
  obtain ⟨i1, _, _, _, _, _, _, _, _, _, _, i12, _⟩ := gmachine hc pollFuel
  cases d with
  | bad => exact h.emit _
  | connect => exact gstartConnect hc w h
  | publish r =>
    simp only [World.execDirective]
    apply gstartOp w _ _ _ h
    intro w' hw'
    split
    · exact hw'.finishErr _ _
    · exact i1 _ _ hd hw'
  | subscribe r =>
    simp only [World.execDirective]
    apply gstartOp w _ _ _ h
    intro w' hw'
    repeat' split
    all_goals first
      | exact hw'.finishErr _ _
      | exact i1 _ _ hd hw'
  | unsubscribe r =>
    simp only [World.execDirective]
    apply gstartOp w _ _ _ h
    intro w' hw'
    repeat' split
    all_goals first
      | exact hw'.finishErr _ _
      | exact i1 _ _ hd hw'
  | disconnect dd =>
    simp only [World.execDirective]
    apply gstartOp w _ _ _ h
    intro w' hw'
    repeat' split
    all_goals first
      | exact hw'.finishErr _ _
      | exact hw'.finish _
      | exact i1 _ _ hd hw'
  | poll =>
    simp only [World.execDirective]
    exact gstartOp w _ _ (fun w' hw' => i12 _ _ hw') h
  | recv =>
    simp only [World.execDirective]
    exact gstartOp w _ _ (fun w' hw' => i12 _ _ hw') h
  | drive =>
    simp only [World.execDirective]
    exact gstartOp w _ _ (fun w' hw' => i12 _ _ hw') h
  | d n =>
    simp only [World.execDirective]
    split
    · exact h.emit _
    · exact (gpoll hc _ (h.frame (w' := { w with slot := some n }) rfl rfl (.inl rfl))).frame rfl rfl (.inl rfl)
  | go =>
    simp only [World.execDirective]
    split
    · exact h.emit _
    · exact ggoLoop hc _ _ h
  | tick us =>
    simp only [World.execDirective]
    split
    · exact h.emit _
    · have h1 : GW A R { w with now := w.now + us } := h.frame rfl rfl (.inl rfl)
      split
      · exact gpoll hc _ h1
      · exact h1
  | rx bytes =>
    simp only [World.execDirective]
    split
    · exact h.emit _
    · exact h.frame rfl rfl (.inl rfl)
  | cancel => exact h.cancelFut
  | drop => exact h.dropConn hc
  | setpid n =>
    simp only [World.execDirective]
    split
    · exact h.emit _
    · rename_i hn
      simp at hn
      exact ⟨hc.setPid _ _ _ (by omega) (by omega) h.1, h.2⟩
  | decode bs => exact h.emit _

/-- **Every program whose requests are good keeps the invariant.** -/
theorem grun (ds : List Directive) (w : World) (hds : ∀ d ∈ ds, DirGood A d) (h : GW A R w) :
    GW A R (ds.foldl World.execDirective w) := by
  induction ds generalizing w with
  | nil => exact h
  | cons d ds ih =>
    simp only [List.foldl]
    exact ih _ (fun d' hd' => hds d' (by simp [hd'])) (gexec hc w d (hds d (by simp)) h)
end

/-! ### An instance: what an accepted CONNACK establishes holds while the handle is live -/

/-- On a live handle `P` holds of the session. -/
def LiveImp (P : Session → Prop) (s : Session) (c : Option Conn) : Prop :=
  (∃ x, c = some x ∧ x.live = true) → P s

theorem deadConn_not_live (c : Option Conn) : ¬ ∃ x, deadConn c = some x ∧ x.live = true := by
  rintro ⟨x, hx, hl⟩
  cases c with
  | none => cases hx
  | some c0 =>
    simp only [deadConn, Option.map_some, Option.some.injEq] at hx
    subst hx
    cases hl

/-- A predicate that every session primitive preserves and every accepted CONNACK establishes holds
whenever the connection handle is live: the handle becomes live only when a CONNACK is accepted. -/
theorem WClosed.ofLive {P : Session → Prop} (hc : Closed P)
    (hact : ∀ (s : Session) (sp : Bool) (block : Bytes) (now : Nat),
      (s.activate sp block now).2 = .ok () → P (s.activate sp block now).1) :
    WClosed (fun _ => True) (LiveImp P) where
  post := fun _ _ => trivial
  queuePing := fun s _ now s' h hq hl => hc.queuePing s now s' (h hl) hq
  completeFlush := fun s _ pkt now h hl => hc.completeFlush s pkt now (h hl)
  setWritten := fun s _ pkt a n h hl => hc.setWritten s pkt a n (h hl)
  takePkt := fun s _ h hl => hc.takePkt s (h hl)
  handle := fun s _ p h hl => hc.handle s p (h hl)
  handleDisconnect := fun _ c _ hl => absurd hl (deadConn_not_live c)
  activateErr := fun _ c _ _ _ _ _ _ hl => absurd hl (deadConn_not_live c)
  activateOk := fun s _ sp block now _ hok _ => hact s sp block now hok
  alloc := fun s _ h hl => hc.alloc s (h hl)
  encodeConnect := fun s _ p h hl => hc.encodeConnect s p (h hl)
  encodeAfterAlloc := fun s _ enc he h hl => hc.encodeAfterAlloc s enc he (h hl)
  encodeScratch := fun s _ enc he h hl => hc.encodeScratch s enc he (h hl)
  enqueueSub := fun s _ r off len s3 _ h hres hr hl =>
    hc.enqueue s _ off len false s3 _ (EncOk_encodeWithOffset _ _ _) (EncTyp_encodeWithOffset _ _ _ (by decide))
      (by decide) (h hl) (by simp) hres hr
  enqueueUnsub := fun s _ r off len s3 _ h hres hr hl =>
    hc.enqueue s _ off len false s3 _ (EncOk_encodeWithOffset _ _ _) (EncTyp_encodeWithOffset _ _ _ (by decide))
      (by decide) (h hl) (by simp) hres hr
  enqueuePub := fun s _ r qos off len s3 _ _ _ h hq hres hr hl =>
    hc.enqueue s _ off len true s3 _ (EncOk_encodePublish _ _) (EncTyp_encodePublish _ _) (by decide) (h hl)
      (fun _ => hq) hres hr
  clearPing := fun s _ h hl => hc.clearPing s (h hl)
  noteActivity := fun s _ now h hl => hc.noteActivity s now (h hl)
  window := fun s _ s' n h hw hl => hc.window s s' n (h hl) hw
  commit := fun s _ bytes h hl => hc.commit s bytes (h hl)
  beginConnect := fun s _ h hl => hc.beginConnect s (h hl)
  setPid := fun s _ n h1 h2 h hl => hc.setPid s n h1 h2 (h hl)
  drop := fun _ _ _ hl => by obtain ⟨x, hx, _⟩ := hl; cases hx

theorem dirGood_true (d : Directive) : DirGood (fun _ => True) d := by
  cases d <;> exact True.intro

/-- **After every program: if the handle is live, `P` holds of the session** — for every `P` that the
session primitives preserve and an accepted CONNACK establishes. -/
theorem live_run {P : Session → Prop} (hc : Closed P)
    (hact : ∀ (s : Session) (sp : Bool) (block : Bytes) (now : Nat),
      (s.activate sp block now).2 = .ok () → P (s.activate sp block now).1)
    (cfg : Cfg) (ds : List Directive) :
    (ds.foldl World.execDirective { sess := Session.new cfg }).live = true →
      P (ds.foldl World.execDirective { sess := Session.new cfg }).sess := by
  have h0 : GW (fun _ => True) (LiveImp P) ({ sess := Session.new cfg } : World) :=
    ⟨fun hl => (by obtain ⟨x, hx, _⟩ := hl; cases hx), fun pc hpc => (by cases hpc)⟩
  have h := grun (WClosed.ofLive hc hact) ds _ (fun d _ => dirGood_true d) h0
  intro hl
  apply h.1
  unfold World.live at hl
  cases hcn : (ds.foldl World.execDirective { sess := Session.new cfg }).conn with
  | none => rw [hcn] at hl; cases hl
  | some x => rw [hcn] at hl; exact ⟨x, rfl, hl⟩

end Minimq
