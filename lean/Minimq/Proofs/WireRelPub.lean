import Minimq.Proofs.WireLog
import Minimq.Proofs.ReleaseStep
/-
A PUBREL created on the current connection has a transmission of its PUBLISH in the log of this
transport: `drive_packet` handles an inbound packet only when `next_step` has nothing left to do, so when
a PUBREC is handled every retained entry is `Sent`, hence (`PLog.written`) in the log.

"Created on the current connection" is read off the ghost mark `Session.rmark`, the value of the
release-serial counter when the CONNACK of this connection was accepted.
-/
namespace Minimq
open Gen World Outbound

/-- The log contains a transmission of the retained packet with serial `t`, under identifier `id`. -/
def PubLogged (l : List LogEntry) (t id : Nat) : Prop := ∃ f ∈ l, f.tag = .retained t id

theorem PubLogged.mono {l : List LogEntry} {t id : Nat} (h : PubLogged l t id) (f : LogEntry) : PubLogged (l ++ [f]) t id := by
  obtain ⟨g, hg, ht⟩ := h
  exact ⟨g, List.mem_append_left _ hg, ht⟩

/-- Every release entry, and every PUBREL in the log, with a serial from the mark on has a
transmission of its PUBLISH in the log. -/
structure RelPub (s : Session) (l : List LogEntry) : Prop where
  queue : ∀ e ∈ s.data.outbound.release, s.rmark ≤ e.rser → PubLogged l e.pser e.id
  logged : ∀ g ∈ l, ∀ r t id rc, g.tag = .release r t id rc → s.rmark ≤ r → PubLogged l t id

theorem RelPub.same {s s' : Session} {l : List LogEntry} (h : RelPub s l)
    (ht : s'.data.outbound.relTags = s.data.outbound.relTags) (hm : s'.rmark = s.rmark) : RelPub s' l := by
  refine ⟨?_, by rw [hm]; exact h.logged⟩
  intro e' he' hr
  have : e'.tag ∈ s'.data.outbound.relTags := List.mem_map.mpr ⟨e', he', rfl⟩
  rw [ht] at this
  obtain ⟨e, he, htag⟩ := List.mem_map.mp this
  have ht4 : e.rser = e'.rser ∧ e.pser = e'.pser ∧ e.id = e'.id ∧ e.rc = e'.rc := by
    have : e.tag = e'.tag := htag
    simp only [PendingRelease.tag, Prod.mk.injEq] at this
    exact this
  rw [← ht4.2.1, ← ht4.2.2.1]
  exact h.queue e he (by rw [ht4.1, ← hm]; exact hr)

theorem RelPub.same_out {s s' : Session} {l : List LogEntry} (h : RelPub s l)
    (ho : s'.data.outbound = s.data.outbound) (hm : s'.rmark = s.rmark) : RelPub s' l :=
  h.same (by rw [ho]) hm

theorem RelPub.append {s : Session} {l : List LogEntry} (h : RelPub s l) (f : LogEntry)
    (hf : ∀ r t id rc, f.tag = .release r t id rc → s.rmark ≤ r → PubLogged l t id) : RelPub s (l ++ [f]) := by
  refine ⟨fun e he hr => (h.queue e he hr).mono f, ?_⟩
  intro g hg r t id rc ht hr
  rcases List.mem_append.mp hg with hm | hm
  · exact (h.logged g hm r t id rc ht hr).mono f
  · simp only [List.mem_singleton] at hm; subst hm
    exact (hf r t id rc ht hr).mono g

theorem RelPub.append_other {s : Session} {l : List LogEntry} (h : RelPub s l) (f : LogEntry) (hf : f.rser? = none) :
    RelPub s (l ++ [f]) :=
  h.append f (fun r t id rc ht _ => by simp [LogEntry.rser?, ht] at hf)

theorem setWritten_rmark (s : Session) (pkt : Flushed) (a c : Nat) : (s.setWritten pkt a c).rmark = s.rmark := by
  unfold Session.setWritten; cases pkt <;> rfl

theorem completeFlush_rmark (s : Session) (pkt : Flushed) (now : Nat) : (s.completeFlush pkt now).rmark = s.rmark := by
  unfold Session.completeFlush; cases pkt <;> rfl

/-- `set_written` on the current entry. -/
theorem RelPub.setWritten {s : Session} {l : List LogEntry} {step : Outbound.Step} (k : Nat) (h : RelPub s l)
    (hs : s.data.outbound.Slot step) (wr len : Nat) :
    RelPub (s.setWritten step.flushed wr len) l ∧
    RelPub (s.setWritten step.flushed wr len) (l ++ [s.data.outbound.done k step.flushed]) := by
  have h1 : RelPub (s.setWritten step.flushed wr len) l :=
    h.same (by rw [Session.setWritten_outbound]; exact setWritten_relTags _ _ _ _) (setWritten_rmark _ _ _ _)
  refine ⟨h1, ?_⟩
  cases hs with
  | control a st rest hc hrest hrel hret =>
    exact h1.append_other _ (by simp [Outbound.done, Outbound.Step.flushed, LogEntry.rser?])
  | release pre id rc st rs ps post hr hpre hpost hctl hret hsent =>
    simp only [Outbound.Step.flushed]
    rw [done_release (e := ⟨id, rc, st, rs, ps⟩) k hr (fun x hx => (hpre x hx).1)]
    refine h1.append _ ?_
    intro r t i c ht hm
    simp only [relEntry, Tag.release.injEq] at ht
    obtain ⟨rfl, rfl, rfl, rfl⟩ := ht
    rw [setWritten_rmark] at hm
    exact h.queue ⟨id, rc, st, rs, ps⟩ (by rw [hr]; simp) hm
  | retained pre e post hr hpre hpost hctl hrel hsent =>
    exact h1.append_other _ (done_rser_none_of_retained _ _ _)

theorem RelPub.completeFlush {s : Session} {l : List LogEntry} (h : RelPub s l) (pkt : Flushed) (now : Nat) :
    RelPub (s.completeFlush pkt now) l :=
  h.same (by rw [Session.completeFlush_outbound]; exact completeFlush_relTags _ _) (completeFlush_rmark _ _ _)

theorem RelPub.queuePing {s s' : Session} {now : Nat} {l : List LogEntry} (h : RelPub s l) (hq : s.queuePing now = .ok s') :
    RelPub s' l := by
  rcases Session.queuePing_ok hq with rfl | ⟨o, ho, rfl⟩
  · exact h
  · unfold Outbound.queueControl at ho
    split at ho
    · simp at ho
    · simp only [Option.some.injEq] at ho; subst ho
      exact h.same rfl rfl

theorem RelPub.alloc {s : Session} {l : List LogEntry} (h : RelPub s l) : RelPub s.alloc.1 l := by
  rw [Session.alloc_fst]
  exact h.same_out (by show s.data.nextPacketId.1.outbound = _; rw [nextPacketId_outbound]) rfl

theorem RelPub.encode {ε : Type} {s : Session} {l : List LogEntry} (h : RelPub s l)
    (enc : Nat → (Nat → Nat → Bytes) → Except ε (Nat × Bytes)) : RelPub (s.encode enc).1 l := by
  rw [Session.encode_fst]
  exact h.same (RelSame.encodeAt _ enc).tags rfl

theorem RelPub.retain {s s3 : Session} {l : List LogEntry} {id off len : Nat} {isPub : Bool} (h : RelPub s l)
    (hr : s.retain id off len isPub = some s3) : RelPub s3 l := by
  unfold Session.retain at hr
  split at hr
  · simp at hr
  · rename_i o ho
    have := (RelSame.retainPacket ho).tags
    simp only [Option.some.injEq] at hr; subst hr
    split <;> exact h.same this rfl

/-- An inbound packet is handled while nothing is unsent: a release entry created by a PUBREC has its
PUBLISH in the log. -/
theorem RelPub.handle {s : Session} {l : List LogEntry} {k : Nat} (h : RelPub s l) (hlog : s.data.outbound.PLog k l)
    (hidle : s.data.outbound.nextStep = none) (p : Recv) : RelPub (s.handle p).1 l := by
  refine ⟨?_, h.logged⟩
  intro e' he' hr
  rcases (SessStep.handle s p).relStep.2 e' he' with ⟨e, he, htag⟩ | ⟨id, rs, _, hc, rfl, _⟩
  · have ht4 : e.rser = e'.rser ∧ e.pser = e'.pser ∧ e.id = e'.id ∧ e.rc = e'.rc := by
      simp only [PendingRelease.tag, Prod.mk.injEq] at htag
      exact htag
    rw [← ht4.2.1, ← ht4.2.2.1]
    exact h.queue e he (by rw [ht4.1]; exact hr)
  · obtain ⟨_, _, _, l₁, x, l₂, hret, _, hid, _, hser, _⟩ := pubrecCreates_spec hc
    have hx : x ∈ s.data.outbound.retained := by rw [hret]; simp
    have hsent := nextStep_none_retained_sent hidle x hx
    have := hlog.written_entry hx (Or.inl hsent)
    show PubLogged l (s.data.outbound.ackedSer id .pubRec) id
    rw [hser, ← hid]
    exact ⟨_, this, rfl⟩

/-- An accepted CONNACK sets the mark to the counter: nothing has been created on this connection yet. -/
theorem RelPub.activate (s : Session) (sp : Bool) (block : Bytes) (now : Nat) (hok : (s.activate sp block now).2 = .ok ())
    (hrel : (s.activate sp block now).1.data.outbound.RelInv) : RelPub (s.activate sp block now).1 [] := by
  have hb := (activate_ok_iff s sp block now).1 hok
  have he := (activate_eq s sp block now).1 hb
  have hm : (s.activate sp block now).1.rmark = (s.activate sp block now).1.data.outbound.nextRser := by
    rw [he]; rfl
  refine ⟨?_, by intro g hg; simp at hg⟩
  intro e he' hr
  have := hrel.lt e he'
  rw [hm] at hr
  omega

theorem takePkt_rmark (s : Session) : s.takePkt.1.rmark = s.rmark := by
  unfold Session.takePkt; rfl

theorem window_rmark {s s1 : Session} {n : Nat} (h : s.window = some (s1, n)) : s1.rmark = s.rmark := by
  unfold Session.window at h
  split at h
  · simp at h
  · simp only [Option.some.injEq, Prod.mk.injEq] at h; rw [← h.1]

theorem alloc_rmark (s : Session) : s.alloc.1.rmark = s.rmark := by rw [Session.alloc_fst]

end Minimq
