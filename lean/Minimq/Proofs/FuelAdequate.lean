import Minimq.Proofs.FuelStep
/-
Fuel adequacy — part 3: from one step (`run_step`) to whole runs, POLLs, directives and programs.
-/
namespace Minimq
open Gen World
namespace Fuel

theorem Rel.slot_none {w r : World} (h : Rel w r) (hs : w.slot = none) : r.slot = none := by
  rcases h.io with ⟨a, _⟩ | ⟨a, _⟩
  · rw [a, hs]
  · rw [hs] at a; simp at a

theorem Rel.slot_some {w r : World} (h : Rel w r) (hs : r.slot.isSome = true) : w.slot.isSome = true := by
  rcases h.io with ⟨a, _⟩ | ⟨a, _⟩
  · rw [← a]; exact hs
  · exact a

theorem Final.of_edge {c c' : Call} {r : World} (e : Edge c c') (f : Final c' r) : Final c r := by
  refine ⟨e.rel.trans f.rel, fun hs => ?_, f.settled⟩
  rcases e.stuck hs with h | ⟨h1, h2⟩
  · rcases f.stuck h with h' | ⟨h1, h2⟩
    · exact .inl h'
    · exact .inr ⟨e.rel.slot_some h1, h2⟩
  · exact .inr ⟨h1, f.rel.slot_none h2⟩

/-- With fuel at least the rank, more fuel changes nothing, and the run ends in a `Final` world. -/
theorem run_adequate_aux : ∀ (n : Nat) (c : Call), c.rank ≤ n →
    (∀ f, n ≤ f → c.run f = c.run n) ∧ Final c (c.run n)
  | 0, c, h => absurd h (by have := c.rank_pos; omega)
  | n + 1, c, h => by
    cases run_step c with
    | done r fin hr =>
      refine ⟨fun f hf => ?_, by rw [hr n]; exact fin⟩
      obtain ⟨f', rfl⟩ : ∃ f', f = f' + 1 := ⟨f - 1, by omega⟩
      rw [hr f', hr n]
    | call c' e hc =>
      have hr' : c'.rank ≤ n := by have := e.rank; omega
      obtain ⟨ih1, ih2⟩ := run_adequate_aux n c' hr'
      refine ⟨fun f hf => ?_, by rw [hc n]; exact Final.of_edge e ih2⟩
      obtain ⟨f', rfl⟩ : ∃ f', f = f' + 1 := ⟨f - 1, by omega⟩
      rw [hc f', hc n]; exact ih1 f' (by omega)

theorem run_stable (c : Call) (f : Nat) (hf : c.rank ≤ f) : c.run f = c.run c.rank :=
  (run_adequate_aux c.rank c (Nat.le_refl _)).1 f hf

theorem run_final (c : Call) (f : Nat) (hf : c.rank ≤ f) : Final c (c.run f) := by
  rw [run_stable c f hf]; exact (run_adequate_aux c.rank c (Nat.le_refl _)).2

/-- The uniform bound. -/
def fuelBound : Nat := 354

theorem fuelBound_le_pollFuel : fuelBound ≤ pollFuel := by decide

theorem run_uniform (c : Call) (f : Nat) (hf : fuelBound ≤ f) : c.run f = c.run fuelBound := by
  have h := c.rank_le
  rw [run_stable c f (by unfold fuelBound at hf; omega), run_stable c fuelBound h]

theorem run_pollFuel_final (c : Call) : Final c (c.run pollFuel) :=
  run_final c pollFuel (Nat.le_trans c.rank_le fuelBound_le_pollFuel)

/-! ### POLL -/

/-- The call a POLL resumes. -/
def resumeCall (w : World) : Pc → Call
  | .stepWrite ctx pkt bytes written len now => .DSW w ctx pkt bytes written len now
  | .stepFlush ctx pkt now => .DSF w ctx pkt now
  | .connWrite bytes => .DLW w 0 bytes
  | .connFlush => .DLF w 0
  | .connRead => .DCR w
  | .q0Write bytes => .DLW w 1 bytes
  | .q0Flush => .DLF w 1
  | .discWrite bytes => .DLW w 2 bytes
  | .discFlush => .DLF w 2
  | .waitRead outer deadline yielded => .DWR w outer deadline yielded

@[simp] theorem resumeCall_world (w : World) (pc : Pc) : (resumeCall w pc).world = w := by
  cases pc <;> rfl

/-- `World.poll` with the fuel as a parameter (`poll = pollWith pollFuel`). -/
def _root_.Minimq.World.pollWith (fuel : Nat) (w : World) : World :=
  match w.fut with
  | none => { w with wakes := 0, lastIoStarved := false }
  | some pc => (resumeCall { w with wakes := 0, lastIoStarved := false, fut := none } pc).run fuel

theorem poll_eq_pollWith (w : World) : World.poll w = World.pollWith pollFuel w := by
  unfold World.poll World.pollWith
  simp only []
  cases w.fut with
  | none => rfl
  | some pc => cases pc <;> rfl

theorem pollWith_uniform (w : World) (f : Nat) (hf : fuelBound ≤ f) : World.pollWith f w = World.pollWith fuelBound w := by
  unfold World.pollWith
  cases w.fut with
  | none => rfl
  | some pc => exact run_uniform _ f hf

/-- What a whole POLL does to trace, decision and transports. -/
theorem poll_rel (w : World) : Rel w (World.poll w) := by
  rw [poll_eq_pollWith]
  unfold World.pollWith
  cases hf : w.fut with
  | none => exact (Rel.refl w).of_eq rfl rfl rfl
  | some pc =>
    have := (run_pollFuel_final (resumeCall { w with wakes := 0, lastIoStarved := false, fut := none } pc)).rel
    rw [resumeCall_world] at this
    exact this.of_eq_left rfl rfl rfl

/-! ### The trace never shows `fuel` -/

/-- From `w` to `r` the trace only grew, and not by the line `"fuel"`. -/
def Quiet (w r : World) : Prop := ∃ new, r.out = new ++ w.out ∧ ∀ l ∈ new, l ≠ "fuel"

theorem Rel.toQuiet {w r : World} (h : Rel w r) : Quiet w r := h.quiet

theorem Quiet.refl (w : World) : Quiet w w := ⟨[], rfl, by simp⟩

theorem Quiet.trans {a b c : World} (h1 : Quiet a b) (h2 : Quiet b c) : Quiet a c := by
  obtain ⟨n1, e1, f1⟩ := h1
  obtain ⟨n2, e2, f2⟩ := h2
  refine ⟨n2 ++ n1, by rw [e2, e1, List.append_assoc], ?_⟩
  intro l hl
  rcases List.mem_append.mp hl with h | h
  · exact f2 l h
  · exact f1 l h

theorem Quiet.of_eq {w a b : World} (h : Quiet w a) (ho : b.out = a.out) : Quiet w b := by
  unfold Quiet; rw [ho]; exact h

theorem Quiet.of_eq_left {a a' b : World} (h : Quiet a b) (ho : a'.out = a.out) : Quiet a' b := by
  unfold Quiet; rw [ho]; exact h

theorem Quiet.emit {w a : World} (h : Quiet w a) (l : String) (hl : l ≠ "fuel") : Quiet w (a.emit l) := by
  refine h.trans ⟨[l], rfl, ?_⟩
  intro x hx; simp only [List.mem_singleton] at hx; subst hx; exact hl

theorem Quiet.finish {w a : World} (h : Quiet w a) (line : String) : Quiet w (a.finish line) :=
  (h.emit (s!"{line} @{a.now}") (by apply ne_fuel_of_space; simp [toString])).of_eq rfl

theorem Quiet.finishErr {w a : World} (h : Quiet w a) (op : String) (e : Err) : Quiet w (a.finishErr op e) :=
  (h.finish _).of_eq rfl

/-- Any call started with `pollFuel`. -/
theorem quiet_call (c : Call) : Quiet c.world (c.run pollFuel) := (run_pollFuel_final c).rel.toQuiet

theorem quiet_poll (w : World) : Quiet w (World.poll w) := (poll_rel w).toQuiet

theorem quiet_cancelFut (w : World) : Quiet w w.cancelFut := by
  unfold World.cancelFut
  split
  · exact ((Quiet.refl w).emit "cancel" (by decide)).of_eq rfl
  · exact Quiet.refl w

theorem quiet_dropConn (w : World) : Quiet w w.dropConn := by
  unfold World.dropConn
  simp only []
  split
  · exact ((quiet_cancelFut w).emit "drop" (by decide)).of_eq rfl
  · exact quiet_cancelFut w

theorem quiet_startConnect (w : World) : Quiet w w.startConnect := by
  unfold World.startConnect
  simp only []
  have h1 : Quiet w ({ w.dropConn with nets := w.dropConn.nets ++ [({ } : Net)] } : World) :=
    (quiet_dropConn w).of_eq rfl
  split
  · apply Quiet.finishErr
    exact (h1.emit _ (by apply ne_fuel_of_space; simp [toString])).of_eq rfl
  · refine Quiet.trans ?_ (quiet_call (.DLW _ 0 _))
    exact (h1.emit _ (by apply ne_fuel_of_space; simp [toString])).of_eq rfl

theorem quiet_startOp (w : World) (name : String) (body : World → World) (hb : ∀ w', Quiet w' (body w')) :
    Quiet w (w.startOp name body) := by
  unfold World.startOp
  split
  · exact (Quiet.refl w).emit _ (by apply ne_fuel_of_space; simp [toString])
  · exact ((quiet_cancelFut w).of_eq (b := { w.cancelFut with wakes := 0, lastIoStarved := false }) rfl).trans (hb _)

theorem quiet_goLoop (n : Nat) (w : World) : Quiet w (World.goLoop n w) := by
  induction n generalizing w with
  | zero => exact (Quiet.refl w).emit "spin" (by decide)
  | succ n ih =>
    unfold World.goLoop
    simp only []
    have h1 : Quiet w ({ World.poll { w with slot := some 250 } with slot := none } : World) :=
      ((quiet_poll { w with slot := some 250 }).of_eq_left rfl).of_eq rfl
    repeat' split
    all_goals first
      | exact h1
      | exact h1.trans (ih _)

theorem decodeLine_ne_fuel (bs : Bytes) : decodeLine bs ≠ "fuel" := by
  apply ne_fuel_of_space
  unfold decodeLine
  apply space_append_left
  decide

theorem quiet_execDirective (w : World) (d : Directive) : Quiet w (w.execDirective d) := by
  unfold World.execDirective
  cases d with
  | bad => exact (Quiet.refl w).emit _ (by decide)
  | connect => exact quiet_startConnect w
  | publish r =>
    apply quiet_startOp; intro w'; try simp only []
    split
    · exact (Quiet.refl w').finishErr _ _
    · exact quiet_call (.FL w' _)
  | subscribe r =>
    apply quiet_startOp; intro w'; try simp only []
    repeat' split
    all_goals first
      | exact (Quiet.refl w').finishErr _ _
      | exact quiet_call (.FL w' _)
  | unsubscribe r =>
    apply quiet_startOp; intro w'; try simp only []
    repeat' split
    all_goals first
      | exact (Quiet.refl w').finishErr _ _
      | exact quiet_call (.FL w' _)
  | disconnect d =>
    apply quiet_startOp; intro w'; try simp only []
    repeat' split
    all_goals first
      | exact (Quiet.refl w').finishErr _ _
      | exact (Quiet.refl w').finish _
      | exact quiet_call (.FL w' _)
  | poll => apply quiet_startOp; intro w'; exact quiet_call (.DE w' .poll)
  | recv => apply quiet_startOp; intro w'; exact quiet_call (.DE w' .recv)
  | drive => apply quiet_startOp; intro w'; exact quiet_call (.DE w' .drive)
  | d n =>
    simp only []
    split
    · exact (Quiet.refl w).emit _ (by decide)
    · exact ((quiet_poll { w with slot := some n }).of_eq_left rfl).of_eq rfl
  | go =>
    simp only []
    split
    · exact (Quiet.refl w).emit _ (by decide)
    · exact quiet_goLoop _ w
  | tick us =>
    simp only []
    repeat' split
    all_goals first
      | exact (Quiet.refl w).emit _ (by decide)
      | exact (quiet_poll { w with now := w.now + us }).of_eq_left rfl
      | exact (Quiet.refl w).of_eq rfl
  | rx bytes =>
    simp only []
    split
    · exact (Quiet.refl w).emit _ (by decide)
    · exact (Quiet.refl w).of_eq rfl
  | cancel => exact quiet_cancelFut w
  | drop => exact quiet_dropConn w
  | setpid n =>
    simp only []
    split
    · exact (Quiet.refl w).emit _ (by decide)
    · exact (Quiet.refl w).of_eq rfl
  | decode bs => exact (Quiet.refl w).emit _ (decodeLine_ne_fuel bs)

theorem quiet_emitState (w : World) : Quiet w w.emitState := by
  unfold World.emitState
  refine (((Quiet.refl w).emit _ ?_).emit _ ?_).emit _ ?_
  · apply ne_fuel_of_space; unfold stateLine; simp [toString]
  · apply ne_fuel_of_space; unfold handleLine
    split
    · decide
    · exact space_append_left _ _ (by decide)
  · apply ne_fuel_of_space; unfold capLine; simp [toString]

theorem quiet_exec (w : World) (line : String) : Quiet w (w.exec line) :=
  (quiet_execDirective w _).trans (quiet_emitState _)

theorem quiet_run (ds : List Directive) (w : World) : Quiet w (ds.foldl World.execDirective w) := by
  induction ds generalizing w with
  | nil => exact Quiet.refl w
  | cons d ds ih => exact (quiet_execDirective w d).trans (ih _)

theorem quiet_program (ls : List String) (w : World) : Quiet w (ls.foldl World.exec w) := by
  induction ls generalizing w with
  | nil => exact Quiet.refl w
  | cons l ls ih => exact (quiet_exec w l).trans (ih _)

theorem not_fuel_of_quiet {w r : World} (h : Quiet w r) (hw : w.out = []) : "fuel" ∉ r.out.reverse := by
  obtain ⟨new, e, hn⟩ := h
  rw [e, hw]
  intro hm
  simp only [List.append_nil, List.mem_reverse] at hm
  exact hn _ hm rfl

/-- No program text makes the model print the line `fuel`. -/
theorem fuel_not_in_runProgram (text : String) : "fuel" ∉ runProgram text := by
  unfold runProgram
  simp only []
  repeat' split
  all_goals first
    | decide
    | exact not_fuel_of_quiet (quiet_program _ _) rfl


/-! ### `Session::connect` with the fuel as a parameter -/

/-- `World.startConnect` with the fuel as a parameter (`startConnect = startConnectWith pollFuel`). -/
def _root_.Minimq.World.startConnectWith (fuel : Nat) (w : World) : World :=
  let w := w.dropConn
  let w := { w with nets := w.nets ++ [({ } : Net)] }
  let w := w.emit s!"net {w.netIdx} open"
  let w := { w with sess := w.sess.beginConnect, wakes := 0, lastIoStarved := false }
  let c : Connect := w.sess.connectPacket
  let (s2, res) := w.sess.encode (fun cap _ => encodeConnect cap c)
  let w := { w with sess := s2 }
  match res with
  | .error e => w.finishErr "connect" (Err.ofSer e)
  | .ok (off, len) => (Call.DLW w 0 (w.sess.data.outbound.retainedPacket off len)).run fuel

theorem startConnect_eq_with (w : World) : w.startConnect = w.startConnectWith pollFuel := by
  unfold World.startConnect World.startConnectWith
  generalize pollFuel = f
  rfl

theorem startConnectWith_uniform (w : World) (f : Nat) (hf : fuelBound ≤ f) :
    w.startConnectWith f = w.startConnectWith fuelBound := by
  unfold World.startConnectWith
  simp only []
  split
  · rfl
  · exact run_uniform _ f hf

/-! ### A POLL that cannot advance anything -/

/-- The await point belongs to a `poll()`/`recv()` whose `drive_packet` round has not advanced
anything so far (in this or an earlier POLL). -/
def _root_.Minimq.Pc.idle : Pc → Bool
  | .stepWrite (.drive adv o) _ _ _ _ _ => !adv && o != .drive
  | .stepFlush (.drive adv o) _ _ => !adv && o != .drive
  | .waitRead o _ _ => o != .drive
  | _ => false

theorem resumeCall_calm (w : World) (pc : Pc) : (resumeCall w pc).calm = pc.idle := by
  cases pc with
  | stepWrite ctx _ _ _ _ _ => cases ctx <;> rfl
  | stepFlush ctx _ _ => cases ctx <;> rfl
  | _ => rfl

theorem notOk_or_consumed_left {a a' r : World} (h : NotOk r ∨ Consumed a r) (hs : a'.slot = a.slot) :
    NotOk r ∨ Consumed a' r := by
  rcases h with h | ⟨h1, h2⟩
  · exact .inl h
  · exact .inr ⟨by rw [hs]; exact h1, h2⟩

theorem poll_idle (w : World) (pc : Pc) (hf : w.fut = some pc) (hi : pc.idle = true)
    (hb : w.sess.reader.cls = 0) : NotOk (World.poll w) ∨ Consumed w (World.poll w) := by
  rw [poll_eq_pollWith]
  unfold World.pollWith
  rw [hf]
  simp only []
  have fin := run_pollFuel_final (resumeCall { w with wakes := 0, lastIoStarved := false, fut := none } pc)
  have := fin.stuck ⟨by rw [resumeCall_calm]; exact hi, by rw [resumeCall_world]; exact hb⟩
  rw [resumeCall_world] at this
  exact notOk_or_consumed_left this rfl

/-- Starting `poll()` / `recv()`: the first POLL of the operation. -/
theorem start_idle (w : World) (o : Outer) (ho : o ≠ .drive) (hb : w.sess.reader.cls = 0) :
    NotOk (driveEnter pollFuel w o) ∨ Consumed w (driveEnter pollFuel w o) := by
  have fin := run_pollFuel_final (.DE w o)
  exact fin.stuck ⟨by cases o <;> simp_all [Call.calm], hb⟩

theorem cls_zero_iff (r : Reader) : r.cls = 0 ↔
    r.packetAvailable = false ∧ ∀ r1 n, r.receiveWindow = some (r1, n) → n ≠ 0 := by
  constructor
  · intro h
    have hpa := available_of_cls_zero h
    refine ⟨hpa, fun r1 n hw hn => ?_⟩
    subst hn
    rw [cls_of_window_eq hpa hw] at h
    simp at h
  · intro ⟨hpa, hw⟩
    unfold Reader.cls
    simp only [hpa, Bool.false_eq_true, if_false]
    split
    · rename_i r1 heq; exact absurd rfl (hw _ _ heq)
    · rfl

/-- The `poll()`/`recv()`/`drive()` an await point belongs to, with the `advanced` flag of the current
`drive_packet` round as carried by the await point (`wait_for_progress` is entered only after an
`Idle` round, so there it is false). `none` for the await points of the other operations. -/
def _root_.Minimq.Pc.driveOp : Pc → Option (Outer × Bool)
  | .stepWrite (.drive adv o) _ _ _ _ _ => some (o, adv)
  | .stepFlush (.drive adv o) _ _ => some (o, adv)
  | .waitRead o _ _ => some (o, false)
  | _ => none

theorem idle_of_driveOp {pc : Pc} {o : Outer} (h : pc.driveOp = some (o, false)) (ho : o ≠ .drive) :
    pc.idle = true := by
  cases pc with
  | stepWrite ctx _ _ _ _ _ =>
    cases ctx with
    | flush k => simp [Pc.driveOp] at h
    | drive adv o' =>
      simp only [Pc.driveOp, Option.some.injEq, Prod.mk.injEq] at h
      obtain ⟨rfl, rfl⟩ := h
      cases o' <;> simp_all [Pc.idle]
  | stepFlush ctx _ _ =>
    cases ctx with
    | flush k => simp [Pc.driveOp] at h
    | drive adv o' =>
      simp only [Pc.driveOp, Option.some.injEq, Prod.mk.injEq] at h
      obtain ⟨rfl, rfl⟩ := h
      cases o' <;> simp_all [Pc.idle]
  | waitRead o' _ _ =>
    simp only [Pc.driveOp, Option.some.injEq, Prod.mk.injEq] at h
    obtain ⟨rfl, _⟩ := h
    cases o' <;> simp_all [Pc.idle]
  | _ => simp [Pc.driveOp] at h

theorem poll_ok_progress (w : World) (pc : Pc) (o : Outer) (adv : Bool) (hf : w.fut = some pc)
    (hop : pc.driveOp = some (o, adv)) (ho : o ≠ .drive)
    (hok : (World.poll w).fut = none ∧ (World.poll w).lastRes = some (.ok ())) :
    adv = true ∨ w.sess.reader.cls ≠ 0 ∨ Consumed w (World.poll w) := by
  cases adv with
  | true => exact .inl rfl
  | false =>
    by_cases hb : w.sess.reader.cls = 0
    · rcases poll_idle w pc hf (idle_of_driveOp hop ho) hb with (h | ⟨e, h⟩) | h
      · rw [hok.1] at h; simp at h
      · rw [hok.2] at h; simp at h
      · exact .inr (.inr h)
    · exact .inr (.inl hb)

end Fuel
end Minimq
