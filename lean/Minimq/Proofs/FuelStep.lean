import Minimq.Proofs.Fuel
/-
Fuel adequacy — part 2: one step of each of the thirteen machine functions.

`Outcome c`: with any fuel `m + 1` the call `c` either finishes with a result that does not depend
on `m`, or tail-calls one other call `c'` with fuel `m`, where `c'` does not depend on `m` either,
has a strictly smaller rank, and `Edge c c'` records what the code in between did.
-/
namespace Minimq
open Gen World
namespace Fuel

/-- A `poll`/`recv` call in the drive loop that has not yet advanced anything. -/
def Call.calm : Call → Bool
  | .PS _ (.drive adv o) _ _ => !adv && o != .drive
  | .DSW _ (.drive adv o) _ _ _ _ _ => !adv && o != .drive
  | .DSF _ (.drive adv o) _ _ => !adv && o != .drive
  | .SR _ (.drive adv o) a => !adv && !a && o != .drive
  | .DL _ o adv => !adv && o != .drive
  | .DAS _ o adv => !adv && o != .drive
  | .DE _ o => o != .drive
  | .DWR _ o _ _ => o != .drive
  | _ => false

/-- Nothing has advanced and nothing is waiting to be processed: a calm call and no complete packet
in the receive buffer. -/
def Call.Stuck (c : Call) : Prop :=
  c.calm = true ∧ c.world.sess.reader.cls = 0

/-- The I/O decision of this POLL has been used up by an I/O call between `w` and `w'`. -/
def Consumed (w w' : World) : Prop := w.slot.isSome = true ∧ w'.slot = none

/-- The operation did not complete successfully: it is suspended at an await point, or it failed. -/
def NotOk (r : World) : Prop := r.fut.isSome = true ∨ ∃ e, r.lastRes = some (.error e)

/-- The operation is at a genuine resting point: suspended, or completed with a result. -/
def Settled (r : World) : Prop := r.fut.isSome = true ∨ r.lastRes.isSome = true

structure Edge (c c' : Call) : Prop where
  rank : c'.rank + 1 ≤ c.rank
  rel : Rel c.world c'.world
  stuck : c.Stuck → c'.Stuck ∨ Consumed c.world c'.world

structure Final (c : Call) (r : World) : Prop where
  rel : Rel c.world r
  stuck : c.Stuck → NotOk r ∨ Consumed c.world r
  settled : Settled r

inductive Outcome (c : Call) : Prop
  | call (c' : Call) (e : Edge c c') (h : ∀ m, c.run (m + 1) = c'.run m)
  | done (r : World) (f : Final c r) (h : ∀ m, c.run (m + 1) = r)

/-! ### Ways to finish -/

theorem Final.finishErr (c : Call) {a : World} (h : Rel c.world a) (op : String) (e : Err) :
    Final c (a.finishErr op e) := ⟨h.finishErr _ _, fun _ => .inl (.inr ⟨e, rfl⟩), .inr rfl⟩

theorem Final.suspend (c : Call) {a : World} (h : Rel c.world a) (pc : Pc) :
    Final c (a.suspend pc) := ⟨h.suspend _, fun _ => .inl (.inl rfl), .inl rfl⟩

theorem Final.finish (c : Call) {a : World} (h : Rel c.world a) (line : String) (hs : ¬ c.Stuck) :
    Final c (a.finish line) := ⟨h.finish _, fun x => absurd x hs, .inr rfl⟩

theorem Final.finishOp (c : Call) {a : World} (h : Rel c.world a) (name : String) (op : Op) (hs : ¬ c.Stuck) :
    Final c (a.finishOp name op) := ⟨h.finishOp _ _, fun x => absurd x hs, .inr rfl⟩

theorem foldl_emit_lastRes (ls : List String) (a : World) : (ls.foldl World.emit a).lastRes = a.lastRes := by
  induction ls generalizing a with
  | nil => rfl
  | cons x xs ih => simp only [List.foldl, ih]; rfl

theorem deliver_lastRes (a : World) (name : String) (len : Nat) : (a.deliver name len).lastRes = some (.ok ()) := by
  unfold World.deliver
  simp only []
  split
  · rw [foldl_emit_lastRes]; rfl
  · rfl

theorem Final.deliver (c : Call) {a : World} (h : Rel c.world a) (name : String) (len : Nat) (hs : ¬ c.Stuck) :
    Final c (a.deliver name len) := ⟨h.deliver _ _, fun x => absurd x hs, .inr (by rw [deliver_lastRes]; rfl)⟩

/-! ### Weights -/

theorem IoFacts.wt_le {w w1 : World} (io : IoFacts w w1) : wt w1 ≤ wt w := by
  unfold wt; rw [io.sess, io.wakes, io.slot]; simp only [sig]; omega

theorem IoFacts.wt_consumed {w w1 : World} (io : IoFacts w w1) (hs : w.slot.isSome = true) : wt w1 + 20 = wt w := by
  unfold wt; rw [io.sess, io.wakes, io.slot]
  cases h : w.slot with
  | none => rw [h] at hs; simp at hs
  | some k => simp only [sig]; omega

theorem IoFacts.wt_eq {w w1 : World} (io : IoFacts w w1) (hs : w.slot = none) : wt w1 = wt w := by
  unfold wt; rw [io.sess, io.wakes, io.slot, hs]

@[simp] theorem wt_setWritten (w : World) (p : Flushed) (a b : Nat) : wt (w.setWritten p a b) = wt w := rfl
@[simp] theorem wt_completeFlush (w : World) (p : Flushed) (now : Nat) : wt (w.completeFlush p now) = wt w := rfl

/-- After a read, whatever was committed to the buffer. -/
theorem IoFacts.wt_commit {w w1 : World} (io : IoFacts w w1) (hs : w.slot.isSome = true) (s : Session) :
    wt { w1 with sess := s } + 10 ≤ wt w := by
  have h1 := io.wt_consumed hs
  have h2 := s.reader.cls_le
  unfold wt at h1 ⊢
  simp only [io.slot, io.wakes, io.sess, sig] at h1 ⊢
  omega

theorem slot_some_of_ne_pending {w : World} {α} {r p : α} (hp : w.slot = none → r = p) (hr : r ≠ p) :
    w.slot.isSome = true := by
  cases h : w.slot with
  | none => exact absurd (hp h) hr
  | some k => rfl

theorem Rel.of_eq_left {a a' b : World} (h : Rel a b) (ho : a'.out = a.out) (hs : a'.slot = a.slot)
    (hn : a'.nets = a.nets) : Rel a' b := by
  obtain ⟨q, i⟩ := h
  exact ⟨by rw [ho]; exact q, by rw [hs, hn]; exact i⟩

/-- After a successful read the decision is gone; whatever the committed bytes make of the buffer,
the weight has dropped. -/
theorem IoFacts.wt_after_read {w w' w1 : World} (io : IoFacts w' w1) (hs : w'.slot.isSome = true)
    (hw : w'.wakes = w.wakes) (hsl : w'.slot = w.slot) (s : Session) :
    wt { w1 with sess := s } + 10 ≤ wt w := by
  have h2 := s.reader.cls_le
  unfold wt
  simp only [io.slot, io.wakes, hw, sig]
  rw [hsl] at hs
  cases h : w.slot with
  | none => rw [h] at hs; simp at hs
  | some k => simp only []; omega

theorem not_stuck_of_calm {c : Call} (h : c.calm = false) : ¬ c.Stuck := fun hs => by
  rw [hs.1] at h; exact Bool.noConfusion h

theorem not_stuck_of_available {c : Call} (h : c.world.sess.reader.packetAvailable = true) : ¬ c.Stuck := fun hs => by
  rw [available_of_cls_zero hs.2] at h; exact Bool.noConfusion h

/-! ### The thirteen functions -/

theorem step_SR (w : World) (ctx : StepCtx) (adv : Bool) : Outcome (.SR w ctx adv) := by
  cases ctx with
  | flush k =>
    refine .call (.FL w k) ⟨?_, Rel.refl _, fun hs => absurd hs (not_stuck_of_calm rfl)⟩
      (fun m => by simp only [Call.run, stepReturned])
    simp only [Call.rank]; split <;> omega
  | drive advanced outer =>
    refine .call (.DAS w outer (advanced || adv)) ⟨?_, Rel.refl _, fun hs => .inl ⟨?_, hs.2⟩⟩
      (fun m => by simp only [Call.run, stepReturned])
    · simp only [Call.rank]; repeat' split
      all_goals omega
    · have := hs.1; simp only [Call.calm, Bool.and_eq_true, Bool.not_eq_eq_eq_not, Bool.not_true] at this ⊢
      simp [this.1.1, this.1.2, this.2]

theorem step_DE (w : World) (outer : Outer) : Outcome (.DE w outer) := by
  cases hl : w.live with
  | false =>
    exact .done _ (Final.finishErr (.DE w outer) (Rel.refl w) (outerName outer) .disconnected)
      (fun m => by simp only [Call.run, driveEnter, hl, Bool.not_false, if_true])
  | true =>
    refine .call (.DL w outer false) ⟨?_, Rel.refl _, fun hs => .inl ⟨?_, hs.2⟩⟩
      (fun m => by simp [Call.run, driveEnter, hl])
    · simp only [Call.rank]; simp
    · have := hs.1; simp only [Call.calm] at this ⊢; simp [this]

theorem step_PS (w : World) (ctx : StepCtx) (step : Outbound.Step) (now : Nat) :
    Outcome (.PS w ctx step now) := by
  cases hp : prepareStep w step with
  | fail e =>
    exact .done _ (Final.finishErr (.PS w ctx step now) ((Rel.refl w).failStep ctx step) (ctxName ctx) e)
      (fun m => by simp only [Call.run, performStep, hp])
  | done =>
    refine .call (.SR w ctx false) ⟨?_, Rel.refl _, fun hs => .inl ⟨?_, hs.2⟩⟩
      (fun m => by simp only [Call.run, performStep, hp])
    · simp only [Call.rank, hp, isDone, if_true]; omega
    · have h1 := hs.1; cases ctx <;> simp_all [Call.calm]
  | flush pkt =>
    cases hl : w.live with
    | false =>
      exact .done _ (Final.finishErr (.PS w ctx step now) ((Rel.refl w).discFail ctx) (ctxName ctx) .disconnected)
        (fun m => by simp [Call.run, performStep, hp, hl])
    | true =>
      refine .call (.DSF w ctx pkt now) ⟨?_, Rel.refl _, fun hs => .inl ⟨?_, hs.2⟩⟩
        (fun m => by simp [Call.run, performStep, hp, hl])
      · simp only [Call.rank, hp, isDone, Bool.false_eq_true, if_false]; omega
      · have h1 := hs.1; cases ctx <;> simp_all [Call.calm]
  | write pkt bytes written len =>
    cases hl : w.live with
    | false =>
      exact .done _ (Final.finishErr (.PS w ctx step now) ((Rel.refl w).discFail ctx) (ctxName ctx) .disconnected)
        (fun m => by simp [Call.run, performStep, hp, hl])
    | true =>
      refine .call (.DSW w ctx pkt bytes written len now) ⟨?_, Rel.refl _, fun hs => .inl ⟨?_, hs.2⟩⟩
        (fun m => by simp [Call.run, performStep, hp, hl])
      · simp only [Call.rank, hp, isDone, Bool.false_eq_true, if_false]; omega
      · have h1 := hs.1; cases ctx <;> simp_all [Call.calm]

theorem step_FL (w : World) (k : AfterFlush) : Outcome (.FL w k) := by
  cases hq : w.maybeQueuePingreq w.now with
  | error e =>
    exact .done _ (Final.finishErr (.FL w k) ((Rel.refl w).discFail (.flush k)) (afterFlushName k) e)
      (fun m => by simp only [Call.run, flushLoop, hq])
  | ok w1 =>
    have hp := maybeQueuePingreq_pure hq
    cases hn : w1.sess.data.outbound.nextStep with
    | none =>
      refine .call (.AF w1 k) ⟨?_, hp.rel, fun hs => absurd hs (not_stuck_of_calm rfl)⟩
        (fun m => by simp only [Call.run, flushLoop, hq, hn])
      simp only [Call.rank, hp.wt]; split <;> omega
    | some step =>
      refine .call (.PS w1 (.flush k) step w1.now) ⟨?_, hp.rel, fun hs => absurd hs (not_stuck_of_calm rfl)⟩
        (fun m => by simp only [Call.run, flushLoop, hq, hn])
      simp only [Call.rank, hp.wt, nextStep_not_done w1 _ step hn, Bool.false_eq_true, if_false]
      split <;> omega

theorem step_DSF (w : World) (ctx : StepCtx) (pkt : Flushed) (now : Nat) : Outcome (.DSF w ctx pkt now) := by
  cases hio : w.ioFlush with
  | mk w1 r =>
    obtain ⟨io, hpend⟩ := ioFlush_facts hio
    cases r with
    | pending =>
      exact .done _ (Final.suspend (.DSF w ctx pkt now) io.rel (.stepFlush ctx pkt now))
        (fun m => by simp only [Call.run, doStepFlush, hio])
    | err k =>
      exact .done _ (Final.finishErr (.DSF w ctx pkt now) io.rel.handleDisconnect (ctxName ctx) (.transport k))
        (fun m => by simp only [Call.run, doStepFlush, hio])
    | ok =>
      have hs : w.slot.isSome = true := slot_some_of_ne_pending hpend (by intro h; cases h)
      refine .call (.SR (w1.completeFlush pkt now) ctx true)
        ⟨?_, io.rel.of_eq rfl rfl rfl, fun _ => .inr ⟨hs, io.slot⟩⟩
        (fun m => by simp only [Call.run, doStepFlush, hio])
      have := io.wt_consumed hs
      simp only [Call.rank, wt_completeFlush]; omega

theorem step_DSW (w : World) (ctx : StepCtx) (pkt : Flushed) (bytes : Bytes) (written len now : Nat) :
    Outcome (.DSW w ctx pkt bytes written len now) := by
  cases hio : w.ioWrite (bytes.drop written) with
  | mk w1 r =>
    obtain ⟨io, hpend⟩ := ioWrite_facts hio
    cases r with
    | pending =>
      exact .done _ (Final.suspend (.DSW w ctx pkt bytes written len now) io.rel (.stepWrite ctx pkt bytes written len now))
        (fun m => by simp only [Call.run, doStepWrite, hio])
    | zero =>
      exact .done _ (Final.finishErr (.DSW w ctx pkt bytes written len now) (io.rel.discFail ctx) (ctxName ctx) .writeZero)
        (fun m => by simp only [Call.run, doStepWrite, hio])
    | err k =>
      exact .done _ (Final.finishErr (.DSW w ctx pkt bytes written len now) io.rel.handleDisconnect (ctxName ctx) (.transport k))
        (fun m => by simp only [Call.run, doStepWrite, hio])
    | ok count =>
      have hs : w.slot.isSome = true := slot_some_of_ne_pending hpend (by intro h; cases h)
      have hw := io.wt_consumed hs
      by_cases hlt : written + count < len
      · refine .call (.SR (w1.setWritten pkt (written + count) len) ctx true)
          ⟨?_, io.rel.of_eq rfl rfl rfl, fun _ => .inr ⟨hs, io.slot⟩⟩
          (fun m => by simp only [Call.run, doStepWrite, hio, hlt, if_true])
        simp only [Call.rank, wt_setWritten]; omega
      · refine .call (.DSF (w1.setWritten pkt (written + count) len) ctx pkt now)
          ⟨?_, io.rel.of_eq rfl rfl rfl, fun _ => .inr ⟨hs, io.slot⟩⟩
          (fun m => by simp only [Call.run, doStepWrite, hio, hlt, if_false])
        simp only [Call.rank, wt_setWritten]; omega

theorem activate_final (c : Call) {a : World} (h : Rel c.world a) (ns : ¬ c.Stuck) (sp : Bool) (block : Bytes) :
    Final c (World.activate a sp block) := by
  unfold World.activate
  split
  · apply Final.finishErr; exact h.of_eq rfl rfl rfl
  · apply Final.finish (hs := ns); exact h.of_eq rfl rfl rfl

theorem connectGotPacket_final (c : Call) {a : World} (h : Rel c.world a) (ns : ¬ c.Stuck) :
    Final c (World.connectGotPacket a) := by
  unfold World.connectGotPacket
  simp only []
  split
  · apply Final.finishErr; exact Rel.handleDisconnect (h.of_eq rfl rfl rfl)
  · split
    · apply Final.finishErr; exact h.of_eq rfl rfl rfl
    · apply activate_final (ns := ns); exact h.of_eq rfl rfl rfl
  · apply Final.finishErr; exact Rel.handleDisconnect (h.of_eq rfl rfl rfl)
  · apply Final.finishErr; exact Rel.handleDisconnect (h.of_eq rfl rfl rfl)

theorem step_DLW (w : World) (which : Nat) (bytes : Bytes) : Outcome (.DLW w which bytes) := by
  have ns : ¬ (Call.DLW w which bytes).Stuck := not_stuck_of_calm rfl
  cases he : bytes.isEmpty with
  | true =>
    refine .call (.DLF (w.discDone which) which)
      ⟨?_, by rcases discDone_cases w which with ⟨e, _⟩ | ⟨e, _⟩ <;> rw [e]
              · exact Rel.refl _
              · exact (Rel.refl w).handleDisconnect, fun hs => absurd hs ns⟩
      (fun m => by simp only [Call.run, doLocalWrite, he, if_true])
    simp only [Call.rank]
    rcases discDone_cases w which with ⟨e, h01⟩ | ⟨e, h0, _⟩
    · rw [e]; split <;> omega
    · rw [if_neg h0]; omega
  | false =>
    cases hio : w.ioWrite bytes with
    | mk w1 r =>
      obtain ⟨io, hpend⟩ := ioWrite_facts hio
      cases r with
      | pending =>
        exact .done _ (Final.suspend (.DLW w which bytes) io.rel _)
          (fun m => by simp only [Call.run, doLocalWrite, he, hio, Bool.false_eq_true, if_false]; rfl)
      | ok n =>
        have hs : w.slot.isSome = true := slot_some_of_ne_pending hpend (by intro h; cases h)
        have hw := io.wt_consumed hs
        refine .call (.DLW w1 which (bytes.drop n)) ⟨?_, io.rel, fun hst => absurd hst ns⟩
          (fun m => by simp only [Call.run, doLocalWrite, he, hio, Bool.false_eq_true, if_false])
        simp only [Call.rank]; omega
      | zero =>
        refine .done _ ?_ (fun m => by simp only [Call.run, doLocalWrite, he, hio, Bool.false_eq_true, if_false]; rfl)
        repeat' split
        all_goals first
          | exact Final.finishErr (.DLW w which bytes) io.rel _ _
          | exact Final.finishErr (.DLW w which bytes) io.rel.handleDisconnect _ _
      | err k =>
        refine .done _ ?_ (fun m => by simp only [Call.run, doLocalWrite, he, hio, Bool.false_eq_true, if_false]; rfl)
        repeat' split
        all_goals first
          | exact Final.finishErr (.DLW w which bytes) io.rel _ _
          | exact Final.finishErr (.DLW w which bytes) io.rel.handleDisconnect _ _

theorem step_DLF (w : World) (which : Nat) : Outcome (.DLF w which) := by
  have ns : ¬ (Call.DLF w which).Stuck := not_stuck_of_calm rfl
  cases hio : w.ioFlush with
  | mk w1 r =>
    obtain ⟨io, hpend⟩ := ioFlush_facts hio
    cases r with
    | pending =>
      exact .done _ (Final.suspend (.DLF w which) io.rel _)
        (fun m => by simp only [Call.run, doLocalFlush, hio]; rfl)
    | err k =>
      refine .done _ ?_ (fun m => by simp only [Call.run, doLocalFlush, hio]; rfl)
      repeat' split
      all_goals first
        | exact Final.finishErr (.DLF w which) io.rel _ _
        | exact Final.finishErr (.DLF w which) io.rel.handleDisconnect _ _
    | ok =>
      have hs : w.slot.isSome = true := slot_some_of_ne_pending hpend (by intro h; cases h)
      have hw := io.wt_consumed hs
      by_cases h0 : which = 0
      · refine .call (.DCR { w1 with sess := w1.sess.clearPing }) ⟨?_, io.rel.of_eq rfl rfl rfl, fun hst => absurd hst ns⟩
          (fun m => by simp only [Call.run, doLocalFlush, hio, h0, if_true])
        have : wt { w1 with sess := w1.sess.clearPing } = wt w1 := rfl
        simp only [Call.rank, this, h0, if_true]; omega
      · refine .done _ ?_ (fun m => by simp only [Call.run, doLocalFlush, hio, h0, if_false]; rfl)
        split
        · apply Final.finish (hs := ns); exact io.rel.of_eq rfl rfl rfl
        · apply Final.finish (hs := ns); exact io.rel.handleDisconnect

theorem step_DCR (w : World) : Outcome (.DCR w) := by
  have ns : ¬ (Call.DCR w).Stuck := not_stuck_of_calm rfl
  cases hpa : w.sess.reader.packetAvailable with
  | true =>
    exact .done _ (connectGotPacket_final (.DCR w) (Rel.refl w) ns)
      (fun m => by simp only [Call.run, doConnRead, hpa, if_true])
  | false =>
    cases hwin : w.sess.window with
    | none =>
      exact .done _ (Final.finishErr (.DCR w) (Rel.refl w).handleDisconnect "connect" .peerInvalid)
        (fun m => by simp only [Call.run, doConnRead, hpa, hwin, Bool.false_eq_true, if_false])
    | some p =>
      obtain ⟨s1, window⟩ := p
      by_cases hz : window = 0
      · refine .done _ (connectGotPacket_final (.DCR w) (a := { w with sess := s1 }) ((Rel.refl w).of_eq rfl rfl rfl) ns)
          (fun m => by simp only [Call.run, doConnRead, hpa, hwin, hz, Bool.false_eq_true, if_false, if_true])
      · cases hio : ({ w with sess := s1 } : World).ioRead window with
        | mk w1 r =>
          obtain ⟨io, hpend⟩ := ioRead_facts hio
          have hrel : Rel w w1 := io.rel.of_eq_left rfl rfl rfl
          cases r with
          | pending =>
            exact .done _ (Final.suspend (.DCR w) hrel .connRead)
              (fun m => by simp only [Call.run, doConnRead, hpa, hwin, hz, hio, Bool.false_eq_true, if_false])
          | eof =>
            exact .done _ (Final.finishErr (.DCR w) hrel.handleDisconnect "connect" .disconnected)
              (fun m => by simp only [Call.run, doConnRead, hpa, hwin, hz, hio, Bool.false_eq_true, if_false])
          | err k =>
            exact .done _ (Final.finishErr (.DCR w) hrel.handleDisconnect "connect" (.transport k))
              (fun m => by simp only [Call.run, doConnRead, hpa, hwin, hz, hio, Bool.false_eq_true, if_false])
          | ok bytes =>
            have hs : ({ w with sess := s1 } : World).slot.isSome = true :=
              slot_some_of_ne_pending hpend (by intro h; cases h)
            have hw := io.wt_after_read (w := w) hs rfl rfl (w1.sess.commit bytes)
            refine .call (.DCR { w1 with sess := w1.sess.commit bytes }) ⟨?_, hrel.of_eq rfl rfl rfl, fun hst => absurd hst ns⟩
              (fun m => by simp only [Call.run, doConnRead, hpa, hwin, hz, hio, Bool.false_eq_true, if_false])
            simp only [Call.rank]; omega

/-- `service(now)`: the keep-alive timeout has expired. -/
def timedOut (w : World) : Bool :=
  match w.sess.rt.pingTimeout with
  | some d => decide (w.now ≥ d)
  | none => false

/-- `driveLoop` when no packet is buffered, with the timeout test named. -/
theorem driveLoop_service (m : Nat) (w : World) (outer : Outer) (adv : Bool)
    (hpa : w.sess.reader.packetAvailable = false) :
    driveLoop (m + 1) w outer adv =
      if timedOut w then (w.handleDisconnect).finishErr (outerName outer) .disconnected else
      match w.maybeQueuePingreq w.now with
      | .error e => w.finishErr (outerName outer) e
      | .ok w1 =>
        match w1.sess.data.outbound.nextStep with
        | none => driveAfterService m w1 outer adv
        | some step => performStep m w1 (.drive adv outer) step w.now := by
  rw [driveLoop]; simp only [hpa, Bool.false_eq_true, if_false]; rfl

theorem step_DL (w : World) (outer : Outer) (adv : Bool) : Outcome (.DL w outer adv) := by
  cases hpa : w.sess.reader.packetAvailable with
  | true =>
    have ns : ¬ (Call.DL w outer adv).Stuck := not_stuck_of_available hpa
    cases hprp : w.processReceivedPacket with
    | mk w1 res =>
      obtain ⟨hcls, hslot, hwakes, hout, hnets⟩ := processReceivedPacket_facts hprp hpa
      have hrel : Rel w w1 := (Rel.refl w).of_eq hout hslot hnets
      cases res with
      | error e =>
        exact .done _ (Final.finishErr (.DL w outer adv) hrel (outerName outer) e)
          (fun m => by simp only [Call.run, driveLoop, hpa, hprp, if_true])
      | ok o =>
        cases o with
        | some len =>
          exact .done _ (Final.deliver (.DL w outer adv) hrel (outerName outer) len ns)
            (fun m => by simp only [Call.run, driveLoop, hpa, hprp, if_true])
        | none =>
          refine .call (.DL w1 outer true) ⟨?_, hrel, fun hst => absurd hst ns⟩
            (fun m => by simp only [Call.run, driveLoop, hpa, hprp, if_true])
          have h1 : wt w1 + 5 = wt w := by unfold wt; rw [hcls, hslot, hwakes, cls_of_available hpa]
          simp only [Call.rank, if_true]; split <;> omega
  | false =>
    cases ht : timedOut w with
    | true =>
      exact .done _ (Final.finishErr (.DL w outer adv) (Rel.refl w).handleDisconnect (outerName outer) .disconnected)
        (fun m => by simp only [Call.run, driveLoop_service _ _ _ _ hpa, ht, if_true])
    | false =>
      cases hq : w.maybeQueuePingreq w.now with
      | error e =>
        exact .done _ (Final.finishErr (.DL w outer adv) (Rel.refl w) (outerName outer) e)
          (fun m => by simp only [Call.run, driveLoop_service _ _ _ _ hpa, ht, hq, Bool.false_eq_true, if_false])
      | ok w1 =>
        have hp := maybeQueuePingreq_pure hq
        cases hn : w1.sess.data.outbound.nextStep with
        | none =>
          refine .call (.DAS w1 outer adv) ⟨?_, hp.rel, fun hst => .inl ⟨hst.1, ?_⟩⟩
            (fun m => by simp only [Call.run, driveLoop_service _ _ _ _ hpa, ht, hq, hn, Bool.false_eq_true, if_false])
          · simp only [Call.rank, hp.wt, hn, Option.isNone_none, if_true]; split <;> omega
          · have := hst.2; simp only [Call.world] at this ⊢; rw [hp.reader]; exact this
        | some step =>
          refine .call (.PS w1 (.drive adv outer) step w.now) ⟨?_, hp.rel, fun hst => .inl ⟨hst.1, ?_⟩⟩
            (fun m => by simp only [Call.run, driveLoop_service _ _ _ _ hpa, ht, hq, hn, Bool.false_eq_true, if_false])
          · simp only [Call.rank, hp.wt, nextStep_not_done w1 _ step hn, Bool.false_eq_true, if_false]
            split <;> omega
          · have := hst.2; simp only [Call.world] at this ⊢; rw [hp.reader]; exact this

theorem step_DAS (w : World) (outer : Outer) (adv : Bool) : Outcome (.DAS w outer adv) := by
  cases hpa : w.sess.reader.packetAvailable with
  | true =>
    have ns : ¬ (Call.DAS w outer adv).Stuck := not_stuck_of_available hpa
    cases hprp : w.processReceivedPacket with
    | mk w1 res =>
      obtain ⟨hcls, hslot, hwakes, hout, hnets⟩ := processReceivedPacket_facts hprp hpa
      have hrel : Rel w w1 := (Rel.refl w).of_eq hout hslot hnets
      cases res with
      | error e =>
        exact .done _ (Final.finishErr (.DAS w outer adv) hrel (outerName outer) e)
          (fun m => by simp only [Call.run]; unfold driveAfterService; simp only [hpa, hprp, if_true])
      | ok o =>
        cases o with
        | some len =>
          exact .done _ (Final.deliver (.DAS w outer adv) hrel (outerName outer) len ns)
            (fun m => by simp only [Call.run]; unfold driveAfterService; simp only [hpa, hprp, if_true])
        | none =>
          refine .call (.DL w1 outer true) ⟨?_, hrel, fun hst => absurd hst ns⟩
            (fun m => by simp only [Call.run]; unfold driveAfterService; simp only [hpa, hprp, if_true])
          have h1 : wt w1 + 5 = wt w := by unfold wt; rw [hcls, hslot, hwakes, cls_of_available hpa]
          simp only [Call.rank, if_true]; repeat' split
          all_goals omega
  | false =>
    cases hn : w.sess.data.outbound.nextStep with
    | some step =>
      refine .call (.DL w outer adv) ⟨?_, Rel.refl w, fun hst => .inl ⟨hst.1, hst.2⟩⟩
        (fun m => by simp only [Call.run]; unfold driveAfterService; simp [hpa, hn] <;> rfl)
      simp only [Call.rank, hn, Option.isNone_some, Bool.false_eq_true, if_false]; split <;> omega
    | none =>
      cases adv with
      | true =>
        have ns : ¬ (Call.DAS w outer true).Stuck := not_stuck_of_calm (by simp [Call.calm])
        cases outer with
        | drive =>
          exact .done _ (Final.finish (.DAS w .drive true) (Rel.refl w) _ ns)
            (fun m => by simp only [Call.run]; unfold driveAfterService; simp [hpa, hn] <;> rfl)
        | poll =>
          exact .done _ (Final.finish (.DAS w .poll true) (Rel.refl w) _ ns)
            (fun m => by simp only [Call.run]; unfold driveAfterService; simp [hpa, hn] <;> rfl)
        | recv =>
          refine .call (.DE w .recv) ⟨?_, Rel.refl w, fun hst => absurd hst ns⟩
            (fun m => by simp only [Call.run]; unfold driveAfterService; simp [hpa, hn] <;> rfl)
          simp only [Call.rank, hn, Option.isNone_none, if_true]; omega
      | false =>
        cases outer with
        | drive =>
          exact .done _ (Final.finish (.DAS w .drive false) (Rel.refl w) _ (not_stuck_of_calm (by simp [Call.calm])))
            (fun m => by simp only [Call.run]; unfold driveAfterService; simp [hpa, hn] <;> rfl)
        | poll =>
          refine .call (.DWR w .poll w.sess.rt.nextDeadline false) ⟨?_, Rel.refl w, fun hst => .inl ⟨rfl, hst.2⟩⟩
            (fun m => by simp only [Call.run]; unfold driveAfterService; simp [hpa, hn] <;> rfl)
          simp [Call.rank, hn, hpa]
        | recv =>
          refine .call (.DWR w .recv w.sess.rt.nextDeadline false) ⟨?_, Rel.refl w, fun hst => .inl ⟨rfl, hst.2⟩⟩
            (fun m => by simp only [Call.run]; unfold driveAfterService; simp [hpa, hn] <;> rfl)
          simp [Call.rank, hn, hpa]

theorem step_DWR (w : World) (outer : Outer) (deadline : Option Nat) (yielded : Bool) :
    Outcome (.DWR w outer deadline yielded) := by
  cases hpa : w.sess.reader.packetAvailable with
  | true =>
    refine .call (.DE w outer) ⟨?_, Rel.refl w, fun hst => absurd hst (not_stuck_of_available hpa)⟩
      (fun m => by simp only [Call.run, doWaitRead, hpa, if_true])
    simp only [Call.rank, hpa, Bool.or_true, if_true]; omega
  | false =>
    cases hwin : w.sess.window with
    | none =>
      exact .done _ (Final.finishErr (.DWR w outer deadline yielded) (Rel.refl w).handleDisconnect (outerName outer) .peerInvalid)
        (fun m => by simp only [Call.run, doWaitRead, hpa, hwin, Bool.false_eq_true, if_false])
    | some p =>
      obtain ⟨s1, window⟩ := p
      obtain ⟨hz1, hz2, hz3⟩ := session_window_facts hwin
      have hcw := hz3 hpa
      by_cases hz : window = 0
      · -- the packet is complete; the probe has found its length
        have hc1 : s1.reader.cls = 1 := cls_of_available (hz1 hz)
        rw [if_pos hz] at hcw
        refine .call (.DE { w with sess := s1 } outer) ⟨?_, (Rel.refl w).of_eq rfl rfl rfl, fun hst => ?_⟩
          (fun m => by simp only [Call.run, doWaitRead, hpa, hwin, hz, Bool.false_eq_true, if_false, if_true])
        · have h1 : wt { w with sess := s1 } + 5 = wt w := by
            unfold wt; simp only [hc1, hcw]
          simp only [Call.rank]; split <;> omega
        · have := hst.2; simp only [Call.world] at this; omega
      · rw [if_neg hz] at hcw
        have hc1 : s1.reader.cls = 0 := hz2 hz
        cases hio : ({ w with sess := s1 } : World).ioRead window with
        | mk w1 r =>
          obtain ⟨io, hpend⟩ := ioRead_facts hio
          have hrel : Rel w w1 := io.rel.of_eq_left rfl rfl rfl
          cases r with
          | eof =>
            exact .done _ (Final.finishErr (.DWR w outer deadline yielded) hrel.handleDisconnect (outerName outer) .disconnected)
              (fun m => by simp only [Call.run, doWaitRead, hpa, hwin, hz, hio, Bool.false_eq_true, if_false])
          | err k =>
            exact .done _ (Final.finishErr (.DWR w outer deadline yielded) hrel.handleDisconnect (outerName outer) (.transport k))
              (fun m => by simp only [Call.run, doWaitRead, hpa, hwin, hz, hio, Bool.false_eq_true, if_false])
          | ok bytes =>
            have hs : ({ w with sess := s1 } : World).slot.isSome = true :=
              slot_some_of_ne_pending hpend (by intro h; cases h)
            have hw := io.wt_after_read (w := w) hs rfl rfl (w1.sess.commit bytes)
            refine .call (.DWR { w1 with sess := w1.sess.commit bytes } outer deadline yielded)
              ⟨?_, hrel.of_eq rfl rfl rfl, fun _ => .inr ⟨hs, io.slot⟩⟩
              (fun m => by simp only [Call.run, doWaitRead, hpa, hwin, hz, hio, Bool.false_eq_true, if_false])
            simp only [Call.rank]; repeat' split
            all_goals omega
          | pending =>
            -- the transport has nothing: the deadline decides
            have hwakes : w1.wakes = w.wakes := io.wakes
            have hsess : w1.sess = s1 := io.sess
            have hw1 : wt w1 = 5 * (63 - w.wakes) := by
              unfold wt; rw [hsess, hwakes, io.slot]; simp only [sig, hc1]; omega
            have hww : 5 * (63 - w.wakes) ≤ wt w := by unfold wt; omega
            cases deadline with
            | none =>
              exact .done _ (Final.suspend (.DWR w outer none yielded) hrel _)
                (fun m => by simp only [Call.run, doWaitRead, hpa, hwin, hz, hio, Bool.false_eq_true, if_false]; rfl)
            | some d =>
              by_cases hge : w1.now ≥ d
              · cases yielded with
                | true =>
                  refine .call (.DE w1 outer) ⟨?_, hrel, fun hst => .inl ⟨hst.1, by show w1.sess.reader.cls = 0; rw [hsess]; exact hc1⟩⟩
                    (fun m => by simp only [Call.run, doWaitRead, hpa, hwin, hz, hio, hge, Bool.false_eq_true, if_false, if_true])
                  simp only [Call.rank, Bool.true_or, if_true]; omega
                | false =>
                  by_cases hwk : w1.wakes + 1 ≥ 64
                  · exact .done _ (Final.suspend (.DWR w outer (some d) false)
                        ((hrel.of_eq (b := { w1 with wakes := w1.wakes + 1 }) rfl rfl rfl).emit "spin" (by decide)) _)
                      (fun m => by simp only [Call.run, doWaitRead, hpa, hwin, hz, hio, hge, hwk, Bool.false_eq_true, if_false, if_true]; rfl)
                  · refine .call (.DWR { w1 with wakes := w1.wakes + 1 } outer (some d) true)
                      ⟨?_, hrel.of_eq rfl rfl rfl, fun hst => .inl ⟨hst.1, by show w1.sess.reader.cls = 0; rw [hsess]; exact hc1⟩⟩
                      (fun m => by simp only [Call.run, doWaitRead, hpa, hwin, hz, hio, hge, hwk, Bool.false_eq_true, if_false, if_true])
                    have h2 : wt { w1 with wakes := w1.wakes + 1 } = 5 * (63 - (w.wakes + 1)) := by
                      unfold wt; simp only [hsess, hwakes, io.slot, sig, hc1]; omega
                    have h3 : w.wakes + 1 < 64 := by rw [hwakes] at hwk; omega
                    simp only [Call.rank, h2, hpa, Bool.or_false, Bool.true_or, Bool.false_eq_true, if_false, if_true]
                    omega
              · exact .done _ (Final.suspend (.DWR w outer (some d) yielded) hrel _)
                  (fun m => by simp only [Call.run, doWaitRead, hpa, hwin, hz, hio, hge, Bool.false_eq_true, if_false]; rfl)

theorem Pure.refl (w : World) : Pure w w := ⟨rfl, rfl, rfl, rfl, rfl⟩

theorem AF_done {w : World} {k : AfterFlush} {m0 : Nat} {r : World} (_hint : r = afterFlush (m0 + 1) w k)
    (f : Final (.AF w k) r) (h : ∀ m, afterFlush (m + 1) w k = r) : Outcome (.AF w k) :=
  .done r f (fun m => by simp only [Call.run]; exact h m)

theorem AF_call_FL {w w' : World} {k k' : AfterFlush} (_hint : flushLoop 0 w' k' = afterFlush (0 + 1) w k)
    (hp : Pure w w') (hk : isPost k = false) (hk' : isPost k' = true)
    (h : ∀ m, afterFlush (m + 1) w k = flushLoop m w' k') : Outcome (.AF w k) := by
  refine .call (.FL w' k') ⟨?_, hp.rel, fun hs => absurd hs (not_stuck_of_calm rfl)⟩
    (fun m => by simp only [Call.run]; exact h m)
  simp only [Call.rank, hp.wt, hk, hk', Bool.false_eq_true, if_false, if_true]; omega

theorem AF_call_DLW {w w' : World} {k : AfterFlush} {which : Nat} {bytes : Bytes}
    (_hint : doLocalWrite 0 w' which bytes = afterFlush (0 + 1) w k)
    (hp : Pure w w') (hk : isPost k = false)
    (h : ∀ m, afterFlush (m + 1) w k = doLocalWrite m w' which bytes) : Outcome (.AF w k) := by
  refine .call (.DLW w' which bytes) ⟨?_, hp.rel, fun hs => absurd hs (not_stuck_of_calm rfl)⟩
    (fun m => by simp only [Call.run]; exact h m)
  simp only [Call.rank, hp.wt, hk, Bool.false_eq_true, if_false]; omega

/-- Closes every leaf of `afterFlush`: the hint picks the result or the callee, the hypotheses that
`split` left in the context evaluate the body again for an arbitrary fuel. -/
macro "af_leaf" : tactic => `(tactic| first
  | (refine AF_call_FL (by assumption) ?_ rfl rfl (fun m => ?_)
     · first
       | exact Pure.refl _
       | (apply Pure.sess; first | rfl | (rw [retain_reader (by assumption)]; rfl))
     · unfold afterFlush; simp [*])
  | (refine AF_call_DLW (by assumption) ?_ rfl (fun m => ?_)
     · first
       | exact Pure.refl _
       | (apply Pure.sess; first | rfl | (rw [retain_reader (by assumption)]; rfl))
     · unfold afterFlush; simp [*])
  | (refine AF_done (by assumption) ?_ (fun m => ?_)
     · first
       | (apply Final.finishErr; first | exact Rel.refl _ | exact (Rel.refl _).of_eq rfl rfl rfl)
       | (apply Final.finishOp (hs := not_stuck_of_calm rfl); exact Rel.refl _)
     · unfold afterFlush; simp [*]))

theorem step_AF (w : World) (k : AfterFlush) : Outcome (.AF w k) := by
  have probe : afterFlush (0 + 1) w k = afterFlush (0 + 1) w k := rfl
  cases k with
  | post name op =>
    conv at probe => lhs; unfold afterFlush
    simp only [] at probe
    af_leaf
  | discPre d =>
    conv at probe => lhs; unfold afterFlush
    simp only [] at probe
    repeat' split at probe
    all_goals af_leaf
  | subPre r =>
    conv at probe => lhs; unfold afterFlush
    simp only [] at probe
    repeat' split at probe
    all_goals af_leaf
  | unsubPre r =>
    conv at probe => lhs; unfold afterFlush
    simp only [] at probe
    repeat' split at probe
    all_goals af_leaf
  | publishPre r =>
    obtain ⟨kd, hkd⟩ : ∃ kd, (if effectiveQos w.sess.rt.maxQos w.sess.downgrade r.qos = 2 then OpKind.pub2
      else OpKind.pub1) = kd := ⟨_, rfl⟩
    conv at probe => lhs; unfold afterFlush
    simp only [hkd] at probe
    repeat' split at probe
    all_goals af_leaf

/-- **One step of the machine.** With any fuel `m + 1` a call either finishes, with a result that
does not depend on `m`, or continues as one other call with fuel `m` whose rank is strictly smaller. -/
theorem run_step (c : Call) : Outcome c := by
  cases c with
  | FL w k => exact step_FL w k
  | PS w ctx step now => exact step_PS w ctx step now
  | DSW w ctx pkt bytes written len now => exact step_DSW w ctx pkt bytes written len now
  | DSF w ctx pkt now => exact step_DSF w ctx pkt now
  | SR w ctx adv => exact step_SR w ctx adv
  | AF w k => exact step_AF w k
  | DLW w which bytes => exact step_DLW w which bytes
  | DLF w which => exact step_DLF w which
  | DCR w => exact step_DCR w
  | DL w outer adv => exact step_DL w outer adv
  | DAS w outer adv => exact step_DAS w outer adv
  | DE w outer => exact step_DE w outer
  | DWR w outer deadline yielded => exact step_DWR w outer deadline yielded

end Fuel
end Minimq
