import Minimq.Proofs.ArenaClosed
import Minimq.Proofs.Packets
/-
Acknowledgement exchanges: what `handlePacket` does to the three outbound queues, to the list of
inbound QoS 2 identifiers and to the generation, packet by packet; what every other session
primitive does to them; and the lifting of such step-wise facts to all executions (`Reach`).
Used by `Theorems/C02`, `C03`, `C04`, `C18`.
-/
namespace Minimq
open Gen Outbound

/-! ### `removeFirst`, `modifyFirst` -/

theorem removeFirst_none {α} {p : α → Bool} {l : List α} (h : l.any p = false) : removeFirst p l = l := by
  induction l with
  | nil => rfl
  | cons x xs ih =>
    simp only [List.any_cons, Bool.or_eq_false_iff] at h
    simp only [removeFirst, h.1, Bool.false_eq_true, if_false, ih h.2]

/-- `removeFirst` removes exactly the first element satisfying `p`. -/
theorem removeFirst_split {α} {p : α → Bool} {l : List α} (h : l.any p = true) :
    ∃ l₁ a l₂, l = l₁ ++ a :: l₂ ∧ (∀ x ∈ l₁, p x = false) ∧ p a = true ∧ removeFirst p l = l₁ ++ l₂ := by
  induction l with
  | nil => simp at h
  | cons x xs ih =>
    by_cases hx : p x = true
    · exact ⟨[], x, xs, rfl, by simp, hx, by simp [removeFirst, hx]⟩
    · simp only [Bool.not_eq_true] at hx
      simp only [List.any_cons, hx, Bool.false_or] at h
      obtain ⟨l₁, a, l₂, h1, h2, h3, h4⟩ := ih h
      refine ⟨x :: l₁, a, l₂, by simp [h1], ?_, h3, by simp [removeFirst, hx, h4]⟩
      intro y hy
      simp only [List.mem_cons] at hy
      rcases hy with rfl | hy
      · exact hx
      · exact h2 y hy

theorem removeFirst_map_congr {α β} (f : α → β) (p : α → Bool) (q : β → Bool) (hpq : ∀ a, q (f a) = p a) (l : List α) :
    (removeFirst p l).map f = removeFirst q (l.map f) := by
  induction l with
  | nil => rfl
  | cons x xs ih =>
    simp only [removeFirst, List.map_cons, hpq]
    split
    · rfl
    · simp [ih]

theorem mem_removeFirst_of_ne {α} {p : α → Bool} {l : List α} {x : α} (hx : x ∈ l) (hp : p x = false) :
    x ∈ removeFirst p l := by
  induction l with
  | nil => simp at hx
  | cons y ys ih =>
    simp only [removeFirst]
    simp only [List.mem_cons] at hx
    split
    · rename_i hy
      rcases hx with rfl | hx
      · rw [hp] at hy; simp at hy
      · exact hx
    · rcases hx with rfl | hx
      · simp
      · simp [ih hx]

theorem modifyFirst_map {α β} (p : α → Bool) (f : α → α) (g : α → β) (hg : ∀ a, g (f a) = g a) (l : List α) :
    (modifyFirst p f l).map g = l.map g := by
  induction l with
  | nil => rfl
  | cons x xs ih =>
    simp only [modifyFirst]
    split <;> simp [hg, ih]

/-- `modifyFirst` changes exactly the first element satisfying `p`. -/
theorem modifyFirst_split {α} {p : α → Bool} (f : α → α) {l : List α} (h : l.any p = true) :
    ∃ l₁ a l₂, l = l₁ ++ a :: l₂ ∧ (∀ x ∈ l₁, p x = false) ∧ p a = true ∧ modifyFirst p f l = l₁ ++ f a :: l₂ := by
  induction l with
  | nil => simp at h
  | cons x xs ih =>
    by_cases hx : p x = true
    · exact ⟨[], x, xs, rfl, by simp, hx, by simp [modifyFirst, hx]⟩
    · simp only [Bool.not_eq_true] at hx
      simp only [List.any_cons, hx, Bool.false_or] at h
      obtain ⟨l₁, a, l₂, h1, h2, h3, h4⟩ := ih h
      refine ⟨x :: l₁, a, l₂, by simp [h1], ?_, h3, by simp [modifyFirst, hx, h4]⟩
      intro y hy
      simp only [List.mem_cons] at hy
      rcases hy with rfl | hy
      · exact hx
      · exact h2 y hy

theorem modifyFirst_none {α} {p : α → Bool} (f : α → α) {l : List α} (h : l.any p = false) : modifyFirst p f l = l := by
  induction l with
  | nil => rfl
  | cons x xs ih =>
    simp only [List.any_cons, Bool.or_eq_false_iff] at h
    simp only [modifyFirst, h.1, Bool.false_eq_true, if_false, ih h.2]

/-! ### Retained entries: what identifies them, and `ack_packet` -/

/-- Serial, identifier, length and send state of a retained entry: everything but its offset. -/
def RetainedPacket.key (e : RetainedPacket) : Nat × Nat × Nat × SendState := (e.ser, e.id, e.len, e.state)

/-- The retained entries, oldest first, without their offsets. -/
def Outbound.keys (o : Outbound) : List (Nat × Nat × Nat × SendState) := o.retained.map RetainedPacket.key

/-- The serial numbers of the retained packets, oldest first. -/
def Outbound.sers (o : Outbound) : List Nat := o.retained.map (·.ser)

theorem sers_eq_keys (o : Outbound) : o.sers = o.keys.map (·.1) := by
  simp [Outbound.sers, Outbound.keys, RetainedPacket.key, Function.comp_def]

/-- The entry an acknowledgement `(id, k)` is looking for. -/
def ackPred (o : Outbound) (id : Nat) (k : AckKind) (e : RetainedPacket) : Bool :=
  e.id == id && k.acknowledges (o.headerAt e.offset)

theorem compactGo_keys (es : List RetainedPacket) (buf : Bytes) (c : Nat) :
    (compactGo es buf c).1.map RetainedPacket.key = es.map RetainedPacket.key := by
  induction es generalizing buf c with
  | nil => rfl
  | cons e es ih =>
    simp only [compactGo, List.map_cons, ih]
    rfl

@[simp] theorem compact_keys (o : Outbound) : (o.compact).keys = o.keys := by
  simp [Outbound.keys, compact, compactGo_keys]

@[simp] theorem compact_nextSer (o : Outbound) : (o.compact).nextSer = o.nextSer := rfl

theorem ackPacket_eq (o : Outbound) (id : Nat) (k : AckKind) :
    o.ackPacket id k = if o.retained.any (ackPred o id k) then
      (compact { o with retained := removeFirst (ackPred o id k) o.retained }, true) else (o, false) := rfl

theorem ackPacket_found_iff (o : Outbound) (id : Nat) (k : AckKind) :
    (o.ackPacket id k).2 = o.retained.any (ackPred o id k) := by
  rw [ackPacket_eq]; split <;> simp_all

/-- `ack_packet` touches neither the release nor the control queue, and its effect on the retained list
is the removal of the first entry with that identifier and kind (no entry if there is none). -/
theorem ackPacket_frame (o : Outbound) (id : Nat) (k : AckKind) :
    (o.ackPacket id k).1.keys = (removeFirst (ackPred o id k) o.retained).map RetainedPacket.key ∧
    (o.ackPacket id k).1.release = o.release ∧ (o.ackPacket id k).1.control = o.control ∧
    (o.ackPacket id k).1.nextSer = o.nextSer := by
  rw [ackPacket_eq]
  split
  · simp [Outbound.keys]
    simp [compact, compactGo_keys]
  · rename_i h
    simp only [Bool.not_eq_true] at h
    simp [Outbound.keys, removeFirst_none h]

@[simp] theorem compact_nextRser (o : Outbound) : (o.compact).nextRser = o.nextRser := rfl

theorem ackPacket_nextRser (o : Outbound) (id : Nat) (k : AckKind) : (o.ackPacket id k).1.nextRser = o.nextRser := by
  rw [ackPacket_eq]; split <;> rfl

theorem ackPacket_not_found {o : Outbound} {id : Nat} {k : AckKind} (h : o.retained.any (ackPred o id k) = false) :
    o.ackPacket id k = (o, false) := by
  rw [ackPacket_eq, h]; rfl

/-! ### The acknowledgements the client sends: five bytes, never in the arena -/

theorem catChunks_ackChunks (id rc : Nat) : catChunks (ackChunks id rc) = .ok (u16be id ++ [b rc]) := by
  simp [ackChunks, catChunks]

/-- The packet written for a PUBACK / PUBREC / PUBCOMP control action. -/
def controlBytes (a : ControlAction) : Bytes :=
  b (a.typ * 16) :: b 3 :: (u16be a.id ++ [b a.rc])

theorem encodeControl_ack (a : ControlAction) (h : a.typ = MT_PubAck ∨ a.typ = MT_PubRec ∨ a.typ = MT_PubComp) :
    encodeControl a = .ok (controlBytes a) := by
  unfold encodeControl
  have hp : a.typ ≠ MT_PingReq := by rcases h with h | h | h <;> rw [h] <;> decide
  simp only [hp, if_false]
  rw [encodeWithOffset_complete (catChunks_ackChunks a.id a.rc) (by simp [u16be]; decide) (by simp [u16be]; decide)]
  simp only [Except.map, controlBytes, u16be, List.length_append, List.length_cons, List.length_nil]
  rcases h with h | h | h <;> rw [h] <;> rfl

/-- The PUBREL the client writes for a release entry. -/
def pubrelBytes (id rc : Nat) : Bytes := b (MT_PubRel * 16 + 2) :: b 3 :: (u16be id ++ [b rc])

theorem encodePubrel_eq (id rc : Nat) : encodePubrel id rc = .ok (pubrelBytes id rc) := by
  unfold encodePubrel
  rw [encodeWithOffset_complete (catChunks_ackChunks id rc) (by simp [u16be]; decide) (by simp [u16be]; decide)]
  rfl

theorem controlBytes_length (a : ControlAction) : (controlBytes a).length = 5 := by simp [controlBytes, u16be]
theorem pubrelBytes_length (id rc : Nat) : (pubrelBytes id rc).length = 5 := by simp [pubrelBytes, u16be]

theorem checkSize_control (r : Runtime) (a : ControlAction)
    (h : a.typ = MT_PubAck ∨ a.typ = MT_PubRec ∨ a.typ = MT_PubComp) :
    checkSize r (encodeControl a) = if r.packetTooLarge 5 then .error .packetTooLarge else .ok () := by
  rw [encodeControl_ack a h]; simp only [checkSize, controlBytes_length]

theorem checkSize_pubrel (r : Runtime) (id rc : Nat) :
    checkSize r (encodePubrel id rc) = if r.packetTooLarge 5 then .error .packetTooLarge else .ok () := by
  rw [encodePubrel_eq]; simp only [checkSize, pubrelBytes_length]

/-- `queue_control` looks at nothing but the length of the control queue and changes nothing but that
queue. -/
theorem queueControl_eq (o : Outbound) (a : ControlAction) :
    o.queueControl a = if o.control.length < MAX_PENDING_CONTROL then
      some { o with control := o.control ++ [{ action := a, state := .write 0 }] } else none := by
  unfold queueControl
  by_cases h : o.control.length ≥ MAX_PENDING_CONTROL
  · rw [if_pos h, if_neg (by omega)]
  · rw [if_neg h, if_pos (by omega)]

theorem queueRelease_eq (o : Outbound) (id rc ps : Nat) :
    o.queueRelease id rc ps = if o.release.length < MAX_PENDING_RELEASE then
      some { o with release := o.release ++ [{ id := id, rc := rc, state := .write 0, rser := o.nextRser, pser := ps }],
                    nextRser := o.nextRser + 1 } else none := by
  unfold queueRelease
  by_cases h : o.release.length ≥ MAX_PENDING_RELEASE
  · rw [if_pos h, if_neg (by omega)]
  · rw [if_neg h, if_pos (by omega)]

/-- The state after an acknowledgement `a` was queued. -/
def SessionData.withControl (d : SessionData) (a : ControlAction) : SessionData :=
  { d with outbound := { d.outbound with control := d.outbound.control ++ [{ action := a, state := .write 0 }] } }

/-- Common tail of the three inbound cases that owe the broker an acknowledgement: size check,
then `queue_control`. -/
def ackOutcome (d : SessionData) (r : Runtime) (a : ControlAction) (deliver : Bool) :
    SessionData × Runtime × Except Err Bool :=
  if r.packetTooLarge 5 then (d, r, .error .packetTooLarge)
  else if d.outbound.control.length < MAX_PENDING_CONTROL then (d.withControl a, r, .ok deliver)
  else (d, r, .error .inflightExhausted)

/-! ### `handlePacket`, inbound PUBLISH and PUBREL -/

theorem handlePacket_publish0 (d : SessionData) (r : Runtime) (t : Bytes) (id : Option Nat) (pr pl : Bytes)
    (rt dup : Bool) : handlePacket d r (.publish t id pr pl rt 0 dup) = (d, r, .ok true) := by
  simp [handlePacket]

theorem handlePacket_publish_noid (d : SessionData) (r : Runtime) (t : Bytes) (pr pl : Bytes)
    (rt dup : Bool) (qos : Nat) (hq : qos ≠ 0) :
    handlePacket d r (.publish t none pr pl rt qos dup) = (d, r, .error .peerInvalid) ∧
    handlePacket d r (.publish t (some 0) pr pl rt qos dup) = (d, r, .error .peerInvalid) := by
  simp [handlePacket, hq]

/-- The reason code of the PUBACK for an inbound QoS 1 PUBLISH `id`. -/
def qos1Rc (l : List Nat) (id : Nat) : Nat := if l.contains id then RC_PacketIdInUse else RC_Success

theorem handlePacket_publish1 (d : SessionData) (r : Runtime) (t : Bytes) (id : Nat) (pr pl : Bytes)
    (rt dup : Bool) (hid : id ≠ 0) :
    handlePacket d r (.publish t (some id) pr pl rt 1 dup) =
      ackOutcome d r { typ := MT_PubAck, id := id, rc := qos1Rc d.pendingServerIds id } true := by
  simp only [qos1Rc, handlePacket, show ((1 : Nat) = 0) = False by simp, if_false, hid, if_true]
  rw [checkSize_control _ _ (Or.inl rfl), queueControl_eq]
  unfold ackOutcome
  by_cases h1 : r.packetTooLarge 5 = true
  · simp [h1]
  · by_cases h2 : d.outbound.control.length < MAX_PENDING_CONTROL
    · simp [h1, h2, SessionData.withControl]
    · simp [h1, h2]

/-- The list of inbound QoS 2 identifiers and the PUBREC reason after a QoS 2 PUBLISH `id`. -/
def qos2Ids (l : List Nat) (id : Nat) : List Nat × Nat :=
  if l.contains id then (l, RC_Success)
  else if l.length < MAX_INBOUND_QOS2 then (l ++ [id], RC_Success) else (l, RC_ReceiveMaxExceeded)

/-- The outcome of owing the PUBREC for an inbound QoS 2 PUBLISH: as `ackOutcome`, and the list of
inbound QoS 2 identifiers becomes `ids` only if the PUBREC was queued (repair of F24). -/
def ackOutcome2 (d : SessionData) (r : Runtime) (a : ControlAction) (deliver : Bool) (ids : List Nat) :
    SessionData × Runtime × Except Err Bool :=
  if r.packetTooLarge 5 then (d, r, .error .packetTooLarge)
  else if d.outbound.control.length < MAX_PENDING_CONTROL then
    ({ d.withControl a with pendingServerIds := ids }, r, .ok deliver)
  else (d, r, .error .inflightExhausted)

theorem handlePacket_publish2 (d : SessionData) (r : Runtime) (t : Bytes) (id : Nat) (pr pl : Bytes)
    (rt dup : Bool) (qos : Nat) (hid : id ≠ 0) (hq0 : qos ≠ 0) (hq1 : qos ≠ 1) :
    handlePacket d r (.publish t (some id) pr pl rt qos dup) =
      ackOutcome2 d r { typ := MT_PubRec, id := id, rc := (qos2Ids d.pendingServerIds id).2 }
        (!d.pendingServerIds.contains id && decide (d.pendingServerIds.length < MAX_INBOUND_QOS2))
        (qos2Ids d.pendingServerIds id).1 := by
  simp only [handlePacket, hq0, hq1, if_false, hid]
  unfold ackOutcome2 qos2Ids
  by_cases hc : d.pendingServerIds.contains id = true
  · simp only [hc, Bool.not_true, Bool.false_eq_true, if_false, if_true, Bool.true_or, Bool.false_and]
    rw [checkSize_control _ _ (Or.inr (Or.inl rfl)), queueControl_eq]
    by_cases h1 : r.packetTooLarge 5 = true
    · simp [h1]
    · by_cases h2 : d.outbound.control.length < MAX_PENDING_CONTROL
      · simp [h1, h2, SessionData.withControl]
      · simp [h1, h2]
  · simp only [Bool.not_eq_true] at hc
    simp only [hc, Bool.not_false, Bool.false_eq_true, if_false, Bool.false_or, Bool.true_and]
    by_cases hl : d.pendingServerIds.length < MAX_INBOUND_QOS2
    · simp only [hl, if_true, decide_true]
      rw [checkSize_control _ _ (Or.inr (Or.inl rfl)), queueControl_eq]
      by_cases h1 : r.packetTooLarge 5 = true
      · simp [h1]
      · by_cases h2 : d.outbound.control.length < MAX_PENDING_CONTROL
        · simp [h1, h2, SessionData.withControl, reasonSuccess, RC_Success]
        · simp [h1, h2]
    · simp only [hl, if_false, decide_false]
      rw [checkSize_control _ _ (Or.inr (Or.inl rfl)), queueControl_eq]
      by_cases h1 : r.packetTooLarge 5 = true
      · simp [h1]
      · by_cases h2 : d.outbound.control.length < MAX_PENDING_CONTROL
        · simp [h1, h2, SessionData.withControl, reasonSuccess, RC_ReceiveMaxExceeded]
        · simp [h1, h2]

theorem handlePacket_pubRel0 (d : SessionData) (r : Runtime) (rs : ReasonIn) :
    handlePacket d r (.pubRel 0 rs) = (d, r, .error .peerInvalid) := by
  simp [handlePacket]

theorem handlePacket_pubRel (d : SessionData) (r : Runtime) (id : Nat) (rs : ReasonIn) (hid : id ≠ 0) :
    handlePacket d r (.pubRel id rs) =
      if d.pendingServerIds.contains id then
        ackOutcome { d with pendingServerIds := handlePacket.swapRemove d.pendingServerIds id } r
          { typ := MT_PubComp, id := id, rc := RC_Success } false
      else ackOutcome d r { typ := MT_PubComp, id := id, rc := RC_PacketIdNotFound } false := by
  simp only [handlePacket, hid, if_false]
  unfold ackOutcome
  by_cases hc : d.pendingServerIds.contains id = true
  · simp only [hc, if_true]
    rw [checkSize_control _ _ (Or.inr (Or.inr rfl)), queueControl_eq]
    by_cases h1 : r.packetTooLarge 5 = true
    · simp [h1]
    · by_cases h2 : d.outbound.control.length < MAX_PENDING_CONTROL
      · simp [h1, h2, SessionData.withControl]
      · simp [h1, h2]
  · simp only [hc, if_false, Bool.false_eq_true]
    rw [checkSize_control _ _ (Or.inr (Or.inr rfl)), queueControl_eq]
    by_cases h1 : r.packetTooLarge 5 = true
    · simp [h1]
    · by_cases h2 : d.outbound.control.length < MAX_PENDING_CONTROL
      · simp [h1, h2, SessionData.withControl]
      · simp [h1, h2]

/-! ### `handlePacket`, acknowledgements of the client's own requests -/

/-- The state after `ack_packet id k`. -/
def SessionData.acked (d : SessionData) (id : Nat) (k : AckKind) : SessionData :=
  { d with outbound := (d.outbound.ackPacket id k).1 }

/-- Does the retained list hold a packet that `(id, k)` acknowledges? -/
def SessionData.awaits (d : SessionData) (id : Nat) (k : AckKind) : Bool :=
  d.outbound.retained.any (ackPred d.outbound id k)

theorem handlePacket_subAck (d : SessionData) (r : Runtime) (id : Nat) (pr codes : Bytes) :
    handlePacket d r (.subAck id pr codes) =
      if d.awaits id .subAck then
        (d.acked id .subAck, r, match firstFailure codes with
          | some rc => .error (.peerRejected rc)
          | none => .ok false)
      else (d, r, .ok false) := by
  simp only [handlePacket, SessionData.awaits, ← ackPacket_found_iff, SessionData.acked]
  cases (d.outbound.ackPacket id .subAck).2 <;> simp <;> split <;> simp_all

theorem handlePacket_unsubAck (d : SessionData) (r : Runtime) (id : Nat) (pr codes : Bytes) :
    handlePacket d r (.unsubAck id pr codes) =
      if d.awaits id .unsubAck then
        (d.acked id .unsubAck, r, match firstFailure codes with
          | some rc => .error (.peerRejected rc)
          | none => .ok false)
      else (d, r, .ok false) := by
  simp only [handlePacket, SessionData.awaits, ← ackPacket_found_iff, SessionData.acked]
  cases (d.outbound.ackPacket id .unsubAck).2 <;> simp <;> split <;> simp_all

theorem handlePacket_pubAck (d : SessionData) (r : Runtime) (id : Nat) (rs : ReasonIn) :
    handlePacket d r (.pubAck id rs) =
      if d.awaits id .pubAck then
        (d.acked id .pubAck, quotaInc r,
          if reasonSuccess rs.rc then .ok false else .error (.peerRejected rs.rc))
      else (d, r, .ok false) := by
  simp only [handlePacket, SessionData.awaits, ← ackPacket_found_iff, SessionData.acked]
  cases (d.outbound.ackPacket id .pubAck).2 <;> simp <;> split <;> simp_all

/-- The state after a release entry for `id` was appended (`ps`, the entry's `rser` and the counter
`nextRser` are ghost). -/
def SessionData.withRelease (d : SessionData) (id : Nat) (ps : Nat := 0) : SessionData :=
  { d with outbound := { d.outbound with
      release := d.outbound.release ++ [{ id := id, rc := RC_Success, state := .write 0, rser := d.outbound.nextRser, pser := ps }],
      nextRser := d.outbound.nextRser + 1 } }

theorem handlePacket_pubRec (d : SessionData) (r : Runtime) (id : Nat) (rs : ReasonIn) :
    handlePacket d r (.pubRec id rs) =
      if d.awaits id .pubRec then
        if !reasonSuccess rs.rc then (d.acked id .pubRec, quotaInc r, .error (.peerRejected rs.rc))
        else if r.packetTooLarge 5 then (d.acked id .pubRec, r, .error .packetTooLarge)
        else if d.outbound.release.length < MAX_PENDING_RELEASE then
          ((d.acked id .pubRec).withRelease id (d.outbound.ackedSer id .pubRec), r, .ok false)
        else (d.acked id .pubRec, r, .error .inflightExhausted)
      else if d.outbound.hasPendingRelease id && !reasonSuccess rs.rc then (d, r, .error (.peerRejected rs.rc))
      else (d, r, .ok false) := by
  simp only [handlePacket, SessionData.awaits, ← ackPacket_found_iff, SessionData.acked]
  cases hf : (d.outbound.ackPacket id .pubRec).2
  · simp only [Bool.false_eq_true, if_false]
    by_cases h1 : d.outbound.hasPendingRelease id = true <;> by_cases h2 : reasonSuccess rs.rc = true <;> simp [h1, h2]
  · simp only [if_true]
    by_cases h2 : reasonSuccess rs.rc = true
    · simp only [h2, Bool.not_true, Bool.false_eq_true, if_false]
      rw [checkSize_pubrel, queueRelease_eq, (ackPacket_frame d.outbound id .pubRec).2.1]
      by_cases h3 : r.packetTooLarge 5 = true
      · simp [h3]
      · by_cases h4 : d.outbound.release.length < MAX_PENDING_RELEASE
        · simp [h3, h4, SessionData.withRelease, (ackPacket_frame d.outbound id .pubRec).2.1, ackPacket_nextRser]
        · simp [h3, h4]
    · simp [h2]

theorem ackRelease_eq (o : Outbound) (id : Nat) :
    o.ackRelease id = if o.hasPendingRelease id then
      ({ o with release := removeFirst (fun e => e.id == id) o.release }, true) else (o, false) := rfl

theorem handlePacket_pubComp (d : SessionData) (r : Runtime) (id : Nat) (rs : ReasonIn) :
    handlePacket d r (.pubComp id rs) =
      if d.outbound.hasPendingRelease id then
        ({ d with outbound := { d.outbound with release := removeFirst (fun e => e.id == id) d.outbound.release } },
          quotaInc r, if reasonSuccess rs.rc then .ok false else .error (.peerRejected rs.rc))
      else (d, r, .ok false) := by
  simp only [handlePacket, ackRelease_eq]
  by_cases h : d.outbound.hasPendingRelease id = true
  · simp only [h, if_true, Bool.not_true, Bool.false_eq_true, if_false]
    split <;> rfl
  · simp [h]

theorem handlePacket_other (d : SessionData) (r : Runtime) :
    (∀ sp rc pr, handlePacket d r (.connAck sp rc pr) = (d, r, .error .peerInvalid)) ∧
    handlePacket d r .pingResp = (d, { r with pingTimeout := none }, .ok false) ∧
    (∀ rc pr, handlePacket d r (.disconnect rc pr) = (d, r, .error .disconnected)) :=
  ⟨fun _ _ _ => rfl, rfl, fun _ _ => rfl⟩

/-! ### What each inbound packet does to each part of the session data -/

/-- Which retained packet an inbound packet acknowledges: identifier and kind. -/
def Recv.ackOf : Recv → Option (Nat × AckKind)
  | .subAck id _ _ => some (id, .subAck)
  | .unsubAck id _ _ => some (id, .unsubAck)
  | .pubAck id _ => some (id, .pubAck)
  | .pubRec id _ => some (id, .pubRec)
  | _ => none

/-- `o'` is `o` with at most one fresh entry appended to the control queue. -/
def OnlyControl (o o' : Outbound) : Prop :=
  o' = o ∨ ∃ a, o' = { o with control := o.control ++ [{ action := a, state := .write 0 }] }

theorem ackOutcome_frame (d : SessionData) (r : Runtime) (a : ControlAction) (dl : Bool) :
    OnlyControl d.outbound (ackOutcome d r a dl).1.outbound ∧
    (ackOutcome d r a dl).1.pendingServerIds = d.pendingServerIds ∧
    (ackOutcome d r a dl).1.generation = d.generation ∧
    ∀ rc, (ackOutcome d r a dl).2.2 ≠ .error (.peerRejected rc) := by
  unfold ackOutcome
  split
  · exact ⟨Or.inl rfl, rfl, rfl, fun _ h => by simp at h⟩
  · split
    · exact ⟨Or.inr ⟨a, rfl⟩, rfl, rfl, fun _ h => by simp at h⟩
    · exact ⟨Or.inl rfl, rfl, rfl, fun _ h => by simp at h⟩

theorem ackOutcome2_frame (d : SessionData) (r : Runtime) (a : ControlAction) (dl : Bool) (ids : List Nat) :
    OnlyControl d.outbound (ackOutcome2 d r a dl ids).1.outbound ∧
    (ackOutcome2 d r a dl ids).1.pendingServerIds =
      (if r.packetTooLarge 5 = false ∧ d.outbound.control.length < MAX_PENDING_CONTROL then ids else d.pendingServerIds) ∧
    (ackOutcome2 d r a dl ids).1.generation = d.generation ∧
    ∀ rc, (ackOutcome2 d r a dl ids).2.2 ≠ .error (.peerRejected rc) := by
  unfold ackOutcome2
  by_cases h1 : r.packetTooLarge 5 = true
  · simp only [h1, if_true]
    exact ⟨Or.inl rfl, by simp, (by first | rfl | trivial), fun _ h => by simp at h⟩
  · simp only [h1, Bool.false_eq_true, if_false]
    by_cases h2 : d.outbound.control.length < MAX_PENDING_CONTROL
    · simp only [h2, if_true]
      exact ⟨Or.inr ⟨a, rfl⟩, by simp [h1], (by first | rfl | trivial), fun _ h => by simp at h⟩
    · simp only [h2, if_false]
      exact ⟨Or.inl rfl, by simp [h2], (by first | rfl | trivial), fun _ h => by simp at h⟩

/-- Packets that acknowledge nothing of ours and are not PUBCOMP leave the retained and release
queues alone: at most one acknowledgement is appended to the control queue. -/
theorem handlePacket_onlyControl (d : SessionData) (r : Runtime) (p : Recv) (h : p.ackOf = none)
    (hc : ∀ id rs, p ≠ .pubComp id rs) :
    OnlyControl d.outbound (handlePacket d r p).1.outbound ∧ (handlePacket d r p).1.generation = d.generation ∧
    ∀ rc, (handlePacket d r p).2.2 ≠ .error (.peerRejected rc) := by
  cases p with
  | connAck sp rc props => exact ⟨Or.inl rfl, rfl, fun _ h => by simp [handlePacket] at h⟩
  | pingResp => exact ⟨Or.inl rfl, rfl, fun _ h => by simp [handlePacket] at h⟩
  | disconnect rc props => exact ⟨Or.inl rfl, rfl, fun _ h => by simp [handlePacket] at h⟩
  | subAck id props codes => simp [Recv.ackOf] at h
  | unsubAck id props codes => simp [Recv.ackOf] at h
  | pubAck id rs => simp [Recv.ackOf] at h
  | pubRec id rs => simp [Recv.ackOf] at h
  | pubComp id rs => exact absurd rfl (hc id rs)
  | pubRel id rs =>
    by_cases hid : id = 0
    · subst hid; rw [handlePacket_pubRel0]; exact ⟨Or.inl rfl, rfl, fun _ h => by simp at h⟩
    · rw [handlePacket_pubRel d r id rs hid]
      split
      · have := ackOutcome_frame { d with pendingServerIds := handlePacket.swapRemove d.pendingServerIds id } r
          { typ := MT_PubComp, id := id, rc := RC_Success } false
        exact ⟨this.1, this.2.2.1, this.2.2.2⟩
      · have := ackOutcome_frame d r { typ := MT_PubComp, id := id, rc := RC_PacketIdNotFound } false
        exact ⟨this.1, this.2.2.1, this.2.2.2⟩
  | publish topic id props payload retain qos dup =>
    by_cases hq0 : qos = 0
    · subst hq0; rw [handlePacket_publish0]; exact ⟨Or.inl rfl, rfl, fun _ h => by simp at h⟩
    · cases id with
      | none => rw [(handlePacket_publish_noid d r topic props payload retain dup qos hq0).1]; exact ⟨Or.inl rfl, rfl, fun _ h => by simp at h⟩
      | some id =>
        by_cases hid : id = 0
        · subst hid
          rw [(handlePacket_publish_noid d r topic props payload retain dup qos hq0).2]; exact ⟨Or.inl rfl, rfl, fun _ h => by simp at h⟩
        · by_cases hq1 : qos = 1
          · subst hq1
            rw [handlePacket_publish1 d r topic id props payload retain dup hid]
            have := ackOutcome_frame d r { typ := MT_PubAck, id := id, rc := qos1Rc d.pendingServerIds id } true
            exact ⟨this.1, this.2.2.1, this.2.2.2⟩
          · rw [handlePacket_publish2 d r topic id props payload retain dup qos hid hq0 hq1]
            have := ackOutcome2_frame d r
              { typ := MT_PubRec, id := id, rc := (qos2Ids d.pendingServerIds id).2 }
              (!d.pendingServerIds.contains id && decide (d.pendingServerIds.length < MAX_INBOUND_QOS2))
              (qos2Ids d.pendingServerIds id).1
            exact ⟨this.1, this.2.2.1, this.2.2.2⟩

theorem acked_frame (d : SessionData) (id : Nat) (k : AckKind) :
    (d.acked id k).outbound.keys = (removeFirst (ackPred d.outbound id k) d.outbound.retained).map RetainedPacket.key ∧
    (d.acked id k).outbound.release = d.outbound.release ∧ (d.acked id k).outbound.control = d.outbound.control ∧
    (d.acked id k).pendingServerIds = d.pendingServerIds ∧ (d.acked id k).generation = d.generation ∧
    (d.acked id k).outbound.nextSer = d.outbound.nextSer := by
  have := ackPacket_frame d.outbound id k
  exact ⟨this.1, this.2.1, this.2.2.1, rfl, rfl, this.2.2.2⟩

/-- **Which retained packet an inbound packet removes**: none, unless the packet is a SUBACK, UNSUBACK,
PUBACK or PUBREC; then the first entry with that identifier whose first byte is of the acknowledged
kind (none if there is no such entry). Everything else about the retained entries — serial,
identifier, length, send state, order — stays. -/
theorem handlePacket_keys (d : SessionData) (r : Runtime) (p : Recv) :
    (handlePacket d r p).1.outbound.keys =
      match p.ackOf with
      | none => d.outbound.keys
      | some (id, k) => (removeFirst (ackPred d.outbound id k) d.outbound.retained).map RetainedPacket.key := by
  have hnf : ∀ id k, d.awaits id k = false →
      d.outbound.keys = (removeFirst (ackPred d.outbound id k) d.outbound.retained).map RetainedPacket.key := by
    intro id k h; rw [removeFirst_none h]; rfl
  cases hp : p.ackOf with
  | none =>
    simp only []
    by_cases hc : ∃ id rs, p = .pubComp id rs
    · obtain ⟨id, rs, rfl⟩ := hc
      rw [handlePacket_pubComp]; split <;> rfl
    · have := (handlePacket_onlyControl d r p hp (fun id rs h => hc ⟨id, rs, h⟩)).1
      rcases this with h | ⟨a, h⟩ <;> rw [h] <;> rfl
  | some ik =>
    obtain ⟨id, k⟩ := ik
    simp only []
    cases p with
    | subAck i props codes =>
      simp only [Recv.ackOf, Option.some.injEq, Prod.mk.injEq] at hp; obtain ⟨rfl, rfl⟩ := hp
      rw [handlePacket_subAck]
      cases h : d.awaits i .subAck
      · exact hnf _ _ h
      · exact (acked_frame d i .subAck).1
    | unsubAck i props codes =>
      simp only [Recv.ackOf, Option.some.injEq, Prod.mk.injEq] at hp; obtain ⟨rfl, rfl⟩ := hp
      rw [handlePacket_unsubAck]
      cases h : d.awaits i .unsubAck
      · exact hnf _ _ h
      · exact (acked_frame d i .unsubAck).1
    | pubAck i rs =>
      simp only [Recv.ackOf, Option.some.injEq, Prod.mk.injEq] at hp; obtain ⟨rfl, rfl⟩ := hp
      rw [handlePacket_pubAck]
      cases h : d.awaits i .pubAck
      · exact hnf _ _ h
      · exact (acked_frame d i .pubAck).1
    | pubRec i rs =>
      simp only [Recv.ackOf, Option.some.injEq, Prod.mk.injEq] at hp; obtain ⟨rfl, rfl⟩ := hp
      rw [handlePacket_pubRec]
      cases h : d.awaits i .pubRec
      · simp only [Bool.false_eq_true, if_false]
        split <;> exact hnf _ _ h
      · simp only [if_true]
        repeat' split
        all_goals first
          | exact (acked_frame d i .pubRec).1
          | (show (d.acked i .pubRec).outbound.keys = _; exact (acked_frame d i .pubRec).1)
    | _ => simp [Recv.ackOf] at hp

/-- The release queue after an inbound packet: one entry appended by a successful PUBREC that found its
PUBLISH, one entry removed by a PUBCOMP, untouched otherwise. -/
theorem handlePacket_release (d : SessionData) (r : Runtime) (p : Recv) :
    (handlePacket d r p).1.outbound.release =
      match p with
      | .pubRec id rs =>
        if d.awaits id .pubRec && reasonSuccess rs.rc && !r.packetTooLarge 5 &&
            decide (d.outbound.release.length < MAX_PENDING_RELEASE)
        then d.outbound.release ++ [{ id := id, rc := RC_Success, state := .write 0, rser := d.outbound.nextRser,
                                      pser := d.outbound.ackedSer id .pubRec }] else d.outbound.release
      | .pubComp id _ => removeFirst (fun e => e.id == id) d.outbound.release
      | _ => d.outbound.release := by
  by_cases hc : ∃ id rs, p = .pubComp id rs
  · obtain ⟨id, rs, rfl⟩ := hc
    rw [handlePacket_pubComp]
    simp only []
    split
    · rfl
    · rename_i h
      simp only [hasPendingRelease, Bool.not_eq_true] at h
      rw [removeFirst_none h]
  · cases hp : p.ackOf with
    | none =>
      have := (handlePacket_onlyControl d r p hp (fun id rs h => hc ⟨id, rs, h⟩)).1
      have hrel : (handlePacket d r p).1.outbound.release = d.outbound.release := by
        rcases this with h | ⟨a, h⟩ <;> rw [h]
      rw [hrel]
      cases p <;> first | exact absurd ⟨_, _, rfl⟩ hc | rfl | (simp [Recv.ackOf] at hp; done)
    | some ik =>
      cases p with
      | subAck i props codes =>
        rw [handlePacket_subAck]; simp only []; split
        · exact (acked_frame d i .subAck).2.1
        · rfl
      | unsubAck i props codes =>
        rw [handlePacket_unsubAck]; simp only []; split
        · exact (acked_frame d i .unsubAck).2.1
        · rfl
      | pubAck i rs =>
        rw [handlePacket_pubAck]; simp only []; split
        · exact (acked_frame d i .pubAck).2.1
        · rfl
      | pubRec i rs =>
        rw [handlePacket_pubRec]
        simp only []
        have hr := (acked_frame d i .pubRec).2.1
        by_cases h1 : d.awaits i .pubRec = true
        · by_cases h2 : reasonSuccess rs.rc = true
          · by_cases h3 : r.packetTooLarge 5 = true
            · simp [h1, h2, h3, hr]
            · by_cases h4 : d.outbound.release.length < MAX_PENDING_RELEASE
              · have hn : (d.acked i .pubRec).outbound.nextRser = d.outbound.nextRser := ackPacket_nextRser _ _ _
                simp [h1, h2, h3, h4, SessionData.withRelease, hr, hn]
              · simp [h1, h2, h3, h4, hr]
          · simp [h1, h2, hr]
        · simp only [h1, Bool.false_eq_true, if_false, Bool.false_and]
          split <;> rfl
      | _ => simp [Recv.ackOf] at hp

theorem handlePacket_generation (d : SessionData) (r : Runtime) (p : Recv) :
    (handlePacket d r p).1.generation = d.generation := by
  by_cases hc : ∃ id rs, p = .pubComp id rs
  · obtain ⟨id, rs, rfl⟩ := hc
    rw [handlePacket_pubComp]; split <;> rfl
  · cases hp : p.ackOf with
    | none => exact (handlePacket_onlyControl d r p hp (fun id rs h => hc ⟨id, rs, h⟩)).2.1
    | some ik =>
      cases p with
      | subAck i props codes => rw [handlePacket_subAck]; split <;> rfl
      | unsubAck i props codes => rw [handlePacket_unsubAck]; split <;> rfl
      | pubAck i rs => rw [handlePacket_pubAck]; split <;> rfl
      | pubRec i rs => rw [handlePacket_pubRec]; repeat' split
                       all_goals rfl
      | _ => simp [Recv.ackOf] at hp

/-- The list of inbound QoS 2 identifiers changes only on an inbound QoS 2 PUBLISH whose PUBREC is
queued (identifier recorded) and on an inbound PUBREL (identifier removed). -/
theorem handlePacket_pendingIds (d : SessionData) (r : Runtime) (p : Recv) :
    (handlePacket d r p).1.pendingServerIds =
      match p with
      | .publish _ (some id) _ _ _ qos _ =>
        if qos = 0 ∨ qos = 1 ∨ id = 0 then d.pendingServerIds
        else if r.packetTooLarge 5 = false ∧ d.outbound.control.length < MAX_PENDING_CONTROL then
          (qos2Ids d.pendingServerIds id).1
        else d.pendingServerIds
      | .pubRel id _ =>
        if id ≠ 0 ∧ d.pendingServerIds.contains id then handlePacket.swapRemove d.pendingServerIds id
        else d.pendingServerIds
      | _ => d.pendingServerIds := by
  cases p with
  | connAck sp rc props => rfl
  | pingResp => rfl
  | disconnect rc props => rfl
  | subAck i props codes => show _ = d.pendingServerIds; rw [handlePacket_subAck]; split <;> rfl
  | unsubAck i props codes => show _ = d.pendingServerIds; rw [handlePacket_unsubAck]; split <;> rfl
  | pubAck i rs => show _ = d.pendingServerIds; rw [handlePacket_pubAck]; split <;> rfl
  | pubRec i rs =>
    show _ = d.pendingServerIds
    rw [handlePacket_pubRec]; repeat' split
    all_goals rfl
  | pubComp i rs => show _ = d.pendingServerIds; rw [handlePacket_pubComp]; split <;> rfl
  | pubRel id rs =>
    simp only []
    by_cases hid : id = 0
    · subst hid; rw [handlePacket_pubRel0]; simp
    · rw [handlePacket_pubRel d r id rs hid]
      by_cases hcn : d.pendingServerIds.contains id = true
      · simp only [hcn, if_true, hid, ne_eq, not_false_eq_true, and_self]
        exact (ackOutcome_frame _ r _ false).2.1
      · simp only [hcn, Bool.false_eq_true, if_false, and_false]
        exact (ackOutcome_frame _ r _ false).2.1
  | publish topic id props payload retain qos dup =>
    by_cases hq0 : qos = 0
    · subst hq0; rw [handlePacket_publish0]; cases id <;> simp
    · cases id with
      | none => rw [(handlePacket_publish_noid d r topic props payload retain dup qos hq0).1]
      | some id =>
        simp only []
        by_cases hid : id = 0
        · subst hid
          rw [(handlePacket_publish_noid d r topic props payload retain dup qos hq0).2]; simp
        · by_cases hq1 : qos = 1
          · subst hq1
            rw [handlePacket_publish1 d r topic id props payload retain dup hid]
            simp only [true_or, or_true, if_true]
            exact (ackOutcome_frame _ r _ true).2.1
          · rw [handlePacket_publish2 d r topic id props payload retain dup qos hid hq0 hq1]
            simp only [hq0, hq1, hid, or_self, if_false]
            exact (ackOutcome2_frame _ r _ _ _).2.1

/-! ### Executions as sequences of primitive steps -/

/-- One application of a session primitive, in exactly the forms in which the operations apply them
(one constructor per field of `Closed`; `encode` covers `encodeConnect` and `encodeScratch`). -/
inductive SessStep : Session → Session → Prop
  | queuePing (s : Session) (now : Nat) (s' : Session) : s.queuePing now = .ok s' → SessStep s s'
  | completeFlush (s : Session) (pkt : Flushed) (now : Nat) : SessStep s (s.completeFlush pkt now)
  | setWritten (s : Session) (pkt : Flushed) (a c : Nat) : SessStep s (s.setWritten pkt a c)
  | takePkt (s : Session) : SessStep s s.takePkt.1
  | handle (s : Session) (p : Recv) : SessStep s (s.handle p).1
  | handleDisconnect (s : Session) : SessStep s s.handleDisconnect
  | activate (s : Session) (sp : Bool) (block : Bytes) (now : Nat) : SessStep s (s.activate sp block now).1
  | alloc (s : Session) : SessStep s s.alloc.1
  | encode {ε : Type} (s : Session) (enc : Nat → (Nat → Nat → Bytes) → Except ε (Nat × Bytes)) :
      EncOk enc → SessStep s (s.encode enc).1
  | encodeAfterAlloc {ε : Type} (s : Session) (enc : Nat → (Nat → Nat → Bytes) → Except ε (Nat × Bytes)) :
      EncOk enc → SessStep s (s.alloc.1.encode enc).1
  | enqueue {ε : Type} (s : Session) (enc : Nat → (Nat → Nat → Bytes) → Except ε (Nat × Bytes))
      (off len : Nat) (isPub : Bool) (s3 : Session) (typ : Nat) : EncOk enc → EncTyp enc typ →
      (isPub = true ↔ typ = MT_Publish) → (isPub = true → s.rt.sendQuota ≠ 0) →
      (s.alloc.1.encode enc).2 = .ok (off, len) →
      (s.alloc.1.encode enc).1.retain s.alloc.2 off len isPub = some s3 → SessStep s s3
  | clearPing (s : Session) : SessStep s s.clearPing
  | noteActivity (s : Session) (now : Nat) : SessStep s (s.noteActivity now)
  | window (s s' : Session) (n : Nat) : s.window = some (s', n) → SessStep s s'
  | commit (s : Session) (bytes : Bytes) : SessStep s (s.commit bytes)
  | beginConnect (s : Session) : SessStep s s.beginConnect
  | setPid (s : Session) (n : Nat) : 1 ≤ n → n ≤ 65535 → SessStep s (s.setPid n)

/-- A closed predicate is preserved by every step… -/
theorem Closed.step {P : Session → Prop} (hc : Closed P) {s s' : Session} (st : SessStep s s') (hp : P s) : P s' := by
  cases st
  case queuePing now hq => exact hc.queuePing _ _ _ hp hq
  case completeFlush pkt now => exact hc.completeFlush _ _ _ hp
  case setWritten pkt a c => exact hc.setWritten _ _ _ _ hp
  case takePkt => exact hc.takePkt _ hp
  case handle p => exact hc.handle _ _ hp
  case handleDisconnect => exact hc.handleDisconnect _ hp
  case activate sp block now => exact hc.activate _ _ _ _ hp
  case alloc => exact hc.alloc _ hp
  case encode ε enc he => exact hc.encodeScratch _ _ he hp
  case encodeAfterAlloc ε enc he => exact hc.encodeAfterAlloc _ _ he hp
  case enqueue ε enc off len isPub typ he ht hpub hq hres hr => exact hc.enqueue _ _ _ _ _ _ _ he ht hpub hp hq hres hr
  case clearPing => exact hc.clearPing _ hp
  case noteActivity now => exact hc.noteActivity _ _ hp
  case window n hw => exact hc.window _ _ _ hp hw
  case commit bytes => exact hc.commit _ _ hp
  case beginConnect => exact hc.beginConnect _ hp
  case setPid n h1 h2 => exact hc.setPid _ _ h1 h2 hp

/-- …and conversely. -/
theorem Closed.of_step {P : Session → Prop} (h : ∀ s s', SessStep s s' → P s → P s') : Closed P where
  queuePing := fun s now s' hp hq => h _ _ (.queuePing s now s' hq) hp
  completeFlush := fun s pkt now hp => h _ _ (.completeFlush s pkt now) hp
  setWritten := fun s pkt a c hp => h _ _ (.setWritten s pkt a c) hp
  takePkt := fun s hp => h _ _ (.takePkt s) hp
  handle := fun s p hp => h _ _ (.handle s p) hp
  handleDisconnect := fun s hp => h _ _ (.handleDisconnect s) hp
  activate := fun s sp block now hp => h _ _ (.activate s sp block now) hp
  alloc := fun s hp => h _ _ (.alloc s) hp
  encodeConnect := fun s c hp => h _ _ (.encode s _ (EncOk_encodeConnect c)) hp
  encodeAfterAlloc := fun s enc he hp => h _ _ (.encodeAfterAlloc s enc he) hp
  encodeScratch := fun s enc he hp => h _ _ (.encode s enc he) hp
  enqueue := fun s enc off len isPub s3 typ he ht hpub hp hq hres hr =>
    h _ _ (.enqueue s enc off len isPub s3 typ he ht hpub hq hres hr) hp
  clearPing := fun s hp => h _ _ (.clearPing s) hp
  noteActivity := fun s now hp => h _ _ (.noteActivity s now) hp
  window := fun s s' n hp hw => h _ _ (.window s s' n hw) hp
  commit := fun s bytes hp => h _ _ (.commit s bytes) hp
  beginConnect := fun s hp => h _ _ (.beginConnect s) hp
  setPid := fun s n h1 h2 hp => h _ _ (.setPid s n h1 h2) hp

theorem Closed.true : Closed (fun _ => True) := Closed.of_step (fun _ _ _ _ => trivial)

theorem Closed.and {P Q : Session → Prop} (hp : Closed P) (hq : Closed Q) : Closed (fun s => P s ∧ Q s) :=
  Closed.of_step (fun _ _ st ⟨h1, h2⟩ => ⟨hp.step st h1, hq.step st h2⟩)

/-- `b` is reached from `a` by primitive steps, and `I` holds after each of them. -/
inductive Reach (I : Session → Prop) : Session → Session → Prop
  | refl (s : Session) : Reach I s s
  | tail {a b c : Session} : Reach I a b → SessStep b c → I c → Reach I a c

theorem Reach.trans {I : Session → Prop} {a b c : Session} (h1 : Reach I a b) (h2 : Reach I b c) : Reach I a c := by
  induction h2 with
  | refl => exact h1
  | tail _ st hi ih => exact ih.tail st hi

theorem Reach.mono {I J : Session → Prop} (hIJ : ∀ s, I s → J s) {a b : Session} (h : Reach I a b) : Reach J a b := by
  induction h with
  | refl => exact Reach.refl _
  | tail _ st hi ih => exact ih.tail st (hIJ _ hi)

/-- The end of a chain satisfies the invariant if the start does. -/
theorem Reach.inv {I : Session → Prop} {a b : Session} (h : Reach I a b) (ha : I a) : I b := by
  cases h with
  | refl => exact ha
  | tail _ _ hi => exact hi

/-- Being reachable from `s0` by steps that each preserve a closed predicate `I` is itself closed. -/
theorem closed_Reach {I : Session → Prop} (hI : Closed I) (s0 : Session) :
    Closed (fun s => I s ∧ Reach I s0 s) :=
  Closed.of_step (fun _ _ st ⟨hi, hr⟩ => ⟨hI.step st hi, hr.tail st (hI.step st hi)⟩)

/-- **Every execution is a chain of primitive steps.** From any world, after any program, the session
has been reached by primitive steps, with every closed predicate that held at the start holding after
each step. -/
theorem run_reach {I : Session → Prop} (hI : Closed I) (ds : List Directive) (w : World) (h : I w.sess) :
    Reach I w.sess (ds.foldl World.execDirective w).sess :=
  (run_inv (closed_Reach hI w.sess) ds w ⟨h, Reach.refl _⟩).2

/-! ### What the steps other than `handle` and a fresh-session `activate` do -/

/-- Serial, identifier and length of every retained packet, oldest first. -/
def Outbound.tags (o : Outbound) : List (Nat × Nat × Nat) := o.retained.map fun e => (e.ser, e.id, e.len)

/-- Identifier and reason code of every release entry (PUBREL owed to the broker), oldest first. -/
def Outbound.relKeys (o : Outbound) : List (Nat × Nat) := o.release.map fun e => (e.id, e.rc)

theorem tags_eq_keys (o : Outbound) : o.tags = o.keys.map (fun k => (k.1, k.2.1, k.2.2.1)) := by
  simp [Outbound.tags, Outbound.keys, RetainedPacket.key, Function.comp_def]

theorem sers_eq_tags (o : Outbound) : o.sers = o.tags.map (·.1) := by
  simp [Outbound.sers, Outbound.tags, Function.comp_def]

/-- The outbound state changed "quietly": same release entries in the same order, same retained
packets in the same order except possibly one new packet at the end (with the next serial). Send
states, offsets, buffer and control queue may differ. -/
structure QuietO (o o' : Outbound) : Prop where
  release : o'.relKeys = o.relKeys
  retained : (o'.tags = o.tags ∧ o'.nextSer = o.nextSer) ∨
    ∃ id len, o'.tags = o.tags ++ [(o.nextSer, id, len)] ∧ o'.nextSer = o.nextSer + 1

theorem QuietO.same {o o' : Outbound} (h1 : o'.relKeys = o.relKeys) (h2 : o'.tags = o.tags) (h3 : o'.nextSer = o.nextSer) :
    QuietO o o' := ⟨h1, Or.inl ⟨h2, h3⟩⟩

theorem QuietO.refl (o : Outbound) : QuietO o o := QuietO.same rfl rfl rfl

/-- `arm_replay` maps every entry of the three queues to the fresh state and changes nothing else in
them (when nothing is pending, the queues are empty). -/
theorem armReplay_queues (o : Outbound) :
    o.armReplay.retained = o.retained.map (fun e => { e with state := .write 0 }) ∧
    o.armReplay.release = o.release.map (fun e => { e with state := .write 0 }) ∧
    o.armReplay.control = o.control.map (fun e => { e with state := .write 0 }) ∧
    o.armReplay.nextSer = o.nextSer := by
  unfold armReplay
  split
  · rename_i h
    simp only [hasPendingState, Bool.not_eq_true', Bool.or_eq_false_iff, Bool.not_eq_false',
      List.isEmpty_iff] at h
    obtain ⟨⟨h1, h2⟩, h3⟩ := h
    simp [h1, h2, h3]
  · exact ⟨rfl, rfl, rfl, rfl⟩

theorem QuietO.armReplay (o : Outbound) : QuietO o o.armReplay := by
  obtain ⟨h1, h2, _, h4⟩ := armReplay_queues o
  exact QuietO.same (by simp [Outbound.relKeys, h2, Function.comp_def]) (by simp [Outbound.tags, h1, Function.comp_def]) h4

theorem QuietO.rearm (o : Outbound) : QuietO o o.rearm := by
  obtain ⟨h1, h2⟩ := QuietO.armReplay o.dropPingreq
  exact ⟨h1, h2⟩

theorem encodeAt_frame {ε : Type} (o : Outbound) (enc : Nat → (Nat → Nat → Bytes) → Except ε (Nat × Bytes)) :
    (o.encodeAt enc).1.keys = o.keys ∧ (o.encodeAt enc).1.release = o.release ∧
    (o.encodeAt enc).1.control = o.control ∧ (o.encodeAt enc).1.nextSer = o.nextSer := by
  unfold encodeAt
  simp only []
  split
  · exact ⟨compact_keys o, rfl, rfl, rfl⟩
  · exact ⟨compact_keys o, rfl, rfl, rfl⟩

theorem QuietO.encodeAt {ε : Type} (o : Outbound) (enc : Nat → (Nat → Nat → Bytes) → Except ε (Nat × Bytes)) :
    QuietO o (o.encodeAt enc).1 := by
  obtain ⟨h1, h2, _, h4⟩ := encodeAt_frame o enc
  exact QuietO.same (by simp [Outbound.relKeys, h2]) (by rw [tags_eq_keys, h1, ← tags_eq_keys]) h4

theorem QuietO.control (o : Outbound) (c : List PendingControl) : QuietO o { o with control := c } :=
  QuietO.same rfl rfl rfl

theorem QuietO.releaseState (o : Outbound) (p : PendingRelease → Bool) (st : SendState) :
    QuietO o { o with release := modifyFirst p (fun e => { e with state := st }) o.release } :=
  QuietO.same (modifyFirst_map p (fun e => { e with state := st }) (fun e => (e.id, e.rc)) (fun _ => rfl) o.release) rfl rfl

theorem QuietO.retainedState (o : Outbound) (p : RetainedPacket → Bool) (st : SendState) :
    QuietO o { o with retained := modifyFirst p (fun e => { e with state := st }) o.retained } :=
  QuietO.same rfl (modifyFirst_map p (fun e => { e with state := st }) (fun e => (e.ser, e.id, e.len)) (fun _ => rfl) o.retained) rfl

theorem retainPacket_some {o o' : Outbound} {id off len : Nat} (h : o.retainPacket id off len = some o') :
    o.retained.length < MAX_RETAINED ∧
    o' = { o with retained := o.retained ++ [{ id := id, offset := off, len := len, state := .write 0, ser := o.nextSer }],
                  used := max o.used (off + len), nextSer := o.nextSer + 1 } := by
  unfold retainPacket at h
  split at h
  · simp at h
  · simp only [Option.some.injEq] at h
    exact ⟨by omega, h.symm⟩

theorem QuietO.trans_same {a b c : Outbound} (h1 : b.relKeys = a.relKeys ∧ b.tags = a.tags ∧ b.nextSer = a.nextSer)
    (h2 : QuietO b c) : QuietO a c := by
  obtain ⟨r, t, n⟩ := h1
  refine ⟨by rw [h2.release, r], ?_⟩
  rcases h2.retained with ⟨h, hn⟩ | ⟨id, len, h, hn⟩
  · exact Or.inl ⟨by rw [h, t], by rw [hn, n]⟩
  · exact Or.inr ⟨id, len, by rw [h, t, n], by rw [hn, n]⟩

theorem QuietO.retainPacket {o o' : Outbound} {id off len : Nat} (h : o.retainPacket id off len = some o') :
    QuietO o o' := by
  obtain ⟨_, rfl⟩ := retainPacket_some h
  exact ⟨rfl, Or.inr ⟨id, len, by simp [Outbound.tags], rfl⟩⟩

/-- The session data changed quietly: same generation, same inbound QoS 2 identifiers, quiet outbound. -/
structure Quiet (d d' : SessionData) : Prop where
  generation : d'.generation = d.generation
  pending : d'.pendingServerIds = d.pendingServerIds
  out : QuietO d.outbound d'.outbound

theorem Quiet.refl (d : SessionData) : Quiet d d := ⟨rfl, rfl, QuietO.refl _⟩

theorem Quiet.of_out {d : SessionData} {o : Outbound} (h : QuietO d.outbound o) : Quiet d { d with outbound := o } :=
  ⟨rfl, rfl, h⟩

theorem nextPacketIdFuel_frame (fuel : Nat) (d : SessionData) :
    (d.nextPacketIdFuel fuel).1.outbound = d.outbound ∧ (d.nextPacketIdFuel fuel).1.generation = d.generation ∧
    (d.nextPacketIdFuel fuel).1.pendingServerIds = d.pendingServerIds := by
  induction fuel generalizing d with
  | zero => exact ⟨rfl, rfl, rfl⟩
  | succ n ih =>
    simp only [SessionData.nextPacketIdFuel]
    split
    · exact ⟨rfl, rfl, rfl⟩
    · exact ih _

theorem Quiet.nextPacketId (d : SessionData) : Quiet d d.nextPacketId.1 := by
  obtain ⟨h1, h2, h3⟩ := nextPacketIdFuel_frame (MAX_RETAINED + MAX_PENDING_RELEASE + 1) d
  exact ⟨h2, h3, by unfold SessionData.nextPacketId; rw [h1]; exact QuietO.refl _⟩

theorem Quiet.trans_eq {a b c : SessionData} (h1 : Quiet a b) (h2 : Quiet b c)
    (hb : b.outbound.relKeys = a.outbound.relKeys ∧ b.outbound.tags = a.outbound.tags ∧ b.outbound.nextSer = a.outbound.nextSer) :
    Quiet a c :=
  ⟨by rw [h2.generation, h1.generation], by rw [h2.pending, h1.pending], QuietO.trans_same hb h2.out⟩

/-- What a CONNACK of a fresh broker session does to the data: everything that was in flight is gone and
the generation is bumped. -/
theorem activate_false_data (s : Session) (block : Bytes) (now : Nat) :
    let d' := (s.activate false block now).1.data
    d'.generation = (s.data.generation + 1) % 4294967296 ∧ d'.pendingServerIds = [] ∧
    d'.outbound.retained = [] ∧ d'.outbound.release = [] ∧ d'.outbound.control = [] ∧
    d'.outbound.nextSer = s.data.outbound.nextSer := by
  unfold Session.activate
  simp only [Bool.not_false, if_true]
  split
  · simp only [Session.handleDisconnect]
    have := armReplay_queues s.data.reset.outbound
    simp only [SessionData.reset, Outbound.clear, List.map_nil] at this ⊢
    exact ⟨trivial, trivial, this.1, this.2.1, this.2.2.1, this.2.2.2⟩
  · exact ⟨rfl, rfl, rfl, rfl, rfl, rfl⟩

/-- A CONNACK of a resumed session is quiet. -/
theorem activate_true_quiet (s : Session) (block : Bytes) (now : Nat) :
    Quiet s.data (s.activate true block now).1.data := by
  unfold Session.activate
  simp only [Bool.not_true, Bool.false_eq_true, if_false]
  split
  · exact ⟨rfl, rfl, QuietO.rearm _⟩
  · exact ⟨rfl, rfl, QuietO.refl _⟩

/-- **Classification of the primitive steps**: every step is quiet, or handles an inbound packet, or is
the CONNACK of a fresh broker session. -/
theorem SessStep.classify {s s' : Session} (st : SessStep s s') :
    Quiet s.data s'.data ∨ (∃ p, s' = (s.handle p).1) ∨ (∃ block now, s' = (s.activate false block now).1) := by
  cases st
  case queuePing now hq =>
    left
    rcases Session.queuePing_ok hq with rfl | ⟨o, ho, rfl⟩
    · exact Quiet.refl _
    · rw [queueControl_eq] at ho
      split at ho
      · simp only [Option.some.injEq] at ho; subst ho
        exact Quiet.of_out (QuietO.control _ _)
      · simp at ho
  case completeFlush pkt now =>
    left
    simp only [Session.completeFlush, Session.setOutbound]
    cases pkt <;> simp only []
    · exact Quiet.of_out (QuietO.control _ _)
    · exact Quiet.of_out (QuietO.releaseState _ _ _)
    · exact Quiet.of_out (QuietO.retainedState _ _ _)
  case setWritten pkt a c =>
    left
    simp only [Session.setWritten, Session.setOutbound]
    cases pkt <;> simp only []
    · exact Quiet.of_out (QuietO.control _ _)
    · exact Quiet.of_out (QuietO.releaseState _ _ _)
    · exact Quiet.of_out (QuietO.retainedState _ _ _)
  case takePkt => left; rw [(Session.takePkt_data s).1]; exact Quiet.refl _
  case handle p => exact Or.inr (Or.inl ⟨p, rfl⟩)
  case handleDisconnect => left; exact Quiet.of_out (QuietO.rearm _)
  case activate sp block now =>
    cases sp
    · exact Or.inr (Or.inr ⟨block, now, rfl⟩)
    · exact Or.inl (activate_true_quiet s block now)
  case alloc => left; rw [Session.alloc_fst]; exact Quiet.nextPacketId _
  case encode ε enc he => left; rw [Session.encode_fst]; exact Quiet.of_out (QuietO.encodeAt _ _)
  case encodeAfterAlloc ε enc he =>
    left
    rw [Session.encode_fst, Session.alloc_fst]
    have h1 := Quiet.nextPacketId s.data
    exact ⟨h1.generation, h1.pending, by
      simp only [Session.setOutbound]
      rw [nextPacketId_outbound]; exact QuietO.encodeAt _ _⟩
  case enqueue ε enc off len isPub typ he ht hpub hq hres hr =>
    left
    rw [Session.encode_fst, Session.alloc_fst, Session.alloc_snd] at hr
    unfold Session.retain at hr
    split at hr
    · simp at hr
    · rename_i o ho
      simp only [Session.setOutbound] at ho
      rw [nextPacketId_outbound] at ho
      have h1 := Quiet.nextPacketId s.data
      obtain ⟨e1, e2, _, e4⟩ := encodeAt_frame s.data.outbound enc
      have hq : QuietO s.data.outbound o :=
        QuietO.trans_same ⟨by simp [Outbound.relKeys, e2], by rw [tags_eq_keys, e1, ← tags_eq_keys], e4⟩
          (QuietO.retainPacket ho)
      simp only [Option.some.injEq] at hr
      subst hr
      split <;> exact ⟨h1.generation, h1.pending, hq⟩
  case clearPing => left; exact Quiet.refl _
  case noteActivity now => left; exact Quiet.refl _
  case window n hw =>
    left
    unfold Session.window at hw
    split at hw
    · simp at hw
    · simp only [Option.some.injEq, Prod.mk.injEq] at hw; rw [← hw.1]; exact Quiet.refl _
  case commit bytes => left; exact Quiet.refl _
  case beginConnect => left; exact Quiet.of_out (QuietO.rearm _)
  case setPid n h1 h2 => left; exact ⟨rfl, rfl, QuietO.refl _⟩

/-! ### `swap_remove` on the list of inbound QoS 2 identifiers -/

theorem idxOf?_split (l₁ l₂ : List Nat) (id : Nat) (h : id ∉ l₁) :
    (l₁ ++ id :: l₂).idxOf? id = some l₁.length := by
  unfold List.idxOf?
  rw [List.findIdx?_append]
  have : List.findIdx? (fun x => x == id) l₁ = none := by
    rw [List.findIdx?_eq_none_iff]
    intro x hx
    simp only [beq_eq_false_iff_ne, ne_eq]
    intro hxe; subst hxe; exact h hx
  rw [this]
  simp [List.findIdx?_cons]

theorem mem_split_first (l : List Nat) (id : Nat) (h : id ∈ l) :
    ∃ l₁ l₂, l = l₁ ++ id :: l₂ ∧ id ∉ l₁ := by
  induction l with
  | nil => simp at h
  | cons x xs ih =>
    by_cases hx : x = id
    · exact ⟨[], xs, by simp [hx], by simp⟩
    · simp only [List.mem_cons] at h
      rcases h with h | h
      · exact absurd h.symm hx
      · obtain ⟨l₁, l₂, h1, h2⟩ := ih h
        refine ⟨x :: l₁, l₂, by simp [h1], ?_⟩
        simp only [List.mem_cons, not_or]
        exact ⟨fun h' => hx h'.symm, h2⟩

theorem swapRemove_split (l₁ l₂ : List Nat) (id : Nat) (h : id ∉ l₁) :
    handlePacket.swapRemove (l₁ ++ id :: l₂) id =
      match l₂.getLast? with
      | none => l₁
      | some z => l₁ ++ z :: l₂.dropLast := by
  unfold handlePacket.swapRemove
  rw [idxOf?_split l₁ l₂ id h]
  simp only []
  rcases List.eq_nil_or_concat l₂ with rfl | ⟨m, z, rfl⟩
  · simp
  · simp only [List.concat_eq_append]
    have hl : (l₁ ++ id :: (m ++ [z])).getLast? = some z := by
      rw [← List.cons_append, ← List.append_assoc, List.getLast?_append]; simp
    rw [hl]
    simp only [List.getLast?_append, List.getLast?_singleton, Option.some_or, List.dropLast_concat]
    rw [if_neg (by simp)]
    rw [List.set_append]
    simp only [Nat.lt_irrefl, if_false, Nat.sub_self, List.set_cons_zero]
    rw [List.dropLast_append_cons]
    congr 1
    rw [← List.cons_append, List.dropLast_concat]

theorem swapRemove_perm (l : List Nat) (id : Nat) (h : id ∈ l) :
    (handlePacket.swapRemove l id).Perm (l.erase id) := by
  obtain ⟨l₁, l₂, rfl, hn⟩ := mem_split_first l id h
  rw [swapRemove_split l₁ l₂ id hn, List.erase_append, if_neg hn]
  simp only [List.erase_cons_head]
  rcases List.eq_nil_or_concat l₂ with rfl | ⟨m, z, rfl⟩
  · simp
  · simp only [List.concat_eq_append, List.getLast?_append, List.getLast?_singleton, Option.some_or,
      List.dropLast_concat]
    apply List.Perm.append_left
    have : z :: m = [z] ++ m := rfl
    rw [this]
    exact List.perm_append_comm


/-! ### Retained packets are lost only to their acknowledgement or to a fresh session -/

/-- Every retained serial of `a` is still retained in `b`, in the same order, and `b` has at most
grown at the end. -/
def NoLoss (a b : Outbound) : Prop := a.sers <+: b.sers

theorem NoLoss.refl (a : Outbound) : NoLoss a a := List.prefix_refl _
theorem NoLoss.trans {a b c : Outbound} (h1 : NoLoss a b) (h2 : NoLoss b c) : NoLoss a c := List.IsPrefix.trans h1 h2
theorem NoLoss.mem {a b : Outbound} (h : NoLoss a b) {ser : Nat} (hs : ser ∈ a.sers) : ser ∈ b.sers := h.subset hs

theorem QuietO.noLoss {o o' : Outbound} (h : QuietO o o') : NoLoss o o' := by
  unfold NoLoss
  rw [sers_eq_tags, sers_eq_tags]
  rcases h.retained with ⟨h, _⟩ | ⟨id, len, h, _⟩
  · rw [h]; exact List.prefix_refl _
  · rw [h, List.map_append]; exact List.prefix_append _ _

/-- The step from `s` to `s'` is the handling of the acknowledgement that the retained packet with
serial `ser` was waiting for — `e` is the first retained entry with the acknowledged identifier whose
first byte is of the acknowledged kind — or the CONNACK of a fresh broker session. -/
def Removal (s s' : Session) (ser : Nat) : Prop :=
  (∃ p id k l₁ e l₂, s' = (s.handle p).1 ∧ p.ackOf = some (id, k) ∧ s.data.outbound.retained = l₁ ++ e :: l₂ ∧
      (∀ x ∈ l₁, ackPred s.data.outbound id k x = false) ∧ e.ser = ser ∧ e.id = id ∧
      k.acknowledges (s.data.outbound.headerAt e.offset) = true ∧
      s'.data.outbound.keys = (l₁ ++ l₂).map RetainedPacket.key) ∨
  (∃ block now, s' = (s.activate false block now).1)

theorem handle_keys (s : Session) (p : Recv) :
    (s.handle p).1.data.outbound.keys =
      match p.ackOf with
      | none => s.data.outbound.keys
      | some (id, k) => (removeFirst (ackPred s.data.outbound id k) s.data.outbound.retained).map RetainedPacket.key := by
  rw [Session.handle_fst_data]; exact handlePacket_keys _ _ _

/-- **A step loses a retained packet only by acknowledging it or by starting a fresh session.** -/
theorem SessStep.loss {s s' : Session} (st : SessStep s s') {ser : Nat}
    (h1 : ser ∈ s.data.outbound.sers) (h2 : ser ∉ s'.data.outbound.sers) : Removal s s' ser := by
  rcases st.classify with hq | ⟨p, rfl⟩ | ⟨block, now, rfl⟩
  · exact absurd (hq.out.noLoss.mem h1) h2
  · left
    have hk := handle_keys s p
    cases hp : p.ackOf with
    | none =>
      rw [hp] at hk
      simp only [] at hk
      rw [sers_eq_keys, hk, ← sers_eq_keys] at h2
      exact absurd h1 h2
    | some ik =>
      obtain ⟨id, k⟩ := ik
      rw [hp] at hk
      simp only [] at hk
      cases ha : s.data.outbound.retained.any (ackPred s.data.outbound id k) with
      | false =>
        rw [removeFirst_none ha] at hk
        rw [sers_eq_keys, hk] at h2
        exact absurd (by rw [sers_eq_keys] at h1; exact h1) h2
      | true =>
        obtain ⟨l₁, e, l₂, e1, e2, e3, e4⟩ := removeFirst_split ha
        rw [e4] at hk
        refine ⟨p, id, k, l₁, e, l₂, rfl, hp, e1, e2, ?_, ?_, ?_, hk⟩
        · rw [sers_eq_keys, hk] at h2
          simp only [Outbound.sers, e1, List.map_append, List.map_cons, List.mem_append, List.mem_cons, List.mem_map] at h1
          simp only [List.map_map, List.map_append, List.mem_append, List.mem_map, Function.comp, RetainedPacket.key, not_or] at h2
          rcases h1 with ⟨x, hx, rfl⟩ | h | ⟨x, hx, rfl⟩
          · exact absurd ⟨x, hx, rfl⟩ h2.1
          · exact h.symm
          · exact absurd ⟨x, hx, rfl⟩ h2.2
        · simp only [ackPred, Bool.and_eq_true, beq_iff_eq] at e3; exact e3.1
        · simp only [ackPred, Bool.and_eq_true, beq_iff_eq] at e3; exact e3.2
  · exact Or.inr ⟨block, now, rfl⟩

/-- **Along any chain of steps** a retained packet that is no longer retained at the end was removed by
one particular step of the chain, and that step handled its acknowledgement or started a fresh
session. -/
theorem Reach.loss {I : Session → Prop} {s0 s : Session} (h : Reach I s0 s) {ser : Nat}
    (h1 : ser ∈ s0.data.outbound.sers) (h2 : ser ∉ s.data.outbound.sers) :
    ∃ a b, Reach I s0 a ∧ SessStep a b ∧ Reach I b s ∧ ser ∈ a.data.outbound.sers ∧ Removal a b ser := by
  induction h with
  | refl => exact absurd h1 h2
  | @tail b c hr st hi ih =>
    by_cases hb : ser ∈ b.data.outbound.sers
    · exact ⟨b, c, hr, st, Reach.refl _, hb, st.loss hb h2⟩
    · obtain ⟨x, y, r1, sxy, r2, hx, hrem⟩ := ih hb
      exact ⟨x, y, r1, sxy, r2.tail st hi, hx, hrem⟩

/-- Per step: either nothing retained was lost (the list of serials kept its order and at most grew at
the end), or the step handled an acknowledgement that found its packet, or it started a fresh session. -/
theorem SessStep.noLoss {s s' : Session} (st : SessStep s s') :
    NoLoss s.data.outbound s'.data.outbound ∨
    (∃ p id k, s' = (s.handle p).1 ∧ p.ackOf = some (id, k) ∧ s.data.awaits id k = true) ∨
    (∃ block now, s' = (s.activate false block now).1) := by
  rcases st.classify with hq | ⟨p, rfl⟩ | ⟨block, now, rfl⟩
  · exact Or.inl hq.out.noLoss
  · have hk := handle_keys s p
    cases hp : p.ackOf with
    | none =>
      left
      rw [hp] at hk
      unfold NoLoss
      rw [sers_eq_keys (s.handle p).1.data.outbound, hk, ← sers_eq_keys]
      exact List.prefix_refl _
    | some ik =>
      obtain ⟨id, k⟩ := ik
      cases ha : s.data.awaits id k with
      | false =>
        left
        rw [hp] at hk
        simp only [] at hk
        rw [removeFirst_none ha] at hk
        unfold NoLoss
        rw [sers_eq_keys (s.handle p).1.data.outbound, hk, sers_eq_keys]
        exact List.prefix_refl _
      | true => exact Or.inr (Or.inl ⟨p, id, k, rfl, hp, ha⟩)
  · exact Or.inr (Or.inr ⟨block, now, rfl⟩)


/-! ### What is transmitted next -/

theorem sent_matches (ip : Bool) : SendState.sent.matchesPriority ip = false := by
  cases ip <;> rfl

theorem fresh_matches : (SendState.write 0).matchesPriority false = true ∧ (SendState.write 0).matchesPriority true = false :=
  ⟨rfl, rfl⟩

theorem nextStepPrio_matches {o : Outbound} {ip : Bool} {st : Outbound.Step} (h : o.nextStepPrio ip = some st) :
    st.state.matchesPriority ip = true := by
  unfold nextStepPrio at h
  split at h
  · rename_i e he
    simp only [Option.some.injEq] at h; subst h
    have := List.find?_some he
    exact this
  · split at h
    · rename_i e he
      simp only [Option.some.injEq] at h; subst h
      have := List.find?_some he
      exact this
    · split at h
      · rename_i e he
        simp only [Option.some.injEq] at h; subst h
        have := List.find?_some he
        exact this
      · simp at h

/-- `next_step` never offers an entry that has already been sent on this connection. -/
theorem nextStep_not_sent {o : Outbound} {st : Outbound.Step} (h : o.nextStep = some st) : st.state ≠ .sent := by
  intro hs
  unfold nextStep at h
  split at h
  · rename_i s hp
    simp only [Option.some.injEq] at h; subst h
    have := nextStepPrio_matches hp
    rw [hs, sent_matches] at this; simp at this
  · have := nextStepPrio_matches h
    rw [hs, sent_matches] at this; simp at this

/-- When `next_step` (at one priority) offers a retained packet, no control or release entry matches
that priority and the packet is the *first* matching entry of the retained list. -/
theorem nextStepPrio_retained {o : Outbound} {ip : Bool} {id off len : Nat} {st : SendState}
    (h : o.nextStepPrio ip = some (.retained id off len st)) :
    (∀ c ∈ o.control, c.state.matchesPriority ip = false) ∧ (∀ x ∈ o.release, x.state.matchesPriority ip = false) ∧
    ∃ l₁ e l₂, o.retained = l₁ ++ e :: l₂ ∧ (∀ x ∈ l₁, x.state.matchesPriority ip = false) ∧
      e.id = id ∧ e.offset = off ∧ e.len = len ∧ e.state = st ∧ st.matchesPriority ip = true := by
  unfold nextStepPrio at h
  split at h
  · simp at h
  · rename_i hc
    split at h
    · simp at h
    · rename_i hr
      split at h
      · rename_i e he
        simp only [Option.some.injEq, Outbound.Step.retained.injEq] at h
        obtain ⟨rfl, rfl, rfl, rfl⟩ := h
        rw [List.find?_eq_some_iff_append] at he
        obtain ⟨hm, l₁, l₂, hl, hn⟩ := he
        refine ⟨?_, ?_, l₁, e, l₂, hl, ?_, rfl, rfl, rfl, rfl, hm⟩
        · intro c hcm; have := List.find?_eq_none.mp hc c hcm; simpa using this
        · intro x hxm; have := List.find?_eq_none.mp hr x hxm; simpa using this
        · intro x hx; have := hn x hx; simpa using this
      · simp at h

/-- When `next_step` (at one priority) offers a release entry, no control entry matches and the entry
is the first matching one of the release list. -/
theorem nextStepPrio_release {o : Outbound} {ip : Bool} {id rc : Nat} {st : SendState}
    (h : o.nextStepPrio ip = some (.release id rc st)) :
    (∀ c ∈ o.control, c.state.matchesPriority ip = false) ∧
    ∃ l₁ e l₂, o.release = l₁ ++ e :: l₂ ∧ (∀ x ∈ l₁, x.state.matchesPriority ip = false) ∧
      e.id = id ∧ e.rc = rc ∧ e.state = st ∧ st.matchesPriority ip = true := by
  unfold nextStepPrio at h
  split at h
  · simp at h
  · rename_i hc
    split at h
    · rename_i e he
      simp only [Option.some.injEq, Outbound.Step.release.injEq] at h
      obtain ⟨rfl, rfl, rfl⟩ := h
      rw [List.find?_eq_some_iff_append] at he
      obtain ⟨hm, l₁, l₂, hl, hn⟩ := he
      refine ⟨?_, l₁, e, l₂, hl, ?_, rfl, rfl, rfl, hm⟩
      · intro c hcm; have := List.find?_eq_none.mp hc c hcm; simpa using this
      · intro x hx; have := hn x hx; simpa using this
    · split at h <;> simp at h

/-- When `next_step` offers a control entry it is the first matching one of the control queue. -/
theorem nextStepPrio_control {o : Outbound} {ip : Bool} {a : ControlAction} {st : SendState}
    (h : o.nextStepPrio ip = some (.control a st)) :
    ∃ l₁ e l₂, o.control = l₁ ++ e :: l₂ ∧ (∀ x ∈ l₁, x.state.matchesPriority ip = false) ∧
      e.action = a ∧ e.state = st ∧ st.matchesPriority ip = true := by
  unfold nextStepPrio at h
  split at h
  · rename_i e he
    simp only [Option.some.injEq, Outbound.Step.control.injEq] at h
    obtain ⟨rfl, rfl⟩ := h
    rw [List.find?_eq_some_iff_append] at he
    obtain ⟨hm, l₁, l₂, hl, hn⟩ := he
    exact ⟨l₁, e, l₂, hl, fun x hx => by have := hn x hx; simpa using this, rfl, rfl, hm⟩
  · split at h
    · simp at h
    · split at h <;> simp at h

/-- `complete_flush` of a retained packet marks the first entry with that identifier sent and leaves
everything else as it was. -/
theorem flushRetained_spec (o : Outbound) (id : Nat) (h : o.hasRetained id = true) :
    ∃ l₁ e l₂, o.retained = l₁ ++ e :: l₂ ∧ (∀ x ∈ l₁, x.id ≠ id) ∧ e.id = id ∧
      (o.flushRetained id).retained = l₁ ++ { e with state := .sent } :: l₂ := by
  obtain ⟨l₁, e, l₂, h1, h2, h3, h4⟩ := modifyFirst_split (fun e => { e with state := SendState.sent }) h
  exact ⟨l₁, e, l₂, h1, fun x hx => by simpa using h2 x hx, by simpa using h3, h4⟩

theorem flushRelease_spec (o : Outbound) (id : Nat) (h : o.hasPendingRelease id = true) :
    ∃ l₁ e l₂, o.release = l₁ ++ e :: l₂ ∧ (∀ x ∈ l₁, x.id ≠ id) ∧ e.id = id ∧
      (o.flushRelease id).release = l₁ ++ { e with state := .sent } :: l₂ := by
  obtain ⟨l₁, e, l₂, h1, h2, h3, h4⟩ := modifyFirst_split (fun e => { e with state := SendState.sent }) h
  exact ⟨l₁, e, l₂, h1, fun x hx => by simpa using h2 x hx, by simpa using h3, h4⟩

theorem completeFlush_outbound (s : Session) (pkt : Flushed) (now : Nat) :
    (s.completeFlush pkt now).data.outbound =
      match pkt with
      | .control a => s.data.outbound.flushControl a
      | .release id => s.data.outbound.flushRelease id
      | .retained id => s.data.outbound.flushRetained id := by
  cases pkt <;> rfl

theorem find?_map_all {α} (p : α → Bool) (f : α → α) (l : List α) (hf : ∀ e, p (f e) = true) :
    (l.map f).find? p = l.head?.map f := by
  cases l with
  | nil => rfl
  | cons x xs => simp [hf]

theorem find?_map_none {α} (p : α → Bool) (f : α → α) (l : List α) (hf : ∀ e, p (f e) = false) :
    (l.map f).find? p = none := by
  rw [List.find?_eq_none]
  intro x hx
  obtain ⟨y, _, rfl⟩ := List.mem_map.mp hx
  simp [hf]

/-- **After `arm_replay` everything is sent again, oldest first**: the next step is the head of the
control queue, else the head of the release queue, else the head of the retained list — each from its
first byte. -/
theorem armReplay_nextStep (o : Outbound) :
    o.armReplay.nextStep =
      match o.control, o.release, o.retained with
      | c :: _, _, _ => some (.control c.action (.write 0))
      | [], x :: _, _ => some (.release x.id x.rc (.write 0))
      | [], [], e :: _ => some (.retained e.id e.offset e.len (.write 0))
      | [], [], [] => none := by
  obtain ⟨h1, h2, h3, _⟩ := armReplay_queues o
  unfold nextStep nextStepPrio
  rw [h1, h2, h3]
  rw [find?_map_none _ _ o.control (fun _ => rfl), find?_map_none _ _ o.release (fun _ => rfl),
    find?_map_none _ _ o.retained (fun _ => rfl)]
  simp only []
  rw [find?_map_all _ _ o.control (fun _ => rfl), find?_map_all _ _ o.release (fun _ => rfl),
    find?_map_all _ _ o.retained (fun _ => rfl)]
  cases o.control with
  | cons c cs => rfl
  | nil =>
    cases o.release with
    | cons x xs => rfl
    | nil =>
      cases o.retained with
      | cons e es => rfl
      | nil => rfl

/-- After `arm_replay` every retained entry is fresh and keeps identifier, offset, length and serial. -/
theorem armReplay_retained_fresh (o : Outbound) :
    ∀ e ∈ o.armReplay.retained, e.state = .write 0 := by
  rw [(armReplay_queues o).1]
  intro e he
  obtain ⟨y, _, rfl⟩ := List.mem_map.mp he
  rfl


/-! ### Identifiers after an acknowledgement; operation status -/

theorem hasRetained_eq_keys (o : Outbound) (id : Nat) : o.hasRetained id = o.keys.any (fun k => k.2.1 == id) := by
  simp [hasRetained, Outbound.keys, RetainedPacket.key, List.any_map, Function.comp_def]

theorem hasRetained_eq_tags (o : Outbound) (id : Nat) : o.hasRetained id = o.tags.any (fun k => k.2.1 == id) := by
  simp [hasRetained, Outbound.tags, List.any_map, Function.comp_def]

theorem hasPendingRelease_eq_relKeys (o : Outbound) (id : Nat) :
    o.hasPendingRelease id = o.relKeys.any (fun k => k.1 == id) := by
  simp [hasPendingRelease, Outbound.relKeys, List.any_map, Function.comp_def]

theorem awaits_hasRetained {d : SessionData} {id : Nat} {k : AckKind} (h : d.awaits id k = true) :
    d.outbound.hasRetained id = true := by
  simp only [SessionData.awaits, List.any_eq_true, ackPred, Bool.and_eq_true] at h
  obtain ⟨e, he, h1, _⟩ := h
  simp only [hasRetained, List.any_eq_true]
  exact ⟨e, he, h1⟩

/-- Under the identifier invariant, once the acknowledged packet has been removed its identifier is
held by no retained packet and no release entry. -/
theorem acked_free {d : SessionData} (h : d.IdInv) {id : Nat} {k : AckKind} (ha : d.awaits id k = true) :
    (d.acked id k).outbound.hasRetained id = false ∧ (d.acked id k).outbound.hasPendingRelease id = false ∧
    (d.acked id k).IdInv := by
  have hi := IdInv_ackPacket (o := d.outbound) (id := id) (k := k) h.out
  have hf : (d.outbound.ackPacket id k).2 = true := by rw [ackPacket_found_iff]; exact ha
  have := hi.2.1 hf
  rw [usedIds_mem] at this
  simp only [not_or, Bool.not_eq_true] at this
  exact ⟨this.1, this.2, ⟨hi.1, h.pid⟩⟩

/-- Under the identifier invariant a PUBCOMP that found its release entry frees the identifier. -/
theorem released_free {d : SessionData} (h : d.IdInv) {id : Nat} (ha : d.outbound.hasPendingRelease id = true) :
    d.outbound.hasRetained id = false ∧
    (removeFirst (fun (e : PendingRelease) => e.id == id) d.outbound.release).any (fun e => e.id == id) = false := by
  have hn := h.out.nodup
  simp only [Outbound.usedIds, List.nodup_append] at hn
  obtain ⟨_, hrel, hdisj⟩ := hn
  simp only [hasPendingRelease, List.any_eq_true, beq_iff_eq] at ha
  obtain ⟨e, he, hid⟩ := ha
  constructor
  · cases hr : d.outbound.hasRetained id with
    | false => rfl
    | true =>
      simp only [hasRetained, List.any_eq_true, beq_iff_eq] at hr
      obtain ⟨x, hx, hxid⟩ := hr
      exact absurd rfl (hdisj id (List.mem_map.mpr ⟨x, hx, hxid⟩) id (List.mem_map.mpr ⟨e, he, hid⟩))
  · have hany : d.outbound.release.any (fun e => e.id == id) = true := by
      simp only [List.any_eq_true, beq_iff_eq]; exact ⟨e, he, hid⟩
    obtain ⟨l₁, a, l₂, e1, e2, e3, e4⟩ := removeFirst_split hany
    rw [e4]
    rw [e1] at hrel
    simp only [List.map_append, List.map_cons, List.nodup_append, List.nodup_cons, List.mem_map, List.mem_cons] at hrel
    simp only [beq_iff_eq] at e3
    simp only [List.any_append, Bool.or_eq_false_iff, List.any_eq_false, beq_iff_eq]
    refine ⟨fun x hx => by simpa using e2 x hx, ?_⟩
    intro x hx hxid
    exact hrel.2.1.1 ⟨x, hx, by rw [hxid, e3]⟩

/-- Is the operation still in flight, according to the queues? -/
def SessionData.inFlight (d : SessionData) (op : Op) : Bool :=
  match op.kind with
  | .pub2 => d.outbound.hasRetained op.id || d.outbound.hasPendingRelease op.id
  | _ => d.outbound.hasRetained op.id

theorem status_eq (d : SessionData) (op : Op) :
    d.status op = if op.generation ≠ d.generation then .invalidated
      else if d.inFlight op then .pending else .complete := by
  unfold SessionData.status SessionData.inFlight
  rfl

theorem status_invalidated_iff (d : SessionData) (op : Op) :
    d.status op = .invalidated ↔ op.generation ≠ d.generation := by
  rw [status_eq]
  by_cases h1 : op.generation = d.generation <;> by_cases h2 : d.inFlight op = true <;> simp [h1, h2]

theorem status_pending_iff (d : SessionData) (op : Op) :
    d.status op = .pending ↔ op.generation = d.generation ∧ d.inFlight op = true := by
  rw [status_eq]
  by_cases h1 : op.generation = d.generation <;> by_cases h2 : d.inFlight op = true <;> simp [h1, h2]

theorem status_complete_iff (d : SessionData) (op : Op) :
    d.status op = .complete ↔ op.generation = d.generation ∧ d.inFlight op = false := by
  rw [status_eq]
  by_cases h1 : op.generation = d.generation <;> by_cases h2 : d.inFlight op = true <;> simp [h1, h2]

theorem reset_generation_ne (d : SessionData) : d.reset.generation ≠ d.generation := by
  simp only [SessionData.reset]; omega

theorem QuietO.hasRetained_mono {o o' : Outbound} (h : QuietO o o') {id : Nat} (hr : o.hasRetained id = true) :
    o'.hasRetained id = true := by
  rw [hasRetained_eq_tags] at hr ⊢
  rcases h.retained with ⟨h, _⟩ | ⟨i, len, h, _⟩
  · rw [h]; exact hr
  · rw [h, List.any_append, hr]; rfl

theorem QuietO.hasPendingRelease_eq {o o' : Outbound} (h : QuietO o o') (id : Nat) :
    o'.hasPendingRelease id = o.hasPendingRelease id := by
  rw [hasPendingRelease_eq_relKeys, hasPendingRelease_eq_relKeys, h.release]

/-- A quiet step keeps every pending handle pending. -/
theorem Quiet.status_pending {d d' : SessionData} (h : Quiet d d') {op : Op} (hp : d.status op = .pending) :
    d'.status op = .pending := by
  rw [status_pending_iff] at hp ⊢
  refine ⟨by rw [h.generation]; exact hp.1, ?_⟩
  have h2 := hp.2
  unfold SessionData.inFlight at h2 ⊢
  cases hk : op.kind <;> simp only [hk] at h2 ⊢
  · exact h.out.hasRetained_mono h2
  · simp only [Bool.or_eq_true] at h2 ⊢
    rcases h2 with h2 | h2
    · exact Or.inl (h.out.hasRetained_mono h2)
    · right; rw [h.out.hasPendingRelease_eq]; exact h2
  · exact h.out.hasRetained_mono h2
  · exact h.out.hasRetained_mono h2

/-- An inbound packet that neither acknowledges the handle's identifier nor is the PUBCOMP for it keeps a
pending handle pending. -/
theorem handlePacket_status_pending (d : SessionData) (r : Runtime) (p : Recv) (op : Op)
    (hp : d.status op = .pending) (hno : ∀ k, p.ackOf ≠ some (op.id, k)) (hnc : ∀ rs, p ≠ .pubComp op.id rs) :
    (handlePacket d r p).1.status op = .pending := by
  rw [status_pending_iff] at hp ⊢
  refine ⟨by rw [handlePacket_generation]; exact hp.1, ?_⟩
  have hret : d.outbound.hasRetained op.id = true → (handlePacket d r p).1.outbound.hasRetained op.id = true := by
    intro h
    rw [hasRetained_eq_keys, handlePacket_keys]
    cases hpa : p.ackOf with
    | none => simp only []; rw [← hasRetained_eq_keys]; exact h
    | some ik =>
      obtain ⟨id, k⟩ := ik
      simp only []
      have hne : id ≠ op.id := fun he => hno k (by rw [hpa, he])
      simp only [hasRetained, List.any_eq_true, beq_iff_eq] at h
      obtain ⟨e, he, hid⟩ := h
      have hm : e ∈ removeFirst (ackPred d.outbound id k) d.outbound.retained :=
        mem_removeFirst_of_ne he (by simp [ackPred, hid]; intro h'; exact absurd h'.symm hne)
      simp only [List.any_map, List.any_eq_true, Function.comp, RetainedPacket.key, beq_iff_eq]
      exact ⟨e, hm, hid⟩
  have hrel : d.outbound.hasPendingRelease op.id = true →
      (handlePacket d r p).1.outbound.hasPendingRelease op.id = true := by
    intro h
    simp only [hasPendingRelease] at h ⊢
    rw [handlePacket_release]
    cases p with
    | pubRec id rs =>
      simp only []
      split
      · rw [List.any_append, h]; rfl
      · exact h
    | pubComp id rs =>
      simp only []
      have hne : id ≠ op.id := fun he => hnc rs (by rw [he])
      simp only [List.any_eq_true, beq_iff_eq] at h ⊢
      obtain ⟨e, he, hid⟩ := h
      exact ⟨e, mem_removeFirst_of_ne he (by simp [hid]; intro h'; exact absurd h'.symm hne), hid⟩
    | _ => exact h
  have h2 := hp.2
  unfold SessionData.inFlight at h2 ⊢
  cases hk : op.kind <;> simp only [hk] at h2 ⊢
  · exact hret h2
  · simp only [Bool.or_eq_true] at h2 ⊢
    rcases h2 with h2 | h2
    · exact Or.inl (hret h2)
    · exact Or.inr (hrel h2)
  · exact hret h2
  · exact hret h2


/-! ### When the poll reports a rejection -/

/-- `handlePacket` reports `Peer(Rejected rc)` exactly in these cases. -/
def Recv.rejects (d : SessionData) (p : Recv) (rc : Nat) : Prop :=
  match p with
  | .subAck id _ codes => d.awaits id .subAck = true ∧ firstFailure codes = some rc
  | .unsubAck id _ codes => d.awaits id .unsubAck = true ∧ firstFailure codes = some rc
  | .pubAck id rs => d.awaits id .pubAck = true ∧ reasonSuccess rs.rc = false ∧ rs.rc = rc
  | .pubRec id rs =>
    (d.awaits id .pubRec = true ∨ d.outbound.hasPendingRelease id = true) ∧ reasonSuccess rs.rc = false ∧ rs.rc = rc
  | .pubComp id rs => d.outbound.hasPendingRelease id = true ∧ reasonSuccess rs.rc = false ∧ rs.rc = rc
  | _ => False

theorem handlePacket_rejected_iff (d : SessionData) (r : Runtime) (p : Recv) (rc : Nat) :
    (handlePacket d r p).2.2 = .error (.peerRejected rc) ↔ p.rejects d rc := by
  cases p with
  | subAck id pr codes =>
    rw [handlePacket_subAck]
    simp only [Recv.rejects]
    cases d.awaits id .subAck <;> cases firstFailure codes <;> simp
  | unsubAck id pr codes =>
    rw [handlePacket_unsubAck]
    simp only [Recv.rejects]
    cases d.awaits id .unsubAck <;> cases firstFailure codes <;> simp
  | pubAck id rs =>
    rw [handlePacket_pubAck]
    simp only [Recv.rejects]
    cases d.awaits id .pubAck <;> cases reasonSuccess rs.rc <;> simp
  | pubRec id rs =>
    rw [handlePacket_pubRec]
    simp only [Recv.rejects]
    cases d.awaits id .pubRec <;> cases reasonSuccess rs.rc <;> cases d.outbound.hasPendingRelease id <;>
      simp <;> (repeat' split) <;> simp
  | pubComp id rs =>
    rw [handlePacket_pubComp]
    simp only [Recv.rejects]
    cases d.outbound.hasPendingRelease id <;> cases reasonSuccess rs.rc <;> simp
  | connAck sp c props =>
    have := (handlePacket_onlyControl d r (.connAck sp c props) rfl (fun _ _ h => by cases h)).2.2 rc
    simp only [Recv.rejects, iff_false]; exact this
  | pingResp =>
    have := (handlePacket_onlyControl d r .pingResp rfl (fun _ _ h => by cases h)).2.2 rc
    simp only [Recv.rejects, iff_false]; exact this
  | disconnect c props =>
    have := (handlePacket_onlyControl d r (.disconnect c props) rfl (fun _ _ h => by cases h)).2.2 rc
    simp only [Recv.rejects, iff_false]; exact this
  | pubRel id rs =>
    have := (handlePacket_onlyControl d r (.pubRel id rs) rfl (fun _ _ h => by cases h)).2.2 rc
    simp only [Recv.rejects, iff_false]; exact this
  | publish t id pr pl rt q dup =>
    have := (handlePacket_onlyControl d r (.publish t id pr pl rt q dup) rfl (fun _ _ h => by cases h)).2.2 rc
    simp only [Recv.rejects, iff_false]; exact this


/-! ### Decoding an inbound PUBLISH -/

theorem ex_readU16_u16be (n : Nat) (r : Bytes) (h : n < 65536) : readU16 (u16be n ++ r) = some (n, r) := by
  simp only [u16be, List.cons_append, List.nil_append, readU16, u16of, b_toNat, Option.some.injEq, Prod.mk.injEq, and_true]
  omega

theorem ex_takeN_append (s r : Bytes) : takeN (s ++ r) s.length = some (s, r) := by
  simp [takeN]

theorem ex_readStr_enc (s r : Bytes) (hl : s.length < 65536) (hv : validUtf8 s = true) :
    readStr (u16be s.length ++ (s ++ r)) = some (s, r) := by
  simp only [readStr, ex_readU16_u16be _ _ hl, ex_takeN_append, hv, if_true]

theorem ex_readPropBlock_enc (blk r : Bytes) (hl : blk.length ≤ MQTT_VARINT_MAX) :
    readPropBlock (encodeVarint blk.length ++ (blk ++ r)) = some (blk, r) := by
  simp only [readPropBlock, decode_encode_varint _ _ hl, ex_takeN_append]

/-- The fixed-header flags of a PUBLISH. -/
def publishFlags (retain : Bool) (qos : Nat) (dup : Bool) : Nat :=
  (if dup then 8 else 0) + qos * 2 + (if retain then 1 else 0)

/-- The variable header and payload of a PUBLISH as the broker writes it. -/
def brokerPublishBody (topic : Bytes) (id : Option Nat) (props payload : Bytes) : Bytes :=
  u16be topic.length ++ (topic ++ ((match id with
    | some i => u16be i
    | none => []) ++ (encodeVarint props.length ++ (props ++ payload))))

/-- A PUBLISH packet as a broker writes it (local reference encoder): fixed header with DUP, QoS and
RETAIN, remaining length, topic, packet identifier (QoS > 0 only), property block, payload. -/
def brokerPublish (topic : Bytes) (id : Option Nat) (props payload : Bytes) (retain : Bool) (qos : Nat) (dup : Bool) :
    Bytes :=
  b (MT_Publish * 16 + publishFlags retain qos dup) ::
    (encodeVarint (brokerPublishBody topic id props payload).length ++ brokerPublishBody topic id props payload)

theorem publishFlags_bits (retain : Bool) (qos : Nat) (dup : Bool) (hq : qos ≤ 2) :
    let x := (b (MT_Publish * 16 + publishFlags retain qos dup)).toNat
    x / 16 = 3 ∧ x / 2 % 4 = qos ∧ (x % 2 = 1 ↔ retain = true) ∧ (x / 8 % 2 = 1 ↔ dup = true) := by
  simp only [b_toNat, publishFlags, show MT_Publish = 3 from rfl]
  cases retain <;> cases dup <;> simp <;> omega

/-- **`from_buffer` returns an inbound PUBLISH exactly as the broker sent it**: topic, packet
identifier, raw property block, payload, RETAIN, QoS and DUP. -/
theorem fromBuffer_brokerPublish (topic : Bytes) (id : Option Nat) (props payload : Bytes) (retain : Bool)
    (qos : Nat) (dup : Bool) (hq : qos ≤ 2)
    (hid : match id with
      | some i => 0 < qos ∧ i < 65536
      | none => qos = 0)
    (htl : topic.length < 65536) (htv : validUtf8 topic = true)
    (hpl : props.length ≤ MQTT_VARINT_MAX)
    (hbl : (brokerPublishBody topic id props payload).length ≤ MQTT_VARINT_MAX) :
    fromBuffer (brokerPublish topic id props payload retain qos dup) =
      some (.publish topic id props payload retain qos dup) := by
  obtain ⟨f1, f2, f3, f4⟩ := publishFlags_bits retain qos dup hq
  have hret : decide ((b (MT_Publish * 16 + publishFlags retain qos dup)).toNat % 2 = 1) = retain := by
    cases retain <;> simp_all
  have hdup : decide ((b (MT_Publish * 16 + publishFlags retain qos dup)).toNat / 8 % 2 = 1) = dup := by
    cases dup <;> simp_all
  unfold fromBuffer brokerPublish
  simp only []
  rw [decode_encode_varint _ _ hbl]
  simp only [f1]
  simp only [show (3 = 0) = False by simp, if_false, inboundFlags, Bool.not_true, Bool.false_eq_true,
    show inboundTypes.contains 3 = true by decide]
  unfold readBody
  simp only [show (3 = MT_ConnAck) = False by simp [MT_ConnAck], if_false, show (3 = MT_Publish) = True by simp [MT_Publish],
    if_true, f2]
  have hq3 : (qos = 3) = False := by simp; omega
  simp only [hq3, if_false]
  unfold brokerPublishBody
  rw [ex_readStr_enc _ _ htl htv]
  simp only []
  cases id with
  | none =>
    simp only [] at hid
    subst hid
    simp only [Nat.lt_irrefl, if_false, List.nil_append, gt_iff_lt]
    rw [ex_readPropBlock_enc _ _ hpl]
    simp only [hret, hdup]
    cases payload with
    | nil => rfl
    | cons x xs => rfl
  | some i =>
    simp only [] at hid
    have hq0 : qos > 0 := hid.1
    simp only [hq0, if_true]
    rw [ex_readU16_u16be _ _ hid.2]
    simp only [Option.map]
    rw [ex_readPropBlock_enc _ _ hpl]
    simp only [hret, hdup]
    cases payload with
    | nil => rfl
    | cons x xs => rfl


/-! ### The inbound QoS 2 identifiers stay distinct and bounded -/

/-- The identifiers of inbound QoS 2 publishes awaiting PUBREL are pairwise distinct and at most
`MAX_INBOUND_QOS2` many. -/
def SessionData.PendingInv (d : SessionData) : Prop :=
  d.pendingServerIds.Nodup ∧ d.pendingServerIds.length ≤ MAX_INBOUND_QOS2

theorem qos2Ids_inv (l : List Nat) (id : Nat) (h : l.Nodup ∧ l.length ≤ MAX_INBOUND_QOS2) :
    (qos2Ids l id).1.Nodup ∧ (qos2Ids l id).1.length ≤ MAX_INBOUND_QOS2 := by
  unfold qos2Ids
  split
  · exact h
  · rename_i hc
    split
    · refine ⟨?_, by simp; omega⟩
      rw [List.nodup_append]
      refine ⟨h.1, by simp, ?_⟩
      intro a ha b hb
      simp only [List.mem_singleton] at hb
      subst hb
      intro hab; subst hab
      exact hc (by simpa using ha)
    · exact h

theorem swapRemove_inv (l : List Nat) (id : Nat) (hc : l.contains id = true) (h : l.Nodup ∧ l.length ≤ MAX_INBOUND_QOS2) :
    (handlePacket.swapRemove l id).Nodup ∧ (handlePacket.swapRemove l id).length ≤ MAX_INBOUND_QOS2 := by
  have hm : id ∈ l := by simpa using hc
  have hp := swapRemove_perm l id hm
  refine ⟨hp.nodup_iff.mpr (h.1.erase id), ?_⟩
  rw [hp.length_eq]
  have := List.length_erase_of_mem hm
  omega

theorem handlePacket_PendingInv (d : SessionData) (r : Runtime) (p : Recv) (h : d.PendingInv) :
    (handlePacket d r p).1.PendingInv := by
  unfold SessionData.PendingInv
  rw [handlePacket_pendingIds]
  split
  · split
    · exact h
    · split
      · exact qos2Ids_inv _ _ h
      · exact h
  · split
    · rename_i hc; exact swapRemove_inv _ _ hc.2 h
    · exact h
  · exact h

theorem closed_PendingInv : Closed (fun s => s.data.PendingInv) :=
  Closed.of_step (fun s s' st h => by
    rcases st.classify with hq | ⟨p, rfl⟩ | ⟨block, now, rfl⟩
    · unfold SessionData.PendingInv; rw [hq.pending]; exact h
    · rw [Session.handle_fst_data]; exact handlePacket_PendingInv _ _ _ h
    · have := (activate_false_data s block now).2.1
      unfold SessionData.PendingInv
      rw [this]; simp)

/-- Under the invariant the identifiers left after a PUBREL are exactly the others. -/
theorem swapRemove_mem (l : List Nat) (id : Nat) (hn : l.Nodup) (hm : id ∈ l) (x : Nat) :
    x ∈ handlePacket.swapRemove l id ↔ x ∈ l ∧ x ≠ id := by
  rw [(swapRemove_perm l id hm).mem_iff, hn.mem_erase_iff]
  exact ⟨fun ⟨a, b⟩ => ⟨b, a⟩, fun ⟨a, b⟩ => ⟨b, a⟩⟩

/-! ### The control queue keeps arrival order -/

theorem flushControl_sublist (o : Outbound) (a : ControlAction) :
    ((o.flushControl a).control.map (·.action)).Sublist (o.control.map (·.action)) := by
  simp only [flushControl]
  have h1 : (modifyFirst (fun e => e.action == a) (fun e => { e with state := SendState.sent }) o.control).map (·.action) =
      o.control.map (·.action) :=
    modifyFirst_map (fun e => e.action == a) (fun e => { e with state := SendState.sent }) (·.action) (fun _ => rfl) o.control
  rw [← h1]
  exact (List.filter_sublist).map _

theorem removeFirst_sublist' {α} (p : α → Bool) (l : List α) : (removeFirst p l).Sublist l := by
  induction l with
  | nil => exact List.Sublist.slnil
  | cons x xs ih =>
    simp only [removeFirst]
    split
    · exact List.sublist_cons_self x xs
    · exact List.Sublist.cons_cons x ih


/-! ### The acknowledgements as the reference parser sees them -/

theorem controlBytes_spec (a : ControlAction) (h : a.typ = MT_PubAck ∨ a.typ = MT_PubRec ∨ a.typ = MT_PubComp)
    (hid : 0 < a.id ∧ a.id < 65536) (hrc : a.rc < 256) (rest : Bytes) :
    Spec.parseClientPacket (controlBytes a ++ rest) = some (.ack a.typ a.id a.rc [], rest) := by
  have he := encodeWithOffset_complete (cap := CONTROL_PACKET_LEN) (typ := a.typ) (flags := 0)
    (catChunks_ackChunks a.id a.rc) (by simp [u16be]; decide) (by simp [u16be]; decide)
  have hpkt : b (a.typ * 16 + 0 % 16) :: (encodeVarint (u16be a.id ++ [b a.rc]).length ++ (u16be a.id ++ [b a.rc])) =
      controlBytes a := rfl
  rw [hpkt] at he
  refine ack_roundtrip _ _ a.typ 0 a.id a.rc _ rest ?_ ?_ hid hrc he
  · rcases h with h | h | h <;> rw [h] <;> simp [MT_PubAck, MT_PubRec, MT_PubComp]
  · rcases h with h | h | h <;> rw [h] <;> simp [MT_PubAck, MT_PubRec, MT_PubComp]

theorem pubrelBytes_spec (id rc : Nat) (hid : 0 < id ∧ id < 65536) (hrc : rc < 256) (rest : Bytes) :
    Spec.parseClientPacket (pubrelBytes id rc ++ rest) = some (.ack 6 id rc [], rest) := by
  have he := encodeWithOffset_complete (cap := CONTROL_PACKET_LEN) (typ := MT_PubRel) (flags := FLAGS_PubRel)
    (catChunks_ackChunks id rc) (by simp [u16be]; decide) (by simp [u16be]; decide)
  have hpkt : b (MT_PubRel * 16 + FLAGS_PubRel % 16) :: (encodeVarint (u16be id ++ [b rc]).length ++ (u16be id ++ [b rc])) =
      pubrelBytes id rc := rfl
  rw [hpkt] at he
  exact ack_roundtrip _ _ 6 2 id rc _ rest (by simp) (by simp) hid hrc he


/-! ### A removed packet never comes back -/

/-- With increasing serials, removing one entry of the retained list removes its serial. -/
theorem SerInv.removed_gone {o : Outbound} (h : o.SerInv) {l₁ l₂ : List RetainedPacket} {e : RetainedPacket}
    (hl : o.retained = l₁ ++ e :: l₂) : e.ser ∉ (l₁ ++ l₂).map (·.ser) := by
  have hp := h.inc
  rw [hl] at hp
  simp only [List.map_append, List.map_cons, List.pairwise_append, List.pairwise_cons, List.mem_map, List.mem_cons] at hp
  obtain ⟨_, ⟨h2, _⟩, h3⟩ := hp
  simp only [List.map_append, List.mem_append, List.mem_map, not_or]
  constructor
  · rintro ⟨x, hx, hxe⟩
    have := h3 x.ser ⟨x, hx, rfl⟩ e.ser (Or.inl rfl)
    omega
  · rintro ⟨x, hx, hxe⟩
    have := h2 x.ser ⟨x, hx, rfl⟩
    omega

/-- `Keeps a b`: a serial that had been handed out at `a` and was not retained there is not retained
at `b` either. -/
theorem Keeps.gone_stays_gone {a b : Outbound} (h : Keeps a b) {ser : Nat} (hlt : ser < a.nextSer)
    (hg : ser ∉ a.sers) : ser ∉ b.sers := by
  intro hb
  apply hg
  simp only [Outbound.sers, List.mem_map] at hb ⊢
  obtain ⟨x, hx, rfl⟩ := hb
  have hin : ((x.ser, x.id), unDup (slice b.buf x.offset x.len)) ∈
      b.tagged.filter (fun t => decide (t.1.1 < a.nextSer)) := by
    rw [List.mem_filter]
    exact ⟨List.mem_map.mpr ⟨x, hx, rfl⟩, by simpa using hlt⟩
  have := h.2.subset hin
  simp only [Outbound.tagged, List.mem_map, Prod.mk.injEq] at this
  obtain ⟨y, hy, ⟨hs, _⟩, _⟩ := this
  exact ⟨y, hy, hs⟩

/-- After any program, a serial that was already handed out and is not retained at the start is not
retained at the end: a packet that was removed from the arena never comes back. -/
theorem run_gone_stays_gone (w : World) (ds : List Directive)
    (h : w.sess.data.outbound.ArenaInv ∧ w.sess.data.outbound.SerInv) {ser : Nat}
    (hlt : ser < w.sess.data.outbound.nextSer) (hg : ser ∉ w.sess.data.outbound.sers) :
    ser ∉ (ds.foldl World.execDirective w).sess.data.outbound.sers :=
  (run_inv (closed_ArenaP w.sess.data.outbound) ds w ⟨h, Keeps.refl _, rfl⟩).2.1.gone_stays_gone hlt hg


/-! ### Handles: issue, completion, invalidation -/

/-- The request path (`alloc`, `encode`, `retain`): the new packet is retained under the allocated
identifier and the generation is the current one — the data of the handle that is returned. -/
theorem enqueue_issues_pending {ε : Type} (s : Session) (enc : Nat → (Nat → Nat → Bytes) → Except ε (Nat × Bytes))
    (off len : Nat) (isPub : Bool) (s3 : Session)
    (hr : (s.alloc.1.encode enc).1.retain s.alloc.2 off len isPub = some s3) :
    s3.data.outbound.hasRetained s.alloc.2 = true ∧ s3.data.generation = s.data.generation := by
  rw [Session.encode_fst, Session.alloc_fst, Session.alloc_snd] at hr
  rw [Session.alloc_snd]
  unfold Session.retain at hr
  split at hr
  · simp at hr
  · rename_i o ho
    obtain ⟨_, rfl⟩ := retainPacket_some ho
    simp only [Option.some.injEq] at hr
    subst hr
    have hg := (nextPacketIdFuel_frame (MAX_RETAINED + MAX_PENDING_RELEASE + 1) s.data).2.1
    constructor
    · split <;> simp [Session.setOutbound, hasRetained]
    · split <;> exact hg

/-- Once the acknowledged packet is gone and identifiers are distinct, the handle is complete (any
kind: no retained packet and no release entry holds the identifier). -/
theorem acked_status_complete {d : SessionData} (h : d.IdInv) {op : Op} {k : AckKind} (ha : d.awaits op.id k = true)
    (hg : op.generation = d.generation) : (d.acked op.id k).status op = .complete := by
  obtain ⟨h1, h2, _⟩ := acked_free h ha
  rw [status_complete_iff]
  refine ⟨hg, ?_⟩
  unfold SessionData.inFlight
  cases op.kind <;> simp [h1, h2]

theorem withRelease_status_pending (d : SessionData) (op : Op) (hk : op.kind = .pub2) (hg : op.generation = d.generation)
    (ps : Nat := 0) : (d.withRelease op.id ps).status op = .pending := by
  rw [status_pending_iff]
  refine ⟨hg, ?_⟩
  unfold SessionData.inFlight
  simp [hk, SessionData.withRelease, hasPendingRelease]

theorem pubcomp_status_complete {d : SessionData} (h : d.IdInv) {op : Op}
    (ha : d.outbound.hasPendingRelease op.id = true) (hg : op.generation = d.generation) :
    ({ d with outbound := { d.outbound with
        release := removeFirst (fun e => e.id == op.id) d.outbound.release } } : SessionData).status op = .complete := by
  obtain ⟨h1, h2⟩ := released_free h ha
  rw [status_complete_iff]
  refine ⟨hg, ?_⟩
  unfold SessionData.inFlight
  have h1' : ({ d.outbound with release := removeFirst (fun e => e.id == op.id) d.outbound.release } : Outbound).hasRetained op.id
      = false := h1
  cases op.kind <;> simp [h1', hasPendingRelease, h2]

/-- **Which steps can end `pending`**: a step keeps a pending handle pending unless it handles a packet
that acknowledges the handle's identifier (SUBACK/UNSUBACK/PUBACK/PUBREC or PUBCOMP with that
identifier) or is the CONNACK of a fresh broker session. -/
theorem SessStep.status_pending {s s' : Session} (st : SessStep s s') {op : Op} (hp : s.data.status op = .pending) :
    s'.data.status op = .pending ∨
    (∃ p, s' = (s.handle p).1 ∧ ((∃ k, p.ackOf = some (op.id, k)) ∨ ∃ rs, p = .pubComp op.id rs)) ∨
    (∃ block now, s' = (s.activate false block now).1) := by
  rcases st.classify with hq | ⟨p, rfl⟩ | ⟨block, now, rfl⟩
  · exact Or.inl (hq.status_pending hp)
  · by_cases h1 : ∃ k, p.ackOf = some (op.id, k)
    · exact Or.inr (Or.inl ⟨p, rfl, Or.inl h1⟩)
    · by_cases h2 : ∃ rs, p = .pubComp op.id rs
      · exact Or.inr (Or.inl ⟨p, rfl, Or.inr h2⟩)
      · left
        rw [Session.handle_fst_data]
        exact handlePacket_status_pending _ _ _ _ hp (fun k hk => h1 ⟨k, hk⟩) (fun rs hrs => h2 ⟨rs, hrs⟩)
  · exact Or.inr (Or.inr ⟨block, now, rfl⟩)

/-- The generation changes only in the CONNACK of a fresh broker session. -/
theorem SessStep.generation {s s' : Session} (st : SessStep s s') :
    s'.data.generation = s.data.generation ∨
    (∃ block now, s' = (s.activate false block now).1 ∧
      s'.data.generation = (s.data.generation + 1) % 4294967296) := by
  rcases st.classify with hq | ⟨p, rfl⟩ | ⟨block, now, rfl⟩
  · exact Or.inl hq.generation
  · left; rw [Session.handle_fst_data]; exact handlePacket_generation _ _ _
  · exact Or.inr ⟨block, now, rfl, (activate_false_data s block now).1⟩


/-! ### A PUBREL entry is dropped only by its PUBCOMP or by a fresh session -/

/-- A step after which no release entry holds `id` any more, while one did before, handled a PUBCOMP with
that identifier or was the CONNACK of a fresh broker session. -/
theorem SessStep.release_loss {s s' : Session} (st : SessStep s s') {id : Nat}
    (h1 : s.data.outbound.hasPendingRelease id = true) (h2 : s'.data.outbound.hasPendingRelease id = false) :
    (∃ rs, s' = (s.handle (.pubComp id rs)).1) ∨ (∃ block now, s' = (s.activate false block now).1) := by
  rcases st.classify with hq | ⟨p, rfl⟩ | ⟨block, now, rfl⟩
  · rw [hq.out.hasPendingRelease_eq, h1] at h2; simp at h2
  · left
    rw [Session.handle_fst_data] at h2
    simp only [hasPendingRelease] at h1 h2
    rw [handlePacket_release] at h2
    cases p with
    | pubRec i rs =>
      simp only [] at h2
      split at h2
      · rw [List.any_append, h1] at h2; simp at h2
      · rw [h1] at h2; simp at h2
    | pubComp i rs =>
      simp only [] at h2
      by_cases hi : i = id
      · subst hi; exact ⟨rs, rfl⟩
      · simp only [List.any_eq_true, beq_iff_eq] at h1
        obtain ⟨e, he, hid⟩ := h1
        have hm := mem_removeFirst_of_ne (p := fun (e : PendingRelease) => e.id == i) he
          (by simp [hid]; intro h'; exact hi h'.symm)
        have : (removeFirst (fun (e : PendingRelease) => e.id == i) s.data.outbound.release).any (fun e => e.id == id) = true := by
          simp only [List.any_eq_true, beq_iff_eq]; exact ⟨e, hm, hid⟩
        rw [this] at h2; simp at h2
    | _ => simp only [] at h2; rw [h1] at h2; simp at h2
  · exact Or.inr ⟨block, now, rfl⟩

/-- Along any chain of steps. -/
theorem Reach.release_loss {I : Session → Prop} {s0 s : Session} (h : Reach I s0 s) {id : Nat}
    (h1 : s0.data.outbound.hasPendingRelease id = true) (h2 : s.data.outbound.hasPendingRelease id = false) :
    ∃ a b, Reach I s0 a ∧ SessStep a b ∧ Reach I b s ∧ a.data.outbound.hasPendingRelease id = true ∧
      ((∃ rs, b = (a.handle (.pubComp id rs)).1) ∨ (∃ block now, b = (a.activate false block now).1)) := by
  induction h with
  | refl => rw [h1] at h2; simp at h2
  | @tail b c hr st hi ih =>
    cases hb : b.data.outbound.hasPendingRelease id with
    | true => exact ⟨b, c, hr, st, Reach.refl _, hb, st.release_loss hb h2⟩
    | false =>
      obtain ⟨x, y, r1, sxy, r2, hx, hrem⟩ := ih hb
      exact ⟨x, y, r1, sxy, r2.tail st hi, hx, hrem⟩

end Minimq
