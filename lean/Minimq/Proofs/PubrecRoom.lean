import Minimq.Proofs.QuotaEq
import Minimq.Proofs.Exchange
/-
A PUBREC that finds its PUBLISH finds room for the PUBREL (C03 / C06).

The counting argument: a retained QoS 2 PUBLISH that awaits its PUBREC is counted by `inflight_publishes`
together with every release entry, so `release.length + 1 ≤ inflight_publishes`; when the books balance
(`bOk`, `Proofs/QuotaEq.lean`: `send_quota + inflight_publishes = max_send_quota ≤ 8`, `deficit` clear)
that is at most `MAX_PENDING_RELEASE = 8`, hence the release queue is not full.
-/
namespace Minimq
open Gen World Outbound

/-- With balanced books, a retained QoS 2 PUBLISH with this identifier means the release queue is not full. -/
theorem release_room_of_bal (d : SessionData) (r : Runtime) (id : Nat) (ha : d.outbound.ArenaInv)
    (hb : bOk d.outbound r) (hd : r.deficit = false) (hf : d.awaits id .pubRec = true) :
    d.outbound.release.length < MAX_PENDING_RELEASE := by
  have hf' : (d.outbound.ackPacket id .pubRec).2 = true := by
    rw [ackPacket_found_iff]; exact hf
  obtain ⟨hinf, hrel⟩ := ackPacket_inflight d.outbound id .pubRec ha hf'
  simp at hinf
  have h1 : (d.outbound.ackPacket id .pubRec).1.release.length ≤ (d.outbound.ackPacket id .pubRec).1.inflightPublishes := by
    rw [inflight_def]; omega
  rw [hrel] at h1
  have h2 := hb.2 hd
  have h3 := hb.1
  have h4 := maxInflight_le.2
  omega

/-- With balanced books `handle_packet` never answers a PUBREC with `Resource.InflightExhausted`. -/
theorem pubrec_not_exhausted (d : SessionData) (r : Runtime) (id : Nat) (rs : ReasonIn) (ha : d.outbound.ArenaInv)
    (hb : bOk d.outbound r) (hd : r.deficit = false) :
    (handlePacket d r (.pubRec id rs)).2.2 ≠ .error .inflightExhausted := by
  rw [handlePacket_pubRec]
  split
  · rename_i hf
    have hroom := release_room_of_bal d r id ha hb hd hf
    split
    · simp
    · split
      · simp
      · simp
  · split <;> simp

/-- After any program: the arena invariant, and on a live handle the balanced books. -/
theorem run_arena_bal (cfg : Cfg) (ds : List Directive) :
    let w := ds.foldl World.execDirective { sess := Session.new cfg }
    w.sess.data.outbound.ArenaInv ∧ (w.live = true → bOk w.sess.data.outbound w.sess.rt) := by
  intro w
  have hq : QuotaP w.sess := run_inv closed_QuotaP ds { sess := Session.new cfg } (QuotaP_new cfg)
  exact ⟨hq.1.1, fun hl => bal_of_live cfg ds hl⟩

end Minimq
