import Minimq.Session
/-
Packet identifiers: the allocator finds a free identifier (pigeonhole), and the identifiers in
flight stay pairwise distinct and non-zero under every operation on the outbound state.
-/
namespace Minimq
open Gen Outbound

/-- Pigeonhole on lists: distinct elements that all occur in `used` are at most `used.length` many. -/
theorem nodup_subset_length (l used : List Nat) (hn : l.Nodup) (hs : ∀ x ∈ l, x ∈ used) :
    l.length ≤ used.length := by
  induction l generalizing used with
  | nil => simp
  | cons x l ih =>
    have hx : x ∈ used := hs x (by simp)
    have hn' := List.nodup_cons.mp hn
    have := ih (used.erase x) hn'.2 (fun y hy => by
      have hne : y ≠ x := fun h => hn'.1 (h ▸ hy)
      exact (List.mem_erase_of_ne hne).mpr (hs y (by simp [hy])))
    have hl := List.length_erase_of_mem hx
    simp only [List.length_cons]
    have : 0 < used.length := List.length_pos_of_mem hx
    omega

/-- The `k`-th candidate after `p` in the cyclic order 1, 2, …, 65535, 1, …. -/
def cand (p k : Nat) : Nat := (p - 1 + k) % 65535 + 1

theorem cand_zero (p : Nat) (h : 1 ≤ p ∧ p ≤ 65535) : cand p 0 = p := by
  unfold cand; omega

theorem bump_cand (p k : Nat) : SessionData.bumpId (cand p k) = cand p (k + 1) := by
  unfold SessionData.bumpId cand
  split <;> omega

theorem cand_range (p k : Nat) : 1 ≤ cand p k ∧ cand p k ≤ 65535 := by
  unfold cand; omega

theorem cand_inj (p i j : Nat) (hi : i < 65535) (hj : j < 65535) (h : cand p i = cand p j) : i = j := by
  unfold cand at h; omega

/-- The identifiers currently in use. -/
def Outbound.usedIds (o : Outbound) : List Nat := o.retained.map (·.id) ++ o.release.map (·.id)

theorem usedIds_mem (o : Outbound) (id : Nat) :
    id ∈ o.usedIds ↔ (o.hasRetained id = true ∨ o.hasPendingRelease id = true) := by
  simp [Outbound.usedIds, Outbound.hasRetained, Outbound.hasPendingRelease, List.any_eq_true]

/-- What the allocator loop returns after starting at candidate `k`: a free candidate `j ≥ k`, with
the counter moved just behind it — or all `fuel` candidates from `k` on are in use. -/
theorem nextPacketIdFuel_spec (fuel : Nat) (d : SessionData) (p k : Nat) (hp : d.packetId = cand p k) :
    (∃ j, k ≤ j ∧ j < k + fuel ∧ (d.nextPacketIdFuel fuel).2 = cand p j ∧
        cand p j ∉ d.outbound.usedIds ∧ (d.nextPacketIdFuel fuel).1.packetId = cand p (j + 1) ∧
        (d.nextPacketIdFuel fuel).1.outbound = d.outbound ∧
        (d.nextPacketIdFuel fuel).1.generation = d.generation ∧
        (d.nextPacketIdFuel fuel).1.pendingServerIds = d.pendingServerIds ∧
        (d.nextPacketIdFuel fuel).1.sessionPresent = d.sessionPresent) ∨
    (∀ j, k ≤ j → j < k + fuel → cand p j ∈ d.outbound.usedIds) := by
  induction fuel generalizing d k with
  | zero => right; intro j h1 h2; omega
  | succ fuel ih =>
    unfold SessionData.nextPacketIdFuel
    by_cases hfree : (!d.outbound.hasRetained d.packetId && !d.outbound.hasPendingRelease d.packetId) = true
    · left
      simp only [hfree, if_true]
      refine ⟨k, Nat.le_refl _, by omega, hp, ?_, by simp [hp, bump_cand], trivial, trivial, trivial, trivial⟩
      rw [← hp, usedIds_mem]
      simp at hfree
      simp [hfree.1, hfree.2]
    · simp only [hfree, Bool.false_eq_true, if_false]
      have hused : cand p k ∈ d.outbound.usedIds := by
        rw [← hp, usedIds_mem]
        simp at hfree
        by_cases h1 : d.outbound.hasRetained d.packetId = true
        · exact Or.inl h1
        · right; simp at h1; exact hfree h1
      have := ih { d with packetId := SessionData.bumpId d.packetId } (k + 1) (by simp [hp, bump_cand])
      rcases this with ⟨j, h1, h2, h3, h4, h5, h6, h7, h8, h9⟩ | hall
      · left
        exact ⟨j, by omega, by omega, h3, h4, h5, h6, h7, h8, h9⟩
      · right
        intro j h1 h2
        by_cases hjk : j = k
        · subst hjk; exact hused
        · exact hall j (by omega) (by omega)


theorem cands_nodup (p n : Nat) (hn : n ≤ 65535) : ((List.range n).map (cand p)).Nodup := by
  unfold List.Nodup
  rw [List.pairwise_map]
  have hr : (List.range n).Pairwise (· ≠ ·) := List.nodup_range
  refine List.Pairwise.imp_of_mem ?_ hr
  intro i j hi hj hne h
  simp at hi hj
  exact hne (cand_inj p i j (by omega) (by omega) h)

/-- **The allocator always finds a free identifier.** With at most `MAX_RETAINED` retained packets
and `MAX_PENDING_RELEASE` release entries (the capacities of the two lists), the identifier returned
is between 1 and 65535 and is held by no operation that still waits for an acknowledgement; nothing
but the counter changes. -/
theorem nextPacketId_fresh (d : SessionData)
    (hpid : 1 ≤ d.packetId ∧ d.packetId ≤ 65535)
    (hret : d.outbound.retained.length ≤ MAX_RETAINED) (hrel : d.outbound.release.length ≤ MAX_PENDING_RELEASE) :
    let r := d.nextPacketId
    1 ≤ r.2 ∧ r.2 ≤ 65535 ∧ d.outbound.hasRetained r.2 = false ∧ d.outbound.hasPendingRelease r.2 = false ∧
    1 ≤ r.1.packetId ∧ r.1.packetId ≤ 65535 ∧ r.1.outbound = d.outbound ∧ r.1.generation = d.generation ∧
    r.1.pendingServerIds = d.pendingServerIds ∧ r.1.sessionPresent = d.sessionPresent := by
  have hspec := nextPacketIdFuel_spec (MAX_RETAINED + MAX_PENDING_RELEASE + 1) d d.packetId 0
    (by rw [cand_zero _ hpid])
  rcases hspec with ⟨j, _, _, h3, h4, h5, h6, h7, h8, h9⟩ | hall
  · simp only [SessionData.nextPacketId]
    rw [usedIds_mem] at h4
    have hr := cand_range d.packetId j
    have hr2 := cand_range d.packetId (j + 1)
    refine ⟨by rw [h3]; exact hr.1, by rw [h3]; exact hr.2, ?_, ?_, by rw [h5]; exact hr2.1, by rw [h5]; exact hr2.2, h6, h7, h8, h9⟩
    · rw [h3]; cases h : d.outbound.hasRetained (cand d.packetId j) <;> simp_all
    · rw [h3]; cases h : d.outbound.hasPendingRelease (cand d.packetId j) <;> simp_all
  · exfalso
    have hlen : d.outbound.usedIds.length ≤ 16 := by
      simp only [Outbound.usedIds, List.length_append, List.length_map]
      have : MAX_RETAINED = 8 := rfl
      have : MAX_PENDING_RELEASE = 8 := rfl
      omega
    have h17 := nodup_subset_length ((List.range 17).map (cand d.packetId)) d.outbound.usedIds
      (cands_nodup d.packetId 17 (by omega))
      (by
        intro x hx
        simp at hx
        obtain ⟨j, hj, rfl⟩ := hx
        exact hall j (Nat.zero_le _) (by
          have : MAX_RETAINED + MAX_PENDING_RELEASE + 1 = 17 := rfl
          omega))
    simp at h17
    omega

theorem compactGo_ids (es : List RetainedPacket) (buf : Bytes) (c : Nat) :
    (compactGo es buf c).1.map (·.id) = es.map (·.id) ∧ (compactGo es buf c).1.length = es.length := by
  induction es generalizing buf c with
  | nil => simp [compactGo]
  | cons e es ih =>
    simp only [compactGo]
    have := ih (if e.offset ≠ c then setRange buf c (slice buf e.offset e.len) else buf) (c + e.len)
    exact ⟨by simp only [List.map_cons, this.1], by simp only [List.length_cons, this.2]⟩

@[simp] theorem compact_retained_ids (o : Outbound) : (o.compact).retained.map (·.id) = o.retained.map (·.id) := by
  simp [compact, (compactGo_ids o.retained o.buf 0).1]

@[simp] theorem compact_retained_length (o : Outbound) : (o.compact).retained.length = o.retained.length := by
  simp [compact, (compactGo_ids o.retained o.buf 0).2]

@[simp] theorem compact_release (o : Outbound) : (o.compact).release = o.release := by simp [compact]
@[simp] theorem compact_control (o : Outbound) : (o.compact).control = o.control := by simp [compact]

theorem removeFirst_sublist {α} (p : α → Bool) (l : List α) : (removeFirst p l).Sublist l := by
  induction l with
  | nil => simp [removeFirst]
  | cons x xs ih =>
    simp only [removeFirst]
    split
    · exact List.sublist_cons_self x xs
    · exact List.Sublist.cons_cons x ih

theorem removeFirst_length {α} (p : α → Bool) (l : List α) (h : l.any p = true) :
    (removeFirst p l).length + 1 = l.length := by
  induction l with
  | nil => simp at h
  | cons x xs ih =>
    simp only [removeFirst]
    split
    · simp
    · rename_i hx
      simp [hx] at h
      simp [ih (by simpa [List.any_eq_true] using h)]

theorem removeFirst_not_mem_of_nodup {l : List RetainedPacket} {id : Nat} {p : RetainedPacket → Bool}
    (hn : (l.map (·.id)).Nodup) (hp : ∀ e, p e = true → e.id = id) (h : l.any p = true) :
    id ∉ (removeFirst p l).map (·.id) := by
  induction l with
  | nil => simp at h
  | cons x xs ih =>
    simp only [List.map_cons, List.nodup_cons] at hn
    simp only [removeFirst]
    split
    · rename_i hx
      rw [← hp x hx]; exact hn.1
    · rename_i hx
      simp [hx] at h
      have := ih hn.2 (by simpa [List.any_eq_true] using h)
      simp only [List.map_cons, List.mem_cons, not_or]
      refine ⟨?_, this⟩
      intro hid
      obtain ⟨e, he, hpe⟩ := h
      have : e.id = id := hp e hpe
      apply hn.1
      rw [← hid, ← this]
      exact List.mem_map_of_mem he

/-- In-flight identifiers: distinct, non-zero, within the two capacities. -/
structure Outbound.IdInv (o : Outbound) : Prop where
  nodup : o.usedIds.Nodup
  nonzero : 0 ∉ o.usedIds
  retCap : o.retained.length ≤ MAX_RETAINED
  relCap : o.release.length ≤ MAX_PENDING_RELEASE

theorem IdInv_new (cap : Nat) : (Outbound.new cap).IdInv := by
  constructor <;> simp [Outbound.new, usedIds]

theorem IdInv_clear (o : Outbound) : (o.clear).IdInv := by
  constructor <;> simp [Outbound.clear, usedIds]

theorem usedIds_compact (o : Outbound) : (o.compact).usedIds = o.usedIds := by
  simp [usedIds]

/-- Retaining a packet under an identifier that is not in use keeps the identifiers distinct. -/
theorem IdInv_retainPacket {o o' : Outbound} {id off len : Nat} (h : o.IdInv)
    (hfresh : id ∉ o.usedIds) (hnz : id ≠ 0) (hr : o.retainPacket id off len = some o') : o'.IdInv := by
  unfold retainPacket at hr
  split at hr
  · simp at hr
  · rename_i hcap
    simp at hr; subst hr
    have hn := h.nodup
    simp only [usedIds, List.map_append, List.map_cons, List.map_nil] at hfresh hn ⊢
    constructor
    · simp only [usedIds, List.map_append, List.map_cons, List.map_nil, List.append_assoc, List.singleton_append]
      rw [List.nodup_append] at hn ⊢
      simp only [List.mem_append, not_or] at hfresh
      refine ⟨hn.1, ?_, ?_⟩
      · rw [List.nodup_cons]; exact ⟨hfresh.2, hn.2.1⟩
      · intro a ha b hb
        simp only [List.mem_cons] at hb
        rcases hb with rfl | hb
        · intro hab; subst hab; exact hfresh.1 ha
        · exact hn.2.2 a ha b hb
    · have := h.nonzero
      simp only [usedIds, List.map_append, List.map_cons, List.map_nil, List.mem_append, List.mem_cons,
        List.not_mem_nil, or_false, not_or] at this ⊢
      exact ⟨⟨this.1, fun h0 => hnz h0.symm⟩, this.2⟩
    · simp; omega
    · exact h.relCap

theorem Nodup_sublist_left {a a' b : List Nat} (h : (a ++ b).Nodup) (hs : a'.Sublist a) : (a' ++ b).Nodup := by
  exact List.Nodup.sublist (List.Sublist.append hs (List.Sublist.refl b)) h

theorem Nodup_sublist_right {a b b' : List Nat} (h : (a ++ b).Nodup) (hs : b'.Sublist b) : (a ++ b').Nodup := by
  exact List.Nodup.sublist (List.Sublist.append (List.Sublist.refl a) hs) h

/-- `ack_packet` keeps the invariant; when it found the entry, the identifier is free afterwards. -/
theorem IdInv_ackPacket {o : Outbound} {id : Nat} {k : AckKind} (h : o.IdInv) :
    (o.ackPacket id k).1.IdInv ∧ ((o.ackPacket id k).2 = true → id ∉ (o.ackPacket id k).1.usedIds) ∧
    (o.ackPacket id k).1.release = o.release := by
  unfold ackPacket
  simp only []
  split
  · rename_i hany
    have hsub := removeFirst_sublist (fun e => e.id == id && k.acknowledges (o.headerAt e.offset)) o.retained
    have hsubm := List.Sublist.map (·.id) hsub
    refine ⟨⟨?_, ?_, ?_, ?_⟩, ?_, by simp⟩
    · rw [usedIds_compact]; exact Nodup_sublist_left h.nodup hsubm
    · rw [usedIds_compact]
      have := h.nonzero
      simp only [usedIds, List.mem_append, not_or] at this ⊢
      exact ⟨fun hm => this.1 (hsubm.subset hm), this.2⟩
    · simp; exact Nat.le_trans (List.Sublist.length_le hsub) h.retCap
    · simp; exact h.relCap
    · intro _
      rw [usedIds_compact]
      have hn := h.nodup
      simp only [usedIds] at hn ⊢
      rw [List.nodup_append] at hn
      have h1 := removeFirst_not_mem_of_nodup (id := id) hn.1
        (p := fun e => e.id == id && k.acknowledges (o.headerAt e.offset))
        (by intro e he; simp at he; exact he.1) hany
      simp only [List.mem_append, not_or]
      refine ⟨h1, ?_⟩
      intro hrel
      -- id is in the original retained list (the entry found), so it cannot be in release
      simp only [List.any_eq_true] at hany
      obtain ⟨e, he, hpe⟩ := hany
      simp at hpe
      exact hn.2.2 id (by rw [← hpe.1]; exact List.mem_map_of_mem he) id hrel rfl
  · exact ⟨h, by simp, rfl⟩

theorem IdInv_queueRelease {o o' : Outbound} {id rc ps : Nat} (h : o.IdInv) (hfresh : id ∉ o.usedIds) (hnz : id ≠ 0)
    (hq : o.queueRelease id rc ps = some o') : o'.IdInv := by
  unfold queueRelease at hq
  split at hq
  · simp at hq
  · simp at hq; subst hq
    have hn := h.nodup
    have h0 := h.nonzero
    simp only [usedIds, List.mem_append, not_or] at hfresh hn h0
    refine ⟨?_, ?_, h.retCap, by simp; omega⟩
    · simp only [usedIds, List.map_append, List.map_cons, List.map_nil]
      rw [← List.append_assoc, List.nodup_append]
      refine ⟨hn, by simp, ?_⟩
      intro a ha b hb
      simp at hb; subst hb
      intro hab; subst hab
      simp only [List.mem_append] at ha
      rcases ha with ha | ha
      · exact hfresh.1 ha
      · exact hfresh.2 ha
    · simp only [usedIds, List.map_append, List.map_cons, List.map_nil, List.mem_append, List.mem_cons,
        List.not_mem_nil, or_false, not_or]
      exact ⟨h0.1, h0.2, fun h => hnz h.symm⟩

theorem IdInv_ackRelease {o : Outbound} {id : Nat} (h : o.IdInv) : (o.ackRelease id).1.IdInv := by
  unfold ackRelease
  split
  · have hsub := removeFirst_sublist (fun (e : PendingRelease) => e.id == id) o.release
    have hsubm := List.Sublist.map (·.id) hsub
    refine ⟨Nodup_sublist_right h.nodup hsubm, ?_, h.retCap, ?_⟩
    · have := h.nonzero
      simp only [usedIds, List.mem_append, not_or] at this ⊢
      exact ⟨this.1, fun hm => this.2 (hsubm.subset hm)⟩
    · exact Nat.le_trans (List.Sublist.length_le hsub) h.relCap
  · exact h

/-- Operations that only touch send states or the control queue leave the identifiers alone. -/
theorem IdInv_of_same_ids {o o' : Outbound} (h : o.IdInv) (h1 : o'.retained.map (·.id) = o.retained.map (·.id))
    (h2 : o'.release.map (·.id) = o.release.map (·.id)) : o'.IdInv := by
  have hu : o'.usedIds = o.usedIds := by simp [usedIds, h1, h2]
  have hl1 : o'.retained.length = o.retained.length := by
    have := congrArg List.length h1; simpa using this
  have hl2 : o'.release.length = o.release.length := by
    have := congrArg List.length h2; simpa using this
  exact ⟨hu ▸ h.nodup, hu ▸ h.nonzero, hl1 ▸ h.retCap, hl2 ▸ h.relCap⟩

theorem modifyFirst_map_id {α} (p : α → Bool) (f : α → α) (g : α → Nat) (hg : ∀ a, g (f a) = g a) (l : List α) :
    (modifyFirst p f l).map g = l.map g := by
  induction l with
  | nil => rfl
  | cons x xs ih =>
    simp only [modifyFirst]
    split <;> simp [hg, ih]

theorem IdInv_armReplay {o : Outbound} (h : o.IdInv) : (o.armReplay).IdInv := by
  unfold armReplay
  split
  · exact h
  · apply IdInv_of_same_ids h <;> simp [markRetainedDup, Function.comp_def]

theorem IdInv_dropPingreq {o : Outbound} (h : o.IdInv) : (o.dropPingreq).IdInv :=
  IdInv_of_same_ids h rfl rfl

theorem IdInv_rearm {o : Outbound} (h : o.IdInv) : (o.rearm).IdInv :=
  IdInv_armReplay (IdInv_dropPingreq h)

theorem IdInv_queueControl {o o' : Outbound} {a : ControlAction} (h : o.IdInv) (hq : o.queueControl a = some o') : o'.IdInv := by
  unfold queueControl at hq
  split at hq
  · simp at hq
  · simp at hq; subst hq; exact IdInv_of_same_ids h rfl rfl

theorem ackPacket_found_mem {o : Outbound} {id : Nat} {k : AckKind} (h : (o.ackPacket id k).2 = true) :
    id ∈ o.usedIds := by
  unfold ackPacket at h
  simp only [] at h
  split at h
  · rename_i hany
    simp only [List.any_eq_true] at hany
    obtain ⟨e, he, hpe⟩ := hany
    simp at hpe
    simp only [usedIds, List.mem_append]
    left; rw [← hpe.1]; exact List.mem_map_of_mem he
  · simp at h

structure SessionData.IdInv (d : SessionData) : Prop where
  out : d.outbound.IdInv
  pid : 1 ≤ d.packetId ∧ d.packetId ≤ 65535

/-- Every inbound packet keeps the in-flight identifiers distinct and non-zero. -/
theorem handlePacket_IdInv (d : SessionData) (r : Runtime) (p : Recv) (h : d.IdInv) :
    (handlePacket d r p).1.IdInv := by
  have hack := fun id k => IdInv_ackPacket (o := d.outbound) (id := id) (k := k) h.out
  cases p with
  | connAck sp rc props => exact h
  | pingResp => exact h
  | disconnect rc props => exact h
  | subAck id props codes =>
    simp only [handlePacket]
    split
    · exact h
    · split <;> exact ⟨(hack id .subAck).1, h.pid⟩
  | unsubAck id props codes =>
    simp only [handlePacket]
    split
    · exact h
    · split <;> exact ⟨(hack id .unsubAck).1, h.pid⟩
  | pubAck id rs =>
    simp only [handlePacket]
    split
    · exact h
    · split <;> exact ⟨(hack id .pubAck).1, h.pid⟩
  | pubComp id rs =>
    simp only [handlePacket]
    split
    · exact h
    · split <;> exact ⟨IdInv_ackRelease h.out, h.pid⟩
  | pubRec id rs =>
    simp only [handlePacket]
    split
    · rename_i hfound
      have hf : (d.outbound.ackPacket id .pubRec).2 = true := hfound
      have hfree := (hack id .pubRec).2.1 hf
      have hnz : id ≠ 0 := by
        intro h0; subst h0
        exact h.out.nonzero (ackPacket_found_mem hf)
      split
      · exact ⟨(hack id .pubRec).1, h.pid⟩
      · split
        · exact ⟨(hack id .pubRec).1, h.pid⟩
        · split
          · exact ⟨(hack id .pubRec).1, h.pid⟩
          · rename_i o' hq
            exact ⟨IdInv_queueRelease (hack id .pubRec).1 hfree hnz hq, h.pid⟩
    · split
      · split <;> exact h
      · exact h
  | pubRel id rs =>
    simp only [handlePacket]
    repeat' split
    all_goals first
      | exact h
      | exact ⟨h.out, h.pid⟩
      | exact ⟨IdInv_queueControl h.out (by assumption), h.pid⟩
  | publish topic id props payload retain qos dup =>
    simp only [handlePacket]
    repeat' split
    all_goals first
      | exact h
      | exact ⟨h.out, h.pid⟩
      | exact ⟨IdInv_queueControl h.out (by assumption), h.pid⟩

theorem encodeAt_ids {ε} (o : Outbound) (enc : Nat → (Nat → Nat → Bytes) → Except ε (Nat × Bytes)) :
    (o.encodeAt enc).1.retained.map (·.id) = o.retained.map (·.id) ∧ (o.encodeAt enc).1.release = o.release ∧
    (o.encodeAt enc).1.control = o.control := by
  unfold encodeAt
  simp only []
  split <;> simp

theorem IdInv_encodeAt {ε} {o : Outbound} (enc : Nat → (Nat → Nat → Bytes) → Except ε (Nat × Bytes)) (h : o.IdInv) :
    (o.encodeAt enc).1.IdInv :=
  IdInv_of_same_ids h (encodeAt_ids o enc).1 (by rw [(encodeAt_ids o enc).2.1])

/-- **Allocation + enqueue**: the identifier given to a new PUBLISH/SUBSCRIBE/UNSUBSCRIBE is non-zero
and not held by any operation still in flight, and the in-flight identifiers stay pairwise distinct
after the packet has been retained — from any state satisfying the invariant, i.e. after any history,
however often the 16-bit counter has wrapped. -/
theorem enqueue_IdInv {ε} (d : SessionData) (h : d.IdInv)
    (enc : Nat → (Nat → Nat → Bytes) → Except ε (Nat × Bytes)) (off len : Nat) (o3 : Outbound)
    (hr : ((d.nextPacketId).1.outbound.encodeAt enc).1.retainPacket (d.nextPacketId).2 off len = some o3) :
    (d.nextPacketId).2 ≠ 0 ∧ (d.nextPacketId).2 ∉ d.outbound.usedIds ∧
    ({ (d.nextPacketId).1 with outbound := o3 } : SessionData).IdInv := by
  have hf := nextPacketId_fresh d h.pid h.out.retCap h.out.relCap
  simp only [] at hf
  obtain ⟨h1, h2, h3, h4, h5, h6, h7, _⟩ := hf
  have hfree : (d.nextPacketId).2 ∉ d.outbound.usedIds := by
    rw [usedIds_mem]; simp [h3, h4]
  have hnz : (d.nextPacketId).2 ≠ 0 := by omega
  refine ⟨hnz, hfree, ?_, ⟨h5, h6⟩⟩
  have hinv1 : (d.nextPacketId).1.outbound.IdInv := h7 ▸ h.out
  have hinv2 := IdInv_encodeAt enc hinv1
  have hfree2 : (d.nextPacketId).2 ∉ ((d.nextPacketId).1.outbound.encodeAt enc).1.usedIds := by
    have := encodeAt_ids (d.nextPacketId).1.outbound enc
    have hu : ((d.nextPacketId).1.outbound.encodeAt enc).1.usedIds = d.outbound.usedIds := by
      simp only [usedIds]
      rw [this.1, this.2.1, h7]
    rw [hu]; exact hfree
  exact IdInv_retainPacket hinv2 hfree2 hnz hr
end Minimq
