import Minimq.Proofs.CancelSim
import Minimq.Proofs.WireTop
/-
The worlds the machine produces satisfy what the cancellation simulation asks of a suspended world:
from the wire invariant at an await point (`PcOK`) to the hypotheses of `reenter_write`,
`reenter_flush`, `reenter_read`.
-/
namespace Minimq
open Gen World Outbound Fuel

theorem fits_not_tooLarge {v : View} {n : Nat} (h : Fits v.lim n) : v.sess.rt.packetTooLarge n = false := by
  unfold Runtime.packetTooLarge
  cases hm : v.sess.rt.maximumPacketSize with
  | none => rfl
  | some m =>
    have := h m hm
    simp only [decide_eq_false_iff_not, Nat.not_lt]
    exact this

/-- At the `write` await: no complete inbound packet is waiting, the connection is live, and the
scheduler, asked again, names the same entry and `perform_outbound_step` prepares the same write. -/
theorem write_ready {w : World} {ctx : StepCtx} {pkt : Flushed} {bytes : Bytes} {wr len now : Nat}
    (h : PcOK w.view (.stepWrite ctx pkt bytes wr len now)) :
    w.sess.reader.packetAvailable = false ∧ w.live = true ∧
    ∃ st, w.sess.data.outbound.nextStep = some st ∧ prepareStep w st = .write pkt bytes wr len := by
  obtain ⟨step, ⟨hl, hs, hst, hb, hlt, hfr, ha, hok, hn⟩, rfl, rfl⟩ := h
  refine ⟨ha, hl.live, step, hn, ?_⟩
  have htl : w.sess.rt.packetTooLarge bytes.length = false := fits_not_tooLarge hok
  cases hs with
  | control a st rest hc hrest hrel hret =>
    simp only [Outbound.Step.state] at hst
    simp only [Outbound.StepBytes] at hb
    subst hst
    simp only [prepareStep, Outbound.Step.flushed]
    rw [show encodeControl a = .ok bytes from hb]
    simp only [htl, Bool.false_eq_true, if_false]
  | release pre id rc st rs ps post hr hpre hpost hctl hret hsent =>
    simp only [Outbound.Step.state] at hst
    simp only [Outbound.StepBytes] at hb
    subst hst
    simp only [prepareStep, Outbound.Step.flushed]
    rw [show encodePubrel id rc = .ok bytes from hb]
    simp only [htl, Bool.false_eq_true, if_false]
  | retained pre e post hr hpre hpost hctl hrel hsent =>
    simp only [Outbound.Step.state] at hst
    simp only [Outbound.StepBytes] at hb
    obtain ⟨hb1, hb2⟩ := hb
    simp only [prepareStep, Outbound.Step.flushed]
    rw [hst]
    simp only []
    rw [← hb2, htl]
    simp only [Bool.false_eq_true, if_false]
    rw [hb2]
    congr 1
    exact hb1.symm

/-- At the `flush` await. -/
theorem flush_ready {w : World} {ctx : StepCtx} {pkt : Flushed} {now : Nat}
    (h : PcOK w.view (.stepFlush ctx pkt now)) :
    w.sess.reader.packetAvailable = false ∧ w.live = true ∧
    ∃ st, w.sess.data.outbound.nextStep = some st ∧ prepareStep w st = .flush pkt := by
  obtain ⟨step, ⟨hl, hs, hst, ha⟩, rfl⟩ := h
  refine ⟨ha, hl.live, step, hs.nextStep (by rw [hst]; rfl), ?_⟩
  cases hs with
  | control a st rest hc hrest hrel hret =>
    simp only [Outbound.Step.state] at hst; subst hst; rfl
  | release pre id rc st rs ps post hr hpre hpost hctl hret hsent =>
    simp only [Outbound.Step.state] at hst; subst hst; rfl
  | retained pre e post hr hpre hpost hctl hrel hsent =>
    simp only [Outbound.Step.state] at hst
    simp only [prepareStep, Outbound.Step.flushed]
    rw [hst]

/-- At the `read` await. -/
theorem read_ready {w : World} {o : Outer} {d : Option Nat} {y : Bool} (h : PcOK w.view (.waitRead o d y)) :
    w.sess.reader.packetAvailable = false ∧ w.live = true ∧ w.sess.data.outbound.nextStep = none ∧
    y = true ∧ d = w.sess.rt.nextDeadline ∧ ∃ n, n ≠ 0 ∧ w.sess.window = some (w.sess, n) := by
  obtain ⟨⟨⟨hl, _⟩, hn⟩, ha, hy, hd, hw⟩ := h
  exact ⟨ha, hl.live, hn, hy, hd, hw⟩


/-! ### Between directives no I/O decision is pending -/

theorem slot_call (c : Call) (h : c.world.slot = none) : (c.run pollFuel).slot = none :=
  (run_pollFuel_final c).rel.slot_none h

theorem slot_poll (w : World) (h : w.slot = none) : (World.poll w).slot = none := (poll_rel w).slot_none h

theorem slot_cancelFut (w : World) : w.cancelFut.slot = w.slot := by
  unfold World.cancelFut; split <;> rfl

theorem slot_dropConn (w : World) : w.dropConn.slot = w.slot := by
  unfold World.dropConn
  simp only []
  split
  · exact slot_cancelFut w
  · exact slot_cancelFut w

theorem slot_startOp (w : World) (name : String) (body : World → World) (hb : ∀ w', w'.slot = none → (body w').slot = none)
    (h : w.slot = none) : (w.startOp name body).slot = none := by
  unfold World.startOp
  split
  · exact h
  · exact hb _ (by show w.cancelFut.slot = none; rw [slot_cancelFut]; exact h)

theorem slot_goLoop (n : Nat) (w : World) (h : w.slot = none) : (World.goLoop n w).slot = none := by
  induction n generalizing w with
  | zero => exact h
  | succ n ih =>
    unfold World.goLoop
    simp only []
    repeat' split
    all_goals first
      | rfl
      | exact ih _ rfl

/-- Every directive leaves the world without a pending I/O decision. -/
theorem slot_execDirective (w : World) (d : Directive) (h : w.slot = none) : (w.execDirective d).slot = none := by
  unfold World.execDirective
  cases d with
  | bad => exact h
  | connect =>
    unfold World.startConnect
    simp only []
    have h1 : w.dropConn.slot = none := by rw [slot_dropConn]; exact h
    split
    · exact h1
    · exact slot_call (.DLW _ 0 _) h1
  | publish r =>
    apply slot_startOp _ _ _ _ h; intro w' h'; try simp only []
    split
    · exact h'
    · exact slot_call (.FL w' _) h'
  | subscribe r =>
    apply slot_startOp _ _ _ _ h; intro w' h'; try simp only []
    repeat' split
    all_goals first
      | exact h'
      | exact slot_call (.FL w' _) h'
  | unsubscribe r =>
    apply slot_startOp _ _ _ _ h; intro w' h'; try simp only []
    repeat' split
    all_goals first
      | exact h'
      | exact slot_call (.FL w' _) h'
  | disconnect d =>
    apply slot_startOp _ _ _ _ h; intro w' h'; try simp only []
    repeat' split
    all_goals first
      | exact h'
      | exact slot_call (.FL w' _) h'
  | poll => apply slot_startOp _ _ _ _ h; intro w' h'; exact slot_call (.DE w' .poll) h'
  | recv => apply slot_startOp _ _ _ _ h; intro w' h'; exact slot_call (.DE w' .recv) h'
  | drive => apply slot_startOp _ _ _ _ h; intro w' h'; exact slot_call (.DE w' .drive) h'
  | d n =>
    simp only []
    split
    · exact h
    · rfl
  | go =>
    simp only []
    split
    · exact h
    · exact slot_goLoop _ w h
  | tick us =>
    simp only []
    repeat' split
    all_goals first
      | exact h
      | exact slot_poll _ h
  | rx bytes =>
    simp only []
    split
    · exact h
    · exact h
  | cancel => rw [slot_cancelFut]; exact h
  | drop => rw [slot_dropConn]; exact h
  | setpid n =>
    simp only []
    split
    · exact h
    · exact h
  | decode bs => exact h

theorem slot_run (ds : List Directive) (w : World) (h : w.slot = none) : (ds.foldl World.execDirective w).slot = none := by
  induction ds generalizing w with
  | nil => exact h
  | cons d ds ih => exact ih _ (slot_execDirective w d h)

end Minimq
