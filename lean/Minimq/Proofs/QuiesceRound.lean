import Minimq.Proofs.QuiesceLoop
/-
Bounded quiescence (C16, liveness half) — part 4: a whole round, and rounds until the queues are empty.
-/
namespace Minimq
open Gen World Fuel Outbound
namespace Quiesce

/-! ### A whole round -/

/-- The invariant between rounds: a program produced the world; the lifted and the `Tidy` facts hold;
the reader is at a packet boundary; and the inbound queue of the transport holds exactly the answers the
broker owes (for everything that is completely on the wire and not yet acknowledged). -/
structure Ready (W : World) : Prop where
  reach : Produced W
  live : Live W
  fresh : W.sess.reader.data = []
  sync : ∃ as, W.curNet.rx = enc as ∧ as.Perm (expected W.sess.data.outbound)

/-- Rounds that are still needed. -/
def mu (o : Outbound) : Nat := (if pending o = 0 then 0 else 1) + owed o

theorem newLog_full (W : World) : newLog W.log.length W = [] := by
  unfold newLog; rw [List.drop_length]; rfl

/-- **`poll()` is called**: the invariant of the round holds when the new operation has come to rest. -/
theorem mid_start (W : World) (hr : Ready W) :
    Mid W.log.length (owed W.sess.data.outbound) (pending W.sess.data.outbound) W.sess.data.generation 0
      (W.execDirective .poll) ∧
    (W.execDirective .poll).fut.isSome = true ∧
    nu (W.execDirective .poll) ≤ 2 * pending W.sess.data.outbound + 1 + 4 * W.curNet.rx.length := by
  have hreach := hr.reach.exec .poll
  obtain ⟨o, t, hstart⟩ := poll_start W hr.live.live hr.live.slot hr.live.wait hr.live.calm
  obtain ⟨o', fut, lr, heq, hrest⟩ := settle_rest (startW W o t) false hr.live.tidy.fits hr.live.arena rfl
  rw [hstart, heq] at hreach ⊢
  have hlive : Live ({ startW W o t with out := o', fut := fut, lastRes := lr } : World) :=
    ⟨hr.live.ids, hr.live.arena, hr.live.quota, hr.live.live, hr.live.slot, hr.live.nets, hr.live.calm, hr.live.tidy,
      hr.live.kinds, hr.live.cap, hr.live.wait, hr.live.idle⟩
  have hsync : Sync W.log.length ({ startW W o t with out := o', fut := fut, lastRes := lr } : World) := by
    obtain ⟨as, h1, h2⟩ := hr.sync
    refine ⟨as, ?_, ?_⟩
    · show W.sess.reader.data ++ W.curNet.rx = _
      rw [hr.fresh, List.nil_append]; exact h1
    · have : newLog W.log.length ({ startW W o t with out := o', fut := fut, lastRes := lr } : World) = [] :=
        newLog_full W
      rw [this]
      show (as ++ []).Perm (expected W.sess.data.outbound)
      rw [List.append_nil]; exact h2
  have hstv : (false = true) → W.curNet.rx = [] ∧ ∃ dl y, fut = some (Pc.waitRead .poll dl y) := fun h => by cases h
  cases hrest with
  | write pkt bytes wr len h1 h2 hs =>
    refine ⟨⟨hreach, hlive, hstv, rfl, ⟨h1, h2, rfl, hr.fresh⟩, hsync, Nat.le_refl _, rfl, ?_, rfl⟩, rfl, ?_⟩
    · intro _ hp0
      exact absurd (nextStep_none_of_pending_zero _ hp0) hs
    · unfold nu
      show 2 * pending W.sess.data.outbound + 1 + 4 * W.curNet.rx.length ≤ _
      omega
  | flush pkt h2 hs =>
    refine ⟨⟨hreach, hlive, hstv, rfl, ⟨h2, rfl, hr.fresh⟩, hsync, Nat.le_refl _, rfl, ?_, rfl⟩, rfl, ?_⟩
    · intro _ hp0
      exact absurd (nextStep_none_of_pending_zero _ hp0) hs
    · unfold nu
      show 2 * pending W.sess.data.outbound + 0 + 4 * W.curNet.rx.length ≤ _
      omega
  | done hn ha => cases ha
  | wait hn ha =>
    refine ⟨⟨hreach, hlive, hstv, rfl, ⟨?_, hn⟩, hsync, Nat.le_refl _, rfl, ?_, rfl⟩, rfl, ?_⟩
    · show DeadlineOK W.now W.sess.rt.nextDeadline
      cases hd : W.sess.rt.nextDeadline with
      | none => trivial
      | some d => exact hr.live.calm.deadline d hd
    · intro _ _
      exact ⟨⟨_, _, rfl⟩, rfl⟩
    · unfold nu
      show 2 * pending W.sess.data.outbound + 0 + 4 * W.curNet.rx.length ≤ _
      omega

theorem enc_length_le (as : List Spec.ServerPacket) (h : ∀ a ∈ as, (Spec.encodeServer a).length ≤ 6) :
    (enc as).length ≤ 6 * as.length := by
  induction as with
  | nil => simp [enc]
  | cons a as ih =>
    rw [enc_cons, List.length_append, List.length_cons]
    have := h a (by simp)
    have := ih (fun x hx => h x (by simp [hx]))
    omega

/-- At the end of the client's turn nothing is left to send and the reader is at a packet boundary. -/
theorem mid_end {L0 owed0 pend0 G h : Nat} {W : World} (hm : Mid L0 owed0 pend0 G h W)
    (hstop : W.fut = none ∨ W.lastIoStarved = true) :
    W.sess.data.outbound.nextStep = none ∧ W.sess.reader.data = [] := by
  rcases hstop with hf | hs
  · have := hm.pc
    unfold PcOK at this; rw [hf] at this
    exact this
  · obtain ⟨hrx, dl, y, hf⟩ := hm.starved hs
    exact ⟨(pcOK_wait hf hm.pc).2, hm.live.idle hrx⟩

theorem go_eq (W : World) (h : W.fut.isSome = true) : W.execDirective .go = World.goLoop 10000 W := by
  simp only [World.execDirective]
  rw [if_neg (by cases hf : W.fut <;> simp_all)]

theorem rx_eq (W : World) (bytes : Bytes) (h : W.nets ≠ []) :
    W.execDirective (.rx bytes) = W.setCurNet { W.curNet with rx := W.curNet.rx ++ bytes } := by
  simp only [World.execDirective]
  rw [if_neg (by cases hn : W.nets <;> simp_all)]

/-- **The client's turn of a round**: `poll()` comes to rest at its first I/O call with the invariant of
the round; `go` then ends the turn — `poll()` has returned or its read is starved — with the invariant. -/
theorem client_turn (W : World) (hr : Ready W) :
    Mid W.log.length (owed W.sess.data.outbound) (pending W.sess.data.outbound) W.sess.data.generation 0
      (W.execDirective .poll) ∧
    ∃ h', Mid W.log.length (owed W.sess.data.outbound) (pending W.sess.data.outbound) W.sess.data.generation h'
        (clientTurn W) ∧
      ((clientTurn W).fut = none ∨ (clientTurn W).lastIoStarved = true) := by
  obtain ⟨hm1, hfs1, hnu1⟩ := mid_start W hr
  -- enough rounds of `go`
  have hnu : nu (W.execDirective .poll) < 10000 := by
    obtain ⟨as, h1, h2⟩ := hr.sync
    have hp := pending_le W.sess.data.outbound
    have hc : W.sess.data.outbound.control.length ≤ 8 := hr.live.tidy.ctlCap
    have hrc : W.sess.data.outbound.retained.length ≤ 8 := hr.live.ids.retCap
    have hlc : W.sess.data.outbound.release.length ≤ 8 := hr.live.ids.relCap
    have hl : as.length ≤ 16 := by rw [h2.length_eq]; have := expected_length_le W.sess.data.outbound; omega
    have := enc_length_le as (fun a ha => (expected_wf _ hr.live.tidy.small a (h2.subset ha)).2)
    rw [h1] at hnu1
    omega
  obtain ⟨h', hm2, hstop⟩ := mid_go _ _ _ _ 10000 0 _ hm1 hfs1 hnu
  rw [← go_eq _ hfs1] at hm2 hstop
  exact ⟨hm1, h', hm2, hstop⟩

/-- **One round.** From the invariant between rounds: the invariant holds again after the round, and the
number of rounds still needed has gone down — or the session is quiescent. -/
theorem round_ready (W : World) (hr : Ready W) :
    Ready (round W) ∧
    (mu (round W).sess.data.outbound < mu W.sess.data.outbound ∨ (round W).sess.data.outbound.isQuiescent = true) ∧
    (round W).sess.data.generation = W.sess.data.generation := by
  obtain ⟨_, h', hm2, hstop⟩ := client_turn W hr
  obtain ⟨hn2, hdata2⟩ := mid_end hm2 hstop
  have hround : round W = (clientTurn W).setCurNet { (clientTurn W).curNet with
      rx := (clientTurn W).curNet.rx ++ brokerBytes (newLog W.log.length (clientTurn W)) } :=
    rx_eq _ _ hm2.live.nets
  have hreach3 : Produced (round W) := hm2.reach.exec _
  have hcur3 : (round W).curNet.rx =
      (clientTurn W).curNet.rx ++ brokerBytes (newLog W.log.length (clientTurn W)) := by
    rw [hround]; simp [World.setCurNet, World.curNet]
  have hsess3 : (round W).sess = (clientTurn W).sess := by rw [hround]; rfl
  have hpl : (clientTurn W).sess.reader.packetLength = none := by
    have := hm2.live.wait.canonical
    rw [this, hdata2]; rfl
  have hready : Ready (round W) := by
    refine ⟨hreach3, ⟨?_, ?_, ?_, ?_, ?_, ?_, ?_, ?_, ?_, ?_, ?_, ?_⟩, by rw [hsess3]; exact hdata2, ?_⟩
    · rw [hsess3]; exact hm2.live.ids
    · rw [hsess3]; exact hm2.live.arena
    · have := hm2.live.quota; unfold quotaOk at this ⊢; rw [hsess3]; exact this
    · rw [hround]; exact hm2.live.live
    · rw [hround]; exact hm2.live.slot
    · rw [hround]; simp [World.setCurNet]
    · rw [hsess3]; rw [hround]; exact hm2.live.calm
    · rw [hsess3]; exact hm2.live.tidy
    · rw [hsess3]; exact hm2.live.kinds
    · rw [hsess3]; exact hm2.live.cap
    · rw [hsess3]
      exact Waiting_fresh _ _ hdata2 hpl (Nat.le_trans (by omega) hm2.live.cap)
    · rw [hsess3]; intro _; exact hdata2
    · obtain ⟨as, h1, h2⟩ := hm2.sync
      refine ⟨as ++ (newLog W.log.length (clientTurn W)).filterMap answerOf, ?_, by rw [hsess3]; exact h2⟩
      rw [hcur3, enc_append]
      rw [hdata2, List.nil_append] at h1
      rw [h1]; rfl
  have hp2 : pending (round W).sess.data.outbound = 0 := by
    rw [hsess3]; exact pending_zero_of_nextStep_none _ hn2 hm2.live.tidy.clean
  refine ⟨hready, ?_, by rw [hsess3]; exact hm2.gen⟩
  · have hacct := hm2.acct
    unfold mu
    rw [hp2, hsess3]
    simp only [if_true]
    by_cases hp0 : pending W.sess.data.outbound = 0
    · rw [if_pos hp0]
      by_cases hh : h' = 0
      · -- nothing was sent and nothing was read: everything had been acknowledged already
        right
        subst hh
        obtain ⟨⟨dl, y, hfw⟩, hlog⟩ := hm2.quiet0 rfl hp0
        have hst : (clientTurn W).lastIoStarved = true := by
          rcases hstop with h | h
          · rw [hfw] at h; cases h
          · exact h
        obtain ⟨hrx, _⟩ := hm2.starved hst
        obtain ⟨as, h1, h2⟩ := hm2.sync
        rw [hdata2, hrx] at h1
        have has : as = [] := enc_eq_nil h1.symm
        have hnew : newLog W.log.length (clientTurn W) = [] := by
          unfold newLog; rw [← hlog, List.drop_length]; rfl
        rw [has, hnew] at h2
        exact quiescent_of _ hn2 (List.Perm.nil_eq h2).symm hm2.live.tidy.clean hm2.live.kinds
      · left; omega
    · left
      rw [if_neg hp0]; omega

theorem wgt_pos (v : RetV) : 1 ≤ wgt v ∧ wgt v ≤ 2 := by unfold wgt; split <;> omega

theorem sum_wgt_bounds (l : List RetV) : l.length ≤ (l.map wgt).sum ∧ (l.map wgt).sum ≤ 2 * l.length := by
  induction l with
  | nil => simp
  | cons x xs ih =>
    have := wgt_pos x
    simp only [List.map_cons, List.sum_cons, List.length_cons]
    omega

/-- The bound in terms of the queues: one round to send what is not sent, two per retained packet at
most (one unless it is a QoS 2 PUBLISH), one per PUBREL. -/
theorem mu_le (o : Outbound) : mu o ≤ 1 + 2 * o.retained.length + o.release.length := by
  unfold mu owed
  have := (sum_wgt_bounds (retView o)).2
  have hl : (retView o).length = o.retained.length := by simp [retView]
  split <;> omega

theorem quiescent_iff' (o : Outbound) : o.isQuiescent = true ↔ o.control = [] ∧ o.retained = [] ∧ o.release = [] := by
  simp [Outbound.isQuiescent, Outbound.hasPendingState, List.isEmpty_iff]
  constructor
  · intro ⟨⟨a, b⟩, c⟩; exact ⟨a, b, c⟩
  · intro ⟨a, b, c⟩; exact ⟨⟨a, b⟩, c⟩

theorem mu_zero_iff (o : Outbound) : mu o = 0 ↔ o.isQuiescent = true := by
  rw [quiescent_iff']
  unfold mu owed
  have hb := (sum_wgt_bounds (retView o)).1
  have hl : (retView o).length = o.retained.length := by simp [retView]
  constructor
  · intro h
    have hp : pending o = 0 := by
      by_cases hp : pending o = 0
      · exact hp
      · rw [if_neg hp] at h; omega
    rw [if_pos hp] at h
    rw [pending_def] at hp
    exact ⟨List.eq_nil_of_length_eq_zero (by omega), List.eq_nil_of_length_eq_zero (by omega),
      List.eq_nil_of_length_eq_zero (by omega)⟩
  · intro ⟨h1, h2, h3⟩
    have hp : pending o = 0 := by rw [pending_def]; simp [h1, retView, relView, h2, h3]
    rw [if_pos hp]
    simp [retView, h2, h3]

theorem rounds_succ (n : Nat) (W : World) : rounds (n + 1) W = rounds n (round W) := rfl

theorem rounds_add_one (n : Nat) (W : World) : rounds (n + 1) W = round (rounds n W) := by
  induction n generalizing W with
  | zero => rfl
  | succ n ih => rw [rounds_succ, ih (round W)]; rfl

/-- **Bounded quiescence.** From the invariant between rounds, after at most `mu` rounds the session is
quiescent; the invariant still holds and the session generation is unchanged. -/
theorem quiesces : ∀ (m : Nat) (W : World), Ready W → mu W.sess.data.outbound ≤ m →
    ∃ n, n ≤ mu W.sess.data.outbound ∧ (rounds n W).sess.data.outbound.isQuiescent = true ∧ Ready (rounds n W) ∧
      (rounds n W).sess.data.generation = W.sess.data.generation
  | 0, W, hr, hm => ⟨0, Nat.zero_le _, (mu_zero_iff _).mp (by show mu W.sess.data.outbound = 0; omega), hr, rfl⟩
  | m + 1, W, hr, hm => by
    by_cases h0 : mu W.sess.data.outbound = 0
    · exact ⟨0, Nat.zero_le _, (mu_zero_iff _).mp h0, hr, rfl⟩
    · obtain ⟨hr', hprog, hgen⟩ := round_ready W hr
      rcases hprog with hlt | hq
      · obtain ⟨n, hn, h1, h2, h3⟩ := quiesces m (round W) hr' (by omega)
        exact ⟨n + 1, by omega, h1, h2, by rw [rounds_succ, h3, hgen]⟩
      · exact ⟨1, by omega, hq, hr', hgen⟩

/-- **Quiescence is stable**: further rounds (each a `poll()` that finds nothing to do and waits for
input) leave the session quiescent. -/
theorem stays_quiescent (W : World) (hr : Ready W) (hq : W.sess.data.outbound.isQuiescent = true) :
    ∀ n, (rounds n W).sess.data.outbound.isQuiescent = true ∧ Ready (rounds n W) := by
  intro n
  induction n with
  | zero => exact ⟨hq, hr⟩
  | succ n ih =>
    rw [rounds_add_one]
    obtain ⟨hr', hprog, _⟩ := round_ready _ ih.2
    refine ⟨?_, hr'⟩
    rcases hprog with hlt | hq'
    · have := (mu_zero_iff _).mpr ih.1
      omega
    · exact hq'

end Quiesce
end Minimq
