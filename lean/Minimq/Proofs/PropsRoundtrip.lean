import Minimq.Proofs.SpecProps
/-
The model's *inbound* property decoder (`decodeProp`, `iterEncoded`: `Property::deserialize` and
`PropertiesIter` over an encoded block) inverts the model's property encoder (`Property.encode`,
`encodeProps`: `impl Serialize for Property`), for all 27 kinds and arbitrary values; and, for
arbitrary (possibly malformed) blocks, every iteration step consumes at least one byte, so the
iteration ends by itself.
-/
namespace Minimq
open Gen

/-! ### The generated tables -/

/-- What the serializer writes after the identifier is what the deserializer reads, for all 27
kinds. -/
theorem shapes_ser_eq_de (k : PropKind) : k.serShape = k.deShape := by
  cases k <;> rfl

/-- The three tables agree for every kind except `SubscriptionIdentifier`. -/
theorem shapes_agree (k : PropKind) (h : k ≠ .SubscriptionIdentifier) :
    k.serShape = k.declShape ∧ k.deShape = k.declShape := by
  cases k <;> first | exact ⟨rfl, rfl⟩ | exact absurd rfl h

/-- ... and only for those: `SubscriptionIdentifier` is declared `u32` but written and read as a
variable byte integer. -/
theorem shapes_agree_iff (k : PropKind) :
    (k.serShape = k.declShape ∧ k.deShape = k.declShape) ↔ k ≠ .SubscriptionIdentifier := by
  constructor
  · intro h hk; subst hk; simp [PropKind.serShape, PropKind.declShape] at h
  · exact shapes_agree k

/-- Finding: `serShape = deShape = declShape` is FALSE for `SubscriptionIdentifier`. -/
example : ¬ ∀ k : PropKind, k.serShape = k.declShape ∧ k.deShape = k.declShape := by
  intro h
  have := (h .SubscriptionIdentifier).1
  simp [PropKind.serShape, PropKind.declShape] at this

example : PropKind.SubscriptionIdentifier.declShape = .u32 ∧
    PropKind.SubscriptionIdentifier.serShape = .varint ∧
    PropKind.SubscriptionIdentifier.deShape = .varint := ⟨rfl, rfl, rfl⟩

/-- Looking an identifier up gives back the kind it belongs to (identifiers are pairwise distinct). -/
theorem kindOfId_id (k : PropKind) : kindOfId k.id = some k := by
  cases k <;> rfl

theorem PropKind.id_injective {k k' : PropKind} (h : k.id = k'.id) : k = k' := by
  have h1 := kindOfId_id k
  rw [h, kindOfId_id k'] at h1
  exact (Option.some.inj h1).symm

theorem PropKind.mem_all (k : PropKind) : k ∈ PropKind.all := by
  cases k <;> decide

theorem PropKind.all_nodup : PropKind.all.Nodup := by decide

/-- `kindOfId` only returns a kind whose identifier is the one asked for. -/
theorem kindOfId_some {id : Nat} {k : PropKind} (h : kindOfId id = some k) : k.id = id := by
  unfold kindOfId at h
  have := List.find?_some h
  simpa using this

theorem kindOfId_eq_some_iff (id : Nat) (k : PropKind) : kindOfId id = some k ↔ k.id = id :=
  ⟨kindOfId_some, fun h => h ▸ kindOfId_id k⟩

/-! ### Primitive readers against primitive writers -/

theorem readU16_u16be (n : Nat) (r : Bytes) (h : n < 65536) : readU16 (u16be n ++ r) = some (n, r) := by
  simp only [u16be, readU16, u16of, List.cons_append, List.nil_append, b_toNat]
  congr 2; omega

theorem readU32_u32be (n : Nat) (r : Bytes) (h : n < 4294967296) :
    readU32 (u32be n ++ r) = some (n, r) := by
  simp only [u32be, readU32, u32of, List.cons_append, List.nil_append, b_toNat]
  congr 2; omega

theorem takeN_append (s r : Bytes) : takeN (s ++ r) s.length = some (s, r) := by
  simp [takeN]

theorem readBin_enc (s r : Bytes) (h : s.length ≤ 65535) :
    readBin (u16be s.length ++ (s ++ r)) = some (s, r) := by
  unfold readBin
  rw [readU16_u16be _ _ (by omega)]
  simp only [takeN_append]

theorem readStr_enc (s r : Bytes) (h : s.length ≤ 65535) (hv : validUtf8 s = true) :
    readStr (u16be s.length ++ (s ++ r)) = some (s, r) := by
  unfold readStr
  rw [readU16_u16be _ _ (by omega)]
  simp only [takeN_append, hv, if_true]

/-! ### One value -/

/-- The chunks `impl Serialize for Property` pushes after the identifier. -/
def valChunks (sh : Shape) (v : PVal) : List (Except SerErr Bytes) :=
  match sh, v with
  | .u8, .n v => [.ok [b v]]
  | .u16, .n v => [.ok (u16be v)]
  | .u32, .n v => [.ok (u32be v)]
  | .varint, .n v => [varintField v]
  | .str, .s bs => [lenPrefixed bs]
  | .bin, .s bs => [lenPrefixed bs]
  | .pair, .p k v => [lenPrefixed k, lenPrefixed v]
  | _, _ => [.error .custom]

theorem Property.chunks_eq (p : Property) :
    p.chunks = varintField p.kind.id :: valChunks p.kind.serShape p.val := by
  unfold Property.chunks valChunks
  cases p.kind.serShape <;> cases p.val <;> rfl

/-- The value fits the wire shape `sh` (for `varint` the writer itself checks the range). -/
def valOk (sh : Shape) (v : PVal) : Bool :=
  match sh, v with
  | .u8, .n v => v < 256
  | .u16, .n v => v < 65536
  | .u32, .n v => v < 4294967296
  | .varint, .n _ => true
  | .str, .s bs => validUtf8 bs
  | .bin, .s _ => true
  | .pair, .p k v => validUtf8 k && validUtf8 v
  | _, _ => false

/-- A value of the declared type fits the shape the serializer uses — for all 27 kinds, including
`SubscriptionIdentifier` (declared `u32`, written as a varint: any number fits, the writer refuses
what is out of range). -/
theorem Property.wf_valOk (p : Property) (h : p.wf = true) : valOk p.kind.serShape p.val = true := by
  obtain ⟨k, v⟩ := p
  cases k <;> cases v <;> simp [Property.wf, PropKind.declShape] at h <;>
    simp [valOk, PropKind.serShape, h]

/-- Reading a value of shape `sh` from what the writer wrote for it gives the value back and stops
exactly at the end of it. -/
theorem readVal_valChunks (sh : Shape) (v : PVal) (body rest : Bytes) (hok : valOk sh v = true)
    (h : catChunks (valChunks sh v) = .ok body) : readVal sh (body ++ rest) = some (v, rest) := by
  cases sh <;> cases v <;> simp [valOk] at hok <;> simp only [valChunks] at h
  · -- u8
    obtain ⟨r, hr, ho⟩ := catChunks_cons_ok h
    have := catChunks_nil hr
    subst this ho
    simp only [readVal, List.append_nil, List.cons_append, List.nil_append, b_toNat]
    congr 3; omega
  · -- u16
    obtain ⟨r, hr, ho⟩ := catChunks_cons_ok h
    have := catChunks_nil hr
    subst this ho
    simp only [readVal, List.append_nil, readU16_u16be _ _ hok, Option.map]
  · -- u32
    obtain ⟨r, hr, ho⟩ := catChunks_cons_ok h
    have := catChunks_nil hr
    subst this ho
    simp only [readVal, List.append_nil, readU32_u32be _ _ hok, Option.map]
  · -- varint
    obtain ⟨x, r, hx, hr, ho⟩ := catChunks_cons h
    have := catChunks_nil hr
    obtain ⟨e1, l1⟩ := varintField_ok hx
    subst this ho e1
    simp only [readVal, List.append_nil, decode_encode_varint _ _ l1, Option.map]
  · -- str
    obtain ⟨x, r, hx, hr, ho⟩ := catChunks_cons h
    have := catChunks_nil hr
    obtain ⟨e1, l1⟩ := lenPrefixed_ok hx
    subst this ho e1
    simp only [readVal, List.append_nil, List.append_assoc, readStr_enc _ _ l1 hok, Option.map]
  · -- bin
    obtain ⟨x, r, hx, hr, ho⟩ := catChunks_cons h
    have := catChunks_nil hr
    obtain ⟨e1, l1⟩ := lenPrefixed_ok hx
    subst this ho e1
    simp only [readVal, List.append_nil, List.append_assoc, readBin_enc _ _ l1, Option.map]
  · -- pair
    obtain ⟨x, r, hx, hr, ho⟩ := catChunks_cons h
    obtain ⟨y, r2, hy, hr2, ho2⟩ := catChunks_cons hr
    have := catChunks_nil hr2
    obtain ⟨e1, l1⟩ := lenPrefixed_ok hx
    obtain ⟨e2, l2⟩ := lenPrefixed_ok hy
    subst this ho ho2 e1 e2
    simp only [readVal, List.append_nil, List.append_assoc, readStr_enc _ _ l1 hok.1,
      readStr_enc _ _ l2 hok.2]

/-! ### One property -/

/-- **The inbound decoder inverts the encoder on one property** (all 27 kinds, any well-typed
value, any bytes following): it returns exactly the property and reports exactly the encoded
length as consumed. No hypothesis on the kind is needed: `serShape = deShape` holds for all kinds,
and the one kind whose declared type differs (`SubscriptionIdentifier`) still round-trips because
the varint writer refuses values the varint reader could not return. -/
theorem decodeProp_encode (p : Property) (out rest : Bytes) (hwf : p.wf = true)
    (h : p.encode = .ok out) :
    decodeProp (out ++ rest) = { result := some p, consumed := out.length } := by
  have hok := p.wf_valOk hwf
  unfold Property.encode at h
  rw [Property.chunks_eq] at h
  obtain ⟨x, body, hx, hb, ho⟩ := catChunks_cons h
  obtain ⟨hx1, hx2⟩ := varintField_ok hx
  subst ho hx1
  unfold decodeProp
  rw [List.append_assoc, decode_encode_varint _ _ hx2]
  simp only [kindOfId_id, ← shapes_ser_eq_de, readVal_valChunks _ _ body rest hok hb]
  obtain ⟨k, v⟩ := p
  simp only [PropStep.mk.injEq, true_and, List.length_append]
  omega

/-- The statement in the form asked for (with the table hypothesis); it is an instance of
`decodeProp_encode`, which does not need the hypothesis. -/
theorem decodeProp_encode_of_shapes (p : Property) (out rest : Bytes) (hwf : p.wf = true)
    (_hs : p.kind.serShape = p.kind.declShape ∧ p.kind.deShape = p.kind.declShape)
    (h : p.encode = .ok out) :
    decodeProp (out ++ rest) = { result := some p, consumed := out.length } :=
  decodeProp_encode p out rest hwf h

/-! ### A block of properties -/

theorem iterEncodedFuel_encode (l : List Property) (block : Bytes) (fuel : Nat)
    (hwf : ∀ p ∈ l, p.wf = true) (h : encodeProps l = .ok block) (hf : block.length ≤ fuel) :
    iterEncodedFuel fuel block = l.map some := by
  induction l generalizing block fuel with
  | nil =>
    simp [encodeProps, catChunks] at h; subst h
    cases fuel <;> simp [iterEncodedFuel]
  | cons p l ih =>
    obtain ⟨a, c, ha, hc, ho⟩ := encodeProps_cons h
    subst ho
    have hne := Property.encode_nonempty p a ha
    cases fuel with
    | zero => simp at hf; exact absurd hf.1 hne
    | succ fuel =>
      have hlen : 0 < a.length := List.length_pos_iff.mpr hne
      have hne2 : (a ++ c).isEmpty = false := by
        cases a with
        | nil => exact absurd rfl hne
        | cons _ _ => rfl
      unfold iterEncodedFuel
      simp only [hne2, decodeProp_encode p a c (hwf p (by simp)) ha, List.drop_left,
        List.map_cons]
      rw [ih c fuel (fun q hq => hwf q (by simp [hq])) hc (by simp at hf; omega)]
      rfl

/-- **Every property the broker put in the block is iterated exactly once, in order, with exactly
its value, and nothing else is produced** (no error item, nothing dropped at the end). -/
theorem iterEncoded_encode (l : List Property) (block : Bytes)
    (hwf : ∀ p ∈ l, p.wf = true) (h : encodeProps l = .ok block) :
    iterEncoded block = l.map some :=
  iterEncodedFuel_encode l block _ hwf h (Nat.le_succ _)

/-! ### The accessors -/

/-- The value of the first property of kind `k` in a list of properties (`none` if there is no
property of that kind, or — impossible for a well-typed string/binary kind — its value is not a
byte string). -/
def firstVal (k : PropKind) (l : List Property) : Option Bytes :=
  match l.find? (fun p => p.kind = k) with
  | some p => (match p.val with | .s bs => some bs | _ => none)
  | none => none

/-- A well-typed property of a string- or binary-typed kind carries a byte string. -/
theorem Property.wf_str_val (p : Property) (hwf : p.wf = true)
    (hk : p.kind.declShape = .str ∨ p.kind.declShape = .bin) : ∃ bs, p.val = .s bs := by
  obtain ⟨k, v⟩ := p
  unfold Property.wf at hwf
  rcases hk with hk | hk <;> simp only [] at hk <;> rw [hk] at hwf <;> cases v <;> simp at hwf <;>
    exact ⟨_, rfl⟩

theorem firstOf_map_some (k : PropKind) (l : List Property)
    (hk : k.declShape = .str ∨ k.declShape = .bin) (hwf : ∀ p ∈ l, p.wf = true) :
    firstOf k (l.map some) = firstVal k l := by
  induction l with
  | nil => rfl
  | cons p l ih =>
    have ih := ih (fun q hq => hwf q (by simp [hq]))
    simp only [List.map_cons, firstOf, firstVal, List.find?_cons]
    by_cases hpk : p.kind = k
    · obtain ⟨bs, hbs⟩ := p.wf_str_val (hwf p (by simp)) (by rw [hpk]; exact hk)
      simp [hpk, hbs]
    · simp only [hpk, if_false, decide_false]
      exact ih

/-- What `firstVal` means: it is `some bs` exactly when the list splits into properties of other
kinds, then a property of kind `k` with value `bs`. -/
theorem firstVal_eq_some_iff (k : PropKind) (l : List Property) (bs : Bytes) :
    firstVal k l = some bs ↔
      ∃ l1 l2, l = l1 ++ { kind := k, val := .s bs } :: l2 ∧ ∀ q ∈ l1, q.kind ≠ k := by
  unfold firstVal
  constructor
  · intro h
    split at h
    · rename_i p hp
      obtain ⟨hpk, l1, l2, hl, hl1⟩ := List.find?_eq_some_iff_append.mp hp
      split at h
      · rename_i bs' hv
        simp at h; subst h
        refine ⟨l1, l2, ?_, fun q hq => by simpa using hl1 q hq⟩
        obtain ⟨k', v'⟩ := p
        simp at hpk hv; subst hpk hv; exact hl
      · simp at h
    · simp at h
  · rintro ⟨l1, l2, hl, hl1⟩
    have : l.find? (fun p => decide (p.kind = k)) = some { kind := k, val := .s bs } := by
      rw [List.find?_eq_some_iff_append]
      exact ⟨by simp, l1, l2, hl, fun q hq => by simpa using hl1 q hq⟩
    rw [this]

theorem firstVal_eq_none_of_absent (k : PropKind) (l : List Property) (h : ∀ q ∈ l, q.kind ≠ k) :
    firstVal k l = none := by
  unfold firstVal
  have : l.find? (fun p => decide (p.kind = k)) = none := by
    rw [List.find?_eq_none]; intro q hq; simpa using h q hq
  rw [this]

/-! ### Arbitrary blocks: progress and termination -/

theorem decodeVarint_length {bs r : Bytes} {n : Nat} (h : decodeVarint bs = some (n, r)) :
    r.length < bs.length := by
  obtain ⟨hb, _⟩ := decodeVarint_canonical bs r n h
  have h1 := encodeVarint_length n
  have h3 : varintLen n ≥ 1 := by
    unfold varintLen Gen.varintLen
    split <;> (try split) <;> (try split) <;> omega
  rw [hb, List.length_append]; omega

theorem readU16_length {bs r : Bytes} {n : Nat} (h : readU16 bs = some (n, r)) :
    bs.length = r.length + 2 := by
  unfold readU16 at h
  split at h
  · simp at h; simp [h.2]
  · simp at h

theorem readU32_length {bs r : Bytes} {n : Nat} (h : readU32 bs = some (n, r)) :
    bs.length = r.length + 4 := by
  unfold readU32 at h
  split at h
  · simp at h; simp [h.2]
  · simp at h

theorem takeN_length {bs s r : Bytes} {n : Nat} (h : takeN bs n = some (s, r)) :
    bs.length = r.length + n ∧ s.length = n := by
  unfold takeN at h
  split at h
  · simp at h
  · simp at h; obtain ⟨h1, h2⟩ := h; subst h1 h2; simp; omega

theorem readBin_length {bs s r : Bytes} (h : readBin bs = some (s, r)) :
    bs.length = r.length + 2 + s.length := by
  unfold readBin at h
  split at h
  · simp at h
  · rename_i n r0 h16
    have := readU16_length h16
    have := takeN_length h
    omega

theorem readStr_length {bs s r : Bytes} (h : readStr bs = some (s, r)) :
    bs.length = r.length + 2 + s.length := by
  unfold readStr at h
  split at h
  · simp at h
  · rename_i n r0 h16
    have := readU16_length h16
    split at h
    · simp at h
    · rename_i s' r' ht
      have := takeN_length ht
      split at h
      · simp at h; obtain ⟨h1, h2⟩ := h; subst h1 h2; omega
      · simp at h

/-- A successful value read never yields more bytes than it was given. -/
theorem readVal_length {sh : Shape} {bs r : Bytes} {v : PVal} (h : readVal sh bs = some (v, r)) :
    r.length ≤ bs.length := by
  cases sh <;> simp only [readVal] at h
  · split at h
    · simp at h; simp [h.2]
    · simp at h
  · cases h16 : readU16 bs with
    | none => simp [h16] at h
    | some x => obtain ⟨n, r0⟩ := x; simp [h16] at h; have h2 := h.2; subst h2; have := readU16_length h16; omega
  · cases h32 : readU32 bs with
    | none => simp [h32] at h
    | some x => obtain ⟨n, r0⟩ := x; simp [h32] at h; have h2 := h.2; subst h2; have := readU32_length h32; omega
  · cases hv : decodeVarint bs with
    | none => simp [hv] at h
    | some x => obtain ⟨n, r0⟩ := x; simp [hv] at h; have h2 := h.2; subst h2; have := decodeVarint_length hv; omega
  · cases hs : readStr bs with
    | none => simp [hs] at h
    | some x => obtain ⟨s, r0⟩ := x; simp [hs] at h; have h2 := h.2; subst h2; have := readStr_length hs; omega
  · cases hs : readBin bs with
    | none => simp [hs] at h
    | some x => obtain ⟨s, r0⟩ := x; simp [hs] at h; have h2 := h.2; subst h2; have := readBin_length hs; omega
  · split at h
    · simp at h
    · rename_i k r1 hk
      split at h
      · simp at h
      · rename_i v' r2 hv
        simp at h
        have h2 := h.2; subst h2
        have := readStr_length hk
        have := readStr_length hv
        omega

theorem failConsumed_varint_pos (bs : Bytes) (h : bs ≠ []) : 1 ≤ failConsumed .varint bs := by
  unfold failConsumed
  simp only []
  repeat' split
  all_goals first | omega | exact absurd rfl h

/-- **Every step of the iteration consumes at least one byte**, whatever the bytes are: the
property identifier is read first, and reading it pops at least one byte even when it fails. -/
theorem decodeProp_consumed_pos (bs : Bytes) (h : bs ≠ []) : 1 ≤ (decodeProp bs).consumed := by
  unfold decodeProp
  split
  · exact failConsumed_varint_pos bs h
  · rename_i id r hv
    have hl := decodeVarint_length hv
    simp only []
    split
    · simp only []; omega
    · rename_i k hk
      split
      · simp only []; omega
      · rename_i v r' hr
        have := readVal_length hr
        simp only []; omega

theorem failConsumed_lenField_le (bs : Bytes) :
    (match readU16 bs with
     | none => min bs.length 2
     | some (n, r) => if r.length < n then 2 else 2 + n) ≤ bs.length := by
  split
  · exact Nat.min_le_left _ _
  · rename_i n r h16
    have := readU16_length h16
    split
    · omega
    · show 2 + n ≤ bs.length; omega

/-- A failing value read never reports more consumed bytes than there were. -/
theorem failConsumed_le (sh : Shape) (bs : Bytes) : failConsumed sh bs ≤ bs.length := by
  cases sh <;> simp only [failConsumed]
  · omega
  · exact Nat.min_le_left _ _
  · omega
  · repeat' split
    all_goals first | omega | (simp only [List.length_cons]; omega)
  · exact failConsumed_lenField_le bs
  · exact failConsumed_lenField_le bs
  · split
    · exact failConsumed_lenField_le bs
    · rename_i k r hk
      have := readStr_length hk
      refine Nat.le_trans (Nat.add_le_add_left (failConsumed_lenField_le r) _) ?_
      omega

/-- The reported number of consumed bytes never exceeds the input: the iterator's index stays
within the block. -/
theorem decodeProp_consumed_le (bs : Bytes) : (decodeProp bs).consumed ≤ bs.length := by
  unfold decodeProp
  split
  · exact failConsumed_le .varint bs
  · rename_i id r hv
    have hl := decodeVarint_length hv
    simp only []
    split
    · simp only []; omega
    · rename_i k hk
      split
      · have := failConsumed_le k.deShape r
        simp only []; omega
      · simp only []; omega

/-- Finding check: `decodeProp` never reports `consumed = 0` on a non-empty input, so the iterator
never repeats the same error. -/
theorem decodeProp_consumed_ne_zero (bs : Bytes) (h : bs ≠ []) : (decodeProp bs).consumed ≠ 0 := by
  have := decodeProp_consumed_pos bs h; omega

theorem iterEncodedFuel_length (fuel : Nat) (bs : Bytes) :
    (iterEncodedFuel fuel bs).length ≤ bs.length := by
  induction fuel generalizing bs with
  | zero => simp [iterEncodedFuel]
  | succ fuel ih =>
    unfold iterEncodedFuel
    cases bs with
    | nil => simp
    | cons x xs =>
      have hp := decodeProp_consumed_pos (x :: xs) (by simp)
      have := ih ((x :: xs).drop (decodeProp (x :: xs)).consumed)
      simp only [List.isEmpty_cons, Bool.false_eq_true, if_false, List.length_cons]
      rw [List.length_drop] at this
      simp only [List.length_cons] at this
      omega

/-- The iteration over an arbitrary block yields at most one item per byte of the block. -/
theorem iterEncoded_length (bs : Bytes) : (iterEncoded bs).length ≤ bs.length :=
  iterEncodedFuel_length _ bs

/-- The fuel of the model never cuts the iteration short: any two amounts of fuel that are at
least the block length give the same list (the iteration ends because the block is exhausted). -/
theorem iterEncodedFuel_stable (f1 f2 : Nat) (bs : Bytes) (h1 : bs.length ≤ f1) (h2 : bs.length ≤ f2) :
    iterEncodedFuel f1 bs = iterEncodedFuel f2 bs := by
  induction f1 generalizing f2 bs with
  | zero =>
    have : bs = [] := List.eq_nil_of_length_eq_zero (by omega)
    subst this
    cases f2 <;> simp [iterEncodedFuel]
  | succ f1 ih =>
    cases bs with
    | nil => cases f2 <;> simp [iterEncodedFuel]
    | cons x xs =>
      cases f2 with
      | zero => simp at h2
      | succ f2 =>
        have hp := decodeProp_consumed_pos (x :: xs) (by simp)
        unfold iterEncodedFuel
        simp only [List.isEmpty_cons, Bool.false_eq_true, if_false]
        congr 1
        apply ih
        all_goals (rw [List.length_drop]; simp only [List.length_cons] at h1 h2 ⊢; omega)

theorem iterEncoded_eq_fuel (fuel : Nat) (bs : Bytes) (h : bs.length ≤ fuel) :
    iterEncodedFuel fuel bs = iterEncoded bs :=
  iterEncodedFuel_stable _ _ bs h (Nat.le_succ _)

/-- One unfolding of the iteration on a non-empty block: the head item, then the iteration of
what is left after the consumed bytes (`PropertiesIter::next`). -/
theorem iterEncoded_cons (x : UInt8) (xs : Bytes) :
    iterEncoded (x :: xs) =
      (decodeProp (x :: xs)).result ::
        iterEncoded ((x :: xs).drop (decodeProp (x :: xs)).consumed) := by
  have hp := decodeProp_consumed_pos (x :: xs) (by simp)
  rw [iterEncoded, iterEncodedFuel]
  simp only [List.isEmpty_cons, Bool.false_eq_true, if_false]
  congr 1
  apply iterEncoded_eq_fuel
  rw [List.length_drop]; simp only [List.length_cons]; omega

theorem iterEncoded_nil : iterEncoded [] = [] := rfl

end Minimq
