import Minimq.Proofs.Release
import Minimq.Proofs.WireSess
/-
What one primitive step does to the release queue, and what a PUBREC that creates a release entry is.
-/
namespace Minimq
open Gen World Outbound

/-- One release entry without its send state. -/
def PendingRelease.tag (e : PendingRelease) : Nat × Nat × Nat × Nat := (e.rser, e.pser, e.id, e.rc)

theorem activate_false_nextRser (s : Session) (block : Bytes) (now : Nat) :
    (s.activate false block now).1.data.outbound.nextRser = s.data.outbound.nextRser := by
  unfold Session.activate
  simp only [Bool.not_false, if_true]
  split
  · simp only [Session.handleDisconnect]
    exact (RelSame.rearm _).next
  · rfl

/-- **What one step does to the release queue.** The counter does not decrease, and every release entry
after the step is an entry from before (up to its send state) or was created by this step — then the
step handled a PUBREC that met the conditions for creating one, and the entry carries the counter value
as its serial and the serial of the retained packet that PUBREC acknowledges. -/
theorem SessStep.relStep {s s' : Session} (st : SessStep s s') :
    s.data.outbound.nextRser ≤ s'.data.outbound.nextRser ∧
    ∀ e' ∈ s'.data.outbound.release,
      (∃ e ∈ s.data.outbound.release, e.tag = e'.tag) ∨
      (∃ id rs, s' = (s.handle (.pubRec id rs)).1 ∧ s.data.pubrecCreates s.rt id rs = true ∧
         e' = ⟨id, RC_Success, .write 0, s.data.outbound.nextRser, s.data.outbound.ackedSer id .pubRec⟩ ∧
         s'.data.outbound.nextRser = s.data.outbound.nextRser + 1) := by
  rcases st.relFrame with hs | ⟨p, rfl⟩ | ⟨block, now, rfl⟩
  · refine ⟨by rw [hs.next]; exact Nat.le_refl _, fun e' he' => Or.inl ?_⟩
    have : e'.tag ∈ s'.data.outbound.relTags := List.mem_map.mpr ⟨e', he', rfl⟩
    rw [hs.tags] at this
    obtain ⟨e, he, h⟩ := List.mem_map.mp this
    exact ⟨e, he, h⟩
  · have hrel := handlePacket_release s.data s.rt p
    have hnext := handlePacket_nextRser s.data s.rt p
    rw [Session.handle_fst_data]
    have same : (handlePacket s.data s.rt p).1.outbound.release = s.data.outbound.release →
        (handlePacket s.data s.rt p).1.outbound.nextRser = s.data.outbound.nextRser →
        s.data.outbound.nextRser ≤ (handlePacket s.data s.rt p).1.outbound.nextRser ∧
        ∀ e' ∈ (handlePacket s.data s.rt p).1.outbound.release,
          (∃ e ∈ s.data.outbound.release, e.tag = e'.tag) ∨
          (∃ id rs, (s.handle p).1 = (s.handle (.pubRec id rs)).1 ∧ s.data.pubrecCreates s.rt id rs = true ∧
             e' = ⟨id, RC_Success, .write 0, s.data.outbound.nextRser, s.data.outbound.ackedSer id .pubRec⟩ ∧
             (handlePacket s.data s.rt p).1.outbound.nextRser = s.data.outbound.nextRser + 1) := by
      intro h1 h2
      rw [h1, h2]
      exact ⟨Nat.le_refl _, fun e' he' => Or.inl ⟨e', he', rfl⟩⟩
    cases p with
    | pubRec id rs =>
      simp only [] at hrel hnext
      have hc : s.data.pubrecCreates s.rt id rs = (s.data.awaits id .pubRec && reasonSuccess rs.rc && !s.rt.packetTooLarge 5 &&
          decide (s.data.outbound.release.length < MAX_PENDING_RELEASE)) := rfl
      rw [← hc] at hrel
      cases hcr : s.data.pubrecCreates s.rt id rs with
      | false =>
        rw [hcr] at hrel hnext
        simp only [Bool.false_eq_true, if_false] at hrel hnext
        exact same hrel hnext
      | true =>
        rw [hcr] at hrel hnext
        simp only [if_true] at hrel hnext
        refine ⟨by rw [hnext]; exact Nat.le_succ _, fun e' he' => ?_⟩
        rw [hrel] at he'
        rcases List.mem_append.mp he' with hm | hm
        · exact Or.inl ⟨e', hm, rfl⟩
        · simp only [List.mem_singleton] at hm
          exact Or.inr ⟨id, rs, rfl, hcr, hm, hnext⟩
    | pubComp id rs =>
      simp only [] at hrel hnext
      refine ⟨by rw [hnext]; exact Nat.le_refl _, fun e' he' => Or.inl ⟨e', ?_, rfl⟩⟩
      rw [hrel] at he'
      exact (removeFirst_sublist _ _).subset he'
    | connAck sp rc props => exact same hrel hnext
    | pingResp => exact same hrel hnext
    | disconnect rc props => exact same hrel hnext
    | subAck id props codes => exact same hrel hnext
    | unsubAck id props codes => exact same hrel hnext
    | pubAck id rs => exact same hrel hnext
    | pubRel id rs => exact same hrel hnext
    | publish topic id props payload retain qos dup => exact same hrel hnext
  · have hd := activate_false_data s block now
    simp only [] at hd
    refine ⟨by rw [activate_false_nextRser]; exact Nat.le_refl _, fun e' he' => ?_⟩
    rw [hd.2.2.2.1] at he'; simp at he'

/-- The retained entry that `ack_packet` removes is the one whose serial `ackedSer` reports. -/
theorem ackedSer_of_split {o : Outbound} {id : Nat} {k : AckKind} {l₁ l₂ : List RetainedPacket} {e : RetainedPacket}
    (hr : o.retained = l₁ ++ e :: l₂) (h1 : ∀ x ∈ l₁, ackPred o id k x = false) (he : ackPred o id k e = true) :
    o.ackedSer id k = e.ser := by
  unfold Outbound.ackedSer
  have : o.retained.find? (fun e => e.id == id && k.acknowledges (o.headerAt e.offset)) = some e := by
    rw [hr]; exact find?_hit _ l₁ _ l₂ (fun x hx => by have := h1 x hx; simpa [ackPred] using this) (by simpa [ackPred] using he)
  rw [this]; rfl

/-- **A PUBREC that creates a release entry**, spelled out: it carries a success code, the PUBREL fits
the broker's packet size limit, the release queue has room, and a retained entry `e` — the first one
with that identifier whose header is a QoS 2 PUBLISH — is removed in the same step; the new release
entry has the identifier of the PUBREC, reason Success, the next release serial, and records `e.ser`. -/
theorem pubrecCreates_spec {d : SessionData} {r : Runtime} {id : Nat} {rs : ReasonIn} (h : d.pubrecCreates r id rs = true) :
    reasonSuccess rs.rc = true ∧ r.packetTooLarge 5 = false ∧ d.outbound.release.length < MAX_PENDING_RELEASE ∧
    ∃ l₁ e l₂, d.outbound.retained = l₁ ++ e :: l₂ ∧ (∀ x ∈ l₁, ackPred d.outbound id .pubRec x = false) ∧
      e.id = id ∧ AckKind.pubRec.acknowledges (d.outbound.headerAt e.offset) = true ∧
      d.outbound.ackedSer id .pubRec = e.ser ∧
      (handlePacket d r (.pubRec id rs)).1.outbound.keys = (l₁ ++ l₂).map RetainedPacket.key := by
  simp only [SessionData.pubrecCreates, Bool.and_eq_true, Bool.not_eq_true', decide_eq_true_eq] at h
  obtain ⟨⟨⟨h1, h2⟩, h3⟩, h4⟩ := h
  refine ⟨h2, h3, h4, ?_⟩
  obtain ⟨l₁, e, l₂, e1, e2, e3, e4⟩ := removeFirst_split h1
  have e3' := e3
  simp only [ackPred, Bool.and_eq_true, beq_iff_eq] at e3'
  refine ⟨l₁, e, l₂, e1, e2, e3'.1, e3'.2, ackedSer_of_split e1 e2 e3, ?_⟩
  have hk := handlePacket_keys d r (.pubRec id rs)
  simp only [Recv.ackOf] at hk
  rw [hk, e4]


theorem setWritten_relTags (o : Outbound) (pkt : Flushed) (a c : Nat) : (o.setWritten pkt a c).relTags = o.relTags := by
  cases pkt with
  | control x => rfl
  | release id => exact (RelSame.releaseState o _ _).tags
  | retained id => rfl

theorem completeFlush_relTags (o : Outbound) (pkt : Flushed) : (o.completeFlush pkt).relTags = o.relTags := by
  cases pkt with
  | control x => rfl
  | release id => exact (RelSame.releaseState o _ _).tags
  | retained id => rfl

/-- With nothing left for `next_step`, every retained entry is `Sent`. -/
theorem nextStep_none_retained_sent {o : Outbound} (h : o.nextStep = none) : ∀ e ∈ o.retained, e.state = .sent := by
  intro e he
  unfold Outbound.nextStep at h
  have h1 : o.nextStepPrio true = none := by
    cases hp : o.nextStepPrio true with
    | none => rfl
    | some st => rw [hp] at h; cases h
  rw [h1] at h
  simp only [] at h
  have key : ∀ ip, o.nextStepPrio ip = none → e.state.matchesPriority ip = false := by
    intro ip hn
    unfold Outbound.nextStepPrio at hn
    split at hn
    · cases hn
    · split at hn
      · cases hn
      · split at hn
        · cases hn
        · rename_i hf
          have := List.find?_eq_none.mp hf e he
          simpa using this
  have k1 := key true h1
  have k2 := key false h
  cases hst : e.state with
  | sent => rfl
  | flush => rw [hst] at k1; simp [SendState.matchesPriority, SendState.isInProgress] at k1
  | write n =>
    cases n with
    | zero => rw [hst] at k2; simp [SendState.matchesPriority, SendState.isFresh] at k2
    | succ m => rw [hst] at k1; simp [SendState.matchesPriority, SendState.isInProgress] at k1

end Minimq
