import Minimq.Proofs.WireTop
/-
What the inbound log records for a packet: the acknowledgement MQTT asks for, unless the broker's
Maximum Packet Size is below five bytes or the control queue is full (then nothing is queued and the
operation fails; for a QoS 2 PUBLISH the session data is then unchanged, so the broker's retransmission
is handled as a first arrival: `C04_unacknowledged_qos2_not_recorded`).
-/
namespace Minimq
open Gen World Outbound

/-- The acknowledgement owed for an inbound packet, given the inbound QoS 2 identifiers currently held:
PUBACK for a QoS 1 PUBLISH (reason "identifier in use" if a QoS 2 exchange holds the identifier), PUBREC
for a QoS 2 PUBLISH (reason "receive maximum exceeded" if the identifier is new and the list is full),
PUBCOMP for a PUBREL (reason "identifier not found" if the identifier is not held). Nothing for QoS 0,
for a missing or zero identifier (protocol error), and for every other packet. -/
def ackOwed (ids : List Nat) : Recv → Option ControlAction
  | .publish _ (some id) _ _ _ qos _ =>
    if id = 0 ∨ qos = 0 then none
    else if qos = 1 then some { typ := MT_PubAck, id := id, rc := qos1Rc ids id }
    else some { typ := MT_PubRec, id := id, rc := (qos2Ids ids id).2 }
  | .pubRel id _ =>
    if id = 0 then none
    else some { typ := MT_PubComp, id := id, rc := if ids.contains id then RC_Success else RC_PacketIdNotFound }
  | _ => none

/-- What handling `p` appends to the control queue. -/
def ackRecorded (d : SessionData) (r : Runtime) (p : Recv) : List ControlAction :=
  match ackOwed d.pendingServerIds p with
  | none => []
  | some a => if r.packetTooLarge 5 = false ∧ d.outbound.control.length < MAX_PENDING_CONTROL then [a] else []

theorem ackOutcome_control (d : SessionData) (r : Runtime) (a : ControlAction) (dl : Bool) :
    (ackOutcome d r a dl).1.outbound.control = d.outbound.control ++
      (if r.packetTooLarge 5 = false ∧ d.outbound.control.length < MAX_PENDING_CONTROL then [⟨a, .write 0⟩] else []) := by
  unfold ackOutcome
  by_cases h1 : r.packetTooLarge 5 = true
  · simp [h1]
  · by_cases h2 : d.outbound.control.length < MAX_PENDING_CONTROL
    · simp [h1, h2, SessionData.withControl]
    · simp [h1, h2]

theorem ackOutcome2_control (d : SessionData) (r : Runtime) (a : ControlAction) (dl : Bool) (ids : List Nat) :
    (ackOutcome2 d r a dl ids).1.outbound.control = d.outbound.control ++
      (if r.packetTooLarge 5 = false ∧ d.outbound.control.length < MAX_PENDING_CONTROL then [⟨a, .write 0⟩] else []) := by
  unfold ackOutcome2
  by_cases h1 : r.packetTooLarge 5 = true
  · simp [h1]
  · by_cases h2 : d.outbound.control.length < MAX_PENDING_CONTROL
    · simp [h1, h2, SessionData.withControl]
    · simp [h1, h2]

theorem handlePacket_control_exact (d : SessionData) (r : Runtime) (p : Recv) :
    (handlePacket d r p).1.outbound.control =
      d.outbound.control ++ (ackRecorded d r p).map (fun a => ⟨a, .write 0⟩) := by
  have hnone : ∀ q : Recv, ackOwed d.pendingServerIds q = none →
      (handlePacket d r q).1.outbound.control = d.outbound.control →
      (handlePacket d r q).1.outbound.control = d.outbound.control ++ (ackRecorded d r q).map (fun a => ⟨a, .write 0⟩) := by
    intro q h1 h2
    simp only [ackRecorded, h1, List.map_nil, List.append_nil]; exact h2
  cases p with
  | connAck sp rc props => exact hnone _ rfl rfl
  | pingResp => exact hnone _ rfl rfl
  | disconnect rc props => exact hnone _ rfl rfl
  | subAck id props codes =>
    refine hnone _ rfl ?_
    simp only [handlePacket]
    split
    · rfl
    · split <;> exact (ackPacket_frame d.outbound id .subAck).2.2.1
  | unsubAck id props codes =>
    refine hnone _ rfl ?_
    simp only [handlePacket]
    split
    · rfl
    · split <;> exact (ackPacket_frame d.outbound id .unsubAck).2.2.1
  | pubAck id rs =>
    refine hnone _ rfl ?_
    simp only [handlePacket]
    split
    · rfl
    · split <;> exact (ackPacket_frame d.outbound id .pubAck).2.2.1
  | pubComp id rs =>
    refine hnone _ rfl ?_
    simp only [handlePacket]
    split
    · rfl
    · unfold Outbound.ackRelease
      split <;> split <;> rfl
  | pubRec id rs =>
    refine hnone _ rfl ?_
    simp only [handlePacket]
    have hack := (ackPacket_frame d.outbound id .pubRec).2.2.1
    split
    · split
      · exact hack
      · split
        · exact hack
        · split
          · exact hack
          · rename_i o' hq
            unfold Outbound.queueRelease at hq
            split at hq
            · simp at hq
            · simp only [Option.some.injEq] at hq; subst hq; exact hack
    · split
      · split <;> rfl
      · rfl
  | pubRel id rs =>
    by_cases hid : id = 0
    · subst hid
      refine hnone _ (by simp [ackOwed]) ?_
      rw [handlePacket_pubRel0]
    · rw [handlePacket_pubRel d r id rs hid]
      by_cases hc : d.pendingServerIds.contains id = true
      · simp only [hc, if_true]
        rw [ackOutcome_control]
        simp only [ackRecorded, ackOwed, hid, if_false, hc, if_true]
        split <;> rfl
      · simp only [hc, Bool.false_eq_true, if_false]
        rw [ackOutcome_control]
        simp only [ackRecorded, ackOwed, hid, if_false, hc, Bool.false_eq_true]
        split <;> rfl
  | publish topic id props payload retain qos dup =>
    by_cases hq0 : qos = 0
    · subst hq0
      refine hnone _ ?_ (by rw [handlePacket_publish0])
      cases id <;> simp [ackOwed]
    · cases id with
      | none =>
        refine hnone _ rfl ?_
        rw [(handlePacket_publish_noid d r topic props payload retain dup qos hq0).1]
      | some id =>
        by_cases hid : id = 0
        · subst hid
          refine hnone _ (by simp [ackOwed]) ?_
          rw [(handlePacket_publish_noid d r topic props payload retain dup qos hq0).2]
        · by_cases hq1 : qos = 1
          · subst hq1
            rw [handlePacket_publish1 d r topic id props payload retain dup hid, ackOutcome_control]
            simp only [ackRecorded, ackOwed, hid, false_or, show ((1 : Nat) = 0) = False by simp, if_false, if_true]
            split <;> rfl
          · rw [handlePacket_publish2 d r topic id props payload retain dup qos hid hq0 hq1, ackOutcome2_control]
            simp only [ackRecorded, ackOwed, hid, hq0, hq1, false_or, if_false]
            split <;> rfl

/-- **What the inbound log records.** Handling `p` appends the record `(p, acks)` where `acks` is the
acknowledgement owed for `p` — if the broker's Maximum Packet Size admits the five bytes and the control
queue has room — and nothing otherwise. -/
theorem handle_record (s : Session) (p : Recv) :
    (s.handle p).1.inlog = s.inlog ++ [⟨some p, ackRecorded s.data s.rt p⟩] := by
  rw [Session.handle_inlog, Session.handle_fst_data, handlePacket_control_exact]
  simp [List.map_map, Function.comp_def]


/-! ### Who writes the inbound log -/

theorem setWritten_inlog (s : Session) (pkt : Flushed) (a c : Nat) : (s.setWritten pkt a c).inlog = s.inlog := by
  unfold Session.setWritten; cases pkt <;> rfl

theorem completeFlush_inlog (s : Session) (pkt : Flushed) (now : Nat) : (s.completeFlush pkt now).inlog = s.inlog := by
  unfold Session.completeFlush; cases pkt <;> rfl

/-- Of all the primitives only `handle` (one record appended) and `activate` on an acceptable CONNACK
(the log restarts with the record of what is still queued) write the inbound log. -/
theorem Prim.inlog_changes {s s' : Session} (h : Prim s s') :
    s'.inlog = s.inlog ∨
    (∃ p, s' = (s.handle p).1 ∧ s'.inlog = s.inlog ++ [⟨some p, ackRecorded s.data s.rt p⟩]) ∨
    (∃ sp block now, s' = (s.activate sp block now).1 ∧ (s.activate sp block now).2 = .ok () ∧
      s'.inlog = [⟨none, s'.data.outbound.control.map PendingControl.action⟩] ∧
      (sp = false → s'.data.outbound.control = []) ∧
      (sp = true → s'.data.outbound.control = s.data.outbound.control)) := by
  cases h with
  | queuePing _ now _ hq =>
    left
    rcases Session.queuePing_ok hq with rfl | ⟨o, _, rfl⟩ <;> rfl
  | completeFlush _ pkt now => exact Or.inl (completeFlush_inlog _ _ _)
  | setWritten _ pkt a c => exact Or.inl (setWritten_inlog _ _ _ _)
  | takePkt => exact Or.inl (takePkt_inlog _)
  | handle _ p => exact Or.inr (Or.inl ⟨p, rfl, handle_record s p⟩)
  | handleDisconnect => exact Or.inl rfl
  | activate _ sp block now =>
    by_cases hb : connackBlockOk block
    · right; right
      refine ⟨sp, block, now, rfl, (activate_ok_iff s sp block now).2 hb, ?_, ?_, ?_⟩
      · rw [(activate_eq s sp block now).1 hb]; rfl
      · intro hsp; subst hsp
        rw [(activate_eq s false block now).1 hb]; rfl
      · intro hsp; subst hsp
        rw [(activate_eq s true block now).1 hb]; rfl
    · left
      rw [(activate_eq s sp block now).2 hb]
      cases sp <;> rfl
  | alloc => exact Or.inl (alloc_ctl _).2
  | encodeConnect _ c => exact Or.inl (encode_ctl _ _).2
  | encodeAfterAlloc _ enc he => exact Or.inl ((encode_ctl _ _).2.trans (alloc_ctl _).2)
  | encodeScratch _ enc he => exact Or.inl (encode_ctl _ _).2
  | enqueue _ enc off len isPub _ typ he ht hp hq hres hr =>
    exact Or.inl ((retain_ctl hr).2.trans ((encode_ctl _ _).2.trans (alloc_ctl _).2))
  | clearPing => exact Or.inl rfl
  | noteActivity _ now => exact Or.inl rfl
  | window _ _ n hw => exact Or.inl (window_inlog hw)
  | commit _ bytes => exact Or.inl rfl
  | beginConnect => exact Or.inl rfl
  | setPid _ n h1 h2 => exact Or.inl rfl

/-- The shape of the inbound log: only the first record can be the one written by a CONNACK, and every
other record carries, for its packet, the acknowledgement that was owed when it was handled. -/
structure InlogOK (s : Session) : Prop where
  recs : ∀ rec ∈ s.inlog, ∀ p, rec.pkt = some p → ∃ (d : SessionData) (r : Runtime), rec.acks = ackRecorded d r p
  carry : ∀ rec ∈ s.inlog.drop 1, rec.pkt ≠ none

theorem closed_InlogOK : Closed InlogOK :=
  (closed_iff_prim InlogOK).2 (fun s s' hp h => by
    rcases hp.inlog_changes with he | ⟨p, _, he⟩ | ⟨sp, block, now, _, _, he, _⟩
    · exact ⟨by rw [he]; exact h.recs, by rw [he]; exact h.carry⟩
    · refine ⟨?_, ?_⟩
      · intro rec hrec q hq
        rw [he] at hrec
        rcases List.mem_append.mp hrec with hm | hm
        · exact h.recs rec hm q hq
        · simp only [List.mem_singleton] at hm; subst hm
          simp only [Option.some.injEq] at hq; subst hq
          exact ⟨s.data, s.rt, rfl⟩
      · intro rec hrec
        rw [he] at hrec
        cases hl : s.inlog with
        | nil => rw [hl] at hrec; simp at hrec
        | cons x xs =>
          rw [hl] at hrec
          simp only [List.cons_append, List.drop_succ_cons, List.drop_zero] at hrec
          rcases List.mem_append.mp hrec with hm | hm
          · exact h.carry rec (by rw [hl]; simpa using hm)
          · simp only [List.mem_singleton] at hm; subst hm; simp
    · refine ⟨?_, ?_⟩
      · intro rec hrec q hq
        rw [he] at hrec
        simp only [List.mem_singleton] at hrec; subst hrec
        cases hq
      · rw [he]; intro rec hrec; simp at hrec)

theorem InlogOK_new (cfg : Cfg) : InlogOK (Session.new cfg) :=
  ⟨by intro rec h; simp [Session.new] at h, by intro rec h; simp [Session.new] at h⟩

end Minimq
