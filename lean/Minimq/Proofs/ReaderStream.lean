import Minimq.Reader
import Minimq.Out
import Minimq.Proofs.Varint
/-
C15, reader side: the packets the receive path hands to the decoder do not depend on how the
transport cuts the inbound byte stream into `read()` results.

* `frames cap stream` — a schedule-free specification: cut the stream into MQTT packets by their
  fixed header, and say where a reader with a `cap`-byte buffer has to give up.
* `readLoop sched r stream` — the loop the machine runs (`doWaitRead` / `doConnRead` in `Ops.lean`
  through `Session.window` / `commit` / `takePkt`), with the transport's choices given by `sched`.
* `readLoop_eq_frames` — the loop computes `frames`, whatever the schedule.
* `RdReach` — the same loop as a relation (every choice of every read); safety facts for all reachable
  reader states.
* `stepWrites` / `localWrites` — the two write loops over a list of partial acceptances.
-/
namespace Minimq

/-! ## Specification: framing a byte stream -/

/-- Result of looking for the remaining-length field in the first `n` bytes of a string. -/
inductive LenField where
  /-- terminated after `nbytes` bytes, value `value` -/
  | complete (nbytes value : Nat)
  /-- the string ended before a terminator and before `n` bytes -/
  | incomplete
  /-- `n` bytes with the continuation bit and no terminator -/
  | tooLong
  deriving DecidableEq, Repr

/-- The MQTT variable byte integer in at most `n` bytes, least significant group first
(MQTT 5 §1.5.5), *without* the canonicity requirement: the packet reader does not check it. -/
def lenField : Nat → Bytes → LenField
  | 0, _ => .tooLong
  | _ + 1, [] => .incomplete
  | n + 1, x :: rest =>
    if x.toNat < 128 then .complete 1 x.toNat else
    match lenField n rest with
    | .complete k v => .complete (k + 1) (x.toNat % 128 + 128 * v)
    | .incomplete => .incomplete
    | .tooLong => .tooLong

inductive Header where
  /-- fixed header of `headerLen` bytes announcing a packet of `total` bytes (header included) -/
  | complete (headerLen total : Nat)
  | incomplete
  | tooLong
  deriving DecidableEq, Repr

/-- The fixed header at the front of a stream: one type/flags byte, then the remaining length in
at most four bytes. -/
def fixedHeader : Bytes → Header
  | [] => .incomplete
  | _ :: rest =>
    match lenField 4 rest with
    | .complete k v => .complete (1 + k) (1 + k + v)
    | .incomplete => .incomplete
    | .tooLong => .tooLong

/-- How reading ends. `held` is what lies in the receive buffer at that moment. -/
inductive ReadEnd where
  /-- the stream is exhausted; `held` is the incomplete packet assembled so far -/
  | exhausted (held : Bytes)
  /-- `receive_buffer` returned `MalformedPacket` while holding `held` -/
  | malformed (held : Bytes)
  deriving DecidableEq, Repr

structure Framing where
  packets : List Bytes
  ending : ReadEnd
  deriving DecidableEq, Repr

def Framing.cons (pkt : Bytes) (f : Framing) : Framing := { f with packets := pkt :: f.packets }

inductive Frame1 where
  | packet (pkt rest : Bytes)
  | stop (e : ReadEnd)
  deriving DecidableEq, Repr

/-- The first packet of a stream for a reader with a `cap`-byte buffer.
* Header not complete yet: the reader takes one byte at a time, so it can hold `cap` bytes at most
  and fails when it would need one more; otherwise it waits with the whole rest in the buffer.
* Five bytes without a length terminator: malformed once the fifth byte is in (or when the buffer
  is full before that).
* Header complete: malformed as soon as the length is known if the packet does not fit (or when
  the buffer is full before the header is complete); otherwise the packet is the next `total`
  bytes, if the stream has them. -/
def frame1 (cap : Nat) (s : Bytes) : Frame1 :=
  match fixedHeader s with
  | .incomplete => .stop (if s.length < cap then .exhausted s else .malformed (s.take cap))
  | .tooLong => .stop (.malformed (s.take (min 5 cap)))
  | .complete hl total =>
    if cap < total then .stop (.malformed (s.take (min hl cap)))
    else if s.length < total then .stop (.exhausted s)
    else .packet (s.take total) (s.drop total)

/-- `frames` on fuel (one unit per packet). The `packet` case at fuel 0 is never reached from `frames`: see
`frames_eq`, the fuel-free recursive equation. -/
def framesAux (cap : Nat) : Nat → Bytes → Framing
  | 0, s =>
    match frame1 cap s with
    | .stop e => ⟨[], e⟩
    | .packet _ _ => ⟨[], .exhausted s⟩
  | fuel + 1, s =>
    match frame1 cap s with
    | .stop e => ⟨[], e⟩
    | .packet pkt rest => (framesAux cap fuel rest).cons pkt

/-- The stream cut into packets, and how reading ends. -/
def frames (cap : Nat) (s : Bytes) : Framing := framesAux cap s.length s

/-! ### Facts about the header scanner -/

theorem lenField_append_complete : ∀ (n : Nat) (p q : Bytes) (k v : Nat),
    lenField n p = .complete k v → lenField n (p ++ q) = .complete k v := by
  intro n
  induction n with
  | zero => intro p q k v h; simp [lenField] at h
  | succ n ih =>
    intro p q k v h
    cases p with
    | nil => simp [lenField] at h
    | cons x rest =>
      simp only [lenField, List.cons_append] at h ⊢
      by_cases hx : x.toNat < 128
      · rw [if_pos hx] at h ⊢; exact h
      · rw [if_neg hx] at h ⊢
        cases hl : lenField n rest with
        | complete k' v' => rw [hl] at h; rw [ih _ q _ _ hl]; exact h
        | incomplete => rw [hl] at h; simp at h
        | tooLong => rw [hl] at h; simp at h

theorem lenField_append_tooLong : ∀ (n : Nat) (p q : Bytes),
    lenField n p = .tooLong → lenField n (p ++ q) = .tooLong := by
  intro n
  induction n with
  | zero => intro p q _; simp [lenField]
  | succ n ih =>
    intro p q h
    cases p with
    | nil => simp [lenField] at h
    | cons x rest =>
      simp only [lenField, List.cons_append] at h ⊢
      by_cases hx : x.toNat < 128
      · rw [if_pos hx] at h; simp at h
      · rw [if_neg hx] at h ⊢
        cases hl : lenField n rest with
        | complete k' v' => rw [hl] at h; simp at h
        | incomplete => rw [hl] at h; simp at h
        | tooLong => rw [ih _ q hl]

theorem lenField_incomplete_length : ∀ (n : Nat) (p : Bytes),
    lenField n p = .incomplete → p.length < n := by
  intro n
  induction n with
  | zero => intro p h; simp [lenField] at h
  | succ n ih =>
    intro p h
    cases p with
    | nil => simp
    | cons x rest =>
      simp only [lenField] at h
      by_cases hx : x.toNat < 128
      · rw [if_pos hx] at h; simp at h
      · rw [if_neg hx] at h
        cases hl : lenField n rest with
        | complete k' v' => rw [hl] at h; simp at h
        | incomplete => have := ih _ hl; simp; omega
        | tooLong => rw [hl] at h; simp at h

theorem lenField_tooLong_length : ∀ (n : Nat) (p : Bytes),
    lenField n p = .tooLong → n ≤ p.length := by
  intro n
  induction n with
  | zero => intro p _; simp
  | succ n ih =>
    intro p h
    cases p with
    | nil => simp [lenField] at h
    | cons x rest =>
      simp only [lenField] at h
      by_cases hx : x.toNat < 128
      · rw [if_pos hx] at h; simp at h
      · rw [if_neg hx] at h
        cases hl : lenField n rest with
        | complete k' v' => rw [hl] at h; simp at h
        | incomplete => rw [hl] at h; simp at h
        | tooLong => have := ih _ hl; simp; omega

theorem lenField_complete_bounds : ∀ (n : Nat) (p : Bytes) (k v : Nat),
    lenField n p = .complete k v → 1 ≤ k ∧ k ≤ n ∧ k ≤ p.length := by
  intro n
  induction n with
  | zero => intro p k v h; simp [lenField] at h
  | succ n ih =>
    intro p k v h
    cases p with
    | nil => simp [lenField] at h
    | cons x rest =>
      simp only [lenField] at h
      by_cases hx : x.toNat < 128
      · rw [if_pos hx] at h
        simp only [LenField.complete.injEq] at h
        simp; omega
      · rw [if_neg hx] at h
        cases hl : lenField n rest with
        | complete k' v' =>
          rw [hl] at h
          simp only [LenField.complete.injEq] at h
          have := ih _ _ _ hl
          simp; omega
        | incomplete => rw [hl] at h; simp at h
        | tooLong => rw [hl] at h; simp at h

/-- A terminator found after appending lies in the appended part. -/
theorem lenField_incomplete_append : ∀ (n : Nat) (p q : Bytes) (k v : Nat),
    lenField n p = .incomplete → lenField n (p ++ q) = .complete k v → p.length < k := by
  intro n
  induction n with
  | zero => intro p q k v h; simp [lenField] at h
  | succ n ih =>
    intro p q k v h h2
    cases p with
    | nil =>
      have := lenField_complete_bounds _ _ _ _ h2
      simp; omega
    | cons x rest =>
      simp only [lenField, List.cons_append] at h h2
      by_cases hx : x.toNat < 128
      · rw [if_pos hx] at h; simp at h
      · rw [if_neg hx] at h h2
        cases hl : lenField n rest with
        | complete k' v' => rw [hl] at h; simp at h
        | tooLong => rw [hl] at h; simp at h
        | incomplete =>
          cases hl2 : lenField n (rest ++ q) with
          | complete k' v' =>
            rw [hl2] at h2
            simp only [LenField.complete.injEq] at h2
            have := ih _ _ _ _ hl hl2
            simp; omega
          | incomplete => rw [hl2] at h2; simp at h2
          | tooLong => rw [hl2] at h2; simp at h2

theorem fixedHeader_append_complete {p : Bytes} (q : Bytes) {hl t : Nat}
    (h : fixedHeader p = .complete hl t) : fixedHeader (p ++ q) = .complete hl t := by
  cases p with
  | nil => simp [fixedHeader] at h
  | cons x rest =>
    simp only [fixedHeader, List.cons_append] at h ⊢
    cases hlf : lenField 4 rest with
    | complete k v => rw [hlf] at h; rw [lenField_append_complete _ _ q _ _ hlf]; exact h
    | incomplete => rw [hlf] at h; simp at h
    | tooLong => rw [hlf] at h; simp at h

theorem fixedHeader_append_tooLong {p : Bytes} (q : Bytes)
    (h : fixedHeader p = .tooLong) : fixedHeader (p ++ q) = .tooLong := by
  cases p with
  | nil => simp [fixedHeader] at h
  | cons x rest =>
    simp only [fixedHeader, List.cons_append] at h ⊢
    cases hlf : lenField 4 rest with
    | complete k v => rw [hlf] at h; simp at h
    | incomplete => rw [hlf] at h; simp at h
    | tooLong => rw [lenField_append_tooLong _ _ q hlf]

theorem fixedHeader_incomplete_length {p : Bytes} (h : fixedHeader p = .incomplete) :
    p.length ≤ 4 := by
  cases p with
  | nil => simp
  | cons x rest =>
    simp only [fixedHeader] at h
    cases hlf : lenField 4 rest with
    | complete k v => rw [hlf] at h; simp at h
    | incomplete => have := lenField_incomplete_length _ _ hlf; simp; omega
    | tooLong => rw [hlf] at h; simp at h

theorem fixedHeader_tooLong_length {p : Bytes} (h : fixedHeader p = .tooLong) : 5 ≤ p.length := by
  cases p with
  | nil => simp [fixedHeader] at h
  | cons x rest =>
    simp only [fixedHeader] at h
    cases hlf : lenField 4 rest with
    | complete k v => rw [hlf] at h; simp at h
    | incomplete => rw [hlf] at h; simp at h
    | tooLong => have := lenField_tooLong_length _ _ hlf; simp; omega

/-- A fixed header is 2 to 5 bytes, lies inside the string, and counts itself in the total. -/
theorem fixedHeader_complete_bounds {p : Bytes} {hl t : Nat} (h : fixedHeader p = .complete hl t) :
    2 ≤ hl ∧ hl ≤ 5 ∧ hl ≤ t ∧ hl ≤ p.length := by
  cases p with
  | nil => simp [fixedHeader] at h
  | cons x rest =>
    simp only [fixedHeader] at h
    cases hlf : lenField 4 rest with
    | complete k v =>
      rw [hlf] at h
      simp only [Header.complete.injEq] at h
      have := lenField_complete_bounds _ _ _ _ hlf
      simp; omega
    | incomplete => rw [hlf] at h; simp at h
    | tooLong => rw [hlf] at h; simp at h

theorem fixedHeader_incomplete_append {p : Bytes} (q : Bytes) {hl t : Nat}
    (h : fixedHeader p = .incomplete) (h2 : fixedHeader (p ++ q) = .complete hl t) :
    p.length < hl := by
  cases p with
  | nil => have := fixedHeader_complete_bounds h2; simp; omega
  | cons x rest =>
    simp only [fixedHeader, List.cons_append] at h h2
    cases hlf : lenField 4 rest with
    | complete k v => rw [hlf] at h; simp at h
    | tooLong => rw [hlf] at h; simp at h
    | incomplete =>
      cases hlf2 : lenField 4 (rest ++ q) with
      | complete k v =>
        rw [hlf2] at h2
        simp only [Header.complete.injEq] at h2
        have := lenField_incomplete_append _ _ _ _ _ hlf hlf2
        simp; omega
      | incomplete => rw [hlf2] at h2; simp at h2
      | tooLong => rw [hlf2] at h2; simp at h2

theorem fixedHeader_short {p : Bytes} (h : p.length ≤ 1) : fixedHeader p = .incomplete := by
  match p, h with
  | [], _ => rfl
  | [_], _ => rfl


/-! ### The fuel in `frames` is enough -/

theorem frame1_packet {cap : Nat} {s pkt rest : Bytes} (h : frame1 cap s = .packet pkt rest) :
    ∃ hl t, fixedHeader s = .complete hl t ∧ t ≤ cap ∧ t ≤ s.length ∧ pkt = s.take t ∧
      rest = s.drop t := by
  unfold frame1 at h
  split at h
  · simp at h
  · simp at h
  · rename_i hl t hfh
    split at h
    · simp at h
    · split at h
      · simp at h
      · simp only [Frame1.packet.injEq] at h
        exact ⟨hl, t, hfh, by omega, by omega, h.1.symm, h.2.symm⟩

theorem frame1_packet_shorter {cap : Nat} {s pkt rest : Bytes} (h : frame1 cap s = .packet pkt rest) :
    rest.length + 2 ≤ s.length := by
  obtain ⟨hl, t, hfh, _, hts, _, hr⟩ := frame1_packet h
  have := fixedHeader_complete_bounds hfh
  subst hr
  simp; omega

theorem framesAux_fuel (cap : Nat) : ∀ (f1 f2 : Nat) (s : Bytes), s.length ≤ f1 → s.length ≤ f2 →
    framesAux cap f1 s = framesAux cap f2 s := by
  intro f1
  induction f1 with
  | zero =>
    intro f2 s h1 _
    have : s = [] := List.eq_nil_of_length_eq_zero (by omega)
    subst this
    cases f2 <;> simp [framesAux, frame1, fixedHeader]
  | succ f1 ih =>
    intro f2 s h1 h2
    cases f2 with
    | zero =>
      have : s = [] := List.eq_nil_of_length_eq_zero (by omega)
      subst this
      simp [framesAux, frame1, fixedHeader]
    | succ f2 =>
      simp only [framesAux]
      cases hf : frame1 cap s with
      | stop e => rfl
      | packet pkt rest =>
        have := frame1_packet_shorter hf
        simp only []
        rw [ih f2 rest (by omega) (by omega)]

/-- The recursive equation that defines `frames`, without fuel. -/
theorem frames_eq (cap : Nat) (s : Bytes) :
    frames cap s = match frame1 cap s with
      | .stop e => ⟨[], e⟩
      | .packet pkt rest => (frames cap rest).cons pkt := by
  unfold frames
  cases hlen : s.length with
  | zero =>
    have : s = [] := List.eq_nil_of_length_eq_zero hlen
    subst this
    simp [framesAux, frame1, fixedHeader]
  | succ n =>
    simp only [framesAux]
    cases hf : frame1 cap s with
    | stop e => rfl
    | packet pkt rest =>
      have := frame1_packet_shorter hf
      simp only []
      rw [framesAux_fuel cap n rest.length rest (by omega) (Nat.le_refl _)]

/-! ### `probe_fixed_header` against the specification -/

theorem probeLen_eq_lenField : ∀ (bs : Bytes) (i acc : Nat), i ≤ 4 →
    probeLen bs i acc = match lenField (4 - i) bs with
      | .complete k v => some (1 + (i + k) + (acc + v * 128 ^ i))
      | _ => none := by
  intro bs
  induction bs with
  | nil =>
    intro i acc _
    cases h : 4 - i <;> simp [probeLen, lenField]
  | cons x rest ih =>
    intro i acc hi
    unfold probeLen
    by_cases h4 : i ≥ 4
    · have h0 : 4 - i = 0 := by omega
      rw [if_pos h4, h0]; simp [lenField]
    · rw [if_neg h4]
      have hn : 4 - i = (3 - i) + 1 := by omega
      have hn' : 4 - (i + 1) = 3 - i := by omega
      rw [hn]
      simp only [lenField]
      by_cases hx : x.toNat < 128
      · rw [if_pos hx, if_pos hx]
        have : x.toNat % 128 = x.toNat := Nat.mod_eq_of_lt hx
        simp only [this]
        congr 1; omega
      · rw [if_neg hx, if_neg hx, ih (i + 1) _ (by omega), hn']
        cases lenField (3 - i) rest with
        | incomplete => rfl
        | tooLong => rfl
        | complete k v =>
          simp only [Option.some.injEq]
          have : (x.toNat % 128 + 128 * v) * 128 ^ i
              = x.toNat % 128 * 128 ^ i + v * 128 ^ (i + 1) := by
            rw [Nat.add_mul, Nat.pow_succ, Nat.mul_comm 128 v, Nat.mul_assoc, Nat.mul_comm 128]
          rw [this]; omega

/-- What `probe_fixed_header` does, in terms of the fixed header of the bytes held. -/
theorem probe_spec (r : Reader) (hpl : r.packetLength = none) :
    r.probe = match fixedHeader r.data with
      | .complete _ t => some { r with packetLength := some t }
      | .incomplete => some r
      | .tooLong => none := by
  obtain ⟨cap, data, pl, last⟩ := r
  simp only at hpl
  subst hpl
  unfold Reader.probe Reader.readBytes
  simp only []
  by_cases h1 : data.length ≤ 1
  · rw [if_pos h1, fixedHeader_short h1]
  · rw [if_neg h1]
    match data, h1 with
    | x :: rest, _ =>
      simp only [List.drop_succ_cons, List.drop_zero, fixedHeader]
      rw [probeLen_eq_lenField rest 0 0 (by omega)]
      simp only [Nat.sub_zero]
      cases hlf : lenField 4 rest with
      | complete k v =>
        simp only [Option.isNone_some, Bool.and_false, Bool.false_eq_true, if_false]
        simp
      | incomplete =>
        have := lenField_incomplete_length _ _ hlf
        simp; omega
      | tooLong =>
        have := lenField_tooLong_length _ _ hlf
        simp; omega

/-! ## The read loop of the machine -/

/-- One packet handed off by `take_packet`: the raw bytes left at the front of the buffer (`last`)
and the decode result (`None` = `from_buffer` failed; the machine then drops the connection). -/
structure ReadEvent where
  raw : Bytes
  decoded : Option (Nat × Recv)
  deriving Repr, DecidableEq

/-- What the reader must hand off for the packet `pkt`. -/
def eventOf (pkt : Bytes) : ReadEvent :=
  { raw := pkt, decoded := (fromBuffer pkt).map fun p => (pkt.length, p) }

/-- The transport delivers `k` bytes with `1 ≤ k ≤ min window remaining`; `want` is its wish. -/
def clampRead (want window remaining : Nat) : Nat := max 1 (min want (min window remaining))

/-- The loop of `doWaitRead` / `doConnRead` (`read_packet` / `fill_packet_reader`), reduced to the
reader: if a packet is available it is taken (`take_packet`) and reading goes on; otherwise
`receive_buffer` either fails (`MalformedPacket`: the loop ends with what is held) or offers a
window; an empty window sends the machine back to the `packet_available` test; otherwise the
transport delivers between 1 and `min window remaining` bytes — the head of `sched` says how many
(an exhausted schedule delivers as much as fits) — which are committed. With the stream exhausted
the read stays pending for ever: the loop ends with the partial packet held.
`none` = out of fuel (never happens with the fuel `readLoop` supplies: `readLoop_eq_frames`). -/
def readLoopFuel : Nat → List Nat → Reader → Bytes → Option (List ReadEvent × ReadEnd)
  | 0, _, _, _ => none
  | fuel + 1, sched, r, unread =>
    if r.packetAvailable then
      (readLoopFuel fuel sched r.takePacket.1 unread).map fun res =>
        ({ raw := r.takePacket.1.last, decoded := r.takePacket.2 } :: res.1, res.2)
    else
      match r.receiveWindow with
      | none => some ([], .malformed r.data)
      | some (r1, n) =>
        if n = 0 then readLoopFuel fuel sched r1 unread
        else if unread.isEmpty then some ([], .exhausted r1.data)
        else
          let k := clampRead (sched.headD n) n unread.length
          readLoopFuel fuel sched.tail (r1.commit (unread.take k)) (unread.drop k)

def readLoop (sched : List Nat) (r : Reader) (stream : Bytes) : Option (List ReadEvent × ReadEnd) :=
  readLoopFuel (3 * stream.length + 1) sched r stream

/-! ### Invariant of the reader along a stream

`s` is the stream from the start of the packet being assembled: the bytes held followed by the
bytes not read yet. -/

/-- At the loop head. -/
structure RInv (r : Reader) (s : Bytes) : Prop where
  fits : r.data.length ≤ r.cap
  known : ∀ l, r.packetLength = some l →
    (∃ hl, fixedHeader s = .complete hl l) ∧ l ≤ r.cap ∧ r.data.length ≤ l
  unknown : r.packetLength = none →
    r.data = [] ∨ ∃ d y, r.data = d ++ [y] ∧ fixedHeader d = .incomplete

/-- After `receive_buffer` offered a window of `n` bytes. -/
structure RdWInv (r1 : Reader) (s : Bytes) (n : Nat) : Prop where
  fits : r1.data.length ≤ r1.cap
  known : ∀ l, r1.packetLength = some l →
    (∃ hl, fixedHeader s = .complete hl l) ∧ l ≤ r1.cap ∧ r1.data.length ≤ l ∧
      n = l - r1.data.length
  unknown : r1.packetLength = none →
    fixedHeader r1.data = .incomplete ∧ r1.data.length + 1 ≤ r1.cap ∧ n = 1

theorem RInv_fresh (r : Reader) (s : Bytes) (hd : r.data = []) (hp : r.packetLength = none) :
    RInv r s :=
  ⟨by simp [hd], by simp [hp], fun _ => Or.inl hd⟩

/-- While the length is unknown the header of the held bytes, if complete, ends at the last byte
held; five held bytes at most. -/
theorem RInv.header_at_end {r : Reader} {s : Bytes} (h : RInv r s) (hp : r.packetLength = none) :
    (∀ hl t, fixedHeader r.data = .complete hl t → hl = r.data.length) ∧
    (fixedHeader r.data = .tooLong → r.data.length = 5) := by
  rcases h.unknown hp with hd | ⟨d, y, hd, hinc⟩
  · rw [hd]; simp [fixedHeader]
  · rw [hd]
    have h4 := fixedHeader_incomplete_length hinc
    constructor
    · intro hl t hc
      have := fixedHeader_incomplete_append [y] hinc hc
      have := fixedHeader_complete_bounds hc
      simp at *; omega
    · intro ht
      have := fixedHeader_tooLong_length ht
      simp at *; omega

/-- `receive_buffer` in terms of the specification, length already known. -/
theorem receiveWindow_known (r : Reader) (l : Nat) (hp : r.packetLength = some l) :
    r.receiveWindow = if l ≤ r.cap then some (r, l - r.data.length) else none := by
  unfold Reader.receiveWindow
  simp [hp, Reader.readBytes]

/-- `receive_buffer` in terms of the specification, length not known yet. -/
theorem receiveWindow_unknown (r : Reader) (hp : r.packetLength = none) :
    r.receiveWindow = match fixedHeader r.data with
      | .complete _ t =>
        if t ≤ r.cap then some ({ r with packetLength := some t }, t - r.data.length) else none
      | .incomplete => if r.data.length + 1 ≤ r.cap then some (r, 1) else none
      | .tooLong => none := by
  unfold Reader.receiveWindow
  simp only [hp, Option.isNone_none, if_true]
  rw [probe_spec r hp]
  cases fixedHeader r.data with
  | complete hl t => simp [Reader.readBytes]
  | incomplete => simp [hp, Reader.readBytes]
  | tooLong => simp

theorem packetAvailable_false_of_none {r : Reader} (hp : r.packetLength = none) :
    r.packetAvailable = false := by
  simp [Reader.packetAvailable, hp]

/-- A window offered to a reader that satisfies the invariant. -/
theorem window_some {r r1 : Reader} {s u : Bytes} {n : Nat} (h : RInv r s) (hs : s = r.data ++ u)
    (hw : r.receiveWindow = some (r1, n)) :
    RdWInv r1 s n ∧ r1.data = r.data ∧ r1.cap = r.cap ∧ r1.last = r.last := by
  cases hp : r.packetLength with
  | some l =>
    obtain ⟨hh, hc, hd⟩ := h.known l hp
    rw [receiveWindow_known r l hp, if_pos hc] at hw
    simp only [Option.some.injEq, Prod.mk.injEq] at hw
    obtain ⟨rfl, rfl⟩ := hw
    refine ⟨⟨h.fits, ?_, ?_⟩, rfl, rfl, rfl⟩
    · intro l' hl'
      rw [hp] at hl'; cases hl'
      exact ⟨hh, hc, hd, rfl⟩
    · intro hn; rw [hp] at hn; cases hn
  | none =>
    rw [receiveWindow_unknown r hp] at hw
    have hend := h.header_at_end hp
    cases hfh : fixedHeader r.data with
    | complete hl t =>
      rw [hfh] at hw
      simp only at hw
      split at hw
      · rename_i hc
        simp only [Option.some.injEq, Prod.mk.injEq] at hw
        obtain ⟨rfl, rfl⟩ := hw
        have hb := fixedHeader_complete_bounds hfh
        have := hend.1 hl t hfh
        refine ⟨⟨h.fits, ?_, ?_⟩, rfl, rfl, rfl⟩
        · intro l' hl'
          simp only [Option.some.injEq] at hl'
          subst hl'
          refine ⟨⟨hl, ?_⟩, hc, by simp only; omega, rfl⟩
          rw [hs]; exact fixedHeader_append_complete u hfh
        · intro hn; simp at hn
      · simp at hw
    | incomplete =>
      rw [hfh] at hw
      simp only at hw
      split at hw
      · rename_i hc
        simp only [Option.some.injEq, Prod.mk.injEq] at hw
        obtain ⟨rfl, rfl⟩ := hw
        refine ⟨⟨h.fits, ?_, ?_⟩, rfl, rfl, rfl⟩
        · intro l' hl'; rw [hp] at hl'; cases hl'
        · intro _; exact ⟨hfh, hc, rfl⟩
      · simp at hw
    | tooLong => rw [hfh] at hw; simp at hw

/-- `receive_buffer` fails exactly where the specification says the reader must give up, holding
exactly the bytes the specification says. -/
theorem window_none {r : Reader} {s u : Bytes} (h : RInv r s) (hs : s = r.data ++ u)
    (hw : r.receiveWindow = none) : frame1 r.cap s = .stop (.malformed r.data) := by
  have htake : ∀ m, m = r.data.length → s.take m = r.data := by
    intro m hm; rw [hs, hm]; simp
  cases hp : r.packetLength with
  | some l =>
    obtain ⟨_, hc, _⟩ := h.known l hp
    rw [receiveWindow_known r l hp, if_pos hc] at hw
    simp at hw
  | none =>
    rw [receiveWindow_unknown r hp] at hw
    have hend := h.header_at_end hp
    have hfits := h.fits
    cases hfh : fixedHeader r.data with
    | complete hl t =>
      rw [hfh] at hw
      simp only at hw
      split at hw
      · simp at hw
      · rename_i hc
        have := hend.1 hl t hfh
        unfold frame1
        rw [hs, fixedHeader_append_complete u hfh]
        simp only
        rw [if_pos (by omega), ← hs, htake _ (by omega)]
    | tooLong =>
      have := hend.2 hfh
      unfold frame1
      rw [hs, fixedHeader_append_tooLong u hfh]
      simp only
      rw [← hs, htake _ (by omega)]
    | incomplete =>
      rw [hfh] at hw
      simp only at hw
      split at hw
      · simp at hw
      · rename_i hc
        have h4 := fixedHeader_incomplete_length hfh
        have hcap : r.cap = r.data.length := by omega
        unfold frame1
        cases hfs : fixedHeader s with
        | incomplete =>
          simp only
          have : ¬ s.length < r.cap := by rw [hs]; simp; omega
          rw [if_neg this, htake _ hcap]
        | tooLong =>
          simp only
          rw [htake _ (by omega)]
        | complete hl t =>
          rw [hs] at hfs
          have := fixedHeader_incomplete_append u hfh hfs
          have := fixedHeader_complete_bounds hfs
          simp only
          rw [if_pos (by omega), htake _ (by omega)]

/-- An empty window means a complete packet is held. -/
theorem RdWInv.zero_available {r1 : Reader} {s : Bytes} (h : RdWInv r1 s 0) :
    r1.packetAvailable = true ∧ r1.data ≠ [] := by
  cases hp : r1.packetLength with
  | none => have := (h.unknown hp).2.2; omega
  | some l =>
    obtain ⟨⟨hl, hfh⟩, _, _, hn⟩ := h.known l hp
    have := fixedHeader_complete_bounds hfh
    constructor
    · simp [Reader.packetAvailable, hp, Reader.readBytes]; omega
    · intro hd; rw [hd] at hn; simp at hn; omega

/-- The stream ends while a non-empty window is open: the specification says `exhausted`. -/
theorem RdWInv.stream_end {r1 : Reader} {n : Nat} (h : RdWInv r1 r1.data n) (hn : n ≠ 0) :
    frame1 r1.cap r1.data = .stop (.exhausted r1.data) := by
  unfold frame1
  cases hp : r1.packetLength with
  | none =>
    obtain ⟨hfh, hc, _⟩ := h.unknown hp
    rw [hfh]; simp only
    rw [if_pos (by omega)]
  | some l =>
    obtain ⟨⟨hl, hfh⟩, hc, hd, hnl⟩ := h.known l hp
    rw [hfh]; simp only
    rw [if_neg (by omega), if_pos (by omega)]

/-- Committing between 1 and `n` delivered bytes re-establishes the loop-head invariant. -/
theorem RdWInv.commit {r1 : Reader} {s u : Bytes} {n k : Nat} (h : RdWInv r1 s n)
    (hs : s = r1.data ++ u) (hk1 : 1 ≤ k) (hkn : k ≤ n) (hku : k ≤ u.length) :
    RInv (r1.commit (u.take k)) s := by
  have hlen : (u.take k).length = k := by simp; omega
  cases hp : r1.packetLength with
  | none =>
    obtain ⟨hfh, hc, hn1⟩ := h.unknown hp
    have hk : k = 1 := by omega
    subst hk
    refine ⟨by simp [Reader.commit]; omega, ?_, ?_⟩
    · intro l hl; simp [Reader.commit, hp] at hl
    · intro _
      right
      match u, hku with
      | y :: _, _ => exact ⟨r1.data, y, by simp [Reader.commit], hfh⟩
  | some l =>
    obtain ⟨hh, hc, hd, hnl⟩ := h.known l hp
    refine ⟨by simp [Reader.commit]; omega, ?_, ?_⟩
    · intro l' hl'
      simp only [Reader.commit, hp, Option.some.injEq] at hl'
      subst hl'
      exact ⟨hh, hc, by simp [Reader.commit]; omega⟩
    · intro hn; simp [Reader.commit, hp] at hn

/-- Taking the packet when one is available: exactly the held bytes are handed off, they are the
next packet of the specification, and the reader is fresh again. -/
theorem take_spec {r : Reader} {s u : Bytes} (h : RInv r s) (hs : s = r.data ++ u)
    (ha : r.packetAvailable = true) :
    r.takePacket = ({ r with data := [], packetLength := none, last := r.data },
      (eventOf r.data).decoded) ∧
    frame1 r.cap s = .packet r.data u ∧ 2 ≤ r.data.length := by
  cases hp : r.packetLength with
  | none => simp [Reader.packetAvailable, hp] at ha
  | some l =>
    obtain ⟨⟨hl, hfh⟩, hc, hd⟩ := h.known l hp
    have hge : l ≤ r.data.length := by
      simpa [Reader.packetAvailable, hp, Reader.readBytes] using ha
    have hdl : r.data.length = l := by omega
    have hb := fixedHeader_complete_bounds hfh
    have htk : r.data.take l = r.data := by rw [← hdl]; simp
    refine ⟨?_, ?_, by omega⟩
    · unfold Reader.takePacket eventOf
      simp only [hp, htk]
      cases fromBuffer r.data <;> simp [hdl]
    · unfold frame1
      rw [hfh]; simp only
      rw [if_neg (by omega), if_neg (by rw [hs]; simp; omega)]
      rw [hs, ← hdl]; simp


/-! ### The loop computes `frames` -/

/-- Steps the loop may take without consuming a byte: window-0 (2 → 1), take (1 → 0). -/
def phi (r : Reader) : Nat :=
  if r.data.isEmpty then 0 else if r.packetAvailable then 1 else 2

theorem phi_le (r : Reader) : phi r ≤ 2 := by
  unfold phi; split <;> try split
  all_goals omega

theorem clampRead_bounds (want n len : Nat) (hn : n ≠ 0) (hl : len ≠ 0) :
    1 ≤ clampRead want n len ∧ clampRead want n len ≤ n ∧ clampRead want n len ≤ len := by
  unfold clampRead; omega

theorem readLoopFuel_eq : ∀ (fuel : Nat) (sched : List Nat) (r : Reader) (u : Bytes),
    RInv r (r.data ++ u) → 3 * u.length + phi r < fuel →
    readLoopFuel fuel sched r u =
      some ((frames r.cap (r.data ++ u)).packets.map eventOf,
            (frames r.cap (r.data ++ u)).ending) := by
  intro fuel
  induction fuel with
  | zero => intro _ _ _ _ h; omega
  | succ fuel ih =>
    intro sched r u hinv hfuel
    unfold readLoopFuel
    by_cases ha : r.packetAvailable = true
    · rw [if_pos ha]
      obtain ⟨htk, hf1, h2⟩ := take_spec hinv rfl ha
      have hne : r.data.isEmpty = false := by
        cases hd : r.data with
        | nil => rw [hd] at h2; simp at h2
        | cons _ _ => rfl
      have hphi : phi r = 1 := by unfold phi; simp [hne, ha]
      rw [htk]
      simp only
      rw [ih sched _ u (RInv_fresh _ _ rfl rfl) (by simp [phi]; omega)]
      rw [frames_eq r.cap (r.data ++ u), hf1]
      simp [Framing.cons, eventOf]
    · rw [if_neg ha]
      cases hw : r.receiveWindow with
      | none =>
        simp only
        rw [frames_eq, window_none hinv rfl hw]
        rfl
      | some p =>
        obtain ⟨r1, n⟩ := p
        obtain ⟨hwi, hd, hc, _⟩ := window_some hinv rfl hw
        simp only
        by_cases hn : n = 0
        · subst hn
          rw [if_pos rfl]
          obtain ⟨ha1, hne⟩ := hwi.zero_available
          have hinv1 : RInv r1 (r1.data ++ u) := by
            rw [hd]
            refine ⟨hwi.fits, ?_, ?_⟩
            · intro l hl
              obtain ⟨a, b, c, _⟩ := hwi.known l hl
              exact ⟨a, b, c⟩
            · intro hp; simp [Reader.packetAvailable, hp] at ha1
          have hne' : r.data.isEmpty = false := by
            rw [← hd]; cases hd' : r1.data with
            | nil => exact absurd hd' hne
            | cons _ _ => rfl
          have hne1 : r1.data.isEmpty = false := by rw [hd]; exact hne'
          have hphi : phi r = 2 := by unfold phi; simp [hne', ha]
          have hphi1 : phi r1 = 1 := by unfold phi; simp [hne1, ha1]
          rw [ih sched r1 u hinv1 (by omega), hd, hc]
        · rw [if_neg hn]
          by_cases hu : u.isEmpty = true
          · rw [if_pos hu]
            have hu' : u = [] := by simpa using hu
            subst hu'
            simp only [List.append_nil] at hwi ⊢
            rw [← hd] at hwi
            rw [frames_eq, ← hc, ← hd, hwi.stream_end hn]
            rfl
          · rw [if_neg hu]
            have hul : u.length ≠ 0 := by
              intro h0; exact hu (by simp [List.eq_nil_of_length_eq_zero h0])
            obtain ⟨hk1, hkn, hku⟩ := clampRead_bounds (sched.headD n) n u.length hn hul
            have hs : r.data ++ u = r1.data ++ u := by rw [hd]
            have hinv2 := hwi.commit hs hk1 hkn hku
            have hdata : (r1.commit (u.take (clampRead (sched.headD n) n u.length))).data
                ++ u.drop (clampRead (sched.headD n) n u.length) = r.data ++ u := by
              simp [Reader.commit, hd]
            have hcap : (r1.commit (u.take (clampRead (sched.headD n) n u.length))).cap = r.cap := by
              simp [Reader.commit, hc]
            rw [← hdata] at hinv2
            have hphi2 := phi_le (r1.commit (u.take (clampRead (sched.headD n) n u.length)))
            have hlen : (u.drop (clampRead (sched.headD n) n u.length)).length + 1 ≤ u.length := by
              rw [List.length_drop]; omega
            rw [ih _ _ _ hinv2 (by omega), hdata, hcap]

/-- **Main theorem.** From a fresh (or reset) reader, for every buffer capacity, every stream and
every schedule of partial reads, the loop hands off exactly the packets of `frames cap stream` —
byte-identical, in order, each with the decode result of those bytes —, ends for the same reason
(stream exhausted / malformed) and holds exactly the same partial data. It never runs out of fuel. -/
theorem readLoop_eq_frames (sched : List Nat) (r : Reader) (stream : Bytes)
    (hd : r.data = []) (hp : r.packetLength = none) :
    readLoop sched r stream =
      some ((frames r.cap stream).packets.map eventOf, (frames r.cap stream).ending) := by
  unfold readLoop
  have := readLoopFuel_eq (3 * stream.length + 1) sched r stream
    (RInv_fresh _ _ hd hp) (by simp [phi, hd])
  rw [this, hd]; rfl

/-! ### Nothing is lost or invented: packets, then the held bytes, are a prefix of the stream -/

theorem framesAux_conserve (cap : Nat) : ∀ (fuel : Nat) (s : Bytes), s.length ≤ fuel →
    (match (framesAux cap fuel s).ending with
     | .exhausted held => (framesAux cap fuel s).packets.flatten ++ held = s
     | .malformed held => ∃ unread, (framesAux cap fuel s).packets.flatten ++ held ++ unread = s) := by
  intro fuel
  induction fuel with
  | zero =>
    intro s hs
    have : s = [] := List.eq_nil_of_length_eq_zero (by omega)
    subst this
    simp only [framesAux, frame1, fixedHeader]
    by_cases hcap : ([] : Bytes).length < cap
    · rw [if_pos hcap]; simp
    · rw [if_neg hcap]; simp
  | succ fuel ih =>
    intro s hs
    simp only [framesAux]
    cases hf : frame1 cap s with
    | packet pkt rest =>
      have hsh := frame1_packet_shorter hf
      obtain ⟨_, t, _, _, _, hpk, hr⟩ := frame1_packet hf
      have := ih rest (by omega)
      simp only [Framing.cons]
      have hsplit : pkt ++ rest = s := by rw [hpk, hr]; simp
      cases he : (framesAux cap fuel rest).ending with
      | exhausted held =>
        rw [he] at this
        simp only at this ⊢
        rw [List.flatten_cons, List.append_assoc, this, hsplit]
      | malformed held =>
        rw [he] at this
        simp only at this ⊢
        obtain ⟨unread, hun⟩ := this
        refine ⟨unread, ?_⟩
        rw [List.flatten_cons, List.append_assoc, List.append_assoc, ← List.append_assoc _ held, hun, hsplit]
    | stop e =>
      simp only
      unfold frame1 at hf
      split at hf
      · split at hf
        · simp only [Frame1.stop.injEq] at hf; subst hf; simp
        · simp only [Frame1.stop.injEq] at hf; subst hf
          exact ⟨s.drop cap, by simp⟩
      · simp only [Frame1.stop.injEq] at hf; subst hf
        exact ⟨s.drop (min 5 cap), by simp⟩
      · split at hf
        · simp only [Frame1.stop.injEq] at hf; subst hf
          rename_i hl _ _ _
          exact ⟨s.drop (min hl cap), by simp⟩
        · split at hf
          · simp only [Frame1.stop.injEq] at hf; subst hf; simp
          · simp at hf

/-- The packets followed by the bytes held at the end are a prefix of the stream — the whole stream
when reading ended because the stream was exhausted. So the position of a malformed-packet error
is `packets.flatten.length + held.length`. -/
theorem frames_conserve (cap : Nat) (s : Bytes) :
    match (frames cap s).ending with
    | .exhausted held => (frames cap s).packets.flatten ++ held = s
    | .malformed held => ∃ unread, (frames cap s).packets.flatten ++ held ++ unread = s :=
  framesAux_conserve cap s.length s (Nat.le_refl _)

/-- Every packet of `frames` starts with a complete fixed header that announces exactly its length,
and fits the buffer. -/
theorem framesAux_packets (cap : Nat) : ∀ (fuel : Nat) (s : Bytes), s.length ≤ fuel →
    ∀ pkt ∈ (framesAux cap fuel s).packets,
      (∃ hl, fixedHeader pkt = .complete hl pkt.length) ∧ pkt.length ≤ cap := by
  intro fuel
  induction fuel with
  | zero =>
    intro s hs
    have : s = [] := List.eq_nil_of_length_eq_zero (by omega)
    subst this
    simp [framesAux, frame1, fixedHeader]
  | succ fuel ih =>
    intro s hs pkt hmem
    simp only [framesAux] at hmem
    cases hf : frame1 cap s with
    | stop e => rw [hf] at hmem; simp at hmem
    | packet p rest =>
      rw [hf] at hmem
      simp only [Framing.cons, List.mem_cons] at hmem
      have hsh := frame1_packet_shorter hf
      rcases hmem with rfl | hmem
      · obtain ⟨hl, t, hfh, htc, hts, hpk, _⟩ := frame1_packet hf
        have hb := fixedHeader_complete_bounds hfh
        have hlen : pkt.length = t := by rw [hpk]; simp; omega
        refine ⟨⟨hl, ?_⟩, by omega⟩
        rw [hlen, hpk]
        -- the header lies inside the first `t` bytes
        have hsplit : s = s.take hl ++ s.drop hl := by simp
        have hhead : fixedHeader (s.take hl) = .complete hl t := by
          cases hh : fixedHeader (s.take hl) with
          | complete hl' t' =>
            have h2 := fixedHeader_append_complete (s.drop hl) hh
            rw [← hsplit, hfh] at h2
            exact h2.symm
          | incomplete =>
            rw [hsplit] at hfh
            have := fixedHeader_incomplete_append _ hh hfh
            simp at this; omega
          | tooLong =>
            have h2 := fixedHeader_append_tooLong (s.drop hl) hh
            rw [← hsplit, hfh] at h2
            cases h2
        have : s.take t = s.take hl ++ (s.drop hl).take (t - hl) := by
          have : t = hl + (t - hl) := by omega
          rw [this, List.take_add]; simp
        rw [this]
        exact fixedHeader_append_complete _ hhead
      · exact ih rest (by omega) pkt hmem

theorem frames_packets (cap : Nat) (s : Bytes) : ∀ pkt ∈ (frames cap s).packets,
    (∃ hl, fixedHeader pkt = .complete hl pkt.length) ∧ pkt.length ≤ cap :=
  framesAux_packets cap s.length s (Nat.le_refl _)

/-! ## The loop as a relation: every reachable reader state -/

/-- Reader states (with the bytes not read yet) reachable from `r0` on `stream`, for every choice
of every read: the transport may deliver any `k` with `1 ≤ k ≤ min window remaining`. -/
inductive RdReach (r0 : Reader) (stream : Bytes) : Reader → Bytes → Prop where
  | init : RdReach r0 stream r0 stream
  | take {r u} : RdReach r0 stream r u → r.packetAvailable = true →
      RdReach r0 stream r.takePacket.1 u
  | window0 {r r1 u} : RdReach r0 stream r u → r.packetAvailable = false →
      r.receiveWindow = some (r1, 0) → RdReach r0 stream r1 u
  | read {r r1 u n k} : RdReach r0 stream r u → r.packetAvailable = false →
      r.receiveWindow = some (r1, n) → 1 ≤ k → k ≤ n → k ≤ u.length →
      RdReach r0 stream (r1.commit (u.take k)) (u.drop k)

theorem RdWInv.toRInv {r1 : Reader} {s : Bytes} (h : RdWInv r1 s 0) : RInv r1 s := by
  obtain ⟨ha1, _⟩ := h.zero_available
  refine ⟨h.fits, ?_, ?_⟩
  · intro l hl
    obtain ⟨a, b, c, _⟩ := h.known l hl
    exact ⟨a, b, c⟩
  · intro hp; simp [Reader.packetAvailable, hp] at ha1

theorem reach_inv {r0 : Reader} {stream : Bytes} (hd : r0.data = []) (hp : r0.packetLength = none)
    {r : Reader} {u : Bytes} (h : RdReach r0 stream r u) :
    RInv r (r.data ++ u) ∧ r.cap = r0.cap ∧ ∃ done, done ++ r.data ++ u = stream := by
  induction h with
  | init => exact ⟨RInv_fresh _ _ hd hp, rfl, [], by simp [hd]⟩
  | take _ ha ih =>
    obtain ⟨hinv, hc, done, hdone⟩ := ih
    obtain ⟨htk, _, _⟩ := take_spec hinv rfl ha
    rw [htk]
    exact ⟨RInv_fresh _ _ rfl rfl, hc, done ++ _, by simpa using hdone⟩
  | window0 _ _ hw ih =>
    obtain ⟨hinv, hc, done, hdone⟩ := ih
    obtain ⟨hwi, hd1, hc1, _⟩ := window_some hinv rfl hw
    rw [hd1]
    exact ⟨hwi.toRInv, by rw [hc1, hc], done, hdone⟩
  | @read r r1 u n k _ _ hw hk1 hkn hku ih =>
    obtain ⟨hinv, hc, done, hdone⟩ := ih
    obtain ⟨hwi, hd1, hc1, _⟩ := window_some hinv rfl hw
    have hs : r.data ++ u = r1.data ++ u := by rw [hd1]
    have hinv2 := hwi.commit hs hk1 hkn hku
    have hdata : (r1.commit (u.take k)).data ++ u.drop k = r.data ++ u := by
      simp [Reader.commit, hd1]
    rw [hdata]
    refine ⟨hinv2, by simp [Reader.commit, hc1, hc], done, ?_⟩
    rw [List.append_assoc, hdata, ← List.append_assoc]; exact hdone

/-- For ANY reader: an empty window is only ever offered when a complete packet is held. -/
theorem receiveWindow_zero (r r1 : Reader) (h : r.receiveWindow = some (r1, 0)) :
    r1.packetAvailable = true := by
  have key : ∀ r1' : Reader,
      (if (match r1'.packetLength with
            | some l => l
            | none => r1'.readBytes + 1) ≤ r1'.cap then
          some (r1', (match r1'.packetLength with
            | some l => l
            | none => r1'.readBytes + 1) - r1'.readBytes)
        else none) = some (r1, 0) → r1.packetAvailable = true := by
    intro r1' h
    cases hp : r1'.packetLength with
    | none =>
      simp only [hp] at h
      split at h
      · simp only [Option.some.injEq, Prod.mk.injEq] at h
        omega
      · simp at h
    | some l =>
      simp only [hp] at h
      split at h
      · simp only [Option.some.injEq, Prod.mk.injEq] at h
        obtain ⟨rfl, hz⟩ := h
        simp [Reader.packetAvailable, hp]; omega
      · simp at h
  simp only [Reader.receiveWindow] at h
  split at h
  · simp at h
  · rename_i r1' _
    exact key r1' h

/-- Safety of every reachable state, whatever the fragmentation: the buffer is never overfilled;
a window never reaches past the buffer, nor past the end of the packet being assembled (so no
byte of the next packet is ever consumed), and is empty only if a complete packet is held. -/
theorem reach_safe {r0 : Reader} {stream : Bytes} (hd : r0.data = []) (hp : r0.packetLength = none)
    {r : Reader} {u : Bytes} (h : RdReach r0 stream r u) :
    r.data.length ≤ r.cap ∧
    ∀ r1 n, r.receiveWindow = some (r1, n) →
      r.data.length + n ≤ r.cap ∧
      (n = 0 → r1.packetAvailable = true) ∧
      (r.packetAvailable = false → ∀ hl t, fixedHeader (r.data ++ u) = .complete hl t →
        r.data.length + n ≤ t) := by
  obtain ⟨hinv, _, _⟩ := reach_inv hd hp h
  refine ⟨hinv.fits, ?_⟩
  intro r1 n hw
  obtain ⟨hwi, hd1, hc1, _⟩ := window_some hinv rfl hw
  refine ⟨?_, fun hn => receiveWindow_zero r r1 (hn ▸ hw), ?_⟩
  · cases hp1 : r1.packetLength with
    | none => obtain ⟨_, hc, hn⟩ := hwi.unknown hp1; rw [← hd1, ← hc1]; omega
    | some l => obtain ⟨_, hc, hdl, hn⟩ := hwi.known l hp1; rw [← hd1, ← hc1]; omega
  · intro _ hl t hfh
    cases hp1 : r1.packetLength with
    | none =>
      obtain ⟨hinc, _, hn⟩ := hwi.unknown hp1
      rw [hd1] at hinc
      have := fixedHeader_incomplete_append u hinc hfh
      have := fixedHeader_complete_bounds hfh
      omega
    | some l =>
      obtain ⟨⟨hl', hfh'⟩, _, hdl, hn⟩ := hwi.known l hp1
      rw [hfh] at hfh'
      simp only [Header.complete.injEq] at hfh'
      rw [hd1] at hdl hn
      omega

/-! ## The write loops over a list of partial acceptances -/

/-- The transport accepts `k` bytes of the `offered` ones, `1 ≤ k ≤ offered`; `want` is its wish. -/
def clampWrite (want offered : Nat) : Nat := max 1 (min want offered)

/-- The `write` await of `perform_outbound_step` (`doStepWrite`) iterated over the acceptances
`ks`: an entry in state `Write(written)` offers `bytes.drop written`; the transport accepts a
non-empty prefix; `set_written` (`SendState.afterWrite`) records the new total, which either stays
`Write` (the step returns and is re-entered later) or becomes `Flush`. Returns the accepted chunks
and the final state. -/
def stepWrites (bytes : Bytes) (len : Nat) : SendState → List Nat → List Bytes × SendState
  | .write written, k :: ks =>
    let offered := bytes.drop written
    let c := clampWrite k offered.length
    let rest := stepWrites bytes len (SendState.afterWrite (written + c) len) ks
    (offered.take c :: rest.1, rest.2)
  | st, _ => ([], st)

theorem stepWrites_flush (bytes : Bytes) (len : Nat) (ks : List Nat) :
    stepWrites bytes len .flush ks = ([], .flush) := by
  cases ks <;> simp [stepWrites]

/-- Whatever the acceptances, the chunks written so far are exactly the next `total` bytes of the
packet behind `written`, the total never exceeds the packet, and the recorded state is
`afterWrite (written + total)`: `Flush` exactly when the whole packet has been accepted. -/
theorem stepWrites_spec (bytes : Bytes) (len : Nat) (hlen : bytes.length = len) :
    ∀ (ks : List Nat) (written : Nat), written < len →
      let res := stepWrites bytes len (.write written) ks
      let total := res.1.flatten.length
      res.1.flatten = (bytes.drop written).take total ∧ written + total ≤ len ∧
      res.2 = SendState.afterWrite (written + total) len ∧
      (∀ c ∈ res.1, c ≠ []) := by
  intro ks
  induction ks with
  | nil =>
    intro written hw
    simp [stepWrites, SendState.afterWrite]; omega
  | cons k ks ih =>
    intro written hw
    simp only [stepWrites]
    have hoff : (bytes.drop written).length = len - written := by simp [hlen]
    have hc : 1 ≤ clampWrite k (bytes.drop written).length ∧
        clampWrite k (bytes.drop written).length ≤ len - written := by
      rw [hoff]; unfold clampWrite; omega
    generalize clampWrite k (bytes.drop written).length = c at hc
    have htl : ((bytes.drop written).take c).length = c := by simp [hlen]; omega
    by_cases hdone : written + c ≥ len
    · have : SendState.afterWrite (written + c) len = .flush := by
        simp [SendState.afterWrite, hdone]
      rw [this, stepWrites_flush]
      simp only [List.flatten_cons, List.flatten_nil, List.append_nil, htl]
      refine ⟨by simp, by omega, by simp [SendState.afterWrite, hdone], ?_⟩
      intro x hx
      simp only [List.mem_singleton] at hx
      subst hx
      intro h0; rw [h0] at htl; simp at htl; omega
    · have hst : SendState.afterWrite (written + c) len = .write (written + c) := by
        simp [SendState.afterWrite, hdone]
      rw [hst]
      have := ih (written + c) (by omega)
      simp only at this
      obtain ⟨h1, h2, h3, h4⟩ := this
      generalize stepWrites bytes len (.write (written + c)) ks = res at h1 h2 h3 h4
      simp only [List.flatten_cons, List.length_append, htl]
      refine ⟨?_, by omega, by rw [h3, Nat.add_assoc], ?_⟩
      · rw [List.take_add, List.drop_drop, ← h1]
      · intro x hx
        simp only [List.mem_cons] at hx
        rcases hx with rfl | hx
        · intro h0; rw [h0] at htl; simp at htl; omega
        · exact h4 x hx

/-- With at least as many acceptances as bytes left the entry reaches `Flush`, and then the
concatenation of what the transport accepted is exactly the rest of the packet. -/
theorem stepWrites_complete (bytes : Bytes) (len : Nat) (hlen : bytes.length = len) :
    ∀ (ks : List Nat) (written : Nat), written < len → len - written ≤ ks.length →
      (stepWrites bytes len (.write written) ks).2 = .flush := by
  intro ks
  induction ks with
  | nil => intro written hw hk; simp at hk; omega
  | cons k ks ih =>
    intro written hw hk
    simp only [stepWrites]
    have hoff : (bytes.drop written).length = len - written := by simp [hlen]
    have hc : 1 ≤ clampWrite k (bytes.drop written).length ∧
        clampWrite k (bytes.drop written).length ≤ len - written := by
      rw [hoff]; unfold clampWrite; omega
    generalize clampWrite k (bytes.drop written).length = c at hc
    by_cases hdone : written + c ≥ len
    · have : SendState.afterWrite (written + c) len = .flush := by
        simp [SendState.afterWrite, hdone]
      rw [this, stepWrites_flush]
    · have hst : SendState.afterWrite (written + c) len = .write (written + c) := by
        simp [SendState.afterWrite, hdone]
      rw [hst]
      exact ih (written + c) (by omega) (by simp at hk; omega)

/-- `write_all` from an operation-local buffer (`doLocalWrite`): while bytes remain, offer them
all, drop what was accepted. Returns the accepted chunks and what is still unsent when the
acceptances run out. -/
def localWrites : Bytes → List Nat → List Bytes × Bytes
  | bytes, k :: ks =>
    if bytes.isEmpty then ([], []) else
    let c := clampWrite k bytes.length
    let rest := localWrites (bytes.drop c) ks
    (bytes.take c :: rest.1, rest.2)
  | bytes, [] => ([], bytes)

theorem localWrites_spec : ∀ (ks : List Nat) (bytes : Bytes),
    (localWrites bytes ks).1.flatten ++ (localWrites bytes ks).2 = bytes ∧
    (bytes.length ≤ ks.length → (localWrites bytes ks).2 = []) := by
  intro ks
  induction ks with
  | nil =>
    intro bytes
    simp only [localWrites, List.flatten_nil, List.nil_append, List.length_nil, true_and]
    intro h; exact List.eq_nil_of_length_eq_zero (by omega)
  | cons k ks ih =>
    intro bytes
    simp only [localWrites]
    by_cases he : bytes.isEmpty = true
    · rw [if_pos he]
      have : bytes = [] := by simpa using he
      simp [this]
    · rw [if_neg he]
      have hne : bytes.length ≠ 0 := by
        intro h0; exact he (by simp [List.eq_nil_of_length_eq_zero h0])
      have hc : 1 ≤ clampWrite k bytes.length ∧ clampWrite k bytes.length ≤ bytes.length := by
        unfold clampWrite; omega
      generalize clampWrite k bytes.length = c at hc
      obtain ⟨h1, h2⟩ := ih (bytes.drop c)
      simp only [List.flatten_cons, List.append_assoc, h1, List.take_append_drop, true_and]
      intro hl
      apply h2
      simp at hl ⊢; omega

end Minimq
