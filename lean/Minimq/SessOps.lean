import Minimq.World
/-
Every change the operations make to the `Session` goes through one of the functions below, so that
an invariant of the session can be lifted to all executions by showing it is preserved by each of
them (`Proofs/Lift.lean`).
-/
namespace Minimq
open Gen

namespace Session

def setOutbound (s : Session) (o : Outbound) : Session := { s with data := { s.data with outbound := o } }

/-- `maybe_queue_pingreq`. -/
def queuePing (s : Session) (now : Nat) : Except Err Session :=
  let rt := s.rt
  let due : Bool := match rt.nextPing with
    | some np => decide (now ≥ np)
    | none => false
  if rt.pingTimeout.isNone && due && !s.data.outbound.hasPendingPingreq then
    match checkSize rt (encodeControl ControlAction.pingReq) with
    | .error e => .error e
    | .ok () =>
      match s.data.outbound.queueControl ControlAction.pingReq with
      | none => .error .inflightExhausted
      | some o => .ok (s.setOutbound o)
  else .ok s

/-- `complete_flush`. -/
def completeFlush (s : Session) (pkt : Flushed) (now : Nat) : Session :=
  let rt := s.rt
  let rt := match pkt with
    | .control a => if a.typ = MT_PingReq then { rt with pingTimeout := some (now + ROUND_TRIP_TIMEOUT_MS * 1000) } else rt
    | _ => rt
  let rt := rt.noteOutboundActivity now
  let o := s.data.outbound
  let o := match pkt with
    | .control a => o.flushControl a
    | .release id => o.flushRelease id
    | .retained id => o.flushRetained id
  { (s.setOutbound o) with rt := rt }

/-- `set_written`. -/
def setWritten (s : Session) (pkt : Flushed) (written len : Nat) : Session :=
  let o := s.data.outbound
  s.setOutbound (match pkt with
    | .control a => o.setControlWritten a written len
    | .release id => o.setReleaseWritten id written len
    | .retained id => o.setRetainedWritten id written len)

/-- `PacketReader::take_packet` on the session's reader. -/
def takePkt (s : Session) : Session × Option (Nat × Recv) :=
  let (rd, res) := s.reader.takePacket
  ({ s with reader := rd }, res)

/-- `SessionData::handle_packet` on the session. -/
def handle (s : Session) (p : Recv) : Session × Except Err Bool :=
  let (d, rt, r) := handlePacket s.data s.rt p
  -- ghost: the packet and what its handling appended to the control queue
  ({ s with data := d, rt := rt,
            inlog := s.inlog ++ [{ pkt := some p, acks := (d.outbound.control.drop s.data.outbound.control.length).map PendingControl.action }] }, r)

/-- What the CONNACK property loop accumulates: send quota, max send quota, Maximum QoS, Maximum
Packet Size, keep-alive (ms), assigned client identifier. -/
abbrev ConnackAcc := Nat × Nat × Option Nat × Option Nat × Nat × Option Bytes

/-- One iteration of the CONNACK property loop of `connect_handshake`. -/
def connackStep (localQ : Nat) (acc : Except Err ConnackAcc) (item : Option Property) : Except Err ConnackAcc :=
  match acc with
  | .error e => .error e
  | .ok (sq, msq, mq, mps, ka, cid) =>
    match item with
    | none => .error Err.peerInvalid
    | some p =>
      match p.kind, p.val with
      | .MaximumPacketSize, .n v => .ok (sq, msq, mq, some v, ka, cid)
      | .AssignedClientIdentifier, .s bs =>
        if bs.length > CLIENT_ID_CAPACITY then .error Err.peerInvalid
        else .ok (sq, msq, mq, mps, ka, some bs)
      | .ServerKeepAlive, .n v => .ok (sq, msq, mq, mps, v * 1000, cid)
      | .ReceiveMaximum, .n v =>
        if v = 0 then .error Err.peerInvalid else .ok (min v localQ, min v localQ, mq, mps, ka, cid)
      | .MaximumQoS, .n v => if v > 2 then .error Err.peerInvalid else .ok (sq, msq, some v, mps, ka, cid)
      | _, _ => .ok (sq, msq, mq, mps, ka, cid)

/-- CONNACK processing after a successful reason code (`connect_handshake`, second half): reset for a
fresh session, the property loop, activation. On a property error the session is disconnected. -/
def activate (s : Session) (sp : Bool) (block : Bytes) (now : Nat) : Session × Except Err Unit :=
  let s := if !sp then { s with data := s.data.reset } else s
  let localQ := Outbound.maxInflight
  match (iterEncoded block).foldl (connackStep localQ)
      (.ok (localQ, localQ, none, none, s.rt.configuredKeepaliveMs, none)) with
  | .error e =>
    -- ghost: the reset above (if any) stays although the CONNACK is rejected (finding F19)
    let s := { s with data := { s.data with halfReset := s.data.halfReset || !sp } }
    (s.handleDisconnect, .error e)
  | .ok (sq, msq, mq, mps, ka, cid) =>
    let rt := s.rt
    let rt := { rt with sessionResumed := sp, keepaliveMs := ka,
                        sendQuota := sq - s.data.outbound.inflightPublishes,
                        maxSendQuota := msq, maxQos := mq, maximumPacketSize := mps,
                        deficit := decide (sq < s.data.outbound.inflightPublishes) }
    let s := { s with rt := rt, clientId := cid.getD s.clientId,
                      data := { s.data with sessionPresent := true, everAccepted := true, halfReset := false,
                                            assignedId := cid.or s.data.assignedId },
                      -- ghost: the inbound log restarts with what is still queued from earlier connections
                      inlog := [{ pkt := none, acks := s.data.outbound.control.map PendingControl.action }],
                      rmark := s.data.outbound.nextRser }
    let rt := (s.rt.noteOutboundActivity now)
    ({ s with rt := { rt with pingTimeout := none } }, .ok ())

/-- `next_packet_id` on the session. -/
def alloc (s : Session) : Session × Nat :=
  let (d, id) := s.data.nextPacketId
  ({ s with data := d }, id)

/-- `encode_packet` / `encode_publish` / `scratch_space` + encode: compacts, encodes behind `used`. -/
def encode {ε} (s : Session) (enc : Nat → (Nat → Nat → Bytes) → Except ε (Nat × Bytes)) :
    Session × Except ε (Nat × Nat) :=
  let (o, res) := s.data.outbound.encodeAt enc
  (s.setOutbound o, res)

/-- `retain_packet`, and for a PUBLISH the send-quota decrement that follows it. -/
def retain (s : Session) (id off len : Nat) (isPublish : Bool) : Option Session :=
  match s.data.outbound.retainPacket id off len with
  | none => none
  | some o =>
    let s := s.setOutbound o
    some (if isPublish then { s with rt := { s.rt with sendQuota := s.rt.sendQuota - 1 } } else s)

/-- After CONNECT was flushed: both keep-alive deadlines are cleared. -/
def clearPing (s : Session) : Session := { s with rt := { s.rt with nextPing := none, pingTimeout := none } }

def noteActivity (s : Session) (now : Nat) : Session := { s with rt := s.rt.noteOutboundActivity now }

/-- `receive_buffer` on the session's reader. -/
def window (s : Session) : Option (Session × Nat) :=
  match s.reader.receiveWindow with
  | none => none
  | some (rd, n) => some ({ s with reader := rd }, n)

def commit (s : Session) (bytes : Bytes) : Session := { s with reader := s.reader.commit bytes }

/-- The three resets at the top of `Session::connect`. -/
def beginConnect (s : Session) : Session :=
  { s with reader := s.reader.reset, rt := s.rt.resetTransport,
           data := { s.data with outbound := s.data.outbound.rearm } }

/-- The `verif_set_next_packet_id` hook. -/
def setPid (s : Session) (n : Nat) : Session := { s with data := { s.data with packetId := n } }

end Session
end Minimq
