import Minimq.Render
import Minimq.SessOps
/-
`session/handshake.rs`, `operations.rs`, `drive.rs`, `inbound.rs` (process_received_packet):
the asynchronous operations as machines whose suspended states are the await points (`Pc`).
Every function takes fuel for the synchronous code between two I/O calls; one POLL consumes at
most one decision, so the fuel of `pollFuel` is never exhausted (a `fuel` trace line would show it).
-/
namespace Minimq
open Gen

namespace World

def finish (w : World) (line : String) : World :=
  { (w.emit s!"{line} @{w.now}") with fut := none, lastRes := some (.ok ()) }

def finishErr (w : World) (op : String) (e : Err) : World :=
  { (w.finish s!"ret {op} err {errName e}") with lastRes := some (.error e) }

def suspend (w : World) (pc : Pc) : World := { w with fut := some pc }

def outerName : Outer → String
  | .drive => "drive"
  | .poll => "poll"
  | .recv => "recv"

def afterFlushName : AfterFlush → String
  | .publishPre _ => "publish"
  | .subPre _ => "subscribe"
  | .unsubPre _ => "unsubscribe"
  | .discPre _ => "disconnect"
  | .post op _ => op

def ctxName : StepCtx → String
  | .flush k => afterFlushName k
  | .drive _ o => outerName o

/-- `disconnect_with`: a `flush_outbound` that fails ends the connection as well, whatever the error
(`if let Err(err) = self.flush_outbound().await { self.handle_disconnect(); return Err(err) }`).
For every other caller a failed flush just returns the error. -/
def discFail (w : World) : StepCtx → World
  | .flush (.discPre _) => w.handleDisconnect
  | _ => w

/-- `disconnect_with`: once the DISCONNECT (`which` ≠ 0, 1) is wholly on the transport the handle is
finished — `handle_disconnect()` runs before the flush is awaited, so that nothing follows a DISCONNECT
also when that flush is cancelled. CONNECT and QoS 0 PUBLISH just go on to their flush. -/
def discDone (w : World) (which : Nat) : World :=
  if which = 0 then w else if which = 1 then w else w.handleDisconnect

/-- `perform_outbound_step` cannot prepare the packet: a queued acknowledgement or PUBREL that this
connection cannot carry (it was queued under an earlier, larger Maximum Packet Size) closes the
connection — `handle_disconnect()` before the error is returned; a retained packet that does not fit
just fails the call (finding F14), except inside `disconnect` (`discFail`). -/
def failStep (w : World) (ctx : StepCtx) : Outbound.Step → World
  | .retained _ _ _ _ => w.discFail ctx
  | _ => w.handleDisconnect

def opKindName : OpKind → String
  | .pub1 => "pub1"
  | .pub2 => "pub2"
  | .sub => "sub"
  | .unsub => "unsub"

def finishOp (w : World) (name : String) (op : Op) : World :=
  let k := w.handles.length
  let w := { w with handles := w.handles ++ [op] }
  w.finish s!"ret {name} ok op {k} {opKindName op.kind} {op.id} {op.generation}"

def setOutbound (w : World) (o : Outbound) : World :=
  { w with sess := { w.sess with data := { w.sess.data with outbound := o } } }

def setRt (w : World) (r : Runtime) : World := { w with sess := { w.sess with rt := r } }

/-- `maybe_queue_pingreq`. -/
def maybeQueuePingreq (w : World) (now : Nat) : Except Err World :=
  match w.sess.queuePing now with
  | .error e => .error e
  | .ok s => .ok { w with sess := s }

/-- `complete_flush`. -/
def completeFlush (w : World) (pkt : Flushed) (now : Nat) : World :=
  { w with sess := w.sess.completeFlush pkt now }

/-- Ghost: the log entry for queue entry `pkt` — its tag and the bytes `perform_outbound_step` writes
for it (acknowledgements, PINGREQ and PUBREL are encoded from the entry, a retained packet is read from
the arena), on the current transport. -/
def doneFrame (w : World) (pkt : Flushed) : LogEntry :=
  let o := w.sess.data.outbound
  match pkt with
  | .control a => { net := w.nets.length, tag := .control a, bytes := ((encodeControl a).toOption).getD [] }
  | .release id =>
    (match o.release.find? (fun e => e.id == id) with
     | some e => { net := w.nets.length, tag := .release e.rser e.pser id e.rc, bytes := ((encodePubrel id e.rc).toOption).getD [] }
     | none => { net := w.nets.length, tag := .unknown, bytes := [] })
  | .retained id =>
    (match o.retained.find? (fun e => e.id == id) with
     | some e => { net := w.nets.length, tag := .retained e.ser id, bytes := o.retainedPacket e.offset e.len }
     | none => { net := w.nets.length, tag := .unknown, bytes := [] })

def setWritten (w : World) (pkt : Flushed) (written len : Nat) : World :=
  { w with sess := w.sess.setWritten pkt written len,
           -- ghost only: the entry's packet is now completely on the wire
           log := if written ≥ len then w.log ++ [w.doneFrame pkt] else w.log }

/-- What `perform_outbound_step` prepares before its first await. -/
inductive Prepared where
  | write (pkt : Flushed) (bytes : Bytes) (written len : Nat)
  | flush (pkt : Flushed)
  | done
  | fail (e : Err)

def prepareStep (w : World) (step : Outbound.Step) : Prepared :=
  let rt := w.sess.rt
  let sized (pkt : Flushed) (written : Nat) (enc : Except SerErr Bytes) : Prepared :=
    match enc with
    | .error e => .fail (Err.ofSer e)
    | .ok bs => if rt.packetTooLarge bs.length then .fail .packetTooLarge else .write pkt bs written bs.length
  match step with
  | .control a st =>
    (match st with
     | .write written => sized (.control a) written (encodeControl a)
     | .flush => .flush (.control a)
     | .sent => .done)
  | .release id rc st =>
    (match st with
     | .write written => sized (.release id) written (encodePubrel id rc)
     | .flush => .flush (.release id)
     | .sent => .done)
  | .retained id off len st =>
    (match st with
     | .write written =>
       if rt.packetTooLarge len then .fail .packetTooLarge
       else .write (.retained id) (w.sess.data.outbound.retainedPacket off len) written len
     | .flush => .flush (.retained id)
     | .sent => .done)

/-- `process_received_packet`: `Ok(Some(len))` / `Ok(None)` / `Err`. -/
def processReceivedPacket (w : World) : World × Except Err (Option Nat) :=
  if !w.sess.reader.packetAvailable then (w, .ok none) else
  let (s1, res) := w.sess.takePkt
  let w := { w with sess := s1 }
  match res with
  | none => (w.handleDisconnect, .error .peerInvalid)
  | some (len, pkt) =>
    let (s2, r) := w.sess.handle pkt
    let w := { w with sess := s2 }
    match r with
    | .ok true => (w, .ok (some len))
    | .ok false => (w, .ok none)
    | .error .disconnected => (w.handleDisconnect, .error .disconnected)
    | .error .peerInvalid => (w.handleDisconnect, .error .peerInvalid)
    | .error .packetTooLarge => (w.handleDisconnect, .error .packetTooLarge)
    | .error e => (w, .error e)

/-- `decode_inbound_publish` + the description of the message. -/
def deliver (w : World) (name : String) (len : Nat) : World :=
  let w := w.finish s!"ret {name} ok msg"
  match fromBuffer (w.sess.reader.last.take len) with
  | some (.publish topic _ props payload retain qos _) =>
    (msgLines topic payload qos retain props).foldl World.emit w
  | _ => w.emit "panic decode_inbound_publish"

/-- The QoS a publish is sent with: capped to the broker's Maximum QoS when auto-downgrade is on. -/
def effectiveQos (maxQos : Option Nat) (downgrade : Bool) (requested : Nat) : Nat :=
  match maxQos with
  | some m => if downgrade && requested > m then m else requested
  | none => requested

/-- Encoding failures of the publish path (`PubError::from`). -/
def pubErr : PubEncErr → Err
  | .payload => .payload
  | .encode e => Err.ofSer e

/-- CONNACK processing after a successful reason code (`connect_handshake`, second half). -/
def activate (w : World) (sp : Bool) (block : Bytes) : World :=
  match w.sess.activate sp block w.now with
  | (s, .error e) =>
    ({ w with sess := s, conn := w.conn.map (fun (c : Conn) => { c with live := false }) } : World).finishErr "connect" e
  | (s, .ok ()) =>
    let w := { w with sess := s, conn := some { live := true, resumed := sp } }
    w.finish s!"ret connect ok {if sp then "reconnected" else "connected"}"

/-- After the CONNACK bytes are complete: decode and act (`connect_handshake`, middle). -/
def connectGotPacket (w : World) : World :=
  let (s1, res) := w.sess.takePkt
  let w := { w with sess := s1 }
  match res with
  | none => (w.handleDisconnect).finishErr "connect" .peerInvalid
  | some (_, .connAck sp rc block) =>
    if !reasonSuccess rc then w.finishErr "connect" (.peerRejected rc)
    else activate w sp block
  | some (_, .disconnect _ _) => (w.handleDisconnect).finishErr "connect" .disconnected
  | some _ => (w.handleDisconnect).finishErr "connect" .peerInvalid

mutual

/-- `flush_outbound` loop head. -/
def flushLoop : Nat → World → AfterFlush → World
  | 0, w, _ => w.emit "fuel"
  | fuel + 1, w, k =>
    match w.maybeQueuePingreq w.now with
    | .error e => (w.discFail (.flush k)).finishErr (afterFlushName k) e
    | .ok w =>
      match w.sess.data.outbound.nextStep with
      | none => afterFlush fuel w k
      | some step => performStep fuel w (.flush k) step w.now

/-- `perform_outbound_step` up to its first await. -/
def performStep : Nat → World → StepCtx → Outbound.Step → Nat → World
  | 0, w, _, _, _ => w.emit "fuel"
  | fuel + 1, w, ctx, step, now =>
    match prepareStep w step with
    | .fail e => (w.failStep ctx step).finishErr (ctxName ctx) e
    | .done => stepReturned fuel w ctx false
    | .flush pkt =>
      if !w.live then (w.discFail ctx).finishErr (ctxName ctx) .disconnected
      else doStepFlush fuel w ctx pkt now
    | .write pkt bytes written len =>
      if !w.live then (w.discFail ctx).finishErr (ctxName ctx) .disconnected
      else doStepWrite fuel w ctx pkt bytes written len now

/-- The `write` await of `perform_outbound_step`. -/
def doStepWrite : Nat → World → StepCtx → Flushed → Bytes → Nat → Nat → Nat → World
  | 0, w, _, _, _, _, _, _ => w.emit "fuel"
  | fuel + 1, w, ctx, pkt, bytes, written, len, now =>
    match w.ioWrite (bytes.drop written) with
    | (w, .pending) => w.suspend (.stepWrite ctx pkt bytes written len now)
    | (w, .zero) => (w.discFail ctx).finishErr (ctxName ctx) .writeZero
    | (w, .err k) => (w.handleDisconnect).finishErr (ctxName ctx) (.transport k)
    | (w, .ok count) =>
      let written := written + count
      let w := w.setWritten pkt written len
      if written < len then stepReturned fuel w ctx true
      else doStepFlush fuel w ctx pkt now     -- `flush_current`: live is still true here

/-- The `flush` await of `flush_current`. -/
def doStepFlush : Nat → World → StepCtx → Flushed → Nat → World
  | 0, w, _, _, _ => w.emit "fuel"
  | fuel + 1, w, ctx, pkt, now =>
    match w.ioFlush with
    | (w, .pending) => w.suspend (.stepFlush ctx pkt now)
    | (w, .err k) => (w.handleDisconnect).finishErr (ctxName ctx) (.transport k)
    | (w, .ok) => stepReturned fuel (w.completeFlush pkt now) ctx true

/-- `perform_outbound_step` returned `Ok(advanced)` to its caller. -/
def stepReturned : Nat → World → StepCtx → Bool → World
  | 0, w, _, _ => w.emit "fuel"
  | fuel + 1, w, ctx, adv =>
    match ctx with
    | .flush k => flushLoop fuel w k
    | .drive advanced outer => driveAfterService fuel w outer (advanced || adv)

/-- What an operation does after its `flush_outbound().await?`. -/
def afterFlush : Nat → World → AfterFlush → World
  | 0, w, _ => w.emit "fuel"
  | fuel + 1, w, k =>
    match k with
    | .post name op => w.finishOp name op
    | .publishPre r =>
      if !r.props.validFor .Publish then w.finishErr "publish" .invalidRequest else
      let qos := effectiveQos w.sess.rt.maxQos w.sess.downgrade r.qos
      if qos > 0 then
        let (s1, id) := w.sess.alloc
        let w := { w with sess := s1 }
        if w.sess.data.outbound.retainedFull then w.finishErr "publish" .inflightExhausted else
        if !(w.live && canPublishS w.sess.data w.sess.rt qos) then w.finishErr "publish" .notReady else
        let h : PublishHeader := { topic := r.topic, packetId := some id, props := r.props, retain := r.retain, qos := qos, dup := false }
        let (s2, res) := w.sess.encode (fun cap fill => encodePublishWithOffset cap h r.payload fill)
        let w := { w with sess := s2 }
        match res with
        | .error e => w.finishErr "publish" (pubErr e)
        | .ok (off, len) =>
          if w.sess.rt.packetTooLarge len then w.finishErr "publish" .packetTooLarge else
          match w.sess.retain id off len true with
          | none => w.finishErr "publish" .inflightExhausted
          | some s3 =>
            let w := { w with sess := s3 }
            let op : Op := { kind := if qos = 2 then .pub2 else .pub1, id := id, generation := w.sess.data.generation }
            flushLoop fuel w (.post "publish" op)
      else
        if !(w.live && canPublishS w.sess.data w.sess.rt 0) then w.finishErr "publish" .notReady else
        let h : PublishHeader := { topic := r.topic, packetId := none, props := r.props, retain := r.retain, qos := 0, dup := false }
        -- `scratch_space()` compacts, then the packet is encoded behind `used`
        let (s2, res) := w.sess.encode (fun cap fill => encodePublishWithOffset cap h r.payload fill)
        let w := { w with sess := s2 }
        match res with
        | .error e => w.finishErr "publish" (pubErr e)
        | .ok (off, len) =>
          if w.sess.rt.packetTooLarge len then w.finishErr "publish" .packetTooLarge else
          doLocalWrite fuel w 1 (w.sess.data.outbound.retainedPacket off len)
    | .subPre r =>
      if w.sess.data.outbound.retainedFull then w.finishErr "subscribe" .inflightExhausted else
      let (s1, id) := w.sess.alloc
      let w := { w with sess := s1 }
      let (s2, res) := w.sess.encode (fun cap _ =>
        encodeWithOffset cap (subscribeChunks id (.slice r.props) r.topics) MT_Subscribe FLAGS_Subscribe)
      let w := { w with sess := s2 }
      match res with
      | .error e => w.finishErr "subscribe" (Err.ofSer e)
      | .ok (off, len) =>
        if w.sess.rt.packetTooLarge len then w.finishErr "subscribe" .packetTooLarge else
        match w.sess.retain id off len false with
        | none => w.finishErr "subscribe" .inflightExhausted
        | some s3 => flushLoop fuel { w with sess := s3 } (.post "subscribe" { kind := .sub, id := id, generation := w.sess.data.generation })
    | .unsubPre r =>
      if w.sess.data.outbound.retainedFull then w.finishErr "unsubscribe" .inflightExhausted else
      let (s1, id) := w.sess.alloc
      let w := { w with sess := s1 }
      let (s2, res) := w.sess.encode (fun cap _ =>
        encodeWithOffset cap (unsubscribeChunks id (.slice r.props) r.topics) MT_Unsubscribe FLAGS_Unsubscribe)
      let w := { w with sess := s2 }
      match res with
      | .error e => w.finishErr "unsubscribe" (Err.ofSer e)
      | .ok (off, len) =>
        if w.sess.rt.packetTooLarge len then w.finishErr "unsubscribe" .packetTooLarge else
        match w.sess.retain id off len false with
        | none => w.finishErr "unsubscribe" .inflightExhausted
        | some s3 => flushLoop fuel { w with sess := s3 } (.post "unsubscribe" { kind := .unsub, id := id, generation := w.sess.data.generation })
    | .discPre d =>
      match encodeWithOffset CONTROL_PACKET_LEN d.chunks MT_Disconnect FLAGS_Disconnect with
      | .error e => w.finishErr "disconnect" (Err.ofSer e)
      | .ok (_, pkt) =>
        if w.sess.rt.packetTooLarge pkt.length then w.finishErr "disconnect" .packetTooLarge
        else doLocalWrite fuel w 2 pkt

/-- `write_all` from an operation-local buffer: `which` = 0 CONNECT, 1 QoS 0 PUBLISH, 2 DISCONNECT. -/
def doLocalWrite : Nat → World → Nat → Bytes → World
  | 0, w, _, _ => w.emit "fuel"
  | fuel + 1, w, which, bytes =>
    if bytes.isEmpty then doLocalFlush fuel (w.discDone which) which else
    match w.ioWrite bytes with
    | (w, .pending) =>
      w.suspend (if which = 0 then .connWrite bytes else if which = 1 then .q0Write bytes else .discWrite bytes)
    | (w, .ok n) => doLocalWrite fuel w which (bytes.drop n)
    | (w, .zero) =>
      if which = 0 then w.finishErr "connect" .writeZero
      else if which = 1 then (w.handleDisconnect).finishErr "publish" .writeZero
      else (w.handleDisconnect).finishErr "disconnect" .writeZero
    | (w, .err k) =>
      if which = 0 then w.finishErr "connect" (.transport k)
      else if which = 1 then (w.handleDisconnect).finishErr "publish" (.transport k)
      else (w.handleDisconnect).finishErr "disconnect" (.transport k)

def doLocalFlush : Nat → World → Nat → World
  | 0, w, _ => w.emit "fuel"
  | fuel + 1, w, which =>
    match w.ioFlush with
    | (w, .pending) => w.suspend (if which = 0 then .connFlush else if which = 1 then .q0Flush else .discFlush)
    | (w, .err k) =>
      if which = 0 then w.finishErr "connect" (.transport k)
      else if which = 1 then (w.handleDisconnect).finishErr "publish" (.transport k)
      else (w.handleDisconnect).finishErr "disconnect" (.transport k)
    | (w, .ok) =>
      if which = 0 then
        doConnRead fuel { w with sess := w.sess.clearPing }
      else if which = 1 then
        ({ w with sess := w.sess.noteActivity w.now }).finish "ret publish ok none"
      else (w.handleDisconnect).finish "ret disconnect ok"

/-- `fill_packet_reader` inside `connect_handshake`. -/
def doConnRead : Nat → World → World
  | 0, w => w.emit "fuel"
  | fuel + 1, w =>
    if w.sess.reader.packetAvailable then connectGotPacket w else
    match w.sess.window with
    | none => (w.handleDisconnect).finishErr "connect" .peerInvalid
    | some (s1, window) =>
      let w := { w with sess := s1 }
      if window = 0 then connectGotPacket w else
      match w.ioRead window with
      | (w, .pending) => w.suspend .connRead
      | (w, .eof) => (w.handleDisconnect).finishErr "connect" .disconnected
      | (w, .err k) => (w.handleDisconnect).finishErr "connect" (.transport k)
      | (w, .ok bytes) =>
        doConnRead fuel { w with sess := w.sess.commit bytes }

/-- `drive_packet` loop head (after the `live` check at function entry). -/
def driveLoop : Nat → World → Outer → Bool → World
  | 0, w, _, _ => w.emit "fuel"
  | fuel + 1, w, outer, advanced =>
    if w.sess.reader.packetAvailable then
      match w.processReceivedPacket with
      | (w, .error e) => w.finishErr (outerName outer) e
      | (w, .ok (some len)) => w.deliver (outerName outer) len
      | (w, .ok none) => driveLoop fuel w outer true
    else
      -- `service(now)`
      let now := w.now
      let timedOut : Bool := match w.sess.rt.pingTimeout with
        | some d => decide (now ≥ d)
        | none => false
      if timedOut then (w.handleDisconnect).finishErr (outerName outer) .disconnected else
      match w.maybeQueuePingreq now with
      | .error e => w.finishErr (outerName outer) e
      | .ok w =>
        match w.sess.data.outbound.nextStep with
        | none => driveAfterService fuel w outer advanced
        | some step => performStep fuel w (.drive advanced outer) step now

/-- `drive_packet` after `service` returned. -/
def driveAfterService : Nat → World → Outer → Bool → World
  | 0, w, _, _ => w.emit "fuel"
  | fuel + 1, w, outer, advanced =>
    if w.sess.reader.packetAvailable then
      match w.processReceivedPacket with
      | (w, .error e) => w.finishErr (outerName outer) e
      | (w, .ok (some len)) => w.deliver (outerName outer) len
      | (w, .ok none) => driveLoop fuel w outer true
    else if w.sess.data.outbound.nextStep.isNone then
      -- `drive_packet` returns Advanced / Idle
      if advanced then
        (match outer with
         | .drive => w.finish "ret drive ok none"
         | .poll => w.finish "ret poll ok none"
         | .recv => driveEnter fuel w .recv)
      else
        (match outer with
         | .drive => w.finish "ret drive ok none"
         | _ => doWaitRead fuel w outer w.sess.rt.nextDeadline false)
    else driveLoop fuel w outer advanced

/-- Entry of `drive_packet`: the `live` check. -/
def driveEnter : Nat → World → Outer → World
  | 0, w, _ => w.emit "fuel"
  | fuel + 1, w, outer =>
    if !w.live then w.finishErr (outerName outer) .disconnected
    else driveLoop fuel w outer false

/-- `read_packet` under `with_deadline` in `wait_for_progress`. -/
def doWaitRead : Nat → World → Outer → Option Nat → Bool → World
  | 0, w, _, _, _ => w.emit "fuel"
  | fuel + 1, w, outer, deadline, yielded =>
    if w.sess.reader.packetAvailable then driveEnter fuel w outer else
    match w.sess.window with
    | none => (w.handleDisconnect).finishErr (outerName outer) .peerInvalid
    | some (s1, window) =>
      let w := { w with sess := s1 }
      if window = 0 then driveEnter fuel w outer else
      match w.ioRead window with
      | (w, .eof) => (w.handleDisconnect).finishErr (outerName outer) .disconnected
      | (w, .err k) => (w.handleDisconnect).finishErr (outerName outer) (.transport k)
      | (w, .ok bytes) =>
        doWaitRead fuel { w with sess := w.sess.commit bytes } outer deadline yielded
      | (w, .pending) =>
        match deadline with
        | none => w.suspend (.waitRead outer none true)
        | some d =>
          if w.now ≥ d then
            if yielded then driveEnter fuel w outer          -- timer fired: `continue`
            else
              -- first poll of the timer: it registers, is woken at once, and is polled again
              if w.wakes + 1 ≥ 64 then
                ({ w with wakes := w.wakes + 1 }.emit "spin").suspend (.waitRead outer deadline true)
              else doWaitRead fuel { w with wakes := w.wakes + 1 } outer deadline true
          else w.suspend (.waitRead outer deadline true)

end

def pollFuel : Nat := 4000

/-- POLL: resume the suspended operation at its await point. -/
def poll (w : World) : World :=
  let w := { w with wakes := 0, lastIoStarved := false }
  match w.fut with
  | none => w
  | some pc =>
    let w := { w with fut := none }
    match pc with
    | .stepWrite ctx pkt bytes written len now => doStepWrite pollFuel w ctx pkt bytes written len now
    | .stepFlush ctx pkt now => doStepFlush pollFuel w ctx pkt now
    | .connWrite bytes => doLocalWrite pollFuel w 0 bytes
    | .connFlush => doLocalFlush pollFuel w 0
    | .connRead => doConnRead pollFuel w
    | .q0Write bytes => doLocalWrite pollFuel w 1 bytes
    | .q0Flush => doLocalFlush pollFuel w 1
    | .discWrite bytes => doLocalWrite pollFuel w 2 bytes
    | .discFlush => doLocalFlush pollFuel w 2
    | .waitRead outer deadline yielded => doWaitRead pollFuel w outer deadline yielded

end World
end Minimq
