import Minimq.Session
/-
The world the operations run in: session, connection handle, transports, virtual clock, the one
suspended operation, and the trace printed so far.
-/
namespace Minimq
open Gen

structure Cfg where
  rx : Nat
  tx : Nat
  keepaliveS : Nat
  expiry : Nat
  downgrade : Bool
  clientId : Bytes
  auth : Option Auth
  will : Option Will
  deriving Repr, Inhabited

/-- Ghost (not in the code, never printed): one record of the inbound log of the current connection —
a packet handed to `handle_packet` together with the control actions (acknowledgements) that its
handling appended to the control queue; the record with `pkt = none` is written by a successful
CONNACK and lists the control actions that were queued at that moment (left over from earlier
connections). -/
structure InRec where
  pkt : Option Recv
  acks : List ControlAction
  deriving Repr, DecidableEq, Inhabited

/-- `Session<'buf>`. -/
structure Session where
  clientId : Bytes
  reader : Reader
  data : SessionData
  rt : Runtime
  will : Option Will
  auth : Option Auth
  expiry : Nat
  downgrade : Bool
  /-- Ghost: the inbound log of the current connection, restarted by every accepted CONNACK. -/
  inlog : List InRec := []
  /-- Ghost: the value of the release-serial counter (`Outbound.nextRser`) when the CONNACK of the current
  connection was accepted: release entries with a serial from here on were created on this connection. -/
  rmark : Nat := 0
  deriving Repr, Inhabited

def Session.new (c : Cfg) : Session :=
  { clientId := c.clientId, reader := Reader.new c.rx,
    data := { outbound := Outbound.new c.tx },
    rt := { keepaliveMs := c.keepaliveS * 1000, configuredKeepaliveMs := c.keepaliveS * 1000 },
    will := c.will, auth := c.auth, expiry := c.expiry, downgrade := c.downgrade }

/-- The CONNECT packet `connect_handshake` builds from the session. -/
def Session.connectPacket (s : Session) : Connect :=
  { keepalive := s.rt.configuredKeepaliveMs / 1000, props := .slice (connectProps s.reader.cap s.expiry),
    clientId := s.clientId, auth := s.auth, will := s.will, cleanStart := !s.data.sessionPresent }

/-- `Session::handle_disconnect`. -/
def Session.handleDisconnect (s : Session) : Session :=
  { s with data := { s.data with outbound := s.data.outbound.rearm },
           rt := s.rt.resetTransport, reader := s.reader.reset }

structure Net where
  wire : Bytes := []       -- bytes accepted by write, in order
  rx : Bytes := []         -- inbound bytes not yet read
  deriving Repr, Inhabited

structure Conn where
  live : Bool
  resumed : Bool           -- ConnectEvent::Reconnected
  deriving Repr, Inhabited

inductive Outer where
  | drive | poll | recv
  deriving DecidableEq, Repr, Inhabited

structure PubReq where
  qos : Nat
  retain : Bool
  topic : Bytes
  payload : Payload
  props : Properties
  deriving Repr, Inhabited

structure SubReq where
  props : List Property
  topics : List TopicFilter
  deriving Repr, Inhabited

structure UnsubReq where
  props : List Property
  topics : List Bytes
  deriving Repr, Inhabited

/-- What the operation does once its `flush_outbound()` has returned `Ok`. -/
inductive AfterFlush where
  | publishPre (r : PubReq)
  | subPre (r : SubReq)
  | unsubPre (r : UnsubReq)
  | discPre (d : Disconnect)
  | post (op : String) (h : Op)        -- second flush of publish/subscribe/unsubscribe
  deriving Repr, Inhabited

/-- Who called `perform_outbound_step`. -/
inductive StepCtx where
  | flush (k : AfterFlush)
  | drive (advanced : Bool) (outer : Outer)
  deriving Repr, Inhabited

/-- `FlushedPacket`. -/
inductive Flushed where
  | control (a : ControlAction)
  | release (id : Nat)
  | retained (id : Nat)
  deriving DecidableEq, Repr, Inhabited

/-- Ghost (not in the code, never printed): which queue entry a completely written packet belonged
to. A retained packet is named by the ghost serial of its entry (`RetainedPacket.ser`) and its
packet identifier. -/
inductive Tag where
  | control (a : ControlAction)
  | release (rser pser id rc : Nat)
  | retained (ser id : Nat)
  /-- `set_written` was called for an entry that is not in its queue (does not happen). -/
  | unknown
  deriving DecidableEq, Repr, Inhabited

/-- Ghost: one entry of the transmission log — on the transport with ordinal `net` (1 = first transport
handed to `connect`) the last byte of the packet `bytes` of queue entry `tag` was accepted. -/
structure LogEntry where
  net : Nat
  tag : Tag
  bytes : Bytes
  deriving DecidableEq, Repr, Inhabited

/-- The await points. A suspended operation is exactly one of these. -/
inductive Pc where
  | stepWrite (ctx : StepCtx) (pkt : Flushed) (bytes : Bytes) (written len now : Nat)
  | stepFlush (ctx : StepCtx) (pkt : Flushed) (now : Nat)
  | connWrite (bytes : Bytes)
  | connFlush
  | connRead
  | q0Write (bytes : Bytes)
  | q0Flush
  | discWrite (bytes : Bytes)
  | discFlush
  | waitRead (outer : Outer) (deadline : Option Nat) (yielded : Bool)
  deriving Repr, Inhabited

structure World where
  sess : Session
  conn : Option Conn := none
  nets : List Net := []
  fut : Option Pc := none
  now : Nat := 0
  slot : Option Nat := none
  handles : List Op := []
  lastIoStarved : Bool := false     -- the last I/O event of the current POLL was `rs`
  wakes : Nat := 0                  -- self-wakes in the current POLL
  lastRes : Option (Except Err Unit) := none   -- result of the operation that completed last
  out : List String := []           -- trace, newest first
  /-- Ghost (not in the code, never printed): the ordinals (1 = first transport handed to
  `connect`) of the transports on which a future suspended inside one of the three operation-local
  `write_all`s (CONNECT, QoS 0 PUBLISH, DISCONNECT) was dropped — the only way a packet can be left
  half-written on a wire that is still in use (connect and QoS 0 publish are not cancel-safe; a
  cancelled `disconnect` is finding F2b). Set by `cancelFut` only. -/
  tornNets : List Nat := []
  /-- Ghost (not in the code, never printed): the transmission log — every queue entry
  (acknowledgement / PINGREQ, PUBREL, retained packet) whose packet has been handed to a transport
  completely, oldest first, with the transport it went to. Appended to by `setWritten` only, at the
  moment `set_written` moves the entry to `Flush`. -/
  log : List LogEntry := []
  deriving Inhabited

namespace World

def emit (w : World) (line : String) : World := { w with out := line :: w.out }

def netIdx (w : World) : Nat := w.nets.length - 1

def curNet (w : World) : Net := w.nets.getLast?.getD {}

def setCurNet (w : World) (n : Net) : World :=
  { w with nets := w.nets.dropLast ++ [n] }

def live (w : World) : Bool :=
  match w.conn with
  | some c => c.live
  | none => false

/-- `Connection::handle_disconnect`. -/
def handleDisconnect (w : World) : World :=
  { w with conn := w.conn.map (fun c => { c with live := false }), sess := w.sess.handleDisconnect }

def errName : Err → String
  | .notReady => "NotReady"
  | .disconnected => "Disconnected"
  | .invalidRequest => "InvalidRequest"
  | .writeZero => "WriteZero"
  | .peerInvalid => "Peer.InvalidPacket"
  | .peerRejected rc => "Peer.Rejected." ++ hex2 rc
  | .bufferTooSmall => "Resource.BufferTooSmall"
  | .packetTooLarge => "Resource.PacketTooLarge"
  | .inflightExhausted => "Resource.InflightExhausted"
  | .transport k =>
    "Transport." ++ (if k = 252 then "ConnectionReset" else if k = 253 then "BrokenPipe"
      else if k = 254 then "TimedOut" else "Other")
  | .payload => "Payload"
  | .noConnection => "NoConnection"

def kindName (k : Nat) : String :=
  if k = 252 then "ConnectionReset" else if k = 253 then "BrokenPipe"
  else if k = 254 then "TimedOut" else "Other"

/-! ### The three I/O calls, driven by the decision slot -/

inductive WriteRes where
  | pending | ok (n : Nat) | zero | err (k : Nat)
  deriving Repr

def ioWrite (w : World) (bytes : Bytes) : World × WriteRes :=
  match w.slot with
  | none => ({ (w.emit s!"wp {w.netIdx}") with lastIoStarved := false }, .pending)
  | some n =>
    let w := { w with slot := none, lastIoStarved := false }
    if n ≤ 250 then
      let k := if n = 250 then bytes.length else min n bytes.length
      let acc := bytes.take k
      let net := w.curNet
      let w := w.setCurNet { net with wire := net.wire ++ acc }
      (w.emit s!"w {w.netIdx} {hex acc}", .ok k)
    else if n = 251 then (w.emit s!"wz {w.netIdx}", .zero)
    else (w.emit s!"we {w.netIdx} {kindName n}", .err n)

inductive FlushRes where
  | pending | ok | err (k : Nat)
  deriving Repr

def ioFlush (w : World) : World × FlushRes :=
  match w.slot with
  | none => ({ (w.emit s!"fp {w.netIdx}") with lastIoStarved := false }, .pending)
  | some n =>
    let w := { w with slot := none, lastIoStarved := false }
    if n ≤ 251 then (w.emit s!"f {w.netIdx} ok @{w.now}", .ok)
    else (w.emit s!"fe {w.netIdx} {kindName n}", .err n)

inductive ReadRes where
  | pending | ok (bytes : Bytes) | eof | err (k : Nat)
  deriving Repr

def ioRead (w : World) (window : Nat) : World × ReadRes :=
  match w.slot with
  | none => ({ (w.emit s!"rp {w.netIdx}") with lastIoStarved := false }, .pending)
  | some n =>
    let w := { w with slot := none }
    if n ≤ 250 then
      let net := w.curNet
      let c := if n = 250 then min window net.rx.length else min n (min window net.rx.length)
      if c = 0 then ({ (w.emit s!"rs {w.netIdx}") with lastIoStarved := true }, .pending)
      else
        let got := net.rx.take c
        let w := w.setCurNet { net with rx := net.rx.drop c }
        ({ (w.emit s!"r {w.netIdx} {c}") with lastIoStarved := false }, .ok got)
    else if n = 251 then ({ (w.emit s!"rz {w.netIdx}") with lastIoStarved := false }, .eof)
    else ({ (w.emit s!"re {w.netIdx} {kindName n}") with lastIoStarved := false }, .err n)

end World
end Minimq
