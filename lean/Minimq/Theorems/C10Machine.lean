import Minimq.Proofs.KeepaliveMachine
import Minimq.Theorems.C10
/-
C10, machine level — the timed behaviour of keep-alive with the whole `World`: virtual time
(`Directive.tick us` advances the clock and polls the suspended operation without an I/O decision —
this is how a timer wakes the application's `poll()`/`recv()`), I/O decisions (`Directive.d k`), the
transports' wires and the transmission log.

Setting: `IdleWait W outer` — a live connection whose application waits in `poll()` (`outer = .poll`)
or `recv()` (`.recv`) after a full service pass: suspended in `wait_for_progress` with deadline
`next_deadline()`, nothing to send, the reader as `receive_buffer` left it, no decision left over.
That is what every suspension of the machine in `wait_for_progress` looks like
(`C16_service_leaves_fresh_deadline`); `C10M_example_*` run a program into such a state.

Times are µs; `t` is always the time of the tick that wakes the operation: it is the `now` handed to
`service(now)` and hence to `complete_flush` (finding F23: the ping timeout is measured from there).

Limits of what is proved here, stated where they apply:
* the PINGREQ write decision is taken with `k ≥ 2` (both bytes at once); the fragmentation `1 + 1` goes
  through a second service pass and is not covered;
* the control queue is assumed empty in `IdleWait` (an acknowledgement still queued means there is
  something to send, so the operation would not be waiting);
* cadence (4) is proved here for one round and for the re-establishment of the round's precondition;
  the induction over schedules of any length is `Theorems/C10Rounds.lean`.
-/
namespace Minimq
open Gen World Outbound

/-- **(1) A PINGREQ is sent when it is due.** No ping timeout running, PINGREQ time `p`, empty control
queue, the 2-byte PINGREQ within the broker's Maximum Packet Size. A tick to `t ≥ p` queues the PINGREQ
and leaves the operation suspended at its write: nothing is on the wire yet, nothing logged. A write
decision `d k1` (`2 ≤ k1 ≤ 250`) puts exactly `C0 00` behind what the wire held and logs the packet
(tag: control, PINGREQ; transport: the current one); the operation is suspended at the flush. The
flush decision `d k2` completes the PINGREQ: `pingTimeout = t + 5 s`, `nextPing = t + interval`, the
session's data (queues, arena, identifiers) exactly as before the tick; nothing more is written;
`poll()` returns `Ok(None)`, `recv()` waits again with the ping timeout as its deadline. -/
theorem C10M_pingreq_sent_when_due (W : World) (outer : Outer) (hI : IdleWait W outer)
    (hctl : W.sess.data.outbound.control = []) (hpt : W.sess.rt.pingTimeout = none) (p : Nat)
    (hnp : W.sess.rt.nextPing = some p) (hsz : W.sess.rt.packetTooLarge 2 = false)
    (us : Nat) (hb : W.now + us ≤ 4611686018427387904) (hdue : p ≤ W.now + us)
    (k1 k2 : Nat) (hk1 : 2 ≤ k1 ∧ k1 ≤ 250) (hk2 : k2 ≤ 250) :
    let t := W.now + us
    let A := W.execDirective (.tick us)
    let B := A.execDirective (.d k1)
    let C := B.execDirective (.d k2)
    (A.fut = some (.stepWrite (.drive false outer) (.control ControlAction.pingReq) pingBytes 0 2 t) ∧
      A.sess = W.sess.withPing ∧ A.nets = W.nets ∧ A.now = t ∧ A.log = W.log) ∧
    (B.fut = some (.stepFlush (.drive false outer) (.control ControlAction.pingReq) t) ∧
      B.nets = W.nets.dropLast ++ [{ W.curNet with wire := W.curNet.wire ++ pingBytes }] ∧
      B.log = W.log ++ [{ net := W.nets.length, tag := .control ControlAction.pingReq, bytes := pingBytes }]) ∧
    (C.nets = B.nets ∧ C.log = B.log ∧ C.now = t ∧ C.live = true ∧
      C.sess.rt.pingTimeout = some (t + ROUND_TRIP_TIMEOUT_MS * 1000) ∧
      C.sess.rt.nextPing = W.sess.rt.keepaliveSendInterval.map (fun i => t + i * 1000) ∧
      C.sess.data = W.sess.data ∧ C.sess.reader = W.sess.reader ∧
      (outer = .poll → C.fut = none ∧ (match C.lastRes with | some (.ok ()) => True | _ => False)) ∧
      (outer = .recv → C.fut = some (.waitRead .recv (some (t + ROUND_TRIP_TIMEOUT_MS * 1000)) true))) :=
  pingreq_cycle W outer hI hctl hpt p hnp hsz us hb hdue k1 k2 hk1 hk2

/-- The PINGREQ bytes are `C0 00`, what the reference parser reads as PINGREQ. -/
theorem C10M_pingreq_bytes : pingBytes = [b 0xC0, b 0] ∧ Spec.parseClientPacket pingBytes = some (.pingreq, []) := by
  decide

/-- **(1, not yet due.)** A tick that stays before the deadline of the wait (the PINGREQ time, or the
ping timeout while one is running): nothing is queued, nothing is written or logged, no result; the
operation is suspended in the same read, only the clock has moved. -/
theorem C10M_before_deadline_nothing_happens (W : World) (outer : Outer) (hI : IdleWait W outer) (d : Nat)
    (hdl : W.sess.rt.nextDeadline = some d) (us : Nat) (hb : W.now + us ≤ 4611686018427387904) (hlt : W.now + us < d) :
    let R := W.execDirective (.tick us)
    R.fut = some (.waitRead outer (some d) true) ∧ R.sess = W.sess ∧ R.nets = W.nets ∧ R.conn = W.conn ∧
    R.now = W.now + us ∧ R.slot = none ∧ R.lastRes = W.lastRes ∧ R.log = W.log :=
  tick_waits_fields W outer (some d) true us (by rw [hI.fut, hdl]) hI.slot hI.waiting hb hlt

/-- **(2) Keep-alive 0 sends no pings, at machine level.** In every reachable state keep-alive 0 means
there is no PINGREQ timer (`closed_KaInv`, first clause). A waiting operation without PINGREQ timer and
without ping timeout has no deadline: whatever the tick, nothing is queued, written or logged, the
operation stays suspended in the same read, and the state is `IdleWait` again — so this holds for every
sequence of ticks. -/
theorem C10M_zero_keepalive_no_pings :
    (∀ (cfg : Cfg) (ds : List Directive),
      let s := (ds.foldl World.execDirective { sess := Session.new cfg }).sess
      s.rt.keepaliveMs = 0 → s.rt.nextPing = none) ∧
    (∀ (W : World) (outer : Outer), IdleWait W outer → W.sess.rt.nextPing = none → W.sess.rt.pingTimeout = none →
      ∀ us, W.now + us ≤ 4611686018427387904 →
        let R := W.execDirective (.tick us)
        R.fut = some (.waitRead outer none true) ∧ R.sess = W.sess ∧ R.nets = W.nets ∧ R.conn = W.conn ∧
        R.now = W.now + us ∧ R.slot = none ∧ R.lastRes = W.lastRes ∧ R.log = W.log ∧ IdleWait R outer) :=
  ⟨fun cfg ds => (C10_zero_keepalive_no_pings cfg ds 0 · |>.1),
   fun W outer hI hnp hpt us hb => tick_no_keepalive W outer hI hnp hpt us hb⟩

/-- **(3) Dead peer.** A ping timeout `t` is running. A tick to `t` or later while the application
waits ends the wait with `Disconnected`: the handle is dead, the session disconnected, nothing is
written. (A tick to before `t`: `C10M_before_deadline_nothing_happens`, the deadline of the wait being
`t`.) -/
theorem C10M_dead_peer (W : World) (outer : Outer) (hI : IdleWait W outer) (t : Nat)
    (hpt : W.sess.rt.pingTimeout = some t) (us : Nat) (hb : W.now + us ≤ 4611686018427387904) (hd : t ≤ W.now + us) :
    let R := W.execDirective (.tick us)
    R.fut = none ∧ R.lastRes = some (.error .disconnected) ∧ R.live = false ∧ R.sess = W.sess.handleDisconnect ∧
    R.nets = W.nets ∧ R.log = W.log ∧ W.sess.rt.nextDeadline = some t :=
  let h := tick_timeout W outer hI t hpt us hb hd
  ⟨h.1, h.2.1, h.2.2.1, h.2.2.2.1, h.2.2.2.2.1, h.2.2.2.2.2, NoSpin.nextDeadline_of_timeout _ _ hpt⟩

/-- **(3) A PINGRESP in time never leads to a disconnect.** With the timeout `t` running and the clock
before `t`, the PINGRESP (`D0 00`) arrives and is delivered under any read decisions. The timeout is
cleared, nothing else of the session changes, nothing is written, the handle stays live; `poll()`
returns `Ok(None)`; `recv()` is `IdleWait` again with no ping timeout — so from then on a tick either
changes nothing (`C10M_before_deadline_nothing_happens`) or sends the next PINGREQ
(`C10M_pingreq_sent_when_due`); the dead-peer branch needs a running timeout (`C10_timeout_only_when_expired`). -/
theorem C10M_pingresp_in_time (W : World) (outer : Outer) (hI : IdleWait W outer) (t : Nat)
    (hpt : W.sess.rt.pingTimeout = some t) (hnow : W.now < t)
    (hrd : W.sess.reader.data = [] ∧ W.sess.reader.packetLength = none ∧ 2 ≤ W.sess.reader.cap)
    (hrx : W.curNet.rx = [])
    (hnp : ∀ np, W.sess.rt.nextPing = some np → W.now < np)
    (ks : List Nat) (hks : ∀ k ∈ ks, 1 ≤ k ∧ k ≤ 250) (hlen : 2 ≤ ks.length) :
    let R := readPacket ks (W.execDirective (.rx pingRespBytes))
    R.sess.rt.pingTimeout = none ∧ R.sess.rt.nextPing = W.sess.rt.nextPing ∧ R.sess.rt.keepaliveMs = W.sess.rt.keepaliveMs ∧
    R.sess.data = W.sess.data ∧ R.live = true ∧ R.now = W.now ∧ R.nets.dropLast = W.nets.dropLast ∧
    R.curNet.wire = W.curNet.wire ∧ R.curNet.rx = [] ∧ R.log = W.log ∧
    (outer = .poll → R.fut = none ∧ (match R.lastRes with | some (.ok ()) => True | _ => False)) ∧
    (outer = .recv → IdleWait R .recv) :=
  pingresp_in_time W outer hI t hpt hnow hrd hrx hnp ks hks hlen

/-- `D0 00` is the PINGRESP of the server-side reference, and `readPacket` feeds a prefix of the
decisions (up to the one that completes the packet). -/
theorem C10M_pingresp_bytes : Spec.encodeServer .pingResp = pingRespBytes ∧ pingRespBytes = [b 0xD0, b 0] :=
  ⟨pingRespBytes_spec.1, rfl⟩

/-- **(4) Cadence, one round.** Hypotheses, all explicit: the previous client packet was completed at
`t0` (that is: the PINGREQ timer is armed from `t0`); the keep-alive is at least twice the round-trip
bound (the F12 boundary); the tick that wakes the application lands between the PINGREQ time and the
end of the keep-alive period counted from `t0` (the executor is no later than
`min(ROUND_TRIP, keep-alive/2)` — here 5 s — in honouring the deadline); the transport accepts the write
and the flush promptly (both decisions at the same virtual time, the whole packet at once). Then the
PINGREQ is completed at `t` with `t − t0 ≤ keep-alive`; the timer is re-armed from `t`; and the ping
timeout `t + 5 s` is not later than the next PINGREQ time — so by the time the next PINGREQ is due,
either a PINGRESP has cleared the timeout (and the next round starts: `C10M_pingresp_in_time` gives
back `IdleWait` with the timer armed from `t`) or the dead-peer branch has fired (`C10M_dead_peer`):
there is no window in which the client is silent past its keep-alive. -/
theorem C10M_cadence_round (W : World) (outer : Outer) (hI : IdleWait W outer)
    (hctl : W.sess.data.outbound.control = []) (hpt : W.sess.rt.pingTimeout = none)
    (hsz : W.sess.rt.packetTooLarge 2 = false) (t0 : Nat)
    (harmed : W.sess.rt.nextPing = W.sess.rt.keepaliveSendInterval.map (fun i => t0 + i * 1000))
    (hka : 2 * ROUND_TRIP_TIMEOUT_MS ≤ W.sess.rt.keepaliveMs)
    (us : Nat) (hb : W.now + us ≤ 4611686018427387904)
    (hdue : t0 + (W.sess.rt.keepaliveMs - ROUND_TRIP_TIMEOUT_MS) * 1000 ≤ W.now + us)
    (hprompt : W.now + us ≤ t0 + W.sess.rt.keepaliveMs * 1000) :
    let t := W.now + us
    let C := ((W.execDirective (.tick us)).execDirective (.d 250)).execDirective (.d 250)
    C.now = t ∧ t ≤ t0 + W.sess.rt.keepaliveMs * 1000 ∧
    C.curNet.wire = W.curNet.wire ++ pingBytes ∧
    C.sess.rt.nextPing = some (t + (W.sess.rt.keepaliveMs - ROUND_TRIP_TIMEOUT_MS) * 1000) ∧
    C.sess.rt.pingTimeout = some (t + ROUND_TRIP_TIMEOUT_MS * 1000) ∧
    t + ROUND_TRIP_TIMEOUT_MS * 1000 ≤ t + (W.sess.rt.keepaliveMs - ROUND_TRIP_TIMEOUT_MS) * 1000 ∧
    C.sess.data = W.sess.data ∧ C.live = true := by
  intro t C
  have hka0 : W.sess.rt.keepaliveMs ≠ 0 := by rw [RT_val] at hka; omega
  have hint : W.sess.rt.keepaliveSendInterval = some (W.sess.rt.keepaliveMs - ROUND_TRIP_TIMEOUT_MS) := by
    rw [keepaliveSendInterval_of_pos _ hka0]
    have hmin : min ROUND_TRIP_TIMEOUT_MS (W.sess.rt.keepaliveMs / 2) = ROUND_TRIP_TIMEOUT_MS :=
      Nat.min_eq_left (by rw [RT_val] at hka ⊢; omega)
    rw [hmin]
  have hnp : W.sess.rt.nextPing = some (t0 + (W.sess.rt.keepaliveMs - ROUND_TRIP_TIMEOUT_MS) * 1000) := by
    rw [harmed, hint]; rfl
  obtain ⟨_, ⟨_, b2, _⟩, c1, _, c3, c4, c5, c6, c7, _⟩ :=
    pingreq_cycle W outer hI hctl hpt _ hnp hsz us hb hdue 250 250 ⟨by omega, by omega⟩ (by omega)
  refine ⟨c3, hprompt, ?_, ?_, c5, ?_, c7, c4⟩
  · show C.curNet.wire = _
    have : C.curNet = { W.curNet with wire := W.curNet.wire ++ pingBytes } := curNet_of_nets (c1.trans b2)
    rw [this]
  · rw [c6, hint]; rfl
  · rw [RT_val] at hka ⊢; omega

/-- The F12 boundary is sharp: below twice the round-trip bound the next PINGREQ time falls before the
ping timeout (e.g. keep-alive 9 s: interval 4.5 s < 5 s; at 9.999 s the two coincide), and nothing is queued while the timeout runs
(`C10_no_pingreq_while_waiting`): finding F12. -/
theorem C10M_boundary_sharp (r : Runtime) (hka : r.keepaliveMs ≠ 0) (hlt : r.keepaliveMs + 1 < 2 * ROUND_TRIP_TIMEOUT_MS) (t : Nat) :
    ∃ i, r.keepaliveSendInterval = some i ∧ t + i * 1000 < t + ROUND_TRIP_TIMEOUT_MS * 1000 := by
  refine ⟨_, keepaliveSendInterval_of_pos r hka, ?_⟩
  have hmin : min ROUND_TRIP_TIMEOUT_MS (r.keepaliveMs / 2) = r.keepaliveMs / 2 :=
    Nat.min_eq_right (by rw [RT_val] at hlt ⊢; omega)
  rw [hmin]
  rw [RT_val] at hlt ⊢
  omega

/-! ### The statements above, run as a program -/

/-- Keep-alive 10 s (PINGREQ interval 5 s). -/
def C10M_cfg : Cfg :=
  { rx := 64, tx := 64, keepaliveS := 10, expiry := 0, downgrade := false, clientId := [b 0x63], auth := none, will := none }

/-- connect, CONNACK, then `recv()`: the application waits. -/
def C10M_pre : List Directive := [.connect, .go, .rx [b 0x20, b 3, b 0, b 0, b 0], .go, .recv]

def C10M_run (ds : List Directive) : World := (C10M_pre ++ ds).foldl World.execDirective { sess := Session.new C10M_cfg }

/-- What the examples look at: time, PINGREQ time, ping timeout, liveness, what the wire holds behind
the 29-byte CONNECT, length of the control queue, whether the operation is still suspended. -/
def C10M_view (w : World) : Nat × Option Nat × Option Nat × Bool × Bytes × Nat × Bool :=
  (w.now, w.sess.rt.nextPing, w.sess.rt.pingTimeout, w.live, w.curNet.wire.drop 29, w.sess.data.outbound.control.length, w.fut.isSome)

set_option maxRecDepth 16384 in
/-- (1) not due at 4.999999 s; due at 5 s: queued, nothing written; after write and flush: `C0 00` on
the wire, timeout at 10 s, next PINGREQ at 10 s. -/
theorem C10M_example_pingreq :
    (C10M_view (C10M_run []) == (0, some 5000000, none, true, [], 0, true)) = true ∧
    (C10M_view (C10M_run [.tick 4999999]) == (4999999, some 5000000, none, true, [], 0, true)) = true ∧
    (C10M_view (C10M_run [.tick 5000000]) == (5000000, some 5000000, none, true, [], 1, true)) = true ∧
    (C10M_view (C10M_run [.tick 5000000, .d 250, .d 250]) == (5000000, some 10000000, some 10000000, true, [b 0xC0, b 0], 0, true)) = true := by
  decide +kernel

set_option maxRecDepth 16384 in
/-- (3) no PINGRESP: one µs before the timeout nothing happens, at the timeout the wait ends with
`Disconnected`; with a PINGRESP at 6 s the timeout is cleared, 9.999999 s is quiet, and at 10 s the next
PINGREQ is queued instead of a disconnect. -/
theorem C10M_example_dead_peer :
    let sent : List Directive := [.tick 5000000, .d 250, .d 250]
    (C10M_view (C10M_run (sent ++ [.tick 4999999])) == (9999999, some 10000000, some 10000000, true, [b 0xC0, b 0], 0, true)) = true ∧
    (C10M_view (C10M_run (sent ++ [.tick 5000000])) == (10000000, none, none, false, [b 0xC0, b 0], 0, false)) = true ∧
    (match (C10M_run (sent ++ [.tick 5000000])).lastRes with | some (.error .disconnected) => true | _ => false) = true ∧
    (C10M_view (C10M_run (sent ++ [.tick 1000000, .rx [b 0xD0, b 0], .d 1, .d 1])) == (6000000, some 10000000, none, true, [b 0xC0, b 0], 0, true)) = true ∧
    (C10M_view (C10M_run (sent ++ [.tick 1000000, .rx [b 0xD0, b 0], .d 1, .d 1, .tick 3999999])) == (9999999, some 10000000, none, true, [b 0xC0, b 0], 0, true)) = true ∧
    (C10M_view (C10M_run (sent ++ [.tick 1000000, .rx [b 0xD0, b 0], .d 1, .d 1, .tick 4000000])) == (10000000, some 10000000, none, true, [b 0xC0, b 0], 1, true)) = true := by
  decide +kernel

end Minimq
