import Minimq.Proofs.WireHist
/-
C02 / C03 / C05, whole machine — which retained packets are on the wire of the current connection.

The local theorems (`Theorems/C02.lean`, `C03.lean`, `C05.lean`) describe single steps: an
acknowledgement removes exactly its packet, `arm_replay` re-arms everything and sets DUP, the scheduler
hands out replays before new packets. This file ties them to what the transport has actually accepted,
for every program.

The transmission log. `World.log` is a ghost field (never printed; the driver's traces are unchanged):
`set_written` appends an entry at the moment it moves a queue entry to `Flush`, i.e. exactly when the
transport has accepted the last byte of that entry's packet (`World.setWritten`, `World.doneFrame`). An
entry records the ordinal of the transport, the queue entry — for a retained packet its ghost serial
number (`RetainedPacket.ser`, assigned once when the packet is accepted into the arena and never
reused) and its packet identifier — and the bytes of the packet. Nothing else writes the log and
nothing removes from it (`C02_log_is_append_only`). `w.curLog` is the part for the current transport.
Serial numbers, not bytes, identify "the same packet": after an acknowledgement an identifier can be
reused (65535 publishes later, or with the harness hook `setpid`), and then equal bytes do not mean the
same request.

What is proved, on a live connection whose transport is not marked torn (`tornNets`, see C01Wire):
 * the logged packets are on the wire, behind the CONNECT, in the order of the log
   (`C02_logged_packets_are_on_the_wire`);
 * the serials of the retained packets in the log strictly increase: within one connection no retained
   packet is handed to the transport twice, and they go out in the order in which they were accepted —
   the replays of a resumed session (older serials) before any packet accepted later;
 * a retained entry marked `Flush` or `Sent` is in the log of this transport with exactly the bytes the
   arena holds for it now; an entry that is not completely written is not in the log, and everything in
   the log is older than it (`C02_retained_queue_agrees_with_log`);
 * the first point for every transport that is not marked torn, current or not, live or dead
   (`C02_at_most_once_on_every_connection`).
Together: each unacknowledged packet of a resumed session is retransmitted at most once per connection,
and — as soon as its entry says `Sent` — exactly once.

For every program, with no condition on liveness or torn marks (`Proofs/WireHist.lean`):
 * two log entries with the same serial — transmissions of the same retained packet, on the same or on
   different transports — carry the same identifier and the same bytes up to the DUP bit
   (`C02_retransmissions_differ_only_in_DUP`), and an entry whose packet is still retained carries, up to
   the DUP bit, the bytes the arena holds now (`C02_log_entry_matches_arena`).

The same for PUBREL entries (ghost serial `PendingRelease.rser`): `Theorems/C03Wire.lean`.
-/
namespace Minimq
open Gen World Outbound

/-- **The log is append-only**: whatever directive runs, from any world, the transmission log after it
extends the log before it. (It is extended only by `set_written` completing a queue entry.) -/
theorem C02_log_is_append_only (w : World) (d : Directive) : w.log <+: (w.execDirective d).log :=
  exec_log_prefix w d

/-- What `set_written` records, by definition: nothing while the packet is incomplete, and the entry
for `pkt` on the current transport once `written ≥ len`. -/
theorem C02_log_written_by_setWritten (w : World) (pkt : Flushed) (written len : Nat) :
    (w.setWritten pkt written len).log = if written ≥ len then w.log ++ [w.doneFrame pkt] else w.log := rfl

/-- **The logged packets are on the wire.** After any program, on a live connection whose transport is
not marked torn, the wire of the current transport is `frames.flatten ++ part` with all frames whole
framed packets, and the packets recorded in the log of this transport occur among the frames behind the
first one (the CONNECT), in the order of the log. -/
theorem C02_logged_packets_are_on_the_wire (cfg : Cfg) (ds : List Directive) :
    let w := ds.foldl World.execDirective { sess := Session.new cfg }
    w.nets.length ∉ w.tornNets → w.live = true →
    ∃ (frames : List Bytes) (part : Bytes), w.curNet.wire = frames.flatten ++ part ∧ (∀ f ∈ frames, Framed f) ∧
      (w.curLog.map (·.bytes)).Sublist (frames.drop 1) := by
  intro w hnt hl
  exact ((run_WInv ds { sess := Session.new cfg } (WInv_init cfg)).curLog hnt hl).1

/-- **The retained queue agrees with the log of the current transport.** After any program, on a live
connection whose transport is not marked torn, with `L` the log of the current transport:

 1. the serials of the retained packets in `L` strictly increase — no retained packet twice on this
    connection, and in the order of acceptance (replays first);
 2. every serial in `L` is below the counter: a packet accepted from now on is newer than all of them;
 3. a retained entry in state `Flush` or `Sent` is in `L`, tagged with its serial and identifier, with
    exactly the bytes that are in the arena now;
 4. a retained entry still waiting or partially written is not in `L`, and every retained packet in `L`
    is older than it;
 5. the retained queue is in serial order, and in front of an entry that has been started (any state
    but "waiting for the first byte") every entry is `Sent`. -/
theorem C02_retained_queue_agrees_with_log (cfg : Cfg) (ds : List Directive) :
    let w := ds.foldl World.execDirective { sess := Session.new cfg }
    let o := w.sess.data.outbound
    w.nets.length ∉ w.tornNets → w.live = true →
    (sers w.curLog).Pairwise (· < ·) ∧
    (∀ s ∈ sers w.curLog, s < o.nextSer) ∧
    (∀ e ∈ o.retained, (e.state = .sent ∨ e.state = .flush) →
        (⟨w.nets.length, .retained e.ser e.id, slice o.buf e.offset e.len⟩ : LogEntry) ∈ w.curLog) ∧
    (∀ e ∈ o.retained, ∀ n, e.state = .write n → ∀ s ∈ sers w.curLog, s < e.ser) ∧
    (o.retained.map (·.ser)).Pairwise (· < ·) ∧
    o.retained.Pairwise (fun a c => c.state ≠ .write 0 → a.state = .sent) := by
  intro w o hnt hl
  have hinv := run_WInv ds { sess := Session.new cfg } (WInv_init cfg)
  have hlog := (hinv.curLog hnt hl).2
  exact ⟨hlog.p.sorted, hlog.p.below, fun e he hst => hlog.p.written_entry he hst,
    fun e he n hst => hlog.p.unwritten_entry he hst, hinv.sp.ser.inc, hlog.p.ord_entry⟩

/-- **Order on the wire.** Of two retained entries that are both written (`Flush` or `Sent`), the one
accepted first (smaller serial — in particular a replayed packet against one accepted after the
reconnect) was handed to the transport first: their log entries occur in that order in the log of the
current transport, hence (`C02_logged_packets_are_on_the_wire`) on the wire. -/
theorem C02_older_packet_goes_first (cfg : Cfg) (ds : List Directive) :
    let w := ds.foldl World.execDirective { sess := Session.new cfg }
    let o := w.sess.data.outbound
    w.nets.length ∉ w.tornNets → w.live = true →
    ∀ e1 ∈ o.retained, ∀ e2 ∈ o.retained, (e1.state = .sent ∨ e1.state = .flush) → (e2.state = .sent ∨ e2.state = .flush) →
      e1.ser < e2.ser →
      [(⟨w.nets.length, .retained e1.ser e1.id, slice o.buf e1.offset e1.len⟩ : LogEntry),
       ⟨w.nets.length, .retained e2.ser e2.id, slice o.buf e2.offset e2.len⟩].Sublist w.curLog := by
  intro w o hnt hl e1 h1 e2 h2 hs1 hs2 hlt
  have hlog := ((run_WInv ds { sess := Session.new cfg } (WInv_init cfg)).curLog hnt hl).2
  exact sublist_pair_of_sorted hlog.p.sorted (hlog.p.written_entry h1 hs1) (hlog.p.written_entry h2 hs2) rfl rfl hlt

/-- **An unfinished entry has not been on this wire.** While a retained entry is waiting for its first
byte or partially written, no entry of the log of the current transport carries its serial. (The bytes
of a partially written one are the `part` of `C01_wire_is_whole_packets`.) -/
theorem C02_unfinished_entry_not_in_log (cfg : Cfg) (ds : List Directive) :
    let w := ds.foldl World.execDirective { sess := Session.new cfg }
    w.nets.length ∉ w.tornNets → w.live = true →
    ∀ e ∈ w.sess.data.outbound.retained, ∀ n, e.state = .write n → e.ser ∉ sers w.curLog := by
  intro w hnt hl e he n hst hm
  have hlog := ((run_WInv ds { sess := Session.new cfg } (WInv_init cfg)).curLog hnt hl).2
  exact Nat.lt_irrefl _ (hlog.p.unwritten_entry he hst _ hm)

/-- **At most once on every connection, in order.** After any program, for every transport `k`
(ordinal, 1 = first) that is not marked torn — the current one in whatever state, or an earlier one —
the serials of the retained packets in its part of the transmission log strictly increase: no retained
packet was handed to that transport twice, and they went out in the order in which they were accepted
(so on a resumed connection the replays, which have the older serials, went out before anything accepted
during that connection). -/
theorem C02_at_most_once_on_every_connection (cfg : Cfg) (ds : List Directive) :
    let w := ds.foldl World.execDirective { sess := Session.new cfg }
    ∀ k, 1 ≤ k → k ≤ w.nets.length → k ∉ w.tornNets →
      (sers (w.log.filter (fun f => f.net == k))).Pairwise (· < ·) := by
  intro w k hk1 hk hnt
  exact ((run_WInv ds { sess := Session.new cfg } (WInv_init cfg)).log_sorted k hk1 hk hnt).1

/-- **Retransmissions differ from the first transmission only in the DUP bit.** After any program, any
two entries of the transmission log with the same serial — every transmission of one retained packet,
on whichever transports — carry the same packet identifier and, with bit 3 of the first byte masked
(`unDup`), the same bytes: the same length, the same bytes after the first, the same packet type and
the same low flag bits (`C02_unDup_eq`). -/
theorem C02_retransmissions_differ_only_in_DUP (cfg : Cfg) (ds : List Directive) :
    let w := ds.foldl World.execDirective { sess := Session.new cfg }
    ∀ f ∈ w.log, ∀ g ∈ w.log, ∀ t i j, f.tag = .retained t i → g.tag = .retained t j →
      i = j ∧ unDup f.bytes = unDup g.bytes := by
  intro w
  exact (hrun hclosed_Hist ds { sess := Session.new cfg } (Hist_init cfg)).same

/-- **What was transmitted is what is retained.** After any program, a log entry whose packet is still
in the retained queue (same serial) carries that entry's packet identifier and, up to the DUP bit, the
bytes the arena holds for it now — so whatever is replayed later is, up to DUP, what went out before. -/
theorem C02_log_entry_matches_arena (cfg : Cfg) (ds : List Directive) :
    let w := ds.foldl World.execDirective { sess := Session.new cfg }
    let o := w.sess.data.outbound
    ∀ f ∈ w.log, ∀ e ∈ o.retained, ∀ i, f.tag = .retained e.ser i →
      i = e.id ∧ unDup f.bytes = unDup (slice o.buf e.offset e.len) := by
  intro w o
  exact (hrun hclosed_Hist ds { sess := Session.new cfg } (Hist_init cfg)).cur

/-- `unDup a = unDup b` spelled out: the same length, the same bytes after the first, and first bytes
with the same packet type (high nibble) and the same three low flag bits; only bit 3 (DUP) may differ. -/
theorem C02_unDup_eq {a c : Bytes} (h : unDup a = unDup c) :
    a.length = c.length ∧ a.drop 1 = c.drop 1 ∧
    ∀ x y, a.head? = some x → c.head? = some y → x.toNat / 16 = y.toNat / 16 ∧ x.toNat % 8 = y.toNat % 8 :=
  unDup_eq h

/-! ### Non-vacuity -/

def C02Wire_cfg : Cfg :=
  { rx := 64, tx := 128, keepaliveS := 0, expiry := 300, downgrade := false, clientId := [0x63], auth := none, will := none }

/-- Two QoS 1 publishes on the first connection, neither acknowledged; the connection is dropped; the
session is resumed (CONNACK with session present) and `poll` replays both. -/
def C02Wire_prog : List Directive :=
  [.connect, .rx [0x20, 0x03, 0x00, 0x00, 0x00], .go,
   .publish { qos := 1, retain := false, topic := [0x74], payload := .bytes [0x70], props := .slice [] }, .go,
   .publish { qos := 1, retain := false, topic := [0x75], payload := .bytes [0x71], props := .slice [] }, .go,
   .drop, .connect, .rx [0x20, 0x03, 0x01, 0x00, 0x00], .go, .poll, .go]

/-- The hypotheses hold; the log has four entries — serials 0 and 1 on transport 1, and again 0 and 1,
with the DUP bit set (0x3a instead of 0x32), on transport 2; the second wire is the CONNECT followed by
exactly the two replays, in serial order; both entries are `Sent`. -/
example :
    let w := C02Wire_prog.foldl World.execDirective { sess := Session.new C02Wire_cfg }
    w.nets.length ∉ w.tornNets ∧ w.live = true ∧ w.nets.length = 2 ∧
    w.log = [⟨1, .retained 0 1, [0x32, 0x07, 0x00, 0x01, 0x74, 0x00, 0x01, 0x00, 0x70]⟩,
             ⟨1, .retained 1 2, [0x32, 0x07, 0x00, 0x01, 0x75, 0x00, 0x02, 0x00, 0x71]⟩,
             ⟨2, .retained 0 1, [0x3a, 0x07, 0x00, 0x01, 0x74, 0x00, 0x01, 0x00, 0x70]⟩,
             ⟨2, .retained 1 2, [0x3a, 0x07, 0x00, 0x01, 0x75, 0x00, 0x02, 0x00, 0x71]⟩] ∧
    sers w.curLog = [0, 1] ∧
    w.curNet.wire.drop 29 = ([0x3a, 0x07, 0x00, 0x01, 0x74, 0x00, 0x01, 0x00, 0x70,
                               0x3a, 0x07, 0x00, 0x01, 0x75, 0x00, 0x02, 0x00, 0x71] : Bytes) ∧
    w.sess.data.outbound.retained.map (fun e => (e.ser, e.state)) = [(0, .sent), (1, .sent)] := by
  decide +kernel

end Minimq
