import Minimq.Proofs.ReaderStream
/-
C15 — behaviour does not depend on how the transport fragments reads and writes (reader level and
write-progress bookkeeping; the whole-machine statement is out of scope here).

Read side. `readLoop sched r stream` is the loop `read_packet` / `fill_packet_reader` run on the
`PacketReader` (`doWaitRead` / `doConnRead`): `packet_available` → `take_packet`; otherwise
`receive_buffer` → `read` (the transport returns between 1 and `min window remaining` bytes, as
`sched` dictates) → `commit`. `frames cap stream` is a specification that does not mention reads at
all: it cuts the stream at the packet boundaries announced by the fixed headers and says where a
reader with a `cap`-byte buffer must fail. The loop computes `frames` for every schedule.

The loop goes on after a packet `from_buffer` refuses (the event then has `decoded = none`); the
machine stops at the first such event. As the event sequences are equal for all schedules, so are
their prefixes up to that event.

Write side. `stepWrites` / `localWrites` are the two write loops (`perform_outbound_step` with
`SendState::set_written`, and `write_all` from a local buffer) over a list of partial acceptances.
-/
namespace Minimq

/-- **The read loop computes the framing specification, whatever the fragmentation.** For every
buffer capacity, every inbound byte stream and every schedule of partial reads — single bytes,
cuts inside the fixed header, anything —, a `PacketReader` that starts fresh (`new`, or after
`reset` / `take_packet`) hands to the decoder exactly the packets `frames` cuts out of the stream,
byte for byte and in order, each with the decode result of those bytes; it stops for the same
reason (stream exhausted, or `MalformedPacket`) holding exactly the same partial data. -/
theorem C15_reader_computes_frames (sched : List Nat) (r : Reader) (stream : Bytes)
    (hd : r.data = []) (hp : r.packetLength = none) :
    readLoop sched r stream =
      some ((frames r.cap stream).packets.map eventOf, (frames r.cap stream).ending) :=
  readLoop_eq_frames sched r stream hd hp

/-- **Fragmentation independence.** Any two ways of splitting the same stream across `read()`
calls give the same packets, the same decode results, the same error (if any) at the same place,
and the same bytes left in the buffer. -/
theorem C15_fragmentation_independent (sched₁ sched₂ : List Nat) (r : Reader) (stream : Bytes)
    (hd : r.data = []) (hp : r.packetLength = none) :
    readLoop sched₁ r stream = readLoop sched₂ r stream := by
  rw [readLoop_eq_frames sched₁ r stream hd hp, readLoop_eq_frames sched₂ r stream hd hp]

/-- A new reader satisfies the hypotheses; here a stream of PINGRESP, PUBACK, a PUBLISH header with
a padded length and half a packet, in a buffer of 8 bytes: three packets, one byte left over. -/
example : (Reader.new 8).data = [] ∧ (Reader.new 8).packetLength = none := ⟨rfl, rfl⟩
example : frames 8 [0xD0, 0x00, 0x40, 0x02, 0x00, 0x01, 0x30, 0x80, 0x00, 0xD0] =
    ⟨[[0xD0, 0x00], [0x40, 0x02, 0x00, 0x01], [0x30, 0x80, 0x00]], .exhausted [0xD0]⟩ := by decide
/-- Byte-by-byte delivery and delivery in one piece, concretely. -/
example : readLoop [1, 1, 1, 1, 1, 1, 1, 1, 1, 1] (Reader.new 8)
      [0xD0, 0x00, 0x40, 0x02, 0x00, 0x01, 0x30, 0x80, 0x00, 0xD0] =
    readLoop [] (Reader.new 8) [0xD0, 0x00, 0x40, 0x02, 0x00, 0x01, 0x30, 0x80, 0x00, 0xD0] :=
  C15_fragmentation_independent _ _ _ _ rfl rfl
/-- The same stream in a 3-byte buffer: the PUBACK does not fit; the error comes as soon as its
length byte is in. -/
example : frames 3 [0xD0, 0x00, 0x40, 0x02, 0x00, 0x01, 0x30, 0x80, 0x00, 0xD0] =
    ⟨[[0xD0, 0x00]], .malformed [0x40, 0x02]⟩ := by decide
/-- Four continuation bytes: malformed when the fifth header byte is in. -/
example : frames 64 [0x30, 0x80, 0x80, 0x80, 0x80, 0x01, 0x02] =
    ⟨[], .malformed [0x30, 0x80, 0x80, 0x80, 0x80]⟩ := by decide

/-- The specification, as a recursive equation: look at the first packet (`frame1`: the fixed
header — type byte, then the remaining length in one to four bytes, canonical or not —, the buffer
capacity, the bytes available); stop, or emit it and go on behind it. -/
theorem C15_frames_spec (cap : Nat) (s : Bytes) :
    frames cap s = match frame1 cap s with
      | .stop e => ⟨[], e⟩
      | .packet pkt rest => (frames cap rest).cons pkt :=
  frames_eq cap s

/-- Nothing is lost, duplicated or reordered: the packets handed off, followed by the bytes still
held, are a prefix of the stream — all of it when reading ended because the stream did. The
position of a `MalformedPacket` error is therefore `packets.flatten.length + held.length`, the same
for every schedule. -/
theorem C15_bytes_conserved (cap : Nat) (s : Bytes) :
    match (frames cap s).ending with
    | .exhausted held => (frames cap s).packets.flatten ++ held = s
    | .malformed held => ∃ unread, (frames cap s).packets.flatten ++ held ++ unread = s :=
  frames_conserve cap s

/-- Every packet handed to the decoder begins with a complete fixed header whose remaining length
accounts for exactly the bytes handed over, and fits the receive buffer. -/
theorem C15_packets_well_framed (cap : Nat) (s : Bytes) : ∀ pkt ∈ (frames cap s).packets,
    (∃ hl, fixedHeader pkt = .complete hl pkt.length) ∧ pkt.length ≤ cap :=
  frames_packets cap s

/-- **Safety of every reachable reader state** (`RdReach`: the loop as a relation, every choice of
every read allowed). The buffer never holds more than its capacity; a window offered by
`receive_buffer` stays inside the buffer, is empty only when a complete packet is held (so
`read()` is never called with an empty buffer while a packet is still incomplete), and — whenever
the stream from the current packet on has a complete fixed header announcing `t` bytes — never
reaches past byte `t`: no byte of the next packet is ever consumed early. -/
theorem C15_reader_safe {r0 : Reader} {stream : Bytes} (hd : r0.data = [])
    (hp : r0.packetLength = none) {r : Reader} {unread : Bytes} (h : RdReach r0 stream r unread) :
    r.data.length ≤ r.cap ∧
    ∀ r1 n, r.receiveWindow = some (r1, n) →
      r.data.length + n ≤ r.cap ∧
      (n = 0 → r1.packetAvailable = true) ∧
      (r.packetAvailable = false → ∀ hl t, fixedHeader (r.data ++ unread) = .complete hl t →
        r.data.length + n ≤ t) :=
  reach_safe hd hp h

/-- For any reader whatsoever: an empty window means a complete packet. -/
theorem C15_empty_window_means_packet (r r1 : Reader) (h : r.receiveWindow = some (r1, 0)) :
    r1.packetAvailable = true :=
  receiveWindow_zero r r1 h

/-- `RdReach` is not empty beyond its start: one byte read into a new reader. -/
example : RdReach (Reader.new 8) [0xD0, 0x00] ((Reader.new 8).commit [0xD0]) [0x00] :=
  RdReach.read (r1 := Reader.new 8) (n := 1) (k := 1) RdReach.init rfl rfl (by decide) (by decide)
    (by decide)

/-- **Partial writes of a queued packet** — the arithmetic of the write loop (`SendState::set_written`,
`SendState.afterWrite`), stated about the list function `stepWrites` that iterates it; no theorem ties
`stepWrites` to `doStepWrite` run by run (the machine-level statements about writes are C01Wire and
C02Wire: what is on the wire is the retained bytes, whole, whatever the acceptances), and an acceptance
of 0 bytes (`WriteZero`) is outside it. For
a packet of `len` bytes of which `written < len` have gone out, and any sequence of partial
acceptances by the transport (each at least one byte, at most what was offered — the offer is
always `bytes[written..]`): the chunks accepted so far, concatenated, are exactly the next `total`
bytes of the packet — nothing skipped, nothing sent twice —; the total never exceeds the packet;
the recorded state is `Write(written + total)` while bytes remain and `Flush` exactly when the
last byte has been accepted; no chunk is empty. -/
theorem C15_partial_writes (bytes : Bytes) (len : Nat) (hlen : bytes.length = len)
    (ks : List Nat) (written : Nat) (hw : written < len) :
    let res := stepWrites bytes len (.write written) ks
    let total := res.1.flatten.length
    res.1.flatten = (bytes.drop written).take total ∧ written + total ≤ len ∧
    res.2 = SendState.afterWrite (written + total) len ∧
    (res.2 = .flush ↔ written + total = len) ∧
    (∀ c ∈ res.1, c ≠ []) := by
  intro res total
  obtain ⟨h1, h2, h3, h4⟩ := stepWrites_spec bytes len hlen ks written hw
  refine ⟨h1, h2, h3, ?_, h4⟩
  replace h3 : res.2 = SendState.afterWrite (written + total) len := h3
  replace h2 : written + total ≤ len := h2
  rw [h3]
  unfold SendState.afterWrite
  constructor
  · intro h; split at h
    · omega
    · cases h
  · intro h; rw [if_pos (by omega)]

/-- With enough acceptances the packet is completed, and what went over the wire is then exactly
the part of the packet that was still to be sent. -/
theorem C15_partial_writes_complete (bytes : Bytes) (len : Nat) (hlen : bytes.length = len)
    (ks : List Nat) (written : Nat) (hw : written < len) (hk : len - written ≤ ks.length) :
    (stepWrites bytes len (.write written) ks).2 = .flush ∧
    (stepWrites bytes len (.write written) ks).1.flatten = bytes.drop written := by
  have hf := stepWrites_complete bytes len hlen ks written hw hk
  obtain ⟨h1, h2, h3, _⟩ := stepWrites_spec bytes len hlen ks written hw
  replace h3 : (stepWrites bytes len (.write written) ks).2 = SendState.afterWrite
      (written + (stepWrites bytes len (.write written) ks).1.flatten.length) len := h3
  replace h2 : written + (stepWrites bytes len (.write written) ks).1.flatten.length ≤ len := h2
  replace h1 : (stepWrites bytes len (.write written) ks).1.flatten = (bytes.drop written).take
      (stepWrites bytes len (.write written) ks).1.flatten.length := h1
  refine ⟨hf, ?_⟩
  rw [hf] at h3
  have : written + (stepWrites bytes len (.write written) ks).1.flatten.length = len := by
    unfold SendState.afterWrite at h3
    split at h3
    · omega
    · cases h3
  rw [h1]
  apply List.take_of_length_le
  rw [List.length_drop]; omega

example : stepWrites [1, 2, 3, 4, 5] 5 (.write 0) [2, 0, 9] = ([[1, 2], [3], [4, 5]], .flush) := by
  decide

/-- **Partial writes from an operation-local buffer** (`write_all` for CONNECT, QoS 0 PUBLISH,
DISCONNECT): the accepted chunks followed by what is still unsent are the packet; once there have
been as many acceptances as bytes, nothing is left. -/
theorem C15_partial_writes_local (ks : List Nat) (bytes : Bytes) :
    (localWrites bytes ks).1.flatten ++ (localWrites bytes ks).2 = bytes ∧
    (bytes.length ≤ ks.length → (localWrites bytes ks).2 = []) :=
  localWrites_spec ks bytes

end Minimq
