import Minimq.Proofs.Packets
import Minimq.Proofs.Table
import Minimq.Directive
/-
C09 — what the broker decodes is exactly what the application asked to send.

Every theorem quantifies over all field values and all lengths (so over all four widths of the
remaining length) and over all buffer capacities. The decoder on the right-hand side is the
independent reference `Spec.parseClientPacket` (Spec/Mqtt5.lean). Validity hypotheses are the
crate's own checks (`validFor`, regenerated from src/properties.rs); their agreement with the
specification's table is C19's theorem, used here through `legal_of_validFor`.
-/
namespace Minimq
open Gen

/-- `Property::size` is the number of bytes `impl Serialize for Property` emits (27 kinds). -/
theorem C09_property_size (p : Property) (out : Bytes) (hwf : p.wf = true) (h : p.encode = .ok out) :
    out.length = p.size :=
  Property.size_eq_encode_length p out hwf h

/-- An encoder either fails or returns header + remaining length + body: it succeeds exactly when
every field can be produced (no string or binary field above 65535 bytes), the body fits behind the
five reserved header bytes of the buffer it was given, and the body length is a legal remaining
length. Nothing truncated is ever returned. -/
theorem C09_encode_exact (cap : Nat) (cs : List (Except SerErr Bytes)) (typ flags : Nat) :
    (∃ off pkt, encodeWithOffset cap cs typ flags = .ok (off, pkt)) ↔
      (∃ body, catChunks cs = .ok body ∧ MAX_FIXED_HEADER_SIZE + body.length ≤ cap ∧
        body.length ≤ MQTT_VARINT_MAX) := by
  constructor
  · rintro ⟨off, pkt, h⟩
    obtain ⟨body, hb, hfit, hmax, _, _⟩ := encodeWithOffset_ok h
    exact ⟨body, hb, hfit, hmax⟩
  · rintro ⟨body, hb, hfit, hmax⟩
    exact ⟨_, _, encodeWithOffset_complete hb hfit hmax⟩

/-- …and when it succeeds the packet is exactly fixed header, canonical remaining length, body,
starting at the returned offset of the buffer. -/
theorem C09_encode_layout (cap off : Nat) (cs : List (Except SerErr Bytes)) (typ flags : Nat) (pkt : Bytes)
    (h : encodeWithOffset cap cs typ flags = .ok (off, pkt)) :
    ∃ body, catChunks cs = .ok body ∧
      pkt = b (typ * 16 + flags % 16) :: (encodeVarint body.length ++ body) ∧
      off + pkt.length = MAX_FIXED_HEADER_SIZE + body.length := by
  obtain ⟨body, hb, _, hmax, hpkt, hoff⟩ := encodeWithOffset_ok h
  refine ⟨body, hb, hpkt, ?_⟩
  subst hpkt hoff
  simp [encodeVarint_length]
  have : varintLen body.length ≤ 4 := by
    unfold varintLen Gen.varintLen; split <;> (try split) <;> (try split) <;> omega
  have : 1 ≤ varintLen body.length := by
    unfold varintLen Gen.varintLen; split <;> (try split) <;> (try split) <;> omega
  have : MAX_FIXED_HEADER_SIZE = 5 := rfl
  omega

/-- PUBLISH. -/
theorem C09_publish (cap off : Nat) (h : PublishHeader) (payload pkt rest : Bytes)
    (hq : h.qos ≤ 2) (hdup : h.dup = false)
    (hid : match h.packetId with
      | some i => 0 < i ∧ i < 65536 ∧ 0 < h.qos
      | none => h.qos = 0)
    (htopic : validUtf8 h.topic = true)
    (henc : h.props.isEncoded = false)
    (hwf : ∀ p ∈ h.props.items, p.wf = true)
    (hvalid : ∀ p ∈ h.props.items, p.validFor .Publish = true)
    (he : encodePublishWithOffset cap h (.bytes payload) = .ok (off, pkt)) :
    Spec.parseClientPacket (pkt ++ rest) =
      some (.publish false h.qos h.retain h.topic h.packetId (h.props.items.map Property.toSpec) payload, rest) :=
  publish_roundtrip cap off h payload pkt rest hq hdup hid htopic henc hwf
    (legal_of_validFor .Publish h.props.items hwf hvalid) he

/-- `Publication::correlate` puts the correlation data in front of the user properties, and
`properties()` after `correlate()` keeps it (the two orders of the builder calls). -/
theorem C09_correlation_kept (ps qs : List Property) (c : Bytes) :
    (((Properties.slice qs).withCorrelationData c).withProperties ps).items = corrProp c :: ps ∧
    (((Properties.slice []).withProperties ps).withCorrelationData c).items = corrProp c :: ps := by
  simp [Properties.withCorrelationData, Properties.withProperties, Properties.items]

/-- SUBSCRIBE (all 3×2×2×3 option combinations). -/
theorem C09_subscribe (cap off id : Nat) (props : List Property) (ts : List TopicFilter) (pkt rest : Bytes)
    (hid : 0 < id ∧ id < 65536) (hne : ts ≠ [])
    (hts : ∀ t ∈ ts, validUtf8 t.topic = true ∧ t.opts.wf = true)
    (hwf : ∀ p ∈ props, p.wf = true) (hvalid : ∀ p ∈ props, p.validFor .Subscribe = true)
    (he : encodeWithOffset cap (subscribeChunks id (.slice props) ts) MT_Subscribe FLAGS_Subscribe = .ok (off, pkt)) :
    Spec.parseClientPacket (pkt ++ rest) =
      some (.subscribe id (props.map Property.toSpec) (ts.map TopicFilter.toSpec), rest) :=
  subscribe_roundtrip cap off id props ts pkt rest hid hne hts hwf (legal_of_validFor .Subscribe props hwf hvalid) he

/-- UNSUBSCRIBE. -/
theorem C09_unsubscribe (cap off id : Nat) (props : List Property) (ts : List Bytes) (pkt rest : Bytes)
    (hid : 0 < id ∧ id < 65536) (hne : ts ≠ []) (hts : ∀ t ∈ ts, validUtf8 t = true)
    (hwf : ∀ p ∈ props, p.wf = true) (hvalid : ∀ p ∈ props, p.validFor .Unsubscribe = true)
    (he : encodeWithOffset cap (unsubscribeChunks id (.slice props) ts) MT_Unsubscribe FLAGS_Unsubscribe = .ok (off, pkt)) :
    Spec.parseClientPacket (pkt ++ rest) = some (.unsubscribe id (props.map Property.toSpec) ts, rest) :=
  unsubscribe_roundtrip cap off id props ts pkt rest hid hne hts hwf (legal_of_validFor .Unsubscribe props hwf hvalid) he

/-- PUBACK, PUBREC, PUBCOMP and PINGREQ as queued by the session (9-byte stack buffer). -/
theorem C09_control (a : ControlAction) (pkt rest : Bytes)
    (htyp : a.typ = MT_PubAck ∨ a.typ = MT_PubRec ∨ a.typ = MT_PubComp ∨ a.typ = MT_PingReq)
    (hid : a.typ ≠ MT_PingReq → 0 < a.id ∧ a.id < 65536) (hrc : a.rc < 256)
    (he : encodeControl a = .ok pkt) :
    Spec.parseClientPacket (pkt ++ rest) =
      some (if a.typ = MT_PingReq then .pingreq else .ack a.typ a.id a.rc [], rest) := by
  unfold encodeControl at he
  by_cases hp : a.typ = MT_PingReq
  · simp only [hp, if_true] at he ⊢
    cases h : encodeWithOffset CONTROL_PACKET_LEN [] MT_PingReq (if MT_PingReq = MT_PubAck then FLAGS_PubAck else if MT_PingReq = MT_PubRec then FLAGS_PubRec else if MT_PingReq = MT_PubComp then FLAGS_PubComp else FLAGS_PingReq) with
    | error e => rw [h] at he; simp [Except.map] at he
    | ok r =>
      rw [h] at he
      simp [Except.map] at he
      subst he
      exact pingreq_roundtrip CONTROL_PACKET_LEN r.1 r.2 rest h
  · simp only [hp, if_false] at he ⊢
    cases h : encodeWithOffset CONTROL_PACKET_LEN (ackChunks a.id a.rc) a.typ (if a.typ = MT_PubAck then FLAGS_PubAck else if a.typ = MT_PubRec then FLAGS_PubRec else if a.typ = MT_PubComp then FLAGS_PubComp else FLAGS_PingReq) with
    | error e => rw [h] at he; simp [Except.map] at he
    | ok r =>
      rw [h] at he
      simp [Except.map] at he
      subst he
      have ht : a.typ = 4 ∨ a.typ = 5 ∨ a.typ = 6 ∨ a.typ = 7 := by
        rcases htyp with h1 | h1 | h1 | h1
        · left; exact h1
        · right; left; exact h1
        · right; right; right; exact h1
        · exact absurd h1 hp
      refine ack_roundtrip CONTROL_PACKET_LEN r.1 a.typ _ a.id a.rc r.2 rest ht ?_ (hid hp) hrc h
      rcases htyp with h1 | h1 | h1 | h1 <;> simp [h1, MT_PubAck, MT_PubRec, MT_PubComp, FLAGS_PubAck, FLAGS_PubRec, FLAGS_PubComp] at hp ⊢

/-- PUBREL. -/
theorem C09_pubrel (id rc : Nat) (pkt rest : Bytes) (hid : 0 < id ∧ id < 65536) (hrc : rc < 256)
    (he : encodePubrel id rc = .ok pkt) :
    Spec.parseClientPacket (pkt ++ rest) = some (.ack MT_PubRel id rc [], rest) := by
  unfold encodePubrel at he
  cases h : encodeWithOffset CONTROL_PACKET_LEN (ackChunks id rc) MT_PubRel FLAGS_PubRel with
  | error e => rw [h] at he; simp [Except.map] at he
  | ok r =>
    rw [h] at he
    simp [Except.map] at he
    subst he
    exact ack_roundtrip CONTROL_PACKET_LEN r.1 MT_PubRel FLAGS_PubRel id rc r.2 rest (by decide) (by decide) hid hrc h

/-- DISCONNECT (reason code and properties). -/
theorem C09_disconnect (cap off : Nat) (d : Disconnect) (pkt rest : Bytes)
    (hrc : ∀ rc, d.reason = some rc → rc < 256)
    (hshape : d.props.isSome = true → d.reason.isSome = true)
    (hwf : ∀ ps, d.props = some ps → ∀ p ∈ ps, p.wf = true)
    (hvalid : ∀ ps, d.props = some ps → ∀ p ∈ ps, p.validFor .Disconnect = true)
    (he : encodeWithOffset cap d.chunks MT_Disconnect FLAGS_Disconnect = .ok (off, pkt)) :
    Spec.parseClientPacket (pkt ++ rest) =
      some (.disconnect (d.reason.getD 0) ((d.props.getD []).map Property.toSpec), rest) :=
  disconnect_roundtrip cap off d pkt rest hrc hshape hwf
    (fun ps hps => legal_of_validFor .Disconnect ps (hwf ps hps) (hvalid ps hps)) he

/-- `Disconnect::with_properties` always supplies a reason code, so the builder's output meets the
shape hypothesis of `C09_disconnect`. -/
theorem C09_disconnect_builder (rc : Option Nat) (ps : Option (List Property)) :
    (Disconnect.build rc ps).props.isSome = true → (Disconnect.build rc ps).reason.isSome = true := by
  cases ps <;> simp [Disconnect.build]

/-- CONNECT: client identifier, clean start, keep-alive, session expiry, receive maximum, maximum
packet size, will (QoS, retain, properties, topic, payload), user name and password. -/
theorem C09_connect (cap off rx expiry : Nat) (c : Connect) (pkt rest : Bytes)
    (hrx : 0 < rx ∧ rx < 4294967296) (hexp : expiry < 4294967296)
    (hka : c.keepalive < 65536) (hcid : validUtf8 c.clientId = true)
    (hprops : c.props = .slice (connectProps rx expiry))
    (hwill : ∀ w, c.will = some w → w.qos ≤ 2 ∧ validUtf8 w.topic = true ∧ (∀ p ∈ w.props, p.wf = true) ∧
        (∀ p ∈ w.props, p.validFor .Will = true))
    (hauth : ∀ a, c.auth = some a → validUtf8 a.user = true)
    (he : encodeConnect cap c = .ok (off, pkt)) :
    Spec.parseClientPacket (pkt ++ rest) =
      some (.connect c.cleanStart c.keepalive
              [{ id := 0x27, val := .four rx }, { id := 0x11, val := .four expiry }, { id := 0x21, val := .two MAX_INBOUND_QOS2 }]
              c.clientId (c.will.map Will.toSpec) (c.auth.map (·.user)) (c.auth.map (·.pass)), rest) := by
  have hwf : ∀ p ∈ connectProps rx expiry, p.wf = true := by
    intro p hp
    simp [connectProps] at hp
    rcases hp with h | h | h <;> subst h <;> simp [Property.wf, PropKind.declShape, MAX_INBOUND_QOS2]
    · omega
    · omega
  have hlegal : ∀ p ∈ connectProps rx expiry, Spec.allowedIn .connect p.kind.id = true ∧
      Spec.legalValue p.kind.id p.toSpec.val.num = true := by
    intro p hp
    simp [connectProps] at hp
    rcases hp with h | h | h <;> subst h <;>
      dsimp only [Property.toSpec, PropKind.serShape, PropKind.id, Spec.Val.num] <;>
      simp [Spec.allowedIn, Spec.legalValue, MAX_INBOUND_QOS2]
    omega
  have := connect_roundtrip cap off c (connectProps rx expiry) pkt rest hka hcid hprops hwf hlegal
    (fun w hw => by
      obtain ⟨a1, a2, a3, a4⟩ := hwill w hw
      exact ⟨a1, a2, a3, legal_of_validFor .Will w.props a3 a4⟩) hauth he
  rw [this]
  simp [connectProps, Property.toSpec, PropKind.serShape, PropKind.id]

/-- The CONNECT that `Session::connect` builds: the keep-alive is the *configured* value (not a
previous broker's Server Keep Alive), clean start is the negation of "a session is present", the
client identifier is the current one, and the three properties are `connectProps` with the size of
the receive buffer. -/
theorem C09_connect_fields (s : Session) :
    s.connectPacket.keepalive = s.rt.configuredKeepaliveMs / 1000 ∧
    s.connectPacket.cleanStart = !s.data.sessionPresent ∧ s.connectPacket.clientId = s.clientId ∧
    s.connectPacket.props = .slice (connectProps s.reader.cap s.expiry) ∧
    s.connectPacket.will = s.will ∧ s.connectPacket.auth = s.auth :=
  ⟨rfl, rfl, rfl, rfl, rfl, rfl⟩

/-- Non-vacuity: a PUBLISH with correlation data, a user property and a payload meets the
hypotheses of `C09_publish` and is encoded. -/
example : ∃ off pkt, encodePublishWithOffset 64
    { topic := [0x61], packetId := some 7, props := .withCorrelation (corrProp [1, 2]) [{ kind := .UserProperty, val := .p [0x6b] [0x76] }],
      retain := true, qos := 1, dup := false } (.bytes [0xAA]) = .ok (off, pkt) := by
  exact ⟨_, _, rfl⟩

end Minimq
