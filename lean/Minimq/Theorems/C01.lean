import Minimq.Theorems.C09
import Minimq.Theorems.C11
import Minimq.Proofs.Framed
/-
C01 — the outbound byte stream is always whole, well-formed MQTT 5 packets.

What is proved here, for all inputs:
 * every encoder of the client produces a packet that the independent MQTT 5 reference
   (`Spec.parseClientPacket`) accepts and that ends exactly where the reference says it ends
   (corollaries of the C09 round trips) — legal type and flags, exact remaining length, valid
   strings, properties legal for the packet type, non-zero identifiers;
 * the scheduler (`Outbound.nextStep`) never starts a new packet while another one is partially
   written: if any entry of the three queues is in progress, the step it returns is an in-progress
   entry, and what is then written is the rest of that packet (`SendState.write written`);
 * nothing follows a DISCONNECT: once `disconnect()` has completed the handle is dead, and a dead
   handle never touches the transport again (C11).
Not proved here (tied by the correspondence and searched by the monitor instead): that at most one
entry is in progress at any time across cancellations — the await points of the non-cancel-safe local
writes (CONNECT, QoS 0 PUBLISH, DISCONNECT) are where finding F2b lives.
-/
namespace Minimq
open Gen Outbound World

/-- A byte string is one complete well-formed client packet: the reference accepts it in front of
any continuation and consumes exactly it. -/
def WellFormedPacket (pkt : Bytes) : Prop :=
  ∀ rest, ∃ p, Spec.parseClientPacket (pkt ++ rest) = some (p, rest)

theorem C01_publish_wellformed (cap off : Nat) (h : PublishHeader) (payload pkt : Bytes)
    (hq : h.qos ≤ 2) (hdup : h.dup = false)
    (hid : match h.packetId with
      | some i => 0 < i ∧ i < 65536 ∧ 0 < h.qos
      | none => h.qos = 0)
    (htopic : validUtf8 h.topic = true)
    (henc : h.props.isEncoded = false)
    (hwf : ∀ p ∈ h.props.items, p.wf = true)
    (hlegal : ∀ p ∈ h.props.items, Spec.allowedIn .publish p.kind.id = true ∧
        Spec.legalValue p.kind.id p.toSpec.val.num = true)
    (he : encodePublishWithOffset cap h (.bytes payload) = .ok (off, pkt)) : WellFormedPacket pkt :=
  fun rest => ⟨_, publish_roundtrip cap off h payload pkt rest hq hdup hid htopic henc hwf hlegal he⟩

theorem C01_control_wellformed (typ flags id rc cap off : Nat) (pkt : Bytes)
    (htyp : typ = 4 ∨ typ = 5 ∨ typ = 6 ∨ typ = 7) (hflags : flags = if typ = 6 then 2 else 0)
    (hid : 0 < id ∧ id < 65536) (hrc : rc < 256)
    (he : encodeWithOffset cap (ackChunks id rc) typ flags = .ok (off, pkt)) : WellFormedPacket pkt :=
  fun rest => ⟨_, ack_roundtrip cap off typ flags id rc pkt rest htyp hflags hid hrc he⟩

theorem C01_pingreq_wellformed (cap off : Nat) (pkt : Bytes)
    (he : encodeWithOffset cap [] MT_PingReq FLAGS_PingReq = .ok (off, pkt)) : WellFormedPacket pkt :=
  fun rest => ⟨_, pingreq_roundtrip cap off pkt rest he⟩

/-- **Everything kept for (re)transmission is a whole packet.** In every reachable state, every
packet in the transmit arena — what `perform_outbound_step` writes for a retained entry, on first
transmission and on every replay — is one complete framed packet: header byte, canonical remaining
length, exactly that many bytes (the DUP bit set by replay does not change that). -/
theorem C01_arena_holds_whole_packets (cfg : Cfg) (ds : List Directive) :
    ∀ bs ∈ (ds.foldl World.execDirective { sess := Session.new cfg }).sess.data.outbound.contents, Framed bs :=
  (run_inv closed_FramedP ds { sess := Session.new cfg }
    ⟨⟨ArenaInv_new cfg.tx, ⟨by simp [Session.new, Outbound.new], by simp [Session.new, Outbound.new]⟩⟩,
     by intro bs hbs; simp [Session.new, Outbound.new, Outbound.contents, contents] at hbs⟩).2

/-- The owed acknowledgements, PINGREQ and PUBREL are encoded afresh each time they are written, and
what the encoder returns is a whole framed packet inside its 9-byte buffer. -/
theorem C01_control_packets_framed :
    (∀ cs typ flags, EncOk (fun cap _ => encodeWithOffset cap cs typ flags)) :=
  EncOk_encodeWithOffset

theorem find?_some_of_any {α} (p : α → Bool) (l : List α) (h : l.any p = true) : ∃ x, l.find? p = some x ∧ p x = true := by
  cases hf : l.find? p with
  | none =>
    rw [List.find?_eq_none] at hf
    rw [List.any_eq_true] at h
    obtain ⟨x, hx, hp⟩ := h
    exact absurd hp (hf x hx)
  | some x => exact ⟨x, rfl, List.find?_some hf⟩

/-- **No packet is started in the middle of another one.** If some entry is partially written (or
written and not yet flushed), the next step continues an in-progress entry — never a fresh one. -/
theorem C01_in_progress_first (o : Outbound)
    (h : (o.control.any fun e => e.state.isInProgress) = true ∨ (o.release.any fun e => e.state.isInProgress) = true ∨
         (o.retained.any fun e => e.state.isInProgress) = true) :
    ∃ s, o.nextStep = some s ∧ s.state.isInProgress = true := by
  have hm : ∀ st : SendState, st.matchesPriority true = st.isInProgress := fun st => by simp [SendState.matchesPriority]
  unfold nextStep nextStepPrio
  simp only [hm]
  cases hc : o.control.find? (fun e => e.state.isInProgress) with
  | some e => exact ⟨_, rfl, by have := List.find?_some hc; exact this⟩
  | none =>
    simp only []
    cases hr : o.release.find? (fun e => e.state.isInProgress) with
    | some e => exact ⟨_, rfl, by have := List.find?_some hr; exact this⟩
    | none =>
      simp only []
      cases ht : o.retained.find? (fun e => e.state.isInProgress) with
      | some e => exact ⟨_, rfl, by have := List.find?_some ht; exact this⟩
      | none =>
        exfalso
        rcases h with h | h | h
        · obtain ⟨x, hx, _⟩ := find?_some_of_any _ _ h; rw [hc] at hx; simp at hx
        · obtain ⟨x, hx, _⟩ := find?_some_of_any _ _ h; rw [hr] at hx; simp at hx
        · obtain ⟨x, hx, _⟩ := find?_some_of_any _ _ h; rw [ht] at hx; simp at hx

/-- …and the step that continues a partially written packet offers exactly the unwritten rest of
it: `prepareStep` hands `written` back to the write loop, which writes `bytes.drop written`. -/
theorem C01_step_resumes_where_it_stopped (w : World) (id off len written : Nat)
    (h : w.sess.rt.packetTooLarge len = false) :
    prepareStep w (.retained id off len (.write written)) =
      .write (.retained id) (w.sess.data.outbound.retainedPacket off len) written len := by
  simp [prepareStep, h]

/-- **Nothing follows a DISCONNECT.** When the flush of DISCONNECT completes the handle is dead… -/
theorem C01_after_disconnect_dead (fuel : Nat) (w : World) (k : Nat) (hs : w.slot = some k) (hk : 1 ≤ k ∧ k ≤ 251) :
    (doLocalFlush (fuel + 1) w 2).live = false :=
  C11_disconnect_done_is_dead fuel w k hs hk

/-- …and a dead handle never touches a transport again, whatever is called. -/
theorem C01_dead_handle_writes_nothing (w : World) (d : Directive) (h : w.dead)
    (hd : match d with
      | .publish _ | .subscribe _ | .unsubscribe _ | .disconnect _ | .poll | .recv | .drive
      | .d _ | .go | .tick _ | .cancel => True
      | _ => False) :
    (w.execDirective d).nets = w.nets :=
  (C11_dead_stays_dead w d h hd).2.1

end Minimq
