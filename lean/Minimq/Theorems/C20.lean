import Minimq.Proofs.Packets
import Minimq.Reply
import Minimq.Theorems.InboundProps
/-
C20 — reply helpers address exactly the requester.

`Minimq/Reply.lean` models `InboundPublish::reply` / `reply_owned`, `ResponseTarget::publication`,
`ResponseTarget::to_owned` and `Publication::properties`; the trace lines `reply`, `replyp`, `owned`
and `ownedpub` of every delivered message are rendered from these functions (`Render.msgLines`) and
compared with the implementation on every run.
-/
namespace Minimq
open Gen

/-- **Without a response topic no reply is offered**, and with one the target is exactly the first
Response Topic property and the first Correlation Data property of the inbound publish. -/
theorem C20_target (block : Bytes) :
    responseTarget block =
      ((Properties.encoded block).responseTopic.map fun t =>
        ({ topic := t, correlationData := (Properties.encoded block).correlationData } : ResponseTarget)) := by
  unfold responseTarget
  cases (Properties.encoded block).responseTopic <;> rfl

/-- **Exactly the requester.** If the broker's property block is the encoding of the property list `l`
(any well-typed properties, any order, any number of user properties around them), the reply target
is the first Response Topic and the first Correlation Data of `l`, byte for byte. -/
theorem C20_target_is_what_the_broker_sent (l : List Property) (block : Bytes)
    (hwf : ∀ p ∈ l, p.wf = true) (h : encodeProps l = .ok block) :
    responseTarget block =
      ((firstVal .ResponseTopic l).map fun t =>
        ({ topic := t, correlationData := firstVal .CorrelationData l } : ResponseTarget)) := by
  rw [C20_target, InboundProps_responseTopic l block hwf h, InboundProps_correlationData l block hwf h]

theorem C20_no_response_topic_no_reply (block : Bytes) :
    responseTarget block = none ↔ (Properties.encoded block).responseTopic = none := by
  rw [C20_target]
  cases (Properties.encoded block).responseTopic <;> simp

/-- The reply publication: topic = the response topic, QoS 0, not retained, and its properties are
the correlation data (if any) followed by whatever user properties are added afterwards — adding
properties never drops or replaces the correlation data. -/
theorem C20_publication (t : ResponseTarget) (ups : List Property) :
    t.publication.topic = t.topic ∧ t.publication.qos = 0 ∧ t.publication.retain = false ∧
    t.publication.packetId = none ∧ t.publication.dup = false ∧
    t.publication.props.items = (match t.correlationData with | some c => [corrProp c] | none => []) ∧
    (t.publication.withProperties ups).topic = t.topic ∧
    (t.publication.withProperties ups).props.items =
      (match t.correlationData with | some c => corrProp c :: ups | none => ups) ∧
    (t.publication.withProperties ups).props.isEncoded = false ∧ t.publication.props.isEncoded = false := by
  unfold ResponseTarget.publication PublishHeader.withProperties
  cases t.correlationData <;>
    simp [Properties.withCorrelationData, Properties.withProperties, Properties.items, Properties.isEncoded]

/-- **On the wire.** Whatever payload and additional (legal) user properties the application gives,
an independent MQTT 5 decoder reads the encoded reply as a PUBLISH to exactly the response topic
carrying exactly the correlation data (first), then the added properties. -/
theorem C20_reply_on_the_wire (t : ResponseTarget) (ups : List Property) (cap off : Nat) (payload pkt rest : Bytes)
    (htopic : validUtf8 t.topic = true)
    (hwf : ∀ p ∈ ups, p.wf = true)
    (hlegal : ∀ p ∈ ups, Spec.allowedIn .publish p.kind.id = true ∧ Spec.legalValue p.kind.id p.toSpec.val.num = true)
    (he : encodePublishWithOffset cap (t.publication.withProperties ups) (.bytes payload) = .ok (off, pkt)) :
    Spec.parseClientPacket (pkt ++ rest) =
      some (.publish false 0 false t.topic none
        ((match t.correlationData with | some c => corrProp c :: ups | none => ups).map Property.toSpec) payload, rest) := by
  obtain ⟨_, _, _, _, _, _, h7, h8, h9, _⟩ := C20_publication t ups
  have hcorr : ∀ c, (corrProp c).wf = true ∧ Spec.allowedIn .publish (corrProp c).kind.id = true ∧
      Spec.legalValue (corrProp c).kind.id (corrProp c).toSpec.val.num = true := by
    intro c; exact ⟨by simp [corrProp, Property.wf, PropKind.declShape], by simp [corrProp, PropKind.id, Spec.allowedIn], by simp [corrProp, Spec.legalValue, PropKind.id]⟩
  have := publish_roundtrip cap off (t.publication.withProperties ups) payload pkt rest (by simp [ResponseTarget.publication, PublishHeader.withProperties]) rfl rfl
    (by rw [h7]; exact htopic) h9
    (by
      rw [h8]; intro p hp
      cases hcd : t.correlationData with
      | none => rw [hcd] at hp; exact hwf p hp
      | some c =>
        rw [hcd] at hp
        simp only [List.mem_cons] at hp
        rcases hp with rfl | hp
        · exact (hcorr c).1
        · exact hwf p hp)
    (by
      rw [h8]; intro p hp
      cases hcd : t.correlationData with
      | none => rw [hcd] at hp; exact hlegal p hp
      | some c =>
        rw [hcd] at hp
        simp only [List.mem_cons] at hp
        rcases hp with rfl | hp
        · exact (hcorr c).2
        · exact hlegal p hp)
    he
  rw [this, h7, h8]
  rfl

/-- **Owned target: exact or an error, never truncated.** -/
theorem C20_owned (t : ResponseTarget) (topicCap corrCap : Nat) :
    (∀ o, t.toOwned topicCap corrCap = some o → o = t) ∧
    (t.toOwned topicCap corrCap = none ↔
      (t.topic.length > topicCap ∨ ∃ c, t.correlationData = some c ∧ c.length > corrCap)) := by
  unfold ResponseTarget.toOwned
  constructor
  · intro o h
    split at h
    · simp at h
    · split at h
      · split at h
        · simp at h
        · simp at h; exact h.symm
      · simp at h; exact h.symm
  · split
    · rename_i h; simp [h]
    · rename_i h
      cases hc : t.correlationData with
      | none => simp [h]
      | some c =>
        simp only []
        split
        · rename_i h2; simp [h2]
        · rename_i h2; simp [h, h2]

/-- Non-vacuity: an inbound block with a user property, Response Topic `a/b` and Correlation Data
`01 02`: the reply goes to `a/b` with `01 02`, and the encoded reply with one user property added. -/
example :
    responseTarget [0x26, 0, 1, 0x6b, 0, 1, 0x76, 0x08, 0, 3, 0x61, 0x2f, 0x62, 0x09, 0, 2, 1, 2] =
      some { topic := [0x61, 0x2f, 0x62], correlationData := some [1, 2] } := by decide

example :
    (({ topic := [0x61, 0x2f, 0x62], correlationData := some [1, 2] } : ResponseTarget).toOwned 3 2).isSome = true ∧
    ({ topic := [0x61, 0x2f, 0x62], correlationData := some [1, 2] } : ResponseTarget).toOwned 2 2 = none ∧
    ({ topic := [0x61, 0x2f, 0x62], correlationData := some [1, 2] } : ResponseTarget).toOwned 3 1 = none := by
  decide

end Minimq
