import Minimq.Proofs.RequestWire
import Minimq.Theorems.C07
import Minimq.Theorems.C17
import Minimq.Theorems.C16Quiesce
/-
C09 / C07 at the level of the operations — from the API call to the bytes.

`Theorems/C09.lean` is about the encoders in isolation (`encode… = .ok (off, pkt)` is a hypothesis), and
`Theorems/C07.lean` about the allocator and the invariant. This file ties both to what `publish`,
`subscribe` and `unsubscribe` do with a request: `afterFlush (fuel + 1) w k` (Ops.lean) is the continuation
of each operation after its preliminary `flush_outbound` — `k = .publishPre r`, `.subPre r`, `.unsubPre r`
— where the identifier is allocated and the request is encoded into the transmit arena, size-checked and
retained. It is deterministic and does no I/O.

For each of the three requests:
 * `…_request_is_retained`: when the request is accepted, the retained list afterwards is the old one plus
   ONE entry at the end; its identifier is the one `next_packet_id` returned — non-zero and not in use
   (C07) —; the bytes the arena holds for it, read with the independent reference parser
   `Spec.parseClientPacket`, are exactly the packet the application asked for, with nothing left over (C09);
   a PUBLISH takes one unit of send quota; the handle the operation will report carries that identifier and
   the current generation. The operation continues with `flushLoop fuel … (.post name op)`, its second flush.
 * `…_outcome`: exactly when that happens (`PublishAccepted`, `SubscribeAccepted`, `UnsubscribeAccepted`:
   the checks in the order of the code), and otherwise which error is returned and that nothing was left
   behind (`Session.Untouched`) — with the one exception of the identifier counter, which has advanced
   exactly in the exits that lie behind the call of `next_packet_id`.
 * `C09_failed_request_leaves_nothing` collects the error exits of the three continuations.
 * `…_call_reaches_write`: on an idle live handle the directive itself (`w.execDirective (.publish r)` …)
   runs through both flush loops up to the first `write` of the transport, and what it hands to `write` is
   the packet of the request.

With `C02_log_entry_matches_arena` / `C02_logged_packets_are_on_the_wire` (Theorems/C02Wire.lean: what is
transmitted for a retained entry is its arena bytes, up to the DUP bit) this gives request → arena → wire.

Hypotheses. `w.sess.data.IdInv` and `w.sess.data.outbound.ArenaInv` hold in every reachable world
(`C07_all_programs`, `C17_all_programs_from`). The hypotheses on the request (`r.qos ≤ 2`, topic valid
UTF-8, well-formed property values, properties given as a list) are what the Rust types guarantee; the
directive parser checks the same.
-/
namespace Minimq
open Gen World Outbound

/-- **PUBLISH, QoS 1 or 2: the request is retained as asked.** Let `publish` (after its first flush) accept
the request `r` with payload bytes `pl` and effective QoS `q > 0` (`PublishAccepted`: properties valid for
PUBLISH, connection live, `can_publish` — send quota left, a retained slot free, scratch space —, the
packet encodes into the scratch space of the arena, and is within the broker's Maximum Packet Size). Then
the operation goes on to its second flush with a session `s'` in which

 * the retained list is the old one (its entries moved by compaction) plus ONE entry `e` at the end,
   waiting for its first byte, with the next ghost serial;
 * `e.id` is the identifier `next_packet_id` returned: non-zero and not in use before (C07);
 * the bytes the arena holds for `e` are the encoder's packet `pkt`, and the reference parser reads them
   as exactly `PUBLISH dup=0 qos=q retain=r.retain topic=r.topic id=e.id properties=r.props payload=pl`
   with nothing left over (C09);
 * the send quota is one less;
 * everything else is as `Session.Enqueued` says (other retained packets keep identifier, bytes, state;
   control and release queues, generation, runtime unchanged), and both invariants still hold.

The handle the operation will report (`.post "publish" op`) is `pub2` for QoS 2 and `pub1` otherwise, with
identifier `e.id` and the current generation. -/
theorem C09_publish_request_is_retained (fuel : Nat) (w : World) (r : PubReq) (pl : Bytes)
    (hids : w.sess.data.IdInv) (ha : w.sess.data.outbound.ArenaInv)
    (hpl : r.payload = .bytes pl) (hqos : r.qos ≤ 2) (htopic : validUtf8 r.topic = true)
    (hlist : r.props.isEncoded = false) (hwf : ∀ p ∈ r.props.items, p.wf = true)
    (hq0 : 0 < effectiveQos w.sess.rt.maxQos w.sess.downgrade r.qos)
    (hacc : PublishAccepted w r) :
    let q := effectiveQos w.sess.rt.maxQos w.sess.downgrade r.qos
    ∃ (s' : Session) (e : RetainedPacket) (off : Nat) (pkt : Bytes),
      publishEncoding w r = .ok (off, pkt) ∧
      afterFlush (fuel + 1) w (.publishPre r) = flushLoop fuel { w with sess := s' } (.post "publish"
        { kind := if q = 2 then .pub2 else .pub1, id := e.id, generation := w.sess.data.generation }) ∧
      s'.data.outbound.retained = w.sess.data.outbound.compact.retained ++ [e] ∧
      e.id = w.sess.alloc.2 ∧ e.id ≠ 0 ∧ e.id ∉ w.sess.data.outbound.usedIds ∧
      e.state = .write 0 ∧ e.ser = w.sess.data.outbound.nextSer ∧ e.len = pkt.length ∧
      s'.data.outbound.retainedPacket e.offset e.len = pkt ∧
      Spec.parseClientPacket (s'.data.outbound.retainedPacket e.offset e.len) =
        some (.publish false q r.retain r.topic (some e.id) (r.props.items.map Property.toSpec) pl, []) ∧
      s'.rt.sendQuota + 1 = w.sess.rt.sendQuota ∧
      w.sess.Enqueued s' e.id pkt true ∧ s'.data.IdInv ∧ s'.data.outbound.ArenaInv :=
  publish_request_retained fuel w r pl hids ha hpl hqos htopic hlist hwf hq0 hacc

/-- **PUBLISH, any QoS: exactly when it is accepted, and what happens otherwise.** For any request (any
payload, also one whose `ToPayload` fails or misreports its length), `publish` after its first flush does
one of three things:

 1. the request is accepted (`PublishAccepted`) with effective QoS 1 or 2: the packet is retained
    (`Session.Enqueued`) and the operation goes on to its second flush;
 2. it is accepted with effective QoS 0: the packet `pkt`, encoded in the scratch space, is handed to the
    operation-local `write_all`; the session is untouched (nothing retained, no identifier taken);
 3. it is not accepted: the operation ends with the error `publishRefusal w r` (`InvalidRequest` for
    invalid properties, above QoS 0 `InflightExhausted` when no retained slot is free, `NotReady` when the
    connection is not live or `can_publish` fails, the encoder's error, or `PacketTooLarge`), and the
    session is untouched (`Session.Untouched`: send quota, queues, every retained packet's bytes; the
    world differs from `w` in the session only, so transports, log and handles are those of `w`) — except
    that the identifier counter has advanced if, and only if, the effective QoS is above 0 and the
    properties were valid (the allocation precedes the slot, readiness and encoding checks). -/
theorem C09_publish_outcome (fuel : Nat) (w : World) (r : PubReq) (ha : w.sess.data.outbound.ArenaInv) :
    let q := effectiveQos w.sess.rt.maxQos w.sess.downgrade r.qos
    (PublishAccepted w r ∧ 0 < q ∧ ∃ off pkt s', publishEncoding w r = .ok (off, pkt) ∧
      afterFlush (fuel + 1) w (.publishPre r) = flushLoop fuel { w with sess := s' } (.post "publish"
        { kind := if q = 2 then .pub2 else .pub1, id := w.sess.alloc.2, generation := w.sess.data.generation }) ∧
      w.sess.Enqueued s' w.sess.alloc.2 pkt true) ∨
    (PublishAccepted w r ∧ q = 0 ∧ ∃ off pkt s', publishEncoding w r = .ok (off, pkt) ∧
      afterFlush (fuel + 1) w (.publishPre r) = doLocalWrite fuel { w with sess := s' } 1 pkt ∧
      w.sess.Untouched s' ∧ s'.data.packetId = w.sess.data.packetId) ∨
    (¬ PublishAccepted w r ∧ ∃ s',
      afterFlush (fuel + 1) w (.publishPre r) = ({ w with sess := s' }).finishErr "publish" (publishRefusal w r) ∧
      w.sess.Untouched s' ∧
      s'.data.packetId = if r.props.validFor .Publish = true ∧ 0 < q then w.sess.alloc.1.data.packetId
        else w.sess.data.packetId) :=
  publishPre_outcome fuel w r ha

/-- **PUBLISH, QoS 0: what is handed to the transport is the request.** An accepted request with payload
bytes `pl` and effective QoS 0 is encoded in the scratch space and the operation continues with the
operation-local `write_all` of exactly the packet `pkt` (`doLocalWrite … 1 pkt`), which the reference parser
reads as `PUBLISH dup=0 qos=0 retain=r.retain topic=r.topic` without identifier, with the request's
properties and payload and nothing left over. Nothing is retained and no identifier is taken. -/
theorem C09_publish_qos0_request_is_written (fuel : Nat) (w : World) (r : PubReq) (pl : Bytes)
    (ha : w.sess.data.outbound.ArenaInv)
    (hpl : r.payload = .bytes pl) (htopic : validUtf8 r.topic = true)
    (hlist : r.props.isEncoded = false) (hwf : ∀ p ∈ r.props.items, p.wf = true)
    (hq : effectiveQos w.sess.rt.maxQos w.sess.downgrade r.qos = 0)
    (hacc : PublishAccepted w r) :
    ∃ (s' : Session) (off : Nat) (pkt : Bytes),
      publishEncoding w r = .ok (off, pkt) ∧
      afterFlush (fuel + 1) w (.publishPre r) = doLocalWrite fuel { w with sess := s' } 1 pkt ∧
      Spec.parseClientPacket pkt =
        some (.publish false 0 r.retain r.topic none (r.props.items.map Property.toSpec) pl, []) ∧
      w.sess.Untouched s' ∧ s'.data.packetId = w.sess.data.packetId :=
  publish_qos0_request_written fuel w r pl ha hpl htopic hlist hwf hq hacc

/-- **SUBSCRIBE: the request is retained as asked.** Let `subscribe` (after its first flush) accept the
request `r` (`SubscribeAccepted`: a retained slot free, the packet encodes into the scratch space and is
within the broker's Maximum Packet Size); `r` has at least one topic filter and valid properties — the
checks of `subscribe` before its first flush. Then the operation goes on to its second flush with ONE new
entry `e` at the end of the retained list, whose identifier is the allocator's (non-zero, not in use) and
whose arena bytes the reference parser reads as exactly `SUBSCRIBE id=e.id` with the request's properties
and topic filters (topic, maximum QoS, no-local, retain-as-published, retain handling), nothing left over.
The runtime (send quota included) is unchanged. -/
theorem C09_subscribe_request_is_retained (fuel : Nat) (w : World) (r : SubReq)
    (hids : w.sess.data.IdInv) (ha : w.sess.data.outbound.ArenaInv)
    (hne : r.topics ≠ []) (hts : ∀ t ∈ r.topics, validUtf8 t.topic = true ∧ t.opts.wf = true)
    (hwf : ∀ p ∈ r.props, p.wf = true) (hvalid : (Properties.slice r.props).validFor .Subscribe = true)
    (hacc : SubscribeAccepted w r) :
    ∃ (s' : Session) (e : RetainedPacket) (off : Nat) (pkt : Bytes),
      subscribeEncoding w r = .ok (off, pkt) ∧
      afterFlush (fuel + 1) w (.subPre r) = flushLoop fuel { w with sess := s' } (.post "subscribe"
        { kind := .sub, id := e.id, generation := w.sess.data.generation }) ∧
      s'.data.outbound.retained = w.sess.data.outbound.compact.retained ++ [e] ∧
      e.id = w.sess.alloc.2 ∧ e.id ≠ 0 ∧ e.id ∉ w.sess.data.outbound.usedIds ∧
      e.state = .write 0 ∧ e.ser = w.sess.data.outbound.nextSer ∧ e.len = pkt.length ∧
      s'.data.outbound.retainedPacket e.offset e.len = pkt ∧
      Spec.parseClientPacket (s'.data.outbound.retainedPacket e.offset e.len) =
        some (.subscribe e.id (r.props.map Property.toSpec) (r.topics.map TopicFilter.toSpec), []) ∧
      s'.rt = w.sess.rt ∧
      w.sess.Enqueued s' e.id pkt false ∧ s'.data.IdInv ∧ s'.data.outbound.ArenaInv :=
  subscribe_request_retained fuel w r hids ha hne hts hwf hvalid hacc

/-- **SUBSCRIBE: exactly when it is accepted, and what happens otherwise.** Either the request is accepted
(`SubscribeAccepted`), retained (`Session.Enqueued`) and the operation goes on to its second flush; or the
operation ends with the error `subscribeRefusal w r` (`InflightExhausted` when no retained slot is free,
the encoder's error, or `PacketTooLarge`) and the session is untouched — except that the identifier counter
has advanced if, and only if, a retained slot was free (the allocation follows that check). -/
theorem C09_subscribe_outcome (fuel : Nat) (w : World) (r : SubReq) (ha : w.sess.data.outbound.ArenaInv) :
    (SubscribeAccepted w r ∧ ∃ off pkt s', subscribeEncoding w r = .ok (off, pkt) ∧
      afterFlush (fuel + 1) w (.subPre r) = flushLoop fuel { w with sess := s' } (.post "subscribe"
        { kind := .sub, id := w.sess.alloc.2, generation := w.sess.data.generation }) ∧
      w.sess.Enqueued s' w.sess.alloc.2 pkt false) ∨
    (¬ SubscribeAccepted w r ∧ ∃ s',
      afterFlush (fuel + 1) w (.subPre r) = ({ w with sess := s' }).finishErr "subscribe" (subscribeRefusal w r) ∧
      w.sess.Untouched s' ∧
      s'.data.packetId = if w.sess.data.outbound.retainedFull = true then w.sess.data.packetId
        else w.sess.alloc.1.data.packetId) :=
  subPre_outcome fuel w r ha

/-- **UNSUBSCRIBE: the request is retained as asked.** As `C09_subscribe_request_is_retained`: the arena
bytes of the ONE new retained entry are read by the reference parser as exactly `UNSUBSCRIBE id=e.id` with
the request's properties and topic filters, nothing left over; the identifier is the allocator's. -/
theorem C09_unsubscribe_request_is_retained (fuel : Nat) (w : World) (r : UnsubReq)
    (hids : w.sess.data.IdInv) (ha : w.sess.data.outbound.ArenaInv)
    (hne : r.topics ≠ []) (hts : ∀ t ∈ r.topics, validUtf8 t = true)
    (hwf : ∀ p ∈ r.props, p.wf = true) (hvalid : (Properties.slice r.props).validFor .Unsubscribe = true)
    (hacc : UnsubscribeAccepted w r) :
    ∃ (s' : Session) (e : RetainedPacket) (off : Nat) (pkt : Bytes),
      unsubscribeEncoding w r = .ok (off, pkt) ∧
      afterFlush (fuel + 1) w (.unsubPre r) = flushLoop fuel { w with sess := s' } (.post "unsubscribe"
        { kind := .unsub, id := e.id, generation := w.sess.data.generation }) ∧
      s'.data.outbound.retained = w.sess.data.outbound.compact.retained ++ [e] ∧
      e.id = w.sess.alloc.2 ∧ e.id ≠ 0 ∧ e.id ∉ w.sess.data.outbound.usedIds ∧
      e.state = .write 0 ∧ e.ser = w.sess.data.outbound.nextSer ∧ e.len = pkt.length ∧
      s'.data.outbound.retainedPacket e.offset e.len = pkt ∧
      Spec.parseClientPacket (s'.data.outbound.retainedPacket e.offset e.len) =
        some (.unsubscribe e.id (r.props.map Property.toSpec) r.topics, []) ∧
      s'.rt = w.sess.rt ∧
      w.sess.Enqueued s' e.id pkt false ∧ s'.data.IdInv ∧ s'.data.outbound.ArenaInv :=
  unsubscribe_request_retained fuel w r hids ha hne hts hwf hvalid hacc

/-- **UNSUBSCRIBE: exactly when it is accepted, and what happens otherwise** (as `C09_subscribe_outcome`). -/
theorem C09_unsubscribe_outcome (fuel : Nat) (w : World) (r : UnsubReq) (ha : w.sess.data.outbound.ArenaInv) :
    (UnsubscribeAccepted w r ∧ ∃ off pkt s', unsubscribeEncoding w r = .ok (off, pkt) ∧
      afterFlush (fuel + 1) w (.unsubPre r) = flushLoop fuel { w with sess := s' } (.post "unsubscribe"
        { kind := .unsub, id := w.sess.alloc.2, generation := w.sess.data.generation }) ∧
      w.sess.Enqueued s' w.sess.alloc.2 pkt false) ∨
    (¬ UnsubscribeAccepted w r ∧ ∃ s',
      afterFlush (fuel + 1) w (.unsubPre r) = ({ w with sess := s' }).finishErr "unsubscribe" (unsubscribeRefusal w r) ∧
      w.sess.Untouched s' ∧
      s'.data.packetId = if w.sess.data.outbound.retainedFull = true then w.sess.data.packetId
        else w.sess.alloc.1.data.packetId) :=
  unsubPre_outcome fuel w r ha

/-- **A failed request leaves nothing behind.** Every exit of `afterFlush` for the three request
continuations is of one of three kinds:

 1. an error exit: the result is `finishErr name e` of a world that differs from `w` in the session only,
    and that session is `Untouched` — runtime (send quota, deadlines), reader, control queue, release
    queue, generation are the same; the retained list has the same entries (identifier, length, send
    state, serial) with the same packet bytes (`Keeps`; `encode` may have compacted the arena and written
    into the scratch space behind them); the identifier counter is where it was or where
    `next_packet_id` left it (exactly when: `C09_publish_outcome`, `C09_subscribe_outcome`,
    `C09_unsubscribe_outcome`). Transports (`nets`), transmission log, handles and connection state are
    those of `w` (`C09_refused_world`);
 2. the request was retained (one entry more) and the operation goes on to its second flush;
 3. (QoS 0 publish) the packet goes to the operation-local `write_all`, session untouched. -/
theorem C09_failed_request_leaves_nothing (fuel : Nat) (w : World) (k : AfterFlush)
    (ha : w.sess.data.outbound.ArenaInv) (hk : k.isRequest = true) :
    (∃ s' e, afterFlush (fuel + 1) w k = ({ w with sess := s' }).finishErr (afterFlushName k) e ∧
      w.sess.Untouched s' ∧
      (s'.data.packetId = w.sess.data.packetId ∨ s'.data.packetId = w.sess.alloc.1.data.packetId)) ∨
    (∃ s' op pkt isPub, afterFlush (fuel + 1) w k = flushLoop fuel { w with sess := s' } (.post (afterFlushName k) op) ∧
      w.sess.Enqueued s' op.id pkt isPub) ∨
    (∃ s' pkt, afterFlush (fuel + 1) w k = doLocalWrite fuel { w with sess := s' } 1 pkt ∧
      w.sess.Untouched s' ∧ s'.data.packetId = w.sess.data.packetId) :=
  request_exits fuel w k ha hk

/-- What an error exit `({ w with sess := s' }).finishErr name e` is, field by field: the operation is
finished with `Err(e)`; session `s'`; transports, transmission log, handles, connection state, clock and
torn marks are those of `w` (only the trace has one more line). -/
theorem C09_refused_world (w : World) (s' : Session) (name : String) (e : Err) :
    let w' := ({ w with sess := s' } : World).finishErr name e
    w'.sess = s' ∧ w'.nets = w.nets ∧ w'.log = w.log ∧ w'.handles = w.handles ∧ w'.conn = w.conn ∧
    w'.now = w.now ∧ w'.tornNets = w.tornNets ∧ w'.fut = none ∧ w'.lastRes = some (.error e) :=
  ⟨rfl, rfl, rfl, rfl, rfl, rfl, rfl, rfl, rfl⟩

/-! ### From the directive: an idle live handle -/

/-- **From `publish(…)` to the transport's `write`.** On a live handle with no suspended operation, no
keep-alive probe due and nothing queued to send (every queue entry `Sent`), the directive `.publish r`
with an accepted QoS 1/2 request runs through the first flush (nothing to do), retains the request as in
`C09_publish_request_is_retained`, and its second flush picks exactly the new entry: the call is now at
the `write` of the transport (`doStepWrite`) with the packet `pkt` — the bytes the reference parser reads
as the PUBLISH that was asked for — none of it written yet. -/
theorem C09_publish_call_reaches_write (w : World) (r : PubReq) (pl : Bytes)
    (hids : w.sess.data.IdInv) (ha : w.sess.data.outbound.ArenaInv)
    (hlive : w.live = true) (hfut : w.fut = none)
    (hka : ∀ np, w.sess.rt.nextPing = some np → w.now < np)
    (hnext : w.sess.data.outbound.nextStep = none)
    (hpl : r.payload = .bytes pl) (hqos : r.qos ≤ 2) (htopic : validUtf8 r.topic = true)
    (hlist : r.props.isEncoded = false) (hwf : ∀ p ∈ r.props.items, p.wf = true)
    (hq0 : 0 < effectiveQos w.sess.rt.maxQos w.sess.downgrade r.qos)
    (hacc : PublishAccepted w r) :
    let q := effectiveQos w.sess.rt.maxQos w.sess.downgrade r.qos
    ∃ (s' : Session) (e : RetainedPacket) (pkt : Bytes),
      w.execDirective (.publish r) =
        doStepWrite 3996 { w with sess := s', wakes := 0, lastIoStarved := false }
          (.flush (.post "publish" { kind := if q = 2 then .pub2 else .pub1, id := e.id,
                                     generation := w.sess.data.generation }))
          (.retained e.id) pkt 0 pkt.length w.now ∧
      s'.data.outbound.retained = w.sess.data.outbound.compact.retained ++ [e] ∧
      e.id = w.sess.alloc.2 ∧ e.id ≠ 0 ∧ e.id ∉ w.sess.data.outbound.usedIds ∧
      s'.data.outbound.retainedPacket e.offset e.len = pkt ∧
      Spec.parseClientPacket pkt =
        some (.publish false q r.retain r.topic (some e.id) (r.props.items.map Property.toSpec) pl, []) :=
  publish_call_reaches_write w r pl hids ha hlive hfut hka hnext hpl hqos htopic hlist hwf hq0 hacc

/-- **From `subscribe(…)` to the transport's `write`** (as `C09_publish_call_reaches_write`): on an idle live
handle the directive `.subscribe r`, with the checks before its first flush passed and the request accepted,
is at the `write` of the transport with exactly the SUBSCRIBE packet that was asked for. -/
theorem C09_subscribe_call_reaches_write (w : World) (r : SubReq)
    (hids : w.sess.data.IdInv) (ha : w.sess.data.outbound.ArenaInv)
    (hlive : w.live = true) (hfut : w.fut = none)
    (hka : ∀ np, w.sess.rt.nextPing = some np → w.now < np)
    (hnext : w.sess.data.outbound.nextStep = none)
    (hne : r.topics ≠ []) (hts : ∀ t ∈ r.topics, validUtf8 t.topic = true ∧ t.opts.wf = true)
    (hwf : ∀ p ∈ r.props, p.wf = true) (hvalid : (Properties.slice r.props).validFor .Subscribe = true)
    (hacc : SubscribeAccepted w r) :
    ∃ (s' : Session) (e : RetainedPacket) (pkt : Bytes),
      w.execDirective (.subscribe r) =
        doStepWrite 3996 { w with sess := s', wakes := 0, lastIoStarved := false }
          (.flush (.post "subscribe" { kind := .sub, id := e.id, generation := w.sess.data.generation }))
          (.retained e.id) pkt 0 pkt.length w.now ∧
      s'.data.outbound.retained = w.sess.data.outbound.compact.retained ++ [e] ∧
      e.id = w.sess.alloc.2 ∧ e.id ≠ 0 ∧ e.id ∉ w.sess.data.outbound.usedIds ∧
      s'.data.outbound.retainedPacket e.offset e.len = pkt ∧
      Spec.parseClientPacket pkt =
        some (.subscribe e.id (r.props.map Property.toSpec) (r.topics.map TopicFilter.toSpec), []) :=
  subscribe_call_reaches_write w r hids ha hlive hfut hka hnext hne hts hwf hvalid hacc

/-- **From `unsubscribe(…)` to the transport's `write`** (as `C09_subscribe_call_reaches_write`). -/
theorem C09_unsubscribe_call_reaches_write (w : World) (r : UnsubReq)
    (hids : w.sess.data.IdInv) (ha : w.sess.data.outbound.ArenaInv)
    (hlive : w.live = true) (hfut : w.fut = none)
    (hka : ∀ np, w.sess.rt.nextPing = some np → w.now < np)
    (hnext : w.sess.data.outbound.nextStep = none)
    (hne : r.topics ≠ []) (hts : ∀ t ∈ r.topics, validUtf8 t = true)
    (hwf : ∀ p ∈ r.props, p.wf = true) (hvalid : (Properties.slice r.props).validFor .Unsubscribe = true)
    (hacc : UnsubscribeAccepted w r) :
    ∃ (s' : Session) (e : RetainedPacket) (pkt : Bytes),
      w.execDirective (.unsubscribe r) =
        doStepWrite 3996 { w with sess := s', wakes := 0, lastIoStarved := false }
          (.flush (.post "unsubscribe" { kind := .unsub, id := e.id, generation := w.sess.data.generation }))
          (.retained e.id) pkt 0 pkt.length w.now ∧
      s'.data.outbound.retained = w.sess.data.outbound.compact.retained ++ [e] ∧
      e.id = w.sess.alloc.2 ∧ e.id ≠ 0 ∧ e.id ∉ w.sess.data.outbound.usedIds ∧
      s'.data.outbound.retainedPacket e.offset e.len = pkt ∧
      Spec.parseClientPacket pkt = some (.unsubscribe e.id (r.props.map Property.toSpec) r.topics, []) :=
  unsubscribe_call_reaches_write w r hids ha hlive hfut hka hnext hne hts hwf hvalid hacc

/-! ### Non-vacuity -/

/-- A QoS 2 publish with the retain flag, correlation data, a user property and two payload bytes. -/
def C09R_req : PubReq :=
  { qos := 2, retain := true, topic := [0x61, 0x2f, 0x62], payload := .bytes [0xAA, 0xBB],
    props := .withCorrelation (corrProp [1, 2]) [{ kind := .UserProperty, val := .p [0x6b] [0x76] }] }

/-- The packet of `C09R_req` with identifier `id`. -/
def C09R_pkt (id : Nat) : Bytes :=
  [0x35, 22, 0, 3, 0x61, 0x2f, 0x62, 0, UInt8.ofNat id, 12, 9, 0, 2, 1, 2, 38, 0, 1, 0x6b, 0, 1, 0x76, 0xAA, 0xBB]

/-- Both invariants assumed by the theorems above hold in every world produced by a program. -/
theorem C09R_ids (cfg : Cfg) (ds : List Directive) :
    (ds.foldl World.execDirective { sess := Session.new cfg }).sess.data.IdInv ∧
    (ds.foldl World.execDirective { sess := Session.new cfg }).sess.data.outbound.ArenaInv :=
  ⟨C07_all_programs cfg ds, (C17_all_programs_from { sess := Session.new cfg } ds (C17_init cfg)).1.1⟩

/-- The first world of `Theorems/C16Quiesce.lean` (retained: identifier 2 `Sent` at offset 0 and identifier 3
with 3 of 9 bytes written at offset 12 — there is a gap of three bytes, so compaction moves the second
entry; release queue: identifier 1) accepts `C09R_req`: the allocator returns 4 and the packet is encoded
at offset 3 of the scratch space. -/
theorem C09R_accepted : PublishAccepted C16Q_w C09R_req ∧
    0 < effectiveQos C16Q_w.sess.rt.maxQos C16Q_w.sess.downgrade C09R_req.qos ∧
    publishEncoding C16Q_w C09R_req = .ok (3, C09R_pkt 4) ∧
    C16Q_w.sess.data.outbound.retained.map (fun e => (e.id, e.offset, e.len)) = [(2, 0, 9), (3, 12, 9)] ∧
    C16Q_w.sess.data.outbound.compact.retained.map (fun e => (e.id, e.offset, e.len)) = [(2, 0, 9), (3, 9, 9)] := by
  have henc : publishEncoding C16Q_w C09R_req = .ok (3, C09R_pkt 4) :=
    Except.eq_ok_of_toOption (by decide +kernel)
  exact ⟨⟨by decide +kernel, by decide +kernel, by decide +kernel, 3, C09R_pkt 4, henc, by decide +kernel⟩,
    by decide +kernel, henc, by decide +kernel, by decide +kernel⟩

/-- …so `C09_publish_request_is_retained` applies to it, and its conclusion is: identifier 4, the entry
behind the two compacted ones, the arena bytes parse as the PUBLISH asked for. -/
example : ∃ (s' : Session) (e : RetainedPacket),
    afterFlush 10 C16Q_w (.publishPre C09R_req) = flushLoop 9 { C16Q_w with sess := s' }
      (.post "publish" { kind := .pub2, id := 4, generation := 1 }) ∧
    s'.data.outbound.retained.map (fun e => (e.id, e.len, e.state)) =
      [(2, 9, .sent), (3, 9, .write 3), (4, 24, .write 0)] ∧
    Spec.parseClientPacket (s'.data.outbound.retainedPacket e.offset e.len) =
      some (.publish false 2 true [0x61, 0x2f, 0x62] (some 4)
        [⟨0x09, .bin [1, 2]⟩, ⟨0x26, .pair [0x6b] [0x76]⟩] [0xAA, 0xBB], []) ∧
    s'.rt.sendQuota + 1 = C16Q_w.sess.rt.sendQuota := by
  obtain ⟨hacc, hq0, henc, _, hcomp⟩ := C09R_accepted
  obtain ⟨hids, ha⟩ : C16Q_w.sess.data.IdInv ∧ C16Q_w.sess.data.outbound.ArenaInv := by
    unfold C16Q_w; exact C09R_ids _ _
  obtain ⟨s', e, off, pkt, g1, g2, g3, g4, _, _, g7, _, glen, g9, g10, g11, _⟩ :=
    C09_publish_request_is_retained 9 C16Q_w C09R_req [0xAA, 0xBB] hids ha rfl (by decide +kernel) (by decide +kernel) rfl
      (by decide +kernel) hq0 hacc
  have hpkt : pkt = C09R_pkt 4 := by
    rw [henc] at g1; simp only [Except.ok.injEq, Prod.mk.injEq] at g1; exact g1.2.symm
  have hid : e.id = 4 := by rw [g4]; decide +kernel
  have hgen : C16Q_w.sess.data.generation = 1 := by decide +kernel
  have hq : effectiveQos C16Q_w.sess.rt.maxQos C16Q_w.sess.downgrade C09R_req.qos = 2 := by decide +kernel
  refine ⟨s', e, ?_, ?_, ?_, g11⟩
  · rw [g2, hid, hgen, hq]; rfl
  · have hold : C16Q_w.sess.data.outbound.compact.retained.map (fun e => (e.id, e.len, e.state)) =
        [(2, 9, .sent), (3, 9, .write 3)] := by decide +kernel
    rw [g3, List.map_append, hold, List.map_cons, List.map_nil, hid, glen, g7, hpkt]
    rfl
  · rw [g10, hid, hq]; rfl

/-- A refusal behind the allocation. The broker granted Receive Maximum 1 and one QoS 1 publish is
unacknowledged: the send quota is 0, so `can_publish` fails. The request is not accepted, the error is
`NotReady`, and `next_packet_id` has already run: the counter goes from 2 to 3. -/
def C09R_quota : World :=
  [.connect, .rx [0x20, 0x06, 0x00, 0x00, 0x03, 0x21, 0x00, 0x01], .go, C16Q_pub 1 0x75 0x71, .go].foldl
    World.execDirective { sess := Session.new C16Q_cfg }

example : ¬ PublishAccepted C09R_quota C09R_req ∧ publishRefusal C09R_quota C09R_req = .notReady ∧
    C09R_quota.sess.rt.sendQuota = 0 ∧
    C09R_quota.sess.data.packetId = 2 ∧ C09R_quota.sess.alloc.1.data.packetId = 3 :=
  ⟨fun h => absurd h.2.2.1 (by decide +kernel), by decide +kernel, by decide +kernel, by decide +kernel,
    by decide +kernel⟩

/-- …and this is what `C09_publish_outcome` says about it: the error exit, session untouched (send quota,
queues, the retained packet), counter at 3. -/
example : ∃ s', afterFlush 10 C09R_quota (.publishPre C09R_req) =
      ({ C09R_quota with sess := s' }).finishErr "publish" .notReady ∧
    C09R_quota.sess.Untouched s' ∧ s'.data.packetId = 3 := by
  have ha : C09R_quota.sess.data.outbound.ArenaInv := by unfold C09R_quota; exact (C09R_ids _ _).2
  have hn : ¬ PublishAccepted C09R_quota C09R_req := fun h => absurd h.2.2.1 (by decide +kernel)
  have he : publishRefusal C09R_quota C09R_req = .notReady := by decide +kernel
  rcases C09_publish_outcome 9 C09R_quota C09R_req ha with ⟨h, _⟩ | ⟨h, _⟩ | ⟨_, s', h1, h2, h3⟩
  · exact absurd h hn
  · exact absurd h hn
  · refine ⟨s', by rw [h1, he], h2, ?_⟩
    rw [h3, if_pos ⟨by decide +kernel, by decide +kernel⟩]
    decide +kernel

/-- QoS 0 on the same first world: accepted, encoded without identifier. -/
example : PublishAccepted C16Q_w { C09R_req with qos := 0 } ∧
    effectiveQos C16Q_w.sess.rt.maxQos C16Q_w.sess.downgrade 0 = 0 ∧
    publishEncoding C16Q_w { C09R_req with qos := 0 } =
      .ok (3, [0x31, 20, 0, 3, 0x61, 0x2f, 0x62, 12, 9, 0, 2, 1, 2, 38, 0, 1, 0x6b, 0, 1, 0x76, 0xAA, 0xBB]) := by
  have henc : publishEncoding C16Q_w { C09R_req with qos := 0 } =
      .ok (3, [0x31, 20, 0, 3, 0x61, 0x2f, 0x62, 12, 9, 0, 2, 1, 2, 38, 0, 1, 0x6b, 0, 1, 0x76, 0xAA, 0xBB]) :=
    Except.eq_ok_of_toOption (by decide +kernel)
  exact ⟨⟨by decide +kernel, by decide +kernel, by decide +kernel, _, _, henc, by decide +kernel⟩, by decide +kernel, henc⟩

/-- A SUBSCRIBE with one filter (maximum QoS 1, no-local, retain handling 2) on the first world: accepted
with identifier 4; the hypotheses of `C09_subscribe_request_is_retained` hold. -/
def C09R_sub : SubReq :=
  { topics := [{ topic := [0x61], opts := { maxQos := 1, noLocal := true, rap := false, rh := 2 } }], props := [] }

example : SubscribeAccepted C16Q_w C09R_sub ∧
    subscribeEncoding C16Q_w C09R_sub = .ok (3, [0x82, 7, 0, 4, 0, 0, 1, 0x61, 0x25]) ∧
    C09R_sub.topics ≠ [] ∧ (∀ t ∈ C09R_sub.topics, validUtf8 t.topic = true ∧ t.opts.wf = true) ∧
    (Properties.slice C09R_sub.props).validFor .Subscribe = true := by
  have henc : subscribeEncoding C16Q_w C09R_sub = .ok (3, [0x82, 7, 0, 4, 0, 0, 1, 0x61, 0x25]) :=
    Except.eq_ok_of_toOption (by decide +kernel)
  exact ⟨⟨by decide +kernel, _, _, henc, by decide +kernel⟩, henc, by decide, by decide +kernel, by decide +kernel⟩

/-- An idle live handle: connected, one QoS 1 publish sent and not yet acknowledged (its entry is `Sent`),
no operation suspended, no keep-alive (interval 0). -/
def C09R_idle : World :=
  [.connect, .rx [0x20, 0x03, 0x00, 0x00, 0x00], .go, C16Q_pub 1 0x75 0x71, .go].foldl World.execDirective
    { sess := Session.new C16Q_cfg }

/-- It meets the hypotheses of `C09_publish_call_reaches_write` for `C09R_req`… -/
theorem C09R_idle_hyps : C09R_idle.live = true ∧ C09R_idle.fut = none ∧
    (∀ np, C09R_idle.sess.rt.nextPing = some np → C09R_idle.now < np) ∧
    C09R_idle.sess.data.outbound.nextStep = none ∧ PublishAccepted C09R_idle C09R_req ∧
    0 < effectiveQos C09R_idle.sess.rt.maxQos C09R_idle.sess.downgrade C09R_req.qos := by
  have hnp : C09R_idle.sess.rt.nextPing = none := by decide +kernel
  have hfut : C09R_idle.fut.isNone = true := by decide +kernel
  have henc : publishEncoding C09R_idle C09R_req = .ok (3, C09R_pkt 2) :=
    Except.eq_ok_of_toOption (by decide +kernel)
  refine ⟨by decide +kernel, ?_, (fun np h => by rw [hnp] at h; cases h), by decide +kernel,
    ⟨by decide +kernel, by decide +kernel, by decide +kernel, _, _, henc, by decide +kernel⟩, by decide +kernel⟩
  cases h : C09R_idle.fut with
  | none => rfl
  | some pc => rw [h] at hfut; cases hfut

/-- …and indeed, run directly, the call is suspended at the transport's `write` (no I/O decision is
available) holding the whole packet with identifier 2, nothing written. -/
example : (match (C09R_idle.execDirective (.publish C09R_req)).fut with
    | some (.stepWrite _ (.retained id) bytes written len _) => some (id, bytes, written, len)
    | _ => none) = some (2, C09R_pkt 2, 0, 24) := by decide +kernel

end Minimq