import Minimq.Proofs.LatchMachine
/-
C11 — a dead connection handle stays dead: the whole-program part.

`Theorems/C11.lean` shows that `dead` is absorbing and that each fatal exit of each machine function calls
`handle_disconnect`. Here: over ALL programs,

(1) no fatal result (transport error, `Disconnected` = end of stream / broker DISCONNECT / keep-alive
    timeout, invalid inbound packet) is ever reported while the handle stays live
    (`C11_fatal_result_means_dead`), by induction over the thirteen machine functions and over programs;
(2) a `disconnect()` that completes — at once or after any number of resumptions — leaves a dead handle,
    unless it refused locally before offering a byte of the DISCONNECT to the transport
    (`C11_disconnect_completed_means_dead`, `C11_disconnect_resumed_means_dead`, `C11_disconnect_run`).
    The fuel of the machine functions is discharged with the fuel-adequacy results
    (`Fuel.quiet_poll`, `Fuel.quiet_execDirective`) and the fact that the trace is write-only
    (`poll_addOld`, `execDirective_addOld`): no hypothesis about a `fuel` line is left.
-/
namespace Minimq
open Gen World

/-- **No fatal result with a live handle, ever.** Run any program (any list of API calls, I/O decisions,
clock ticks, inbound bytes, cancellations, drops, reconnects) from the initial state. At every point —
also while an operation is suspended — if the call that completed last returned a transport error,
`Disconnected` (end of stream, broker DISCONNECT, keep-alive timeout) or `Peer(InvalidPacket)`, then
`is_connected()` is false: every code path of the crate that returns one of these errors has called
`handle_disconnect()` first, or ran without a live handle (the `!live` guards; `connect`, which reports
its transport errors before a handle exists). -/
theorem C11_fatal_result_means_dead (cfg : Cfg) (ds : List Directive) :
    Latched (ds.foldl World.execDirective { sess := Session.new cfg }) :=
  (latch_run ds _ (latch_init cfg)).latched

/-- The invariant behind it (what had to be added to make `Latched` inductive): while a `connect` is
suspended at one of its await points there is no live handle — `Session::connect` takes `&mut self`, so
the old handle is gone before the first byte of CONNECT is written, and the new one appears only with the
accepted CONNACK. This is why `connect` may return `Transport(..)`/`Disconnected` without calling
`handle_disconnect`. -/
theorem C11_connect_in_progress_has_no_live_handle (cfg : Cfg) (ds : List Directive) (pc : Pc)
    (hf : (ds.foldl World.execDirective { sess := Session.new cfg }).fut = some pc) (hc : pc.isConn = true) :
    (ds.foldl World.execDirective { sess := Session.new cfg }).live = false :=
  (latch_run ds _ (latch_init cfg)).2 pc hf hc

/-- Together with `C11_dead_stays_dead`: if the last result is fatal, a handle exists and nothing is
suspended, the handle is `dead` in the sense of `Theorems/C11.lean` — so every further network operation
returns `Disconnected` (`disconnect` returns `Ok`) without touching the transport, for good. -/
theorem C11_fatal_result_handle_is_dead (cfg : Cfg) (ds : List Directive) (e : Err)
    (hr : (ds.foldl World.execDirective { sess := Session.new cfg }).lastRes = some (.error e))
    (he : e.fatal = true)
    (hc : (ds.foldl World.execDirective { sess := Session.new cfg }).conn.isSome = true)
    (hf : (ds.foldl World.execDirective { sess := Session.new cfg }).fut = none) :
    (ds.foldl World.execDirective { sess := Session.new cfg }).dead := by
  have hl := C11_fatal_result_means_dead cfg ds e hr he
  generalize ds.foldl World.execDirective { sess := Session.new cfg } = w at *
  cases hw : w.conn with
  | none => rw [hw] at hc; cases hc
  | some c =>
    refine ⟨⟨c, hw, ?_⟩, hf⟩
    simpa [World.live, hw] using hl

/-- The same from any state that satisfies the invariant (e.g. any reachable one): one more API call or
event keeps it. -/
theorem C11_fatal_result_step (w : World) (d : Directive) (h : LatchInv w) : LatchInv (w.execDirective d) :=
  latch_execDirective w d h

/-- **`disconnect()` that returns leaves a dead handle** — in any state whatsoever. If the call completes
at once (`fut = none`: no await returned `Pending`), then either the handle is dead (`is_connected()` is
false: the DISCONNECT went out, or any write/flush/encoding step of the preliminary `flush_outbound`
failed, or the handle was dead already, or there is no handle), or the call refused locally with
`InvalidRequest` / `BufferTooSmall` / `PacketTooLarge` — the property check at the top of
`disconnect_with`, or `MqttSerializer::encode(&mut buffer, &disconnect)?` /
`require_packet_size(packet.len())?` after a successful flush — before any byte of the DISCONNECT was
offered to the transport. No assumption on the state and no `fuel` proviso. -/
theorem C11_disconnect_completed_means_dead (w : World) (d : Disconnect)
    (hf : (w.execDirective (.disconnect d)).fut = none) :
    (w.execDirective (.disconnect d)).live = false ∨
    ∃ e, (w.execDirective (.disconnect d)).lastRes = some (.error e) ∧ e.localRefusal = true := by
  cases hc : w.conn with
  | none =>
    left
    simp only [World.execDirective, World.startOp, hc, Option.isNone_none, if_true]
    simp [World.live, World.emit, hc]
  | some c =>
    rcases disc_start w d (by simp [hc]) with ⟨pc, hp, _⟩ | ⟨_, h⟩
    · rw [hf] at hp; cases hp
    · exact h

/-- In particular `disconnect()` never returns `Ok(())` with a live handle. -/
theorem C11_disconnect_ok_means_dead (w : World) (d : Disconnect)
    (hf : (w.execDirective (.disconnect d)).fut = none)
    (hr : (w.execDirective (.disconnect d)).lastRes = some (.ok ())) :
    (w.execDirective (.disconnect d)).live = false := by
  rcases C11_disconnect_completed_means_dead w d hf with h | ⟨e, he, _⟩
  · exact h
  · rw [hr] at he; cases he

/-- **Continuation form.** A `disconnect()` future suspended at any of its await points (the write or
flush of a queued packet in its preliminary `flush_outbound`, the `write_all` or the `flush` of the
DISCONNECT) is polled again — with an I/O decision (`d n`), by `go`, or by a clock tick. Then it is
suspended again at one of the await points of `disconnect`, or it has completed and the handle is dead or
the call refused locally (see `C11_disconnect_completed_means_dead`). -/
theorem C11_disconnect_resumed_means_dead (w : World) (pc : Pc) (r : Directive)
    (hp : w.fut = some pc) (hd : pc.isDisc = true) (hr : r.isResume = true) :
    DiscDone (w.execDirective r) :=
  disc_resume w r hr (.inl ⟨pc, hp, hd⟩)

/-- The form asked for: the suspended `disconnect` completes under `d n`. -/
theorem C11_disconnect_resumed_completed (w : World) (pc : Pc) (n : Nat)
    (hp : w.fut = some pc) (hd : pc.isDisc = true) (hf : (w.execDirective (.d n)).fut = none) :
    (w.execDirective (.d n)).live = false ∨
    ∃ e, (w.execDirective (.d n)).lastRes = some (.error e) ∧ e.localRefusal = true := by
  rcases C11_disconnect_resumed_means_dead w pc (.d n) hp hd rfl with ⟨pc', hp', _⟩ | ⟨_, h⟩
  · rw [hf] at hp'; cases hp'
  · exact h

/-- **Over all programs.** After any program that leaves a handle (live or not), call `disconnect()` and
then drive it with any sequence of I/O decisions, `go`s and clock ticks. At every point of that sequence the
call is still suspended inside `disconnect`, or it has returned and the handle is dead — for good, by
`C11_dead_stays_dead` — or it had refused locally. -/
theorem C11_disconnect_run (cfg : Cfg) (ds : List Directive) (d : Disconnect) (rs : List Directive)
    (hc : (ds.foldl World.execDirective { sess := Session.new cfg }).conn.isSome = true)
    (hrs : ∀ r ∈ rs, r.isResume = true) :
    DiscDone (rs.foldl World.execDirective
      ((ds.foldl World.execDirective { sess := Session.new cfg }).execDirective (.disconnect d))) :=
  disc_resume_run rs _ hrs (disc_start _ d hc)

/-! ### Non-vacuity -/

/-- Only so that the examples below can be checked by evaluation. -/
local instance : DecidableEq (Except Err Unit) := fun a b =>
  match a, b with
  | .ok (), .ok () => isTrue rfl
  | .error x, .error y => if h : x = y then isTrue (by rw [h]) else isFalse (fun e => h (by cases e; rfl))
  | .ok (), .error _ => isFalse (fun e => by cases e)
  | .error _, .ok () => isFalse (fun e => by cases e)

def C11M_cfg : Cfg :=
  { rx := 64, tx := 128, keepaliveS := 0, expiry := 300, downgrade := false, clientId := [0x63], auth := none, will := none }

/-- connect, CONNACK (`go` runs the handshake), a QoS 0 publish suspended in its `write_all`. -/
def C11M_pre : List Directive :=
  [.connect, .rx [0x20, 0x03, 0x00, 0x00, 0x00], .go,
   .publish { qos := 0, retain := false, topic := [0x74], payload := .bytes [0x70], props := .slice [] }]

/-- Before the fault the handle is live and the publish is suspended at its write; the write then fails with
`ConnectionReset` (decision 252): the publish returns `Transport(ConnectionReset)`, nothing is suspended and
the handle is dead — a fatal result, as in `C11_fatal_result_means_dead`, and the hypotheses of
`C11_fatal_result_handle_is_dead`. -/
example :
    let w0 := C11M_pre.foldl World.execDirective { sess := Session.new C11M_cfg }
    let w := (C11M_pre ++ [Directive.d 252]).foldl World.execDirective { sess := Session.new C11M_cfg }
    w0.live = true ∧ (match w0.fut with | some (.q0Write _) => true | _ => false) = true ∧
    w.lastRes = some (.error (.transport 252)) ∧ (Err.transport 252).fatal = true ∧ w.live = false ∧
    w.conn.isSome = true ∧ w.fut.isNone = true := by
  decide +kernel

/-- End of stream while `poll()` waits for input (decision 251 on a read): `Disconnected`, dead handle. -/
example :
    let w := ([.connect, .rx [0x20, 0x03, 0x00, 0x00, 0x00], .go, .poll, .d 251] : List Directive).foldl
      World.execDirective { sess := Session.new C11M_cfg }
    w.lastRes = some (.error .disconnected) ∧ w.live = false ∧ w.fut.isNone = true := by
  decide +kernel

/-- A suspended `connect` (hypothesis of `C11_connect_in_progress_has_no_live_handle`): reconnecting from
a live handle, the CONNECT write pending. -/
example :
    let w := ([.connect, .rx [0x20, 0x03, 0x00, 0x00, 0x00], .go, .connect] : List Directive).foldl
      World.execDirective { sess := Session.new C11M_cfg }
    (match w.fut with | some pc => pc.isConn | none => false) = true ∧ w.live = false := by
  decide +kernel

/-- `disconnect()` on a live handle: suspended at the write of the DISCONNECT (an await point of
`disconnect`: the hypotheses of `C11_disconnect_resumed_means_dead`), then write and flush accepted
(`d 250` twice): it returns `Ok`, the handle is dead. -/
example :
    let pre : List Directive := [.connect, .rx [0x20, 0x03, 0x00, 0x00, 0x00], .go, .disconnect (Disconnect.build none none)]
    let w0 := pre.foldl World.execDirective { sess := Session.new C11M_cfg }
    let w := (pre ++ [Directive.d 250, Directive.d 250]).foldl World.execDirective { sess := Session.new C11M_cfg }
    (match w0.fut with | some pc => pc.isDisc | none => false) = true ∧ w0.live = true ∧
    w.fut.isNone = true ∧ w.lastRes = some (.ok ()) ∧ w.live = false := by
  decide +kernel

/-- The other disjunct is inhabited: a property that DISCONNECT does not allow (Maximum QoS) is refused
with `InvalidRequest` at once, and the handle stays live. -/
example :
    let w := ([.connect, .rx [0x20, 0x03, 0x00, 0x00, 0x00], .go,
      .disconnect { reason := some 0, props := some [{ kind := .MaximumQoS, val := .n 1 }] }] : List Directive).foldl
      World.execDirective { sess := Session.new C11M_cfg }
    w.fut.isNone = true ∧ w.lastRes = some (.error .invalidRequest) ∧ Err.invalidRequest.localRefusal = true ∧
    w.live = true := by
  decide +kernel

/-- So is the refusal after the preliminary flush: a DISCONNECT whose reason string does not fit the
control packet buffer (`CONTROL_PACKET_LEN` = 9 bytes) is refused with `BufferTooSmall` by the encoder; the handle stays live. -/
example :
    let w := ([.connect, .rx [0x20, 0x03, 0x00, 0x00, 0x00], .go,
      .disconnect { reason := some 0, props := some [{ kind := .ReasonString, val := .s (List.replicate 10 0x61) }] }] :
        List Directive).foldl World.execDirective { sess := Session.new C11M_cfg }
    w.fut.isNone = true ∧ w.lastRes = some (.error .bufferTooSmall) ∧ w.live = true := by
  decide +kernel

end Minimq
