import Minimq.Proofs.WireRel
import Minimq.Theorems.C06
/-
C03, whole machine — PUBREL on the wire: once per connection, only after the PUBREC, and never before
the PUBLISH it continues.

Ghost state (never printed; the driver's traces are unchanged). A release entry (`PendingRelease`, the
PUBREL the client owes) carries two ghost numbers: `rser`, its own serial, taken by `queue_release` from
the ghost counter `Outbound.nextRser`, and `pser`, the serial (`RetainedPacket.ser`) of the retained
PUBLISH that the PUBREC acknowledged (`Outbound.ackedSer`, computed in `handlePacket` before
`ack_packet` removes that entry). The transmission log tags a completely written PUBREL with
`.release rser pser id rc`. As for retained packets, the serial — not the identifier, which is reused —
names "the same PUBREL" at two moments of an execution and on two transports.

Proved for every program:

 * `C03_release_queue_agrees_with_log` (live connection, transport not marked torn — the analogue of
   `C02_retained_queue_agrees_with_log`): on the current transport the PUBREL serials in the log
   strictly increase (no PUBREL twice on this connection, in queue order); an entry in `Flush`/`Sent`
   is in the log with the bytes `62 03 id_hi id_lo rc`; an entry still waiting or partially written is
   not, and everything logged is older; the queue is in serial order and in front of a started entry
   everything is `Sent`.
 * `C03_pubrel_at_most_once_on_every_connection`: strictly increasing PUBREL serials on every
   transport that is not marked torn, current or earlier, live or dead.
 * `C03_release_entry_origin_step`: a step after which there is a release entry whose serial was not
   there before handled a PUBREC with a success code that removed, in that same step, the first retained
   entry with that identifier whose header is a QoS 2 PUBLISH (`CreatedAt`); every other step keeps the
   release entries (up to send state) or removes some.
 * `C03_pubrel_created_by_successful_pubrec`: along the execution, every release entry in the queue
   and every PUBREL in the log — on whichever transport — goes back to one particular such step.
 * `C03_pubrel_on_the_wire` (no condition on liveness or torn marks): a logged PUBREL has reason code
   Success and the five bytes above; the PUBLISH it continues (serial `t`) is no longer retained — so it
   can never be offered for transmission again (`C03_publish_never_returns`); two log entries with the
   same release serial, on the same or on different transports, are the same PUBREL (same `t`, identifier,
   bytes), and so are two that continue the same PUBLISH; every transmission of that PUBLISH that is in
   the log — on ANY transport — is a PUBLISH with the PUBREL's identifier and stands BEFORE the PUBREL in
   the log: behind a PUBREL there is no transmission of its PUBLISH.

 * `C03_publish_on_the_wire_before_pubrel` (live connection, transport not marked torn): the log of
   the current transport *contains* a transmission of the PUBLISH in front of every PUBREL whose release
   entry was created on this connection, and for every such release entry still queued. At the level of
   the session primitives this is false — `handle (.pubRec id _)` removes a retained QoS 2 PUBLISH in
   whatever send state, so a broker that acknowledges a PUBLISH it has not received gets a PUBREL for it.
   In the machine it holds because the operations flush before they read: `drive_packet` reads only when
   `next_step` has nothing left to do (`driveAfterService`), the reader never reads past the packet it is
   assembling, and nothing is queued between the read and the handling; the wire invariant now carries
   this ("nothing unsent" at `process_received_packet` and at the `waitRead` await, `IdlePre` /
   `DrivePre` in `Proofs/Wire.lean`), so when a PUBREC is handled every retained entry is `Sent` and
   therefore in the log of this transport. "Created on this connection" is read off one more ghost
   number, `Session.rmark`: the value of the release-serial counter at the moment the CONNACK of this
   connection was accepted (`C03_mark_set_only_by_connack`).

Still open: the same for a PUBREL that is retransmitted on a later connection than the one on which its
PUBREC was handled (serial below the mark). Its PUBLISH was in the log of the transport of that earlier
connection if that transport was not marked torn at the time; after the fact the state does not say
whether it was, and the wire invariant is not maintained on a torn transport.
-/
namespace Minimq
open Gen World Outbound

/-- **The release queue agrees with the log of the current transport.** After any program, on a live
connection whose transport is not marked torn, with `L` the log of the current transport:

 1. the PUBREL serials in `L` strictly increase — no PUBREL twice on this connection, in queue order;
 2. every serial in `L` is below the counter;
 3. a release entry in state `Flush` or `Sent` is in `L`, tagged with its serial, the serial of its
    PUBLISH, its identifier and reason code, with the bytes of the PUBREL packet;
 4. an entry still waiting or partially written is not in `L`, and every PUBREL in `L` is older;
 5. the release queue is in serial order, and in front of an entry that has been started (any state
    but "waiting for the first byte") every entry is `Sent`. -/
theorem C03_release_queue_agrees_with_log (cfg : Cfg) (ds : List Directive) :
    let w := ds.foldl World.execDirective { sess := Session.new cfg }
    let o := w.sess.data.outbound
    w.nets.length ∉ w.tornNets → w.live = true →
    (relSers w.curLog).Pairwise (· < ·) ∧
    (∀ r ∈ relSers w.curLog, r < o.nextRser) ∧
    (∀ e ∈ o.release, (e.state = .sent ∨ e.state = .flush) →
        (⟨w.nets.length, .release e.rser e.pser e.id e.rc, pubrelBytes e.id e.rc⟩ : LogEntry) ∈ w.curLog) ∧
    (∀ e ∈ o.release, ∀ n, e.state = .write n → ∀ r ∈ relSers w.curLog, r < e.rser) ∧
    (o.release.map (·.rser)).Pairwise (· < ·) ∧
    o.release.Pairwise (fun a c => c.state ≠ .write 0 → a.state = .sent) := by
  intro w o hnt hl
  have hinv := run_WInv ds { sess := Session.new cfg } (WInv_init cfg)
  have hlog := (hinv.curLog hnt hl).2.r
  refine ⟨hlog.sorted, hlog.below, fun e he hst => ?_, fun e he n hst => hlog.unwritten_entry he hst,
    hinv.sp.rel.inc, hlog.ord_entry⟩
  have := hlog.written e he hst
  simpa [relEntry, encodePubrel_eq, Except.toOption] using this

/-- **A PUBREL that is not completely written has not been on this wire.** -/
theorem C03_unfinished_pubrel_not_in_log (cfg : Cfg) (ds : List Directive) :
    let w := ds.foldl World.execDirective { sess := Session.new cfg }
    w.nets.length ∉ w.tornNets → w.live = true →
    ∀ e ∈ w.sess.data.outbound.release, ∀ n, e.state = .write n → e.rser ∉ relSers w.curLog := by
  intro w hnt hl e he n hst hm
  exact Nat.lt_irrefl _ ((C03_release_queue_agrees_with_log cfg ds hnt hl).2.2.2.1 e he n hst _ hm)

/-- **At most once on every connection, in order.** After any program, for every transport `k`
(ordinal, 1 = first) that is not marked torn — the current one in whatever state, or an earlier one —
the PUBREL serials in its part of the transmission log strictly increase: no PUBREL was handed to that
transport twice, and they went out in queue order. -/
theorem C03_pubrel_at_most_once_on_every_connection (cfg : Cfg) (ds : List Directive) :
    let w := ds.foldl World.execDirective { sess := Session.new cfg }
    ∀ k, 1 ≤ k → k ≤ w.nets.length → k ∉ w.tornNets →
      (relSers (w.log.filter (fun f => f.net == k))).Pairwise (· < ·) := by
  intro w k hk1 hk hnt
  exact ((run_WInv ds { sess := Session.new cfg } (WInv_init cfg)).log_sorted k hk1 hk hnt).2

/-- **Where a release entry comes from, step by step.** For any primitive step `s → s'`: the counter
does not decrease, and every release entry of `s'` either is an entry of `s` (same serial, same origin,
same identifier and reason code; the send state may differ), or was created by this step — and then
(`CreatedAt`) the step handled a PUBREC for the entry's identifier with a success code, the PUBREL fits
the broker's packet size limit, the first retained entry with that identifier whose header is a QoS 2
PUBLISH was removed in this same step and its serial is the entry's `pser`, and the entry was appended
at the end of the release queue with reason Success, waiting for its first byte, with the counter value
as its serial. -/
theorem C03_release_entry_origin_step {s s' : Session} (st : SessStep s s') :
    s.data.outbound.nextRser ≤ s'.data.outbound.nextRser ∧
    ∀ e' ∈ s'.data.outbound.release,
      (∃ e ∈ s.data.outbound.release, e.rser = e'.rser ∧ e.pser = e'.pser ∧ e.id = e'.id ∧ e.rc = e'.rc) ∨
      (e'.rser = s.data.outbound.nextRser ∧ e'.rc = RC_Success ∧ e'.state = .write 0 ∧
        CreatedAt s s' e'.rser e'.pser e'.id) := by
  obtain ⟨h1, h2⟩ := st.relStep
  refine ⟨h1, fun e' he' => ?_⟩
  rcases h2 e' he' with ⟨e, he, htag⟩ | ⟨id, rs, rfl, hc, rfl, _⟩
  · exact Or.inl ⟨e, he, tag_eq htag⟩
  · exact Or.inr ⟨rfl, rfl, rfl, createdAt_of_creates hc⟩

/-- `CreatedAt`, spelled out. -/
theorem C03_createdAt_iff (a b : Session) (r t id : Nat) :
    CreatedAt a b r t id ↔
      ∃ rs, b = (a.handle (.pubRec id rs)).1 ∧ reasonSuccess rs.rc = true ∧ a.rt.packetTooLarge 5 = false ∧
        a.data.outbound.nextRser = r ∧ b.data.outbound.nextRser = r + 1 ∧
        b.data.outbound.release = a.data.outbound.release ++ [⟨id, RC_Success, .write 0, r, t⟩] ∧
        ∃ l₁ e l₂, a.data.outbound.retained = l₁ ++ e :: l₂ ∧ (∀ x ∈ l₁, ackPred a.data.outbound id .pubRec x = false) ∧
          e.ser = t ∧ e.id = id ∧ AckKind.pubRec.acknowledges (a.data.outbound.headerAt e.offset) = true ∧
          b.data.outbound.keys = (l₁ ++ l₂).map RetainedPacket.key := Iff.rfl

/-- **Every PUBREL goes back to a successful PUBREC.** After any program the session has been reached
from the initial one by a chain of primitive steps (`Reach`). For every release entry in the queue, and
for every PUBREL in the transmission log — on whichever transport —, the chain contains one particular
step `a → b` that created its serial: the handling of a PUBREC with a success code which in the same
step removed the retained QoS 2 PUBLISH with that identifier (serial `t`). -/
theorem C03_pubrel_created_by_successful_pubrec (cfg : Cfg) (ds : List Directive) :
    let w := ds.foldl World.execDirective { sess := Session.new cfg }
    (∀ e ∈ w.sess.data.outbound.release,
      ∃ a b, Reach QuotaP (Session.new cfg) a ∧ SessStep a b ∧ Reach QuotaP b w.sess ∧ CreatedAt a b e.rser e.pser e.id) ∧
    (∀ g ∈ w.log, ∀ r t id rc, g.tag = .release r t id rc →
      ∃ a b, Reach QuotaP (Session.new cfg) a ∧ SessStep a b ∧ Reach QuotaP b w.sess ∧ CreatedAt a b r t id) := by
  intro w
  have h : RTraced QuotaP (Session.new cfg) w.sess w.log :=
    hrun (hclosed_RTraced closed_QuotaP (Session.new cfg)) ds { sess := Session.new cfg } (RTraced_init cfg (C06_init cfg))
  exact ⟨h.queue, h.logged⟩

theorem pairwise_split {α} {R : α → α → Prop} {l l1 l2 : List α} {g : α} (h : l.Pairwise R) (hl : l = l1 ++ g :: l2) :
    ∀ f ∈ l2, R g f := by
  subst hl
  rw [List.pairwise_append] at h
  exact (List.pairwise_cons.mp h.2.1).1

/-- **PUBREL on the wire, all transports.** After any program, for every entry `g` of the transmission
log tagged `.release r t id rc` (a completely written PUBREL, on whichever transport, torn or not):

 1. `rc` is Success and the bytes are the PUBREL packet `62 03 id_hi id_lo 00`;
 2. `r` and `t` have been handed out, and the PUBLISH with serial `t` is no longer retained;
 3. any other PUBREL in the log with the same serial `r`, or continuing the same PUBLISH `t`, is the
    same PUBREL: same `r`, `t`, identifier, reason code and bytes (a retransmitted PUBREL is identical);
 4. a release entry still queued with serial `r`, or continuing `t`, is that exchange;
 5. every log entry recording a transmission of the retained packet `t` is a PUBLISH with identifier `id`;
 6. and none of them stands behind `g`: if the log is `l1 ++ g :: l2`, no entry of `l2` has serial `t`.
    Every transmission of the PUBLISH, on any transport, precedes every transmission of its PUBREL. -/
theorem C03_pubrel_on_the_wire (cfg : Cfg) (ds : List Directive) :
    let w := ds.foldl World.execDirective { sess := Session.new cfg }
    let o := w.sess.data.outbound
    ∀ g ∈ w.log, ∀ r t id rc, g.tag = .release r t id rc →
      (rc = RC_Success ∧ g.bytes = pubrelBytes id rc) ∧
      (r < o.nextRser ∧ t < o.nextSer ∧ t ∉ o.retained.map (·.ser)) ∧
      (∀ g' ∈ w.log, ∀ r' t' id' rc', g'.tag = .release r' t' id' rc' → (r = r' ∨ t = t') →
          r = r' ∧ t = t' ∧ id = id' ∧ rc = rc' ∧ g.bytes = g'.bytes) ∧
      (∀ e ∈ o.release, (r = e.rser ∨ t = e.pser) → r = e.rser ∧ t = e.pser ∧ id = e.id ∧ rc = e.rc) ∧
      (∀ f ∈ w.log, ∀ i, f.tag = .retained t i → i = id ∧ isPubPkt f.bytes = true) ∧
      (∀ l1 l2, w.log = l1 ++ g :: l2 → ∀ f ∈ l2, f.ser? ≠ some t) := by
  intro w o g hg r t id rc ht
  have h : RHist w.sess w.log := hrun hclosed_RHist ds { sess := Session.new cfg } (RHist_init cfg)
  obtain ⟨b1, b2, b3, b4, b5⟩ := h.lbelow g hg r t id rc ht
  refine ⟨⟨b4, b5⟩, ⟨b1, b2, b3⟩, ?_, fun e he hor => h.lcur g hg e he r t id rc ht hor,
    fun f hf i hft => h.lid g hg f hf r t id rc i ht hft, fun l1 l2 hl f hf => pairwise_split h.order hl f hf r t id rc ht⟩
  intro g' hg' r' t' id' rc' ht' hor
  obtain ⟨c1, c2, c3, c4⟩ := h.lsame g hg g' hg' r t id rc r' t' id' rc' ht ht' hor
  refine ⟨c1, c2, c3, c4, ?_⟩
  rw [b5, (h.lbelow g' hg' r' t' id' rc' ht').2.2.2.2, c3, c4]

/-- **The mark of the current connection.** Of all the primitives only `activate` on an acceptable
CONNACK writes `rmark`, and it writes the current value of the release-serial counter (which it leaves
as it is): from then on `rmark ≤ e.rser` says that the release entry `e` was created on this connection. -/
theorem C03_mark_set_only_by_connack {s s' : Session} (h : Prim s s') :
    s'.rmark = s.rmark ∨
    ∃ sp block now, s' = (s.activate sp block now).1 ∧ (s.activate sp block now).2 = .ok () ∧
      s'.rmark = s'.data.outbound.nextRser ∧ s'.data.outbound.nextRser = s.data.outbound.nextRser :=
  h.rmark_changes

/-- **The PUBLISH is on the wire before its PUBREL.** Run any program from the initial world and let `w`
be the world it ends in. If the connection is live and no operation-local write was dropped on the
current transport, then

 1. for every release entry `e` created on this connection (`rmark ≤ e.rser`) the log of the current
    transport contains a transmission of the retained packet `e.pser` under the identifier `e.id`, and
    it is a PUBLISH;
 2. for every PUBREL `g` in the log of the current transport whose release entry was created on this
    connection (`rmark ≤ r`), wherever `g` stands in that log (`curLog = l1 ++ g :: l2`), a transmission of
    its PUBLISH — serial `t`, the PUBREL's identifier, a PUBLISH packet — stands in front of it (in `l1`),
    and none stands behind it.

With `C02_logged_packets_are_on_the_wire` (the logged packets are on the wire in log order): on this
connection the bytes of the PUBLISH were accepted by the transport before the bytes of its PUBREL. -/
theorem C03_publish_on_the_wire_before_pubrel (cfg : Cfg) (ds : List Directive) :
    let w := ds.foldl World.execDirective { sess := Session.new cfg }
    w.nets.length ∉ w.tornNets → w.live = true →
    (∀ e ∈ w.sess.data.outbound.release, w.sess.rmark ≤ e.rser →
      ∃ f ∈ w.curLog, f.tag = .retained e.pser e.id ∧ isPubPkt f.bytes = true) ∧
    (∀ g r t id rc l1 l2, g.tag = .release r t id rc → w.sess.rmark ≤ r → w.curLog = l1 ++ g :: l2 →
      (∃ f ∈ l1, f.tag = .retained t id ∧ isPubPkt f.bytes = true) ∧ ∀ f ∈ l2, f.ser? ≠ some t) := by
  intro w hnt hl
  have hinv := run_WInv ds { sess := Session.new cfg } (WInv_init cfg)
  have hrp := hinv.relpub hnt hl
  have h : RHist w.sess w.log := hrun hclosed_RHist ds { sess := Session.new cfg } (RHist_init cfg)
  have hsub : w.curLog.Sublist w.log := List.filter_sublist
  refine ⟨?_, ?_⟩
  · intro e he hm
    obtain ⟨f, hf, ht⟩ := hrp.queue e he hm
    exact ⟨f, hf, ht, (h.qid e he f (hsub.subset hf) e.id ht).2⟩
  · intro g r t id rc l1 l2 hg hm hsplit
    have hgm : g ∈ w.curLog := by rw [hsplit]; simp
    have horder : w.curLog.Pairwise (fun a c => ∀ r t id rc, a.tag = .release r t id rc → c.ser? ≠ some t) :=
      h.order.sublist hsub
    have hbehind : ∀ f ∈ l2, f.ser? ≠ some t := fun f hf => pairwise_split horder hsplit f hf r t id rc hg
    refine ⟨?_, hbehind⟩
    obtain ⟨f, hf, ht⟩ := hrp.logged g hgm r t id rc hg hm
    have hpub := (h.lid g (hsub.subset hgm) f (hsub.subset hf) r t id rc id hg ht).2
    rw [hsplit] at hf
    rcases List.mem_append.mp hf with h1 | h1
    · exact ⟨f, h1, ht, hpub⟩
    · rcases List.mem_cons.mp h1 with rfl | h2
      · rw [hg] at ht; cases ht
      · exact absurd (by simp [LogEntry.ser?, ht]) (hbehind f h2)

/-- **The release queue, all states.** After any program: the release serials along the queue strictly
increase and are below the counter; the PUBLISH each entry continues has been handed a serial and is no
longer retained; the entry asks for reason Success; no two entries continue the same PUBLISH; and every
transmission of that PUBLISH in the log, on any transport, is a PUBLISH with the entry's identifier. -/
theorem C03_release_queue_all_programs (cfg : Cfg) (ds : List Directive) :
    let w := ds.foldl World.execDirective { sess := Session.new cfg }
    let o := w.sess.data.outbound
    (o.release.map (·.rser)).Pairwise (· < ·) ∧ (∀ e ∈ o.release, e.rser < o.nextRser) ∧
    (∀ e ∈ o.release, e.pser < o.nextSer ∧ e.pser ∉ o.retained.map (·.ser) ∧ e.rc = RC_Success) ∧
    (∀ e1 ∈ o.release, ∀ e2 ∈ o.release, e1.pser = e2.pser → e1 = e2) ∧
    (∀ e ∈ o.release, ∀ f ∈ w.log, ∀ i, f.tag = .retained e.pser i → i = e.id ∧ isPubPkt f.bytes = true) := by
  intro w o
  have h : RHist w.sess w.log := hrun hclosed_RHist ds { sess := Session.new cfg } (RHist_init cfg)
  exact ⟨h.rel.inc, h.rel.lt, h.qgone, fun e1 h1 e2 h2 hp => rser_inj h.rel h1 h2 (h.qinj e1 h1 e2 h2 hp), h.qid⟩

/-! ### Non-vacuity -/

def C03Wire_cfg : Cfg :=
  { rx := 64, tx := 128, keepaliveS := 0, expiry := 300, downgrade := false, clientId := [0x63], auth := none, will := none }

/-- A QoS 2 publish, written and flushed; its PUBREC (success) arrives and `poll` handles it and sends
the PUBREL; the connection is dropped before the PUBCOMP; the session is resumed (CONNACK with session
present) and `poll` replays the PUBREL. -/
def C03Wire_prog : List Directive :=
  [.connect, .rx [0x20, 0x03, 0x00, 0x00, 0x00], .go,
   .publish { qos := 2, retain := false, topic := [0x74], payload := .bytes [0x70], props := .slice [] }, .go,
   .rx [0x50, 0x02, 0x00, 0x01], .poll, .go,
   .drop, .connect, .rx [0x20, 0x03, 0x01, 0x00, 0x00], .go, .poll, .go]

/-- The hypotheses hold; the log has three entries: the PUBLISH (serial 0, identifier 1) and the PUBREL
(release serial 0, continuing PUBLISH 0, identifier 1) on transport 1, and the same PUBREL again — same
bytes — on transport 2, where it is the only packet after the CONNECT; the release entry is `Sent`, the
PUBLISH is no longer retained. -/
example :
    let w := C03Wire_prog.foldl World.execDirective { sess := Session.new C03Wire_cfg }
    w.nets.length ∉ w.tornNets ∧ w.live = true ∧ w.nets.length = 2 ∧
    w.log = [⟨1, .retained 0 1, [0x34, 0x07, 0x00, 0x01, 0x74, 0x00, 0x01, 0x00, 0x70]⟩,
             ⟨1, .release 0 0 1 0, [0x62, 0x03, 0x00, 0x01, 0x00]⟩,
             ⟨2, .release 0 0 1 0, [0x62, 0x03, 0x00, 0x01, 0x00]⟩] ∧
    relSers w.curLog = [0] ∧
    w.curNet.wire.drop 29 = ([0x62, 0x03, 0x00, 0x01, 0x00] : Bytes) ∧
    w.sess.data.outbound.release = [⟨1, 0, .sent, 0, 0⟩] ∧ w.sess.data.outbound.retained = [] := by
  decide +kernel

/-- Non-vacuity of `C03_publish_on_the_wire_before_pubrel`: the same history up to the PUBREL (before the
drop). The release entry was created on this connection (mark 0, serial 0) and the log of the transport
is the PUBLISH followed by its PUBREL. After the resumed reconnect (whole program) the mark is 1: the
replayed PUBREL, serial 0, belongs to the earlier connection. -/
example :
    let w := (C03Wire_prog.take 8).foldl World.execDirective { sess := Session.new C03Wire_cfg }
    let w' := C03Wire_prog.foldl World.execDirective { sess := Session.new C03Wire_cfg }
    w.nets.length ∉ w.tornNets ∧ w.live = true ∧ w.sess.rmark = 0 ∧
    w.sess.data.outbound.release.map (·.rser) = [0] ∧
    w.curLog.map (·.tag) = [.retained 0 1, .release 0 0 1 0] ∧
    w'.sess.rmark = 1 ∧ w'.sess.data.outbound.release.map (·.rser) = [0] := by
  decide +kernel

end Minimq
