import Minimq.Proofs.SessionFacts
/-
C14 — Maximum Packet Size is honoured in both directions.

Outbound: `Runtime.maximumPacketSize` is the Maximum Packet Size of the current CONNACK (set by
`Session.activate`, `none` when the broker sent none). Everything the client transmits after the
handshake goes out through `perform_outbound_step` (`prepareStep`: acknowledgements, PINGREQ, PUBREL,
retained PUBLISH/SUBSCRIBE/UNSUBSCRIBE) or through the two operation-local writes (`doLocalWrite`
with `which = 1` QoS 0 PUBLISH, `which = 2` DISCONNECT); each is guarded by `packet_too_large`.
Inbound: CONNECT advertises the size of the receive buffer, and the packet reader refuses a packet
announced longer than that buffer.
-/
namespace Minimq
open Gen World Outbound

/-- **Queued packets.** Whatever `perform_outbound_step` starts or continues to write — an
acknowledgement, a PINGREQ, a PUBREL or a retained PUBLISH / SUBSCRIBE / UNSUBSCRIBE (first
transmission or replay) — is no longer than the broker's Maximum Packet Size, when one is set. -/
theorem C14_outbound_step_within_limit (w : World) (step : Outbound.Step) (pkt : Flushed) (bytes : Bytes)
    (written len m : Nat) (h : prepareStep w step = .write pkt bytes written len)
    (hm : w.sess.rt.maximumPacketSize = some m) : bytes.length ≤ m ∧ len ≤ m := by
  obtain ⟨h1, h2⟩ := prepareStep_write_within w step pkt bytes written len h
  have := (packetTooLarge_false_iff _ _).1 h1 m hm
  exact ⟨by omega, this⟩

/-- Non-vacuity: with a limit of 4 a queued PUBACK (5 bytes) is refused, with a limit of 5 it is written. -/
example :
    let w (m : Nat) : World := { sess := { Session.new
      { rx := 64, tx := 64, keepaliveS := 0, expiry := 0, downgrade := false, clientId := [], auth := none, will := none }
      with rt := { keepaliveMs := 0, configuredKeepaliveMs := 0, maximumPacketSize := some m } } }
    let step := Outbound.Step.control { typ := MT_PubAck, id := 7, rc := 0 } (.write 0)
    (match prepareStep (w 4) step with | .fail .packetTooLarge => true | _ => false) = true ∧
    (match prepareStep (w 5) step with | .write _ bytes 0 5 => bytes == [b 0x40, b 3, b 0, b 7, b 0] | _ => false) = true := by
  decide

/-- **QoS 0 PUBLISH.** The packet is encoded into the scratch space and then either refused or
handed to the transport; it is handed to the transport only if it is within the limit. -/
theorem C14_qos0_publish_within_limit (fuel : Nat) (w : World) (r : PubReq)
    (hv : r.props.validFor .Publish = true) (hq : effectiveQos w.sess.rt.maxQos w.sess.downgrade r.qos = 0)
    (hready : (w.live && canPublishS w.sess.data w.sess.rt 0) = true) :
    let w' : World := { w with sess := (w.sess.encode (q0Enc r)).1 }
    (∃ e, afterFlush (fuel + 1) w (.publishPre r) = w'.finishErr "publish" e) ∨
    (∃ bytes, afterFlush (fuel + 1) w (.publishPre r) = doLocalWrite fuel w' 1 bytes ∧
      ∀ m, w.sess.rt.maximumPacketSize = some m → bytes.length ≤ m) :=
  afterFlush_publishPre_q0_within fuel w r hv hq hready

/-- An oversize QoS 0 PUBLISH fails with `PacketTooLarge`: nothing is written to any transport and
the session differs only in scratch bytes of the arena. -/
theorem C14_qos0_publish_too_large (fuel : Nat) (w : World) (r : PubReq) (off len : Nat)
    (hinv : w.sess.data.outbound.ArenaInv)
    (hv : r.props.validFor .Publish = true) (hq : effectiveQos w.sess.rt.maxQos w.sess.downgrade r.qos = 0)
    (hready : (w.live && canPublishS w.sess.data w.sess.rt 0) = true)
    (hres : (w.sess.encode (q0Enc r)).2 = .ok (off, len)) (hbig : w.sess.rt.packetTooLarge len = true) :
    let w' := afterFlush (fuel + 1) w (.publishPre r)
    w'.lastRes = some (.error .packetTooLarge) ∧ w'.fut = none ∧ w'.nets = w.nets ∧ w'.conn = w.conn ∧
    SameButScratch w.sess w'.sess := by
  intro w'
  have : w' = ({ w with sess := (w.sess.encode (q0Enc r)).1 } : World).finishErr "publish" .packetTooLarge := by
    show afterFlush (fuel + 1) w (.publishPre r) = _
    rw [afterFlush_publishPre_q0 fuel w r hv hq hready]
    simp only [hres, encode_rt, hbig, if_true]
  rw [this]
  exact ⟨rfl, rfl, rfl, rfl, encode_same _ _ hinv (EncOk_encodePublish _ _)⟩

/-- **DISCONNECT.** It is encoded into a local buffer and handed to the transport only if it is
within the limit; otherwise `disconnect()` fails with `PacketTooLarge` and world and session are
exactly as before (nothing sent, nothing retained). -/
theorem C14_disconnect_within_limit (fuel : Nat) (w : World) (d : Disconnect) :
    (∃ e, afterFlush (fuel + 1) w (.discPre d) = w.finishErr "disconnect" e) ∨
    (∃ off pkt, encodeWithOffset CONTROL_PACKET_LEN d.chunks MT_Disconnect FLAGS_Disconnect = .ok (off, pkt) ∧
      afterFlush (fuel + 1) w (.discPre d) = doLocalWrite fuel w 2 pkt ∧
      ∀ m, w.sess.rt.maximumPacketSize = some m → pkt.length ≤ m) := by
  rw [afterFlush_discPre]
  split
  · exact Or.inl ⟨_, rfl⟩
  · rename_i off pkt henc
    split
    · exact Or.inl ⟨_, rfl⟩
    · rename_i hbig
      simp only [Bool.not_eq_true] at hbig
      exact Or.inr ⟨off, pkt, henc, rfl, (packetTooLarge_false_iff _ _).1 hbig⟩

/-- An oversize DISCONNECT: `disconnect()` fails with `PacketTooLarge`; the world is the one before the
call with the result recorded — nothing was written, nothing queued, and the connection stays as it was. -/
theorem C14_disconnect_too_large (fuel : Nat) (w : World) (d : Disconnect) (off : Nat) (pkt : Bytes)
    (henc : encodeWithOffset CONTROL_PACKET_LEN d.chunks MT_Disconnect FLAGS_Disconnect = .ok (off, pkt))
    (hbig : w.sess.rt.packetTooLarge pkt.length = true) :
    afterFlush (fuel + 1) w (.discPre d) = w.finishErr "disconnect" .packetTooLarge := by
  rw [afterFlush_discPre, henc]
  simp only [hbig, if_true]

/-- Non-vacuity: a plain DISCONNECT is two bytes; with a limit of 1 it is refused. -/
example : encodeWithOffset CONTROL_PACKET_LEN (Disconnect.build none none).chunks MT_Disconnect FLAGS_Disconnect =
    .ok (3, [b 0xE0, b 0]) ∧
    ({ keepaliveMs := 0, configuredKeepaliveMs := 0, maximumPacketSize := some 1 } : Runtime).packetTooLarge 2 = true :=
  ⟨rfl, rfl⟩

/-- **SUBSCRIBE.** When the encoded packet exceeds the limit, `subscribe()` fails with
`PacketTooLarge`; nothing is written to any transport and the session differs from the session
before the call only in the packet-identifier counter and in scratch bytes of the arena: the three
queues (identifiers, send states, order), the bytes of every retained packet, the send quota and
everything else are unchanged. -/
theorem C14_subscribe_too_large (fuel : Nat) (w : World) (r : SubReq) (off len : Nat)
    (hinv : w.sess.data.outbound.ArenaInv) (hfull : w.sess.data.outbound.retainedFull = false)
    (hres : (w.sess.alloc.1.encode (subEnc w.sess.alloc.2 r)).2 = .ok (off, len))
    (hbig : w.sess.rt.packetTooLarge len = true) :
    let w' := afterFlush (fuel + 1) w (.subPre r)
    w'.lastRes = some (.error .packetTooLarge) ∧ w'.fut = none ∧ w'.nets = w.nets ∧ w'.conn = w.conn ∧
    SameButScratch w.sess w'.sess := by
  intro w'
  have : w' = _ := afterFlush_subPre_tooLarge fuel w r off len hfull hres hbig
  rw [this]
  exact ⟨rfl, rfl, rfl, rfl, alloc_encode_same _ _ hinv (EncOk_encodeWithOffset _ _ _)⟩

/-- Non-vacuity of the hypotheses of `C14_subscribe_too_large`: a live connection whose broker
announced a Maximum Packet Size of 4, and a SUBSCRIBE that encodes to 9 bytes. -/
example :
    let s0 := Session.new { rx := 64, tx := 64, keepaliveS := 0, expiry := 0, downgrade := false, clientId := [], auth := none, will := none }
    let w : World := { sess := { s0 with rt := { s0.rt with maximumPacketSize := some 4 } }, conn := some { live := true, resumed := false } }
    let r : SubReq := { props := [], topics := [{ topic := [b 0x61], opts := { maxQos := 0, noLocal := false, rap := false, rh := 0 } }] }
    w.sess.data.outbound.retainedFull = false ∧
    (w.sess.alloc.1.encode (subEnc w.sess.alloc.2 r)).2 = .ok (3, 9) ∧
    w.sess.rt.packetTooLarge 9 = true ∧
    (afterFlush 1 w (.subPre r)).lastRes = some (.error .packetTooLarge) := by
  intro s0 w r
  have h1 : w.sess.data.outbound.retainedFull = false := rfl
  have h2 : (w.sess.alloc.1.encode (subEnc w.sess.alloc.2 r)).2 = .ok (3, 9) := rfl
  have h3 : w.sess.rt.packetTooLarge 9 = true := rfl
  exact ⟨h1, h2, h3, (C14_subscribe_too_large 0 w r 3 9 (ArenaInv_new 64) h1 h2 h3).1⟩
/-- **UNSUBSCRIBE**: the same. -/
theorem C14_unsubscribe_too_large (fuel : Nat) (w : World) (r : UnsubReq) (off len : Nat)
    (hinv : w.sess.data.outbound.ArenaInv) (hfull : w.sess.data.outbound.retainedFull = false)
    (hres : (w.sess.alloc.1.encode (unsubEnc w.sess.alloc.2 r)).2 = .ok (off, len))
    (hbig : w.sess.rt.packetTooLarge len = true) :
    let w' := afterFlush (fuel + 1) w (.unsubPre r)
    w'.lastRes = some (.error .packetTooLarge) ∧ w'.fut = none ∧ w'.nets = w.nets ∧ w'.conn = w.conn ∧
    SameButScratch w.sess w'.sess := by
  intro w'
  have : w' = _ := afterFlush_unsubPre_tooLarge fuel w r off len hfull hres hbig
  rw [this]
  exact ⟨rfl, rfl, rfl, rfl, alloc_encode_same _ _ hinv (EncOk_encodeWithOffset _ _ _)⟩

/-- **PUBLISH with QoS 1 or 2**: the same; in particular the send quota is not consumed. -/
theorem C14_publish_too_large (fuel : Nat) (w : World) (r : PubReq) (qos off len : Nat)
    (hinv : w.sess.data.outbound.ArenaInv)
    (hv : r.props.validFor .Publish = true) (hq : effectiveQos w.sess.rt.maxQos w.sess.downgrade r.qos = qos)
    (hpos : 0 < qos) (hfull : w.sess.data.outbound.retainedFull = false)
    (hready : (w.live && canPublishS w.sess.data w.sess.rt qos) = true)
    (hres : (w.sess.alloc.1.encode (pubEnc w.sess.alloc.2 qos r)).2 = .ok (off, len))
    (hbig : w.sess.rt.packetTooLarge len = true) :
    let w' := afterFlush (fuel + 1) w (.publishPre r)
    w'.lastRes = some (.error .packetTooLarge) ∧ w'.fut = none ∧ w'.nets = w.nets ∧ w'.conn = w.conn ∧
    SameButScratch w.sess w'.sess ∧ w'.sess.rt.sendQuota = w.sess.rt.sendQuota := by
  intro w'
  have : w' = _ := afterFlush_publishPre_tooLarge fuel w r qos off len hv hq hpos hfull hready hres hbig
  rw [this]
  have hs := alloc_encode_same w.sess (pubEnc w.sess.alloc.2 qos r) hinv (EncOk_encodePublish _ _)
  exact ⟨rfl, rfl, rfl, rfl, hs, by rw [finishErr_sess]; exact congrArg _ hs.rt⟩

/-- Non-vacuity of the hypotheses of `C14_publish_too_large`: a QoS 1 PUBLISH of 10 bytes against a
Maximum Packet Size of 9. -/
example :
    let s0 := Session.new { rx := 64, tx := 64, keepaliveS := 0, expiry := 0, downgrade := false, clientId := [], auth := none, will := none }
    let w : World := { sess := { s0 with rt := { s0.rt with maximumPacketSize := some 9 } }, conn := some { live := true, resumed := false } }
    let r : PubReq := { qos := 1, retain := false, topic := [b 0x61], payload := .bytes [b 1, b 2], props := .slice [] }
    (afterFlush 1 w (.publishPre r)).lastRes = some (.error .packetTooLarge) ∧
    (afterFlush 1 w (.publishPre r)).sess.rt.sendQuota = w.sess.rt.sendQuota := by
  intro s0 w r
  have hv : r.props.validFor .Publish = true := rfl
  have hq : effectiveQos w.sess.rt.maxQos w.sess.downgrade r.qos = 1 := rfl
  have hfull : w.sess.data.outbound.retainedFull = false := rfl
  have hready : (w.live && canPublishS w.sess.data w.sess.rt 1) = true := rfl
  have hres : (w.sess.alloc.1.encode (pubEnc w.sess.alloc.2 1 r)).2 = .ok (3, 10) := rfl
  have hbig : w.sess.rt.packetTooLarge 10 = true := rfl
  have := C14_publish_too_large 0 w r 1 3 10 (ArenaInv_new 64) hv hq (by decide) hfull hready hres hbig
  exact ⟨this.1, this.2.2.2.2.2⟩
/-- The arena hypothesis of the three theorems above holds in every reachable state (C17). -/
theorem C14_arena_hypothesis_reachable (cfg : Cfg) (ds : List Directive) :
    (ds.foldl World.execDirective { sess := Session.new cfg }).sess.data.outbound.ArenaInv :=
  (run_inv (closed_ArenaP (Session.new cfg).data.outbound) ds { sess := Session.new cfg }
    ⟨⟨ArenaInv_new cfg.tx, ⟨by simp [Session.new, Outbound.new], by simp [Session.new, Outbound.new]⟩⟩,
      Keeps.refl _, rfl⟩).1.1

/-- **Mandatory acknowledgements.** PUBACK, PUBREC, PUBREL and PUBCOMP are five bytes long in this
client. When the broker's Maximum Packet Size is below that, the inbound packet that calls for the
acknowledgement (QoS 1 PUBLISH, QoS 2 PUBLISH, successful PUBREC of a retained publish, PUBREL) makes
`handle_packet` fail with `PacketTooLarge`; no acknowledgement and no release entry is queued. -/
theorem C14_inbound_ack_too_large (d : SessionData) (r : Runtime) (m : Nat)
    (hm : r.maximumPacketSize = some m) (hlt : m < 5) :
    (∀ topic props payload id retain dup, id ≠ 0 →
      handlePacket d r (.publish topic (some id) props payload retain 1 dup) = (d, r, .error .packetTooLarge)) ∧
    (∀ topic props payload id retain dup, id ≠ 0 →
      (handlePacket d r (.publish topic (some id) props payload retain 2 dup)).2.2 = .error .packetTooLarge ∧
      (handlePacket d r (.publish topic (some id) props payload retain 2 dup)).1.outbound = d.outbound) ∧
    (∀ id rs, id ≠ 0 →
      (handlePacket d r (.pubRel id rs)).2.2 = .error .packetTooLarge ∧
      (handlePacket d r (.pubRel id rs)).1.outbound = d.outbound) ∧
    (∀ id rs, (d.outbound.ackPacket id .pubRec).2 = true → reasonSuccess rs.rc = true →
      (handlePacket d r (.pubRec id rs)).2.2 = .error .packetTooLarge ∧
      (handlePacket d r (.pubRec id rs)).1.outbound.release = d.outbound.release) :=
  ⟨fun topic props payload id retain dup hid => handlePacket_publish_q1_tooLarge d r topic props payload id retain dup hid m hm hlt,
   fun topic props payload id retain dup hid => handlePacket_publish_q2_tooLarge d r topic props payload id retain dup hid m hm hlt,
   fun id rs hid => handlePacket_pubRel_tooLarge d r id rs hid m hm hlt,
   fun id rs hf hok => handlePacket_pubRec_tooLarge d r id rs hf hok m hm hlt⟩

/-- …and `handle_packet` reports `PacketTooLarge` in no other situation. -/
theorem C14_inbound_too_large_only_below_ack_size (d : SessionData) (r : Runtime) (p : Recv)
    (h : (handlePacket d r p).2.2 = .error .packetTooLarge) : ∃ m, r.maximumPacketSize = some m ∧ m < 5 :=
  handlePacket_tooLarge_only d r p h

/-- **…the connection is closed instead.** When `handle_packet` reports `PacketTooLarge`,
`process_received_packet` disconnects: the handle is dead, the error is returned to the caller. -/
theorem C14_inbound_too_large_closes (w : World) (len : Nat) (pkt : Recv)
    (hav : w.sess.reader.packetAvailable = true) (htake : w.sess.takePkt.2 = some (len, pkt))
    (hh : (w.sess.takePkt.1.handle pkt).2 = .error .packetTooLarge) :
    w.processReceivedPacket.2 = .error .packetTooLarge ∧ w.processReceivedPacket.1.live = false ∧
    w.processReceivedPacket.1.sess = (w.sess.takePkt.1.handle pkt).1.handleDisconnect ∧
    w.processReceivedPacket.1.nets = w.nets := by
  rw [processReceivedPacket_tooLarge w len pkt hav htake hh]
  exact ⟨rfl, handleDisconnect_live _, rfl, rfl⟩

/-- Non-vacuity: the four acknowledgements really are five bytes. -/
example : encodeControl { typ := MT_PubAck, id := 258, rc := 0 } = .ok [b 0x40, b 3, b 1, b 2, b 0] ∧
    encodePubrel 258 0 = .ok [b 0x62, b 3, b 1, b 2, b 0] := ⟨rfl, rfl⟩

/-- **CONNECT advertises the receive buffer.** The Maximum Packet Size property of every CONNECT is
the size of the receive buffer… -/
theorem C14_connect_advertises_receive_buffer (s : Session) :
    s.connectPacket.props = .slice (connectProps s.reader.cap s.expiry) ∧
    ({ kind := .MaximumPacketSize, val := .n s.reader.cap } : Property) ∈ connectProps s.reader.cap s.expiry ∧
    (∀ p ∈ connectProps s.reader.cap s.expiry, p.kind = .MaximumPacketSize → p.val = .n s.reader.cap) := by
  refine ⟨rfl, by simp [connectProps], ?_⟩
  intro p hp hk
  simp only [connectProps, List.mem_cons, List.mem_singleton, List.not_mem_nil, or_false] at hp
  rcases hp with rfl | rfl | rfl
  · rfl
  · cases hk
  · cases hk

/-- …and that size is the configured `rx` in every reachable state. -/
theorem C14_receive_buffer_size_constant (cfg : Cfg) (ds : List Directive) :
    (ds.foldl World.execDirective { sess := Session.new cfg }).sess.reader.cap = cfg.rx :=
  run_inv (closed_readerCap cfg.rx) ds { sess := Session.new cfg } rfl

/-- **An oversize inbound packet is refused.** When the length announced in the fixed header
(known already, or just probed) exceeds the receive buffer, `receive_buffer` fails… -/
theorem C14_reader_refuses_oversize (r : Reader) (l : Nat) (hl : r.cap < l) :
    (r.packetLength = some l → r.receiveWindow = none) ∧
    (r.packetLength = none → 1 < r.data.length → probeLen (r.data.drop 1) 0 0 = some l → r.receiveWindow = none) :=
  ⟨fun h => receiveWindow_none_of_long r l h hl, fun hn h2 hp => receiveWindow_none_of_probe_long r l hn h2 hp hl⟩

/-- …and the wait loop of `poll()`/`recv()` as well as the handshake then end the connection with an
error instead of reading on. -/
theorem C14_oversize_inbound_ends_connection (fuel : Nat) (w : World)
    (hav : w.sess.reader.packetAvailable = false) (hw : w.sess.reader.receiveWindow = none) :
    (∀ outer d y, doWaitRead (fuel + 1) w outer d y = (w.handleDisconnect).finishErr (outerName outer) .peerInvalid) ∧
    doConnRead (fuel + 1) w = (w.handleDisconnect).finishErr "connect" .peerInvalid ∧
    ((w.handleDisconnect).finishErr "connect" .peerInvalid).live = false :=
  ⟨fun outer d y => doWaitRead_window_none fuel w outer d y hav ((window_none_iff _).2 hw),
   doConnRead_window_none fuel w hav ((window_none_iff _).2 hw), by simp⟩

/-- **The buffer is never overrun.** `receive_buffer` changes neither the bytes nor the size of the
buffer; every non-empty window it offers ends inside the buffer, and as long as the committed bytes
fit (which one read into the offered window preserves) so does every window. -/
theorem C14_reader_window_within_buffer (r r1 : Reader) (n : Nat) (h : r.receiveWindow = some (r1, n)) :
    r1.cap = r.cap ∧ r1.data = r.data ∧ r1.last = r.last ∧
    (0 < n → r1.data.length + n ≤ r1.cap) ∧ (r.data.length ≤ r.cap → r1.data.length + n ≤ r1.cap) :=
  receiveWindow_spec r r1 n h

/-- One read into the window offered (the transport returns at most `window` bytes) followed by the
commit keeps the committed bytes inside the buffer — so the hypothesis of the last clause above is
re-established by every read of the wait loop and of the handshake. -/
theorem C14_read_stays_within_buffer (s s1 : Session) (n : Nat) (w w' : World) (bytes : Bytes)
    (hb : s.reader.data.length ≤ s.reader.cap) (hw : s.window = some (s1, n)) (hr : w.ioRead n = (w', .ok bytes)) :
    (s1.commit bytes).reader.data.length ≤ (s1.commit bytes).reader.cap ∧ (s1.commit bytes).reader.cap = s.reader.cap :=
  window_read_commit_bound s s1 n w w' bytes hb hw hr

/-- Non-vacuity: a 16-byte buffer holding the first two bytes of a packet that announces 2 + 20 bytes
refuses it; one announcing 2 + 14 bytes gets a window of 14. -/
example :
    ({ cap := 16, data := [b 0x30, b 20], packetLength := none, last := [] } : Reader).receiveWindow = none ∧
    (({ cap := 16, data := [b 0x30, b 14], packetLength := none, last := [] } : Reader).receiveWindow.map (·.2)) = some 14 := by
  decide

end Minimq
