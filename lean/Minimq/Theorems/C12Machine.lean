import Minimq.Proofs.ConnectMachine
import Minimq.Theorems.C12
import Minimq.Theorems.C14
/-
C12, machine level — a later `connect()` over a healthy transport to a conformant broker succeeds,
whatever happened before: the whole handshake, with I/O decisions, as a bounded-liveness theorem.

Setting. `w` is any world (whatever happened before: the only hypotheses are the lifted arena
invariant, which every reachable world has — `C14_arena_hypothesis_reachable` — and that no I/O
decision is left over, which the interpreter guarantees between directives: `d`, `go` clear it).
The application calls `connect()` (`Directive.connect`); the broker's answer `ack` arrives on the new
transport (`Directive.rx ack`); the transport then takes any decisions `d k` with `1 ≤ k ≤ 250`
("healthy": accept/deliver between 1 and k bytes, never an error, never end of stream), in any
number and any fragmentation. `runDs ks W` feeds the decisions `ks`.

`hsP w pkt ack` collects what stays fixed (older transports, session after the resets and the
encoding of CONNECT, CONNECT `pkt`, answer, time); `(hsP w pkt ack).taken` is that session when the
answer has been taken out of the reader (`last = ack`, reader empty, keep-alive deadlines cleared).

The hypothesis "CONNECT fits" is `encodeConnect room connectPacket = .ok (off, pkt)`; by
`C12_connect_fits_iff` it holds iff `5 + |body| ≤ capacity − Σ len(retained)` (finding F9 is exactly
its failure).
-/
namespace Minimq
open Gen World Outbound

/-- **Bounded liveness of `connect()`.** From any world, if CONNECT fits, then `connect`, a
conformant CONNACK (success code, acceptable properties, fitting the receive buffer) and any
`|CONNECT| + 1 + |CONNACK|` or more healthy decisions — however they fragment the writes and the
reads — end with: `connect()` returned `Ok`; the handle is live and reports `Connected` / `Reconnected`
as the CONNACK said; nothing is suspended; the older transports are untouched and the new transport's
wire is exactly the CONNECT packet, its inbound queue consumed; the session is `Session.activated` of
the session after the resets (see `C12M_session_usable`); no time has passed. -/
theorem C12M_connect_succeeds (w : World) (hinv : w.sess.data.outbound.ArenaInv) (hslot : w.slot = none)
    (off : Nat) (pkt : Bytes)
    (he : encodeConnect w.sess.data.outbound.scratchLen w.sess.beginConnect.connectPacket = .ok (off, pkt))
    (sp : Bool) (block : Bytes) (hblk : connackBlockOk block)
    (hwf : (Spec.ServerPacket.connAck sp 0 block).wf = true)
    (hfit : (Spec.encodeServer (.connAck sp 0 block)).length ≤ w.sess.reader.cap)
    (ks : List Nat) (hks : ∀ k ∈ ks, 1 ≤ k ∧ k ≤ 250)
    (hlen : pkt.length + 1 + (Spec.encodeServer (.connAck sp 0 block)).length ≤ ks.length) :
    let ack := Spec.encodeServer (.connAck sp 0 block)
    let W := runDs ks ((w.execDirective .connect).execDirective (.rx ack))
    W.lastRes = some (.ok ()) ∧ W.conn = some { live := true, resumed := sp } ∧ W.live = true ∧ W.fut = none ∧
    W.nets = w.nets ++ [{ wire := pkt, rx := [] }] ∧ W.now = w.now ∧ W.slot = none ∧
    W.sess = (hsP w pkt ack).taken.activated sp block w.now := by
  intro ack W
  have hframe := frame1_encodeServer w.sess.reader.cap _ hwf hfit
  obtain ⟨⟨Ws, h1, h2, h3, h4, hce⟩, hs⟩ := handshake_ends w hinv hslot off pkt ack he hframe ks hks hlen
  have hfb : fromBuffer (hsP w pkt ack).ack = some (.connAck sp 0 block) := by
    show fromBuffer ack = _
    rw [accept_connAck sp 0 block hwf]; rfl
  obtain ⟨a1, a2, a3⟩ := (connectGotPacket_cases (hsP w pkt ack) Ws h1 h2 h4).1 sp 0 block hfb (by decide) hblk
  have hconn : W.conn = some { live := true, resumed := sp } := hce.conn.trans a2
  refine ⟨hce.lastRes.trans a3, hconn, ?_, hce.fut.trans (connectGotPacket_net Ws).2, ?_, hce.now.trans ?_, hs,
    hce.sess.trans a1⟩
  · unfold World.live; rw [hconn]
  · rw [hce.nets, (connectGotPacket_net Ws).1, h3]; rfl
  · have : (connectGotPacket Ws).now = Ws.now := by
      unfold World.connectGotPacket World.activate
      simp only []
      repeat' split
      all_goals rfl
    rw [this, h4]; rfl

/-- **…and the CONNECT on the wire is the one `connectPacket` describes**: the reference parser reads
the new transport's wire as a CONNECT with the session's clean-start flag, keep-alive, properties,
client identifier, will and credentials (`C12_CONNECT_parses`, under what the configuration layer
guarantees). -/
theorem C12M_wire_parses (w : World) (off : Nat) (pkt : Bytes)
    (he : encodeConnect w.sess.data.outbound.scratchLen w.sess.beginConnect.connectPacket = .ok (off, pkt))
    (hka : w.sess.rt.configuredKeepaliveMs / 1000 < 65536) (hcid : validUtf8 w.sess.clientId = true)
    (hrx : 0 < w.sess.reader.cap ∧ w.sess.reader.cap < 4294967296) (hexp : w.sess.expiry < 4294967296)
    (hwill : ∀ wl, w.sess.will = some wl → wl.qos ≤ 2 ∧ validUtf8 wl.topic = true ∧ (∀ p ∈ wl.props, p.wf = true) ∧
        (∀ p ∈ wl.props, Spec.allowedIn .will p.kind.id = true ∧ Spec.legalValue p.kind.id p.toSpec.val.num = true))
    (hauth : ∀ a, w.sess.auth = some a → validUtf8 a.user = true) :
    Spec.parseClientPacket pkt =
      some (.connect (!w.sess.data.sessionPresent) (w.sess.rt.configuredKeepaliveMs / 1000)
              ((connectProps w.sess.reader.cap w.sess.expiry).map Property.toSpec) w.sess.clientId
              (w.sess.will.map Will.toSpec) (w.sess.auth.map (·.user)) (w.sess.auth.map (·.pass)), []) := by
  have := C12_CONNECT_parses w.sess.beginConnect _ off pkt [] hka hcid hrx hexp hwill hauth he
  rw [List.append_nil] at this
  exact this

/-- **The session is fully usable afterwards.** With `s` the session after the handshake
(`C12M_connect_succeeds`): the packet reader is empty; the session is established; no entry of any
outbound queue is half-written or waiting for a flush; the connection is marked resumed iff the
CONNACK said so; send quota, keep-alive, Maximum Packet Size and Maximum QoS are the negotiated ones;
the PINGREQ timer is armed from the time of the CONNACK and no ping timeout is running; a QoS 0
publish is accepted iff the arena has the five header bytes free, a QoS 1/2 publish iff send quota is
left and a retained slot and five bytes are free (`can_publish`). -/
theorem C12M_session_usable (w : World) (pkt ack : Bytes) (sp : Bool) (block : Bytes) :
    let s := (hsP w pkt ack).taken.activated sp block w.now
    (s.reader.data = [] ∧ s.reader.packetLength = none ∧ s.reader.packetAvailable = false ∧
      s.reader.cap = w.sess.reader.cap) ∧
    s.data.sessionPresent = true ∧ s.rt.sessionResumed = sp ∧
    ((∀ e ∈ s.data.outbound.control, e.state.isInProgress = false) ∧
     (∀ e ∈ s.data.outbound.release, e.state.isInProgress = false) ∧
     (∀ e ∈ s.data.outbound.retained, e.state.isInProgress = false)) ∧
    (s.rt.keepaliveMs = effectiveKeepaliveMs w.sess.rt.configuredKeepaliveMs block ∧
      s.rt.maximumPacketSize = lastNum .MaximumPacketSize (iterEncoded block) ∧
      s.rt.maxQos = lastNum .MaximumQoS (iterEncoded block) ∧
      s.rt.maxSendQuota = negotiatedQuota block ∧
      s.rt.sendQuota = negotiatedQuota block - s.data.outbound.inflightPublishes ∧
      s.rt.nextPing = s.rt.keepaliveSendInterval.map (fun i => w.now + i * 1000) ∧ s.rt.pingTimeout = none) ∧
    (canPublishS s.data s.rt 0 = true ↔ MAX_FIXED_HEADER_SIZE ≤ s.data.outbound.scratchLen) ∧
    (∀ q, 0 < q → (canPublishS s.data s.rt q = true ↔ s.rt.sendQuota ≠ 0 ∧ s.data.outbound.canRetain = true)) := by
  intro s
  have hrd : (hsP w pkt ack).S.reader = w.sess.reader.reset := hsP_reader w pkt ack
  have hfresh : (hsP w pkt ack).S.data.outbound.AllFresh := by
    show (w.sess.beginConnect.encode _).1.data.outbound.AllFresh
    rw [Session.encode_fst]
    exact encodeAt_allFresh _ _ (beginConnect_allFresh w.sess)
  have hq := connackSettings_quota (hsP w pkt ack).taken.rt.configuredKeepaliveMs block
  have hka := activated_keepalive (hsP w pkt ack).taken sp block w.now
  have hcfg : (hsP w pkt ack).taken.rt.configuredKeepaliveMs = w.sess.rt.configuredKeepaliveMs := by
    show (w.sess.beginConnect.encode _).1.clearPing.rt.configuredKeepaliveMs = _
    rw [Session.encode_fst]; rfl
  refine ⟨?_, activated_sessionPresent _ _ _ _, by cases sp <;> rfl, ?_, ?_, ?_, ?_⟩
  · cases sp
    · exact ⟨rfl, rfl, rfl, by show (hsP w pkt ack).S.reader.cap = _; rw [hrd]; rfl⟩
    · exact ⟨rfl, rfl, rfl, by show (hsP w pkt ack).S.reader.cap = _; rw [hrd]; rfl⟩
  · cases sp with
    | false =>
      obtain ⟨c1, c2, c3, _⟩ := activated_fresh (hsP w pkt ack).taken block w.now
      refine ⟨?_, ?_, ?_⟩
      · intro e he; rw [c1] at he; simp at he
      · intro e he; rw [c3] at he; simp at he
      · intro e he; rw [c2] at he; simp at he
    | true =>
      have ho : s.data.outbound = (hsP w pkt ack).S.data.outbound := (activated_resumed (hsP w pkt ack).taken block w.now).1
      rw [ho]
      exact ⟨fun e he => fresh_not_inProgress _ (hfresh.control e he), fun e he => fresh_not_inProgress _ (hfresh.release e he),
        fun e he => fresh_not_inProgress _ (hfresh.retained e he)⟩
  · refine ⟨by rw [hka.1, hcfg], by cases sp <;> rfl, by cases sp <;> rfl, ?_, ?_, hka.2.2.1, hka.2.2.2⟩
    · have : s.rt.maxSendQuota = (connackSettings (hsP w pkt ack).taken.rt.configuredKeepaliveMs block).2.1 := by
        cases sp <;> rfl
      rw [this, hq.2]
    · have : s.rt.sendQuota = (connackSettings (hsP w pkt ack).taken.rt.configuredKeepaliveMs block).1 -
          s.data.outbound.inflightPublishes := by cases sp <;> rfl
      rw [this, hq.1]
  · simp [canPublishS]
  · intro q hq0
    have : q ≠ 0 := by omega
    simp [canPublishS, this]

/-- **With fewer decisions: still suspended, nothing lost.** After any healthy decisions the
handshake is in one of four phases and at most `|CONNECT| + 1 + |answer| − n` further decisions from
its end. While it has not ended, the handle is absent, no time has passed, the older transports are
untouched, and either (write) the new wire holds the first `j` bytes of CONNECT and the suspended
write holds exactly the rest, or (flush) the whole CONNECT is on the wire, or (read) the CONNECT is on
the wire, the reader holds the first `i` bytes of the answer and the transport exactly the rest. The
answer may be anything that is one frame fitting the receive buffer. -/
theorem C12M_progress (w : World) (hinv : w.sess.data.outbound.ArenaInv) (hslot : w.slot = none) (off : Nat)
    (pkt ack : Bytes)
    (he : encodeConnect w.sess.data.outbound.scratchLen w.sess.beginConnect.connectPacket = .ok (off, pkt))
    (hframe : frame1 w.sess.reader.cap ack = .packet ack [])
    (ks : List Nat) (hks : ∀ k ∈ ks, 1 ≤ k ∧ k ≤ 250) :
    let W := runDs ks ((w.execDirective .connect).execDirective (.rx ack))
    ∃ m, m ≤ pkt.length + 1 + ack.length - ks.length ∧ Hs (hsP w pkt ack) m W ∧
      (m ≠ 0 →
        W.nets.dropLast = w.nets ∧ W.conn = none ∧ W.now = w.now ∧
        ((∃ j, W.fut = some (.connWrite (pkt.drop j)) ∧ W.curNet.wire = pkt.take j ∧ W.curNet.rx = ack) ∨
         (W.fut = some .connFlush ∧ W.curNet.wire = pkt ∧ W.curNet.rx = ack) ∨
         (∃ i, W.fut = some .connRead ∧ W.curNet.wire = pkt ∧ W.sess.reader.data = ack.take i ∧
            W.curNet.rx = ack.drop i))) := by
  intro W
  obtain ⟨m, hm, h⟩ := handshake_run w hinv hslot off pkt ack he hframe ks hks
  refine ⟨m, hm, h, fun hm0 => ?_⟩
  obtain ⟨c1, c2, c3, c4⟩ := h.conserved hm0
  refine ⟨c1, c2, c3, ?_⟩
  rcases c4 with ⟨j, a, b', c, _⟩ | ⟨a, b', c, _⟩ | ⟨i, a, b', c, d, _⟩
  · exact Or.inl ⟨j, a, b', c⟩
  · exact Or.inr (Or.inl ⟨a, b', c⟩)
  · exact Or.inr (Or.inr ⟨i, a, b', c, d⟩)

/-- **The other endings.** Same setting, any answer that is one frame fitting the receive buffer, enough
decisions. (1) a CONNACK with a failure reason code: `connect()` returns `Peer.Rejected(code)`, there is
no handle, the session is the one after the resets with the answer taken out of the reader;
(2) an answer that does not decode: `Peer.InvalidPacket`, no handle, that session disconnected;
(3) a CONNACK with a success code and unacceptable properties: `Peer.InvalidPacket`, no handle, the
session `rejected` (reset if Session Present was 0 — finding F19 — and disconnected); (4) any other
packet: `Peer.InvalidPacket` (or `Disconnected` for a DISCONNECT), no handle. In every case nothing is
suspended, no decision is left over and the CONNECT is on the wire — so the hypotheses of
`C12M_connect_succeeds` other than "CONNECT fits" hold again (`C12M_reconnectable`), and
`C12_resets_from_any_state` applies to the next `connect()`. -/
theorem C12M_other_endings (w : World) (hinv : w.sess.data.outbound.ArenaInv) (hslot : w.slot = none)
    (off : Nat) (pkt ack : Bytes)
    (he : encodeConnect w.sess.data.outbound.scratchLen w.sess.beginConnect.connectPacket = .ok (off, pkt))
    (hframe : frame1 w.sess.reader.cap ack = .packet ack [])
    (ks : List Nat) (hks : ∀ k ∈ ks, 1 ≤ k ∧ k ≤ 250) (hlen : pkt.length + 1 + ack.length ≤ ks.length) :
    let W := runDs ks ((w.execDirective .connect).execDirective (.rx ack))
    let P := hsP w pkt ack
    (W.fut = none ∧ W.slot = none ∧ W.nets = w.nets ++ [{ wire := pkt, rx := [] }]) ∧
    (∀ sp rc block, fromBuffer ack = some (.connAck sp rc block) → reasonSuccess rc = false →
      W.lastRes = some (.error (.peerRejected rc)) ∧ W.conn = none ∧ W.sess = P.taken) ∧
    (fromBuffer ack = none →
      W.lastRes = some (.error .peerInvalid) ∧ W.conn = none ∧ W.sess = P.taken.handleDisconnect) ∧
    (∀ sp rc block, fromBuffer ack = some (.connAck sp rc block) → reasonSuccess rc = true → ¬ connackBlockOk block →
      W.lastRes = some (.error .peerInvalid) ∧ W.conn = none ∧ W.sess = P.taken.rejected sp) ∧
    (∀ p, fromBuffer ack = some p → (∀ sp rc block, p ≠ .connAck sp rc block) →
      (W.lastRes = some (.error .peerInvalid) ∨ W.lastRes = some (.error .disconnected)) ∧ W.conn = none ∧
      W.sess = P.taken.handleDisconnect) := by
  intro W P
  obtain ⟨⟨Ws, h1, h2, h3, h4, hce⟩, hs⟩ := handshake_ends w hinv hslot off pkt ack he hframe ks hks hlen
  obtain ⟨_, c2, c3, c4, c5⟩ := connectGotPacket_cases P Ws h1 h2 h4
  refine ⟨⟨hce.fut.trans (connectGotPacket_net Ws).2, hs, ?_⟩, ?_, ?_, ?_, ?_⟩
  · rw [hce.nets, (connectGotPacket_net Ws).1, h3]; rfl
  · intro sp rc block hfb hrc
    obtain ⟨a1, a2, a3⟩ := c2 sp rc block hfb hrc
    exact ⟨hce.lastRes.trans a3, hce.conn.trans a2, hce.sess.trans a1⟩
  · intro hfb
    obtain ⟨a1, a2, a3⟩ := c4 hfb
    exact ⟨hce.lastRes.trans a3, hce.conn.trans a2, hce.sess.trans a1⟩
  · intro sp rc block hfb hrc hb
    obtain ⟨a1, a2, a3⟩ := c3 sp rc block hfb hrc hb
    exact ⟨hce.lastRes.trans a3, hce.conn.trans a2, hce.sess.trans a1⟩
  · intro p hfb hp
    obtain ⟨a1, a2, a3⟩ := c5 p hfb hp
    refine ⟨?_, hce.conn.trans a2, hce.sess.trans a1⟩
    rcases a3 with a3 | a3
    · exact Or.inl (hce.lastRes.trans a3)
    · exact Or.inr (hce.lastRes.trans a3)

/-- A conformant broker's refusal: a well-formed CONNACK with a reason code of 0x80 or above is one
frame, decodes to a CONNACK, and its (normalised) reason code is not a success — so case (1) above
applies: `Peer.Rejected`, no handle. -/
theorem C12M_refusal_is_case_1 (cap : Nat) (sp : Bool) (rc : Nat) (block : Bytes) (hrc : 128 ≤ rc)
    (hwf : (Spec.ServerPacket.connAck sp rc block).wf = true)
    (hfit : (Spec.encodeServer (.connAck sp rc block)).length ≤ cap) :
    frame1 cap (Spec.encodeServer (.connAck sp rc block)) = .packet (Spec.encodeServer (.connAck sp rc block)) [] ∧
    fromBuffer (Spec.encodeServer (.connAck sp rc block)) = some (.connAck sp (normReason rc) block) ∧
    reasonSuccess (normReason rc) = false := by
  refine ⟨frame1_encodeServer cap _ hwf hfit, accept_connAck sp rc block hwf, ?_⟩
  unfold normReason reasonSuccess
  split <;> simp <;> omega

/-- **Re-connectable.** Whatever directives are executed from a world whose arena is laid out sanely
— in particular `connect`, any answer, any decisions, any ending above — the arena is still laid out
sanely (C17); together with "nothing suspended, no decision left over" from the endings, the
hypotheses of `C12M_connect_succeeds` hold again, except for "CONNECT fits" (finding F9). -/
theorem C12M_reconnectable (w : World) (ds : List Directive)
    (h : w.sess.data.outbound.ArenaInv ∧ w.sess.data.outbound.SerInv) :
    (ds.foldl World.execDirective w).sess.data.outbound.ArenaInv ∧
    (ds.foldl World.execDirective w).sess.data.outbound.SerInv :=
  (run_inv (closed_ArenaP w.sess.data.outbound) ds w ⟨h, Keeps.refl _, rfl⟩).1

/-- **The standing hypotheses hold in every reachable world**: after any program on a new session the
arena is laid out sanely and no I/O decision is left over — so `C12M_connect_succeeds` applies to every
world an execution can reach (given that CONNECT fits). -/
theorem C12M_hypotheses_reachable (cfg : Cfg) (ds : List Directive) :
    (ds.foldl World.execDirective { sess := Session.new cfg }).sess.data.outbound.ArenaInv ∧
    (ds.foldl World.execDirective { sess := Session.new cfg }).slot = none :=
  ⟨C14_arena_hypothesis_reachable cfg ds, run_slot_none ds _ rfl⟩

/-! ### A concrete run -/

set_option maxRecDepth 16384 in
/-- Non-vacuity of `C12M_connect_succeeds` and a check of the bound: a new session (client identifier
"c"), the CONNECT is 29 bytes, the CONNACK 5 bytes; 35 one-byte decisions (the worst fragmentation)
complete the handshake; with 34 it is still suspended in the read of the last byte. -/
theorem C12M_example :
    let w : World := { sess := Session.new { rx := 64, tx := 64, keepaliveS := 0, expiry := 0, downgrade := false, clientId := [b 0x63], auth := none, will := none } }
    let ack := Spec.encodeServer (.connAck false 0 [])
    let run (n : Nat) := runDs (List.replicate n 1) ((w.execDirective .connect).execDirective (.rx ack))
    ack = [b 0x20, b 3, b 0, b 0, b 0] ∧
    (match encodeConnect w.sess.data.outbound.scratchLen w.sess.beginConnect.connectPacket with
      | .ok (_, pkt) => pkt.length | _ => 0) = 29 ∧
    (match (run 35).lastRes with | some (.ok ()) => true | _ => false) = true ∧ (run 35).live = true ∧ (run 35).fut.isNone = true ∧
    (run 34).fut.isSome = true ∧ (run 34).lastRes.isNone = true ∧ (run 34).curNet.rx = [b 0] := by
  decide

end Minimq
