import Minimq.Proofs.WireAckSpec
/-
C04, whole machine — the acknowledgements for inbound packets go out in arrival order.

`Theorems/C04.lean` proves what handling one inbound packet queues. This file ties the control queue
to what the transport has accepted, for every program, with one more piece of ghost state (never
printed; the driver's traces are unchanged): `Session.inlog`, the inbound log of the current
connection. `Session.handle` — the only place where `handle_packet` is applied, i.e. inside
`process_received_packet` — appends the record `(packet, acks)`, where `acks` are the control actions
that the handling appended to the control queue (`C04_record_of_a_packet`: the acknowledgement MQTT
asks for, or nothing if it could not be queued). A successful CONNACK (`Session.activate`) restarts the
log with one record `(none, acks)` listing the control actions that are queued at that moment: the
acknowledgements owed from earlier connections that `connect` re-armed (`arm_replay` resets every
control entry to "waiting for its first byte" and drops a queued PINGREQ; a CONNACK without session
present then clears the queue, so the record is empty on a fresh session). Nothing else writes the
inbound log (`C04_inbound_log_written_by`).

The wire statement (`C04_acks_on_the_wire`), on a live connection whose transport is not marked torn:

    control actions written completely on this transport, in the order of the transmission log
 ++ control actions still waiting in the control queue, in queue order
  = the control actions recorded in the inbound log, in the order of the records,

PINGREQ — queued by the keep-alive, not owed to an inbound packet — left out on the left. So the
acknowledgements leave in the order in which their packets arrived, none is skipped, duplicated or
invented, and what has not left yet is exactly the tail that is still queued. The bytes of the written
ones are on the wire in log order (`C02_logged_packets_are_on_the_wire`) and are the five-byte packets
of `C04_ack_bytes`. The cross-connection part is the first record: acknowledgements that were queued but
not completely flushed when a connection ended are sent again, first and in their old order, on the next
connection if the broker resumes the session, and are dropped if it does not.
-/
namespace Minimq
open Gen World Outbound

/-- `ackOwed`, case by case. -/
theorem C04_ack_owed (ids : List Nat) :
    (∀ t id pr pl rt dup, id ≠ 0 →
      ackOwed ids (.publish t (some id) pr pl rt 1 dup) =
        some { typ := MT_PubAck, id := id, rc := if ids.contains id then RC_PacketIdInUse else RC_Success }) ∧
    (∀ t id pr pl rt dup, id ≠ 0 →
      ackOwed ids (.publish t (some id) pr pl rt 2 dup) =
        some { typ := MT_PubRec, id := id,
               rc := if ids.contains id then RC_Success
                     else if ids.length < MAX_INBOUND_QOS2 then RC_Success else RC_ReceiveMaxExceeded }) ∧
    (∀ id rs, id ≠ 0 →
      ackOwed ids (.pubRel id rs) =
        some { typ := MT_PubComp, id := id, rc := if ids.contains id then RC_Success else RC_PacketIdNotFound }) ∧
    (∀ t id pr pl rt dup, ackOwed ids (.publish t id pr pl rt 0 dup) = none) ∧
    (∀ t pr pl rt qos dup, ackOwed ids (.publish t none pr pl rt qos dup) = none ∧
      ackOwed ids (.publish t (some 0) pr pl rt qos dup) = none) ∧
    (∀ rs, ackOwed ids (.pubRel 0 rs) = none) ∧
    (∀ id rs, ackOwed ids (.pubAck id rs) = none ∧ ackOwed ids (.pubRec id rs) = none ∧ ackOwed ids (.pubComp id rs) = none) ∧
    (∀ id pr codes, ackOwed ids (.subAck id pr codes) = none ∧ ackOwed ids (.unsubAck id pr codes) = none) ∧
    (∀ sp rc pr, ackOwed ids (.connAck sp rc pr) = none) ∧ ackOwed ids .pingResp = none ∧
    (∀ rc pr, ackOwed ids (.disconnect rc pr) = none) := by
  refine ⟨?_, ?_, ?_, ?_, ?_, ?_, ?_, ?_, ?_, rfl, ?_⟩
  · intro t id pr pl rt dup hid; simp [ackOwed, hid, qos1Rc]
  · intro t id pr pl rt dup hid
    simp only [ackOwed, hid, false_or, show ((2 : Nat) = 0) = False by simp, show ((2 : Nat) = 1) = False by simp, if_false,
      qos2Ids]
    split
    · rfl
    · split <;> rfl
  · intro id rs hid; simp [ackOwed, hid]
  · intro t id pr pl rt dup; cases id <;> simp [ackOwed]
  · intro t pr pl rt qos dup; exact ⟨rfl, by simp [ackOwed]⟩
  · intro rs; simp [ackOwed]
  · intro id rs; exact ⟨rfl, rfl, rfl⟩
  · intro id pr codes; exact ⟨rfl, rfl⟩
  · intro sp rc pr; rfl
  · intro rc pr; rfl

/-- **The record of a packet.** Handling `p` appends exactly one record to the inbound log: `p` with
the acknowledgement owed for it (`ackOwed`, computed from the inbound QoS 2 identifiers held before) —
provided the broker's Maximum Packet Size admits the five bytes and the control queue has room;
otherwise with nothing (the acknowledgement is not queued and the operation reports the error; for a
QoS 2 PUBLISH nothing else changes either — `C04_unacknowledged_qos2_not_recorded`, the repair of F24 —
so the broker's retransmission is handled as a first arrival). The control queue grows by exactly the recorded actions,
appended at the end, each waiting for its first byte. -/
theorem C04_record_of_a_packet (s : Session) (p : Recv) :
    (s.handle p).1.inlog = s.inlog ++ [⟨some p, ackRecorded s.data s.rt p⟩] ∧
    (s.handle p).1.data.outbound.control =
      s.data.outbound.control ++ (ackRecorded s.data s.rt p).map (fun a => ⟨a, .write 0⟩) ∧
    ackRecorded s.data s.rt p =
      (match ackOwed s.data.pendingServerIds p with
       | none => []
       | some a => if s.rt.packetTooLarge 5 = false ∧ s.data.outbound.control.length < MAX_PENDING_CONTROL then [a] else []) :=
  ⟨handle_record s p, by rw [Session.handle_fst_data]; exact handlePacket_control_exact _ _ _, rfl⟩

/-- **Who writes the inbound log.** Every change the operations make to the session goes through one
of the primitives (`Prim`). Each leaves the inbound log alone, except `handle` (one record appended) and
`activate` on an acceptable CONNACK, which restarts it with the record of the control actions queued at
that moment — none if the CONNACK announces no session (the queue has just been cleared), the queue as
it was if it announces one. -/
theorem C04_inbound_log_written_by {s s' : Session} (h : Prim s s') :
    s'.inlog = s.inlog ∨
    (∃ p, s' = (s.handle p).1 ∧ s'.inlog = s.inlog ++ [⟨some p, ackRecorded s.data s.rt p⟩]) ∨
    (∃ sp block now, s' = (s.activate sp block now).1 ∧ (s.activate sp block now).2 = .ok () ∧
      s'.inlog = [⟨none, s'.data.outbound.control.map PendingControl.action⟩] ∧
      (sp = false → s'.data.outbound.control = []) ∧
      (sp = true → s'.data.outbound.control = s.data.outbound.control)) :=
  h.inlog_changes

/-- **The shape of the inbound log, for all programs.** Only the first record can be the one written by
a CONNACK; every other record is a packet with the acknowledgement that was owed for it in the session
state `(d, r)` in which it was handled (or nothing, in the two failure cases). -/
theorem C04_inbound_log_shape (cfg : Cfg) (ds : List Directive) :
    let s := (ds.foldl World.execDirective { sess := Session.new cfg }).sess
    (∀ rec ∈ s.inlog, ∀ p, rec.pkt = some p → ∃ (d : SessionData) (r : Runtime), rec.acks = ackRecorded d r p) ∧
    (∀ rec ∈ s.inlog.drop 1, rec.pkt ≠ none) := by
  intro s
  have h : InlogOK s := run_inv closed_InlogOK ds { sess := Session.new cfg } (InlogOK_new cfg)
  exact ⟨h.recs, h.carry⟩

/-- **Acknowledgements on the wire, in arrival order.** Run any program from the initial world and let
`w` be the world it ends in. If the connection is live and no operation-local write was dropped on the
current transport, then

    (control actions of the log of the current transport, in log order, PINGREQ left out)
 ++ (control actions of the control-queue entries that are not completely written, in queue order,
     PINGREQ left out)
  = (the control actions of the records of the inbound log, in the order of the records, PINGREQ left out
     — no record contains one).

The first record lists what was still owed from earlier connections when the CONNACK of this connection
was accepted; every other record is an inbound packet handled on this connection with the
acknowledgement queued for it. -/
theorem C04_acks_on_the_wire (cfg : Cfg) (ds : List Directive) :
    let w := ds.foldl World.execDirective { sess := Session.new cfg }
    w.nets.length ∉ w.tornNets → w.live = true →
    nonPing (ctlActs w.curLog) ++ nonPing w.sess.data.outbound.pendActs = nonPing (w.sess.inlog.flatMap (·.acks)) := by
  intro w hnt hl
  exact (run_WInv ds { sess := Session.new cfg } (WInv_init cfg)).acks hnt hl

/-- The definitions used above, spelled out: `ctlActs` keeps the log entries tagged `.control a` and
returns their actions; `pendActs` keeps the control-queue entries whose state is `Write n` (not yet
completely written) and returns their actions; `nonPing` drops actions of type PINGREQ. -/
theorem C04_definitions (l : List LogEntry) (o : Outbound) (as : List ControlAction) :
    ctlActs l = l.filterMap (fun f => match f.tag with | .control a => some a | _ => none) ∧
    o.pendActs = (o.control.filter (fun e => match e.state with | .write _ => true | _ => false)).map (·.action) ∧
    nonPing as = as.filter (fun a => a.typ != MT_PingReq) := by
  refine ⟨?_, ?_, rfl⟩
  · unfold ctlActs
    congr 1
  · unfold Outbound.pendActs
    congr 2

/-! ### Non-vacuity -/

def C04Wire_cfg : Cfg :=
  { rx := 64, tx := 128, keepaliveS := 0, expiry := 300, downgrade := false, clientId := [0x63], auth := none, will := none }

/-- An inbound QoS 1 PUBLISH (id 5), an inbound QoS 2 PUBLISH (id 6) and its PUBREL, each handled and
acknowledged by `poll`; then an inbound QoS 1 PUBLISH (id 7) is delivered and its PUBACK queued, and the
connection is dropped before the PUBACK is written. -/
def C04Wire_prog1 : List Directive :=
  [.connect, .rx [0x20, 0x03, 0x00, 0x00, 0x00], .go,
   .rx [0x32, 0x07, 0x00, 0x01, 0x74, 0x00, 0x05, 0x00, 0x70], .poll, .go, .poll, .go,
   .rx [0x34, 0x07, 0x00, 0x01, 0x74, 0x00, 0x06, 0x00, 0x71], .poll, .go, .poll, .go,
   .rx [0x62, 0x02, 0x00, 0x06], .poll, .go,
   .rx [0x32, 0x07, 0x00, 0x01, 0x74, 0x00, 0x07, 0x00, 0x72], .poll, .go]

/-- Before the drop: PUBACK 5, PUBREC 6, PUBCOMP 6 are in the log of transport 1, in this order, PUBACK 7
waits in the queue, and the inbound log has the CONNACK record (empty) and the four packets. -/
example :
    let w := C04Wire_prog1.foldl World.execDirective { sess := Session.new C04Wire_cfg }
    w.nets.length ∉ w.tornNets ∧ w.live = true ∧
    ctlActs w.curLog = [⟨MT_PubAck, 5, 0⟩, ⟨MT_PubRec, 6, 0⟩, ⟨MT_PubComp, 6, 0⟩] ∧
    w.sess.data.outbound.pendActs = [⟨MT_PubAck, 7, 0⟩] ∧
    w.sess.inlog.map (·.acks) = [[], [⟨MT_PubAck, 5, 0⟩], [⟨MT_PubRec, 6, 0⟩], [⟨MT_PubComp, 6, 0⟩], [⟨MT_PubAck, 7, 0⟩]] ∧
    w.curNet.wire.drop 29 = ([0x40, 0x03, 0x00, 0x05, 0x00, 0x50, 0x03, 0x00, 0x06, 0x00, 0x70, 0x03, 0x00, 0x06, 0x00] : Bytes) := by
  decide +kernel

/-- The session is resumed and `poll` flushes. -/
def C04Wire_prog2 : List Directive :=
  C04Wire_prog1 ++ [.drop, .connect, .rx [0x20, 0x03, 0x01, 0x00, 0x00], .go, .poll, .go]

/-- After the resumed reconnect: the inbound log of the new connection starts with the record of the
PUBACK that was still owed, and that PUBACK is the first packet after the CONNECT on the second wire. -/
example :
    let w := C04Wire_prog2.foldl World.execDirective { sess := Session.new C04Wire_cfg }
    w.nets.length ∉ w.tornNets ∧ w.live = true ∧ w.nets.length = 2 ∧
    ctlActs w.curLog = [⟨MT_PubAck, 7, 0⟩] ∧ w.sess.data.outbound.pendActs = [] ∧
    w.sess.inlog = [⟨none, [⟨MT_PubAck, 7, 0⟩]⟩] ∧
    w.curNet.wire.drop 29 = ([0x40, 0x03, 0x00, 0x07, 0x00] : Bytes) := by
  decide +kernel

end Minimq
