import Minimq.Proofs.Exchange
/-
C03 — the outbound QoS 2 exchange: PUBLISH, PUBREC, PUBREL, PUBCOMP, each leg once.

A QoS 2 PUBLISH awaiting its PUBREC is an entry of `Outbound.retained` whose first byte is a PUBLISH
header with QoS 2 (`AckKind.pubRec`). A PUBREL owed to the broker is an entry of `Outbound.release`
(`PendingRelease`: identifier, reason code, send state); what is transmitted for it is
`encodePubrel id rc` (`Ops.prepareStep`). `d.awaits id .pubRec` says that the retained list holds a
QoS 2 PUBLISH with identifier `id`; `d.acked id .pubRec` is the state with the first such entry
removed and the arena compacted.

The capacity of the release queue is a hypothesis wherever it matters (`C03_pubrec_success`,
`C03_capacity_needed`): that it is never exceeded is the send-quota invariant of property C06, not
proved here.
-/
namespace Minimq
open Gen Outbound

/-- **Everything a PUBREC can do.** If a QoS 2 PUBLISH with that identifier is retained, it is removed
(first such entry) in every case, and then: failure code → `Rejected`, quota restored, no PUBREL;
broker's Maximum Packet Size below 5 → `PacketTooLarge`, no PUBREL; release queue has room → a fresh
PUBREL entry for that identifier with reason Success is appended at the END of the queue; release queue
full → `InflightExhausted`, no PUBREL. If no such PUBLISH is retained nothing at all changes (duplicate
or stale PUBREC); the result is `Rejected` if the identifier has a release entry and the code is a
failure, `Ok` otherwise. -/
theorem C03_pubrec (d : SessionData) (r : Runtime) (id : Nat) (rs : ReasonIn) :
    handlePacket d r (.pubRec id rs) =
      if d.awaits id .pubRec then
        if !reasonSuccess rs.rc then (d.acked id .pubRec, quotaInc r, .error (.peerRejected rs.rc))
        else if r.packetTooLarge 5 then (d.acked id .pubRec, r, .error .packetTooLarge)
        else if d.outbound.release.length < MAX_PENDING_RELEASE then
          ((d.acked id .pubRec).withRelease id (d.outbound.ackedSer id .pubRec), r, .ok false)
        else (d.acked id .pubRec, r, .error .inflightExhausted)
      else if d.outbound.hasPendingRelease id && !reasonSuccess rs.rc then (d, r, .error (.peerRejected rs.rc))
      else (d, r, .ok false) :=
  handlePacket_pubRec d r id rs

/-- `queue_release` fails exactly when the release queue is full, and otherwise appends at the end.
(`ps`, the entry's `rser`/`pser` and the counter `nextRser` are ghost: the serial of the new release
entry, and the serial of the retained PUBLISH it continues.) -/
theorem C03_queueRelease (o : Outbound) (id rc ps : Nat) :
    o.queueRelease id rc ps = if o.release.length < MAX_PENDING_RELEASE then
      some { o with release := o.release ++ [{ id := id, rc := rc, state := .write 0, rser := o.nextRser, pser := ps }],
                    nextRser := o.nextRser + 1 } else none :=
  queueRelease_eq o id rc ps

/-- **Successful PUBREC that finds its PUBLISH** (release queue not full, PUBREL within the broker's
packet size limit): in this one step the retained PUBLISH is removed — exactly the first retained entry
`e` with that identifier whose first byte is a QoS 2 PUBLISH header; all other retained entries keep
serial, identifier, length, send state and order — and one fresh PUBREL entry with the same identifier
is appended at the end of the release queue. The control queue is untouched. -/
theorem C03_pubrec_success (d : SessionData) (r : Runtime) (id : Nat) (rs : ReasonIn)
    (hfound : d.awaits id .pubRec = true) (hok : reasonSuccess rs.rc = true)
    (hsz : r.packetTooLarge 5 = false) (hcap : d.outbound.release.length < MAX_PENDING_RELEASE) :
    let d' := (handlePacket d r (.pubRec id rs)).1
    (handlePacket d r (.pubRec id rs)).2 = (r, .ok false) ∧
    d'.outbound.release = d.outbound.release ++
      [{ id := id, rc := RC_Success, state := .write 0, rser := d.outbound.nextRser, pser := d.outbound.ackedSer id .pubRec }] ∧
    d'.outbound.control = d.outbound.control ∧
    ∃ l₁ e l₂, d.outbound.retained = l₁ ++ e :: l₂ ∧ (∀ x ∈ l₁, ackPred d.outbound id .pubRec x = false) ∧
      e.id = id ∧ AckKind.pubRec.acknowledges (d.outbound.headerAt e.offset) = true ∧
      d'.outbound.keys = (l₁ ++ l₂).map RetainedPacket.key := by
  intro d'
  have he : handlePacket d r (.pubRec id rs) =
      ((d.acked id .pubRec).withRelease id (d.outbound.ackedSer id .pubRec), r, .ok false) := by
    rw [C03_pubrec]; simp [hfound, hok, hsz, hcap]
  obtain ⟨f1, f2, f3, _⟩ := acked_frame d id .pubRec
  obtain ⟨l₁, e, l₂, e1, e2, e3, e4⟩ := removeFirst_split hfound
  simp only [ackPred, Bool.and_eq_true, beq_iff_eq] at e3
  refine ⟨by rw [he], ?_, ?_, l₁, e, l₂, e1, e2, e3.1, e3.2, ?_⟩
  · show (handlePacket d r (.pubRec id rs)).1.outbound.release = _
    rw [he]
    have hn : (d.acked id .pubRec).outbound.nextRser = d.outbound.nextRser := ackPacket_nextRser _ _ _
    simp only [SessionData.withRelease, f2, hn]
  · show (handlePacket d r (.pubRec id rs)).1.outbound.control = _
    rw [he]; simp only [SessionData.withRelease, f3]
  · show (handlePacket d r (.pubRec id rs)).1.outbound.keys = _
    rw [he]
    show (d.acked id .pubRec).outbound.keys = _
    rw [f1, e4]

/-- **PUBREC with a failure code** ends the exchange: the PUBLISH is removed, no PUBREL entry is created,
the send quota is given back and the poll reports the rejection. -/
theorem C03_pubrec_failure (d : SessionData) (r : Runtime) (id : Nat) (rs : ReasonIn)
    (hfound : d.awaits id .pubRec = true) (hfail : reasonSuccess rs.rc = false) :
    handlePacket d r (.pubRec id rs) = (d.acked id .pubRec, quotaInc r, .error (.peerRejected rs.rc)) ∧
    (d.acked id .pubRec).outbound.release = d.outbound.release ∧
    (d.acked id .pubRec).outbound.keys =
      (removeFirst (ackPred d.outbound id .pubRec) d.outbound.retained).map RetainedPacket.key := by
  refine ⟨by rw [C03_pubrec]; simp [hfound, hfail], (acked_frame d id .pubRec).2.1, (acked_frame d id .pubRec).1⟩

/-- **Duplicate or stale PUBREC** (no QoS 2 PUBLISH with that identifier is retained — in particular
when the PUBREL for it is already queued): no queue, no counter, nothing changes. -/
theorem C03_pubrec_duplicate (d : SessionData) (r : Runtime) (id : Nat) (rs : ReasonIn)
    (hnot : d.awaits id .pubRec = false) :
    (handlePacket d r (.pubRec id rs)).1 = d ∧ (handlePacket d r (.pubRec id rs)).2.1 = r := by
  rw [C03_pubrec]
  simp only [hnot, Bool.false_eq_true, if_false]
  split <;> exact ⟨rfl, rfl⟩

/-- **A release entry is created only by a successful PUBREC that found its PUBLISH, and removed only by
a PUBCOMP**: the release queue after any inbound packet. -/
theorem C03_release_after_packet (d : SessionData) (r : Runtime) (p : Recv) :
    (handlePacket d r p).1.outbound.release =
      match p with
      | .pubRec id rs =>
        if d.awaits id .pubRec && reasonSuccess rs.rc && !r.packetTooLarge 5 &&
            decide (d.outbound.release.length < MAX_PENDING_RELEASE)
        then d.outbound.release ++ [{ id := id, rc := RC_Success, state := .write 0, rser := d.outbound.nextRser,
                                      pser := d.outbound.ackedSer id .pubRec }] else d.outbound.release
      | .pubComp id _ => removeFirst (fun e => e.id == id) d.outbound.release
      | _ => d.outbound.release :=
  handlePacket_release d r p

/-- **PUBCOMP**: removes the first release entry with that identifier (the others keep their order),
gives the send quota back, and reports a failure code as a rejection; without such an entry nothing
changes. -/
theorem C03_pubcomp (d : SessionData) (r : Runtime) (id : Nat) (rs : ReasonIn) :
    handlePacket d r (.pubComp id rs) =
      if d.outbound.hasPendingRelease id then
        ({ d with outbound := { d.outbound with release := removeFirst (fun e => e.id == id) d.outbound.release } },
          quotaInc r, if reasonSuccess rs.rc then .ok false else .error (.peerRejected rs.rc))
      else (d, r, .ok false) :=
  handlePacket_pubComp d r id rs

/-- The entries left by a PUBCOMP are the others, in their order. -/
theorem C03_pubcomp_keeps_order (l : List PendingRelease) (id : Nat) :
    (removeFirst (fun e => e.id == id) l).Sublist l ∧
    (l.any (fun e => e.id == id) = true →
      ∃ l₁ e l₂, l = l₁ ++ e :: l₂ ∧ (∀ x ∈ l₁, x.id ≠ id) ∧ e.id = id ∧
        removeFirst (fun e => e.id == id) l = l₁ ++ l₂) := by
  refine ⟨removeFirst_sublist' _ _, fun h => ?_⟩
  obtain ⟨l₁, e, l₂, h1, h2, h3, h4⟩ := removeFirst_split h
  exact ⟨l₁, e, l₂, h1, fun x hx => by simpa using h2 x hx, by simpa using h3, h4⟩

/-- **Every other primitive step keeps the release entries**: identifiers, reason codes and order are
unchanged by every step that is not the handling of an inbound packet (see
`C03_release_after_packet`) or the CONNACK of a fresh broker session (which empties the queue). This
covers `arm_replay` on every disconnect and connect, and the CONNACK of a resumed session. -/
theorem C03_release_kept {s s' : Session} (st : SessStep s s') :
    s'.data.outbound.relKeys = s.data.outbound.relKeys ∨ (∃ p, s' = (s.handle p).1) ∨
    (∃ block now, s' = (s.activate false block now).1 ∧ s'.data.outbound.release = []) := by
  rcases st.classify with hq | h | ⟨block, now, rfl⟩
  · exact Or.inl hq.out.release
  · exact Or.inr (Or.inl h)
  · exact Or.inr (Or.inr ⟨block, now, rfl, (activate_false_data s block now).2.2.2.1⟩)

/-- **In every execution** a PUBREL owed for `id` at the start that is no longer owed at the end was
dropped by one identifiable step: the handling of a PUBCOMP with that identifier, or the CONNACK of a
fresh broker session. Until then it stays in the release queue and is replayed on every resume. -/
theorem C03_pubrel_dropped_only_by_pubcomp_or_fresh_session {I : Session → Prop} (hI : Closed I) (w : World)
    (ds : List Directive) (h : I w.sess) {id : Nat} (h1 : w.sess.data.outbound.hasPendingRelease id = true)
    (h2 : (ds.foldl World.execDirective w).sess.data.outbound.hasPendingRelease id = false) :
    ∃ a b, Reach I w.sess a ∧ SessStep a b ∧ Reach I b (ds.foldl World.execDirective w).sess ∧
      a.data.outbound.hasPendingRelease id = true ∧
      ((∃ rs, b = (a.handle (.pubComp id rs)).1) ∨ (∃ block now, b = (a.activate false block now).1)) :=
  (run_reach hI ds w h).release_loss h1 h2

/-- **Replay**: `arm_replay` keeps every release entry (identifier, reason, order) and marks it fresh;
afterwards the PUBRELs are transmitted before any retained packet, oldest first (after owed
acknowledgements) — and a retained PUBLISH is offered only when no release entry is fresh. -/
theorem C03_replay (o : Outbound) :
    o.armReplay.release = o.release.map (fun e => { e with state := .write 0 }) ∧
    o.armReplay.nextStep =
      (match o.control, o.release, o.retained with
      | c :: _, _, _ => some (.control c.action (.write 0))
      | [], x :: _, _ => some (.release x.id x.rc (.write 0))
      | [], [], e :: _ => some (.retained e.id e.offset e.len (.write 0))
      | [], [], [] => none) :=
  ⟨(armReplay_queues o).2.1, armReplay_nextStep o⟩

/-- The PUBREL offered for transmission is the first entry of the release queue in the wanted send
state: PUBRELs go out in the order in which the PUBRECs were received. -/
theorem C03_pubrel_order {o : Outbound} {ip : Bool} {id rc : Nat} {st : SendState}
    (h : o.nextStepPrio ip = some (.release id rc st)) :
    ∃ l₁ e l₂, o.release = l₁ ++ e :: l₂ ∧ (∀ x ∈ l₁, x.state.matchesPriority ip = false) ∧
      e.id = id ∧ e.rc = rc ∧ e.state = st ∧ st.matchesPriority ip = true :=
  (nextStepPrio_release h).2

/-- A release entry that has been flushed is not offered again on this connection. -/
theorem C03_pubrel_once_per_connection {o : Outbound} {st : Outbound.Step} (h : o.nextStep = some st) :
    st.state ≠ .sent :=
  nextStep_not_sent h

/-- **The PUBREL carries exactly that identifier**: the five bytes written for a release entry are read
back by the reference parser as a PUBREL (type 6, flags 2) with the entry's identifier and reason. -/
theorem C03_pubrel_bytes (id rc : Nat) :
    encodePubrel id rc = .ok (pubrelBytes id rc) ∧
    (0 < id ∧ id < 65536 → rc < 256 → ∀ rest,
      Spec.parseClientPacket (pubrelBytes id rc ++ rest) = some (.ack 6 id rc [], rest)) :=
  ⟨encodePubrel_eq id rc, fun hid hrc rest => pubrelBytes_spec id rc hid hrc rest⟩

/-- **After its PUBREC the PUBLISH is never sent again.** The PUBREC step removes the packet with serial
`e.ser` from the retained list (serials are distinct, `SerInv`)… -/
theorem C03_publish_removed (d : SessionData) (r : Runtime) (id : Nat) (rs : ReasonIn)
    (hser : d.outbound.SerInv) (hfound : d.awaits id .pubRec = true) :
    ∃ e ∈ d.outbound.retained, e.id = id ∧ e.ser < d.outbound.nextSer ∧
      e.ser ∉ (handlePacket d r (.pubRec id rs)).1.outbound.sers ∧
      (handlePacket d r (.pubRec id rs)).1.outbound.nextSer = d.outbound.nextSer := by
  obtain ⟨l₁, e, l₂, e1, e2, e3, e4⟩ := removeFirst_split hfound
  simp only [ackPred, Bool.and_eq_true, beq_iff_eq] at e3
  have hmem : e ∈ d.outbound.retained := by rw [e1]; simp
  have hk := handlePacket_keys d r (.pubRec id rs)
  simp only [Recv.ackOf] at hk
  refine ⟨e, hmem, e3.1, hser.lt e hmem, ?_, ?_⟩
  · rw [sers_eq_keys, hk, e4]
    have := SerInv.removed_gone hser e1
    simpa [RetainedPacket.key, Function.comp_def] using this
  · rw [C03_pubrec]
    have := (acked_frame d id .pubRec).2.2.2.2.2
    simp only [hfound, if_true]
    repeat' split
    all_goals first
      | exact this
      | (show ((d.acked id .pubRec).withRelease id _).outbound.nextSer = _; exact this)

/-- …and whatever the program does afterwards — more publishes, acknowledgements, reconnects, replays —
a packet whose serial has been handed out and is no longer retained is never retained again, so it can
never again be offered for transmission (`nextStep` only offers retained entries). -/
theorem C03_publish_never_returns (w : World) (ds : List Directive)
    (h : w.sess.data.outbound.ArenaInv ∧ w.sess.data.outbound.SerInv) {ser : Nat}
    (hlt : ser < w.sess.data.outbound.nextSer) (hg : ser ∉ w.sess.data.outbound.sers) :
    ser ∉ (ds.foldl World.execDirective w).sess.data.outbound.sers :=
  run_gone_stays_gone w ds h hlt hg

/-! ### Instances -/

def C03_rt : Runtime := { keepaliveMs := 0, configuredKeepaliveMs := 0 }

/-- One retained QoS 2 PUBLISH (first byte 0x34) with identifier 5, already sent. -/
def C03_ex : SessionData :=
  { outbound := { (Outbound.new 8) with
      buf := [0x34, 5, 0, 1, 0x61, 0, 5, 0], used := 7, nextSer := 1,
      retained := [{ id := 5, offset := 0, len := 7, state := .sent, ser := 0 }] } }

/-- Non-vacuity: PUBREC(5) moves the exchange from the retained list to the release queue; a second
PUBREC(5) changes nothing; PUBCOMP(5) empties the release queue; a failing PUBREC creates no PUBREL. -/
example :
    C03_ex.awaits 5 .pubRec = true ∧ C03_ex.outbound.SerInv ∧
    (handlePacket C03_ex C03_rt (.pubRec 5 { code := none, props := none })).1.outbound.retained = [] ∧
    (handlePacket C03_ex C03_rt (.pubRec 5 { code := none, props := none })).1.outbound.release =
      [{ id := 5, rc := 0, state := .write 0 }] ∧
    (let d1 := (handlePacket C03_ex C03_rt (.pubRec 5 { code := none, props := none })).1
     (handlePacket d1 C03_rt (.pubRec 5 { code := none, props := none })).1.outbound.release = d1.outbound.release ∧
     (handlePacket d1 C03_rt (.pubComp 5 { code := none, props := none })).1.outbound.release = []) ∧
    (handlePacket C03_ex C03_rt (.pubRec 5 { code := some 0x97, props := none })).1.outbound.release = [] ∧
    (handlePacket C03_ex C03_rt (.pubRec 5 { code := some 0x97, props := none })).1.outbound.retained = [] := by
  refine ⟨by decide, ⟨by simp [C03_ex, Outbound.new], by simp [C03_ex, Outbound.new]⟩, by decide, by decide,
    ⟨by decide, by decide⟩, by decide, by decide⟩

/-- The same state with the release queue full. -/
def C03_full : SessionData :=
  { C03_ex with outbound := { C03_ex.outbound with
      release := List.replicate 8 { id := 9, rc := 0, state := .sent } } }

/-- **Why the capacity hypothesis is needed** (a model-level statement: the state is excluded for reachable worlds by `C06_quota_books_balance` unless the F5c flag is set): with the release queue full, a
successful PUBREC removes the PUBLISH and fails with `InflightExhausted`; no PUBREL for identifier 5
exists or will ever be sent, and the operation handle reports `complete`. Ruled out in reachable
states only by the send-quota invariant (C06). -/
theorem C03_capacity_needed :
    let res := handlePacket C03_full C03_rt (.pubRec 5 { code := none, props := none })
    res.1.outbound.retained = [] ∧ res.1.outbound.hasPendingRelease 5 = false ∧
    res.1.status { kind := .pub2, id := 5, generation := 0 } = .complete := by
  refine ⟨by decide, by decide, by decide⟩

end Minimq
