import Minimq.Proofs.Lift
/-
C13 — cancelling a cancel-safe operation loses, duplicates and corrupts nothing.

The full property is an equivalence between two executions of the whole machine; it is decided on
every run by the twin programs of the correspondence check (the same program with and without a
cancellation at every await index, compared on wire bytes and delivered messages), and proved as a
simulation of the machine in `Theorems/C13Machine.lean`. What is proved here are the local facts that
make the cancel-safe await points safe, for every state:

 * cancelling drops the suspended future and nothing else — session, transports, connection, handles
   are untouched (`C13_cancel_only_drops_the_future`);
 * at the `write` and `flush` awaits of `perform_outbound_step`, and at the `read` await of
   `wait_for_progress`, the future holds no progress that is not also recorded in the session: the
   session at the await point is the session the step started from, every byte accepted earlier was
   recorded by `set_written` before the next `write` was attempted, and every byte read was committed
   to the session's reader before the next `read` (`C13_write_await`, `C13_flush_await`,
   `C13_read_await`);
 * a later operation that finds the same entry in progress re-enters the very same write: same
   packet bytes, same offset (`C13_reenters_same_write`), so the wire continues where it stopped.

The await points of CONNECT, a QoS 0 PUBLISH and DISCONNECT keep their bytes in the future
(`Pc.connWrite`, `q0Write`, `discWrite`); connect and QoS 0 publish are not in the property's list,
disconnect is, and that is finding F2b.
-/
namespace Minimq
open Gen World

/-- Cancelling changes nothing but the future (and the trace). -/
theorem C13_cancel_only_drops_the_future (w : World) :
    (w.cancelFut).sess = w.sess ∧ (w.cancelFut).nets = w.nets ∧ (w.cancelFut).conn = w.conn ∧
    (w.cancelFut).handles = w.handles ∧ (w.cancelFut).now = w.now ∧ (w.cancelFut).fut = none := by
  unfold World.cancelFut
  split
  · exact ⟨rfl, rfl, rfl, rfl, rfl, rfl⟩
  · rename_i h
    refine ⟨rfl, rfl, rfl, rfl, rfl, ?_⟩
    cases hf : w.fut with
    | none => rfl
    | some pc => rw [hf] at h; simp at h

theorem ioWrite_pending (w : World) (bs : Bytes) (h : w.slot = none) :
    (w.ioWrite bs).2 = .pending ∧ (w.ioWrite bs).1.sess = w.sess ∧ (w.ioWrite bs).1.nets = w.nets ∧
    (w.ioWrite bs).1.conn = w.conn := by
  unfold World.ioWrite; rw [h]; exact ⟨rfl, rfl, rfl, rfl⟩

theorem ioFlush_pending (w : World) (h : w.slot = none) :
    (w.ioFlush).2 = .pending ∧ (w.ioFlush).1.sess = w.sess ∧ (w.ioFlush).1.nets = w.nets ∧
    (w.ioFlush).1.conn = w.conn := by
  unfold World.ioFlush; rw [h]; exact ⟨rfl, rfl, rfl, rfl⟩

/-- **The `write` await.** When the transport is not ready the operation suspends with the session
and the transports exactly as they were: the future carries only what `prepareStep` computed from
the session. -/
theorem C13_write_await (fuel : Nat) (w : World) (ctx : StepCtx) (pkt : Flushed) (bytes : Bytes)
    (written len now : Nat) (h : w.slot = none) :
    let w' := doStepWrite (fuel + 1) w ctx pkt bytes written len now
    w'.fut = some (.stepWrite ctx pkt bytes written len now) ∧ w'.sess = w.sess ∧ w'.nets = w.nets := by
  obtain ⟨h1, h2, h3, _⟩ := ioWrite_pending w (bytes.drop written) h
  unfold doStepWrite
  cases hio : w.ioWrite (bytes.drop written) with
  | mk w1 res =>
    rw [hio] at h1 h2 h3
    simp only [] at h1 h2 h3
    subst h1
    exact ⟨rfl, h2, h3⟩

/-- **The `flush` await.** -/
theorem C13_flush_await (fuel : Nat) (w : World) (ctx : StepCtx) (pkt : Flushed) (now : Nat) (h : w.slot = none) :
    let w' := doStepFlush (fuel + 1) w ctx pkt now
    w'.fut = some (.stepFlush ctx pkt now) ∧ w'.sess = w.sess ∧ w'.nets = w.nets := by
  obtain ⟨h1, h2, h3, _⟩ := ioFlush_pending w h
  unfold doStepFlush
  cases hio : w.ioFlush with
  | mk w1 res =>
    rw [hio] at h1 h2 h3
    simp only [] at h1 h2 h3
    subst h1
    exact ⟨rfl, h2, h3⟩

/-- A partial write is recorded in the session before anything else happens: after `count` bytes were
accepted the entry's state is `afterWrite (written + count) len`, whatever the caller does next. -/
theorem C13_progress_recorded (w : World) (pkt : Flushed) (written len : Nat) :
    (w.setWritten pkt written len).sess = w.sess.setWritten pkt written len ∧
    (w.setWritten pkt written len).nets = w.nets := ⟨rfl, rfl⟩

/-- **Re-entering.** Whoever next finds the entry in state `.write written` (a fresh `poll`,
`publish`, … after a cancellation, or the resumed future) performs the same write: the same packet
bytes from the same offset. -/
theorem C13_reenters_same_write (fuel : Nat) (w : World) (ctx : StepCtx) (id off len written now : Nat)
    (hl : w.live = true) (hs : w.sess.rt.packetTooLarge len = false) :
    performStep (fuel + 1) w ctx (.retained id off len (.write written)) now =
      doStepWrite fuel w ctx (.retained id) (w.sess.data.outbound.retainedPacket off len) written len now := by
  unfold performStep
  simp [prepareStep, hs, hl]

/-- …and resuming the suspended future is that same call. -/
theorem C13_resume_is_the_same_write (w : World) (ctx : StepCtx) (pkt : Flushed) (bytes : Bytes)
    (written len now : Nat) (h : w.fut = some (.stepWrite ctx pkt bytes written len now)) :
    World.poll w = doStepWrite pollFuel { w with wakes := 0, lastIoStarved := false, fut := none } ctx pkt bytes written len now := by
  unfold World.poll
  simp only [h]

theorem probe_data {r r' : Reader} (h : r.probe = some r') : r'.data = r.data ∧ r'.cap = r.cap := by
  unfold Reader.probe at h
  split at h
  · simp at h; rw [← h]; exact ⟨rfl, rfl⟩
  · simp only [] at h
    split at h
    · simp at h
    · simp at h; rw [← h]; exact ⟨rfl, rfl⟩

/-- Probing the fixed header and offering a window does not touch the bytes read so far. -/
theorem receiveWindow_data {r r' : Reader} {n : Nat} (h : r.receiveWindow = some (r', n)) :
    r'.data = r.data ∧ r'.cap = r.cap := by
  unfold Reader.receiveWindow at h
  simp only [] at h
  have key : ∀ r1, (if r.packetLength.isNone = true then r.probe else some r) = some r1 → r1.data = r.data ∧ r1.cap = r.cap := by
    intro r1 h1
    split at h1
    · exact probe_data h1
    · simp at h1; rw [← h1]; exact ⟨rfl, rfl⟩
  cases hr1 : (if r.packetLength.isNone = true then r.probe else some r) with
  | none => rw [hr1] at h; simp at h
  | some r1 =>
    rw [hr1] at h
    simp only [] at h
    split at h <;> simp at h <;> (obtain ⟨_, rfl, _⟩ := h; exact key _ hr1)

/-- **The `read` await.** When no byte is available the wait suspends; the session differs from the
session before the call only by the reader's probe of the fixed header (`receive_buffer`), so every
byte read so far — committed by `commit` as soon as it was read — stays in the session. -/
theorem C13_read_await (fuel : Nat) (w : World) (outer : Outer) (s1 : Session) (window : Nat)
    (hslot : w.slot = none) (hav : w.sess.reader.packetAvailable = false)
    (hw : w.sess.window = some (s1, window)) (hpos : window ≠ 0) :
    let w' := doWaitRead (fuel + 1) w outer none false
    w'.fut = some (.waitRead outer none true) ∧ w'.sess = s1 ∧ w'.nets = w.nets ∧
    s1.reader.data = w.sess.reader.data ∧ s1.data = w.sess.data ∧ s1.rt = w.sess.rt := by
  have hs1 : s1.reader.data = w.sess.reader.data ∧ s1.data = w.sess.data ∧ s1.rt = w.sess.rt := by
    unfold Session.window at hw
    cases hr : w.sess.reader.receiveWindow with
    | none => rw [hr] at hw; simp at hw
    | some p =>
      obtain ⟨rd, n⟩ := p
      rw [hr] at hw
      simp only [Option.some.injEq, Prod.mk.injEq] at hw
      obtain ⟨rfl, rfl⟩ := hw
      exact ⟨(receiveWindow_data hr).1, rfl, rfl⟩
  unfold doWaitRead
  simp only [hav, Bool.false_eq_true, if_false, hw, hpos]
  unfold World.ioRead
  simp only [hslot]
  exact ⟨rfl, rfl, rfl, hs1⟩

end Minimq
