import Minimq.Proofs.NoPanic
/-
C08 (part) — "the client never panics": the two panic sites of the inbound path are never reached.

(a) `process_received_packet` (`session/inbound.rs`) matches the result of `handle_packet` and ends in
    `Err(Error::InvalidRequest | Error::NotReady | Error::WriteZero) => unreachable!(…)`. The model has no
    panic there: `World.processReceivedPacket` passes every error it does not name through. So the arm has
    to be excluded by a theorem: `C08_no_unreachable_arm` (for every session state and every packet —
    no reachability assumption is needed), with the exact list of errors `handle_packet` can return in
    `C08_handle_packet_errors` and, one level up, `C08_process_received_packet_errors`.
    The audit suspected `check_control_packet_size` / `check_pubrel_size` (`checkSize`), which turn an
    encoder failure `Custom` into `InvalidRequest` (`Err.ofSer .custom`): that conversion exists
    (`C08_size_check_invalid_request_needs_custom`), but the three encoders whose result is checked never
    fail at all (`C08_size_check_never_invalid_request`).

(b) `decode_inbound_publish` decodes `buffer[..packet_length]` a second time with
    `.expect("inbound packet must remain decodable")` and `else { unreachable!("inbound event must be a
    PUBLISH") }`. The model's `World.deliver` does the same on `reader.last.take len` and prints the line
    `panic decode_inbound_publish` in the other case. `C08_redecode_is_the_handled_publish`: whenever
    `process_received_packet` returns `Ok(Some(len))`, the second decode yields the very PUBLISH that
    `handle_packet` has just accepted — again for every world. `C08_deliver_never_panics`: in no program
    does a trace line start with `panic`; `C08_no_panic_in_trace` says the same of program texts.

Nothing turned out false.
-/
namespace Minimq
open Gen World NoPanic

/-! ## (a) The `unreachable!` arm of `process_received_packet` -/

/-- **`handle_packet` never returns `InvalidRequest`, `NotReady` or `WriteZero`.** For every session
(data, runtime, reader — whether reachable or not) and every decoded packet, the result that
`process_received_packet` matches on (`Session.handle`, i.e. `SessionData::handle_packet`) is none of the
three errors of the `unreachable!("packet handler returned local I/O state")` arm. -/
theorem C08_no_unreachable_arm (s : Session) (p : Recv) :
    (s.handle p).2 ≠ .error .invalidRequest ∧ (s.handle p).2 ≠ .error .notReady ∧
    (s.handle p).2 ≠ .error .writeZero := by
  refine ⟨fun h => ?_, fun h => ?_, fun h => ?_⟩ <;>
    exact Bool.noConfusion (handle_err_kind s p _ h)

/-- The same for `handlePacket` itself, on any session data and runtime state. -/
theorem C08_no_unreachable_arm_handlePacket (d : SessionData) (r : Runtime) (p : Recv) :
    (handlePacket d r p).2.2 ≠ .error .invalidRequest ∧ (handlePacket d r p).2.2 ≠ .error .notReady ∧
    (handlePacket d r p).2.2 ≠ .error .writeZero := by
  refine ⟨fun h => ?_, fun h => ?_, fun h => ?_⟩ <;>
    exact Bool.noConfusion (handlePacket_err_kind d r p _ h)

/-- **The errors `handle_packet` can return**, for every state and packet: `Disconnected` (broker
DISCONNECT), `Peer(InvalidPacket)` (CONNACK after the handshake, identifier 0 or missing),
`Peer(Rejected(rc))` (a failing reason code in an acknowledgement), `Resource(PacketTooLarge)` (the
five-byte acknowledgement or PUBREL exceeds the broker's Maximum Packet Size),
`Resource(InflightMetadataExhausted)` (control or release queue full). -/
theorem C08_handle_packet_errors (d : SessionData) (r : Runtime) (p : Recv) (e : Err)
    (h : (handlePacket d r p).2.2 = .error e) :
    e = .disconnected ∨ e = .peerInvalid ∨ (∃ rc, e = .peerRejected rc) ∨ e = .packetTooLarge ∨
    e = .inflightExhausted := by
  have hk := handlePacket_err_kind d r p e h
  cases e <;> first
    | exact .inl rfl
    | exact .inr (.inl rfl)
    | exact .inr (.inr (.inl ⟨_, rfl⟩))
    | exact .inr (.inr (.inr (.inl rfl)))
    | exact .inr (.inr (.inr (.inr rfl)))
    | exact Bool.noConfusion hk

/-- **The errors `process_received_packet` can return**, for every world: the same five. In particular
the model's catch-all arm `| .error e => (w, .error e)` — which stands for the two pass-through arms
`Err(Error::Peer(err))`, `Err(Error::Resource(err))` *and* the `unreachable!` arm of the code — is taken
with `Peer(Rejected(rc))` or `Resource(InflightMetadataExhausted)` only. -/
theorem C08_process_received_packet_errors (w : World) (e : Err) (h : (w.processReceivedPacket).2 = .error e) :
    e = .disconnected ∨ e = .peerInvalid ∨ (∃ rc, e = .peerRejected rc) ∨ e = .packetTooLarge ∨
    e = .inflightExhausted := by
  have hk := prp_err_kind w e h
  cases e <;> first
    | exact .inl rfl
    | exact .inr (.inl rfl)
    | exact .inr (.inr (.inl ⟨_, rfl⟩))
    | exact .inr (.inr (.inr (.inl rfl)))
    | exact .inr (.inr (.inr (.inr rfl)))
    | exact Bool.noConfusion hk

/-- **The size checks never yield `InvalidRequest`.** `check_control_packet_size` for *any* control action
(PUBACK, PUBREC, PUBCOMP, PINGREQ, or an action with an unknown type number) and `check_pubrel_size` for
any identifier and reason code fail with `Resource(PacketTooLarge)` or not at all: the encoders write at
most five bytes into the nine-byte stack buffer and have no failing field. -/
theorem C08_size_check_never_invalid_request (r : Runtime) (a : ControlAction) (id rc : Nat) :
    (∀ e, checkSize r (encodeControl a) = .error e → e = .packetTooLarge) ∧
    (∀ e, checkSize r (encodePubrel id rc) = .error e → e = .packetTooLarge) :=
  ⟨fun _ h => checkSize_control_err h, fun _ h => checkSize_pubrel_err h⟩

/-- What the audit saw: `checkSize` does map an encoder failure `Custom` to `InvalidRequest`, and that is
the only way it returns `InvalidRequest` — a way that `encodeControl` / `encodePubrel` never open. -/
theorem C08_size_check_invalid_request_needs_custom (r : Runtime) (enc : Except SerErr Bytes) :
    checkSize r enc = .error .invalidRequest ↔ enc = .error .custom := by
  unfold checkSize
  cases enc with
  | error e => cases e <;> simp [Err.ofSer]
  | ok bs =>
    simp only []
    split <;> simp

/-! ### Non-vacuity: each of the five errors is produced -/

/-- Only so that the examples below can be checked by evaluation. -/
local instance {α : Type} [DecidableEq α] : DecidableEq (Except Err α) := fun a b =>
  match a, b with
  | .ok x, .ok y => if h : x = y then isTrue (by rw [h]) else isFalse (fun e => h (by cases e; rfl))
  | .error x, .error y => if h : x = y then isTrue (by rw [h]) else isFalse (fun e => h (by cases e; rfl))
  | .ok _, .error _ => isFalse (fun e => by cases e)
  | .error _, .ok _ => isFalse (fun e => by cases e)

def C08N_rt : Runtime := { keepaliveMs := 0, configuredKeepaliveMs := 0 }

/-- One QoS 1 PUBLISH (first byte 0x32) with identifier 5 retained and sent. -/
def C08N_d : SessionData :=
  { outbound := { (Outbound.new 16) with
      buf := [0x32, 5, 0, 1, 0x61, 0, 5, 0, 0, 0, 0, 0, 0, 0, 0, 0], used := 7, nextSer := 1,
      retained := [{ id := 5, offset := 0, len := 7, state := .sent, ser := 0 }] } }

/-- Broker DISCONNECT; a second CONNACK; PUBACK(5) with reason 0x87; a QoS 1 PUBLISH when the broker
allows packets of four bytes; a QoS 1 PUBLISH when eight acknowledgements are already queued. -/
example :
    (handlePacket C08N_d C08N_rt (.disconnect none none)).2.2 = .error .disconnected ∧
    (handlePacket C08N_d C08N_rt (.connAck false 0 [])).2.2 = .error .peerInvalid ∧
    (handlePacket C08N_d C08N_rt (.pubAck 5 { code := some 0x87, props := none })).2.2 =
      .error (.peerRejected 0x87) ∧
    (handlePacket C08N_d { C08N_rt with maximumPacketSize := some 4 }
      (.publish [0x61] (some 1) [] [] false 1 false)).2.2 = .error .packetTooLarge ∧
    (handlePacket
      { C08N_d with outbound := { C08N_d.outbound with control := List.replicate 8 ⟨⟨4, 1, 0⟩, .write 0⟩ } }
      C08N_rt (.publish [0x61] (some 1) [] [] false 1 false)).2.2 = .error .inflightExhausted := by
  decide

/-! ## (b) The second decode in `decode_inbound_publish` -/

/-- **The second decode yields the PUBLISH that was handled.** Whenever `process_received_packet` returns
`Ok(Some(len))` — in any world, reachable or not — the packet `take_packet` handed to `handle_packet` was
a PUBLISH of `len` bytes, and `from_buffer(&buffer[..len])` on what the reader still holds returns that
same PUBLISH: neither the `expect` nor the `unreachable!` of `decode_inbound_publish` can fire.
(`take_packet` resets the counters but leaves the bytes; `handle_packet` has no access to the reader; only
a PUBLISH makes it answer `Ok(true)`.) -/
theorem C08_redecode_is_the_handled_publish {w w' : World} {len : Nat}
    (h : w.processReceivedPacket = (w', .ok (some len))) :
    ∃ topic id props payload retain qos dup,
      w.sess.takePkt.2 = some (len, .publish topic id props payload retain qos dup) ∧
      fromBuffer (w'.sess.reader.last.take len) = some (.publish topic id props payload retain qos dup) :=
  prp_redecode h

/-- …and so what `poll` / `recv` / `drive` print for it is the result line followed by the description of
that PUBLISH; the fallback arm of `World.deliver` is not taken. -/
theorem C08_delivered_is_the_handled_publish {w w' : World} {len : Nat} (name : String)
    (h : w.processReceivedPacket = (w', .ok (some len))) :
    ∃ topic id props payload retain qos dup,
      w.sess.takePkt.2 = some (len, .publish topic id props payload retain qos dup) ∧
      w'.deliver name len =
        (msgLines topic payload qos retain props).foldl World.emit (w'.finish s!"ret {name} ok msg") := by
  obtain ⟨topic, id, props, payload, retain, qos, dup, h1, h2⟩ := prp_redecode h
  exact ⟨topic, id, props, payload, retain, qos, dup, h1, deliver_of_publish w' name len h2⟩

/-- **No execution prints a `panic` line.** For every configuration and every sequence of directives
(connects, operations, I/O decisions, clock ticks, inbound bytes, cancellations, drops), no line of the
trace starts with `panic` — in particular `World.deliver` never reaches its fallback arm, i.e.
`decode_inbound_publish` never panics. -/
theorem C08_deliver_never_panics (cfg : Cfg) (ds : List Directive) :
    ∀ l ∈ (ds.foldl World.execDirective { sess := Session.new cfg }).out, l.startsWith "panic" = false :=
  clean_run ds _ (clean_init cfg)

/-- In particular the one line the model can print for a panic is never printed. -/
theorem C08_no_panic_line (cfg : Cfg) (ds : List Directive) :
    "panic decode_inbound_publish" ∉ (ds.foldl World.execDirective { sess := Session.new cfg }).out := by
  intro h
  have := C08_deliver_never_panics cfg ds _ h
  rw [String.startsWith_string_eq_false_iff] at this
  exact this (by decide)

/-- The same from any world whose trace is clean so far (for instance a hand-made one), and for program
texts as the harness runs them (every line is parsed, executed and followed by the three state lines;
`bad-cfg` and `cfgerr …` included). -/
theorem C08_no_panic_in_trace (text : String) : ∀ l ∈ runProgram text, l.startsWith "panic" = false :=
  runProgram_good text

theorem C08_no_panic_from (w : World) (ds : List Directive) (h : ∀ l ∈ w.out, l.startsWith "panic" = false) :
    ∀ l ∈ (ds.foldl World.execDirective w).out, l.startsWith "panic" = false :=
  clean_run ds w h

/-! ### Non-vacuity -/

/-- The property is about something: the line of the fallback arm does start with `panic`, and `deliver`
prints it when the bytes the reader holds are not a PUBLISH (here: a world nobody reaches, with an empty
reader). -/
example : ("panic decode_inbound_publish").startsWith "panic" = true := by decide +kernel

/-- A 64-byte client, identifier `c`, no keep-alive. -/
def C08P_cfg : Cfg :=
  { rx := 64, tx := 64, keepaliveS := 0, expiry := 0, downgrade := false, clientId := [0x63], auth := none,
    will := none }

example : (World.deliver { sess := Session.new C08P_cfg } "recv" 7).out.head? =
    some "panic decode_inbound_publish" := by
  decide +kernel

/-- `connect`; the broker's CONNACK; `go`; `recv`; a QoS 0 PUBLISH of `p` to topic `a`; `go`. As program
text: `connect`, `rx 2003000000`, `go`, `recv`, `rx 30050001610070`, `go` (the real crate prints the same
33 lines). -/
def C08P_prog : List Directive :=
  [.connect, .rx [0x20, 0x03, 0x00, 0x00, 0x00], .go, .recv, .rx [0x30, 0x05, 0x00, 0x01, 0x61, 0x00, 0x70], .go]

def C08P_out : List String := (C08P_prog.foldl World.execDirective { sess := Session.new C08P_cfg }).out

/-- The program delivers the PUBLISH (`deliver` runs: result line and `msg` line are there) and prints no
`panic` line. -/
example :
    "ret recv ok msg @0" ∈ C08P_out ∧
    "msg topic=61 payload=70 qos=0 retain=0 props=- iter=- rt=none cd=none" ∈ C08P_out ∧
    C08P_out.length = 33 ∧
    (C08P_out.all fun l => !l.startsWith "panic") = true := by
  decide +kernel

/-- The hypothesis of `C08_redecode_is_the_handled_publish` is satisfiable: the world of that program just
before the last `go` finishes reading — here built by hand: the seven bytes of the PUBLISH are in the
reader, whose length probe has run. -/
def C08P_w : World :=
  { sess := { Session.new C08P_cfg with
      reader := { cap := 64, data := [0x30, 0x05, 0x00, 0x01, 0x61, 0x00, 0x70], packetLength := some 7, last := [] } },
    conn := some { live := true, resumed := false }, nets := [{}] }

example : (C08P_w.processReceivedPacket).2 = .ok (some 7) ∧
    fromBuffer ((C08P_w.processReceivedPacket).1.sess.reader.last.take 7) =
      some (.publish [0x61] none [] [0x70] false 0 false) := by
  decide +kernel

end Minimq
