import Minimq.Proofs.ArenaClosed
/-
C17 — transmit arena: retained packets stay intact and capacity is fully recovered.

The arena is modelled concretely (`Out.lean`): one buffer of `capacity` bytes, retained entries with
offset and length, `compact` sliding entries down, encoders writing behind `used`. Every packet that
is (re)transmitted from the arena is `slice buf offset len` of its entry (`Ops.performStep`), so
"the bytes of an unacknowledged packet" are `Outbound.contents`.

Entries carry a ghost serial number (assigned by `retainPacket`, never printed, not in the code) so
that a theorem can speak of the same packet at two points of an execution even when its identifier
has been reused in between.
-/
namespace Minimq
open Gen Outbound World

/-- **Compaction is correct.** Every retained packet keeps its bytes, identifier, length, send state;
afterwards `used` is exactly the sum of the lengths — nothing else occupies arena space. -/
theorem C17_compact (o : Outbound) (h : o.ArenaInv) :
    (o.compact).ArenaInv ∧ (o.compact).contents = o.contents ∧ (o.compact).meta = o.meta ∧
    (o.compact).used = (o.retained.map (·.len)).sum ∧ (o.compact).buf.length = o.buf.length ∧
    (o.compact).release = o.release ∧ (o.compact).control = o.control ∧ (o.compact).nextSer = o.nextSer :=
  compact_spec o h

/-- **Acknowledgements in any order.** `ack_packet` removes exactly the first entry with that
identifier whose packet is of the acknowledged kind; all other packets keep their bytes. -/
theorem C17_ack (o : Outbound) (id : Nat) (k : AckKind) (h : o.ArenaInv) :
    let p := fun (e : RetainedPacket) => e.id == id && k.acknowledges (o.headerAt e.offset)
    (o.ackPacket id k).1.ArenaInv ∧
    ((o.ackPacket id k).2 = true →
      (o.ackPacket id k).1.contents = contents o.buf (removeFirst p o.retained) ∧
      (o.ackPacket id k).1.meta = (removeFirst p o.retained).map (fun e => (e.id, e.len, e.state, e.ser))) ∧
    ((o.ackPacket id k).2 = false → (o.ackPacket id k).1 = o) ∧ (o.ackPacket id k).1.nextSer = o.nextSer ∧
    (o.ackPacket id k).1.buf.length = o.buf.length :=
  ackPacket_spec o id k h

/-- **Later publishes, QoS 0 and CONNECT traffic.** Everything that is encoded into the arena goes
through `encodeAt` (compact, then write behind `used`); whatever the encoder writes inside the scratch
space it was given (`EncOk`, proved for the three encoders below), the retained packets keep their
bytes, and the new packet lies behind all of them. -/
theorem C17_encode {ε : Type} (o : Outbound) (enc : Nat → (Nat → Nat → Bytes) → Except ε (Nat × Bytes))
    (h : o.ArenaInv) (he : EncOk enc) :
    (o.encodeAt enc).1.ArenaInv ∧ (o.encodeAt enc).1.contents = o.contents ∧
    (o.encodeAt enc).1.meta = o.meta ∧ (o.encodeAt enc).1.used = (o.retained.map (·.len)).sum ∧
    (o.encodeAt enc).1.buf.length = o.buf.length ∧
    (o.encodeAt enc).1.release = o.release ∧ (o.encodeAt enc).1.control = o.control ∧
    (o.encodeAt enc).1.nextSer = o.nextSer ∧
    (∀ off len, (o.encodeAt enc).2 = .ok (off, len) →
      (o.encodeAt enc).1.used ≤ off ∧ off + len ≤ o.buf.length ∧ 0 < len) :=
  encodeAt_spec o enc h he

theorem C17_encoders_stay_in_scratch :
    (∀ cs typ flags, EncOk (fun cap _ => encodeWithOffset cap cs typ flags)) ∧
    (∀ c, EncOk (fun cap _ => encodeConnect cap c)) ∧
    (∀ h payload, EncOk (fun cap fill => encodePublishWithOffset cap h payload fill)) :=
  ⟨EncOk_encodeWithOffset, EncOk_encodeConnect, EncOk_encodePublish⟩

/-- **Replay.** `arm_replay` changes, inside the retained packets, only bit 3 of the first byte. -/
theorem C17_replay (o : Outbound) (h : o.ArenaInv) :
    (o.armReplay).ArenaInv ∧
    ((o.armReplay).contents = o.contents.map setDup ∨ ((o.armReplay) = o ∧ o.retained = [])) ∧
    (o.armReplay).retained.map (fun e => (e.id, e.len, e.ser)) = o.retained.map (fun e => (e.id, e.len, e.ser)) ∧
    (o.armReplay).used = o.used ∧ (o.armReplay).buf.length = o.buf.length ∧ (o.armReplay).nextSer = o.nextSer :=
  armReplay_spec o h

/-- A new session satisfies the invariants. -/
theorem C17_init (cfg : Cfg) :
    (Session.new cfg).data.outbound.ArenaInv ∧ (Session.new cfg).data.outbound.SerInv :=
  ⟨ArenaInv_new cfg.tx, ⟨by simp [Session.new, Outbound.new], by simp [Session.new, Outbound.new]⟩⟩

/-- **All programs, from any state.** Take any world whose arena is laid out sanely and run any
sequence of API calls, I/O decisions, inbound bytes, ticks, cancellations, drops and reconnects. The
arena is still laid out sanely, its size has not changed, and no retained packet was altered: every
packet that existed at the start and is still retained has the same serial, identifier and bytes (up
to the DUP bit), in the same order. -/
theorem C17_all_programs_from (w : World) (ds : List Directive)
    (h : w.sess.data.outbound.ArenaInv ∧ w.sess.data.outbound.SerInv) :
    let o := (ds.foldl World.execDirective w).sess.data.outbound
    (o.ArenaInv ∧ o.SerInv) ∧ Keeps w.sess.data.outbound o ∧ o.buf.length = w.sess.data.outbound.buf.length :=
  run_inv (closed_ArenaP w.sess.data.outbound) ds w ⟨h, Keeps.refl _, rfl⟩

/-- **Between any two points of any execution** of a new session. -/
theorem C17_between_two_points (cfg : Cfg) (ds1 ds2 : List Directive) :
    let a := (ds1.foldl World.execDirective { sess := Session.new cfg }).sess.data.outbound
    let b := ((ds1 ++ ds2).foldl World.execDirective { sess := Session.new cfg }).sess.data.outbound
    (a.ArenaInv ∧ a.SerInv) ∧ (b.ArenaInv ∧ b.SerInv) ∧ Keeps a b ∧ b.buf.length = cfg.tx := by
  intro a b
  have h1 := C17_all_programs_from { sess := Session.new cfg } ds1 (C17_init cfg)
  have h2 := C17_all_programs_from (ds1.foldl World.execDirective { sess := Session.new cfg }) ds2 h1.1
  simp only [] at h1 h2
  rw [← List.foldl_append] at h2
  refine ⟨h1.1, h2.1, h2.2.1, ?_⟩
  rw [h2.2.2, h1.2.2]
  simp [Session.new, Outbound.new]

theorem pairwise_lt_inj {α} (f : α → Nat) : ∀ {l : List α}, (l.map f).Pairwise (· < ·) → ∀ {x y}, x ∈ l → y ∈ l →
    f x = f y → x = y
  | [], _, _, _, hx, _, _ => by simp at hx
  | a :: l, h, x, y, hx, hy, he => by
    simp only [List.map_cons, List.pairwise_cons, List.mem_map, forall_exists_index, and_imp,
      forall_apply_eq_imp_iff₂] at h
    simp only [List.mem_cons] at hx hy
    rcases hx with rfl | hx <;> rcases hy with rfl | hy
    · rfl
    · have := h.1 y hy; omega
    · have := h.1 x hx; omega
    · exact pairwise_lt_inj f h.2 hx hy he

/-- What `Keeps` means for one packet: a packet of `b` that already existed at `a` is *the* packet of
`a` with that serial — same identifier, same bytes up to the DUP bit. -/
theorem C17_same_packet_same_bytes {a b : Outbound} (hk : Keeps a b) (ha : a.SerInv)
    (ser id id' : Nat) (bytes bytes' : Bytes) (hold : ser < a.nextSer)
    (hb : ((ser, id), bytes) ∈ b.tagged) (ha' : ((ser, id'), bytes') ∈ a.tagged) : id = id' ∧ bytes = bytes' := by
  have hin : ((ser, id), bytes) ∈ a.tagged := by
    apply hk.2.subset
    rw [List.mem_filter]
    exact ⟨hb, by simpa using hold⟩
  simp only [Outbound.tagged, List.mem_map, Prod.mk.injEq] at hin ha'
  obtain ⟨x, hx, ⟨hxs, hxi⟩, hxb⟩ := hin
  obtain ⟨y, hy, ⟨hys, hyi⟩, hyb⟩ := ha'
  have hxy : x = y := pairwise_lt_inj _ ha.inc hx hy (by rw [hxs, hys])
  subst hxy
  exact ⟨by rw [← hxi, ← hyi], by rw [← hxb, ← hyb]⟩

/-- **Capacity is fully recovered.** Whatever happened before, once nothing is retained the next
request gets the whole arena, exactly like in a new one: the same scratch space, the same free slots,
and the same result from any encoder that does not read the scratch space (all encoders except a
payload that claims bytes it did not write). -/
theorem C17_capacity_recovered {ε : Type} (o : Outbound) (h : o.ArenaInv) (hq : o.retained = [])
    (enc : Nat → (Nat → Nat → Bytes) → Except ε (Nat × Bytes)) (hv : ∀ cap v1 v2, enc cap v1 = enc cap v2) :
    o.scratchLen = o.capacity ∧ o.canRetain = (Outbound.new o.capacity).canRetain ∧
    (o.encodeAt enc).2 = ((Outbound.new o.capacity).encodeAt enc).2 ∧ (o.encodeAt enc).1.used = 0 := by
  have hc : o.compact = { o with used := 0 } := by
    unfold compact; rw [hq]; simp [compactGo]
  have hn : (Outbound.new o.capacity).compact = Outbound.new o.capacity := rfl
  have hcap : (Outbound.new o.capacity).capacity = o.capacity := by simp [Outbound.new, capacity]
  refine ⟨by simp [scratchLen, usedAfterCompact, hq], ?_, ?_, ?_⟩
  · unfold canRetain scratchLen usedAfterCompact capacity
    rw [hq]
    simp only [Outbound.new, List.length_nil, List.map_nil, List.sum_nil, Nat.sub_zero, List.length_replicate]
    rfl
  · unfold encodeAt
    simp only [hc, hn]
    rw [hcap]
    have hu : (Outbound.new o.capacity).used = 0 := rfl
    rw [hu]
    simp only [capacity]
    rw [hv (o.buf.length - 0) (fun idx n => slice o.buf (0 + idx) n)
      (fun idx n => slice (Outbound.new o.buf.length).buf (0 + idx) n)]
    split <;> simp
  · unfold encodeAt
    simp only [hc]
    split <;> rfl

/-- Non-vacuity: an arena with a hole between two retained packets satisfies the invariant, and
compaction closes the hole. -/
example :
    let o : Outbound := { (Outbound.new 16) with
      buf := [0x32, 1, 2, 3, 0, 0, 0x82, 5, 6, 0, 0, 0, 0, 0, 0, 0], used := 9, nextSer := 2,
      retained := [{ id := 1, offset := 0, len := 4, state := .sent, ser := 0 },
                   { id := 2, offset := 6, len := 3, state := .write 0, ser := 1 }] }
    o.ArenaInv ∧ o.SerInv ∧ o.compact.used = 7 ∧ o.compact.contents = [[0x32, 1, 2, 3], [0x82, 5, 6]] := by
  intro o
  refine ⟨⟨?_, ?_, ?_, ?_⟩, ⟨?_, ?_⟩, by decide, by decide⟩
  · simp [o, Sorted, Outbound.new]
  · simp [o, Outbound.new]
  · simp [o, Outbound.new]
  · simp [o, Outbound.new]
  · simp [o, Outbound.new]
  · simp [o, Outbound.new]

end Minimq
