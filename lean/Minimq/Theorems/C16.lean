import Minimq.Theorems.C01
import Minimq.Proofs.Ids
/-
C16 — with a responsive broker every accepted operation completes; the session quiesces.

This is a liveness property over whole executions. The run-time part (that repeated `poll()` calls
against a responsive broker reach quiescence within a bound on steps and bytes) is decided on every
run by the correspondence programs and the monitor (drain phases with a reactive broker, budget
counters, `spin`/`fuel` detection). What is proved here, for every state, are the facts the bound
rests on:

 * the scheduler never re-schedules an entry that has been sent: within one connection every packet
   is transmitted at most once (`C16_sent_never_rescheduled`); only `arm_replay` (disconnect /
   connect) makes entries fresh again, once per connection (`C16_replay_makes_fresh_once`);
 * every accepted non-empty write strictly decreases what is left of the packet, and the packet
   moves to `flush` exactly when nothing is left (`C16_write_progress`); a write of zero bytes is an
   error, not a retry (`C11` latches);
 * `poll()` returns `Ok(None)` only when something advanced (`C16_idle_poll_waits`): without
   progress and with nothing to send it goes to sleep on the transport instead of returning;
 * an acknowledgement strictly shrinks the queues (`C16_ack_shrinks`), and the session is quiescent
   exactly when the three queues are empty (`C16_quiescent_iff`).
Known findings F9 and F14 (see known_findings.json) are the two ways a session can be stuck.
-/
namespace Minimq
open Gen Outbound World

theorem matches_not_sent (b : Bool) : SendState.sent.matchesPriority b = false := by
  cases b <;> rfl

theorem nextStepPrio_not_sent (o : Outbound) (b : Bool) (s : Outbound.Step) (h : o.nextStepPrio b = some s) :
    s.state ≠ .sent := by
  unfold nextStepPrio at h
  intro hs
  cases hc : o.control.find? (fun e => e.state.matchesPriority b) with
  | some e =>
    rw [hc] at h; simp only [Option.some.injEq] at h; subst h
    have := List.find?_some hc
    simp only [Outbound.Step.state] at hs
    simp only [hs, matches_not_sent] at this
    exact Bool.false_ne_true this
  | none =>
    rw [hc] at h; simp only [] at h
    cases hr : o.release.find? (fun e => e.state.matchesPriority b) with
    | some e =>
      rw [hr] at h; simp only [Option.some.injEq] at h; subst h
      have := List.find?_some hr
      simp only [Outbound.Step.state] at hs
      simp only [hs, matches_not_sent] at this
      exact Bool.false_ne_true this
    | none =>
      rw [hr] at h; simp only [] at h
      cases ht : o.retained.find? (fun e => e.state.matchesPriority b) with
      | some e =>
        rw [ht] at h; simp only [Option.some.injEq] at h; subst h
        have := List.find?_some ht
        simp only [Outbound.Step.state] at hs
        simp only [hs, matches_not_sent] at this
        exact Bool.false_ne_true this
      | none => rw [ht] at h; simp at h

/-- The scheduler never returns an entry whose state is `sent` (the local half of "nothing is sent
twice within a connection"; the statement about the wire is `C02_at_most_once_on_every_connection` and
`C16Q_nothing_sent_twice`). -/
theorem C16_sent_never_rescheduled (o : Outbound) (s : Outbound.Step) (h : o.nextStep = some s) : s.state ≠ .sent := by
  unfold nextStep at h
  cases h1 : o.nextStepPrio true with
  | some s1 => rw [h1] at h; simp only [Option.some.injEq] at h; subst h; exact nextStepPrio_not_sent o true _ h1
  | none => rw [h1] at h; exact nextStepPrio_not_sent o false s h

/-- Completing the flush of a retained packet or PUBREL marks it `sent` (it stays in its queue until
acknowledged); a control packet is dropped from its queue. -/
theorem C16_flush_marks_sent (es : List RetainedPacket) (id : Nat) (e : RetainedPacket)
    (h : es.find? (fun e => e.id == id) = some e) :
    ∃ e', (modifyFirst (fun e => e.id == id) (fun e => { e with state := .sent }) es).find? (fun e => e.id == id) = some e' ∧
      e'.state = .sent := by
  induction es with
  | nil => simp at h
  | cons x xs ih =>
    simp only [modifyFirst]
    by_cases hx : (x.id == id) = true
    · rw [if_pos hx]
      exact ⟨{ x with state := .sent }, by simp [List.find?_cons, hx], rfl⟩
    · rw [if_neg hx]
      simp only [List.find?_cons, hx] at h ⊢
      exact ih h

/-- **Write progress.** Each accepted non-empty write strictly decreases what is left of the packet;
the entry moves to `flush` exactly when nothing is left. -/
theorem C16_write_progress (written count len : Nat) (hc : 0 < count) (hw : written < len) :
    (SendState.afterWrite (written + count) len = .flush ↔ len ≤ written + count) ∧
    (written + count < len → SendState.afterWrite (written + count) len = .write (written + count) ∧
      len - (written + count) < len - written) := by
  unfold SendState.afterWrite
  constructor
  · constructor
    · intro h; split at h
      · omega
      · simp at h
    · intro h; rw [if_pos (by omega)]
  · intro h
    exact ⟨by rw [if_neg (by omega)], by omega⟩

/-- **`poll()` does not return empty-handed without progress.** With nothing received, nothing to
send and nothing advanced, `drive_packet` reports `Idle` and `poll` waits on the transport (with the
keep-alive deadline) instead of returning `Ok(None)`. -/
theorem C16_idle_poll_waits (fuel : Nat) (w : World)
    (hav : w.sess.reader.packetAvailable = false) (hn : w.sess.data.outbound.nextStep = none) :
    driveAfterService (fuel + 1) w .poll false = doWaitRead fuel w .poll w.sess.rt.nextDeadline false := by
  unfold driveAfterService
  simp [hav, hn]

/-- …and it returns `Ok(None)` when something did advance. -/
theorem C16_advanced_poll_returns (fuel : Nat) (w : World)
    (hav : w.sess.reader.packetAvailable = false) (hn : w.sess.data.outbound.nextStep = none) :
    driveAfterService (fuel + 1) w .poll true = w.finish "ret poll ok none" := by
  unfold driveAfterService
  simp [hav, hn]

/-- **Acknowledgements shrink the queues.** -/
theorem C16_ack_shrinks (o : Outbound) (id : Nat) (k : AckKind) (h : (o.ackPacket id k).2 = true) :
    (o.ackPacket id k).1.retained.length + 1 = o.retained.length := by
  unfold ackPacket at h ⊢
  simp only [] at h ⊢
  split
  · rename_i hany
    simp only [compact_retained_length]
    exact removeFirst_length _ _ hany
  · rename_i hany; rw [if_neg hany] at h; simp at h

theorem C16_release_shrinks (o : Outbound) (id : Nat) (h : (o.ackRelease id).2 = true) :
    (o.ackRelease id).1.release.length + 1 = o.release.length := by
  unfold ackRelease at h ⊢
  split
  · rename_i hany; exact removeFirst_length _ _ hany
  · rename_i hany; rw [if_neg hany] at h; simp at h

/-- Quiescent = the three queues are empty. -/
theorem C16_quiescent_iff (o : Outbound) :
    o.isQuiescent = true ↔ o.control = [] ∧ o.retained = [] ∧ o.release = [] := by
  simp [isQuiescent, hasPendingState, List.isEmpty_iff]
  constructor
  · intro ⟨⟨a, b⟩, c⟩; exact ⟨a, b, c⟩
  · intro ⟨a, b, c⟩; exact ⟨⟨a, b⟩, c⟩

/-- **Replay.** `arm_replay` makes every pending entry fresh (state `write 0`). (That it runs only when a
connection ends or begins is a fact about its call sites — `handle_disconnect`, `connect` — visible in
`SessOps.lean`, not part of this statement.) -/
theorem C16_replay_makes_fresh_once (o : Outbound) (h : o.hasPendingState = true) :
    (∀ e ∈ o.armReplay.retained, e.state = .write 0) ∧ (∀ e ∈ o.armReplay.release, e.state = .write 0) ∧
    (∀ e ∈ o.armReplay.control, e.state = .write 0) := by
  unfold armReplay
  simp only [h, Bool.not_true, Bool.false_eq_true, if_false]
  refine ⟨?_, ?_, ?_⟩ <;> intro e he <;> simp only [List.mem_map] at he <;> obtain ⟨x, _, rfl⟩ := he <;> rfl

end Minimq
