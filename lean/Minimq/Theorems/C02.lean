import Minimq.Proofs.Exchange
/-
C02 — an accepted QoS 1 publish is never lost: kept until its PUBACK, replayed on each resume.

An accepted request (QoS 1/2 PUBLISH, SUBSCRIBE, UNSUBSCRIBE) is an entry of `Outbound.retained`; the
ghost serial `ser` names it across the execution. The theorems below are about all retained packets;
a QoS 1 PUBLISH is one whose first byte satisfies `AckKind.pubAck.acknowledges` (type 3, QoS bits 01).

(a) who removes a retained packet: per inbound packet (`C02_which_packet_is_removed`), per primitive
    step (`C02_step_keeps_or_acks`, `C02_step_loss`), and along every execution
    (`C02_lost_only_by_ack_or_fresh_session`, via `C02_every_program_is_a_chain_of_steps`);
(b) what is transmitted when: `.sent` entries are not offered, `arm_replay` makes everything fresh
    again with DUP set and the bytes otherwise unchanged, fresh retained packets are offered in list
    order, which is acceptance order;
(c) stale PUBACKs change nothing and a matching PUBACK frees the identifier.

Not proved here (needs reasoning about the wire trace across polls): that each offered packet is in fact
written to the wire exactly once per connection. The state-level facts in (b) are what that argument
rests on.
-/
namespace Minimq
open Gen Outbound World

/-! ### (a) Only its acknowledgement, or a fresh broker session, removes a retained packet -/

/-- **Which retained packet an inbound packet removes.** None unless the packet is a SUBACK, UNSUBACK,
PUBACK or PUBREC (`Recv.ackOf`); then `removeFirst` of the entries whose identifier equals the
acknowledged one and whose first byte is of the acknowledged kind. All other entries keep serial,
identifier, length, send state and order. -/
theorem C02_which_packet_is_removed (d : SessionData) (r : Runtime) (p : Recv) :
    (handlePacket d r p).1.outbound.keys =
      match p.ackOf with
      | none => d.outbound.keys
      | some (id, k) => (removeFirst (ackPred d.outbound id k) d.outbound.retained).map RetainedPacket.key :=
  handlePacket_keys d r p

/-- `removeFirst` removes nothing if no entry matches and otherwise exactly the first matching entry. -/
theorem C02_removeFirst (o : Outbound) (id : Nat) (k : AckKind) :
    (o.retained.any (ackPred o id k) = false → removeFirst (ackPred o id k) o.retained = o.retained) ∧
    (o.retained.any (ackPred o id k) = true →
      ∃ l₁ e l₂, o.retained = l₁ ++ e :: l₂ ∧ (∀ x ∈ l₁, ackPred o id k x = false) ∧ e.id = id ∧
        k.acknowledges (o.headerAt e.offset) = true ∧ removeFirst (ackPred o id k) o.retained = l₁ ++ l₂) := by
  refine ⟨removeFirst_none, fun h => ?_⟩
  obtain ⟨l₁, e, l₂, e1, e2, e3, e4⟩ := removeFirst_split h
  simp only [ackPred, Bool.and_eq_true, beq_iff_eq] at e3
  exact ⟨l₁, e, l₂, e1, e2, e3.1, e3.2, e4⟩

/-- **Every primitive step** (`SessStep`: one constructor per way the operations change the session)
either loses nothing — the list of retained serials keeps its order and at most grows at the end
(`NoLoss`) — or is the handling of an acknowledgement that found its packet, or is the CONNACK of a fresh
broker session. -/
theorem C02_step_keeps_or_acks {s s' : Session} (st : SessStep s s') :
    NoLoss s.data.outbound s'.data.outbound ∨
    (∃ p id k, s' = (s.handle p).1 ∧ p.ackOf = some (id, k) ∧ s.data.awaits id k = true) ∨
    (∃ block now, s' = (s.activate false block now).1) :=
  st.noLoss

/-- If a step removes the retained packet with serial `ser`, the step is the handling of an
acknowledgement whose identifier is that packet's and whose kind matches its first byte — and the
packet was the first such entry — or the CONNACK of a fresh broker session (`Removal`). -/
theorem C02_step_loss {s s' : Session} (st : SessStep s s') {ser : Nat}
    (h1 : ser ∈ s.data.outbound.sers) (h2 : ser ∉ s'.data.outbound.sers) : Removal s s' ser :=
  st.loss h1 h2

/-- **Every execution is a chain of primitive steps**: from any world, for any program (API calls, I/O
decisions, inbound bytes, ticks, cancellations, drops, reconnects), the final session is reached from
the initial one by `SessStep`s, and any closed predicate that holds at the start holds after each. -/
theorem C02_every_program_is_a_chain_of_steps {I : Session → Prop} (hI : Closed I) (w : World) (ds : List Directive)
    (h : I w.sess) : Reach I w.sess (ds.foldl World.execDirective w).sess :=
  run_reach hI ds w h

/-- **Never lost.** In every execution, a packet retained at the start that is no longer retained at the
end was removed by one identifiable step: the handling of the acknowledgement for its identifier and
kind, or the CONNACK of a fresh broker session. Before that step it was retained (`ser ∈ a…sers`). -/
theorem C02_lost_only_by_ack_or_fresh_session {I : Session → Prop} (hI : Closed I) (w : World) (ds : List Directive)
    (h : I w.sess) {ser : Nat} (h1 : ser ∈ w.sess.data.outbound.sers)
    (h2 : ser ∉ (ds.foldl World.execDirective w).sess.data.outbound.sers) :
    ∃ a b, Reach I w.sess a ∧ SessStep a b ∧ Reach I b (ds.foldl World.execDirective w).sess ∧
      ser ∈ a.data.outbound.sers ∧ Removal a b ser :=
  (run_reach hI ds w h).loss h1 h2

/-- Contrapositive for one chain without such steps: if no step of the chain handles an acknowledgement
that finds a packet and none is a fresh-session CONNACK, every retained packet is still retained, in
order. -/
theorem C02_kept_along_quiet_chain {I : Session → Prop} {s0 s : Session} (h : Reach I s0 s)
    (hq : ∀ a b, SessStep a b → NoLoss a.data.outbound b.data.outbound) :
    NoLoss s0.data.outbound s.data.outbound := by
  induction h with
  | refl => exact NoLoss.refl _
  | tail _ st _ ih => exact ih.trans (hq _ _ st)

/-! ### (b) At most once per connection, again after each resume, in acceptance order -/

/-- `complete_flush` of a retained packet marks the first entry with that identifier `.sent` and changes
nothing else (under `IdInv` it is the only entry with that identifier). -/
theorem C02_flush_marks_sent (s : Session) (id now : Nat) (h : s.data.outbound.hasRetained id = true) :
    (s.completeFlush (.retained id) now).data.outbound = s.data.outbound.flushRetained id ∧
    ∃ l₁ e l₂, s.data.outbound.retained = l₁ ++ e :: l₂ ∧ (∀ x ∈ l₁, x.id ≠ id) ∧ e.id = id ∧
      (s.data.outbound.flushRetained id).retained = l₁ ++ { e with state := .sent } :: l₂ :=
  ⟨rfl, flushRetained_spec _ id h⟩

/-- `next_step` never offers an entry in state `.sent`: a packet that has been flushed is not written
again on this connection. -/
theorem C02_sent_not_offered {o : Outbound} {st : Outbound.Step} (h : o.nextStep = some st) : st.state ≠ .sent :=
  nextStep_not_sent h

/-- No step other than `arm_replay` (disconnect, connect) takes an entry out of `.sent`: quiet steps of
the send path only ever set `afterWrite` or `.sent` on the *first entry with the flushed identifier*;
this is the statement for `set_written`. -/
theorem C02_setWritten_touches_one (o : Outbound) (id written len : Nat) :
    (o.hasRetained id = false → (o.setRetainedWritten id written len).retained = o.retained) ∧
    (o.hasRetained id = true → ∃ l₁ e l₂, o.retained = l₁ ++ e :: l₂ ∧ (∀ x ∈ l₁, x.id ≠ id) ∧ e.id = id ∧
      (o.setRetainedWritten id written len).retained =
        l₁ ++ { e with state := SendState.afterWrite written len } :: l₂) := by
  refine ⟨fun h => modifyFirst_none _ h, fun h => ?_⟩
  obtain ⟨l₁, e, l₂, h1, h2, h3, h4⟩ :=
    modifyFirst_split (fun e => { e with state := SendState.afterWrite written len }) h
  exact ⟨l₁, e, l₂, h1, fun x hx => by simpa using h2 x hx, by simpa using h3, h4⟩

/-- **Replay**: `arm_replay` (every disconnect, every connect) makes every retained entry fresh again
and keeps identifier, offset, length, serial and order; in the arena it sets the DUP bit of the first
byte of each retained packet and changes nothing else in them (`setDup`). -/
theorem C02_replay (o : Outbound) (h : o.ArenaInv) :
    o.armReplay.retained = o.retained.map (fun e => { e with state := .write 0 }) ∧
    (o.armReplay.contents = o.contents.map setDup ∨ (o.armReplay = o ∧ o.retained = [])) ∧
    o.armReplay.ArenaInv :=
  ⟨(armReplay_queues o).1, (armReplay_spec o h).2.1, (armReplay_spec o h).1⟩

/-- After `arm_replay` the next thing offered is the head of the control queue, else the head of the
release queue, else the OLDEST retained packet, from its first byte. -/
theorem C02_replay_starts_with_oldest (o : Outbound) :
    o.armReplay.nextStep =
      match o.control, o.release, o.retained with
      | c :: _, _, _ => some (.control c.action (.write 0))
      | [], x :: _, _ => some (.release x.id x.rc (.write 0))
      | [], [], e :: _ => some (.retained e.id e.offset e.len (.write 0))
      | [], [], [] => none :=
  armReplay_nextStep o

/-- **List order**: when `next_step` offers a retained packet it is the FIRST entry of the retained list
in the wanted send state (in progress, else fresh), and no control or release entry is in that state. -/
theorem C02_first_fresh_first {o : Outbound} {ip : Bool} {id off len : Nat} {st : SendState}
    (h : o.nextStepPrio ip = some (.retained id off len st)) :
    (∀ c ∈ o.control, c.state.matchesPriority ip = false) ∧ (∀ x ∈ o.release, x.state.matchesPriority ip = false) ∧
    ∃ l₁ e l₂, o.retained = l₁ ++ e :: l₂ ∧ (∀ x ∈ l₁, x.state.matchesPriority ip = false) ∧
      e.id = id ∧ e.offset = off ∧ e.len = len ∧ e.state = st ∧ st.matchesPriority ip = true :=
  nextStepPrio_retained h

/-- What is transmitted for an offered retained packet: the bytes `slice buf off len` of the arena. -/
theorem C02_transmits_arena_bytes (w : World) (id off len written : Nat) :
    w.prepareStep (.retained id off len (.write written)) =
      if w.sess.rt.packetTooLarge len then .fail .packetTooLarge
      else .write (.retained id) (slice w.sess.data.outbound.buf off len) written len := rfl

/-- **List order is acceptance order**: in every state reachable from a state satisfying the arena
invariants, the serials of the retained list are strictly increasing — a packet accepted earlier stands
before one accepted later — and new packets are appended at the end (`C02_step_keeps_or_acks`). -/
theorem C02_order_is_acceptance_order (w : World) (ds : List Directive)
    (h : w.sess.data.outbound.ArenaInv ∧ w.sess.data.outbound.SerInv) :
    ((ds.foldl World.execDirective w).sess.data.outbound.sers).Pairwise (· < ·) :=
  (run_inv (closed_ArenaP w.sess.data.outbound) ds w ⟨h, Keeps.refl _, rfl⟩).1.2.inc

/-! ### (c) PUBACK -/

/-- A PUBACK whose identifier is not retained, or whose retained packet is not a QoS 1 PUBLISH, changes
nothing at all. -/
theorem C02_stale_puback_ignored (d : SessionData) (r : Runtime) (id : Nat) (rs : ReasonIn)
    (h : d.awaits id .pubAck = false) : handlePacket d r (.pubAck id rs) = (d, r, .ok false) := by
  rw [handlePacket_pubAck]; simp [h]

/-- `ack_packet` returns `(o, false)` in that case. -/
theorem C02_ackPacket_not_found (o : Outbound) (id : Nat) (k : AckKind)
    (h : o.retained.any (ackPred o id k) = false) : o.ackPacket id k = (o, false) :=
  ackPacket_not_found h

/-- A matching PUBACK removes the packet, gives the send quota back, reports a failure code as a
rejection — and, identifiers in flight being distinct (`IdInv`, which holds in every reachable state,
`C07`), the identifier is afterwards held by no retained packet and no release entry: nothing is left to
retransmit for it. -/
theorem C02_puback_frees_identifier (d : SessionData) (r : Runtime) (id : Nat) (rs : ReasonIn)
    (hinv : d.IdInv) (h : d.awaits id .pubAck = true) :
    handlePacket d r (.pubAck id rs) =
      (d.acked id .pubAck, quotaInc r, if reasonSuccess rs.rc then .ok false else .error (.peerRejected rs.rc)) ∧
    (d.acked id .pubAck).outbound.hasRetained id = false ∧
    (d.acked id .pubAck).outbound.hasPendingRelease id = false := by
  refine ⟨by rw [handlePacket_pubAck]; simp [h], (acked_free hinv h).1, (acked_free hinv h).2.1⟩

/-! ### Instances -/

def C02_rt : Runtime := { keepaliveMs := 0, configuredKeepaliveMs := 0 }

/-- A QoS 1 PUBLISH (first byte 0x32) with identifier 5 and a SUBSCRIBE (0x82) with identifier 6, both
already sent on the current connection. -/
def C02_ex : SessionData :=
  { outbound := { (Outbound.new 16) with
      buf := [0x32, 5, 0, 1, 0x61, 0, 5, 0, 0x82, 3, 0, 6, 0, 0, 0, 0], used := 13, nextSer := 2,
      retained := [{ id := 5, offset := 0, len := 7, state := .sent, ser := 0 },
                   { id := 6, offset := 8, len := 5, state := .sent, ser := 1 }] } }

/-- Non-vacuity: PUBACK(5) removes serial 0 and only it; PUBACK(6) (a SUBSCRIBE is retained under 6) and
SUBACK(5) change nothing; nothing is offered while both are `.sent`; after `arm_replay` the PUBLISH is
offered first, and its first byte has DUP set. -/
example :
    C02_ex.awaits 5 .pubAck = true ∧ C02_ex.awaits 6 .pubAck = false ∧
    (handlePacket C02_ex C02_rt (.pubAck 5 { code := none, props := none })).1.outbound.sers = [1] ∧
    (handlePacket C02_ex C02_rt (.pubAck 6 { code := none, props := none })).1.outbound.sers = [0, 1] ∧
    (handlePacket C02_ex C02_rt (.subAck 5 [] [0])).1.outbound.sers = [0, 1] ∧
    C02_ex.outbound.nextStep = none ∧
    C02_ex.outbound.armReplay.nextStep = some (.retained 5 0 7 (.write 0)) ∧
    slice C02_ex.outbound.armReplay.buf 0 7 = [0x3a, 5, 0, 1, 0x61, 0, 5] := by
  refine ⟨by decide, by decide, by decide, by decide, by decide, by decide, by decide, by decide⟩

/-- The example state satisfies the invariants used as hypotheses above, and so does every new session;
`Closed` predicates to instantiate `I` with: `closed_IdInv`, `closed_ArenaP`, `Closed.true`. -/
example : C02_ex.outbound.ArenaInv ∧ C02_ex.outbound.SerInv ∧ C02_ex.IdInv := by
  refine ⟨⟨?_, ?_, ?_, ?_⟩, ⟨?_, ?_⟩, ⟨⟨by decide, by decide, by decide, by decide⟩, by decide⟩⟩
  · simp [C02_ex, Sorted, Outbound.new]
  · simp [C02_ex, Outbound.new]
  · simp [C02_ex, Outbound.new]
  · simp [C02_ex, Outbound.new]
  · simp [C02_ex, Outbound.new]
  · simp [C02_ex, Outbound.new]

example (cfg : Cfg) : (Session.new cfg).data.outbound.ArenaInv ∧ (Session.new cfg).data.outbound.SerInv ∧
    Closed (fun s => s.data.IdInv) ∧ (Session.new cfg).data.IdInv :=
  ⟨ArenaInv_new cfg.tx, ⟨by simp [Session.new, Outbound.new], by simp [Session.new, Outbound.new]⟩, closed_IdInv,
    ⟨IdInv_new cfg.tx, by simp [Session.new]⟩⟩

end Minimq
