import Minimq.Proofs.WireTop
/-
C14, whole machine — the client never transmits a packet longer than the Maximum Packet Size of the
current CONNACK.

`Theorems/C14.lean` proves the local facts: `perform_outbound_step`, the QoS 0 publish path and
`disconnect` check the size before the first byte is offered, and a packet that is too large fails
with `PacketTooLarge`. This file proves the end-to-end statement for every program, as a strengthening
of the wire invariant of `Theorems/C01Wire.lean`: on a live connection the bytes accepted by the
current transport are the CONNECT, then whole framed packets each of which is within the limit, then
the written part of at most one more packet, which is within the limit as well.

Why the limit of the *current* connection is the right one: the Maximum Packet Size lives in
`Runtime.maximumPacketSize`; of the eighteen primitives through which the operations change the
session only `activate` writes it (`C14_maximum_set_only_by_connack`), `activate` runs only at the end
of `connect_handshake`, and at that moment the transport carries exactly one whole packet, the CONNECT
(this is the invariant at the `connRead` await point). Every later packet was checked against that
value when its first byte was offered — and the check is remembered for the packet in progress, so it
still holds when the write is resumed by a later operation.

The first packet, the CONNECT, is exempt: it is written before the broker has announced anything.
(`beginConnect` does not clear the limit of the previous connection, but CONNECT is not checked
against it either: `startConnect` has no size check.)

`tornNets` is the ghost mark of `C01Wire` (an operation-local write was dropped mid-packet on that
transport). The proof is the one of C01Wire with two more facts carried along: `WireIs` records the
limit for every whole packet after the first, and `WritePre`/`OState.writing`/`LocalPre` record it for
the packet in progress.
-/
namespace Minimq
open Gen World Outbound

/-- **Everything on the wire of a live connection, after the CONNECT, is within the broker's Maximum
Packet Size.** Run any program from the initial world and let `w` be the world it ends in. If the
connection is live and no operation-local write was dropped on the current transport, the bytes
accepted by the transport are `frames.flatten ++ part` where

 * `frames` is not empty, every element is a whole framed packet, the first one is a CONNECT (type
   nibble 1), and every other one is at most `m` bytes long whenever the CONNACK of this connection
   announced Maximum Packet Size `m` (`Fits (some m) n` is `n ≤ m`; `Fits none n` is true);
 * `part` is described as in `C01_wire_is_whole_packets`, and the packet it belongs to is within the
   limit too: either `part = []`; or exactly one queue entry is in progress, `part` is the first
   `n + 1` bytes of its packet `bytes`, and `bytes` is within the limit; or a QoS 0 PUBLISH or a
   DISCONNECT is being written from the suspended operation holding `rest`, and `part ++ rest` is a
   whole packet within the limit. -/
theorem C14_wire_frames_within_maximum (cfg : Cfg) (ds : List Directive) :
    let w := ds.foldl World.execDirective { sess := Session.new cfg }
    w.nets.length ∉ w.tornNets → w.live = true →
    ∃ (frames : List Bytes) (part : Bytes), w.curNet.wire = frames.flatten ++ part ∧ frames ≠ [] ∧
      (∀ f ∈ frames, Framed f) ∧ (∀ f ∈ frames.head?, IsConnect f) ∧
      (∀ f ∈ frames.drop 1, Fits w.sess.rt.maximumPacketSize f.length) ∧
      ((part = [] ∧ tearsPacket w.fut = false ∧ w.sess.data.outbound.NoPartial) ∨
       (∃ n bytes, part = bytes.take (n + 1) ∧ n + 1 < bytes.length ∧ Framed bytes ∧
          Fits w.sess.rt.maximumPacketSize bytes.length ∧ tearsPacket w.fut = false ∧
          w.sess.data.outbound.OnePartial n bytes) ∨
       (∃ rest, (w.fut = some (.q0Write rest) ∨ w.fut = some (.discWrite rest)) ∧
          Framed (part ++ rest) ∧ Fits w.sess.rt.maximumPacketSize (part ++ rest).length ∧
          w.sess.data.outbound.NoneInProgress)) := by
  intro w hnt hl
  have hinv := run_WInv ds { sess := Session.new cfg } (WInv_init cfg)
  obtain ⟨frames, part, hw, hfr, hhead, hfits, hne, hcase⟩ := hinv.wire_full hnt (Or.inl hl)
  refine ⟨frames, part, hw, hne hl, hfr, hhead, hfits, ?_⟩
  rcases hcase with h1 | h2 | ⟨rest, hfut, hfr2, hq, hfit, hconn⟩
  · exact Or.inl h1
  · exact Or.inr (Or.inl h2)
  · refine Or.inr (Or.inr ⟨rest, ?_, hfr2, hfit hl, hq⟩)
    rcases hfut with hc | hq0 | hd
    · exact absurd (hconn hc).2 (hne hl)
    · exact Or.inl hq0
    · exact Or.inr hd

/-- The same with the limit spelled out: with Maximum Packet Size `m` announced by the CONNACK of the
current connection, every whole packet on the wire after the CONNECT is at most `m` bytes long. -/
theorem C14_wire_packet_lengths (cfg : Cfg) (ds : List Directive) (m : Nat) :
    let w := ds.foldl World.execDirective { sess := Session.new cfg }
    w.nets.length ∉ w.tornNets → w.live = true → w.sess.rt.maximumPacketSize = some m →
    ∃ (c : Bytes) (frames : List Bytes) (part : Bytes), w.curNet.wire = c ++ frames.flatten ++ part ∧
      Framed c ∧ IsConnect c ∧ (∀ f ∈ frames, Framed f ∧ f.length ≤ m) ∧
      (part = [] ∨ ∃ rest, Framed (part ++ rest) ∧ (part ++ rest).length ≤ m) := by
  intro w hnt hl hm
  obtain ⟨frames, part, hw, hne, hfr, hhead, hfits, hcase⟩ := C14_wire_frames_within_maximum cfg ds hnt hl
  cases frames with
  | nil => exact absurd rfl hne
  | cons c fs =>
    refine ⟨c, fs, part, by simpa using hw, hfr c (by simp), hhead c (by simp), ?_, ?_⟩
    · intro f hf
      exact ⟨hfr f (by simp [hf]), hfits f (by simpa using hf) m hm⟩
    · rcases hcase with ⟨h1, _⟩ | ⟨n, bytes, h1, _, h3, h4, _⟩ | ⟨rest, _, h2, h3, _⟩
      · exact Or.inl h1
      · right
        refine ⟨bytes.drop (n + 1), ?_, ?_⟩
        · rw [h1, List.take_append_drop]; exact h3
        · rw [h1, List.take_append_drop]; exact h4 m hm
      · exact Or.inr ⟨rest, h2, h3 m hm⟩

/-- **The limit is fixed by the CONNACK.** Every change the operations make to the session goes
through one of the primitives of `SessOps.lean` (`Prim`); each of them leaves the Maximum Packet Size
as it is, except `activate` — the part of `connect_handshake` that processes a successful CONNACK. -/
theorem C14_maximum_set_only_by_connack {s s' : Session} (h : Prim s s') :
    s'.rt.maximumPacketSize = s.rt.maximumPacketSize ∨ ∃ sp block now, s' = (s.activate sp block now).1 :=
  h.mps

/-! ### Non-vacuity -/

def C14Wire_cfg : Cfg :=
  { rx := 64, tx := 128, keepaliveS := 0, expiry := 300, downgrade := false, clientId := [0x63], auth := none, will := none }

/-- connect; a CONNACK announcing Maximum Packet Size 12; a QoS 1 publish of 9 bytes, written and
flushed; a QoS 0 publish of 14 bytes (refused: `PacketTooLarge`, nothing written); a QoS 0 publish of 7
bytes of which the transport accepts 2. -/
def C14Wire_prog : List Directive :=
  [.connect, .rx [0x20, 0x08, 0x00, 0x00, 0x05, 0x27, 0x00, 0x00, 0x00, 0x0c], .go,
   .publish { qos := 1, retain := false, topic := [0x74], payload := .bytes [0x70], props := .slice [] }, .go,
   .publish { qos := 0, retain := false, topic := [0x74],
              payload := .bytes [0x70, 0x70, 0x70, 0x70, 0x70, 0x70, 0x70, 0x70, 0x70], props := .slice [] },
   .publish { qos := 0, retain := false, topic := [0x74], payload := .bytes [0x71], props := .slice [] }, .d 2]

/-- The hypotheses hold, the limit is 12, the CONNECT (29 bytes, longer than the limit: it is exempt)
is followed by the 9-byte PUBLISH and 2 bytes of the 7-byte one; the 14-byte one is not there. -/
example :
    let w := C14Wire_prog.foldl World.execDirective { sess := Session.new C14Wire_cfg }
    w.nets.length ∉ w.tornNets ∧ w.live = true ∧ w.sess.rt.maximumPacketSize = some 12 ∧
    w.curNet.wire.drop 29 = ([0x32, 0x07, 0x00, 0x01, 0x74, 0x00, 0x01, 0x00, 0x70, 0x30, 0x05] : Bytes) ∧
    (match w.lastRes with | some (.error .packetTooLarge) => true | _ => false) = true := by
  decide +kernel

end Minimq
