import Minimq.Proofs.QuiesceFinal
import Minimq.Theorems.C12Machine
/-
C16, liveness half — "from any reachable state, once transport and broker behave, repeatedly calling
`poll()` completes every pending publish, subscribe and unsubscribe, sends every owed acknowledgement and
reaches a publish-quiescent session within a bounded number of steps".

The closed loop (`Proofs/QuiesceLoop.lean`).
* **The broker** (`answerOf`, `ansHeader`): for every packet the current transport has accepted
  completely — an entry of the transmission log `World.log`, which carries the queue entry's identifier
  and the packet's bytes — it sends PUBACK(id, Success) for a QoS 1 PUBLISH, PUBREC(id, Success) for a
  QoS 2 PUBLISH, PUBCOMP(id) for a PUBREL, SUBACK(id, one reason code 0) / UNSUBACK(id, one reason code
  0) for SUBSCRIBE / UNSUBSCRIBE (the client accepts any number of codes, it only looks for failures),
  PINGRESP for a PINGREQ, and nothing for the client's own acknowledgements; all without properties, as
  the bytes `Spec.encodeServer …` appended to the inbound queue of the current transport
  (`Directive.rx`). It sends nothing else — no inbound publishes.
* **A round** (`round`): the application calls `poll()` (`Directive.poll`; a `poll()` still suspended
  from the round before is dropped, which `poll` allows), every I/O call gets the decision 250 — accept /
  deliver everything — until that `poll()` returns or its read is starved (`Directive.go`); then the broker
  answers the log entries of the current transport that were added during the round. A round is three
  directives, so every world of the loop is again a world a program produced.
* Time stands still; no keep-alive event is due (`KaCalm`) and no PINGREQ is queued.

`Setting w` spells out the hypotheses; `Ready w` is the invariant between rounds.

What is proved (`C16Q_bounded_quiescence`). After at most
`mu = [something is not yet Sent] + Σ retained (2 for a QoS 2 PUBLISH, else 1) + |release|`
rounds (`≤ 1 + 2·|retained| + |release|`; the bound is attained: see the examples) the three queues are
empty: every packet has been written, flushed and acknowledged, every owed acknowledgement has been written
and flushed (they leave the control queue when flushed), every handle that was pending reports `complete`,
the send quota is back at its maximum; the session stays quiescent in all later rounds; every world on the
way is a world a program produced, so all the invariants proved for programs hold of it — in particular no
retained packet and no PUBREL is handed to the transport twice on this connection
(`C16Q_nothing_sent_twice`, from the C02 / C03 wire invariants). Each round needs at most 433 decisions
(`go` has 10000). `C16Q_reconnect_then_quiescence` is the reconnect clause: `connect`, a conformant CONNACK
with session present, then the rounds — everything is replayed once and acknowledged.

Not proved separately: the byte count of the writes (it follows from `C16Q_nothing_sent_twice` with
`C02_logged_packets_are_on_the_wire`: the wire behind the CONNECT is the logged packets, each once).

Hypotheses that a program-produced world always satisfies but that are not among the lifted invariants,
and are therefore asked for in `Setting`: no `Sent` entry in the control queue, at most 8 control entries,
identifiers below 65536, retained packets of the four kinds, balanced quota books. Genuine restrictions:
live; nothing over the broker's size limit (F14; a limit below 5 also blocks PUBREL); `deficit` clear (F5c);
no keep-alive traffic (no PINGREQ queued, none due: time stands still); the receive buffer holds six bytes;
and the broker is *up to date* (`sync`) — a packet already on the wire whose answer is not in the inbound
queue would never be answered by a broker that only answers what it sees completed, and the session would
wait for it for ever: that is the closed loop's assumption, not a defect of the client.

The proof is a potential argument on two levels: `nu` (decisions that certainly suffice to end the
client's turn) goes down with every POLL of a round (`mid_step`), and `mu` goes down with every round
that does not end quiescent (`round_ready`).
-/
namespace Minimq
open Gen World Fuel Outbound Quiesce

/-- **One round keeps the invariant and makes progress**: fewer rounds are needed afterwards, or the
session is quiescent. -/
theorem C16Q_round_progress (w : World) (h : Ready w) :
    Ready (round w) ∧
    (mu (round w).sess.data.outbound < mu w.sess.data.outbound ∨ (round w).sess.data.outbound.isQuiescent = true) :=
  ⟨(round_ready w h).1, (round_ready w h).2.1⟩

/-- **Bounded quiescence.** Let a program have produced `w`, in the setting `Setting w` (live,
nothing over the size limit, `deficit` clear, broker up to date, …). The broker of the loop answers
what the transmission log says was completed on the current transport; that is what a real broker
parses only if the transport is not torn (no CONNECT / QoS 0 PUBLISH / DISCONNECT write was dropped on
it: `tearsPacket w.fut = false`, `w.nets.length ∉ w.tornNets` — the hypotheses of
`C16Q_nothing_sent_twice`, under which `C02_logged_packets_are_on_the_wire` identifies log and wire).
`Setting` does not ask for it: on a torn transport the statement is about the client's bookkeeping
against that idealised broker, not about a broker that reads the bytes. Then there is `n ≤ mu` — so
`n ≤ 1 + 2·|retained| + |release|` — such that after `n` rounds

* the session is quiescent: control, retained and release queue are empty;
* it stays quiescent in every later round;
* every operation handle whose status was `pending` reports `complete`;
* the send quota is back at its maximum;
* the world is one a program produced, and the invariant between rounds holds. -/
theorem C16Q_bounded_quiescence (w : World) (hprog : Produced w) (hs : Setting w) :
    ∃ n, n ≤ mu w.sess.data.outbound ∧
      n ≤ 1 + 2 * w.sess.data.outbound.retained.length + w.sess.data.outbound.release.length ∧
      (rounds n w).sess.data.outbound.isQuiescent = true ∧
      (∀ m, (rounds m (rounds n w)).sess.data.outbound.isQuiescent = true) ∧
      (∀ op, w.sess.data.status op = .pending → (rounds n w).sess.data.status op = .complete) ∧
      (rounds n w).sess.rt.sendQuota = (rounds n w).sess.rt.maxSendQuota ∧
      Produced (rounds n w) ∧ Ready (rounds n w) := by
  have hr := ready_of w hprog hs
  obtain ⟨n, hn, hq, hr', hgen⟩ := quiesces _ w hr (Nat.le_refl _)
  exact ⟨n, hn, Nat.le_trans hn (mu_le _), hq, fun m => (stays_quiescent _ hr' hq m).1,
    fun op hp => status_complete _ _ op hgen hq hp, quota_restored _ hr'.live.tidy.quotaEq hq, rounds_reach hprog n, hr'⟩

/-- **The reconnect clause.** Let a program have produced `w` — dead, dropped, whatever — with no I/O
decision left over, and let CONNECT fit (else F5). The application calls `connect()`; a conformant broker
answers CONNACK with session present, success and acceptable properties; the transport takes enough healthy
decisions. Call the result `W` (`C12M_connect_succeeds`: connected, everything re-armed for replay). If the
new CONNACK's limits leave room (`Fits`: F14; `deficit` clear: F5c) and the queue facts of `Setting` hold of
`W`, then the rounds of the closed loop from `W` replay every unacknowledged packet once, get every
acknowledgement, and reach a quiescent session within `mu` rounds, where every handle that was pending
reports `complete`. -/
theorem C16Q_reconnect_then_quiescence (w : World) (hprog : Produced w) (hslot : w.slot = none)
    (off : Nat) (pkt : Bytes)
    (he : encodeConnect w.sess.data.outbound.scratchLen w.sess.beginConnect.connectPacket = .ok (off, pkt))
    (block : Bytes) (hblk : connackBlockOk block)
    (hwf : (Spec.ServerPacket.connAck true 0 block).wf = true)
    (hfit : (Spec.encodeServer (.connAck true 0 block)).length ≤ w.sess.reader.cap)
    (ks : List Nat) (hks : ∀ k ∈ ks, 1 ≤ k ∧ k ≤ 250)
    (hlen : pkt.length + 1 + (Spec.encodeServer (.connAck true 0 block)).length ≤ ks.length) :
    let W := runDs ks ((w.execDirective .connect).execDirective (.rx (Spec.encodeServer (.connAck true 0 block))))
    (∀ e ∈ W.sess.data.outbound.control, e.state ≠ .sent) →
    (∀ e ∈ W.sess.data.outbound.control, e.action.typ ≠ MT_PingReq) →
    W.sess.data.outbound.control.length ≤ MAX_PENDING_CONTROL →
    Quiesce.Fits W.sess → (∀ id ∈ W.sess.data.outbound.usedIds, id < 65536) → W.sess.rt.deficit = false →
    KnownKinds W.sess.data.outbound → 6 ≤ w.sess.reader.cap →
    W.live = true ∧ W.conn = some { live := true, resumed := true } ∧
    ∃ n, n ≤ mu W.sess.data.outbound ∧ (rounds n W).sess.data.outbound.isQuiescent = true ∧
      (∀ m, (rounds m (rounds n W)).sess.data.outbound.isQuiescent = true) ∧
      (∀ op, W.sess.data.status op = .pending → (rounds n W).sess.data.status op = .complete) := by
  intro W h1 h2 h3 h4 h5 h6 h7 h8
  obtain ⟨_, c2, c3, _, c5, c6, c7, c8⟩ := C12M_connect_succeeds w hprog.arena hslot off pkt he true block hblk hwf hfit
    ks hks hlen
  have hW : Produced W := ((hprog.exec _).exec _).run _
  have hs := setting_after_reconnect w W pkt _ block c3 c7 c5 c6 c8 h1 h2 h3 h4 h5 h6 h7 h8
  obtain ⟨n, hn, _, hq, hst, hh, _, _, _⟩ := C16Q_bounded_quiescence W hW hs
  exact ⟨c3, c2, n, hn, hq, hst, hh⟩

/-- **Nothing is sent twice.** In the setting of the theorem, with the transport not marked torn and no
operation-local write (CONNECT, QoS 0 PUBLISH, DISCONNECT) suspended at the start: after any number of
rounds the serials of the retained packets, and those of the PUBRELs, in the transmission log of the current
transport strictly increase — every packet was handed to the transport at most once on this connection, in
queue order (`C02_retained_queue_agrees_with_log`, `C03_release_queue_agrees_with_log` for the worlds of the
loop). With `C02_logged_packets_are_on_the_wire` the bytes written are those packets and nothing else. -/
theorem C16Q_nothing_sent_twice (w : World) (hprog : Produced w) (hs : Setting w)
    (hsafe : tearsPacket w.fut = false) (hu : w.nets.length ∉ w.tornNets) (n : Nat) :
    (sers (rounds n w).curLog).Pairwise (· < ·) ∧ (relSers (rounds n w).curLog).Pairwise (· < ·) := by
  obtain ⟨h1, h2, _⟩ := rounds_untorn w (ready_of w hprog hs) hsafe hu n
  exact no_resend _ (rounds_reach hprog n) h1.live.live h2

/-- The bound in plain terms. -/
theorem C16Q_bound (o : Outbound) : mu o ≤ 1 + 2 * o.retained.length + o.release.length := mu_le o

/-- Quiescent means that nothing is left in any of the three queues, and `mu = 0` says the same. -/
theorem C16Q_quiescent_iff (o : Outbound) :
    (o.isQuiescent = true ↔ o.control = [] ∧ o.retained = [] ∧ o.release = []) ∧ (mu o = 0 ↔ o.isQuiescent = true) :=
  ⟨quiescent_iff' o, mu_zero_iff o⟩

/-! ### Non-vacuity: two concrete worlds -/

/-- A client with a 64-byte receive buffer and a 128-byte arena, no keep-alive. -/
def C16Q_cfg : Cfg :=
  { rx := 64, tx := 128, keepaliveS := 0, expiry := 300, downgrade := false, clientId := [0x63], auth := none, will := none }

def C16Q_pub (q t p : Nat) : Directive :=
  .publish { qos := q, retain := false, topic := [UInt8.ofNat t], payload := .bytes [UInt8.ofNat p], props := .slice [] }

def C16Q_sub : Directive :=
  .subscribe { topics := [{ topic := [0x61], opts := { maxQos := 1, noLocal := false, rap := false, rh := 0 } }], props := [] }

/-- First world. Connected; a QoS 2 publish sent and its PUBREC handled, so its PUBREL is sent (id 1); a
QoS 1 publish sent (id 2); a second QoS 1 publish with 3 of its 9 bytes written (id 3), its operation still
suspended; the broker's PUBCOMP(1) and PUBACK(2) have arrived and have not been read. -/
def C16Q_prog : List Directive :=
  [.connect, .rx [0x20, 0x03, 0x00, 0x00, 0x00], .go,
   C16Q_pub 2 0x74 0x70, .go, .rx [0x50, 0x02, 0x00, 0x01], .poll, .go,
   C16Q_pub 1 0x75 0x71, .go,
   C16Q_pub 1 0x76 0x72, .d 3,
   .rx [0x70, 0x02, 0x00, 0x01, 0x40, 0x02, 0x00, 0x02]]

def C16Q_w : World := C16Q_prog.foldl World.execDirective { sess := Session.new C16Q_cfg }

theorem C16Q_w_produced : Produced C16Q_w := ⟨C16Q_cfg, C16Q_prog, rfl⟩

/-- The setting holds for it: the retained queue is `[(2, Sent), (3, Write 3)]`, the release queue
`[(1, Sent)]`, the control queue empty; the broker owes PUBACK(2) and PUBCOMP(1), and exactly these are in
the inbound queue. -/
theorem C16Q_w_setting : Setting C16Q_w := by
  have hctl : C16Q_w.sess.data.outbound.control = [] := by decide +kernel
  have hexp : expected C16Q_w.sess.data.outbound = [.ack .pubAck 2 .none, .ack .pubComp 1 .none] := by decide +kernel
  have hrx : C16Q_w.curNet.rx = enc [.ack .pubComp 1 .none, .ack .pubAck 2 .none] := by decide +kernel
  have hka : C16Q_w.sess.rt.nextPing = none ∧ C16Q_w.sess.rt.pingTimeout = none := by decide +kernel
  refine ⟨by decide +kernel, by decide +kernel, ?_, ?_, ?_, ?_, ⟨?_, by decide +kernel, by decide +kernel⟩,
    by decide +kernel, by decide +kernel, by decide +kernel, by decide +kernel, (by unfold KnownKinds; decide +kernel),
    by decide +kernel, by decide +kernel, by decide +kernel, ?_⟩
  · exact ⟨fun np h => (by rw [hka.1] at h; cases h), fun pt h => (by rw [hka.2] at h; cases h)⟩
  · rw [hctl]; intro e he; cases he
  · rw [hctl]; intro e he; cases he
  · rw [hctl]; decide
  · rw [hctl]; intro e he; cases he
  · exact ⟨_, hrx, by rw [hexp]; exact List.Perm.swap _ _ _⟩

/-- Four rounds are needed and four suffice (`mu = 4`: one entry is not sent, the QoS 1 publishes need one
acknowledgement each, the PUBREL one): the count of rounds still needed goes 4, 3, 2, 1, 0. -/
example : (List.range 6).map (fun n => (mu (rounds n C16Q_w).sess.data.outbound,
      (rounds n C16Q_w).sess.data.outbound.isQuiescent)) =
    [(4, false), (3, false), (2, false), (1, false), (0, true), (0, true)] := by decide +kernel

/-- …as the theorem says: within `mu = 4` rounds, and then the quota is back at its maximum. -/
example : ∃ n, n ≤ 4 ∧ (rounds n C16Q_w).sess.data.outbound.isQuiescent = true ∧
    (rounds n C16Q_w).sess.rt.sendQuota = (rounds n C16Q_w).sess.rt.maxSendQuota := by
  obtain ⟨n, hn, _, hq, _, _, hquota, _⟩ := C16Q_bounded_quiescence C16Q_w C16Q_w_produced C16Q_w_setting
  exact ⟨n, by have : mu C16Q_w.sess.data.outbound = 4 := by decide +kernel
               omega, hq, hquota⟩

/-- Second world. A session with an owed PUBACK (for an inbound QoS 1 PUBLISH, id 9), a QoS 2 exchange in
its PUBREL phase (id 1), a QoS 1 publish (id 2), a QoS 2 publish (id 3) and a subscribe (id 4), all
unacknowledged, whose connection was dropped; reconnected with session present — everything is re-armed —
and a `poll()` has put 3 of the 5 bytes of the owed PUBACK on the new wire. -/
def C16Q_prog2 : List Directive :=
  [.connect, .rx [0x20, 0x03, 0x00, 0x00, 0x00], .go,
   C16Q_pub 2 0x74 0x70, .go, .rx [0x50, 0x02, 0x00, 0x01], .poll, .go,
   C16Q_pub 1 0x75 0x71, .go, C16Q_pub 2 0x76 0x72, .go, C16Q_sub, .go,
   .rx [0x32, 0x06, 0x00, 0x01, 0x74, 0x00, 0x09, 0x00], .poll, .go,
   .drop, .connect, .rx [0x20, 0x03, 0x01, 0x00, 0x00], .go, .poll, .d 3]

def C16Q_w2 : World := C16Q_prog2.foldl World.execDirective { sess := Session.new C16Q_cfg }

/-- The setting holds for it: control `[PUBACK 9, Write 3]`, release `[(1, Write 0)]`, retained
`[(2, Write 0), (3, Write 0), (4, Write 0)]`; nothing is completely on the new wire, so the broker owes
nothing, and the inbound queue is empty. -/
theorem C16Q_w2_setting : Setting C16Q_w2 := by
  have hctl : C16Q_w2.sess.data.outbound.control = [⟨⟨4, 9, 0⟩, .write 3⟩] := by decide +kernel
  have hexp : expected C16Q_w2.sess.data.outbound = [] := by decide +kernel
  have hrx : C16Q_w2.curNet.rx = enc [] := by decide +kernel
  have hka : C16Q_w2.sess.rt.nextPing = none ∧ C16Q_w2.sess.rt.pingTimeout = none := by decide +kernel
  have henc : encodeControl ⟨4, 9, 0⟩ = .ok [0x40, 0x03, 0x00, 0x09, 0x00] := by rfl
  have hmps : C16Q_w2.sess.rt.packetTooLarge 5 = false := by decide +kernel
  refine ⟨by decide +kernel, by decide +kernel, ?_, ?_, ?_, ?_, ⟨?_, by decide +kernel, by decide +kernel⟩,
    by decide +kernel, by decide +kernel, by decide +kernel, by decide +kernel, (by unfold KnownKinds; decide +kernel),
    by decide +kernel, by decide +kernel, by decide +kernel, ?_⟩
  · exact ⟨fun np h => (by rw [hka.1] at h; cases h), fun pt h => (by rw [hka.2] at h; cases h)⟩
  · rw [hctl]; decide
  · rw [hctl]; decide
  · rw [hctl]; decide
  · rw [hctl]
    intro e he
    simp only [List.mem_singleton] at he
    subst he
    exact ⟨_, henc, hmps⟩
  · exact ⟨[], hrx, by rw [hexp]⟩

/-- Six rounds (`mu = 1 + (1 + 2 + 1) + 1`): the first replays everything, the others take one
acknowledgement each; the PUBREC round also sends the PUBREL. -/
example : (List.range 8).map (fun n => (mu (rounds n C16Q_w2).sess.data.outbound,
      (rounds n C16Q_w2).sess.data.outbound.isQuiescent)) =
    [(6, false), (5, false), (4, false), (3, false), (2, false), (1, false), (0, true), (0, true)] := by
  decide +kernel

end Minimq
