import Minimq.Proofs.SessionFacts
/-
C05, program level — after the first accepted CONNACK every CONNECT asks to resume and carries the
configured or the broker-assigned client identifier, for every program; with the one exception of the
recorded finding F19.

The session carries three ghost fields (`SessionData`, never rendered, not in the code):
`everAccepted` (a CONNACK has been accepted at some point), `halfReset` (finding F19 has struck since
the last accepted CONNACK: a CONNACK with Session Present = 0 reset the local state and was then
rejected for its properties) and `assignedId` (the Assigned Client Identifier of the last accepted
CONNACK that carried one). `EstInv` (Proofs/SessionFacts.lean) relates them to `sessionPresent` and
`clientId`; it is preserved by every session primitive (`closed_EstInv`) and therefore holds after every
program (`run_inv`). `Prim s s'` is one step of a session primitive (see C05.lean).
-/
namespace Minimq
open Gen World Outbound

/-- **The invariant, for all programs.** After any sequence of API calls, I/O decisions, inbound
bytes, ticks, cancellations, drops and reconnects on a new session: before the first accepted CONNACK
the session is not established; afterwards it is established unless F19 has struck since the last
accepted CONNACK; a half-reset session is not established; the client identifier is the last one the
broker assigned in an accepted CONNACK, or the configured one if none was ever assigned; an assigned
identifier has at most `CLIENT_ID_CAPACITY` bytes. -/
theorem C05_invariant_all_programs (cfg : Cfg) (ds : List Directive) :
    EstInv cfg.clientId (ds.foldl World.execDirective { sess := Session.new cfg }).sess :=
  run_inv (closed_EstInv cfg.clientId) ds { sess := Session.new cfg } (EstInv_new cfg)

/-- **Clean start, for all programs.** Until the first accepted CONNACK every CONNECT asks for a clean
start; from then on every CONNECT asks to resume (clean start 0) — except while the session is
half-reset by finding F19, when it asks for a clean start again (and exactly then: the last clause). -/
theorem C05_clean_start_all_programs (cfg : Cfg) (ds : List Directive) :
    let s := (ds.foldl World.execDirective { sess := Session.new cfg }).sess
    (s.data.everAccepted = true → s.data.halfReset = false → s.connectPacket.cleanStart = false) ∧
    (s.data.everAccepted = false → s.connectPacket.cleanStart = true) ∧
    (s.data.halfReset = true → s.connectPacket.cleanStart = true) := by
  intro s
  have h := C05_invariant_all_programs cfg ds
  refine ⟨fun h1 h2 => ?_, fun h1 => ?_, fun h1 => ?_⟩
  · show (!s.data.sessionPresent) = false
    rw [h.est h1 h2]; rfl
  · show (!s.data.sessionPresent) = true
    rw [h.notYet h1]; rfl
  · show (!s.data.sessionPresent) = true
    rw [h.half h1]; rfl

/-- **`halfReset` is raised exactly by the F19 history.** Across a primitive step the flag is unchanged,
or the step is the processing of a CONNACK with Session Present = 0 whose property block is rejected
(the flag is then raised, the session is left reset and `connect()` fails with `Peer.InvalidPacket`),
or the step is an accepted CONNACK (the flag is then cleared). Conversely every such CONNACK step has
that effect, and a rejected CONNACK with Session Present = 1 leaves the flag alone. -/
theorem C05_halfReset_exactly_F19 {s s' : Session} (h : Prim s s') :
    (s'.data.halfReset = s.data.halfReset ∨
     (∃ block now, s' = (s.activate false block now).1 ∧ ¬ connackBlockOk block ∧
       (s.activate false block now).2 = .error .peerInvalid ∧ s'.data.halfReset = true ∧
       s'.data.sessionPresent = false) ∨
     (∃ sp block now, s' = (s.activate sp block now).1 ∧ (s.activate sp block now).2 = .ok () ∧
       s'.data.halfReset = false)) ∧
    (∀ sp block now,
      (¬ connackBlockOk block → sp = false → (s.activate sp block now).1.data.halfReset = true) ∧
      (¬ connackBlockOk block → sp = true → (s.activate sp block now).1.data.halfReset = s.data.halfReset) ∧
      (connackBlockOk block → (s.activate sp block now).1.data.halfReset = false ∧
        (s.activate sp block now).1.data.everAccepted = true)) :=
  ⟨h.halfReset_changes, fun sp block now => activate_halfReset s sp block now⟩

/-- **`everAccepted` is raised exactly by an accepted CONNACK** and never cleared. -/
theorem C05_everAccepted_exactly_success {s s' : Session} (h : Prim s s') :
    (s.data.everAccepted = true → s'.data.everAccepted = true) ∧
    (s.data.everAccepted = false → s'.data.everAccepted = true →
      ∃ sp block now, s' = (s.activate sp block now).1 ∧ (s.activate sp block now).2 = .ok ()) ∧
    (∀ sp block now, (s.activate sp block now).2 = .ok () → (s.activate sp block now).1.data.everAccepted = true) :=
  ⟨h.everAccepted_changes.1, h.everAccepted_changes.2,
   fun sp block now hok => ((activate_halfReset s sp block now).2.2 ((activate_ok_iff s sp block now).1 hok)).2⟩

/-- **The client identifier, for all programs.** In every reachable state the CONNECT carries the
identifier the broker assigned in the last accepted CONNACK that assigned one, or the configured
identifier if no accepted CONNACK ever assigned one (in particular before the first accepted CONNACK);
an assigned identifier has at most `CLIENT_ID_CAPACITY` bytes. -/
theorem C05_client_id_all_programs (cfg : Cfg) (ds : List Directive) :
    let s := (ds.foldl World.execDirective { sess := Session.new cfg }).sess
    s.connectPacket.clientId = s.data.assignedId.getD cfg.clientId ∧
    (∀ bs, s.data.assignedId = some bs → bs.length ≤ CLIENT_ID_CAPACITY) ∧
    (s.data.everAccepted = false → s.connectPacket.clientId = cfg.clientId) := by
  intro s
  have h := C05_invariant_all_programs cfg ds
  refine ⟨h.cid, h.cidLen, fun h1 => ?_⟩
  show s.clientId = _
  rw [h.cid, h.assignedLate h1]; rfl

/-- The recorded assigned identifier changes only in an accepted CONNACK that carries an Assigned
Client Identifier, and is then the value of the last such property of that CONNACK. -/
theorem C05_assigned_id_origin {s s' : Session} (h : Prim s s') :
    s'.data.assignedId = s.data.assignedId ∨
    ∃ sp block now cid, s' = (s.activate sp block now).1 ∧ (s.activate sp block now).2 = .ok () ∧
      lastStr .AssignedClientIdentifier (iterEncoded block) = some cid ∧ s'.data.assignedId = some cid :=
  h.assignedId_changes

/-! ### Two histories, run as programs -/

/-- Configuration of the examples: client identifier "c". -/
def C05_exCfg : Cfg :=
  { rx := 64, tx := 64, keepaliveS := 0, expiry := 0, downgrade := false, clientId := [b 0x63], auth := none, will := none }

/-- connect; let the transport accept CONNECT; the broker answers CONNACK(sp = 0, success); read it. -/
def C05_exFirstConnect : List Directive := [.connect, .go, .rx [b 0x20, b 3, b 0, b 0, b 0], .go]

/-- …then: connect; CONNECT goes out; CONNACK(sp = 0, success, Receive Maximum = 0); read it. -/
def C05_exF19 : List Directive :=
  C05_exFirstConnect ++ [.connect, .go, .rx [b 0x20, b 6, b 0, b 0, b 3, b 0x21, b 0, b 0], .go]

/-- …or: connect; CONNACK(sp = 1, success, Assigned Client Identifier "ab"); read it; connect again and
let the CONNECT go out. -/
def C05_exReconnect : List Directive :=
  C05_exFirstConnect ++ [.connect, .go, .rx [b 0x20, b 8, b 1, b 0, b 5, b 0x12, b 0, b 2, b 0x61, b 0x62], .go,
    .connect, .go]

/-- **The F19 history at program level.** After a first accepted connect, a second connect is answered
with CONNACK(sp = 0, success, Receive Maximum = 0): `connect()` fails, yet the session has been reset —
`halfReset` is raised and the next CONNECT would ask for a clean start although a CONNACK had been accepted. -/
theorem C05_example_F19_history :
    let w := C05_exF19.foldl World.execDirective { sess := Session.new C05_exCfg }
    (match w.lastRes with | some (.error .peerInvalid) => true | _ => false) = true ∧
    w.sess.data.everAccepted = true ∧ w.sess.data.halfReset = true ∧ w.sess.data.sessionPresent = false ∧
    w.sess.connectPacket.cleanStart = true := by
  decide

set_option maxRecDepth 8192 in
/-- **A normal reconnect history.** First connect accepted (fresh session); second connect answered
with CONNACK(sp = 1, success, Assigned Client Identifier "ab"); third connect started. The session is
established, not half-reset, asks to resume, and the CONNECT written to the third transport has connect
flags 0 (no clean start) and carries the assigned identifier "ab" — while the first CONNECT had clean
start set and carried the configured "c". -/
theorem C05_example_reconnect_history :
    let w := C05_exReconnect.foldl World.execDirective { sess := Session.new C05_exCfg }
    w.sess.data.everAccepted = true ∧ w.sess.data.halfReset = false ∧ w.sess.connectPacket.cleanStart = false ∧
    w.sess.connectPacket.clientId = [b 0x61, b 0x62] ∧ w.sess.data.assignedId = some [b 0x61, b 0x62] := by
  decide

set_option maxRecDepth 8192 in
/-- The same history on the wire: byte 9 of each CONNECT (the connect flags) and its tail (the client
identifier field), transport by transport. -/
theorem C05_example_reconnect_wire :
    let w := C05_exReconnect.foldl World.execDirective { sess := Session.new C05_exCfg }
    w.nets.map (fun (n : Net) => (n.wire.drop 9).take 1) = [[b 2], [b 0], [b 0]] ∧
    w.nets.map (fun (n : Net) => n.wire.drop 26) = [[b 0, b 1, b 0x63], [b 0, b 1, b 0x63], [b 0, b 2, b 0x61, b 0x62]] := by
  decide

end Minimq
