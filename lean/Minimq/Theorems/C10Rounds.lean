import Minimq.Proofs.KeepaliveRounds
import Minimq.Theorems.C10Machine
/-
C10 over arbitrarily long virtual time: the keep-alive cadence of an application waiting in `recv()`
(`outer = .recv`) or calling `poll()` in a loop (`outer = .poll`), as an induction over a schedule of
rounds of any length (this closes the gap left by `Theorems/C10Machine.lean`, which proves one round).

A schedule is a `List Round` (`Proofs/KeepaliveRounds.lean`). Round `i` is the directive list
  `tick e₁ … tick eₘ`            wake-ups that come before the PINGREQ time (any number, `early`)
  `tick us, d k1, d k2`          the wake-up at or after the PINGREQ time, write and flush decision
  [`poll`]                       only for `poll()`: it has returned `Ok(None)` and is called again
  `tick w₁ … tick wₙ`            wake-ups while the PINGRESP is outstanding (any number, `wait`);
                                 the PINGRESP arrives at the time of the last of them
  `rx D000, d r1, d r2`          the PINGRESP and the two read decisions that deliver it
  [`poll`]                       only for `poll()`: called again
(`Round.sendDirs`, `Round.recvDirs`) and `runRounds outer rs W` executes the concatenation
(`schedule outer rs`) with `World.execDirective`. The timing hypotheses `SchedOK ka t0 now rs` are, per
round (`Round.OK`), with `t_prev` the completion time of the PINGREQ of the round before (`t0` for the
first) and `t = sentAt` the time of the waking tick:
  every `early` wake-up lands before `t_prev + (ka − 5000) ms` (the PINGREQ time `nextPing`);
  `nextPing ≤ t ≤ t_prev + ka ms` (the executor is prompt within the slack the crate leaves: 5 s);
  `2 ≤ k1 ≤ 250` (both bytes at once), `k2 ≤ 250`;
  every `wait` wake-up lands before `t + 5 s` (the ping timeout); `1 ≤ r1, r2 ≤ 250`.
Virtual time is bounded by `4611686018427387904` µs as in the one-round theorems; the bound is a
hypothesis on the time at which the schedule ends.

All statements keep the hypothesis `2 * ROUND_TRIP_TIMEOUT_MS ≤ keepaliveMs` (the F12 boundary,
`C10M_boundary_sharp`): below it the PINGREQ time falls before the ping timeout and the property fails
(finding F12).

Limits: the PINGREQ write decision takes both bytes at once; no wake-up between the arrival of the
PINGRESP and its two read decisions; with `poll()` the application calls it again at once (no virtual
time passes while no operation is suspended — the property speaks of the time the application waits in
`poll()`); the control queue is empty (nothing else is sent in between — any other completed client
packet re-arms the timer as well, which is not covered here).
-/
namespace Minimq
open Gen World Outbound

/-- **C10, cadence for ever.** The application waits in `recv()` or `poll()` after a full service pass
(`IdleWait`), nothing queued, no ping timeout running, the PINGREQ timer armed from the completion time
`t0` of the previous client packet, reader at a packet boundary, keep-alive at least 10 s (twice the
round-trip bound). For EVERY schedule `rs` of rounds that satisfies its timing hypotheses and ends within
the clock's range, of whatever length:

* (every round) for every round `r` of the schedule (`rs = pre ++ r :: post`), with `Wn` the world after
  the rounds before it, `t_prev` the completion time of the PINGREQ before it, `C` the world after its
  flush decision (for `poll()`: and the next call), `R` the world after its PINGRESP, `t` the time of its
  waking tick:
  - `Wn` is `Armed` from `t_prev`: waiting, no timeout, `nextPing = t_prev + (ka − 5000) ms`;
  - the PINGREQ is complete at `C.now = t` with `t_prev + (ka − 5000) ms ≤ t ≤ t_prev + ka ms`; `C` is
    waiting again with the ping timeout `t + 5 s` running and the timer re-armed from `t`; the wire of
    the current transport holds what it held at the start plus exactly `pre.length + 1` times `C0 00`,
    the transmission log exactly as many PINGREQ entries more;
  - `R` (which is `runRounds outer (pre ++ [r]) W`) is `Armed` from `t` — `IdleWait` again, live, no ping
    timeout, `nextPing = t + (ka − 5000) ms` — and the wire and the log are those of `C`: the PINGRESP
    wrote nothing; the session's data is that of `W`;
* (whole run) after every prefix of the directive list the connection is live; with `recv()` the
  operation is still suspended and no operation has returned; with `poll()` the last result is what it
  was or `Ok` — never an error: a PINGRESP received in time never leads to a disconnect;
* (end) the world after the whole schedule is `Armed` from the completion time of the last PINGREQ, the
  clock reads `endTime`, and exactly `rs.length` PINGREQs have gone out. -/
theorem C10R_cadence_forever (W : World) (outer : Outer) (ho : outer = .recv ∨ outer = .poll) (t0 : Nat)
    (hI : IdleWait W outer)
    (hctl : W.sess.data.outbound.control = []) (hpt : W.sess.rt.pingTimeout = none)
    (hsz : W.sess.rt.packetTooLarge 2 = false)
    (harmed : W.sess.rt.nextPing = W.sess.rt.keepaliveSendInterval.map (fun i => t0 + i * 1000))
    (hka : 2 * ROUND_TRIP_TIMEOUT_MS ≤ W.sess.rt.keepaliveMs)
    (hrd : W.sess.reader.data = [] ∧ W.sess.reader.packetLength = none ∧ 2 ≤ W.sess.reader.cap)
    (hrx : W.curNet.rx = [])
    (rs : List Round) (hok : SchedOK W.sess.rt.keepaliveMs t0 W.now rs)
    (hb : endTime rs W.now ≤ 4611686018427387904) :
    let ka := W.sess.rt.keepaliveMs;
    (∀ (pre : List Round) (r : Round) (post : List Round), rs = pre ++ r :: post →
      let Wn := runRounds outer pre W
      let t_prev := lastPing t0 pre W.now
      let C := run (r.sendDirs outer) Wn
      let R := runRounds outer (pre ++ [r]) W
      let t := r.sentAt Wn.now
      (Armed Wn outer ka t_prev ∧ Wn.sess.rt.nextPing = some (t_prev + (ka - ROUND_TRIP_TIMEOUT_MS) * 1000)) ∧
      (C.now = t ∧ t_prev + (ka - ROUND_TRIP_TIMEOUT_MS) * 1000 ≤ t ∧ t ≤ t_prev + ka * 1000 ∧
        IdleWait C outer ∧ C.live = true ∧
        C.sess.rt.pingTimeout = some (t + ROUND_TRIP_TIMEOUT_MS * 1000) ∧
        C.sess.rt.nextPing = some (t + (ka - ROUND_TRIP_TIMEOUT_MS) * 1000) ∧
        C.curNet.wire = W.curNet.wire ++ (List.replicate (pre.length + 1) pingBytes).flatten ∧
        C.log = W.log ++ List.replicate (pre.length + 1) (pingEntry W.nets.length) ∧
        C.nets.dropLast = W.nets.dropLast) ∧
      (R = run (r.recvDirs outer) C ∧ Armed R outer ka t ∧ IdleWait R outer ∧ R.live = true ∧
        R.sess.rt.pingTimeout = none ∧ R.sess.rt.nextPing = some (t + (ka - ROUND_TRIP_TIMEOUT_MS) * 1000) ∧
        R.now = r.endAt Wn.now ∧ R.curNet.wire = C.curNet.wire ∧ R.log = C.log ∧
        R.nets.dropLast = W.nets.dropLast ∧ R.sess.data = W.sess.data)) ∧
    (∀ n, let X := run ((schedule outer rs).take n) W
      X.live = true ∧ (outer = .recv → X.fut.isSome = true ∧ X.lastRes = W.lastRes) ∧
      (X.lastRes = W.lastRes ∨ X.lastRes = some (.ok ()))) ∧
    (let R := runRounds outer rs W;
      Armed R outer ka (lastPing t0 rs W.now) ∧ R.now = endTime rs W.now ∧ Sent W R rs.length) := by
  intro ka
  have hA : Armed W outer ka t0 := ⟨⟨hctl, hpt, hsz, rfl, harmed, hrd, hrx⟩, hI⟩
  obtain ⟨e1, e2, e3⟩ := rounds_run ho hka rs W t0 hA hok hb
  refine ⟨?_, fun n => (Stays.prefix _ W e3.stays n).spell, e1, e2, e3.sent⟩
  intro pre r post hsplit Wn t_prev C R t
  obtain ⟨⟨a1, _, _⟩, hr, ⟨c1, c2, c3⟩, ⟨r1, r2, r3⟩, hR, _⟩ :=
    rounds_each ho hka rs W t0 hA hok hb pre r post hsplit
  rw [hR] at r1 r2 r3
  refine ⟨⟨a1, a1.nextPing hka⟩,
    ⟨c2, hr.due, hr.prompt, c1.idle, c1.idle.live, c1.timeout, c1.nextPing hka, c3.wire, c3.log, c3.others⟩,
    hR.symm, r1, r1.idle, r1.idle.live, r1.noTimeout, r1.nextPing hka, r2, ?_, ?_, r3.others, r3.data⟩
  · rw [r3.wire, c3.wire]
  · rw [r3.log, c3.log]

/-- **C10, the gap between consecutive client packets never exceeds the keep-alive — given a prompt
executor.** The schedule's admissibility (`SchedOK`: each waking tick lands between the PINGREQ time and
the end of the keep-alive period, i.e. the executor honours the deadline the crate hands it within the
5 s of slack the crate leaves) is an *assumption* about the environment, and the upper bound below is
that assumption read off the clock. What the machine contributes, and what is proved, is everything
that makes the assumption sufficient: the PINGREQ is complete at the very tick that wakes the client
(no further wait), exactly one `C0 00` goes out, the deadline handed to the executor for the next round
is `completion + (ka − 5 s)` — never later, so a prompt executor can always meet it — and nothing else
is ever needed. Under the hypotheses of `C10R_cadence_forever`:
* the first PINGREQ of the schedule is complete (clock of the world after its flush decision) no later
  than `t0 + ka ms`, and between the start and that moment exactly `C0 00` was written;
* for any two consecutive rounds `r`, `r'`, the clocks `C.now`, `C'.now` of the worlds after their flush
  decisions satisfy `C.now + (ka − 5000) ms ≤ C'.now ≤ C.now + ka ms`, and between the two moments
  exactly `C0 00` was written on the current transport (and one PINGREQ entry logged);
* in list form: `pingTimes rs W.now` lists these clocks (entry `pre.length` is the clock of the world
  after the flush decision of the round behind `pre`), and any two consecutive entries `a`, `b` of
  `t0 :: pingTimes rs W.now` satisfy `a + (ka − 5000) ms ≤ b` and `b − a ≤ ka ms`. -/
theorem C10R_gap_bound (W : World) (outer : Outer) (ho : outer = .recv ∨ outer = .poll) (t0 : Nat)
    (hI : IdleWait W outer)
    (hctl : W.sess.data.outbound.control = []) (hpt : W.sess.rt.pingTimeout = none)
    (hsz : W.sess.rt.packetTooLarge 2 = false)
    (harmed : W.sess.rt.nextPing = W.sess.rt.keepaliveSendInterval.map (fun i => t0 + i * 1000))
    (hka : 2 * ROUND_TRIP_TIMEOUT_MS ≤ W.sess.rt.keepaliveMs)
    (hrd : W.sess.reader.data = [] ∧ W.sess.reader.packetLength = none ∧ 2 ≤ W.sess.reader.cap)
    (hrx : W.curNet.rx = [])
    (rs : List Round) (hok : SchedOK W.sess.rt.keepaliveMs t0 W.now rs)
    (hb : endTime rs W.now ≤ 4611686018427387904) :
    let ka := W.sess.rt.keepaliveMs;
    (∀ (r : Round) (post : List Round), rs = r :: post →
      let C := run (r.sendDirs outer) W
      C.now - t0 ≤ ka * 1000 ∧ t0 + (ka - ROUND_TRIP_TIMEOUT_MS) * 1000 ≤ C.now ∧
      C.curNet.wire = W.curNet.wire ++ pingBytes ∧ C.log = W.log ++ [pingEntry W.nets.length]) ∧
    (∀ (pre : List Round) (r r' : Round) (post : List Round), rs = pre ++ r :: r' :: post →
      let C := run (r.sendDirs outer) (runRounds outer pre W)
      let C' := run (r'.sendDirs outer) (runRounds outer (pre ++ [r]) W)
      C'.now - C.now ≤ ka * 1000 ∧ C.now + (ka - ROUND_TRIP_TIMEOUT_MS) * 1000 ≤ C'.now ∧
      C'.curNet.wire = C.curNet.wire ++ pingBytes ∧ C'.log = C.log ++ [pingEntry W.nets.length]) ∧
    (∀ (pre : List Round) (r : Round) (post : List Round), rs = pre ++ r :: post →
      (pingTimes rs W.now)[pre.length]? = some (run (r.sendDirs outer) (runRounds outer pre W)).now) ∧
    (∀ (i : Nat) (hi : i + 1 < (t0 :: pingTimes rs W.now).length),
      (t0 :: pingTimes rs W.now)[i] + (ka - ROUND_TRIP_TIMEOUT_MS) * 1000 ≤ (t0 :: pingTimes rs W.now)[i + 1] ∧
      (t0 :: pingTimes rs W.now)[i + 1] - (t0 :: pingTimes rs W.now)[i] ≤ ka * 1000) := by
  intro ka
  have hA : Armed W outer ka t0 := ⟨⟨hctl, hpt, hsz, rfl, harmed, hrd, hrx⟩, hI⟩
  refine ⟨?_, ?_, ?_, ?_⟩
  · intro r post hsplit C
    obtain ⟨h1, h2, h3, h4⟩ := rounds_first ho hka rs W t0 hA hok hb r post hsplit
    exact ⟨Nat.sub_le_of_le_add (by rw [Nat.add_comm]; exact h1), h2, h3, h4⟩
  · intro pre r r' post hsplit C C'
    obtain ⟨h1, h2, h3, h4⟩ := rounds_gap ho hka rs W t0 hA hok hb pre r r' post hsplit
    exact ⟨Nat.sub_le_of_le_add (by rw [Nat.add_comm]; exact h1), h2, h3, h4⟩
  · intro pre r post hsplit
    obtain ⟨⟨_, a2, _⟩, _, ⟨_, c2, _⟩, _, _, _⟩ := rounds_each ho hka rs W t0 hA hok hb pre r post hsplit
    rw [hsplit, pingTimes_at, c2, a2]
  · intro i hi
    obtain ⟨h1, h2⟩ := GapsOK.at _ t0 (SchedOK.gaps rs t0 W.now hok) i hi
    exact ⟨h1, Nat.sub_le_of_le_add (Nat.le_trans h2 (Nat.le_of_eq (Nat.add_comm _ _)))⟩

/-- **C10, an unanswered PINGREQ ends the wait with `Disconnected`, at the bound and not before.** Same
starting state; after ANY schedule `rs` of answered rounds comes a round `r` whose PINGREQ half satisfies
its hypotheses (PINGREQ complete at `t = sentAt`) but whose PINGRESP does not arrive. Then
* through the whole run up to and including the last wake-up of `r.wait` — all of which land before
  `t + 5 s` — the connection is live, `recv()` is suspended and nothing has returned (`poll()` has
  returned nothing but `Ok`), after every prefix of the directive list; at that point the application is
  waiting (`IdleWait`), the clock reads `endAt < t + 5 s`, the ping timeout `t + 5 s` is running, and
  `rs.length + 1` PINGREQs have gone out;
* the next tick, the first to reach `t + 5 s` (by whatever amount), ends the wait with
  `Err(Disconnected)`: no operation suspended, handle dead, session disconnected; nothing is written or
  logged. -/
theorem C10R_unanswered_round_disconnects (W : World) (outer : Outer) (ho : outer = .recv ∨ outer = .poll)
    (t0 : Nat) (hI : IdleWait W outer)
    (hctl : W.sess.data.outbound.control = []) (hpt : W.sess.rt.pingTimeout = none)
    (hsz : W.sess.rt.packetTooLarge 2 = false)
    (harmed : W.sess.rt.nextPing = W.sess.rt.keepaliveSendInterval.map (fun i => t0 + i * 1000))
    (hka : 2 * ROUND_TRIP_TIMEOUT_MS ≤ W.sess.rt.keepaliveMs)
    (hrd : W.sess.reader.data = [] ∧ W.sess.reader.packetLength = none ∧ 2 ≤ W.sess.reader.cap)
    (hrx : W.curNet.rx = [])
    (rs : List Round) (hok : SchedOK W.sess.rt.keepaliveMs t0 W.now rs) (r : Round)
    (hr : r.SentOK W.sess.rt.keepaliveMs (lastPing t0 rs W.now) (endTime rs W.now)) (u : Nat)
    (hd : r.sentAt (endTime rs W.now) + ROUND_TRIP_TIMEOUT_MS * 1000 ≤ r.endAt (endTime rs W.now) + u)
    (hb : r.endAt (endTime rs W.now) + u ≤ 4611686018427387904) :
    let t := r.sentAt (endTime rs W.now)
    let ds := schedule outer rs ++ (r.sendDirs outer ++ r.wait.map Directive.tick)
    let Q := run ds W
    let D := Q.execDirective (.tick u)
    (∀ n, let X := run (ds.take n) W
      X.live = true ∧ (outer = .recv → X.fut.isSome = true ∧ X.lastRes = W.lastRes) ∧
      (X.lastRes = W.lastRes ∨ X.lastRes = some (.ok ()))) ∧
    (IdleWait Q outer ∧ Q.now = r.endAt (endTime rs W.now) ∧ Q.now < t + ROUND_TRIP_TIMEOUT_MS * 1000 ∧
      Q.sess.rt.pingTimeout = some (t + ROUND_TRIP_TIMEOUT_MS * 1000) ∧
      Q.curNet.wire = W.curNet.wire ++ (List.replicate (rs.length + 1) pingBytes).flatten) ∧
    (D.fut = none ∧ D.lastRes = some (.error .disconnected) ∧ D.live = false ∧
      D.sess = Q.sess.handleDisconnect ∧ D.nets = Q.nets ∧ D.log = Q.log) := by
  intro t ds Q D
  have hA : Armed W outer W.sess.rt.keepaliveMs t0 := ⟨⟨hctl, hpt, hsz, rfl, harmed, hrd, hrx⟩, hI⟩
  obtain ⟨h1, ⟨q1, q2⟩, h3⟩ := rounds_unanswered ho hka rs W t0 hA hok r hr u hd hb
  exact ⟨fun n => (Stays.prefix _ W h1.stays n).spell, ⟨q2.idle, q1, q2.fresh, q2.timeout, h1.sent.wire⟩, h3⟩

/-! ### The statements above on a concrete run (the setup of `C10M_example_pingreq`) -/

/-- The world of `C10M_example_pingreq`: keep-alive 10 s, connected, `recv()` waiting at time 0. -/
def C10R_W0 : World := C10M_run []

/-- The same with `poll()` instead of `recv()`. -/
def C10R_P0 : World :=
  [Directive.connect, .go, .rx [b 0x20, b 3, b 0, b 0, b 0], .go, .poll].foldl World.execDirective { sess := Session.new C10M_cfg }

/-- Three rounds: PINGREQs at 5 s, 11.5 s and 21.5 s (the last at the very end of its keep-alive
period), PINGRESPs after 1 s, at once, and 1 µs before the timeout; with early wake-ups. -/
def C10R_rounds : List Round :=
  [{ early := [4999999], us := 1, k1 := 250, k2 := 250, wait := [1000000], r1 := 1, r2 := 1 },
   { early := [1000000, 2000000], us := 2500000, k1 := 2, k2 := 0, wait := [], r1 := 250, r2 := 7 },
   { early := [], us := 10000000, k1 := 100, k2 := 250, wait := [2000000, 2999999], r1 := 3, r2 := 250 }]

set_option maxRecDepth 16384 in
theorem C10R_W0_checks :
    waitReadOf C10R_W0.fut = some (Outer.recv, C10R_W0.sess.rt.nextDeadline, true) ∧
    C10R_W0.live = true ∧ C10R_W0.slot = none ∧
    C10R_W0.sess.data.outbound.nextStep.isNone = true ∧ C10R_W0.nets.isEmpty = false ∧
    C10R_W0.sess.data.outbound.control.isEmpty = true ∧ C10R_W0.sess.rt.pingTimeout = none ∧
    C10R_W0.sess.rt.packetTooLarge 2 = false ∧ C10R_W0.sess.rt.keepaliveMs = 10000 ∧
    C10R_W0.sess.rt.nextPing = C10R_W0.sess.rt.keepaliveSendInterval.map (fun i => 0 + i * 1000) ∧
    (C10R_W0.sess.reader.data = [] ∧ C10R_W0.sess.reader.packetLength = none ∧ 2 ≤ C10R_W0.sess.reader.cap) ∧
    C10R_W0.curNet.rx = [] ∧ C10R_W0.now = 0 := by
  decide +kernel

set_option maxRecDepth 16384 in
theorem C10R_P0_checks :
    waitReadOf C10R_P0.fut = some (Outer.poll, C10R_P0.sess.rt.nextDeadline, true) ∧
    C10R_P0.live = true ∧ C10R_P0.slot = none ∧
    C10R_P0.sess.data.outbound.nextStep.isNone = true ∧ C10R_P0.nets.isEmpty = false ∧
    C10R_P0.sess.data.outbound.control.isEmpty = true ∧ C10R_P0.sess.rt.pingTimeout = none ∧
    C10R_P0.sess.rt.packetTooLarge 2 = false ∧ C10R_P0.sess.rt.keepaliveMs = 10000 ∧
    C10R_P0.sess.rt.nextPing = C10R_P0.sess.rt.keepaliveSendInterval.map (fun i => 0 + i * 1000) ∧
    (C10R_P0.sess.reader.data = [] ∧ C10R_P0.sess.reader.packetLength = none ∧ 2 ≤ C10R_P0.sess.reader.cap) ∧
    C10R_P0.curNet.rx = [] ∧ C10R_P0.now = 0 := by
  decide +kernel

/-- The starting state of the examples satisfies the hypotheses of the theorems. -/
theorem C10R_W0_armed : Armed C10R_W0 .recv 10000 0 := by
  obtain ⟨h1, h2, h3, h4, h5, h6, h7, h8, h9, h10, h11, h12, _⟩ := C10R_W0_checks
  exact Armed.of_checks _ _ _ _ (by decide) h1 h2 h3 h4 h5 h6 h7 h8 h9 h10 h11 h12

theorem C10R_P0_armed : Armed C10R_P0 .poll 10000 0 := by
  obtain ⟨h1, h2, h3, h4, h5, h6, h7, h8, h9, h10, h11, h12, _⟩ := C10R_P0_checks
  exact Armed.of_checks _ _ _ _ (by decide) h1 h2 h3 h4 h5 h6 h7 h8 h9 h10 h11 h12

/-- The schedule satisfies its timing hypotheses; its PINGREQ completion times and its end. -/
theorem C10R_rounds_ok : SchedOK 10000 0 0 C10R_rounds ∧ pingTimes C10R_rounds 0 = [5000000, 11500000, 21500000] ∧
    endTime C10R_rounds 0 = 26499999 := by
  decide

/-- The hypotheses of `C10R_cadence_forever` hold for `C10R_W0` and `C10R_rounds`, and its conclusion
for the whole schedule, spelled out: after the three rounds the application is waiting again, timer
armed from 21.5 s, the clock reads 26.499999 s, and the wire holds three `C0 00` more. -/
example :
    let R := runRounds .recv C10R_rounds C10R_W0
    Armed R .recv 10000 21500000 ∧ R.now = 26499999 ∧ R.live = true ∧
    R.curNet.wire = C10R_W0.curNet.wire ++ [b 0xC0, b 0, b 0xC0, b 0, b 0xC0, b 0] ∧
    (∀ n, (run ((schedule .recv C10R_rounds).take n) C10R_W0).live = true ∧
      (run ((schedule .recv C10R_rounds).take n) C10R_W0).fut.isSome = true) := by
  obtain ⟨_, _, _, _, _, _, _, _, hka, _, _, _, hnow⟩ := C10R_W0_checks
  have hA := C10R_W0_armed
  have hok : SchedOK C10R_W0.sess.rt.keepaliveMs 0 C10R_W0.now C10R_rounds := by
    rw [hka, hnow]; exact C10R_rounds_ok.1
  obtain ⟨_, h2, h3, h4, h5⟩ := C10R_cadence_forever C10R_W0 .recv (Or.inl rfl) 0 hA.idle hA.ctl hA.noTimeout hA.fits
    hA.armed (by rw [hka]; decide) hA.reader hA.rx C10R_rounds hok (by rw [hnow]; decide)
  rw [hka, hnow] at h3
  rw [hnow] at h4
  exact ⟨h3, h4, h3.idle.live, h5.wire, fun n => ⟨(h2 n).1, ((h2 n).2.1 rfl).1⟩⟩

/-- The same for `poll()`. -/
example :
    let R := runRounds .poll C10R_rounds C10R_P0
    Armed R .poll 10000 21500000 ∧ R.now = 26499999 ∧ R.live = true ∧
    R.curNet.wire = C10R_P0.curNet.wire ++ [b 0xC0, b 0, b 0xC0, b 0, b 0xC0, b 0] := by
  obtain ⟨_, _, _, _, _, _, _, _, hka, _, _, _, hnow⟩ := C10R_P0_checks
  have hA := C10R_P0_armed
  have hok : SchedOK C10R_P0.sess.rt.keepaliveMs 0 C10R_P0.now C10R_rounds := by
    rw [hka, hnow]; exact C10R_rounds_ok.1
  obtain ⟨_, _, h3, h4, h5⟩ := C10R_cadence_forever C10R_P0 .poll (Or.inr rfl) 0 hA.idle hA.ctl hA.noTimeout hA.fits
    hA.armed (by rw [hka]; decide) hA.reader hA.rx C10R_rounds hok (by rw [hnow]; decide)
  rw [hka, hnow] at h3
  rw [hnow] at h4
  exact ⟨h3, h4, h3.idle.live, h5.wire⟩

set_option maxRecDepth 16384 in
/-- The same by evaluation (view: time, PINGREQ time, ping timeout, live, wire behind the CONNECT, control
queue length, suspended), and the PINGREQ completion clocks of the three rounds. -/
example :
    (C10M_view (runRounds .recv C10R_rounds C10R_W0) ==
      (26499999, some 26500000, none, true, [b 0xC0, b 0, b 0xC0, b 0, b 0xC0, b 0], 0, true)) = true ∧
    (C10M_view (runRounds .poll C10R_rounds C10R_P0) ==
      (26499999, some 26500000, none, true, [b 0xC0, b 0, b 0xC0, b 0, b 0xC0, b 0], 0, true)) = true ∧
    (run (C10R_rounds[0].sendDirs .recv) C10R_W0).now = 5000000 ∧
    (run (C10R_rounds[1].sendDirs .recv) (runRounds .recv (C10R_rounds.take 1) C10R_W0)).now = 11500000 ∧
    (run (C10R_rounds[2].sendDirs .recv) (runRounds .recv (C10R_rounds.take 2) C10R_W0)).now = 21500000 := by
  decide +kernel

/-- The third round unanswered: wake-ups up to 1 µs before 26.5 s change nothing, the tick that reaches
26.5 s ends `recv()` with `Disconnected` — by `C10R_unanswered_round_disconnects`. -/
example :
    let r : Round := { early := [], us := 10000000, k1 := 2, k2 := 250, wait := [2000000, 2999999], r1 := 0, r2 := 0 }
    let Q := run (schedule .recv (C10R_rounds.take 2) ++ (r.sendDirs .recv ++ r.wait.map Directive.tick)) C10R_W0
    let D := Q.execDirective (.tick 1)
    Q.now = 26499999 ∧ Q.live = true ∧ Q.fut.isSome = true ∧
    D.fut = none ∧ D.lastRes = some (.error .disconnected) ∧ D.live = false := by
  intro r Q D
  obtain ⟨_, _, _, _, _, _, _, _, hka, _, _, _, hnow⟩ := C10R_W0_checks
  have hA := C10R_W0_armed
  have hok : SchedOK C10R_W0.sess.rt.keepaliveMs 0 C10R_W0.now (C10R_rounds.take 2) := by
    rw [hka, hnow]; decide
  have hr : r.SentOK C10R_W0.sess.rt.keepaliveMs (lastPing 0 (C10R_rounds.take 2) C10R_W0.now)
      (endTime (C10R_rounds.take 2) C10R_W0.now) := by
    rw [hka, hnow]; decide
  obtain ⟨_, ⟨q0, q1, _, _, _⟩, d1, d2, d3, _⟩ := C10R_unanswered_round_disconnects C10R_W0 .recv (Or.inl rfl) 0
    hA.idle hA.ctl hA.noTimeout hA.fits hA.armed (by rw [hka]; decide) hA.reader hA.rx (C10R_rounds.take 2) hok r hr 1
    (by rw [hnow]; decide) (by rw [hnow]; decide)
  have q1' : Q.now = 26499999 := by rw [q1, hnow]; decide
  exact ⟨q1', q0.live, by rw [q0.fut]; rfl, d1, d2, d3⟩

set_option maxRecDepth 16384 in
/-- The same by evaluation, for `recv()` and for `poll()`. -/
example :
    let sent : List Directive := schedule .recv (C10R_rounds.take 2) ++ [.tick 10000000, .d 2, .d 250]
    let sentP : List Directive := schedule .poll (C10R_rounds.take 2) ++ [.tick 10000000, .d 2, .d 250, .poll]
    (C10M_view (run (sent ++ [.tick 2000000, .tick 2999999]) C10R_W0) ==
      (26499999, some 26500000, some 26500000, true, [b 0xC0, b 0, b 0xC0, b 0, b 0xC0, b 0], 0, true)) = true ∧
    (C10M_view (run (sent ++ [.tick 2000000, .tick 2999999, .tick 1]) C10R_W0) ==
      (26500000, none, none, false, [b 0xC0, b 0, b 0xC0, b 0, b 0xC0, b 0], 0, false)) = true ∧
    (match (run (sent ++ [.tick 2000000, .tick 2999999, .tick 1]) C10R_W0).lastRes with
      | some (.error .disconnected) => true | _ => false) = true ∧
    (C10M_view (run (sentP ++ [.tick 2000000, .tick 2999999]) C10R_P0) ==
      (26499999, some 26500000, some 26500000, true, [b 0xC0, b 0, b 0xC0, b 0, b 0xC0, b 0], 0, true)) = true ∧
    (match (run (sentP ++ [.tick 2000000, .tick 2999999, .tick 1]) C10R_P0).lastRes with
      | some (.error .disconnected) => true | _ => false) = true := by
  decide +kernel

/-! ### The hypothesis `2 * ROUND_TRIP_TIMEOUT_MS ≤ keepaliveMs` cannot be dropped (finding F12) -/

/-- Keep-alive 2 s, below the boundary: the PINGREQ interval is 1 s. -/
def C10R_cfg2 : Cfg := { C10M_cfg with keepaliveS := 2 }

def C10R_run2 (ds : List Directive) : World :=
  (C10M_pre ++ ds).foldl World.execDirective { sess := Session.new C10R_cfg2 }

set_option maxRecDepth 16384 in
/-- A round of the same shape with keep-alive 2 s: the PINGREQ is complete at 1 s (timeout at 6 s, next
PINGREQ time 2 s); the wake-ups at 2 s, 3 s and 4 s — at and after the PINGREQ time — send nothing
because the ping timeout is running; the PINGRESP arrives in time at 4.999999 s and only then is the
next PINGREQ queued, and completed at 4.999999 s: 3.999999 s after the previous client packet, with an
effective keep-alive of 2 s. -/
theorem C10R_below_boundary_gap_exceeds_keepalive :
    let sent : List Directive := [.tick 1000000, .d 250, .d 250]
    let late : List Directive := sent ++ [.tick 1000000, .tick 1000000, .tick 1000000]
    let answered : List Directive := late ++ [.tick 999999, .rx [b 0xD0, b 0], .d 1, .d 1]
    (C10R_run2 []).sess.rt.keepaliveMs = 2000 ∧
    (C10M_view (C10R_run2 sent) == (1000000, some 2000000, some 6000000, true, [b 0xC0, b 0], 0, true)) = true ∧
    (C10M_view (C10R_run2 late) == (4000000, some 2000000, some 6000000, true, [b 0xC0, b 0], 0, true)) = true ∧
    (C10M_view (C10R_run2 answered) == (4999999, some 2000000, none, true, [b 0xC0, b 0], 1, true)) = true ∧
    (C10M_view (C10R_run2 (answered ++ [.d 250, .d 250])) ==
      (4999999, some 5999999, some 9999999, true, [b 0xC0, b 0, b 0xC0, b 0], 0, true)) = true ∧
    4999999 - 1000000 > 2000 * 1000 := by
  decide +kernel

end Minimq
